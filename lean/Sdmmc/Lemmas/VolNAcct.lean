/-
Several open volumes: the FAT32 free-space record (C16) PER VOLUME — the lemmas of `Props.C16Multi`.

Offsets are indexed by the raw volume handle: `δ : Nat → Int`.

* `CountOKN δ s`, `DeltaOKN δ s` — every open volume record `vi` is in balance (`AcctAll.Bal`) with offset `δ vi.rawVolume`,
  and that offset is in the range where the `u32` count cannot saturate (`AcctAll.DeltaOK`);
* `freeCount_congr_partition` — the number of free FAT entries of a volume reads the medium only inside its partition;
* `countN_of_same` — calls that change neither the volume table nor the medium;
* `countN_targeted` — **a call addressed to volume record `i`**: record `i` through the one-volume theorem
  (`AcctAll.step_countOK`, applied by the caller to the projection), every other record because it is unchanged and no
  block of its partition changed (`Lifted.frame`, `VolInvN.parts`);
* `countN_closeVolume` — `close_volume`: records only leave, the only block written is the information sector of the
  closed volume, which is a FAT block of no open volume;
* `countN_openVolume` — `open_raw_volume`: the medium is only read; the old records stay; the new record by hypothesis;
* `countN_untargeted` — all calls that work on no volume record; `countN_label` — `get_root_volume_label`.
-/
import Sdmmc.Lemmas.AcctAllHist
import Sdmmc.Lemmas.VolNFrame
import Sdmmc.Lemmas.VolNTab
import Sdmmc.Lemmas.VolNStep

namespace Sdmmc.Lemmas.VolN
open Sdmmc.Model Sdmmc.Model.Fat Sdmmc.Spec.Volume
open Sdmmc.Spec hiding NoFault Coherent run step
open Sdmmc.Lemmas.MHoare
open Sdmmc.Lemmas.AcctAll (Bal DeltaOK CountOK Keeps)

/-! ### Vocabulary -/

/-- Every open volume is in balance, with the offset of ITS handle. -/
def CountOKN (δ : Nat → Int) (s : Mgr) : Prop := ∀ vi, vi ∈ s.vols → Bal (δ vi.rawVolume) vi.vol s.dev.disk

/-- The offset of every open volume is in the range where the count cannot saturate. -/
def DeltaOKN (δ : Nat → Int) (s : Mgr) : Prop := ∀ vi, vi ∈ s.vols → DeltaOK vi.vol (δ vi.rawVolume)

/-! ### What the free count reads -/

/-- **The number of free FAT entries of a volume depends on the medium only inside the volume's partition.** -/
theorem freeCount_congr_partition {v : FatVolume} {d d' : Disk} (hg : WFGeom v)
    (h : ∀ b, InPartition v b → d'.get b = d.get b) : freeCount v d' = freeCount v d :=
  Acct.freeCount_congr fun c hc => h _ (inPartition_of_region (.inl (FatLens.fat_blocks_in_fat_region v hg c hc).1))

/-- … only its FAT region. -/
theorem freeCount_congr_fatRegion {v : FatVolume} {d d' : Disk} (hg : WFGeom v)
    (h : ∀ b, regionOf v b = .fat → d'.get b = d.get b) : freeCount v d' = freeCount v d :=
  Acct.freeCount_congr fun c hc => h _ (FatLens.fat_blocks_in_fat_region v hg c hc).1

theorem bal_congr {δ : Int} {v : FatVolume} {d d' : Disk} (h : freeCount v d' = freeCount v d) (hb : Bal δ v d) : Bal δ v d' := by
  intro n hn
  rw [h]; exact hb n hn

/-- Every open volume record has an index and a sound geometry. -/
theorem wf_of_mem {s : Mgr} {ghs : List Ghost} (hI : VolInvN s ghs) {w : VolInfo} (hw : w ∈ s.vols) :
    ∃ j : Nat, s.vols[j]? = some w ∧ WFGeom w.vol := by
  obtain ⟨j, hj⟩ : ∃ j : Nat, s.vols[j]? = some w := List.getElem?_of_mem hw
  have hjlt : j < ghs.length := by rw [hI.len]; exact (List.getElem?_eq_some_iff.1 hj).1
  obtain ⟨g, hg⟩ : ∃ g, ghs[j]? = some g := ⟨_, List.getElem?_eq_getElem hjlt⟩
  refine ⟨j, hj, ?_⟩
  rw [hI.vols j w g hj hg]
  exact (hI.med j w g hj hg).geom

/-! ### Calls that change neither the volume table nor the medium -/

theorem countN_of_same {s s' : Mgr} {δ : Nat → Int} (hv : s'.vols = s.vols) (hd : s'.dev.disk = s.dev.disk)
    (h : CountOKN δ s ∧ DeltaOKN δ s) : CountOKN δ s' ∧ DeltaOKN δ s' := by
  constructor
  · intro w hw
    rw [hv] at hw
    rw [hd]; exact h.1 w hw
  · intro w hw
    rw [hv] at hw
    exact h.2 w hw

theorem countN_resetLogs {s : Mgr} {δ : Nat → Int} (h : CountOKN δ s ∧ DeltaOKN δ s) :
    CountOKN δ (resetLogs s) ∧ DeltaOKN δ (resetLogs s) := h

theorem countN_keeps {α} {m : M α} (hm : Keeps m) {s : Mgr} {δ : Nat → Int} (h : CountOKN δ s ∧ DeltaOKN δ s) :
    CountOKN δ (m s).2 ∧ DeltaOKN δ (m s).2 :=
  countN_of_same (hm s).1 (hm s).2 h

/-! ### A call addressed to one volume record -/

/-- The projection to record `i` is in balance with the offset of that record's handle. -/
theorem countOK_projH {s : Mgr} {δ : Nat → Int} (hC : CountOKN δ s) {i : Nat} {vi : VolInfo} (hvi : s.vols[i]? = some vi) :
    CountOK (δ vi.rawVolume) (projH vi.rawVolume i s) := by
  intro w hw
  have hw' : w ∈ (s.vols[i]?).toList := hw
  rw [hvi] at hw'
  have e : w = vi := List.mem_singleton.1 hw'
  rw [e]
  exact hC vi (List.mem_of_getElem? hvi)

/-- **A call addressed to volume record `i`** keeps the balance of every open volume, each with its own offset: record `i`
because the projected call keeps it (`hC'`: the one-volume theorem on `t'`), the others by the frame. -/
theorem countN_targeted {s s' t' : Mgr} {ghs : List Ghost} {i : Nat} {vi : VolInfo} {gh gh' : Ghost} {δ : Nat → Int}
    (hI : VolInvN s ghs) (hvi : s.vols[i]? = some vi) (hgh : ghs[i]? = some gh) (hL : Lifted s s' t' i vi gh gh')
    (hC : CountOKN δ s) (hD : DeltaOKN δ s) (hC' : CountOK (δ vi.rawVolume) t') : CountOKN δ s' ∧ DeltaOKN δ s' := by
  have hlen : s'.vols.length = s.vols.length := by
    have := congrArg List.length hL.volKeys
    simpa using this
  have hother : ∀ j, j ≠ i → s'.vols[j]? = s.vols[j]? := fun j hj => getElem?_of_eraseIdx_eq hL.restVols hlen hj
  have hvol : vi.vol = gh.vol := hI.vols i vi gh hvi hgh
  -- a record of `s'` is record `i` (known through `t'`) or an unchanged record of `s`
  have key : ∀ w, w ∈ s'.vols →
      (t'.vols = [w] ∧ w.rawVolume = vi.rawVolume ∧ w.vol = gh'.vol) ∨ (∃ j, j ≠ i ∧ s.vols[j]? = some w) := by
    intro w hw
    obtain ⟨j, hj⟩ : ∃ j : Nat, s'.vols[j]? = some w := List.getElem?_of_mem hw
    by_cases hji : j = i
    · subst hji
      have htv : t'.vols = [w] := by rw [hL.rel.vols, hj]; rfl
      have hkey : vkey w = vkey vi := by
        have h1 : (s'.vols.map vkey)[j]? = some (vkey w) := by rw [List.getElem?_map, hj]; rfl
        have h2 : (s.vols.map vkey)[j]? = some (vkey vi) := by rw [List.getElem?_map, hvi]; rfl
        rw [hL.volKeys, h2] at h1
        exact (Option.some.inj h1).symm
      refine .inl ⟨htv, congrArg Prod.fst hkey, ?_⟩
      rcases hL.inv.vols with h0 | ⟨w', hw', hwv⟩
      · rw [htv] at h0; cases h0
      · rw [htv] at hw'; cases hw'; exact hwv
    · exact .inr ⟨j, hji, by rw [← hother j hji]; exact hj⟩
  -- no block of the partition of another volume changed
  have hframe : ∀ (j : Nat) (w : VolInfo), j ≠ i → s.vols[j]? = some w → ∀ b, InPartition w.vol b →
      s'.dev.disk.get b = s.dev.disk.get b := by
    intro j w hj hw b hb
    apply hL.frame
    rw [← hvol]
    exact fun hbi => hI.parts i j vi w hvi hw (Ne.symm hj) b hbi hb
  constructor
  · intro w hw
    rcases key w hw with ⟨htv, hraw, _⟩ | ⟨j, hji, hj⟩
    · rw [hraw, ← hL.rel.dev]
      exact hC' w (by rw [htv]; exact List.mem_singleton.2 rfl)
    · have hwm : w ∈ s.vols := List.mem_of_getElem? hj
      obtain ⟨_, _, hg⟩ := wf_of_mem hI hwm
      exact bal_congr (freeCount_congr_partition hg (hframe j w hji hj)) (hC w hwm)
  · intro w hw
    rcases key w hw with ⟨_, hraw, hwv⟩ | ⟨j, _, hj⟩
    · rw [hraw, hwv]
      have := hD vi (List.mem_of_getElem? hvi)
      rw [hvol] at this
      exact AcctAll.deltaOK_sameGeom hL.geom this
    · exact hD w (List.mem_of_getElem? hj)

/-! ### `close_volume` -/

/-- `close_volume` only removes records. -/
theorem closeVolume_vols_mem {s : Mgr} {ghs : List Ghost} (hI : VolInvN s ghs) (hm : MirrorN s ghs) (v : Nat) :
    ∀ w, w ∈ (closeVolume v s).2.vols → w ∈ s.vols := by
  unfold closeVolume
  rw [get_bind]
  by_cases hfa : (s.files.any (·.rawVolume = v)) = true
  · rw [if_pos hfa]; exact fun _ h => h
  rw [if_neg hfa]
  by_cases hda : (s.dirs.any (·.rawVolume = v)) = true
  · rw [if_pos hda]; exact fun _ h => h
  rw [if_neg hda]
  cases hv : s.vols.findIdx? (·.rawVolume = v) with
  | none => rw [bind_err (getVolumeById_bad hv)]; exact fun _ h => h
  | some k =>
    obtain ⟨vi, hvi, _⟩ := findIdx?_some_get hv
    rw [bind_ok (getVolumeById_ok hv)]
    obtain ⟨dev', cache', hw, _, _⟩ := withVol_updateInfo_multi hI hm hvi
    rw [bind_ok hw]
    intro w hmem
    have : w ∈ swapRemove s.vols k := hmem
    exact VolApi.mem_of_mem_swapRemove this

/-- `close_volume` changes no FAT block of any open volume (the closed one included). -/
theorem closeVolume_freeCount {s : Mgr} {ghs : List Ghost} (hI : VolInvN s ghs) (v : Nat) {w : VolInfo} (hw : w ∈ s.vols) :
    freeCount w.vol (closeVolume v s).2.dev.disk = freeCount w.vol s.dev.disk := by
  obtain ⟨j, hj, hg⟩ := wf_of_mem hI hw
  refine freeCount_congr_fatRegion hg fun b hb => ?_
  by_contra hne
  obtain ⟨k, vk, hvk, _, hreg⟩ := closeVolume_disk hI v b hne
  by_cases hkj : k = j
  · subst hkj
    rw [hvk] at hj; cases hj
    rw [hb] at hreg; cases hreg
  · exact hI.parts k j vk w hvk hj hkj b (inPartition_of_info hreg) (inPartition_of_region (.inl hb))

/-- **`close_volume`** keeps the balance of every volume that stays open. -/
theorem countN_closeVolume {s : Mgr} {ghs : List Ghost} {δ : Nat → Int} (hI : VolInvN s ghs) (hm : MirrorN s ghs) (v : Nat)
    (h : CountOKN δ s ∧ DeltaOKN δ s) : CountOKN δ (closeVolume v s).2 ∧ DeltaOKN δ (closeVolume v s).2 := by
  constructor
  · intro w hw
    have hw0 := closeVolume_vols_mem hI hm v w hw
    exact bal_congr (closeVolume_freeCount hI v hw0) (h.1 w hw0)
  · intro w hw
    exact h.2 w (closeVolume_vols_mem hI hm v w hw)

/-! ### `open_raw_volume` -/

/-- **`open_raw_volume`**: the medium is only read and the old records stay; a SUCCESSFUL mount appends one record, which is in
balance by hypothesis (`hnew`). -/
theorem countN_openVolume {s : Mgr} {δ : Nat → Int} (idx : Nat) (h : CountOKN δ s ∧ DeltaOKN δ s)
    (hnew : ∀ hd s', openRawVolume idx s = (.ok hd, s') → ∀ vi, s'.vols.getLast? = some vi →
      Bal (δ hd) vi.vol s.dev.disk ∧ DeltaOK vi.vol (δ hd)) :
    CountOKN δ (openRawVolume idx s).2 ∧ DeltaOKN δ (openRawVolume idx s).2 := by
  obtain ⟨t, ⟨dev', cache', rfl, hd, _, _⟩, hcase⟩ := VolApi.openRaw_good idx s
  rcases hcase with h1 | ⟨vnew, _, h1⟩
  · rw [h1]
    exact countN_of_same (s := s) (s' := { s with dev := dev', cache := cache' }) rfl hd h
  · obtain ⟨hb, hdl⟩ := hnew _ _ h1 { rawVolume := s.nextId, idx := idx, vol := vnew } (by
      show (s.vols ++ [_]).getLast? = _
      rw [List.getLast?_concat])
    rw [h1]
    have hvols : (VolApi.addVol { s with dev := dev', cache := cache' } idx vnew).vols =
        s.vols ++ [{ rawVolume := s.nextId, idx := idx, vol := vnew }] := rfl
    have hdisk : (VolApi.addVol { s with dev := dev', cache := cache' } idx vnew).dev.disk = s.dev.disk := hd
    constructor
    · intro w hw
      rw [hdisk]
      rw [hvols] at hw
      rcases List.mem_append.1 hw with hw | hw
      · exact h.1 w hw
      · rw [List.mem_singleton.1 hw]; exact hb
    · intro w hw
      rw [hvols] at hw
      rcases List.mem_append.1 hw with hw | hw
      · exact h.2 w hw
      · rw [List.mem_singleton.1 hw]; exact hdl

/-! ### The calls that work on no volume record -/

/-- Every call with `target s op = none`; for `open_volume` the hypothesis on the successful mount. -/
theorem countN_untargeted {s : Mgr} {ghs : List Ghost} {δ : Nat → Int} (hI : VolInvN s ghs) (hm : MirrorN s ghs) (op : Op)
    (ht : target s op = none) (h : CountOKN δ s ∧ DeltaOKN δ s)
    (hnew : ∀ idx, op = .openVolume idx → ∀ hd s', openRawVolume idx (resetLogs s) = (.ok hd, s') →
      ∀ vi, s'.vols.getLast? = some vi → Bal (δ hd) vi.vol s.dev.disk ∧ DeltaOK vi.vol (δ hd)) :
    CountOKN δ (step s op).1 ∧ DeltaOKN δ (step s op).1 := by
  have hI0 := volInvN_resetLogs hI
  have hm0 : MirrorN (resetLogs s) ghs := mirrorN_frame hm rfl
  have h0 := countN_resetLogs h
  rw [step_unlocked s op hI.unlocked]
  simp only
  cases op with
  | openVolume idx =>
    rw [show (runOp (.openVolume idx) (resetLogs s)).2 = (openRawVolume idx (resetLogs s)).2 from VolApi.map_state _ _ _]
    exact countN_openVolume idx h0 (hnew idx rfl)
  | closeVolume v =>
    rw [show (runOp (.closeVolume v) (resetLogs s)).2 = (closeVolume v (resetLogs s)).2 from VolApi.seq_state _ _ _]
    exact countN_closeVolume hI0 hm0 v h0
  | openRoot v =>
    rw [show (runOp (.openRoot v) (resetLogs s)).2 = (openRootDir v (resetLogs s)).2 from VolApi.map_state _ _ _]
    exact countN_keeps (AcctAll.keeps_openRootDir v) h0
  | closeDir d =>
    rw [show (runOp (.closeDir d) (resetLogs s)).2 = (closeDir d (resetLogs s)).2 from VolApi.seq_state _ _ _]
    exact countN_keeps (AcctAll.keeps_closeDir d) h0
  | hasOpen => exact h0
  | label v =>
    rw [untargeted_state hI0 _ (by exact ht) (fun _ h => by cases h) (fun _ h => by cases h)
      (fun _ h => by cases h) (fun _ h => by cases h) (fun h => by cases h)]
    exact h0
  | _ =>
    rw [untargeted_state hI0 _ (by exact ht) (fun _ h => by cases h) (fun _ h => by cases h)
      (fun _ h => by cases h) (fun _ h => by cases h) (fun h => by cases h)]
    exact h0

/-- **`get_root_volume_label`** changes neither the volume table nor the medium — whatever the handle generator hands out
(no `LabelFresh` hypothesis). -/
theorem countN_label {s : Mgr} {δ : Nat → Int} (hl : s.locked = false) (v : Nat) (h : CountOKN δ s ∧ DeltaOKN δ s) :
    CountOKN δ (step s (.label v)).1 ∧ DeltaOKN δ (step s (.label v)).1 := by
  rw [step_unlocked s _ hl]
  simp only
  rw [show (runOp (.label v) (resetLogs s)).2 = (getRootVolumeLabel v (resetLogs s)).2 from VolApi.map_state _ _ _]
  exact countN_keeps (AcctAll.keeps_label v) (countN_resetLogs h)

end Sdmmc.Lemmas.VolN
