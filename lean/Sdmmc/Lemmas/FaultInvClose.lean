/-
C11 under the invariant, part 22: closing never panics — from ANY state (whatever a failed call left: any cache,
any schedule, any medium): `close_dir` and `close_volume` answer `Ok` or an error; so does `close_file`, unless the
record of the file says "size ≠ 0 and no cluster" (the crate's assertion in `flush_file`).
-/
import Sdmmc.Lemmas.FaultInvMain

namespace Sdmmc.Lemmas.FaultInv
open Sdmmc.Model Sdmmc.Model.Fat Sdmmc.Spec.Volume
open Sdmmc.Spec hiding NoFault Coherent
open Sdmmc.Lemmas.Fault Sdmmc.Lemmas.FaultPre Sdmmc.Lemmas.MHoare

/-- The outcome is `Ok` or an error: neither a panic nor a hang. -/
def Clean {α} (r : Res α) : Prop := (∃ a, r = .ok a) ∨ ∃ e, r = .err e

/-- Hoare triple for "no panic": from a state with `P`, `m` answers `Ok` or an error, and `Q` holds after `Ok`. -/
def CleanF {α} (P : FS → Prop) (m : F α) (Q : FS → Prop) : Prop :=
  ∀ s, P s → Clean (m s).1 ∧ ∀ a, (m s).1 = .ok a → Q (m s).2

def Tagged (s : FS) : Prop := s.cache.tag ≠ none

theorem CleanF.bind {α β} {P Q R : FS → Prop} {m : F α} {f : α → F β} (hm : CleanF P m Q) (hf : ∀ a, CleanF Q (f a) R) :
    CleanF P (m >>= f) R := by
  intro s hs
  obtain ⟨hc, hq⟩ := hm s hs
  rcases hr : m s with ⟨r, s'⟩
  rw [hr] at hc hq
  rcases hc with ⟨a, rfl⟩ | ⟨e, rfl⟩
  · rw [F.bind_ok hr]; exact hf a s' (hq a rfl)
  · rw [F.bind_err hr]; exact ⟨.inr ⟨e, rfl⟩, fun a h => by cases h⟩

theorem CleanF.pure {α} {P : FS → Prop} (a : α) : CleanF P (pure a : F α) P := fun _ hs => ⟨.inl ⟨a, rfl⟩, fun _ _ => hs⟩
theorem CleanF.weaken {α} {P P' Q Q' : FS → Prop} {m : F α} (h : CleanF P m Q) (hp : ∀ s, P' s → P s) (hq : ∀ s, Q s → Q' s) :
    CleanF P' m Q' := fun s hs => ⟨(h s (hp s hs)).1, fun a ha => hq _ ((h s (hp s hs)).2 a ha)⟩

theorem cacheRead_cleanF (i : Nat) : CleanF (fun _ => True) (cacheRead i) Tagged := by
  intro s _
  refine ⟨?_, fun a ha => ?_⟩
  · rcases cacheRead_cases i s with ⟨_, he⟩ | ⟨_, he, hr⟩ | ⟨_, hok, _⟩
    · rw [he]; exact .inl ⟨(), rfl⟩
    · rw [he]; exact .inr ⟨_, hr⟩
    · exact .inl ⟨(), hok⟩
  · have : (cacheRead i s).1 = .ok () := by rw [ha]
    intro h
    rw [cacheRead_ok_tag i s this] at h
    cases h

theorem cacheModify_cleanF (f : Block → Block) : CleanF Tagged (cacheModify f) Tagged :=
  fun _ hs => ⟨.inl ⟨(), rfl⟩, fun _ _ => hs⟩

theorem writeBack_cleanF : CleanF Tagged writeBack (fun _ => True) := by
  intro s hs
  refine ⟨?_, fun _ _ => trivial⟩
  cases ht : s.cache.tag with
  | none => exact absurd ht hs
  | some i =>
    rcases devWrite_pre i s with ⟨_, h⟩ | ⟨_, h⟩
    · rw [writeBack_okW ht h]; exact .inl ⟨(), rfl⟩
    · rw [writeBack_errW ht h]; exact .inr ⟨_, rfl⟩

theorem updateInfoSector_clean (s : FS) : Clean (updateInfoSector s).1 := by
  have key : CleanF (fun _ => True) updateInfoSector (fun _ => True) := by
    unfold updateInfoSector
    refine CleanF.bind (Q := fun _ => True) (fun s _ => ⟨.inl ⟨s.vol, rfl⟩, fun _ _ => trivial⟩) fun v => ?_
    split
    · exact CleanF.pure ()
    · split
      · exact CleanF.pure ()
      · refine CleanF.bind (cacheRead_cleanF _) fun _ => ?_
        dsimp only
        split
        · refine CleanF.bind (cacheModify_cleanF _) fun _ => ?_
          split
          · exact CleanF.bind (cacheModify_cleanF _) fun _ => writeBack_cleanF
          · exact writeBack_cleanF
        · split
          · exact CleanF.bind (cacheModify_cleanF _) fun _ => writeBack_cleanF
          · exact writeBack_cleanF
  exact (key s trivial).1

theorem writeEntryToDisk_clean (e : DirEntry) (s : FS) : Clean (writeEntryToDisk e s).1 := by
  have key : CleanF (fun _ => True) (writeEntryToDisk e) (fun _ => True) := by
    unfold writeEntryToDisk
    refine CleanF.bind (Q := fun _ => True) (fun s _ => ⟨.inl ⟨s.vol, rfl⟩, fun _ _ => trivial⟩) fun v => ?_
    refine CleanF.bind (cacheRead_cleanF _) fun _ => ?_
    exact CleanF.bind (cacheModify_cleanF _) fun _ => writeBack_cleanF
  exact (key s trivial).1

/-! ### The manager -/

theorem withVol_clean {α} (i : Nat) (f : F α) (s : Mgr) (hi : i < s.vols.length) (hf : ∀ t, Clean (f t).1) :
    Clean (withVol i f s).1 := by
  rcases withVol_cases i f s with ⟨hn, _⟩ | ⟨vi, _, he⟩
  · rw [List.getElem?_eq_getElem hi] at hn; cases hn
  · rw [he]; exact hf _

/-- The record does not trip the crate's assertion `entry.cluster.0 != 0` in `flush_file`. -/
def FileSane (f : FileInfo) : Prop := f.entry.size ≠ 0 → f.entry.cluster ≠ 0

theorem clean_map {α β} {m : M α} (g : α → β) {s : Mgr} (h : Clean (m s).1) :
    Clean ((m >>= fun a => (pure (g a) : M β)) s).1 := by
  rw [bind_def]
  rcases hr : m s with ⟨r, s'⟩
  rw [hr] at h
  rcases h with ⟨a, rfl⟩ | ⟨e, rfl⟩
  · exact .inl ⟨g a, rfl⟩
  · exact .inr ⟨e, rfl⟩

/-- **`flush_file` never panics on a sane record** — from any state. -/
theorem flushFile_clean (f : Nat) (s : Mgr) (hs : ∀ x, x ∈ s.files → FileSane x) : Clean (flushFile f s).1 := by
  unfold flushFile
  cases hidx : s.files.findIdx? (·.rawFile = f) with
  | none => rw [bind_err (getFileById_bad hidx)]; exact .inr ⟨_, rfl⟩
  | some i =>
    obtain ⟨x, hx, _⟩ := findIdx?_some_get hidx
    rw [bind_ok (getFileById_ok hidx), bind_ok (getFile_ok hx)]
    by_cases hd : x.dirty = true
    · rw [if_pos hd]
      cases hv : s.vols.findIdx? (·.rawVolume = x.rawVolume) with
      | none => rw [bind_err (getVolumeById_bad hv)]; exact .inr ⟨_, rfl⟩
      | some vi =>
        obtain ⟨v, hvv, _⟩ := findIdx?_some_get hv
        have hlt : vi < s.vols.length := (List.getElem?_eq_some_iff.1 hvv).1
        rw [bind_ok (getVolumeById_ok hv), bind_def]
        have h1 := withVol_clean vi updateInfoSector s hlt updateInfoSector_clean
        have hT := MTab.withVol vi updateInfoSector_geo s
        rcases hw : withVol vi updateInfoSector s with ⟨r, s1⟩
        rw [hw] at h1 hT
        rcases h1 with ⟨a, rfl⟩ | ⟨e, rfl⟩
        · simp only
          have hsane := hs x (List.mem_of_getElem? hx)
          by_cases hp : x.entry.size ≠ 0 ∧ x.entry.cluster = 0
          · exact absurd hp.2 (hsane hp.1)
          · rw [if_neg hp]
            have hlen : s1.vols.length = s.vols.length := by
              have := congrArg Prod.snd hw
              rcases withVol_cases vi updateInfoSector s with ⟨hn, _⟩ | ⟨v', _, he⟩
              · rw [List.getElem?_eq_getElem hlt] at hn; cases hn
              · rw [he] at this; simp only at this; rw [← this]; simp
            exact withVol_clean vi _ s1 (by rw [hlen]; exact hlt) (writeEntryToDisk_clean _)
        · exact .inr ⟨e, rfl⟩
    · rw [if_neg hd]; exact .inl ⟨(), rfl⟩

/-- **`close_file` never panics on a sane record**, and an open handle leaves the table whatever the flush answered. -/
theorem closeFile_clean (f : Nat) (s : Mgr) (hs : ∀ x, x ∈ s.files → FileSane x) : Clean (closeFile f s).1 := by
  cases hi : s.files.findIdx? (fun x => decide (x.rawFile = f)) with
  | none => rw [closeFile_bad f s hi]; exact .inr ⟨_, rfl⟩
  | some i => rw [closeFile_eq f s hi]; exact flushFile_clean f s hs

theorem closeDir_clean (d : Nat) (s : Mgr) : Clean (closeDir d s).1 ∧ (closeDir d s).2.dev = s.dev := by
  unfold closeDir
  rw [get_bind]
  cases s.dirs.findIdx? (·.rawDirectory = d) with
  | none => exact ⟨.inr ⟨_, rfl⟩, rfl⟩
  | some i => exact ⟨.inl ⟨(), rfl⟩, rfl⟩

theorem closeVolume_clean (v : Nat) (s : Mgr) : Clean (closeVolume v s).1 := by
  unfold closeVolume
  rw [get_bind]
  split
  · exact .inr ⟨_, rfl⟩
  split
  · exact .inr ⟨_, rfl⟩
  cases hv : s.vols.findIdx? (·.rawVolume = v) with
  | none => rw [bind_err (getVolumeById_bad hv)]; exact .inr ⟨_, rfl⟩
  | some vi =>
    obtain ⟨x, hvv, _⟩ := findIdx?_some_get hv
    have hlt : vi < s.vols.length := (List.getElem?_eq_some_iff.1 hvv).1
    rw [bind_ok (getVolumeById_ok hv), bind_def]
    have h1 := withVol_clean vi updateInfoSector s hlt updateInfoSector_clean
    rcases hw : withVol vi updateInfoSector s with ⟨r, s1⟩
    rw [hw] at h1
    rcases h1 with ⟨a, rfl⟩ | ⟨e, rfl⟩
    · exact .inl ⟨(), rfl⟩
    · exact .inr ⟨e, rfl⟩

/-- Under the invariant every open file's record is sane. -/
theorem fileSane_of_volInv {s : Mgr} {gh : Ghost} (hI : VolInv s gh) : ∀ x, x ∈ s.files → FileSane x := by
  intro x hx hsz hcl
  obtain ⟨hok, _⟩ := hI.med.fileOK x hx
  rcases hok.chain with ⟨_, _, h0⟩ | hch
  · exact hsz h0
  · have := (ChainL.chain_inRange hch _ (ForestBase.chain_head_mem hch)).1
    omega

/-- Closing a directory handle keeps `FInv`. -/
theorem closeDir_finv {s : Mgr} {gh : Ghost} (h : FInv s gh) (d : Nat) : FInv (closeDir d s).2 gh := by
  have hsub := closeDir_dsub d s
  unfold closeDir at hsub ⊢
  rw [get_bind] at hsub ⊢
  cases hidx : s.dirs.findIdx? (·.rawDirectory = d) with
  | none => exact h
  | some i =>
    exact ⟨h.unlocked, h.maxVols, h.vols, h.dirs, fun di hd =>
      h.openDirs di (VolApi.mem_of_mem_swapRemove (show di ∈ swapRemove s.dirs i from hd)), h.coherent⟩

end Sdmmc.Lemmas.FaultInv
