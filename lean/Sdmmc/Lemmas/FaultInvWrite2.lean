/-
C11 under the invariant, part 23 (API): a `write` under ANY fault schedule leaves every chain of the volume other
than the written file's own — every other file, every sub-directory — a chain holding the bytes it held, and every
block of the FAT16 root directory as it was (`write_others_intact`; from `Retry.write_keeps_others`, hypotheses
discharged from `VolInv`).
-/
import Sdmmc.Lemmas.FaultInvWrite

namespace Sdmmc.Lemmas.FaultInv
open Sdmmc.Model Sdmmc.Model.Fat Sdmmc.Spec.Volume Sdmmc.Lemmas.VolBase Sdmmc.Lemmas.VolTree
open Sdmmc.Spec hiding NoFault Coherent
open Sdmmc.Lemmas.VolDisk Sdmmc.Lemmas.VolMed Sdmmc.Lemmas.VolApi Sdmmc.Lemmas.VolEng
open Sdmmc.Lemmas.FBasic (NoFault Coherent)
open Sdmmc.Lemmas.CrashBase Sdmmc.Lemmas.Retry Sdmmc.Lemmas.FaultPre Sdmmc.Lemmas.MHoare

/-- The chain of the file a `write` works on (`[]` if the handle does not resolve). -/
def ownChain (s : Mgr) (gh : Ghost) (h : Nat) : List Nat :=
  match s.files.find? (·.rawFile = h) with
  | some f => chainOf gh.G f.entry.cluster
  | none => []

theorem find?_of_findIdx? {α} {p : α → Bool} {l : List α} {i : Nat} {x : α} (hi : l.findIdx? p = some i) (hx : l[i]? = some x) :
    l.find? p = some x := by
  induction l generalizing i with
  | nil => cases hx
  | cons a l ih =>
    rw [List.findIdx?_cons] at hi
    rw [List.find?_cons]
    cases hp : p a with
    | true =>
      rw [hp] at hi
      simp only [if_true, Option.some.injEq] at hi
      subst hi
      simp only [List.getElem?_cons_zero, Option.some.injEq] at hx
      rw [hx]
    | false =>
      rw [hp] at hi
      simp only [Bool.false_eq_true, if_false, Option.map_eq_some_iff] at hi
      obtain ⟨j, hj, rfl⟩ := hi
      rw [List.getElem?_cons_succ] at hx
      exact ih hj hx

/-- **`write` under any fault schedule and the other objects.** -/
theorem write_others_intact {s0 : Mgr} {gh : Ghost} (hI : VolInv s0 gh) (L : List Nat) (file : Nat) (data : Bytes) :
    (∀ X, X ∈ gh.G → X ≠ ownChain s0 gh file →
      Chain gh.vol (Model.write file data (withFaults L s0)).2.dev.disk (X.headD 0) X ∧
      chainBytes gh.vol (Model.write file data (withFaults L s0)).2.dev.disk X = chainBytes gh.vol s0.dev.disk X) ∧
    (∀ b, regionOf gh.vol b = .root → (Model.write file data (withFaults L s0)).2.dev.disk.get b = s0.dev.disk.get b) := by
  have hM : MedX gh.vol s0.dev.disk s0.files gh [] := medX_of_med hI.med
  have hsame : (Model.write file data (withFaults L s0)).2.dev.disk = s0.dev.disk →
      (∀ X, X ∈ gh.G → X ≠ ownChain s0 gh file →
        Chain gh.vol (Model.write file data (withFaults L s0)).2.dev.disk (X.headD 0) X ∧
        chainBytes gh.vol (Model.write file data (withFaults L s0)).2.dev.disk X = chainBytes gh.vol s0.dev.disk X) ∧
      (∀ b, regionOf gh.vol b = .root → (Model.write file data (withFaults L s0)).2.dev.disk.get b = s0.dev.disk.get b) := by
    intro h
    rw [h]
    exact ⟨fun X hX _ => ⟨med_chain hM hX, rfl⟩, fun _ _ => rfl⟩
  cases hidx : s0.files.findIdx? (·.rawFile = file) with
  | none =>
    apply hsame
    have : Model.write file data (withFaults L s0) = (.err .BadHandle, withFaults L s0) := by
      unfold Model.write
      rw [bind_err (getFileById_bad (s := withFaults L s0) hidx)]
    rw [this]; rfl
  | some i =>
    obtain ⟨f, hf, _⟩ := findIdx?_some_get hidx
    have hfm : f ∈ s0.files := List.mem_of_getElem? hf
    obtain ⟨vi, hv, hvol, hrv, _⟩ := vol_of_file hI hfm
    have hvfind : s0.vols.findIdx? (·.rawVolume = f.rawVolume) = some 0 := by rw [hv]; simp [hrv]
    have hvi : s0.vols[0]? = some vi := by rw [hv]; rfl
    by_cases hmode : f.mode = .ReadOnly
    · apply hsame
      rw [Modes.write_readOnly (s := withFaults L s0) file data i f 0 hidx hf hvfind hmode]; rfl
    have hown : ownChain s0 gh file = chainOf gh.G f.entry.cluster := by
      unfold ownChain; rw [find?_of_findIdx? hidx hf]
    have hG : HeadsOK gh.G := med_heads hM
    obtain ⟨hok, hcur⟩ := hI.med.fileOK f hfm
    rw [hown]
    generalize hcsdef : chainOf gh.G f.entry.cluster = cs at hok hcur
    have hhead : cs ≠ [] → cs ∈ gh.G ∧ cs.head? = some f.entry.cluster := by
      intro hne
      rw [← hcsdef] at hne ⊢
      exact chainOf_spec hG ((chainOf_ne_nil_iff hG).1 hne)
    obtain ⟨A, B, hGeq⟩ : ∃ A B, gh.G = withChain A cs B := by
      by_cases hne : cs = []
      · exact ⟨[], gh.G, by rw [hne, WriteRefines.withChain_nil]; rfl⟩
      · obtain ⟨A, B, h⟩ := List.append_of_mem (hhead hne).1
        exact ⟨A, B, by rw [WriteRefines.withChain_ne hne, h]; simp⟩
    have hs : MgrOKF (withFaults L s0) := ⟨hI.coherent, hI.med.blocksOK, hI.unlocked⟩
    obtain ⟨_, _, cs', _, hch, hframe⟩ :=
      Retry.write_keeps_others (withFaults L s0) file i 0 data f vi cs A B hs hidx hf hvfind hvi hmode
        (by rw [hvol]; exact hI.med.geom) (by rw [hvol]; exact hI.med.hint) (by rw [hvol]; exact hok) hcur
        (by rw [hvol, ← hGeq]; exact hI.med.owns)
    obtain ⟨⟨_, _, _, _, _⟩, ⟨cs'', _, hoth⟩⟩ :=
      Retry.write_kept (withFaults L s0) file i 0 data f vi cs A B hs hidx hf hvfind hvi hmode
        (by rw [hvol]; exact hI.med.geom) (by rw [hvol]; exact hI.med.hint) (by rw [hvol]; exact hok) hcur
        (by rw [hvol, ← hGeq]; exact hI.med.owns)
    rw [hvol] at hch hframe
    refine ⟨fun X hX hne => ?_, fun b hb => ?_⟩
    · have hXm : X ∈ A ++ B := by
        rw [hGeq] at hX
        by_cases hnil : cs = []
        · rw [hnil, WriteRefines.withChain_nil] at hX; simpa using hX
        · rw [WriteRefines.withChain_ne hnil] at hX
          rcases List.mem_append.1 hX with h | h
          · rcases List.mem_append.1 h with h | h
            · exact List.mem_append_left _ h
            · exact absurd (List.mem_singleton.1 h) hne
          · exact List.mem_append_right _ h
      obtain ⟨h1, _, h3⟩ := hch X hXm
      exact ⟨h1, h3⟩
    · -- a block of the FAT16 root directory is neither a FAT block nor a cluster block
      have hframe2 := hoth.frame
      have hrange2 := hoth.inRange
      rw [hvol] at hframe2 hrange2
      apply hframe2
      · intro hfat
        have := WriteRefines.isFatBlock_region hI.med.geom hfat
        rw [hb] at this; cases this
      · rintro ⟨c, hc, hle, hlt⟩
        have hcr := hrange2 c hc
        have hdata := FatLens.cluster_blocks_in_data_region gh.vol hI.med.geom c (b - clusterToBlock gh.vol c) hcr.1 hcr.2 (by omega)
        rw [show clusterToBlock gh.vol c + (b - clusterToBlock gh.vol c) = b by omega, hb] at hdata
        cases hdata

end Sdmmc.Lemmas.FaultInv
