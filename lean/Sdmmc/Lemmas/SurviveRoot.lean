/-
C09 over whole histories, part 12: the root directory of a medium and the fresh reader.  `root_read`: on a medium
that shows the flushed file in a slot of the root directory (the fixed region on FAT16, the chain of the root cluster
on FAT32), where the root directory has a clean tail and distinct names, the slot is the first hit for the file's
name, and any fresh manager that mounts the medium opens the root directory, opens the file and reads exactly its
contents.
-/
import Sdmmc.Lemmas.SurviveStep
import Sdmmc.Lemmas.ForestFinal

namespace Sdmmc.Lemmas.Survive
open Sdmmc.Model Sdmmc.Model.Fat Sdmmc.Spec.Volume Sdmmc.Lemmas.VolBase Sdmmc.Lemmas.VolTree
open Sdmmc.Spec hiding NoFault Coherent
open Sdmmc.Lemmas.VolDisk Sdmmc.Lemmas.VolMed Sdmmc.Lemmas.VolEng
open Sdmmc.Lemmas.WriteSetInv
open Sdmmc.Lemmas.ReadRefines (MgrOK)

/-- The reader's slot list of the root directory is the invariant's. -/
theorem dirSlotsOf_root (v : FatVolume) (d : Disk) (G : List (List Nat)) :
    Reopen.dirSlotsOf v d 0xFFFFFFFC (dirChain v G 0) = dirSlots v d G 0 := by
  rw [dirSlots_eq]
  unfold Reopen.dirSlotsOf
  by_cases h16 : v.fatType = .fat16
  · rw [if_pos (show Reopen.IsFixedRoot v 0xFFFFFFFC from ⟨h16, rfl⟩), if_pos (show isFixedRoot v 0 from ⟨rfl, h16⟩)]
    rfl
  · rw [if_neg (show ¬ Reopen.IsFixedRoot v 0xFFFFFFFC from fun hk => h16 hk.1), if_neg (show ¬ isFixedRoot v 0 from fun hk => h16 hk.2)]
    rfl

/-- The root directory is on the medium, for the reader: nothing to show on FAT16; on FAT32 the chain of the root
cluster. -/
theorem root_dirOn {w : FatVolume} (hgw : WFGeom w) {d : Disk} {rc : List Nat}
    (hrc : w.fatType = .fat32 → Chain w d w.firstRootDirCluster rc) : Reopen.DirOn w d Gen.CLUSTER_ROOT_DIR rc := by
  intro hk
  have h32 : w.fatType = .fat32 := by
    cases hft : w.fatType with
    | fat16 => exact absurd ⟨hft, rfl⟩ hk
    | fat32 => rfl
  have hch := hrc h32
  have hstart : Listing.startCluster w Gen.CLUSTER_ROOT_DIR = w.firstRootDirCluster := by
    unfold Listing.startCluster
    rw [h32]
    exact if_pos rfl
  obtain ⟨rest, hrest⟩ : ∃ rest, rc = w.firstRootDirCluster :: rest := by
    cases hch with
    | last _ _ _ => exact ⟨[], rfl⟩
    | link _ n rest _ _ _ _ => exact ⟨rest, rfl⟩
  refine ⟨rest, by rw [hstart]; exact hrest, VolWalk.dirChain_of_chain hgw hch, ?_⟩
  have := (ForestFinal.chain_fits_fuel w d _ _ hch).1
  rw [hrest] at this
  simp only [List.length_cons] at this
  omega

/-- **The fresh reader on a medium whose root directory shows the flushed file.** -/
theorem root_read {v0 : FatVolume} (hg : WFGeom v0) {dk : Disk} {G : List (List Nat)} {e : DirEntry} {cs : List Nat}
    (hF : FlushedOn v0 dk e cs) (hst : Reopen.Storable v0.fatType e) (hn0 : byteAt e.name 0 ≠ 0) (hn5 : byteAt e.name 0 ≠ 0xE5)
    (hlfn : e.attributes % 16 ≠ 15) (hplain : Attr.isDirectory e.attributes = false)
    (hfit : e.size ≤ cs.length * clusterBytesLen v0)
    (hct : CleanTail (dirSlots v0 dk G 0)) (hnd : ((entries (dirSlots v0 dk G 0)).map sName).Nodup)
    (hxm : slotOf v0.fatType e ∈ dirSlots v0 dk G 0)
    (hrc : v0.fatType = .fat32 → Chain v0 dk v0.firstRootDirCluster (chainOf G v0.firstRootDirCluster))
    (idx : Nat) (w : FatVolume) (hmw : mountPure (dk.get 0) idx dk.get = .ok w) (hsw : SameGeom v0 w) :
    Reopen.FirstHit (Reopen.dirSlotsOf v0 dk 0xFFFFFFFC (dirChain v0 G 0)) e.name (slotOf v0.fatType e) ∧
    ∀ (t0 : Mgr) (name : List Nat), MgrOK t0 → t0.dev.disk = dk → t0.vols = [] → t0.dirs = [] → t0.files = [] →
      0 < t0.maxVols → 0 < t0.maxDirs → 0 < t0.maxFiles → t0.nextId + 2 < 4294967296 →
      Sfn.createFromStr name = .ok e.name →
      ∃ t1 t2 t3, openRawVolume idx t0 = (.ok t0.nextId, t1) ∧
        openRootDir t0.nextId t1 = (.ok (t0.nextId + 1), t2) ∧
        openFileInDir (t0.nextId + 1) name .ReadOnly t2 = (.ok (t0.nextId + 2), t3) ∧
        t3.dev.disk = dk ∧ t3.dev.wlog = t0.dev.wlog ∧
        fileLength (t0.nextId + 2) t3 = (.ok e.size, t3) ∧
        ∀ n, ∃ t4, read (t0.nextId + 2) n t3 = (.ok ((fileContent v0 dk cs e.size).take n), t4) ∧
          t4.dev.disk = dk ∧ t4.dev.wlog = t0.dev.wlog := by
  obtain ⟨hsn, hfi, hat, _, _⟩ := slotOf_fields v0.fatType e hst
  have hfh := firstHit_of_clean hct hnd hxm (by rw [hfi]; exact hn0) (by rw [hfi]; exact hn5)
    (by unfold isFrag; rw [hat]; simpa using hlfn)
  rw [hsn, ← dirSlotsOf_root] at hfh
  refine ⟨hfh, ?_⟩
  intro t0 name ht0 hdisk hvols hdirs hfiles hmv hmd hmf hid hname
  have hgw : WFGeom w := hsw.wfGeom hg
  have hftw : w.fatType = v0.fatType := hsw.fatType
  have hdc : dirChain v0 G 0 = if v0.fatType = .fat16 then [] else chainOf G v0.firstRootDirCluster := by
    by_cases h16 : v0.fatType = .fat16
    · have hf : isFixedRoot v0 0 := ⟨rfl, h16⟩
      unfold dirChain; rw [if_pos hf, if_pos h16]
    · have hf : ¬ isFixedRoot v0 0 := fun hk => h16 hk.2
      unfold dirChain; rw [if_neg hf, if_neg h16]; unfold dirHead; rw [if_pos rfl]
  have hdir : Reopen.DirOn w dk Gen.CLUSTER_ROOT_DIR (dirChain v0 G 0) := by
    refine root_dirOn hgw fun h32 => ?_
    have h32' : v0.fatType = .fat32 := by rw [← hftw]; exact h32
    rw [hdc, if_neg (by rw [h32']; intro e; cases e)]
    have := ForestBase.chain_sameGeom hsw (hrc h32')
    have hr : w.firstRootDirCluster = v0.firstRootDirCluster := by
      obtain ⟨a, b, rfl⟩ := hsw
      rfl
    rw [hr]; exact this
  have hdec : Listing.decode w.fatType (slotOf v0.fatType e) = Reopen.stored e := by
    rw [hftw]; exact Reopen.decode_serialize v0.fatType e hst
  have hres := fresh_reads_root dk idx w hmw hgw (dirChain v0 G 0) hdir e.name (slotOf v0.fatType e) (Reopen.stored e) cs
    (by rw [dirSlotsOf_sameGeom hsw]; exact hfh) hdec hplain
    (by
      rcases hF.chain with h | h
      · exact .inl h
      · exact .inr (ForestBase.chain_sameGeom hsw h))
    (by rw [WriteRefines.sameGeom_clusterBytesLen hsw]; exact hfit)
    t0 name ht0 hdisk hvols hdirs hfiles hmv hmd hmf hid hname
  have hfc : ∀ n, fileContent w dk cs n = fileContent v0 dk cs n := fun n => WriteRefines.sameGeom_fileContent hsw _ _ _
  obtain ⟨t1, t2, t3, h1, h2, h3, h4, h5, h6, h7⟩ := hres
  refine ⟨t1, t2, t3, h1, h2, h3, h4, h5, h6, fun n => ?_⟩
  obtain ⟨t4, hr, hd4, hw4⟩ := h7 n
  refine ⟨t4, ?_, hd4, hw4⟩
  rw [← hfc]; exact hr

end Sdmmc.Lemmas.Survive
