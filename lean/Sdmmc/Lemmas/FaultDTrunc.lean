/-
ROUTE (D) — THE TRUNCATING `open_file_in_dir` UNDER ANY SCHEDULE, part 1 (medium level): the crash stages of
`truncate_cluster_chain(c)` on the chain of a CLOSED file carry the invariant WITH MORE SIZE SLACK (`medD_trunc_stage`):
the file keeps its entry (old size) over the cut chain `[c]`; the released part of the chain is free and what is left of
it is a lost chain; `FileOK` of every open file is kept.  (The counterpart of `Lemmas/FaultXTrunc.medW_trunc_stage`, which
lands in the weak `MedW`.)
-/
import Sdmmc.Lemmas.FaultDFree
import Sdmmc.Lemmas.VolDXEng7
import Sdmmc.Lemmas.FaultXTrunc

namespace Sdmmc.Lemmas.VolD
open Sdmmc.Model Sdmmc.Model.Fat Sdmmc.Spec.Volume Sdmmc.Lemmas.VolBase Sdmmc.Lemmas.VolTree
open Sdmmc.Spec hiding NoFault Coherent
open Sdmmc.Lemmas.VolDisk Sdmmc.Lemmas.VolMed Sdmmc.Lemmas.VolEng Sdmmc.Lemmas.VolX Sdmmc.Lemmas.FaultX
open Sdmmc.Lemmas.CrashBase Sdmmc.Lemmas.CrashFat

section
variable {sk : Nat} {v : FatVolume} {d0 d : Disk} {files : List FileInfo} {gh : Ghost} {X : List (List Nat)}

/-- The slack after a truncation of a chain `c :: tail` that was cut short. -/
def truncSlack (v : FatVolume) (sk : Nat) (n : Nat) : Nat := (n + 1) * (clusterBytesLen v + sk)

theorem le_truncSlack (v : FatVolume) (sk n : Nat) : sk ≤ truncSlack v sk n := by
  unfold truncSlack
  have : clusterBytesLen v + sk ≤ (n + 1) * (clusterBytesLen v + sk) := Nat.le_mul_of_pos_left _ (Nat.succ_pos _)
  omega

/-- **A crash stage of the truncation of a closed file**: `c` terminated, the first `j` clusters of the rest of its
chain released. -/
theorem medD_trunc_stage (hM : MedD sk v d0 files gh X) {h : Nat} (hh : h ∈ dirIds gh.dirs) {o : Slot}
    (ho : o ∈ objects h (dirSlots v d0 gh.G h)) (hod : isDirE o = false) (hfree : pendOf files o = none)
    {A B : List (List Nat)} {tail : List Nat} (hG : gh.G = A ++ (sCluster v.fatType o :: tail) :: B)
    (hb : BlocksOK d) (j : Nat) (hst : Stage v d0 d [sCluster v.fatType o] (tail.take j)) :
    MedD (truncSlack v sk tail.length) v d files
      { vol := v, G := A ++ [sCluster v.fatType o] :: B, dirs := gh.dirs } (restChains tail j ++ X) := by
  generalize hcdef : sCluster v.fatType o = c at hG hst ⊢
  have hGs : HeadsOK gh.G := med_heads hM
  have hGs' : HeadsOK (A ++ (c :: tail) :: B) := by rw [← hG]; exact hGs
  have ho0 : Owns v d0 (A ++ [c :: tail] ++ (B ++ X)) := by
    have := hM.owns
    rw [hG] at this
    simpa [List.append_assoc] using this
  have hown1 := owns_free_stage j ho0 hst
  have hown : Owns v d ((A ++ [c] :: B) ++ (restChains tail j ++ X)) := by
    refine owns_perm ?_ hown1
    simp only [List.append_assoc, List.cons_append, List.nil_append]
    refine List.Perm.append_left A (List.Perm.cons _ ?_)
    rw [← List.append_assoc, ← List.append_assoc]
    exact List.Perm.append_right X List.perm_append_comm
  have hG1 : HeadsOK (A ++ [c] :: B) := heads_left (heads_of_owns hown)
  have hheads : heads (A ++ [c] :: B) = heads gh.G := by rw [hG]; exact heads_replace A B _ _ rfl
  have hchains : ∀ x, x ≠ c → chainOf (A ++ [c] :: B) x = chainOf gh.G x := by
    intro x hx
    rw [hG]
    exact chainOf_replace_other hGs' hG1 rfl (by simpa using hx)
  have hself : chainOf (A ++ [c] :: B) c = [c] := chainOf_replace_self hG1 rfl
  have hselfG : chainOf gh.G c = c :: tail := by
    rw [hG]; exact chainOf_replace_self hGs' rfl
  obtain ⟨hdirne, hfilene⟩ := closed_object_apart hM hh ho hod hfree
  rw [hcdef] at hdirne hfilene
  have hc0 : c ≠ 0 := by
    have := hGs'.ge (c :: tail) (List.mem_append_right _ List.mem_cons_self)
    simp only [List.headD_cons] at this
    omega
  have hblocks : ∀ x, x ∈ dirIds gh.dirs → ∀ s, s ∈ dirSlots v d0 gh.G x → d.get s.1 = d0.get s.1 := by
    intro x hx s hs
    apply hst.within.nonFat _ _ id
    rcases dirSlot_not_fat hM hx hs with h1 | h1 <;> rw [h1] <;> intro e <;> cases e
  obtain ⟨A0, B0, hAB⟩ := List.append_of_mem ho
  have hO : objects h (dirSlots v d0 gh.G h) = A0 ++ [o] ++ B0 := by rw [hAB]; simp
  have hec : effCluster v.fatType files o = c := by rw [effCluster_of_none hfree]; exact hcdef
  have hes : effSize files o = sSize o := effSize_of_none hfree
  have hT0 := treeOK_mono (cb' := clusterBytesLen v + truncSlack v sk tail.length)
    (Nat.add_le_add_left (le_truncSlack v sk tail.length) _) hM.tree
  have htree : TreeOK v.fatType (clusterBytesLen v + truncSlack v sk tail.length) (rootHead v) (A ++ [c] :: B) gh.dirs
      (dirSlots v d0 gh.G) files := by
    apply tree_files_edit hT0 hGs (objPos_nodup hM) hh hO hod (fun _ _ => rfl) hM.tree.filesDistinct hM.tree.fileAttrs
      hM.tree.fileSlots
    · intro x _ hx
      rw [hec] at hx
      rw [hchains x hx]; exact Nat.le_refl _
    · intro a; rw [hheads]
    · unfold SizeOK
      rw [hec, hes, hself]
      right
      refine ⟨hc0, ?_⟩
      have := hM.tree.sizes h hh o ho hod
      rw [hec, hes, hselfG] at this
      rcases this with ⟨h1, _⟩ | ⟨_, h2⟩
      · exact absurd h1 hc0
      · simp only [List.length_cons, List.length_nil] at h2 ⊢
        unfold truncSlack
        omega
  refine medX_assemble (dw := d0) (G0 := gh.G) hM.geom (SameGeom.refl v) hM.hint hb hown
    (fun x hx hfx => hchains _ (hdirne x hx hfx)) hblocks htree fun f hf => ?_
  obtain ⟨hok, hcur⟩ := hM.fileOK f hf
  have hfc : chainOf (A ++ [c] :: B) f.entry.cluster = chainOf gh.G f.entry.cluster := by
    by_cases hfe : f.entry.cluster = c
    · exact absurd (hfilene f hf hfe) hc0
    · exact hchains _ hfe
  rw [hfc]
  refine ⟨fileOK_of_owns (SameGeom.refl v) hok hown ?_, hcur⟩
  by_cases hnil : chainOf gh.G f.entry.cluster = []
  · exact .inl hnil
  · right
    rw [← hfc]
    exact List.mem_append_left _ (chainOf_spec hG1 (by rw [hheads]; exact (chainOf_ne_nil_iff hGs).1 hnil)).1

end

end Sdmmc.Lemmas.VolD
