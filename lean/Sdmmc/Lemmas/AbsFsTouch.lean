/-
Refinement of the API to the abstract file system, part 19 (abstract side only): a step of the abstract file
system changes at most the slot `touched` names (`absStep_untouched`).
-/
import Sdmmc.Spec.AbsFsTouch

namespace Sdmmc.Lemmas.AbsFsTouch
open Sdmmc.Model Sdmmc.Spec.AbsFs

/-! ### One slot is put -/

theorem freeIdx_le (ss : List Slot) : freeIdx ss ≤ ss.length := by
  unfold freeIdx
  cases h : ss.findIdx? Slot.isDeleted with
  | none => exact Nat.le_refl _
  | some i =>
    have := (List.findIdx?_eq_some_iff_getElem.1 h).1
    exact Nat.le_of_lt this

theorem lookup_lt {ss : List Slot} {name : Bytes} {i : Nat} (h : lookup ss name = some i) : i < ss.length :=
  (List.findIdx?_eq_some_iff_getElem.1 h).1

theorem put_other (ss : List Slot) (i j : Nat) (sl : Slot) (hi : i ≤ ss.length) (hne : j ≠ i) : (put ss i sl)[j]? = ss[j]? := by
  unfold put
  split
  · rw [List.getElem?_set, if_neg (fun e => hne e.symm)]
  · next hlt =>
    have hil : i = ss.length := by omega
    by_cases hj : j < ss.length
    · rw [List.getElem?_append_left hj]
    · have h1 : ss[j]? = none := List.getElem?_eq_none (by omega)
      rw [h1]
      apply List.getElem?_eq_none
      rw [List.length_append]
      show ss.length + 1 ≤ j
      omega

theorem setSlot_other (a : AbsFs) (h i : Nat) (sl : Slot) (hi : i ≤ (a.slots h).length) {x j : Nat} (hne : (x, j) ≠ (h, i)) :
    ((setSlot a h i sl).slots x)[j]? = (a.slots x)[j]? := by
  unfold setSlot
  dsimp only
  by_cases hx : x = h
  · subst hx
    rw [if_pos rfl]
    exact put_other _ _ _ _ hi fun e => hne (by rw [e])
  · rw [if_neg hx]

/-! ### The calls that change no directory -/

section
variable {a a' : AbsFs} {r : Res Payload}

theorem openVolumeS_slots {idx : Nat} (h : openVolumeS a idx a' r) : a'.slots = a.slots := by
  unfold openVolumeS at h
  split at h
  · obtain ⟨rfl, _⟩ := h; rfl
  · rcases h with ⟨rfl, _⟩ | ⟨rfl, _⟩ <;> rfl

theorem closeVolumeS_slots {v : Nat} (h : closeVolumeS a v a' r) : a'.slots = a.slots := by
  unfold closeVolumeS at h
  repeat' split at h
  all_goals (obtain ⟨rfl, _⟩ := h; rfl)

theorem openRootF_slots (v : Nat) : (openRootF a v).1.slots = a.slots := by
  unfold openRootF
  split <;> rfl

theorem closeDirF_slots (d : Nat) : (closeDirF a d).1.slots = a.slots := by
  unfold closeDirF
  split <;> rfl

theorem openDirS_slots {d : Nat} {name : List Nat} (h : openDirS a d name a' r) : a'.slots = a.slots := by
  unfold openDirS at h
  repeat' split at h
  all_goals (obtain ⟨rfl, _⟩ := h; rfl)

theorem readS_slots {hd n : Nat} (h : readS a hd n a' r) : a'.slots = a.slots := by
  unfold readS at h
  repeat' split at h
  · obtain ⟨rfl, _⟩ := h; rfl
  · obtain ⟨rfl, _⟩ := h; rfl
  · obtain ⟨m, bytes, _, _, rfl⟩ := h; rfl

theorem seekStartS_slots {hd n : Nat} (h : seekStartS a hd n a' r) : a'.slots = a.slots := by
  unfold seekStartS at h
  repeat' split at h
  all_goals (obtain ⟨rfl, _⟩ := h; rfl)

theorem seekEndS_slots {hd n : Nat} (h : seekEndS a hd n a' r) : a'.slots = a.slots := by
  unfold seekEndS at h
  repeat' split at h
  all_goals (obtain ⟨rfl, _⟩ := h; rfl)

theorem seekCurS_slots {hd : Nat} {n : Int} (h : seekCurS a hd n a' r) : a'.slots = a.slots := by
  unfold seekCurS at h
  repeat' split at h
  all_goals (obtain ⟨rfl, _⟩ := h; rfl)

theorem labelS_slots {v : Nat} (h : labelS a v a' r) : a'.slots = a.slots := by
  unfold labelS at h
  split at h
  · obtain ⟨rfl, _⟩ := h; rfl
  · rcases h with ⟨rfl, _⟩ | h
    · rfl
    · split at h
      · obtain ⟨rfl, _⟩ := h
        rw [closeDirF_slots, openRootF_slots]
      · obtain ⟨rfl, _⟩ := h
        exact openRootF_slots v

/-! ### The calls that put one slot -/

theorem flushF_untouched (hd : Nat) {x j : Nat} (hne : handleSlot a hd ≠ some (x, j)) :
    ((flushF a hd).1.slots x)[j]? = (a.slots x)[j]? := by
  unfold flushF
  unfold handleSlot at hne
  cases hf : fileOf a hd with
  | none => rfl
  | some p =>
    obtain ⟨i, f⟩ := p
    rw [hf] at hne
    dsimp only
    split
    · rfl
    · split
      · rfl
      · split
        · next m bytes hsl =>
          exact setSlot_other a f.dir f.idx _ (Nat.le_of_lt (List.getElem?_eq_some_iff.1 hsl).1)
            fun e => hne (by rw [e]; rfl)
        · rfl

theorem closeFileS_untouched {hd : Nat} (h : closeFileS a hd a' r) {x j : Nat} (hne : handleSlot a hd ≠ some (x, j)) :
    (a'.slots x)[j]? = (a.slots x)[j]? := by
  unfold closeFileS at h
  split at h
  · obtain ⟨rfl, _⟩ := h; rfl
  · obtain ⟨rfl, _⟩ := h
    exact flushF_untouched hd hne

theorem writeS_untouched {hd : Nat} {data : Bytes} (h : writeS a hd data a' r) {x j : Nat}
    (hne : handleSlot a hd ≠ some (x, j)) : (a'.slots x)[j]? = (a.slots x)[j]? := by
  unfold writeS at h
  unfold handleSlot at hne
  cases hf : fileOf a hd with
  | none => rw [hf] at h; obtain ⟨rfl, _⟩ := h; rfl
  | some p =>
    obtain ⟨i, f⟩ := p
    rw [hf] at h hne
    dsimp only at h
    split at h
    · obtain ⟨rfl, _⟩ := h; rfl
    · split at h
      · obtain ⟨rfl, _⟩ := h; rfl
      · obtain ⟨m, bytes, k, hsl, _, _, rfl⟩ := h
        exact setSlot_other _ f.dir f.idx _ (Nat.le_of_lt (List.getElem?_eq_some_iff.1 hsl).1)
          fun e => hne (by rw [e]; rfl)

theorem nameSlot_found {d : Nat} {name : List Nat} {od : OpenDir} {sfn : Bytes} {i : Nat}
    (hctx : dirCtx a d name = .ok (od, sfn)) (hlk : lookup (a.slots od.dir) sfn = some i) :
    nameSlot a d name = some (od.dir, i) := by
  unfold nameSlot
  rw [hctx]
  dsimp only
  rw [hlk]
  rfl

theorem nameSlot_fresh {d : Nat} {name : List Nat} {od : OpenDir} {sfn : Bytes}
    (hctx : dirCtx a d name = .ok (od, sfn)) (hlk : lookup (a.slots od.dir) sfn = none) :
    nameSlot a d name = some (od.dir, freeIdx (a.slots od.dir)) := by
  unfold nameSlot
  rw [hctx]
  dsimp only
  rw [hlk]
  rfl

theorem deleteS_untouched {d : Nat} {name : List Nat} (h : deleteS a d name a' r) {x j : Nat}
    (hne : nameSlot a d name ≠ some (x, j)) : (a'.slots x)[j]? = (a.slots x)[j]? := by
  unfold deleteS at h
  cases hctx : dirCtx a d name with
  | error e => rw [hctx] at h; obtain ⟨rfl, _⟩ := h; rfl
  | ok p =>
    obtain ⟨od, sfn⟩ := p
    rw [hctx] at h
    dsimp only at h
    cases hlk : lookup (a.slots od.dir) sfn with
    | none => rw [hlk] at h; obtain ⟨rfl, _⟩ := h; rfl
    | some i =>
      rw [hlk] at h
      dsimp only at h
      rw [nameSlot_found hctx hlk] at hne
      split at h
      · split at h
        · obtain ⟨rfl, _⟩ := h; rfl
        · obtain ⟨rfl, _⟩ := h
          exact setSlot_other a od.dir i _ (Nat.le_of_lt (lookup_lt hlk)) fun e => hne (by rw [e])
      · obtain ⟨rfl, _⟩ := h; rfl
      · exact h.elim

theorem openFileS_untouched {d : Nat} {name : List Nat} {mode : Mode} (h : openFileS a d name mode a' r) {x j : Nat}
    (hne : nameSlot a d name ≠ some (x, j)) : (a'.slots x)[j]? = (a.slots x)[j]? := by
  unfold openFileS at h
  split at h
  · obtain ⟨rfl, _⟩ := h; rfl
  cases hctx : dirCtx a d name with
  | error e => rw [hctx] at h; obtain ⟨rfl, _⟩ := h; rfl
  | ok p =>
    obtain ⟨od, sfn⟩ := p
    rw [hctx] at h
    dsimp only at h
    cases hlk : lookup (a.slots od.dir) sfn with
    | none =>
      rw [hlk] at h
      dsimp only at h
      rw [nameSlot_fresh hctx hlk] at hne
      split at h
      · rcases h with ⟨rfl, _⟩ | ⟨rfl, _⟩
        · rfl
        · exact setSlot_other a od.dir _ _ (freeIdx_le _) fun e => hne (by rw [e])
      · obtain ⟨rfl, _⟩ := h; rfl
    | some i =>
      rw [hlk] at h
      dsimp only at h
      rw [nameSlot_found hctx hlk] at hne
      split at h
      · split at h
        · obtain ⟨rfl, _⟩ := h; rfl
        · split at h
          · obtain ⟨rfl, _⟩ := h; rfl
          · split at h
            · obtain ⟨rfl, _⟩ := h; rfl
            · obtain ⟨_, h⟩ := h
              split at h
              · subst h
                exact setSlot_other a od.dir i _ (Nat.le_of_lt (lookup_lt hlk)) fun e => hne (by rw [e])
              · subst h; rfl
      · repeat' split at h
        all_goals (obtain ⟨rfl, _⟩ := h; rfl)
      · exact h.elim

theorem mkdirS_untouched {d : Nat} {name : List Nat} (h : mkdirS a d name a' r) {x j : Nat} (hx : x ∈ a.ids)
    (hne : nameSlot a d name ≠ some (x, j)) : (a'.slots x)[j]? = (a.slots x)[j]? := by
  unfold mkdirS at h
  split at h
  · obtain ⟨rfl, _⟩ := h; rfl
  cases hctx : dirCtx a d name with
  | error e => rw [hctx] at h; obtain ⟨rfl, _⟩ := h; rfl
  | ok p =>
    obtain ⟨od, sfn⟩ := p
    rw [hctx] at h
    dsimp only at h
    cases hlk : lookup (a.slots od.dir) sfn with
    | some i =>
      rw [hlk] at h
      dsimp only at h
      split at h <;> (obtain ⟨rfl, _⟩ := h; rfl)
    | none =>
      rw [hlk] at h
      dsimp only at h
      rw [nameSlot_fresh hctx hlk] at hne
      rcases h with ⟨rfl, _⟩ | ⟨c, hc, _, rfl⟩
      · rfl
      · dsimp only
        rw [if_neg (fun e : x = c => hc (e ▸ hx))]
        exact setSlot_other a od.dir _ _ (freeIdx_le _) fun e => hne (by rw [e])

end

/-! ### Every call -/

/-- **A call changes at most the slot `touched` names**: every other slot of every existing directory reads as
before. -/
theorem absStep_untouched {a a' : AbsFs} {op : Op} {r : Res Payload} (h : absStep a op (a', r)) {x j : Nat}
    (hx : x ∈ a.ids) (hne : touched a op ≠ some (x, j)) : (a'.slots x)[j]? = (a.slots x)[j]? := by
  unfold absStep at h
  by_cases hl : a.locked = true
  · rw [if_pos hl] at h
    injection h with h1 _
    rw [h1]
  rw [if_neg hl] at h
  cases op with
  | openVolume idx => rw [openVolumeS_slots (show openVolumeS a idx a' r from h)]
  | closeVolume v => rw [closeVolumeS_slots (show closeVolumeS a v a' r from h)]
  | openRoot v =>
    have h' : (a', r) = openRootF a v := h
    have : a' = (openRootF a v).1 := congrArg Prod.fst h'
    rw [this, openRootF_slots]
  | closeDir d =>
    have h' : (a', r) = closeDirF a d := h
    have : a' = (closeDirF a d).1 := congrArg Prod.fst h'
    rw [this, closeDirF_slots]
  | openDir d name => rw [openDirS_slots (show openDirS a d name a' r from h)]
  | find d name => obtain ⟨rfl, _⟩ := (show findS a d name a' r from h); rfl
  | list d => obtain ⟨rfl, _⟩ := (show listS a d a' r from h); rfl
  | listLfn d n => obtain ⟨rfl, _⟩ := (show listLfnS a d a' r from h); rfl
  | openFile d name mode => exact openFileS_untouched (show openFileS a d name mode a' r from h) hne
  | read f n => rw [readS_slots (show readS a f n a' r from h)]
  | write f data => exact writeS_untouched (show writeS a f data a' r from h) hne
  | seekStart f n => rw [seekStartS_slots (show seekStartS a f n a' r from h)]
  | seekCur f n => rw [seekCurS_slots (show seekCurS a f n a' r from h)]
  | seekEnd f n => rw [seekEndS_slots (show seekEndS a f n a' r from h)]
  | flush f =>
    have h' : (a', r) = flushF a f := h
    have : a' = (flushF a f).1 := congrArg Prod.fst h'
    rw [this]
    exact flushF_untouched f hne
  | closeFile f => exact closeFileS_untouched (show closeFileS a f a' r from h) hne
  | delete d name => exact deleteS_untouched (show deleteS a d name a' r from h) hne
  | mkdir d name => exact mkdirS_untouched (show mkdirS a d name a' r from h) hx hne
  | length f => obtain ⟨rfl, _⟩ := (show lengthS a f a' r from h); rfl
  | offset f => obtain ⟨rfl, _⟩ := (show offsetS a f a' r from h); rfl
  | eof f => obtain ⟨rfl, _⟩ := (show eofS a f a' r from h); rfl
  | hasOpen =>
    have h' : (a', r) = (a, _) := h
    injection h' with h1 _
    rw [h1]
  | label v => rw [labelS_slots (show labelS a v a' r from h)]

end Sdmmc.Lemmas.AbsFsTouch
