/-
C02 with SEVERAL OPEN VOLUMES, the remount (`Props/C02Multi.lean`): the one-volume remount theorems of `Props.C02Fs`
(`remount_same_tree`, `fresh_mount_shows_flushed`, `independent_reader_agrees`, `quiescent_well_formed`) transferred to
volume record `i` of a manager with any number of open volumes, through the projection `proj s i`.

WHAT IS PROVED.
* `proj_quiescent`: for `VolInvN s ghs`, `AbsNx s ghs B`, record `i` (`vi`, `gh`) whose volume has NO OPEN FILE
  (`volFiles s vi.rawVolume = []`; the other volumes may have open, dirty files): the projection has the one-volume
  invariant, `viewOf B vi.rawVolume` is its abstract counterpart, it has no open file, and every manager fresh on the medium
  of `s` is fresh on the medium of the projection (`FreshOn` reads only the medium of its first argument).
* `view_tperm`: the tree of a view does not depend on the order of the tables.
* `remount_same_tree_multi`, `fresh_reader_multi`, `independent_reader_multi`, `view_sizes_multi`: the four one-volume
  statements about `viewOf A vi.rawVolume`, for `AbsN s ghs A` (tables up to order).

HYPOTHESES.  As in `Props.C02Fs`: the medium mounts (partition `idx`) to a record with the geometry of the volume (kept as a
hypothesis here; `idx` is not tied to the record: the one-volume theorems do not tie it either — `Props.C02Multi` uses
`vi.idx`); the fresh manager has `maxVols = 1`.  `MirrorN` is not needed.

Nothing about clocks (`GInv`) here: see the header of `Props/C02Multi.lean`.
-/
import Sdmmc.Lemmas.AbsFsRemount8
import Sdmmc.Lemmas.VolNAbs

namespace Sdmmc.Lemmas.VolNRemount
open Sdmmc.Model Sdmmc.Model.Fat Sdmmc.Spec.Volume
open Sdmmc.Spec hiding run step NoFault Coherent
open Sdmmc.Spec.AbsFs (AbsFs AbsFsN viewOf TPerm Meta view AInv pathDir readerOps ParsesTo lookup listing)
open Sdmmc.Lemmas.AbsFs (Abs FreshOn)
open Sdmmc.Lemmas.AbsFsTimes (handlesFrom)
open Sdmmc.Lemmas.VolN (AbsN AbsNx projH proj_eq_projH)

/-- The tree of a view does not depend on the order of the tables. -/
theorem view_tperm {A B : AbsFsN} (h : TPerm A B) (hv : Nat) :
    (viewOf A hv).ids = (viewOf B hv).ids ∧ (viewOf A hv).slots = (viewOf B hv).slots := by
  refine ⟨?_, ?_⟩
  · show A.ids hv = B.ids hv
    rw [h.ids]
  · show A.slots hv = B.slots hv
    rw [h.slots]

/-- A manager fresh on the medium of `s` is fresh on the medium of every projection of `s`, and conversely. -/
theorem freshOn_proj {s t : Mgr} (i : Nat) : FreshOn (proj s i) t ↔ FreshOn s t := by
  have hd : (proj s i).dev = s.dev := by
    unfold proj
    cases s.vols[i]? <;> rfl
  constructor
  · intro h
    exact ⟨by rw [h.disk, hd], h.noFault, h.coherent, h.unlocked, h.maxVols, h.vols, h.dirs, h.files⟩
  · intro h
    exact ⟨by rw [h.disk, hd], h.noFault, h.coherent, h.unlocked, h.maxVols, h.vols, h.dirs, h.files⟩

section
variable {s : Mgr} {ghs : List Ghost} {i : Nat} {vi : VolInfo} {gh : Ghost}

/-- **The projection to a volume without open file**: one-volume invariant, abstract counterpart, quiescence. -/
theorem proj_quiescent {B : AbsFsN} (hI : VolInvN s ghs) (hB : AbsNx s ghs B) (hvi : s.vols[i]? = some vi)
    (hgh : ghs[i]? = some gh) (hq : volFiles s vi.rawVolume = []) :
    VolInv (proj s i) gh ∧ Abs (proj s i) gh (viewOf B vi.rawVolume) ∧ (proj s i).files = [] ∧ (proj s i).dev = s.dev := by
  rw [proj_eq_projH hvi]
  exact ⟨Lemmas.VolN.volInv_proj hI hvi hgh, Lemmas.VolN.abs_view hI hB hvi hgh, hq, rfl⟩

/-- **Remount of one volume of several: the same tree.** -/
theorem remount_same_tree_multi {t : Mgr} {A : AbsFsN} (hI : VolInvN s ghs) (hA : AbsN s ghs A) (hvi : s.vols[i]? = some vi)
    (hgh : ghs[i]? = some gh) (hq : volFiles s vi.rawVolume = []) (hF : FreshOn s t) (idx : Nat) (w : FatVolume)
    (hm : mountPure (t.dev.disk.get 0) idx t.dev.disk.get = .ok w) (hsg : SameGeom gh.vol w) :
    ∃ gh' a', (step t (.openVolume idx)).2.result = .ok (.handle t.nextId) ∧
      VolInv (step t (.openVolume idx)).1 gh' ∧ SameGeom gh.vol gh'.vol ∧ Abs (step t (.openVolume idx)).1 gh' a' ∧
      a'.ids = (viewOf A vi.rawVolume).ids ∧
      (∀ h, h ∈ (viewOf A vi.rawVolume).ids → a'.slots h = (viewOf A vi.rawVolume).slots h) ∧
      a'.vols = [(t.nextId, idx)] ∧ a'.dirs = [] ∧ a'.files = [] ∧ a'.nextId = (t.nextId + 1) % 4294967296 ∧
      a'.maxDirs = t.maxDirs ∧ a'.maxFiles = t.maxFiles ∧ a'.clock = t.clock ∧ a'.locked = false := by
  obtain ⟨B, hAB, hB⟩ := hA
  obtain ⟨hP, hAbs, hfl, _⟩ := proj_quiescent hI hB hvi hgh hq
  obtain ⟨e1, e2⟩ := view_tperm hAB vi.rawVolume
  rw [e1, e2]
  exact Lemmas.AbsFs.remount_same_tree hP hAbs hfl ((freshOn_proj i).2 hF) idx w hm hsg

/-- **A fresh mount shows the files of the volume** (the reader of `Props.C02Fs.fresh_mount_shows_flushed`). -/
theorem fresh_reader_multi {t : Mgr} {A : AbsFsN} (hI : VolInvN s ghs) (hA : AbsN s ghs A) (hvi : s.vols[i]? = some vi)
    (hgh : ghs[i]? = some gh) (hq : volFiles s vi.rawVolume = []) (hF : FreshOn s t) (idx : Nat) (w : FatVolume)
    (hm : mountPure (t.dev.disk.get 0) idx t.dev.disk.get = .ok w) (hsg : SameGeom gh.vol w)
    {path : List (List Nat)} {sfns : List Bytes} {fname : List Nat} {fs : Bytes}
    {x j : Nat} {m : Meta} {bytes : Bytes} (n : Nat)
    (hps : ParsesTo path sfns) (hp : pathDir (viewOf A vi.rawVolume).slots 0 sfns = some x)
    (hfs : Sfn.createFromStr fname = .ok fs) (hlk : lookup ((viewOf A vi.rawVolume).slots x) fs = some j)
    (hsl : ((viewOf A vi.rawVolume).slots x)[j]? = some (.file m bytes))
    (hn : t.nextId + path.length + 3 < 4294967296) (hmd : path.length + 1 ≤ t.maxDirs) (hmf : 1 ≤ t.maxFiles) :
    ∃ es, (run t (.openVolume idx :: readerOps t.nextId (t.nextId + 1) path fname n)).2.map (·.result) =
        .ok (.handle t.nextId) :: (handlesFrom (t.nextId + 1) (path.length + 2) ++
          [.ok (.num m.size), .ok (.bytes (bytes.take n)), .ok (.entries es)]) ∧
      es.map view = listing ((viewOf A vi.rawVolume).slots x) ∧ m ∈ es.map view := by
  obtain ⟨B, hAB, hB⟩ := hA
  obtain ⟨hP, hAbs, hfl, _⟩ := proj_quiescent hI hB hvi hgh hq
  obtain ⟨_, e2⟩ := view_tperm hAB vi.rawVolume
  rw [e2] at hp hlk hsl ⊢
  exact Lemmas.AbsFs.fresh_reader hP hAbs hfl ((freshOn_proj i).2 hF) idx w hm hsg n hps hp hfs hlk hsl hn hmd hmf

/-- **The independent reader agrees**, on the medium shared by all the volumes ((H1) `NoOne` for THIS volume). -/
theorem independent_reader_multi {A : AbsFsN} (hI : VolInvN s ghs) (hA : AbsN s ghs A) (hvi : s.vols[i]? = some vi)
    (hgh : ghs[i]? = some gh) (hq : volFiles s vi.rawVolume = [])
    (g : Fs.Geom) (hg : GeomOf gh.vol g) (h1 : NoOne gh.vol s.dev.disk) {h j : Nat} {m : Meta} {bytes : Bytes}
    (hh : h ∈ (viewOf A vi.rawVolume).ids) (hsl : ((viewOf A vi.rawVolume).slots h)[j]? = some (.file m bytes)) :
    ∃ ss dcs sl cs, Fs.dirSlots g s.dev.disk (Lemmas.VolFsck.refOf gh.vol h) = .ok (ss, dcs) ∧
      (ss.takeWhile fun x => decide (Fs.firstByte x ≠ 0))[j]? = some sl ∧
      Fs.nameOf sl = m.name ∧ Fs.attrOf sl = m.attr ∧ Fs.sizeOf sl = m.size ∧
      ((Fs.clusterOf g sl = 0 ∧ cs = []) ∨ Fs.chain g s.dev.disk (Fs.clusterOf g sl) = .ok cs) ∧
      Fs.fileBytes g s.dev.disk cs (Fs.sizeOf sl) = bytes := by
  obtain ⟨B, hAB, hB⟩ := hA
  obtain ⟨hP, hAbs, hfl, hd⟩ := proj_quiescent hI hB hvi hgh hq
  obtain ⟨e1, e2⟩ := view_tperm hAB vi.rawVolume
  rw [e1] at hh
  rw [e2] at hsl
  have := Lemmas.AbsFs.independent_reader_agrees hP hAbs hfl g hg (by rw [hd]; exact h1) hh hsl
  rw [hd] at this
  exact this

/-- **Exactly the flushed length**: in the view of a volume without open file the stored size of every file is the length
of its bytes; the view of the order-normalised state is well formed (`AInv`). -/
theorem view_sizes_multi {A : AbsFsN} (hI : VolInvN s ghs) (hA : AbsN s ghs A) (hvi : s.vols[i]? = some vi)
    (hgh : ghs[i]? = some gh) (hq : volFiles s vi.rawVolume = []) :
    (∃ B, TPerm A B ∧ AbsNx s ghs B ∧ AInv (viewOf B vi.rawVolume)) ∧
    ∀ x, x ∈ (viewOf A vi.rawVolume).ids → ∀ (j : Nat) (m : Meta) (bytes : Bytes),
      ((viewOf A vi.rawVolume).slots x)[j]? = some (.file m bytes) → m.size = bytes.length := by
  obtain ⟨B, hAB, hB⟩ := hA
  obtain ⟨hP, hAbs, hfl, _⟩ := proj_quiescent hI hB hvi hgh hq
  obtain ⟨e1, e2⟩ := view_tperm hAB vi.rawVolume
  have hW : AInv (viewOf B vi.rawVolume) := Lemmas.AbsFs.ainv_of_abs hP hAbs hfl
  have hfiles : (viewOf B vi.rawVolume).files = [] := by
    have := hAbs.files
    rw [hfl] at this
    exact List.forall₂_nil_right_iff.1 this
  refine ⟨⟨B, hAB, hB, hW⟩, ?_⟩
  rw [e1, e2]
  intro x hx j m bytes hsl
  exact hW.sizes x hx j m bytes hsl (fun f hf => by rw [hfiles] at hf; cases hf)

end

end Sdmmc.Lemmas.VolNRemount
