/-
C11, arbitrary fault placement — `open_file_in_dir` UNDER ANY SCHEDULE, every mode but the two that truncate
(`ReadWriteTruncate`, `ReadWriteCreateOrTruncate`): the lookup, then either no further device call (open an existing
file, refusals) or the creation of the entry (`write_new_directory_entry`, possibly growing the directory — its crash
points: `writeNew_mx`).  A failed creation leaves the tables alone; what may be lost is the cluster the directory was
about to grow by.
-/
import Sdmmc.Lemmas.FaultXApi
import Sdmmc.Lemmas.FaultXCreate
import Sdmmc.Lemmas.FaultXHintAlloc
import Sdmmc.Lemmas.VolSfn

namespace Sdmmc.Lemmas.FaultX
open Sdmmc.Model Sdmmc.Model.Fat Sdmmc.Spec.Volume Sdmmc.Lemmas.VolBase Sdmmc.Lemmas.VolTree
open Sdmmc.Spec hiding NoFault Coherent
open Sdmmc.Lemmas.VolDisk Sdmmc.Lemmas.VolMed Sdmmc.Lemmas.VolEng Sdmmc.Lemmas.VolX Sdmmc.Lemmas.VolApi
open Sdmmc.Lemmas.FBasic (NoFault Coherent)
open Sdmmc.Lemmas.CrashBase Sdmmc.Lemmas.Retry Sdmmc.Lemmas.FaultPre Sdmmc.Lemmas.FaultInv Sdmmc.Lemmas.FaultCoh Sdmmc.Lemmas.MHoare
open Sdmmc.Lemmas.Fault (Coh)

/-- The crash points of the creation of a file entry, with the final medium accounted for. -/
theorem createEntry_mx {files : List FileInfo} {gh : Ghost} {X : List (List Nat)} {fs : FS}
    (hM : MedX fs.vol fs.dev.disk files gh X) (hn : NoFault fs) (hc : Coherent fs) {dc : Nat} (hv : ValidDir gh.dirs dc)
    (name : Bytes) (hlen : name.length = 11) (h0 : byteAt name 0 ≠ 0) (hE5 : byteAt name 0 ≠ 0xE5)
    (hfresh : name ∉ (entries (dirSlots fs.vol fs.dev.disk gh.G (dirIdOf dc))).map sName) (now : Timestamp) :
    CrashAll (MX fs.vol files gh.dirs) fs (writeNewDirectoryEntry dc name 0 0 now fs).2 := by
  obtain ⟨r, fs', hrun, hcr⟩ := writeNew_mx hM hn hc hv name 0 0 now
  obtain ⟨r', fs'', hrun', _, _, hcase⟩ := create_file_med hM hn hc hv name hlen h0 hE5 hfresh now
  rw [hrun] at hrun'
  obtain ⟨rfl, rfl⟩ := Prod.mk.inj hrun'
  rw [hrun]
  refine hcr.mono fun d hd => ?_
  rcases hd with hd | rfl
  · exact hd
  · rcases hcase with ⟨_, hd', _⟩ | ⟨e, gh', _, hgv, hgd, hsg, hM', _⟩
    · rw [hd']; exact mx_of_med hM
    · have := med_congr hM' hsg.symm hM.hint hM'.blocksOK (fun _ _ => rfl) (fun _ _ => rfl)
      have h2 := mx_of_med this
      rw [hgd] at h2
      exact h2

/-- **The creating branch of `open_file_in_dir` under any schedule.** -/
theorem createRun_faulted {X : List (List Nat)} {s : Mgr} {gh : Ghost} (hI : VolInvX X s gh) {vi : VolInfo} (hvs : s.vols = [vi])
    (hvol : vi.vol = gh.vol) {d : DirInfo} (hdv : ValidDir gh.dirs d.cluster) (hraw : vi.rawVolume = d.rawVolume) (sfn : Bytes)
    (hlen : sfn.length = 11) (h0 : byteAt sfn 0 ≠ 0) (hE5 : byteAt sfn 0 ≠ 0xE5)
    (hfresh : sfn ∉ (entries (dirSlots gh.vol s.dev.disk gh.G (dirIdOf d.cluster))).map sName) (now : Timestamp) (L : List Nat) :
    InvF gh (Modes.createRun d sfn now (withFaults L s)).2 := by
  have hv0 : s.vols.findIdx? (·.rawVolume = d.rawVolume) = some 0 := by rw [hvs]; simp [hraw]
  obtain ⟨hn, hc, hM⟩ := VolX.volInv_fs hI
  obtain ⟨hinv, _, _, hdich⟩ := withVol_F hI hvs hvol L (writeNewDirectoryEntry_pre d.cluster sfn 0 Gen.CLUSTER_EMPTY now)
    (Fault.writeNewDirectoryEntry_inv d.cluster sfn 0 Gen.CLUSTER_EMPTY now)
    (writeNewDirectoryEntry_len d.cluster sfn hlen 0 Gen.CLUSTER_EMPTY now)
    (writeNewDirectoryEntry_geo _ _ _ _ _) (writeNewDirectoryEntry_coh _ _ _ _ _)
    (writeNewDirectoryEntry_hk _ _ _ _ _ _ hM.hint) (fun _ h => h)
    (createEntry_mx hM hn hc hdv sfn hlen h0 hE5 hfresh now)
  unfold Modes.createRun
  rw [bind_ok (getVolumeById_ok (s := withFaults L s) hv0)]
  rcases hdich with hq | he
  · -- the creation is the fault-free creation: so is the rest of the call
    obtain ⟨gh1, hI1, hg1⟩ := VolX.createRun_inv hI hvs hvol hdv hraw sfn hlen h0 hE5 hfresh now
    have heq : (Modes.createRun d sfn now s).2 = ((do
        let entry ← withVol 0 (Fat.writeNewDirectoryEntry d.cluster sfn 0 Gen.CLUSTER_EMPTY now)
        let id ← generate
        M.modify fun s => { s with files := s.files ++ [Modes.createdFile d id entry] }
        pure id : M Nat) s).2 := by
      unfold Modes.createRun
      rw [bind_ok (getVolumeById_ok hv0)]
    rw [heq] at hI1
    rcases hr : withVol 0 (Fat.writeNewDirectoryEntry d.cluster sfn 0 Gen.CLUSTER_EMPTY now) s with ⟨r, s2⟩
    rw [hr] at hq
    cases r with
    | ok e =>
      rw [bind_ok hq, generate_bind, modify_bind]
      rw [bind_ok hr, generate_bind, modify_bind] at hI1
      exact (invF_of hI1 L).sameGeom hg1
    | err e =>
      rw [bind_err hq]
      rw [bind_err hr] at hI1
      exact (invF_of hI1 L).sameGeom hg1
    | panic m =>
      rw [bind_panic hq]
      rw [bind_panic hr] at hI1
      exact (invF_of hI1 L).sameGeom hg1
    | diverged =>
      rw [bind_diverged hq]
      rw [bind_diverged hr] at hI1
      exact (invF_of hI1 L).sameGeom hg1
  · rcases hr : withVol 0 (Fat.writeNewDirectoryEntry d.cluster sfn 0 Gen.CLUSTER_EMPTY now) (withFaults L s) with ⟨r, s2⟩
    rw [hr] at he hinv
    simp only at he
    subst he
    rw [bind_err hr]
    exact hinv

/-- The modes of `open_file_in_dir` that never truncate. -/
def nonTruncating : Mode → Bool
  | .ReadWriteTruncate | .ReadWriteCreateOrTruncate => false
  | _ => true

/-- **`open_file_in_dir` under any fault schedule** (modes that do not truncate) keeps the invariant — up to the
schedule, for some ghost of the same geometry and some lost chains. -/
theorem openFile_faulted {X : List (List Nat)} {s0 : Mgr} {gh : Ghost} (hI : VolInvX X s0 gh) (L : List Nat) (directory : Nat)
    (name : List Nat) (mode : Mode) (hmode : nonTruncating mode = true)
    (hname : ∀ sfn, Sfn.createFromStr name = .ok sfn → sfn.head? ≠ some 0xE5) :
    InvF gh (openFileInDir directory name mode (withFaults L s0)).2 := by
  have h0 : InvF gh (withFaults L s0) := invF_of hI L
  rw [Modes.openFileInDir_eq]
  unfold Modes.openFileInDirAlt
  rw [get_bind]
  by_cases hroom : (withFaults L s0).files.length ≥ (withFaults L s0).maxFiles
  · rw [if_pos hroom]; exact h0
  rw [if_neg hroom]
  cases hidx : s0.dirs.findIdx? (·.rawDirectory = directory) with
  | none => rw [bind_err (getDirById_bad (s := withFaults L s0) hidx)]; exact h0
  | some i =>
    obtain ⟨d, hdi, _⟩ := findIdx?_some_get hidx
    have hdm : d ∈ s0.dirs := List.mem_of_getElem? hdi
    rw [bind_ok (getDirById_ok (s := withFaults L s0) hidx), bind_ok (getDir_ok (s := withFaults L s0) hdi)]
    cases hv : s0.vols.findIdx? (·.rawVolume = d.rawVolume) with
    | none => rw [bind_err (getVolumeById_bad (s := withFaults L s0) hv)]; exact h0
    | some volIdx =>
      obtain ⟨hz, vi, hvs, hvol, hraw⟩ := VolX.vol_of_handle hI hv
      subst hz
      rw [bind_ok (getVolumeById_ok (s := withFaults L s0) hv)]
      cases hs : Sfn.createFromStr name with
      | error e => rw [bind_err (Modes.toSfn_err hs _)]; exact h0
      | ok sfn =>
        rw [bind_ok (Modes.toSfn_ok hs _), attempt_bind]
        have hdv := hI.openDirs d hdm
        obtain ⟨hn, hc, hM⟩ := VolX.volInv_fs hI
        obtain ⟨r, fs', hlk, hdisk, hvol', h1, hcase⟩ := VolX.lookup_found hI hvs hvol hdv sfn (hname sfn hs)
        obtain ⟨hinvL, _, _, hdich⟩ := withVol_F hI hvs hvol L (findDirectoryEntry_pre d.cluster sfn)
          (Fault.findDirectoryEntry_inv d.cluster sfn) (findDirectoryEntry_len _ _) (findDirectoryEntry_geo _ _)
          (findDirectoryEntry_coh _ _) (findDirectoryEntry_vk (K := HintOK) _ _ _ hM.hint) (fun _ h => h)
          (CrashAll.of_ro (DirMgr.findDirectoryEntry_readOnly d.cluster sfn (fsOf s0 gh)) (mx_of_med hM))
        rcases hdich with hq | he
        swap
        · rcases hrun : withVol 0 (Fat.findDirectoryEntry d.cluster sfn) (withFaults L s0) with ⟨r', s'⟩
          rw [hrun] at he hinvL
          simp only at he
          subst he
          show InvF gh (Modes.openFileTail d 0 sfn mode (.err .DeviceError) s').2
          rw [Modes.tail_err d 0 sfn s' mode .DeviceError (by intro h; cases h)]
          exact hinvL
        rw [hlk] at hq
        rw [hq]
        set s1 := afterVol s0 vi fs' with hs1
        show InvF gh (Modes.openFileTail d 0 sfn mode r (withFaults L s1)).2
        have hvs1 : s1.vols = [{ vi with vol := fs'.vol }] := rfl
        have hraw1 : ({ vi with vol := fs'.vol } : VolInfo).rawVolume = d.rawVolume := hraw
        have h01 : InvF gh (withFaults L s1) := invF_of h1 L
        rcases hcase with ⟨hr, hfresh⟩ | ⟨e, o, hr, hF⟩
        · subst hr
          by_cases hm : mode = .ReadWriteCreate ∨ mode = .ReadWriteCreateOrTruncate ∨ mode = .ReadWriteCreateOrAppend
          · rw [Modes.tail_create_eq d 0 sfn _ mode hm]
            obtain ⟨hlen, hz⟩ := VolSfn.sfn_facts hs
            refine createRun_faulted h1 hvs1 hvol' hdv hraw1 sfn hlen hz (VolSfn.sfn_first_ne_e5 (hname sfn hs)) ?_ _ L
            rw [hdisk]; exact hfresh
          · have hm' : mode = .ReadOnly ∨ mode = .ReadWriteAppend ∨ mode = .ReadWriteTruncate := by
              cases mode <;> simp at hm ⊢
            rw [Modes.tail_notFound d 0 sfn _ mode hm']
            exact h01
        · subst hr
          have hfo : fileIsOpen (withFaults L s1) d.rawVolume e = fileIsOpen s1 d.rawVolume e := rfl
          by_cases hopen : fileIsOpen s1 d.rawVolume e = true
          · rw [Modes.tail_open d 0 sfn _ mode e (by rw [hfo]; exact hopen)]; exact h01
          have hopen' : fileIsOpen s1 d.rawVolume e = false := by simpa using hopen
          have hopenF : fileIsOpen (withFaults L s1) d.rawVolume e = false := by rw [hfo]; exact hopen'
          by_cases hcreate : mode = .ReadWriteCreate
          · subst hcreate
            rw [Modes.tail_exists d 0 sfn _ e hopenF]; exact h01
          by_cases hro : Attr.isReadOnly e.attributes = true ∧ mode ≠ .ReadOnly
          · rw [Modes.tail_readOnlyAttr d 0 sfn _ mode e hopenF hcreate hro.2 hro.1]; exact h01
          have hro' : Attr.isReadOnly e.attributes = false ∨ mode = .ReadOnly := by
            by_cases h : mode = .ReadOnly
            · exact .inr h
            · left
              by_cases h2 : Attr.isReadOnly e.attributes = true
              · exact absurd ⟨h2, h⟩ hro
              · simpa using h2
          by_cases hdir : Attr.isDirectory e.attributes = true
          · rw [Modes.tail_dirAsFile d 0 sfn _ mode e hopenF hcreate hro' hdir]; exact h01
          have hdir' : Attr.isDirectory e.attributes = false := by simpa using hdir
          cases mode with
          | ReadOnly =>
            rw [Modes.tail_readOnly d 0 sfn _ e hopenF hdir']
            exact invF_of (VolX.volInv_open_existing h1 hvs1 hdv hraw1 hF hdir' hopen' s1.nextId .ReadOnly 0 (Nat.zero_le _)
              ((s1.nextId + 1) % 4294967296)) L
          | ReadWriteCreate => exact absurd rfl hcreate
          | ReadWriteAppend =>
            have hron : Attr.isReadOnly e.attributes = false := hro'.elim id (fun h => by cases h)
            rw [Modes.tail_append d 0 sfn _ .ReadWriteAppend e (.inl rfl) hopenF hron hdir']
            exact invF_of (VolX.volInv_open_existing h1 hvs1 hdv hraw1 hF hdir' hopen' s1.nextId .ReadWriteAppend e.size
              (Nat.le_refl _) ((s1.nextId + 1) % 4294967296)) L
          | ReadWriteCreateOrAppend =>
            have hron : Attr.isReadOnly e.attributes = false := hro'.elim id (fun h => by cases h)
            rw [Modes.tail_append d 0 sfn _ .ReadWriteCreateOrAppend e (.inr rfl) hopenF hron hdir']
            exact invF_of (VolX.volInv_open_existing h1 hvs1 hdv hraw1 hF hdir' hopen' s1.nextId .ReadWriteAppend e.size
              (Nat.le_refl _) ((s1.nextId + 1) % 4294967296)) L
          | ReadWriteTruncate => cases hmode
          | ReadWriteCreateOrTruncate => cases hmode

end Sdmmc.Lemmas.FaultX
