/-
Lemmas for C12, part 16: which CSD layout `read_csd` uses, and what `num_blocks` / `num_bytes`
return in terms of the register the card sent.
-/
import Sdmmc.Lemmas.SdCsd
import Sdmmc.Lemmas.SdBasic

namespace Sdmmc.Lemmas.Sd
open Sdmmc.Model Sdmmc.Model.Sd Sdmmc.Gen

variable {σ : Type} (B : BusOps σ)

/-- `read_csd` succeeds only on an initialised card, returns the 16 bytes `read_data` delivered
after CMD9, and picks the layout: version 1 for an SD1 card, otherwise by the register's own
CSD_STRUCTURE field. -/
theorem readCsd_layout (s s' : St σ) (csd : Bytes) (v2 : Bool) (h : readCsd B s = (.ok (csd, v2), s')) :
    ∃ ct s1, s.cardType = some ct ∧ cardCommand B CMD9 0 s = (.ok 0, s1) ∧ readData B 16 s1 = (.ok csd, s') ∧
      v2 = (if ct = .SD1 then false else decide (byteAt csd 0 / 64 ≠ 0)) := by
  unfold readCsd at h
  rw [bind_ok (get_apply s)] at h
  cases hct : s.cardType with
  | none => rw [hct] at h; simp at h
  | some ct =>
    rw [hct] at h
    simp only [bind_apply] at h
    rcases h9 : cardCommand B CMD9 0 s with ⟨r, s1⟩
    rw [h9] at h
    cases r with
    | err e => simp at h
    | panic p => simp at h
    | ok r0 =>
      simp only at h
      split at h
      · simp at h
      · next hr0 =>
        have hr0 : r0 = 0 := by simpa using hr0
        subst hr0
        rw [bind_apply] at h
        rcases hrd : readData B 16 s1 with ⟨r2, s2⟩
        rw [hrd] at h
        cases r2 with
        | err e => simp at h
        | panic p => simp at h
        | ok buf =>
          simp only at h
          refine ⟨ct, s1, rfl, rfl, ?_⟩
          cases ct <;> simp only [pure_apply, Prod.mk.injEq, SRes.ok.injEq] at h <;>
            obtain ⟨⟨rfl, rfl⟩, rfl⟩ := h <;> simp [SdCsd.v2CsdVer_eq, hrd]

/-- `num_blocks` evaluates the capacity formula of the chosen layout on the register. -/
theorem numBlocks_eq (s s' : St σ) (n : Nat) (h : numBlocks B s = (.ok n, s')) :
    ∃ csd v2, readCsd B s = (.ok (csd, v2), s') ∧
      n = if v2 then Csd.v2CapacityBlocks csd else Csd.v1CapacityBlocks csd := by
  unfold numBlocks at h
  rw [bind_apply] at h
  rcases hc : readCsd B s with ⟨r, s1⟩
  rw [hc] at h
  cases r with
  | err e => simp at h
  | panic p => simp at h
  | ok x =>
    obtain ⟨csd, v2⟩ := x
    simp at h
    exact ⟨csd, v2, by rw [h.2], h.1.symm⟩

theorem numBytes_eq (s s' : St σ) (n : Nat) (h : numBytes B s = (.ok n, s')) :
    ∃ csd v2, readCsd B s = (.ok (csd, v2), s') ∧
      n = if v2 then Csd.v2CapacityBytes csd else Csd.v1CapacityBytes csd := by
  unfold numBytes at h
  rw [bind_apply] at h
  rcases hc : readCsd B s with ⟨r, s1⟩
  rw [hc] at h
  cases r with
  | err e => simp at h
  | panic p => simp at h
  | ok x =>
    obtain ⟨csd, v2⟩ := x
    simp at h
    exact ⟨csd, v2, by rw [h.2], h.1.symm⟩

/-- The reported number of blocks is the capacity encoded in the register for the register's
own layout — provided an SD1 card's register really is a version-1 register, and short of the
one saturating value of the version-2 formula. -/
theorem numBlocks_matches_spec (s s' : St σ) (n : Nat) (h : numBlocks B s = (.ok n, s')) :
    ∃ csd v2, readCsd B s = (.ok (csd, v2), s') ∧
      ((s.cardType = some .SD1 → byteAt csd 0 / 64 = 0) →
       (byteAt csd 0 / 64 ≠ 0 → Csd.v2DeviceSize csd < 0x3FFFFF) →
       n = Spec.Card.capacityOfCsd csd) := by
  obtain ⟨csd, v2, hc, hn⟩ := numBlocks_eq B s s' n h
  obtain ⟨ct, s1, hct, _, _, hv⟩ := readCsd_layout B s s' csd v2 hc
  refine ⟨csd, v2, hc, fun h1 h2 => ?_⟩
  subst hn hv
  by_cases hsd1 : ct = .SD1
  · subst hsd1
    simp only [if_true, Bool.false_eq_true, if_false]
    exact SdCsd.v1_blocks_eq csd (h1 hct)
  · simp only [if_neg hsd1]
    by_cases h0 : byteAt csd 0 / 64 = 0
    · simp only [h0, ne_eq, not_true_eq_false, decide_false, Bool.false_eq_true, if_false]
      exact SdCsd.v1_blocks_eq csd h0
    · simp only [ne_eq, h0, not_false_eq_true, decide_true, if_true]
      exact SdCsd.v2_blocks_eq csd h0 (h2 h0)

/-- The reported number of bytes is 512 times that capacity — for a version-1 register provided
READ_BL_LEN ≥ 9 (every card of 512-byte blocks or larger). -/
theorem numBytes_matches_spec (s s' : St σ) (n : Nat) (h : numBytes B s = (.ok n, s')) :
    ∃ csd v2, readCsd B s = (.ok (csd, v2), s') ∧
      ((s.cardType = some .SD1 → byteAt csd 0 / 64 = 0) →
       (byteAt csd 0 / 64 = 0 → 9 ≤ byteAt csd 5 % 16) →
       n = 512 * Spec.Card.capacityOfCsd csd) := by
  obtain ⟨csd, v2, hc, hn⟩ := numBytes_eq B s s' n h
  obtain ⟨ct, s1, hct, _, _, hv⟩ := readCsd_layout B s s' csd v2 hc
  refine ⟨csd, v2, hc, fun h1 h2 => ?_⟩
  subst hn hv
  by_cases hsd1 : ct = .SD1
  · subst hsd1
    simp only [if_true, Bool.false_eq_true, if_false]
    exact SdCsd.v1_bytes_eq csd (h1 hct) (h2 (h1 hct))
  · simp only [if_neg hsd1]
    by_cases h0 : byteAt csd 0 / 64 = 0
    · simp only [h0, ne_eq, not_true_eq_false, decide_false, Bool.false_eq_true, if_false]
      exact SdCsd.v1_bytes_eq csd h0 (h2 h0)
    · simp only [ne_eq, h0, not_false_eq_true, decide_true, if_true]
      exact SdCsd.v2_bytes_eq csd h0

end Sdmmc.Lemmas.Sd
