/-
`makeDir`: the payloads of its first writes (used by `Props/C03.lean`).

`makeDir_prefix` in `DirOps` gives the *order* of the blocks `makeDir` writes; here the *contents*:
the first block of the new cluster carries the `.` entry in slot 0, the `..` entry in slot 1 and
zeros everywhere else (`dirBlock`, `dirBlock_facts`), every other block of the cluster is written
as zeros, and all of that happens before the parent directory is written (`makeDir_writes`).
-/
import Sdmmc.Lemmas.DirSlots

namespace Sdmmc.Lemmas.DirMake
open Sdmmc.Model Sdmmc.Model.Fat Sdmmc.Spec Sdmmc.Lemmas.FBasic Sdmmc.Lemmas.FatOps Sdmmc.Lemmas.DirOps
open Sdmmc.Lemmas.DirSlots

/-- The `.` entry of a new directory at cluster `c` (first block `startBlock`). -/
def dotEntry (c att : Nat) (now : Timestamp) (startBlock : Nat) : DirEntry :=
  { name := Sfn.thisDir, mtime := now, ctime := now, attributes := att, cluster := c, size := 0,
    entryBlock := startBlock, entryOffset := 0 }

/-- The `..` entry: the parent's cluster, or 0 when the parent is the root directory. -/
def dotdotEntry (parent att : Nat) (now : Timestamp) (startBlock : Nat) : DirEntry :=
  { name := Sfn.parentDir, mtime := now, ctime := now, attributes := att,
    cluster := if parent = Gen.CLUSTER_ROOT_DIR then Gen.CLUSTER_EMPTY else parent, size := 0,
    entryBlock := startBlock, entryOffset := Gen.DIRENT_LEN }

/-- The first block of a new directory as `makeDir` writes it. -/
def dirBlock (ft : FatType) (c parent att : Nat) (now : Timestamp) (startBlock : Nat) : Block :=
  splice (splice zeroBlock 0 (DirEntry.serialize ft (dotEntry c att now startBlock))) Gen.DIRENT_LEN
    (DirEntry.serialize ft (dotdotEntry parent att now startBlock))

theorem zeroBlock_getD (i : Nat) : zeroBlock.getD i 0 = 0 := by
  show (List.replicate 512 (0 : UInt8)).getD i 0 = 0
  rw [List.getD_eq_getElem?_getD, List.getElem?_replicate]
  split <;> rfl

/-- Slot 0 is the `.` entry, slot 1 the `..` entry, every other byte of the block is zero. -/
theorem dirBlock_facts (ft : FatType) (c parent att : Nat) (now : Timestamp) (startBlock : Nat) :
    (dirBlock ft c parent att now startBlock).length = 512 ∧
    slice (dirBlock ft c parent att now startBlock) 0 32 = DirEntry.serialize ft (dotEntry c att now startBlock) ∧
    slice (dirBlock ft c parent att now startBlock) 32 32 = DirEntry.serialize ft (dotdotEntry parent att now startBlock) ∧
    ∀ i, 64 ≤ i → (dirBlock ft c parent att now startBlock).getD i 0 = 0 := by
  have hA : (DirEntry.serialize ft (dotEntry c att now startBlock)).length = 32 := serialize_length ft _ rfl
  have hB : (DirEntry.serialize ft (dotdotEntry parent att now startBlock)).length = 32 := serialize_length ft _ rfl
  unfold dirBlock
  generalize DirEntry.serialize ft (dotEntry c att now startBlock) = A at hA
  generalize DirEntry.serialize ft (dotdotEntry parent att now startBlock) = B at hB
  have hz : zeroBlock.length = 512 := zeroBlock_length
  have hfitA : 0 + A.length ≤ zeroBlock.length := by omega
  have hX : (splice zeroBlock 0 A).length = 512 := by rw [FatLens.splice_length _ _ _ hfitA, hz]
  have hfitB : Gen.DIRENT_LEN + B.length ≤ (splice zeroBlock 0 A).length := by
    rw [hX, hB]; decide
  have hY : (splice (splice zeroBlock 0 A) Gen.DIRENT_LEN B).length = 512 := by
    rw [FatLens.splice_length _ _ _ hfitB, hX]
  refine ⟨hY, ?_, ?_, ?_⟩
  · rw [slice_congr _ (splice zeroBlock 0 A) 0 32 (by rw [hY, hX]) (fun i _ hi =>
      FatLens.splice_getD_outside _ _ _ i hfitB (.inl (by show i < 32; omega)))]
    have := FatLens.slice_splice zeroBlock A 0 hfitA
    rw [hA] at this
    exact this
  · have := FatLens.slice_splice (splice zeroBlock 0 A) B Gen.DIRENT_LEN hfitB
    rw [hB] at this
    exact this
  · intro i hi
    rw [FatLens.splice_getD_outside _ _ _ i hfitB (.inr (by rw [hB]; show 32 + 32 ≤ i; omega)),
      FatLens.splice_getD_outside _ _ _ i hfitA (.inr (by omega))]
    exact zeroBlock_getD i

/-- The write log of a successful `makeDir`, oldest last: the FAT write(s) that allocate the new
cluster `c` (which was free and lies inside the volume); the first block of `c` with the `.` and
`..` entries; the other blocks of `c`, zeroed; then — and only then — whatever creating the entry
in the parent writes (at least one block). -/
theorem makeDir_writes (s s' : FS) (parent : Nat) (sfn : Bytes) (att : Nat) (now : Timestamp)
    (hn : NoFault s) (hc : Coherent s) (hh : HintOK s.vol) (h : makeDir parent sfn att now s = (.ok (), s')) :
    ∃ c pay new, 2 ≤ c ∧ c < endCluster s.vol ∧ entryOnDisk s.vol s.dev.disk c = 0 ∧ new ≠ [] ∧
      s'.dev.wlog =
        new ++ (((List.range (s.vol.blocksPerCluster - 1)).map fun i => (clusterToBlock s.vol c + 1 + i, zeroBlock)).reverse ++
          ((clusterToBlock s.vol c, dirBlock s.vol.fatType c parent att now (clusterToBlock s.vol c)) ::
            fatWriteLog s.vol c pay)) ++ s.dev.wlog := by
  unfold makeDir at h
  -- the allocation
  rw [bind_eq_ok] at h
  obtain ⟨c, s1, h1, h⟩ := h
  obtain ⟨hc2, hcE, hfree⟩ := alloc_in_range_and_free s s1 none false c hn hc hh h1
  obtain ⟨sZ, s3, s4, ch⟩ := alloc_chain s s1 none false c hn hc h1
  have e43 : s4 = s3 := ch.link
  have hw1 : s1.dev.wlog = fatWriteLog s.vol c (fatPayload sZ c Gen.CLUSTER_END_OF_FILE) ++ s.dev.wlog := by
    rw [ch.wlog', e43, ch.wlog3, ch.wlogZ]; rfl
  obtain ⟨nf, hv1, _⟩ := ch.vol'
  -- `getVol`
  rw [bind_eq_ok] at h
  obtain ⟨v, s1', hgv, h⟩ := h
  rw [getVol_apply] at hgv
  have ev : s1.vol = v := Res.ok.inj (congrArg Prod.fst hgv)
  have es1 : s1 = s1' := congrArg Prod.snd hgv
  subst es1
  subst ev
  -- `blankMut`, `cacheModify`
  rw [bind_eq_ok] at h
  obtain ⟨_, s2, hb, h⟩ := h
  rw [bind_eq_ok] at h
  obtain ⟨_, s2', hm, h⟩ := h
  have e2 : s2 = { s1 with cache := { tag := some (clusterToBlock s1.vol c), blk := zeroBlock } } :=
    (congrArg Prod.snd hb).symm
  subst e2
  have e2' := (congrArg Prod.snd hm).symm
  rw [cacheModify_apply] at e2'
  simp only at e2'
  have hft : s1.vol.fatType = s.vol.fatType := by rw [hv1]; rfl
  have hcb : clusterToBlock s1.vol c = clusterToBlock s.vol c := by rw [hv1]; rfl
  have hb1 : s1.vol.blocksPerCluster = s.vol.blocksPerCluster := by rw [hv1]; rfl
  have htag : s2'.cache.tag = some (clusterToBlock s1.vol c) := by rw [e2']
  have hblk : s2'.cache.blk = dirBlock s.vol.fatType c parent att now (clusterToBlock s.vol c) := by
    rw [e2']
    show dirBlock s1.vol.fatType c parent att now (clusterToBlock s1.vol c) = _
    rw [hft, hcb]
  have hn2 : NoFault s2' := by rw [e2']; exact ch.hn'
  have hw2 : s2'.dev.wlog = s1.dev.wlog := by rw [e2']
  -- `writeBack`
  rw [bind_eq_ok] at h
  obtain ⟨_, s3', hwb, h⟩ := h
  have e3 : s3' = (writeBack s2').2 := by rw [hwb]
  have hn3 : NoFault s3' := by rw [e3]; exact writeBack_noFault s2' _ hn2 htag
  have hc3 : Coherent s3' := by rw [e3]; exact writeBack_coherent s2' _ hn2 htag
  have hw3 : s3'.dev.wlog = (clusterToBlock s1.vol c, s2'.cache.blk) :: s1.dev.wlog := by
    rw [e3, writeBack_wlog s2' _ hn2 htag, hw2]
  -- `zeroBlocks`
  rw [bind_eq_ok] at h
  obtain ⟨_, s4', hz, h⟩ := h
  obtain ⟨_, hzw, _, _, _⟩ :=
    zeroBlocks_writes s3' (s1.vol.blocksPerCluster - 1) (clusterToBlock s1.vol c + 1) hn3 hc3
  rw [hz] at hzw
  simp only at hzw
  -- the directory entry in the parent
  rw [bind_eq_ok] at h
  obtain ⟨r, s5', hat, h⟩ := h
  rw [attempt_apply] at hat
  have er : (writeNewDirectoryEntry parent sfn att c now s4').1 = r := Res.ok.inj (congrArg Prod.fst hat)
  have es5 : (writeNewDirectoryEntry parent sfn att c now s4').2 = s5' := congrArg Prod.snd hat
  obtain ⟨new, hnew, hstrict⟩ := writeNewDirectoryEntry_strict parent sfn att c now s4'
  rw [es5] at hnew
  rw [er] at hstrict
  cases r with
  | ok e =>
    have es' : s5' = s' := congrArg Prod.snd h
    subst es'
    have hne : new ≠ [] := hstrict ⟨e, rfl⟩
    rw [hb1, hcb] at hzw
    rw [hcb, hblk] at hw3
    refine ⟨c, fatPayload sZ c Gen.CLUSTER_END_OF_FILE, new, hc2, hcE, hfree, hne, ?_⟩
    rw [hnew, hzw, hw3, hw1]
    simp only [List.append_assoc, List.cons_append]
  | err e =>
    simp only at h
    rw [bind_eq_ok] at h
    obtain ⟨_, _, _, h⟩ := h
    cases h
  | panic m => cases h
  | diverged => cases h

end Sdmmc.Lemmas.DirMake
