/-
C11, arbitrary fault placement — `make_dir` UNDER ANY SCHEDULE (engine level, `makeDir_faulted`).

`make_dir` = allocation of the new cluster `c`; the blocks of `c`; `write_new_directory_entry` in the parent; and, when
that fails, the clean-up `free_cluster_chain(c)`, whose outcome is dropped.  The first two parts and the entry are
truncated fault-free runs (`Pre`): a failure leaves a crash point, at which `[c]` is at worst a chain nothing refers
to.  When the entry reports an error it HAS NOT BEEN WRITTEN (`writeNew_err_mxl`, from `writeNew_sw`): `[c]` is still
unreferenced when the clean-up — another engine call, under the rest of the schedule — frees it.
-/
import Sdmmc.Lemmas.FaultXMkdirCrash
import Sdmmc.Lemmas.FaultXEng
import Sdmmc.Lemmas.FaultXApi
import Sdmmc.Lemmas.FaultInvMkdir
import Sdmmc.Lemmas.VolXApiMkdir3
import Sdmmc.Lemmas.FaultXHintAlloc
import Sdmmc.Lemmas.FaultHistErase

namespace Sdmmc.Lemmas.FaultX
open Sdmmc.Model Sdmmc.Model.Fat Sdmmc.Spec.Volume Sdmmc.Lemmas.VolBase Sdmmc.Lemmas.VolTree
open Sdmmc.Spec hiding NoFault Coherent
open Sdmmc.Lemmas.VolDisk Sdmmc.Lemmas.VolMed Sdmmc.Lemmas.VolEng Sdmmc.Lemmas.VolX Sdmmc.Lemmas.VolApi
open Sdmmc.Lemmas.FBasic (NoFault Coherent)
open Sdmmc.Lemmas.CrashBase Sdmmc.Lemmas.Retry Sdmmc.Lemmas.FaultPre Sdmmc.Lemmas.FaultInv Sdmmc.Lemmas.FaultCoh
open Sdmmc.Lemmas.Fault (Coh)

theorem setFaults_clr (s : FS) : setFaults s.dev.faults (clr s) = s := by
  obtain ⟨dev, cache, vol⟩ := s
  obtain ⟨disk, calls, faults, wlog, rlog, failed⟩ := dev
  rfl

/-- **One part of an engine call under a schedule** (`Pre`): the medium it leaves is a crash point of the fault-free
part; if it answers `Ok`, no device call failed, and the state is the fault-free one with the schedule put back. -/
theorem stage_pre {α : Type} {f : F α} (hpre : Pre f) (hfs : Fault.F.Inv FaultsSame f) {fs : FS} (hn : NoFault fs) (L : List Nat)
    {P : Disk → Prop} (hcr : CrashAll P fs (f fs).2) :
    P (f (setFaults L fs)).2.dev.disk ∧
    (∀ a, (f (setFaults L fs)).1 = .ok a →
      f fs = (.ok a, clr (f (setFaults L fs)).2) ∧ (f (setFaults L fs)).2 = setFaults L (clr (f (setFaults L fs)).2) ∧
      (f (setFaults L fs)).2.dev.failed = fs.dev.failed) := by
  refine ⟨?_, fun a ha => ?_⟩
  · apply hpre.transfer (setFaults L fs)
    rw [clr_setFaults L fs hn]; exact hcr
  · obtain ⟨_, _, hag, hhit⟩ := hpre (setFaults L fs)
    have hq : (f (setFaults L fs)).2.dev.failed = (setFaults L fs).dev.failed := by
      apply Classical.byContradiction
      intro hne
      have := (hhit hne).1
      rw [ha] at this; cases this
    have h0 := hag hq
    rw [clr_setFaults L fs hn, ha] at h0
    refine ⟨h0, ?_, hq⟩
    have hfl : (f (setFaults L fs)).2.dev.faults = L := hfs (setFaults L fs)
    have := setFaults_clr (f (setFaults L fs)).2
    rw [hfl] at this
    exact this.symm

section
variable {files : List FileInfo} {gh : Ghost} {X : List (List Nat)}

/-- The allocation of the new cluster: every crash point; and the fault-free state after it. -/
theorem alloc_none_facts {fs : FS} (hM : MedX fs.vol fs.dev.disk files gh X) (hn : NoFault fs) (hc : Coherent fs) :
    CrashAll (MX fs.vol files gh.dirs) fs (allocCluster none false fs).2 ∧
    ∀ c fs1, allocCluster none false fs = (.ok c, fs1) →
      NoFault fs1 ∧ Coherent fs1 ∧ SameGeom fs.vol fs1.vol ∧ HintOK fs1.vol ∧
      MedX fs.vol fs1.dev.disk files gh ([c] :: X) ∧ InRange fs.vol c ∧ c ∉ gh.G.flatten := by
  have hfacts : ∀ c fs1, allocCluster none false fs = (.ok c, fs1) →
      NoFault fs1 ∧ Coherent fs1 ∧ SameGeom fs.vol fs1.vol ∧ HintOK fs1.vol ∧
      MedX fs.vol fs1.dev.disk files gh ([c] :: X) ∧ InRange fs.vol c ∧ c ∉ gh.G.flatten := by
    intro c fs1 hal0
    obtain ⟨hc2, hcE, hfree⟩ := FatOps.alloc_in_range_and_free _ fs1 none false c hn hc hM.hint hal0
    obtain ⟨_, hWn⟩ := CrashAlloc.alloc_crash _ fs1 none false c hn hc hM.blocksOK hM.geom hM.hint
      (fun p hp => by cases hp) hal0
    obtain ⟨hn', hc', hb', hsg, hh', _, _, _, heof, _, _, _⟩ :=
      ForestAlloc.alloc_spec _ fs1 none false c hn hc hM.blocksOK hM.geom hM.hint (fun p hp => by cases hp) hal0
    have hMk := medX_mark (P := false = true) hM hb' ⟨hc2, hcE⟩ hfree hWn heof
    refine ⟨hn', hc', hsg, hh', hMk, ⟨hc2, hcE⟩, fun hx => ?_⟩
    exact ForestBase.free_not_used hfree ((hM.owns.2.2 c).2 (by rw [List.flatten_append]; exact List.mem_append_left _ hx))
  refine ⟨?_, hfacts⟩
  rcases CrashStep.alloc_cases fs none false hn hc with ⟨c, fs1, hal0⟩ | ⟨fs1, hal0, ro2⟩
  · obtain ⟨_, _, _, _, hMk, _, _⟩ := hfacts c fs1 hal0
    rw [hal0]
    exact alloc_mx hM hn hc (fun p hp => by cases hp) hal0 hMk.blocksOK (mx_of_med hMk)
  · rw [hal0]
    exact CrashAll.of_ro ro2 (mx_of_med hM)

theorem lenInv_of {fs : FS} (hb : BlocksOK fs.dev.disk) (hc : Coherent fs) : LenInv fs :=
  ⟨hb, fun i hi => by
    have : fs.cache.blk = fs.dev.disk.get i := hc i hi
    rw [this]; exact hb i⟩

/-- The blocks of the new cluster: the fault-free run and its crash points — `[c]` stays a chain nothing refers to. -/
theorem mid_facts {fs1 : FS} {c : Nat} (hM1 : MedX fs1.vol fs1.dev.disk files gh ([c] :: X)) (hn1 : NoFault fs1)
    (hc1 : Coherent fs1) (hcR : InRange fs1.vol c) (hcG : c ∉ gh.G.flatten) (parent att : Nat) (now : Timestamp) :
    ∃ fs4, mdMid fs1.vol c parent att now fs1 = (.ok (), fs4) ∧ NoFault fs4 ∧ Coherent fs4 ∧ fs4.vol = fs1.vol ∧
      MedX fs1.vol fs4.dev.disk files gh ([c] :: X) ∧ CrashAll (MXL c fs1.vol files gh.dirs) fs1 fs4 := by
  obtain ⟨fs4, hrun, hn4, hc4, hv4, _, hcr⟩ := mdMid_clean fs1 c parent att now hn1
  have hpos : 0 < fs1.vol.blocksPerCluster := hM1.geom.bpc_pos
  have hpt : ∀ d, BlocksOK d → (∀ i, ¬ (clusterToBlock fs1.vol c ≤ i ∧ i < clusterToBlock fs1.vol c + 1 + (fs1.vol.blocksPerCluster - 1)) →
      d.get i = fs1.dev.disk.get i) → MedX fs1.vol d files gh ([c] :: X) := by
    intro d hb hd
    refine (medX_cluster_write hM1 hcR hcG hb fun i hi => hd i ?_).1
    rintro ⟨h1, h2⟩
    exact hi (i - clusterToBlock fs1.vol c) (by omega) (by omega)
  have hb4 : BlocksOK fs4.dev.disk := by
    have := (mdMid_len fs1.vol c parent att now fs1 (lenInv_of hM1.blocksOK hc1)).1
    rw [hrun] at this; exact this
  refine ⟨fs4, hrun, hn4, hc4, hv4, hpt _ hb4 hcr.final, hcr.mono fun d hd hb => ?_⟩
  exact mxl_of_med (hpt d hb hd) hb

/-- **The entry in the parent did not succeed** (under any schedule): whatever the clean-up does under the rest of the
schedule, the medium carries the invariant (the new cluster is free again, or a chain nothing refers to). -/
theorem tail_faulted {fs4 : FS} {c : Nat} (hM4 : MedX fs4.vol fs4.dev.disk files gh ([c] :: X)) (hn4 : NoFault fs4)
    (hc4 : Coherent fs4) {dc : Nat} (hv : ValidDir gh.dirs dc) (sfn : Bytes) (hlen : sfn.length = 11) (att : Nat)
    (now : Timestamp) (L : List Nat)
    (hne : ∀ e, (writeNewDirectoryEntry dc sfn att c now (setFaults L fs4)).1 ≠ .ok e) :
    HintOK (mdTail dc sfn att now c (setFaults L fs4)).2.vol ∧
    MX fs4.vol files gh.dirs (mdTail dc sfn att now c (setFaults L fs4)).2.dev.disk := by
  have hmxl := writeNew_err_mxl hM4 hn4 hc4 hv sfn att c now L hne
  have hlen4 : LenInv (setFaults L fs4) := lenInv_of hM4.blocksOK hc4
  have hb3 := (writeNewDirectoryEntry_len dc sfn hlen att c now (setFaults L fs4) hlen4).1
  have hsg3 : SameGeom fs4.vol (writeNewDirectoryEntry dc sfn att c now (setFaults L fs4)).2.vol :=
    writeNewDirectoryEntry_geo dc sfn att c now (setFaults L fs4)
  have hh3 : HintOK (writeNewDirectoryEntry dc sfn att c now (setFaults L fs4)).2.vol :=
    writeNewDirectoryEntry_hk dc sfn att c now (setFaults L fs4) hM4.hint
  have hcoh3 : Coherent (writeNewDirectoryEntry dc sfn att c now (setFaults L fs4)).2 := by
    have hc0 : Coh (setFaults L fs4) := hc4
    obtain ⟨h1, h2⟩ := writeNewDirectoryEntry_coh dc sfn att c now (setFaults L fs4) hc0
    cases hr : (writeNewDirectoryEntry dc sfn att c now (setFaults L fs4)).1 with
    | ok a => exact h1 a hr
    | err e => exact h2 fun a ha => by rw [hr] at ha; cases ha
    | panic m => exact h2 fun a ha => by rw [hr] at ha; cases ha
    | diverged => exact h2 fun a ha => by rw [hr] at ha; cases ha
  have hfl3 : (writeNewDirectoryEntry dc sfn att c now (setFaults L fs4)).2.dev.faults = L :=
    Fault.writeNewDirectoryEntry_inv (R := FaultsSame) dc sfn att c now (setFaults L fs4)
  rcases hw : writeNewDirectoryEntry dc sfn att c now (setFaults L fs4) with ⟨r, t3⟩
  rw [hw] at hne hmxl hb3 hsg3 hh3 hcoh3 hfl3
  simp only at hne hmxl hb3 hsg3 hh3 hcoh3 hfl3
  obtain ⟨G3, X3, hM3⟩ := hmxl hb3
  have hstay : (mdTail dc sfn att now c (setFaults L fs4)).2 = t3 →
      HintOK (mdTail dc sfn att now c (setFaults L fs4)).2.vol ∧
      MX fs4.vol files gh.dirs (mdTail dc sfn att now c (setFaults L fs4)).2.dev.disk := by
    intro e
    rw [e]
    exact ⟨hh3, fun _ => ⟨G3, _, hM3⟩⟩
  cases r with
  | ok e => exact absurd rfl (hne e)
  | panic m =>
    apply hstay
    unfold mdTail
    rw [Fault.F.attempt_bind_apply, hw]; rfl
  | diverged =>
    apply hstay
    unfold mdTail
    rw [Fault.F.attempt_bind_apply, hw]; rfl
  | err e =>
    rw [mdTail_err dc sfn att now c (setFaults L fs4) t3 e hw]
    -- the clean-up is an engine call from `clr t3`, under the rest of the schedule
    have ht3 : t3 = setFaults L (clr t3) := by
      have := setFaults_clr t3
      rw [hfl3] at this; exact this.symm
    have hM5' := med_congr hM3 hsg3 hh3 hb3 (fun _ _ => rfl) (fun _ _ => rfl)
    have hM5 : MedX (clr t3).vol (clr t3).dev.disk files { vol := t3.vol, G := G3, dirs := gh.dirs } ([c] :: X3) :=
      ⟨hM5'.blocksOK, hM5'.geom, hM5'.hint, hM5'.owns, hM5'.tree, hM5'.fileOK⟩
    have hn5 : NoFault (clr t3) := rfl
    have hc5 : Coherent (clr t3) := hcoh3
    obtain ⟨fs6, hrun6, hcr6⟩ := free_mx (tail := []) hM5 hn5 hc5
    have hch : Chain t3.vol t3.dev.disk c [c] := by
      have := hM5.owns.1 [c] (List.mem_append_right _ List.mem_cons_self)
      have h2 : Chain (clr t3).vol (clr t3).dev.disk c [c] := by simpa using this
      exact h2
    have hr := ChainL.chain_inRange hch _ List.mem_cons_self
    have hhint6 : HintOK (freeClusterChain c (setFaults L (clr t3))).2.vol := by
      rw [← ht3]
      refine freeClusterChain_hint c t3 hcoh3 (ChainL.inRange_le t3.vol hM5.geom _ hr) hh3 ?_
      intro n hnx
      cases hch with
      | last _ _ he => rw [he] at hnx; cases hnx
      | link _ n' _ _ hn' _ hrest => cases hrest
    have hcr6' : CrashAll (MX (clr t3).vol files gh.dirs) (clr t3) (freeClusterChain c (clr t3)).2 := by
      rw [hrun6]; exact hcr6
    obtain ⟨_, hsg6, G6, X6, hM6⟩ := eng_faulted hM5 hn5 hc5 L (freeClusterChain_pre c) (freeClusterChain_len c)
      (freeClusterChain_geo c) (freeClusterChain_coh c) hhint6 hcr6'
    rw [← ht3] at hsg6 hM6
    refine ⟨hM6.hint, fun _ => ⟨G6, X6, ?_⟩⟩
    have hsgb : SameGeom (freeClusterChain c t3).2.vol fs4.vol := (hsg3.trans hsg6).symm
    have := med_congr hM6 hsgb hM4.hint hM6.blocksOK (fun _ _ => rfl) (fun _ _ => rfl)
    exact ⟨this.blocksOK, this.geom, this.hint, this.owns, this.tree, this.fileOK⟩

theorem mdMid_hk (v : FatVolume) (c parent att : Nat) (now : Timestamp) : VK HintOK (mdMid v c parent att now) := by
  have := zeroBlocks_hk
  unfold mdMid; vk_auto

theorem mdTail_len (parent : Nat) (sfn : Bytes) (hlen : sfn.length = 11) (att : Nat) (now : Timestamp) (c : Nat) :
    Len (mdTail parent sfn att now c) := by
  have := writeNewDirectoryEntry_len parent sfn hlen att c now
  have := freeClusterChain_len c
  unfold mdTail; len_auto

theorem makeDir_len (parent : Nat) (sfn : Bytes) (hlen : sfn.length = 11) (att : Nat) (now : Timestamp) :
    Len (makeDir parent sfn att now) := by
  rw [makeDir_eq]
  exact Len.bind (allocCluster_len _ _) fun c => Len.bind Len.getVol fun v => Len.bind (mdMid_len v c parent att now) fun _ =>
    mdTail_len parent sfn hlen att now c

/-- `MX` for a volume record of the same geometry. -/
theorem mx_geom {v v' : FatVolume} {dirs : List (Nat × Nat)} {d : Disk} (h : MX v files dirs d) (hs : SameGeom v v')
    (hh : HintOK v') : MX v' files dirs d := by
  intro hb
  obtain ⟨G', X', hM⟩ := h hb
  have := med_congr hM hs hh hb (fun _ _ => rfl) (fun _ _ => rfl)
  exact ⟨G', X', ⟨this.blocksOK, this.geom, this.hint, this.owns, this.tree, this.fileOK⟩⟩

/-- **`make_dir(parent, name, DIRECTORY)` under ANY fault schedule**, for a name the parent does not hold: the state it
leaves carries the invariant with lost chains, for a volume record of the same geometry; the directories that existed
are still there. -/
theorem makeDir_faulted {fs : FS} (hM : MedX fs.vol fs.dev.disk files gh X) (hn : NoFault fs) (hc : Coherent fs)
    {dc : Nat} (hv : ValidDir gh.dirs dc) (sfn : Bytes) (hlen : sfn.length = 11) (h0 : byteAt sfn 0 ≠ 0)
    (hE5 : byteAt sfn 0 ≠ 0xE5)
    (hfresh : sfn ∉ (entries (dirSlots fs.vol fs.dev.disk gh.G (dirIdOf dc))).map sName) (now : Timestamp) (L : List Nat) :
    Coherent (makeDir dc sfn Gen.ATTR_DIRECTORY now (setFaults L fs)).2 ∧
    SameGeom fs.vol (makeDir dc sfn Gen.ATTR_DIRECTORY now (setFaults L fs)).2.vol ∧
    ∃ G' X' dirs', MedX (makeDir dc sfn Gen.ATTR_DIRECTORY now (setFaults L fs)).2.vol
        (makeDir dc sfn Gen.ATTR_DIRECTORY now (setFaults L fs)).2.dev.disk files
        { vol := (makeDir dc sfn Gen.ATTR_DIRECTORY now (setFaults L fs)).2.vol, G := G', dirs := dirs' } X' ∧
      (∀ c, ValidDir gh.dirs c → ValidDir dirs' c) := by
  have hsg : SameGeom fs.vol (makeDir dc sfn Gen.ATTR_DIRECTORY now (setFaults L fs)).2.vol :=
    makeDir_geo dc sfn Gen.ATTR_DIRECTORY now (setFaults L fs)
  have hcoh : Coherent (makeDir dc sfn Gen.ATTR_DIRECTORY now (setFaults L fs)).2 := by
    have hc0 : Coh (setFaults L fs) := hc
    obtain ⟨h1, h2⟩ := makeDir_coh dc sfn Gen.ATTR_DIRECTORY now (setFaults L fs) hc0
    cases hr : (makeDir dc sfn Gen.ATTR_DIRECTORY now (setFaults L fs)).1 with
    | ok a => exact h1 a hr
    | err e => exact h2 fun a ha => by rw [hr] at ha; cases ha
    | panic m => exact h2 fun a ha => by rw [hr] at ha; cases ha
    | diverged => exact h2 fun a ha => by rw [hr] at ha; cases ha
  refine ⟨hcoh, hsg, ?_⟩
  by_cases hq : (makeDir dc sfn Gen.ATTR_DIRECTORY now (setFaults L fs)).2.dev.failed = (setFaults L fs).dev.failed
  · -- no device call failed: the fault-free run
    have h1 := (FaultHist.makeDir_agree dc sfn Gen.ATTR_DIRECTORY now (setFaults L fs)).2 hq
    rw [clr_setFaults L fs hn] at h1
    obtain ⟨r, fs', hrun, _, _, _, gh', hgv, hM', hdirs⟩ := makeDir_med hM hn hc hv sfn hlen h0 hE5 hfresh now
    rw [hrun] at h1
    have e2 : fs' = clr (makeDir dc sfn Gen.ATTR_DIRECTORY now (setFaults L fs)).2 := (Prod.mk.inj h1).2
    have hM2 : MedX (makeDir dc sfn Gen.ATTR_DIRECTORY now (setFaults L fs)).2.vol
        (makeDir dc sfn Gen.ATTR_DIRECTORY now (setFaults L fs)).2.dev.disk files gh' X := by
      rw [e2] at hM'; exact hM'
    exact ⟨gh'.G, X, gh'.dirs, ⟨hM2.blocksOK, hM2.geom, hM2.hint, hM2.owns, hM2.tree, hM2.fileOK⟩, hdirs⟩
  -- a device call failed
  have hb : BlocksOK (makeDir dc sfn Gen.ATTR_DIRECTORY now (setFaults L fs)).2.dev.disk :=
    (makeDir_len dc sfn hlen Gen.ATTR_DIRECTORY now (setFaults L fs) (lenInv_of hM.blocksOK hc)).1
  suffices hmain : HintOK (makeDir dc sfn Gen.ATTR_DIRECTORY now (setFaults L fs)).2.vol ∧
      MX fs.vol files gh.dirs (makeDir dc sfn Gen.ATTR_DIRECTORY now (setFaults L fs)).2.dev.disk by
    obtain ⟨hh, hmx⟩ := hmain
    obtain ⟨G', X', hM'⟩ := hmx hb
    have := med_congr hM' hsg hh hb (fun _ _ => rfl) (fun _ _ => rfl)
    exact ⟨G', X', gh.dirs, ⟨this.blocksOK, this.geom, this.hint, this.owns, this.tree, this.fileOK⟩, fun _ h => h⟩
  show HintOK (makeDir dc sfn 16 now (setFaults L fs)).2.vol ∧ MX fs.vol files gh.dirs (makeDir dc sfn 16 now (setFaults L fs)).2.dev.disk
  have hq' : (makeDir dc sfn 16 now (setFaults L fs)).2.dev.failed ≠ fs.dev.failed := hq
  rw [makeDir_eq] at hq' ⊢
  -- 1. the allocation
  obtain ⟨hcrA, hfactsA⟩ := alloc_none_facts hM hn hc
  obtain ⟨hPA, hokA⟩ := stage_pre (allocCluster_pre none false) (Fault.allocCluster_inv none false) hn L hcrA
  have hhA : HintOK (allocCluster none false (setFaults L fs)).2.vol := allocCluster_hint none false _ hM.hint
  rcases hal : allocCluster none false (setFaults L fs) with ⟨ra, t1⟩
  rw [hal] at hPA hokA hhA
  simp only at hPA hokA hhA
  cases ra with
  | err e => rw [Fault.F.bind_err hal]; exact ⟨hhA, hPA⟩
  | panic m => rw [Fault.F.bind_panic hal]; exact ⟨hhA, hPA⟩
  | diverged => rw [Fault.F.bind_diverged hal]; exact ⟨hhA, hPA⟩
  | ok c =>
    obtain ⟨hrunA, ht1, hf1⟩ := hokA c rfl
    obtain ⟨hn1, hc1, hsg1, hh1, hMk, hcR, hcG⟩ := hfactsA c (clr t1) hrunA
    have hM1' := med_congr hMk hsg1 hh1 hMk.blocksOK (fun _ _ => rfl) (fun _ _ => rfl)
    have hM1 : MedX (clr t1).vol (clr t1).dev.disk files { vol := (clr t1).vol, G := gh.G, dirs := gh.dirs } ([c] :: X) :=
      ⟨hM1'.blocksOK, hM1'.geom, hM1'.hint, hM1'.owns, hM1'.tree, hM1'.fileOK⟩
    rw [Fault.F.bind_ok hal, Fault.F.bind_ok (FBasic.getVol_apply t1)] at hq' ⊢
    -- 2. the blocks of the new cluster
    obtain ⟨fs4, hrunB, hn4, hc4, hv4, hM4, hcrB⟩ := mid_facts hM1 hn1 hc1 ((hsg1.inRange c).2 hcR) hcG dc 16 now
    have hcrB' : CrashAll (MXL c (clr t1).vol files gh.dirs) (clr t1) (mdMid (clr t1).vol c dc 16 now (clr t1)).2 := by
      rw [hrunB]; exact hcrB
    obtain ⟨hPB, hokB⟩ := stage_pre (mdMid_pre (clr t1).vol c dc 16 now) (mdMid_faults (clr t1).vol c dc 16 now) hn1 L hcrB'
    rw [← ht1] at hPB hokB
    have hhB : HintOK (mdMid (clr t1).vol c dc 16 now t1).2.vol := mdMid_hk _ c dc 16 now t1 hh1
    have hvt1 : t1.vol = (clr t1).vol := rfl
    rw [hvt1] at hq' ⊢
    rcases hmid : mdMid (clr t1).vol c dc 16 now t1 with ⟨rb, t2⟩
    rw [hmid] at hPB hokB hhB
    simp only at hPB hokB hhB
    have hmxB : MX fs.vol files gh.dirs t2.dev.disk := mx_geom (mxl_mx hPB) hsg1.symm hM.hint
    cases rb with
    | err e => rw [Fault.F.bind_err hmid]; exact ⟨hhB, hmxB⟩
    | panic m => rw [Fault.F.bind_panic hmid]; exact ⟨hhB, hmxB⟩
    | diverged => rw [Fault.F.bind_diverged hmid]; exact ⟨hhB, hmxB⟩
    | ok u =>
      obtain ⟨hrunB2, ht2, hf2⟩ := hokB u rfl
      have e4 : fs4 = clr t2 := by rw [hrunB] at hrunB2; exact (Prod.mk.inj hrunB2).2
      subst e4
      rw [Fault.F.bind_ok hmid] at hq' ⊢
      rw [ht2] at hq' ⊢
      -- 3. the entry in the parent, and the clean-up
      have hM4' : MedX (clr t2).vol (clr t2).dev.disk files { vol := (clr t1).vol, G := gh.G, dirs := gh.dirs } ([c] :: X) := by
        rw [hv4]; exact hM4
      by_cases hok : ∃ e, (writeNewDirectoryEntry dc sfn 16 c now (setFaults L (clr t2))).1 = .ok e
      · -- the entry was written: then no device call failed at all
        exfalso
        obtain ⟨e, he⟩ := hok
        apply hq'
        rcases hw : writeNewDirectoryEntry dc sfn 16 c now (setFaults L (clr t2)) with ⟨r, t3⟩
        rw [hw] at he
        simp only at he
        subst he
        rw [mdTail_ok dc sfn 16 now c (setFaults L (clr t2)) t3 e hw]
        have hP := writeNewDirectoryEntry_pre dc sfn 16 c now (setFaults L (clr t2))
        have hq3 : t3.dev.failed = (setFaults L (clr t2)).dev.failed := by
          apply Classical.byContradiction
          intro hne
          have := (hP.2.2.2 (by rw [hw]; exact hne)).1
          rw [hw] at this; cases this
        rw [hq3]
        show t2.dev.failed = fs.dev.failed
        rw [hf2]
        show t1.dev.failed = fs.dev.failed
        exact hf1
      · have hne : ∀ e, (writeNewDirectoryEntry dc sfn 16 c now (setFaults L (clr t2))).1 ≠ .ok e :=
          fun e he => hok ⟨e, he⟩
        obtain ⟨hhC, hmxC⟩ := tail_faulted hM4' hn4 hc4 hv sfn hlen 16 now L hne
        refine ⟨hhC, mx_geom hmxC ?_ hM.hint⟩
        rw [hv4]; exact hsg1.symm

end

end Sdmmc.Lemmas.FaultX
