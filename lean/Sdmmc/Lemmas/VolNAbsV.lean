/-
Several open volumes, refinement: `close_volume` and `open_volume` — the calls that change the volume table.
-/
import Sdmmc.Lemmas.VolNAbsU
import Sdmmc.Lemmas.VolNFrame
import Sdmmc.Lemmas.AbsFsVolume

namespace Sdmmc.Lemmas.VolN
open Sdmmc.Model Sdmmc.Model.Fat Sdmmc.Spec.Volume
open Sdmmc.Spec hiding NoFault Coherent run step
open Sdmmc.Spec.AbsFs (AbsFsN OpenFile OpenDir genN closeVolumeN openVolumeN coreStepN)
open Sdmmc.Lemmas.AbsFs (absDir absSlots forall₂_length forall₂_mono)
open Sdmmc.Lemmas.MHoare
open Sdmmc.Lemmas.VolApi (addVol RdF)

/-! ### Lists -/

theorem swapRemove_getElem?_inv {α : Type} {l : List α} {k j : Nat} (hk : k < l.length) (hj : j < l.length) (hne : j ≠ k) :
    (swapRemove l k)[if j = l.length - 1 then k else j]? = l[j]? := by
  rw [swapRemove_getElem? hk]
  by_cases h : j = l.length - 1
  · rw [if_pos h, if_pos (by omega), if_pos rfl, h]
  · rw [if_neg h, if_pos (by omega), if_neg hne]

theorem forall₂_any {α β : Type} {R : α → β → Prop} {l1 : List α} {l2 : List β} (h : List.Forall₂ R l1 l2)
    (p : α → Bool) (q : β → Bool) (hpq : ∀ x y, R x y → p x = q y) : l1.any p = l2.any q := by
  induction h with
  | nil => rfl
  | @cons x y t1 t2 hxy _ ih => rw [List.any_cons, List.any_cons, hpq x y hxy, ih]

/-! ### `close_volume` -/

section
variable {s : Mgr} {ghs : List Ghost} {B : AbsFsN}

/-- Record `k`, which no open file names, leaves the table; the medium changes inside its partition only. -/
theorem absNx_remove (hI : VolInvN s ghs) (hB : AbsNx s ghs B) {k : Nat} {vi : VolInfo} (hvi : s.vols[k]? = some vi)
    (hnf : ∀ f, f ∈ s.files → f.rawVolume ≠ vi.rawVolume) (dev' : Dev) (cache' : Cache)
    (hframe : ∀ (j : Nat) (vj : VolInfo) (gj : Ghost), s.vols[j]? = some vj → ghs[j]? = some gj → j ≠ k →
      ∀ b, InPartition gj.vol b → dev'.disk.get b = s.dev.disk.get b) :
    AbsNx { ({ s with dev := dev', cache := cache' } : Mgr) with vols := swapRemove s.vols k } (swapRemove ghs k)
      { B with vols := swapRemove B.vols k } := by
  have hklt : k < s.vols.length := (List.getElem?_eq_some_iff.1 hvi).1
  have hkg : k < ghs.length := by rw [hI.len]; exact hklt
  refine
    { nextId := hB.nextId, maxVols := hB.maxVols, maxDirs := hB.maxDirs, maxFiles := hB.maxFiles, clock := hB.clock
      locked := hB.locked
      vols := by show swapRemove B.vols k = (swapRemove s.vols k).map vkeyA; rw [swapRemove_map', hB.vols]
      dirs := hB.dirs, files := ?_, trees := ?_ }
  · show List.Forall₂ _ B.files s.files
    refine forall₂_mono hB.files fun af f hf hr => fileRelN_transfer hr fun j vj gj hvj hgj hraw => ?_
    have hjk : j ≠ k := fun e => hnf f hf (by subst e; rw [hvi] at hvj; cases hvj; exact hraw)
    have hjlt : j < s.vols.length := (List.getElem?_eq_some_iff.1 hvj).1
    refine ⟨if j = s.vols.length - 1 then k else j, ?_, ?_, fun x hx => ?_⟩
    · show (swapRemove s.vols k)[_]? = _
      rw [swapRemove_getElem?_inv hklt hjlt hjk, hvj]
    · have := swapRemove_getElem?_inv hkg (by rw [hI.len]; exact hjlt) hjk
      rw [hI.len] at this
      rw [this, hgj]
    · exact dirSlots_partition (hI.med j vj gj hvj hgj) (hframe j vj gj hvj hgj hjk) hx
  · intro j vj gj hvj hgj
    obtain ⟨hj, hvj0⟩ := swapRemove_get hklt (show (swapRemove s.vols k)[j]? = some vj from hvj)
    have hgj0 : ghs[swapIdx s.vols.length k j]? = some gj := by
      have := (swapRemove_get hkg hgj).2
      rwa [hI.len] at this
    have hne : swapIdx s.vols.length k j ≠ k := swapIdx_ne hj
    obtain ⟨h1, h2⟩ := hB.trees _ vj gj hvj0 hgj0
    refine ⟨h1, fun h hh => ?_⟩
    rw [show B.slots vj.rawVolume h = _ from h2 h hh]
    exact (absSlots_congr (t := projH vj.rawVolume (swapIdx s.vols.length k j) s)
      (t' := projH vj.rawVolume j { ({ s with dev := dev', cache := cache' } : Mgr) with vols := swapRemove s.vols k })
      (hI.med _ vj gj hvj0 hgj0) (hframe _ vj gj hvj0 hgj0 hne) (List.Perm.refl _) hh).symm

/-- **`close_volume`.** -/
theorem closeVolume_core (hI : VolInvN s ghs) (hm : MirrorN s ghs) (hB : AbsNx s ghs B) (v : Nat) :
    ∃ ghs', VolInvN (runOp (.closeVolume v) s).2 ghs' ∧ MirrorN (runOp (.closeVolume v) s).2 ghs' ∧
      coreStepN B (.closeVolume v) ((closeVolumeN B v).1, (runOp (.closeVolume v) s).1) ∧
      AbsNx (runOp (.closeVolume v) s).2 ghs' (closeVolumeN B v).1 := by
  have hrun : runOp (.closeVolume v) s = (closeVolume v >>= fun _ => (pure Payload.unit : M Payload)) s := rfl
  have hfa_eq : B.files.any (fun f => decide (f.volume = v)) = s.files.any (·.rawVolume = v) :=
    forall₂_any hB.files _ _ fun x y hr => by rw [fileRelN_volume hr]
  have hda_eq : B.dirs.any (fun d => decide (d.volume = v)) = s.dirs.any (·.rawVolume = v) := by
    rw [hB.dirs, List.any_map]; rfl
  have hidx : B.vols.findIdx? (fun x => decide (x.1 = v)) = s.vols.findIdx? (·.rawVolume = v) := by
    rw [hB.vols]
    exact (findIdx?_map_key vkeyA (fun x => decide (x.1 = v)) s.vols).symm
  rw [hrun]
  have hsame : ∀ e, closeVolume v s = (.err e, s) → closeVolumeN B v = (B, .err e) →
      ∃ ghs', VolInvN ((closeVolume v >>= fun _ => (pure Payload.unit : M Payload)) s).2 ghs' ∧
        MirrorN ((closeVolume v >>= fun _ => (pure Payload.unit : M Payload)) s).2 ghs' ∧
        coreStepN B (.closeVolume v) ((closeVolumeN B v).1, ((closeVolume v >>= fun _ => (pure Payload.unit : M Payload)) s).1) ∧
        AbsNx ((closeVolume v >>= fun _ => (pure Payload.unit : M Payload)) s).2 ghs' (closeVolumeN B v).1 := by
    intro e ho hN
    rw [bind_err ho, hN]
    exact ⟨ghs, hI, hm, hN.symm, hB⟩
  by_cases hfa : (s.files.any (·.rawVolume = v)) = true
  · refine hsame .VolumeStillInUse ?_ ?_
    · unfold closeVolume; rw [get_bind, if_pos hfa]; rfl
    · unfold closeVolumeN; rw [if_pos (by rw [hfa_eq]; exact hfa)]
  by_cases hda : (s.dirs.any (·.rawVolume = v)) = true
  · refine hsame .VolumeStillInUse ?_ ?_
    · unfold closeVolume; rw [get_bind, if_neg hfa, if_pos hda]; rfl
    · unfold closeVolumeN; rw [if_neg (by rw [hfa_eq]; exact hfa), if_pos (by rw [hda_eq]; exact hda)]
  cases hv : s.vols.findIdx? (·.rawVolume = v) with
  | none =>
    refine hsame .BadHandle ?_ ?_
    · unfold closeVolume; rw [get_bind, if_neg hfa, if_neg hda, bind_err (getVolumeById_bad hv)]
    · unfold closeVolumeN
      rw [if_neg (by rw [hfa_eq]; exact hfa), if_neg (by rw [hda_eq]; exact hda), hidx, hv]
  | some k =>
    obtain ⟨vi, hvi, hp⟩ := findIdx?_some_get hv
    have hraw : vi.rawVolume = v := by simpa using hp
    obtain ⟨dev', cache', hw, hI1, hm1⟩ := withVol_updateInfo_multi hI hm hvi
    have ho : closeVolume v s =
        (.ok (), { ({ s with dev := dev', cache := cache' } : Mgr) with vols := swapRemove s.vols k }) := by
      unfold closeVolume
      rw [get_bind, if_neg hfa, if_neg hda, bind_ok (getVolumeById_ok hv), bind_ok hw]
      rfl
    have hN : closeVolumeN B v = ({ B with vols := swapRemove B.vols k }, .ok .unit) := by
      unfold closeVolumeN
      rw [if_neg (by rw [hfa_eq]; exact hfa), if_neg (by rw [hda_eq]; exact hda), hidx, hv]
    have hnf : ∀ f, f ∈ s.files → f.rawVolume ≠ vi.rawVolume := by
      intro f hf e
      apply hfa
      rw [List.any_eq_true]
      exact ⟨f, hf, by simp [e, hraw]⟩
    have hnd : ∀ d, d ∈ s.dirs → d.rawVolume ≠ vi.rawVolume := by
      intro d hd e
      apply hda
      rw [List.any_eq_true]
      exact ⟨d, hd, by simp [e, hraw]⟩
    have hframe : ∀ (j : Nat) (vj : VolInfo) (gj : Ghost), s.vols[j]? = some vj → ghs[j]? = some gj → j ≠ k →
        ∀ b, InPartition gj.vol b → dev'.disk.get b = s.dev.disk.get b := by
      intro j vj gj hvj hgj hjk b hb
      by_contra hne
      have hne' : (closeVolume v s).2.dev.disk.get b ≠ s.dev.disk.get b := by rw [ho]; exact hne
      obtain ⟨k', vk, hvk, hrk, hreg⟩ := closeVolume_disk hI v b hne'
      have hkk : k' = k := index_of_handle hI.handles hvk hvi (hrk.trans hraw.symm)
      subst hkk
      rw [hvi] at hvk; cases hvk
      rw [← hI.vols j vj gj hvj hgj] at hb
      exact hI.parts k' j vi vj hvi hvj (Ne.symm hjk) b (inPartition_of_info hreg) hb
    rw [bind_ok ho, hN]
    refine ⟨swapRemove ghs k, ?_, ?_, hN.symm, absNx_remove hI hB hvi hnf dev' cache' hframe⟩
    · exact volInvN_remove (s := { s with dev := dev', cache := cache' }) hI1 hvi hnf hnd
    · exact mirrorN_remove hm1 k

/-! ### `open_volume` -/

theorem openRawVolume_ok_len {idx : Nat} {s s' : Mgr} {h : Nat} (hr : openRawVolume idx s = (.ok h, s')) :
    s.vols.length < s.maxVols := by
  rw [VolApi.openRawVolume_eq, get_bind] at hr
  by_cases hfull : s.vols.length ≥ s.maxVols
  · rw [if_pos hfull] at hr
    exact absurd (congrArg Prod.fst hr) (by intro h; cases h)
  · omega

/-- The abstract state after a successful mount. -/
def addVolA (B : AbsFsN) (idx : Nat) (ids : List Nat) (sl : Nat → List Spec.AbsFs.Slot) : AbsFsN :=
  { genN B with
    vols := B.vols ++ [(B.nextId, idx)]
    ids := fun hv => if hv = B.nextId then ids else B.ids hv
    slots := fun hv => if hv = B.nextId then sl else B.slots hv }

theorem absNx_add (hI : VolInvN s ghs) (hB : AbsNx s ghs B) (dev' : Dev) (cache' : Cache) (hd : dev'.disk = s.dev.disk)
    (idx : Nat) (v : FatVolume) (gh : Ghost) (hfresh : s.nextId ∉ s.vols.map fun vi => vi.rawVolume) :
    AbsNx (addVol { s with dev := dev', cache := cache' } idx v) (ghs ++ [gh])
      (addVolA B idx (dirIds gh.dirs)
        (absSlots (projH s.nextId s.vols.length (addVol { s with dev := dev', cache := cache' } idx v)) gh)) := by
  refine
    { nextId := by show (B.nextId + 1) % _ = (s.nextId + 1) % _; rw [hB.nextId]
      maxVols := hB.maxVols, maxDirs := hB.maxDirs, maxFiles := hB.maxFiles, clock := hB.clock, locked := hB.locked
      vols := by
        show B.vols ++ [(B.nextId, idx)] = (s.vols ++ [_]).map vkeyA
        rw [List.map_append, hB.vols, hB.nextId]; rfl
      dirs := hB.dirs, files := ?_, trees := ?_ }
  · show List.Forall₂ _ B.files s.files
    refine forall₂_mono hB.files fun af f _ hr => fileRelN_transfer hr fun j vj gj hvj hgj _ => ?_
    have hjlt : j < s.vols.length := (List.getElem?_eq_some_iff.1 hvj).1
    refine ⟨j, ?_, ?_, fun x _ => by show dirSlots _ dev'.disk _ _ = _; rw [hd]⟩
    · show (s.vols ++ [_])[j]? = _
      rw [List.getElem?_append_left hjlt, hvj]
    · rw [List.getElem?_append_left (by rw [hI.len]; exact hjlt), hgj]
  · intro j vj gj hvj hgj
    rcases getElem?_concat_cases (show (s.vols ++ [_])[j]? = some vj from hvj) with ⟨hjlt, hvj0⟩ | ⟨hje, hvje⟩
    · have hgj0 : ghs[j]? = some gj := by
        rwa [List.getElem?_append_left (by rw [hI.len]; exact hjlt)] at hgj
      have hne : vj.rawVolume ≠ B.nextId := by
        rw [hB.nextId]
        intro e
        exact hfresh (List.mem_map.2 ⟨vj, List.mem_of_getElem? hvj0, e⟩)
      obtain ⟨h1, h2⟩ := hB.trees j vj gj hvj0 hgj0
      refine ⟨by show (if _ then _ else B.ids _) = _; rw [if_neg hne]; exact h1, fun h hh => ?_⟩
      show (if vj.rawVolume = B.nextId then _ else B.slots vj.rawVolume) h = _
      rw [if_neg hne, h2 h hh]
      exact (absSlots_eq (t := projH vj.rawVolume j s)
        (t' := projH vj.rawVolume j (addVol { s with dev := dev', cache := cache' } idx v)) hd rfl gj h).symm
    · subst hvje
      have hgje : gj = gh := by
        rcases getElem?_concat_cases hgj with ⟨hlt, _⟩ | ⟨_, e⟩
        · rw [hI.len] at hlt; omega
        · exact e
      subst hgje hje
      have he : ({ rawVolume := s.nextId, idx := idx, vol := v } : VolInfo).rawVolume = B.nextId := hB.nextId.symm
      refine ⟨by show (if _ then _ else B.ids _) = _; rw [if_pos he], fun h _ => ?_⟩
      show (if _ then _ else B.slots _) h = _
      rw [if_pos he]

/-- **`open_volume`.**  `hnew` as in `openVolume_multi`. -/
theorem openVolume_core (hI : VolInvN s ghs) (hm : MirrorN s ghs) (hB : AbsNx s ghs B) (idx : Nat)
    (hnew : ∀ h s', openRawVolume idx s = (.ok h, s') → ∀ vi, s'.vols.getLast? = some vi →
      h ∉ s.vols.map (·.rawVolume) ∧ (∀ w, w ∈ s.vols → PartDisjoint w.vol vi.vol ∧ PartDisjoint vi.vol w.vol) ∧
      ∃ gh, gh.vol = vi.vol ∧ MedInv vi.vol s.dev.disk [] gh ∧ Mirror vi.vol s.dev.disk) :
    ∃ ghs' B', VolInvN (runOp (.openVolume idx) s).2 ghs' ∧ MirrorN (runOp (.openVolume idx) s).2 ghs' ∧
      coreStepN B (.openVolume idx) (B', (runOp (.openVolume idx) s).1) ∧ AbsNx (runOp (.openVolume idx) s).2 ghs' B' := by
  have hrun : runOp (.openVolume idx) s = (openRawVolume idx >>= fun h => (pure (Payload.handle h) : M Payload)) s := rfl
  rw [hrun]
  obtain ⟨t, ⟨dev', cache', rfl, hd, hf, hc⟩, hcase⟩ := AbsFs.openRaw_good' idx s
  rcases hcase with ⟨h2, hnok⟩ | ⟨v, _, h⟩
  · -- the mount fails: device bookkeeping and cache only
    have hI' := volInvN_ro hI dev' cache' hd (hf.trans hI.noFault) (hc hI.coherent)
    have hm' := mirrorN_ro hm dev' cache' hd
    have hB' : AbsNx { s with dev := dev', cache := cache' } ghs B :=
      absNx_tables (s' := { s with dev := dev', cache := cache' }) hB hd rfl rfl hB.nextId hB.maxVols hB.maxDirs hB.maxFiles
        hB.clock hB.locked hB.dirs rfl rfl rfl rfl
    rcases hr : openRawVolume idx s with ⟨r, s1⟩
    rw [hr] at h2 hnok
    simp only at h2 hnok
    subst h2
    cases r with
    | ok a => exact absurd rfl (hnok a)
    | err e => rw [bind_err hr]; exact ⟨ghs, B, hI', hm', .inl ⟨rfl, fun _ h => by cases h⟩, hB'⟩
    | panic e => rw [bind_panic hr]; exact ⟨ghs, B, hI', hm', .inl ⟨rfl, fun _ h => by cases h⟩, hB'⟩
    | diverged => rw [bind_diverged hr]; exact ⟨ghs, B, hI', hm', .inl ⟨rfl, fun _ h => by cases h⟩, hB'⟩
  · -- the mount succeeds
    obtain ⟨hfresh, hparts, gh, hgv, hM, hmir⟩ := hnew _ _ h { rawVolume := s.nextId, idx := idx, vol := v } (by
      show (s.vols ++ [_]).getLast? = _
      rw [List.getLast?_concat])
    obtain ⟨hI', hm'⟩ := volInvN_add hI hm dev' cache' hd (hf.trans hI.noFault) (hc hI.coherent) idx v gh hfresh
      (openRawVolume_ok_idx h) hparts hgv hM hmir
    rw [bind_ok h]
    refine ⟨ghs ++ [gh], _, hI', hm', ?_, absNx_add hI hB dev' cache' hd idx v gh hfresh⟩
    refine .inr ⟨?_, ?_, ?_, _, _, rfl⟩
    · show Res.ok (Payload.handle s.nextId) = _
      rw [hB.nextId]
    · rw [hB.vols, List.length_map, hB.maxVols]
      exact openRawVolume_ok_len h
    · intro x hx e
      rw [hB.vols] at hx
      obtain ⟨w, hw, rfl⟩ := List.mem_map.1 hx
      exact openRawVolume_ok_idx h (List.mem_map.2 ⟨w, hw, e⟩)

end

end Sdmmc.Lemmas.VolN
