/-
Volume invariant (C03), layer 1a: one slot of one directory changes — a file entry is created in a free
slot (`tree_insert_file`), a file entry is deleted (`tree_delete`), a sub-directory is created
(`tree_mkdir`), a directory grows by blank slots / anything that keeps every entry list (`tree_same_entries`).
-/
import Sdmmc.Lemmas.VolTreeSlots

namespace Sdmmc.Lemmas.VolTree
open Sdmmc.Model Sdmmc.Model.Fat Sdmmc.Spec Sdmmc.Spec.Volume Sdmmc.Lemmas.VolBase

section
variable {ft : FatType} {cb : Nat} {root : List Nat} {G G' : List (List Nat)} {dirs : List (Nat × Nat)}
  {slots slots' : Nat → List Slot} {files : List FileInfo}

/-- A slot a new entry may go to. -/
def freeSlot (s : Slot) : Prop := first s = 0 ∨ first s = 0xE5

theorem not_keep_of_free {s : Slot} (h : freeSlot s) : ¬ (first s ≠ 0 ∧ keep s = true) := by
  rintro ⟨h0, hk⟩
  rcases h with h | h
  · exact h0 h
  · unfold keep at hk
    rw [h] at hk
    simp at hk

/-- **A file entry is created** in a free slot (the end marker — then the tail is blank — or a deleted
slot): no cluster, size 0, a name the directory does not have yet, no open file at that position. -/
theorem tree_insert_file (hT : TreeOK ft cb root G dirs slots files) (hG : HeadsOK G) {h : Nat} {pre post : List Slot}
    {old new : Slot} (hE : SlotEdit dirs slots slots' h pre post old new)
    (hold : freeSlot old) (hnew : keep new = true) (hnd : isDirE new = false)
    (hname : sName new ∉ (entries (slots h)).map sName)
    (hcl : sCluster ft new = 0) (hsz : sSize new = 0) (hfree : pendOf files new = none) :
    TreeOK ft cb root G dirs slots' files := by
  obtain ⟨A, hO, hO', hEn, hEn'⟩ := hE.objects_eq hT (hE.post_zero hT)
  rw [if_neg (not_keep_of_free hold)] at hO hEn
  rw [if_pos hnew] at hO' hEn'
  have hids := dirIds_nodup hT hG
  have hec : effCluster ft files new = 0 := by rw [effCluster_of_none hfree, hcl]
  have hes : effSize files new = 0 := by rw [effSize_of_none hfree, hsz]
  have := tree_edit (extra := []) (slots' := slots') (files' := files) (G' := G) (A := A) (X := []) (Y := [new])
    (B := entries post) hT (by rw [List.append_nil]; exact hids) hE.mem hE.other hO hO' (hE.cleanTail hT) ?_ (hE.dots hT hG)
    (fun c p hcp => by cases hcp) hT.filesDistinct hT.fileAttrs ?_ ?_ ?_ ?_ ?_ ?_
  · rw [List.append_nil] at this; exact this
  · -- names
    have hn := hT.names h hE.mem
    rw [hEn] at hn hname
    rw [hEn']
    simp only [List.map_append, List.map_cons, List.map_nil] at hn hname ⊢
    rw [List.append_assoc, List.singleton_append, List.nodup_middle, List.nodup_cons]
    simp only [List.append_nil] at hn hname
    exact ⟨hname, hn⟩
  · -- fileSlots
    intro f hf
    rw [List.append_nil]
    obtain ⟨x, hx, o, ho, hrest⟩ := hT.fileSlots f hf
    refine ⟨x, hx, o, ?_, hrest⟩
    by_cases hxh : x = h
    · subst hxh
      rw [hO] at ho
      rw [hO']
      simp only [List.mem_append, List.mem_singleton, List.not_mem_nil, or_false] at ho ⊢
      tauto
    · rw [hE.other x hx hxh]; exact ho
  · intro x hx o ho hAB hd
    exact ⟨rfl, rfl, fun _ => Nat.le_refl _⟩
  · intro o ho hd
    rw [List.mem_singleton] at ho; subst ho
    rw [hnd] at hd; cases hd
  · intro a
    rw [subdirRefs_single, hnd]
    simp [subdirRefs_nil]
  · intro a
    rw [fileRefs_single, hec]
    simp [fileRefs_nil]
  · intro o ho _
    rw [List.mem_singleton] at ho; subst ho
    exact .inl ⟨hec, hes⟩

/-- **A file entry is deleted** (its first byte becomes 0xE5): no open file sits there; its chain — if it
has one — leaves the chain list (`hAR`), no other chain shrinks. -/
theorem tree_delete (hT : TreeOK ft cb root G dirs slots files) (hG : HeadsOK G) {h : Nat} {pre post : List Slot}
    {old new : Slot} (hE : SlotEdit dirs slots slots' h pre post old new)
    (hold : first old ≠ 0 ∧ keep old = true) (hod : isDirE old = false) (hnew : keep new = false)
    (hfree : pendOf files old = none)
    (hlen : ∀ c, c ∈ heads G → c ≠ sCluster ft old → (chainOf G c).length ≤ (chainOf G' c).length)
    (hAR : ∀ a, (heads G).count a = (if sCluster ft old ≠ 0 then [sCluster ft old] else []).count a + (heads G').count a) :
    TreeOK ft cb root G' dirs slots' files := by
  obtain ⟨A, hO, hO', hEn, hEn'⟩ := hE.objects_eq hT (fun h0 => absurd h0 hold.1)
  rw [if_pos hold] at hO hEn
  rw [if_neg (by rw [hnew]; decide)] at hO' hEn'
  have hids := dirIds_nodup hT hG
  have hec : effCluster ft files old = sCluster ft old := effCluster_of_none hfree
  have := tree_edit (extra := []) (slots' := slots') (files' := files) (G' := G') (A := A) (X := [old]) (Y := [])
    (B := entries post) hT (by rw [List.append_nil]; exact hids) hE.mem hE.other hO hO' (hE.cleanTail hT) ?_ (hE.dots hT hG)
    (fun c p hcp => by cases hcp) hT.filesDistinct hT.fileAttrs ?_ ?_ ?_ ?_ ?_ ?_
  · rw [List.append_nil] at this; exact this
  · -- names
    have hn := hT.names h hE.mem
    rw [hEn] at hn
    rw [hEn']
    simp only [List.map_append, List.map_cons, List.map_nil] at hn ⊢
    rw [List.append_assoc, List.singleton_append, List.nodup_middle, List.nodup_cons] at hn
    simp only [List.append_nil]
    exact hn.2
  · -- fileSlots
    intro f hf
    rw [List.append_nil]
    obtain ⟨x, hx, o, ho, h1, h2, hrest⟩ := hT.fileSlots f hf
    refine ⟨x, hx, o, ?_, h1, h2, hrest⟩
    by_cases hxh : x = h
    · subst hxh
      rw [hO] at ho
      rw [hO']
      have hne : o ≠ old := by
        rintro rfl
        exact (pendOf_none_iff files o).1 hfree f hf (Prod.ext h1 h2).symm
      simp only [List.mem_append, List.mem_singleton, List.not_mem_nil, or_false] at ho ⊢
      tauto
    · rw [hE.other x hx hxh]; exact ho
  · intro x hx o ho hAB hd
    refine ⟨rfl, rfl, fun hc => ?_⟩
    refine hlen _ (fileRef_mem_heads hT hx ho hd hc) ?_
    rw [← hec]
    exact eff_ne_of_split hT hG hE.mem hO hod x hx o ho hAB hd hc
  · intro o ho; cases ho
  · intro a
    rw [subdirRefs_single, hod]
    simp [subdirRefs_nil]
  · intro a
    have := hAR a
    rw [fileRefs_single, hec, hod]
    simp only [List.map_nil, List.count_nil, Nat.add_zero, fileRefs_nil, true_and, Nat.zero_add]
    exact this
  · intro o ho; cases ho

/-- **Nothing changes in any entry list** (a directory grows by blank slots; data blocks are written; FAT
entries of file chains change): first clusters the same, no referenced chain shrinks. -/
theorem tree_same_entries (hT : TreeOK ft cb root G dirs slots files) (hG : HeadsOK G)
    (hent : ∀ x, x ∈ dirIds dirs → entries (slots' x) = entries (slots x))
    (hct : ∀ x, x ∈ dirIds dirs → CleanTail (slots' x))
    (hdots : ∀ x p, (x, p) ∈ dirs → DotsOK ft x p (slots' x))
    (hheads : ∀ a, (heads G').count a = (heads G).count a)
    (hlen : ∀ c, c ∈ heads G → c ∉ root → c ∉ dirs.map Prod.fst → (chainOf G c).length ≤ (chainOf G' c).length) :
    TreeOK ft cb root G' dirs slots' files := by
  have hobj : ∀ x, x ∈ dirIds dirs → objects x (slots' x) = objects x (slots x) := by
    intro x hx; unfold objects; rw [hent x hx]
  refine
    { cleanTail := hct, names := ?_, order := hT.order, dots := hdots, subdirs := ?_, dirRefs := ?_, allRefs := ?_,
      sizes := ?_, fileSlots := ?_, fileAttrs := hT.fileAttrs, filesDistinct := hT.filesDistinct }
  · intro x hx; rw [hent x hx]; exact hT.names x hx
  · intro x hx o ho hd; rw [hobj x hx] at ho; exact hT.subdirs x hx o ho hd
  · have : ((dirIds dirs).flatMap fun x => subdirRefs ft (objects x (slots' x))) =
        (dirIds dirs).flatMap fun x => subdirRefs ft (objects x (slots x)) :=
      List.flatMap_congr fun x hx => by rw [hobj x hx]
    rw [this]; exact hT.dirRefs
  · have : ((dirIds dirs).flatMap fun x => fileRefs ft files (objects x (slots' x))) =
        (dirIds dirs).flatMap fun x => fileRefs ft files (objects x (slots x)) :=
      List.flatMap_congr fun x hx => by rw [hobj x hx]
    rw [this]
    exact hT.allRefs.trans (perm_of_count fun a => (hheads a).symm)
  · intro x hx o ho hd
    rw [hobj x hx] at ho
    rcases hT.sizes x hx o ho hd with hz | ⟨hnz, hle⟩
    · exact .inl hz
    · obtain ⟨h1, h2⟩ := fileRef_not_dir hT hG hx ho hd hnz
      exact .inr ⟨hnz, Nat.le_trans hle (Nat.mul_le_mul_right _ (hlen _ (fileRef_mem_heads hT hx ho hd hnz) h1 h2))⟩
  · intro f hf
    obtain ⟨x, hx, o, ho, hrest⟩ := hT.fileSlots f hf
    exact ⟨x, hx, o, by rw [hobj x hx]; exact ho, hrest⟩

/-- **A sub-directory is created**: a directory entry naming cluster `c` goes into a free slot of
directory `h`; `c` is a new directory number whose slot list holds the two dot entries and nothing
else; the chain list gains a chain starting at `c`. -/
theorem tree_mkdir (hT : TreeOK ft cb root G dirs slots files) (hG : HeadsOK G) {h : Nat} {pre post : List Slot}
    {old new : Slot} (hE : SlotEdit dirs slots slots' h pre post old new)
    (hold : freeSlot old) (hnew : keep new = true) (hnd : isDirE new = true)
    (hname : sName new ∉ (entries (slots h)).map sName)
    {c : Nat} (hcl : sCluster ft new = c) (hc : c ∉ dirIds dirs)
    (hctC : CleanTail (slots' c)) (hnamesC : ((entries (slots' c)).map sName).Nodup)
    (hdotsC : DotsOK ft c h (slots' c)) (hobjC : objects c (slots' c) = [])
    (hAR : ∀ a, (heads G').count a = [c].count a + (heads G).count a)
    (hlen : ∀ c', c' ∈ heads G → (chainOf G c').length ≤ (chainOf G' c').length) :
    TreeOK ft cb root G' (dirs ++ [(c, h)]) slots' files := by
  obtain ⟨A, hO, hO', hEn, hEn'⟩ := hE.objects_eq hT (hE.post_zero hT)
  rw [if_neg (not_keep_of_free hold)] at hO hEn
  rw [if_pos hnew] at hO' hEn'
  have hids := dirIds_nodup hT hG
  have hids' : (dirIds (dirs ++ [(c, h)])).Nodup := by
    rw [dirIds_append, List.map_singleton, List.nodup_append]
    refine ⟨hids, List.nodup_singleton _, ?_⟩
    intro a ha b hb e
    rw [List.mem_singleton] at hb
    have hb' : b = c := hb
    rw [e, hb'] at ha
    exact hc ha
  apply tree_edit (A := A) (X := []) (Y := [new]) (B := entries post) hT hids' hE.mem hE.other hO hO' (hE.cleanTail hT) ?_
    (hE.dots hT hG) ?_ hT.filesDistinct hT.fileAttrs ?_ ?_ ?_ ?_ ?_ ?_
  · -- names
    have hn := hT.names h hE.mem
    rw [hEn] at hn hname
    rw [hEn']
    simp only [List.map_append, List.map_cons, List.map_nil] at hn hname ⊢
    rw [List.append_assoc, List.singleton_append, List.nodup_middle, List.nodup_cons]
    simp only [List.append_nil] at hn hname
    exact ⟨hname, hn⟩
  · -- the new directory
    intro c' p hcp
    rw [List.mem_singleton] at hcp
    obtain ⟨rfl, rfl⟩ := Prod.mk.inj hcp
    exact ⟨hE.mem, hctC, hnamesC, hdotsC, hobjC⟩
  · -- fileSlots
    intro f hf
    obtain ⟨x, hx, o, ho, hrest⟩ := hT.fileSlots f hf
    refine ⟨x, by rw [dirIds_append]; exact List.mem_append_left _ hx, o, ?_, hrest⟩
    by_cases hxh : x = h
    · subst hxh
      rw [hO] at ho
      rw [hO']
      simp only [List.mem_append, List.mem_singleton, List.not_mem_nil, or_false] at ho ⊢
      tauto
    · rw [hE.other x hx hxh]; exact ho
  · intro x hx o ho hAB hd
    exact ⟨rfl, rfl, fun hcne => hlen _ (fileRef_mem_heads hT hx ho hd hcne)⟩
  · intro o ho _
    rw [List.mem_singleton] at ho; subst ho
    rw [hcl]
    exact List.mem_append_right _ (List.mem_singleton.2 rfl)
  · intro a
    rw [subdirRefs_single, hnd, hcl]
    simp [subdirRefs_nil, List.count_append]
    omega
  · intro a
    have := hAR a
    unfold heads at this
    rw [fileRefs_single, hnd]
    simp only [List.map_singleton, fileRefs_nil, List.count_nil, Nat.zero_add, Bool.true_eq_false, false_and,
      if_false]
    omega
  · intro o ho hd
    rw [List.mem_singleton] at ho; subst ho
    rw [hnd] at hd; cases hd

end

end Sdmmc.Lemmas.VolTree
