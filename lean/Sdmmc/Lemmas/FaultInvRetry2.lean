/-
C11 under the invariant, part 17 (API): the retry of `open_dir`, and the retry theorem over the calls (`retry_step`).
-/
import Sdmmc.Lemmas.FaultInvRetry

namespace Sdmmc.Lemmas.FaultInv
open Sdmmc.Model Sdmmc.Model.Fat Sdmmc.Spec.Volume Sdmmc.Lemmas.VolBase Sdmmc.Lemmas.VolTree
open Sdmmc.Spec hiding NoFault Coherent
open Sdmmc.Lemmas.VolDisk Sdmmc.Lemmas.VolMed Sdmmc.Lemmas.VolApi Sdmmc.Lemmas.VolEng
open Sdmmc.Lemmas.FBasic (NoFault Coherent)
open Sdmmc.Lemmas.CrashBase Sdmmc.Lemmas.Retry Sdmmc.Lemmas.FaultPre Sdmmc.Lemmas.MHoare
open Sdmmc.Lemmas.Fault hiding resetLogs

/-- The part of `open_dir` after the lookup. -/
def openDirK (vi : VolInfo) (e : DirEntry) : M Nat :=
  if !Attr.isDirectory e.attributes then M.fail .OpenedFileAsDir else do
    let id ← generate
    M.modify fun s => { s with dirs := s.dirs ++ [{ rawDirectory := id, rawVolume := vi.rawVolume, cluster := e.cluster }] }
    pure id

theorem openDirK_dev (vi : VolInfo) (e : DirEntry) (s : Mgr) : (openDirK vi e s).2.dev = s.dev := by
  unfold openDirK
  by_cases h : (!Attr.isDirectory e.attributes) = true
  · rw [if_pos h]; rfl
  · rw [if_neg h]; rfl

theorem openDir_prefix (t : Mgr) (d : Nat) (name : List Nat) {di : Nat} {dir : DirInfo} {vidx : Nat} {vi : VolInfo} {sfn : Bytes}
    (hfull : ¬ t.dirs.length ≥ t.maxDirs) (hs : Sfn.createFromStr name = .ok sfn) (hne : sfn ≠ Sfn.thisDir)
    (hd : DirHandle t d di vidx dir vi) :
    openDir d name t = (withVol vidx (Fat.findDirectoryEntry dir.cluster sfn) >>= openDirK vi) t := by
  unfold openDir
  rw [get_bind, if_neg hfull, bind_ok (getDirById_ok hd.found), bind_ok (getDir_ok hd.slot),
    bind_ok (getVolumeById_ok hd.volFound), bind_ok (Modes.toSfn_ok hs _), bind_ok (getVolInfo_ok hd.volSlot), if_neg hne]
  rfl

/-- What `open_dir` answers for a name other than `.`, without a fault: a function of the tables and the medium. -/
def openDirAns (t : Mgr) (o : Option DirEntry) : Res Nat :=
  match o with
  | none => .err .NotFound
  | some e => if !Attr.isDirectory e.attributes then .err .OpenedFileAsDir else .ok t.nextId

theorem openDirAns_some (t : Mgr) (e : DirEntry) :
    openDirAns t (some e) = if !Attr.isDirectory e.attributes then .err .OpenedFileAsDir else .ok t.nextId := rfl

theorem openDir_eval (t : Mgr) (d : Nat) (name : List Nat) {di : Nat} {dir : DirInfo} {vidx : Nat} {vi : VolInfo} {sfn : Bytes}
    {dcs : List Nat} (hfull : ¬ t.dirs.length ≥ t.maxDirs) (hs : Sfn.createFromStr name = .ok sfn) (hne : sfn ≠ Sfn.thisDir)
    (hn : t.dev.faults = []) (hr : DirReady d di vidx dir vi dcs t) :
    (openDir d name t).1 = openDirAns t (Reopen.dirLookup vi.vol t.dev.disk dir.cluster dcs sfn) := by
  obtain ⟨hc, hd, hdir⟩ := hr
  rw [openDir_prefix t d name hfull hs hne hd, bind_def, WriteRefines.withVol_run vidx _ t vi hd.volSlot]
  obtain ⟨s', h, _⟩ := Reopen.find_dir_spec (ReadRefines.fsOf t vi) dir.cluster dcs sfn hn hc hdir
  change Fat.findDirectoryEntry dir.cluster sfn (ReadRefines.fsOf t vi) =
    ((Reopen.dirLookup vi.vol t.dev.disk dir.cluster dcs sfn).elim (.err .NotFound) .ok, s') at h
  rw [h]
  cases Reopen.dirLookup vi.vol t.dev.disk dir.cluster dcs sfn with
  | none => rfl
  | some e =>
    show (openDirK vi e _).1 = _
    rw [openDirAns_some]
    unfold openDirK
    by_cases hdirE : (!Attr.isDirectory e.attributes) = true
    · rw [if_pos hdirE, if_pos hdirE]; rfl
    · rw [if_neg hdirE, if_neg hdirE]; rfl

theorem retry_openDir {s0 : Mgr} {gh : Ghost} (hI : VolInv s0 gh) (L : List Nat) (d : Nat) (name : List Nat)
    (hfail : (openDir d name (withFaults L s0)).2.dev.failed ≠ s0.dev.failed) :
    (openDir d name (resetLogs (withFaults [] (openDir d name (withFaults L s0)).2))).1 = (openDir d name s0).1 ∧
    (openDir d name (withFaults L s0)).2.locked = false := by
  by_cases hfull : s0.dirs.length ≥ s0.maxDirs
  · exfalso; apply hfail
    unfold openDir
    rw [get_bind, if_pos (show (withFaults L s0).dirs.length ≥ (withFaults L s0).maxDirs from hfull)]; rfl
  cases hidx : s0.dirs.findIdx? (·.rawDirectory = d) with
  | none =>
    exfalso; apply hfail
    unfold openDir
    rw [get_bind, if_neg (show ¬ (withFaults L s0).dirs.length ≥ (withFaults L s0).maxDirs from hfull),
      bind_err (getDirById_bad (s := withFaults L s0) hidx)]; rfl
  | some di =>
    obtain ⟨dir, hdi, _⟩ := findIdx?_some_get hidx
    cases hv : s0.vols.findIdx? (·.rawVolume = dir.rawVolume) with
    | none =>
      exfalso; apply hfail
      unfold openDir
      rw [get_bind, if_neg (show ¬ (withFaults L s0).dirs.length ≥ (withFaults L s0).maxDirs from hfull),
        bind_ok (getDirById_ok (s := withFaults L s0) hidx), bind_ok (getDir_ok (s := withFaults L s0) hdi),
        bind_err (getVolumeById_bad (s := withFaults L s0) hv)]; rfl
    | some vidx =>
      obtain ⟨vi, dcs, _, hr⟩ := dirReady_of_inv hI hidx hdi hv
      have hvs : s0.vols[vidx]? = some vi := hr.2.1.volSlot
      cases hs : Sfn.createFromStr name with
      | error e =>
        exfalso; apply hfail
        unfold openDir
        rw [get_bind, if_neg (show ¬ (withFaults L s0).dirs.length ≥ (withFaults L s0).maxDirs from hfull),
          bind_ok (getDirById_ok (s := withFaults L s0) hidx), bind_ok (getDir_ok (s := withFaults L s0) hdi),
          bind_ok (getVolumeById_ok (s := withFaults L s0) hv), bind_err (Modes.toSfn_err hs _)]; rfl
      | ok sfn =>
        by_cases hdot : sfn = Sfn.thisDir
        · exfalso; apply hfail
          unfold openDir
          rw [get_bind, if_neg (show ¬ (withFaults L s0).dirs.length ≥ (withFaults L s0).maxDirs from hfull),
            bind_ok (getDirById_ok (s := withFaults L s0) hidx), bind_ok (getDir_ok (s := withFaults L s0) hdi),
            bind_ok (getVolumeById_ok (s := withFaults L s0) hv), bind_ok (Modes.toSfn_ok hs _),
            bind_ok (getVolInfo_ok (s := withFaults L s0) hvs), if_pos hdot]
          rfl
        -- the lookup ran
        have hr0 : DirReady d di vidx dir vi dcs (withFaults L s0) := DirReady.of_mro s0 s0 L hr (MRO.refl s0)
        have hpre := openDir_prefix (withFaults L s0) d name (show ¬ (withFaults L s0).dirs.length ≥ (withFaults L s0).maxDirs from hfull)
          hs hdot hr0.2.1
        have hmw : MRO (withFaults L s0) (withVol vidx (Fat.findDirectoryEntry dir.cluster sfn) (withFaults L s0)).2 :=
          MRO.withVol _ (findDirectoryEntry_inv (R := FatOps.RO) _ _) _
        have hstrict := MStrict.withVol vidx (findDirectoryEntry_strict dir.cluster sfn) (withFaults L s0)
        have hm : MRO (withFaults L s0) (openDir d name (withFaults L s0)).2 := by
          rw [hpre, bind_def]
          rcases hw : withVol vidx (Fat.findDirectoryEntry dir.cluster sfn) (withFaults L s0) with ⟨r, s'⟩
          rw [hw] at hmw hstrict
          rw [hpre, bind_def, hw] at hfail
          by_cases hq : s'.dev.failed = (withFaults L s0).dev.failed
          · exfalso; apply hfail
            cases r with
            | ok e => show (openDirK vi e s').2.dev.failed = _; rw [openDirK_dev]; exact hq
            | err e => exact hq
            | panic m => exact hq
            | diverged => exact hq
          · rw [show r = .err .DeviceError from hstrict hq]; exact hmw
        have hr1 := dirReady_resetLogs (DirReady.of_mro _ _ [] hr0 hm)
        have hfull1 : ¬ (resetLogs (withFaults [] (openDir d name (withFaults L s0)).2)).dirs.length ≥
            (resetLogs (withFaults [] (openDir d name (withFaults L s0)).2)).maxDirs := by
          show ¬ (openDir d name (withFaults L s0)).2.dirs.length ≥ (openDir d name (withFaults L s0)).2.maxDirs
          rw [hm.eq]; exact hfull
        refine ⟨?_, by rw [hm.eq]; exact hI.unlocked⟩
        rw [openDir_eval _ d name hfull1 hs hdot rfl hr1, openDir_eval s0 d name hfull hs hdot hI.noFault hr]
        have hd : (resetLogs (withFaults [] (openDir d name (withFaults L s0)).2)).dev.disk = s0.dev.disk := hm.disk
        rw [hd]
        have hnid : (resetLogs (withFaults [] (openDir d name (withFaults L s0)).2)).nextId = s0.nextId := by
          show (openDir d name (withFaults L s0)).2.nextId = _
          rw [hm.eq]; rfl
        unfold openDirAns
        rw [hnid]

theorem openDir_hit_mro {s0 : Mgr} {gh : Ghost} (hI : VolInv s0 gh) (L : List Nat) (d : Nat) (name : List Nat)
    (hfail : (openDir d name (withFaults L s0)).2.dev.failed ≠ s0.dev.failed) :
    MRO (withFaults L s0) (openDir d name (withFaults L s0)).2 := by
  by_cases hfull : s0.dirs.length ≥ s0.maxDirs
  · exfalso; apply hfail
    unfold openDir
    rw [get_bind, if_pos (show (withFaults L s0).dirs.length ≥ (withFaults L s0).maxDirs from hfull)]; rfl
  cases hidx : s0.dirs.findIdx? (·.rawDirectory = d) with
  | none =>
    exfalso; apply hfail
    unfold openDir
    rw [get_bind, if_neg (show ¬ (withFaults L s0).dirs.length ≥ (withFaults L s0).maxDirs from hfull),
      bind_err (getDirById_bad (s := withFaults L s0) hidx)]; rfl
  | some di =>
    obtain ⟨dir, hdi, _⟩ := findIdx?_some_get hidx
    cases hv : s0.vols.findIdx? (·.rawVolume = dir.rawVolume) with
    | none =>
      exfalso; apply hfail
      unfold openDir
      rw [get_bind, if_neg (show ¬ (withFaults L s0).dirs.length ≥ (withFaults L s0).maxDirs from hfull),
        bind_ok (getDirById_ok (s := withFaults L s0) hidx), bind_ok (getDir_ok (s := withFaults L s0) hdi),
        bind_err (getVolumeById_bad (s := withFaults L s0) hv)]; rfl
    | some vidx =>
      obtain ⟨vi, dcs, _, hr⟩ := dirReady_of_inv hI hidx hdi hv
      have hvs : s0.vols[vidx]? = some vi := hr.2.1.volSlot
      cases hs : Sfn.createFromStr name with
      | error e =>
        exfalso; apply hfail
        unfold openDir
        rw [get_bind, if_neg (show ¬ (withFaults L s0).dirs.length ≥ (withFaults L s0).maxDirs from hfull),
          bind_ok (getDirById_ok (s := withFaults L s0) hidx), bind_ok (getDir_ok (s := withFaults L s0) hdi),
          bind_ok (getVolumeById_ok (s := withFaults L s0) hv), bind_err (Modes.toSfn_err hs _)]; rfl
      | ok sfn =>
        by_cases hdot : sfn = Sfn.thisDir
        · exfalso; apply hfail
          unfold openDir
          rw [get_bind, if_neg (show ¬ (withFaults L s0).dirs.length ≥ (withFaults L s0).maxDirs from hfull),
            bind_ok (getDirById_ok (s := withFaults L s0) hidx), bind_ok (getDir_ok (s := withFaults L s0) hdi),
            bind_ok (getVolumeById_ok (s := withFaults L s0) hv), bind_ok (Modes.toSfn_ok hs _),
            bind_ok (getVolInfo_ok (s := withFaults L s0) hvs), if_pos hdot]
          rfl
        -- the lookup ran
        have hr0 : DirReady d di vidx dir vi dcs (withFaults L s0) := DirReady.of_mro s0 s0 L hr (MRO.refl s0)
        have hpre := openDir_prefix (withFaults L s0) d name (show ¬ (withFaults L s0).dirs.length ≥ (withFaults L s0).maxDirs from hfull)
          hs hdot hr0.2.1
        have hmw : MRO (withFaults L s0) (withVol vidx (Fat.findDirectoryEntry dir.cluster sfn) (withFaults L s0)).2 :=
          MRO.withVol _ (findDirectoryEntry_inv (R := FatOps.RO) _ _) _
        have hstrict := MStrict.withVol vidx (findDirectoryEntry_strict dir.cluster sfn) (withFaults L s0)
        have hm : MRO (withFaults L s0) (openDir d name (withFaults L s0)).2 := by
          rw [hpre, bind_def]
          rcases hw : withVol vidx (Fat.findDirectoryEntry dir.cluster sfn) (withFaults L s0) with ⟨r, s'⟩
          rw [hw] at hmw hstrict
          rw [hpre, bind_def, hw] at hfail
          by_cases hq : s'.dev.failed = (withFaults L s0).dev.failed
          · exfalso; apply hfail
            cases r with
            | ok e => show (openDirK vi e s').2.dev.failed = _; rw [openDirK_dev]; exact hq
            | err e => exact hq
            | panic m => exact hq
            | diverged => exact hq
          · rw [show r = .err .DeviceError from hstrict hq]; exact hmw
        exact hm

theorem openDir_hit_dirs {s0 : Mgr} {gh : Ghost} (hI : VolInv s0 gh) (L : List Nat) (d : Nat) (name : List Nat)
    (hfail : (openDir d name (withFaults L s0)).2.dev.failed ≠ s0.dev.failed) :
    (openDir d name (withFaults L s0)).2.dirs = s0.dirs := by
  rw [(openDir_hit_mro hI L d name hfail).eq]; rfl

/-! ### Over the calls -/

/-- The read-only calls the retry theorem covers: all of them except `get_root_volume_label` (it draws a handle
before it reads: the retry opens the root directory under another handle id, and `VolInv` does not say that handle
ids are fresh). -/
def retryOp : Op → Bool
  | .closeVolume _ | .openFile _ _ _ | .write _ _ | .flush _ | .closeFile _ | .delete _ _ | .mkdir _ _ | .label _ => false
  | _ => true

theorem retryOp_readOnly {op : Op} (h : retryOp op = true) : readOnlyOp op = true := by
  cases op <;> first | rfl | cases h

theorem openVolume_nodev {s : Mgr} (hv : s.vols ≠ []) (hmax : s.maxVols = 1) (idx : Nat) :
    (openRawVolume idx s).2.dev = s.dev := by
  unfold openRawVolume
  rw [get_bind, if_pos (by
    show s.vols.length ≥ s.maxVols
    rw [hmax]
    cases hs : s.vols with
    | nil => exact absurd hs hv
    | cons a l => simp only [List.length_cons]; omega)]
  rfl

/-- **The retry gives the fault-free answer.**  `s0` satisfies the invariant; the read-only call `op` runs under ANY
fault schedule `L` and a device call of it fails.  Then `op` issued again from the state the failed call left, with
the fault gone, returns exactly what `op` returns from `s0` without any fault. -/
theorem retry_step {s0 : Mgr} {gh : Ghost} (hI : VolInv s0 gh) (L : List Nat) (op : Op) (hop : retryOp op = true)
    (hvol : s0.vols ≠ [])
    (hfail : (step (withFaults L s0) op).1.dev.failed ≠ s0.dev.failed) :
    (step (withFaults [] (step (withFaults L s0) op).1) op).2.result = (step s0 op).2.result := by
  have hI' := volInv_resetLogs hI
  have e1 := MHoare.step_unlocked (withFaults L s0) op hI.unlocked
  rw [resetLogs_withFaults] at e1
  rw [e1] at hfail ⊢
  rw [MHoare.step_unlocked s0 op hI.unlocked]
  have key : (runOp op (resetLogs (withFaults [] (runOp op (withFaults L (resetLogs s0))).2))).1 = (runOp op (resetLogs s0)).1 ∧
      (runOp op (withFaults L (resetLogs s0))).2.locked = false := by
    have hf : (runOp op (withFaults L (resetLogs s0))).2.dev.failed ≠ (resetLogs s0).dev.failed := hfail
    by_cases hnd : noDevOp op = true
    · exact absurd (by rw [runOp_nodev op hnd]; rfl) hf
    cases op with
    | openVolume idx =>
      refine absurd ?_ hf
      show ((openRawVolume idx >>= fun h => (pure (Payload.handle h) : M Payload)) (withFaults L (resetLogs s0))).2.dev.failed = _
      rw [map_state, openVolume_nodev (s := withFaults L (resetLogs s0)) hvol hI.maxVols]; rfl
    | openDir d name =>
      have hf' : (openDir d name (withFaults L (resetLogs s0))).2.dev.failed ≠ (resetLogs s0).dev.failed := by
        rw [← map_state (openDir d name) Payload.handle]; exact hf
      obtain ⟨h1, h2⟩ := retry_openDir hI' L d name hf'
      refine ⟨?_, by rw [← h2]; exact congrArg Mgr.locked (map_state (openDir d name) Payload.handle _)⟩
      show ((openDir d name >>= fun h => (pure (Payload.handle h) : M Payload)) _).1 = ((openDir d name >>= fun h => (pure (Payload.handle h) : M Payload)) _).1
      apply map_fst_congr
      rw [← h1]
      exact congrArg (fun t => (openDir d name (resetLogs (withFaults [] t))).1) (map_state (openDir d name) Payload.handle _)
    | read f n =>
      have hf' : (Model.read f n (withFaults L (resetLogs s0))).2.dev.failed ≠ (resetLogs s0).dev.failed := by
        rw [← map_state (Model.read f n) Payload.bytes]; exact hf
      obtain ⟨h1, h2⟩ := retry_read hI' L f n hf'
      refine ⟨?_, by rw [← h2]; exact congrArg Mgr.locked (map_state (Model.read f n) Payload.bytes _)⟩
      show ((Model.read f n >>= fun h => (pure (Payload.bytes h) : M Payload)) _).1 = ((Model.read f n >>= fun h => (pure (Payload.bytes h) : M Payload)) _).1
      apply map_fst_congr
      rw [← h1]
      exact congrArg (fun t => (Model.read f n (resetLogs (withFaults [] t))).1) (map_state (Model.read f n) Payload.bytes _)
    | find d name =>
      have hf' : (Model.findDirectoryEntry d name (withFaults L (resetLogs s0))).2.dev.failed ≠ (resetLogs s0).dev.failed := by
        rw [← map_state (Model.findDirectoryEntry d name) Payload.entry]; exact hf
      obtain ⟨h1, h2⟩ := retry_find hI' L d name hf'
      refine ⟨?_, by rw [← h2]; exact congrArg Mgr.locked (map_state (Model.findDirectoryEntry d name) Payload.entry _)⟩
      show ((Model.findDirectoryEntry d name >>= fun h => (pure (Payload.entry h) : M Payload)) _).1 =
        ((Model.findDirectoryEntry d name >>= fun h => (pure (Payload.entry h) : M Payload)) _).1
      apply map_fst_congr
      rw [← h1]
      exact congrArg (fun t => (Model.findDirectoryEntry d name (resetLogs (withFaults [] t))).1)
        (map_state (Model.findDirectoryEntry d name) Payload.entry _)
    | list d =>
      have hf' : (iterateDir d (withFaults L (resetLogs s0))).2.dev.failed ≠ (resetLogs s0).dev.failed := by
        rw [← map_state (iterateDir d) Payload.entries]; exact hf
      obtain ⟨h1, h2⟩ := retry_list hI' L d hf'
      refine ⟨?_, by rw [← h2]; exact congrArg Mgr.locked (map_state (iterateDir d) Payload.entries _)⟩
      show ((iterateDir d >>= fun h => (pure (Payload.entries h) : M Payload)) _).1 =
        ((iterateDir d >>= fun h => (pure (Payload.entries h) : M Payload)) _).1
      apply map_fst_congr
      rw [← h1]
      exact congrArg (fun t => (iterateDir d (resetLogs (withFaults [] t))).1) (map_state (iterateDir d) Payload.entries _)
    | listLfn d n =>
      have hf' : (iterateDirLfn d n (withFaults L (resetLogs s0))).2.dev.failed ≠ (resetLogs s0).dev.failed := by
        rw [← map_state (iterateDirLfn d n) Payload.lfnEntries]; exact hf
      obtain ⟨h1, h2⟩ := retry_listLfn hI' L d n hf'
      refine ⟨?_, by rw [← h2]; exact congrArg Mgr.locked (map_state (iterateDirLfn d n) Payload.lfnEntries _)⟩
      show ((iterateDirLfn d n >>= fun h => (pure (Payload.lfnEntries h) : M Payload)) _).1 =
        ((iterateDirLfn d n >>= fun h => (pure (Payload.lfnEntries h) : M Payload)) _).1
      apply map_fst_congr
      rw [← h1]
      exact congrArg (fun t => (iterateDirLfn d n (resetLogs (withFaults [] t))).1) (map_state (iterateDirLfn d n) Payload.lfnEntries _)
    | _ => first | exact absurd rfl hnd | cases hop
  rw [MHoare.step_unlocked _ op (show (withFaults [] (runOp op (withFaults L (resetLogs s0))).2).locked = false from key.2)]
  exact key.1

end Sdmmc.Lemmas.FaultInv
