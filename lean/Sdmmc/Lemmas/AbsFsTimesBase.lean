/-
C02 over abstract histories, part 1: FAT rounding is idempotent; `put` / `setSlot`; the tables of a
well-formed abstract state (`AInv`): one volume, where a handle's record sits.
-/
import Sdmmc.Spec.AbsFsClock
import Sdmmc.Lemmas.AbsFsTouch
import Sdmmc.Lemmas.C18

namespace Sdmmc.Lemmas.AbsFsTimes
open Sdmmc.Model Sdmmc.Spec.AbsFs Sdmmc.Lemmas.AbsFsTouch

/-! ### FAT rounding -/

theorem fatRound_def (t : Timestamp) : fatRound t = Timestamp.fromFat t.fatDate t.fatTime := rfl

theorem fromFat_fields (d t : Nat) : Timestamp.fromFat d t =
    { year_since_1970 := (1980 + d / 512 - 1970) % 256
      zero_indexed_month := if d / 32 % 16 = 0 then 0 else d / 32 % 16 - 1
      zero_indexed_day := if d % 32 = 0 then 0 else d % 32 - 1
      hours := t / 2048 % 32, minutes := t / 32 % 64, seconds := t * 2 % 65536 % 64 } := rfl

theorem fromFat_congr (d d' t : Nat) (hy : d / 512 = d' / 512)
    (hm : (if d / 32 % 16 = 0 then 0 else d / 32 % 16 - 1) = (if d' / 32 % 16 = 0 then 0 else d' / 32 % 16 - 1))
    (hday : (if d % 32 = 0 then 0 else d % 32 - 1) = (if d' % 32 = 0 then 0 else d' % 32 - 1)) :
    Timestamp.fromFat d t = Timestamp.fromFat d' t := by
  rw [fromFat_fields, fromFat_fields, hy, hm, hday]

/-- What is decoded from FAT words is at FAT resolution — also for the tolerated zero month / day fields. -/
theorem fromFat_rounded (d t : Nat) (hd : d < 65536) (ht : t < 65536) : Rounded (Timestamp.fromFat d t) := by
  unfold Rounded
  rw [fatRound_def]
  obtain ⟨h1, h2⟩ := C18.ts_zero_fields d t hd ht
  rw [h1, h2]
  apply fromFat_congr
  all_goals (repeat' split) <;> omega

/-- Rounding twice is rounding once. -/
theorem fatRound_rounded (t : Timestamp) : Rounded (fatRound t) :=
  fromFat_rounded _ _ (C18.fatDate_lt t) (C18.fatTime_lt t)

theorem fatRound_idem (t : Timestamp) : fatRound (fatRound t) = fatRound t := fatRound_rounded t

theorem setArchive_idem (a : Nat) : Attr.setArchive (Attr.setArchive a) = Attr.setArchive a := by
  have h32 : Gen.ATTR_ARCHIVE = 32 := rfl
  unfold Attr.setArchive
  rw [h32]
  by_cases h : a / 32 % 2 = 1
  · rw [if_pos h, if_pos h]
  · rw [if_neg h, if_pos (by omega)]

/-! ### `put`, `setSlot` -/

theorem put_self (ss : List Slot) (i : Nat) (sl : Slot) (hi : i ≤ ss.length) : (put ss i sl)[i]? = some sl := by
  unfold put
  split
  · next h => rw [List.getElem?_set_self h]
  · next h =>
    have : i = ss.length := by omega
    subst this
    simp

theorem setSlot_self (a : AbsFs) (h i : Nat) (sl : Slot) (hi : i ≤ (a.slots h).length) :
    ((setSlot a h i sl).slots h)[i]? = some sl := by
  unfold setSlot
  dsimp only
  rw [if_pos rfl]
  exact put_self _ _ _ hi

theorem setSlot_other_dir (a : AbsFs) (h i : Nat) (sl : Slot) {x : Nat} (hx : x ≠ h) :
    (setSlot a h i sl).slots x = a.slots x := by
  unfold setSlot
  dsimp only
  rw [if_neg hx]

theorem lt_of_getElem?_some {α} {l : List α} {i : Nat} {x : α} (h : l[i]? = some x) : i < l.length := by
  rcases Nat.lt_or_ge i l.length with hlt | hge
  · exact hlt
  · rw [List.getElem?_eq_none hge] at h; cases h

/-- Reading slot `(x, j)` after slot `(h, i)` was put. -/
theorem setSlot_get (a : AbsFs) (h i : Nat) (sl : Slot) (hi : i ≤ (a.slots h).length) (x j : Nat) :
    ((setSlot a h i sl).slots x)[j]? = if (x, j) = (h, i) then some sl else (a.slots x)[j]? := by
  by_cases he : (x, j) = (h, i)
  · rw [if_pos he]
    injection he with e1 e2
    subst e1; subst e2
    exact setSlot_self a _ _ sl hi
  · rw [if_neg he]
    exact setSlot_other a h i sl hi he

/-- The first deleted slot is deleted; there is none past the end. -/
theorem freeIdx_slot (ss : List Slot) : ss[freeIdx ss]? = some .deleted ∨ ss[freeIdx ss]? = none := by
  unfold freeIdx
  cases h : ss.findIdx? Slot.isDeleted with
  | none => right; simp
  | some i =>
    left
    obtain ⟨hi, hp, _⟩ := List.findIdx?_eq_some_iff_getElem.1 h
    simp only [Option.getD_some]
    rw [List.getElem?_eq_getElem hi]
    cases hs : ss[i] with
    | deleted => rfl
    | frag r => rw [hs] at hp; cases hp
    | file m b => rw [hs] at hp; cases hp
    | dir m t => rw [hs] at hp; cases hp

theorem freeIdx_not_file (ss : List Slot) (m : Meta) (b : Bytes) : ss[freeIdx ss]? ≠ some (.file m b) := by
  rcases freeIdx_slot ss with h | h <;> rw [h] <;> intro e <;> cases e

theorem freeIdx_not_dir (ss : List Slot) (m : Meta) (t : Nat) : ss[freeIdx ss]? ≠ some (.dir m t) := by
  rcases freeIdx_slot ss with h | h <;> rw [h] <;> intro e <;> cases e

/-! ### Tables -/

theorem fileOf_some {a : AbsFs} {h i : Nat} {f : OpenFile} (hf : fileOf a h = some (i, f)) :
    fileIdx a h = some i ∧ a.files[i]? = some f ∧ f ∈ a.files := by
  unfold fileOf at hf
  cases hi : fileIdx a h with
  | none => rw [hi] at hf; cases hf
  | some i' =>
    rw [hi] at hf
    simp only at hf
    cases hg : a.files[i']? with
    | none => rw [hg] at hf; cases hf
    | some f' =>
      rw [hg] at hf
      simp only [Option.map_some, Option.some.injEq, Prod.mk.injEq] at hf
      obtain ⟨rfl, rfl⟩ := hf
      exact ⟨rfl, hg, List.mem_of_getElem? hg⟩

theorem volOpen_unique {a : AbsFs} (h1 : a.vols.length ≤ 1) {v w : Nat} (hv : volOpen a v = true)
    (hw : volOpen a w = true) : v = w := by
  unfold volOpen at hv hw
  cases hvs : a.vols with
  | nil => rw [hvs] at hv; cases hv
  | cons p rest =>
    cases rest with
    | nil =>
      rw [hvs] at hv hw
      simp only [List.any_cons, List.any_nil, Bool.or_false, decide_eq_true_eq] at hv hw
      rw [← hv, ← hw]
    | cons q r => rw [hvs] at h1; simp at h1

/-- All open files belong to the one open volume. -/
theorem ainv_sameVol {a : AbsFs} (hA : AInv a) {v : Nat} (hv : volOpen a v = true) {f : OpenFile} (hf : f ∈ a.files) :
    f.volume = v :=
  volOpen_unique hA.oneVol (hA.files f hf).volume hv

/-- `isOpenAt` says whether a record sits at the slot. -/
theorem ainv_notOpenAt_of {a : AbsFs} (hA : AInv a) {v x j : Nat} (hv : volOpen a v = true)
    (h : isOpenAt a v x j = false) : NotOpenAt a x j := by
  intro f hf hxy
  unfold isOpenAt at h
  have := List.any_eq_false.1 h f hf
  simp only [decide_eq_true_eq] at this
  exact this ⟨ainv_sameVol hA hv hf, hxy.1, hxy.2⟩

theorem nodup_map_inj {α β : Type} {k : α → β} : ∀ {l : List α}, (l.map k).Nodup → ∀ {x y : α}, x ∈ l → y ∈ l →
    k x = k y → x = y
  | [], _, _, _, hx, _, _ => by cases hx
  | a :: l, h, x, y, hx, hy, e => by
    rw [List.map_cons, List.nodup_cons] at h
    rcases List.mem_cons.mp hx with rfl | hx' <;> rcases List.mem_cons.mp hy with rfl | hy'
    · rfl
    · exact absurd (by rw [e]; exact List.mem_map_of_mem hy') h.1
    · exact absurd (by rw [← e]; exact List.mem_map_of_mem hx') h.1
    · exact nodup_map_inj h.2 hx' hy' e

/-- The record at a slot is unique. -/
theorem ainv_at_unique {a : AbsFs} (hA : AInv a) {f g : OpenFile} (hf : f ∈ a.files) (hg : g ∈ a.files)
    (hd : f.dir = g.dir) (hi : f.idx = g.idx) : f = g :=
  nodup_map_inj hA.distinct hf hg (by show (f.dir, f.idx) = (g.dir, g.idx); rw [hd, hi])

theorem dirOf_ok {a : AbsFs} {d : Nat} {od : OpenDir} (h : dirOf a d = .ok od) :
    od ∈ a.dirs ∧ volOpen a od.volume = true := by
  unfold dirOf at h
  cases hi : dirIdx a d with
  | none => rw [hi] at h; cases h
  | some i =>
    rw [hi] at h
    simp only at h
    cases hg : a.dirs[i]? with
    | none => rw [hg] at h; cases h
    | some od' =>
      rw [hg] at h
      simp only at h
      by_cases hv : volOpen a od'.volume = true
      · rw [if_pos hv] at h
        injection h with h
        subst h
        exact ⟨List.mem_of_getElem? hg, hv⟩
      · rw [if_neg hv] at h; cases h

theorem dirCtx_ok {a : AbsFs} {d : Nat} {name : List Nat} {od : OpenDir} {sfn : Bytes}
    (h : dirCtx a d name = .ok (od, sfn)) : dirOf a d = .ok od ∧ Sfn.createFromStr name = .ok sfn := by
  unfold dirCtx at h
  cases hd : dirOf a d with
  | error e => rw [hd] at h; cases h
  | ok od' =>
    rw [hd] at h
    simp only at h
    cases hs : Sfn.createFromStr name with
    | error e => rw [hs] at h; cases h
    | ok sfn' =>
      rw [hs] at h
      simp only at h
      injection h with h
      injection h with h1 h2
      subst h1; subst h2
      exact ⟨rfl, rfl⟩

end Sdmmc.Lemmas.AbsFsTimes
