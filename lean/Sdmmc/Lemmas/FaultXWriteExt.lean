/-
C11, arbitrary fault placement — `write`: the state after `alloc_cluster(Some(last))` extended the written file's chain
is a loop state (`extend_winv`; the corresponding part of `WriteRefines.locate_spec`, as a lemma of its own).
-/
import Sdmmc.Lemmas.WriteRefinesStep

namespace Sdmmc.Lemmas.WriteRefines
open Sdmmc.Model Sdmmc.Model.Fat Sdmmc.Spec
open Sdmmc.Lemmas.FBasic hiding NoFault Coherent
open Sdmmc.Lemmas.FatOps hiding BlocksOK Mirror HintOK
open Sdmmc.Lemmas.ChainL Sdmmc.Lemmas.ForestBase Sdmmc.Lemmas.ForestOwns Sdmmc.Lemmas.ReadRefines

/-- **The chain of the written file grows by one cluster**: after a successful `alloc_cluster(Some(last))`, `last` the
last cluster of the chain, the loop invariant holds with the chain `cs ++ [c]` and the same record; the geometry is kept,
and no block outside the FAT changed. -/
theorem extend_winv (i vi : Nat) (A B : List (List Nat)) (t : Mgr) (f : FileInfo) (v : VolInfo) (cs : List Nat) (last c : Nat)
    (fs2 : FS) (h : WInv i vi A B t f v cs) (hlast : cs[cs.length - 1]? = some last)
    (ha : allocCluster (some last) false (fsOf t v) = (.ok c, fs2)) :
    WInv i vi A B { t with dev := fs2.dev, cache := fs2.cache, vols := t.vols.set vi { v with vol := fs2.vol } } f
      { v with vol := fs2.vol } (cs ++ [c]) ∧
    SameGeom v.vol fs2.vol ∧ (∀ b, ¬ IsFatBlock v.vol b → fs2.dev.disk.get b = t.dev.disk.get b) := by
  obtain ⟨hnf, hcoh, hblk, hunl⟩ := h.ok
  have hcb := h.cbpos
  have hn1 : NoFault (fsOf t v) := hnf
  have hc1 : Coherent (fsOf t v) := hcoh
  have hready : Ready (fsOf t v) := ⟨hn1, hc1, hblk, h.geom, h.hint⟩
  have hcs : cs = cs.dropLast ++ [last] := dropLast_append_last cs last hlast
  have hown1 : Owns (fsOf t v).vol (fsOf t v).dev.disk (A ++ [cs.dropLast ++ [last]] ++ B) := by
    rw [← hcs]; exact h.owns
  obtain ⟨hready2, hown2, hsg, _, _⟩ := ForestStep.owns_extend (fsOf t v) fs2 A B cs.dropLast last false c hready hown1 ha
  rw [← hcs] at hown2
  have hlastU : isUsed (fsOf t v).vol (fsOf t v).dev.disk last := by
    have : last ∈ (A ++ [cs.dropLast ++ [last]] ++ B).flatten :=
      (mem_flatten3 _ _ _ last).2 (.inr (.inl (by rw [ForestStep.flatten_one]; exact List.mem_append_right _ (List.mem_singleton.2 rfl))))
    exact ForestStep.owns_mem_used hown1 this
  obtain ⟨_, _, _, _, _, _, hrc, _, _, _, _, _⟩ :=
    ForestAlloc.alloc_spec (fsOf t v) fs2 (some last) false c hn1 hc1 hblk hready.geom hready.hint
      (fun q hq => by cases hq; exact ⟨hlastU.1.2, hlastU.2.1⟩) ha
  obtain ⟨_, _, _, _, _, hframe⟩ := DirFat.alloc_frame (fsOf t v) fs2 (some last) false c hn1 hc1 hblk hready.geom hready.hint
    (fun q hq => by cases hq; exact hlastU.1.2) ha
  have hsg' : SameGeom v.vol fs2.vol := hsg
  have hvilt : vi < t.vols.length := (List.getElem?_eq_some_iff.1 h.vol).1
  have hchain2 : Chain fs2.vol fs2.dev.disk f.entry.cluster (cs ++ [c]) := by
    have := hown2.1 (cs ++ [c]) (List.mem_append_left _ (List.mem_append_right _ (List.mem_singleton.2 rfl)))
    have hhd : (cs ++ [c]).headD 0 = f.entry.cluster := by
      rw [← chain_head_eq h.chain]
      cases hcse : cs with
      | nil => exact absurd hcse h.ne
      | cons a t => rfl
    rw [hhd] at this
    exact this
  have hcbeq : clusterBytesLen fs2.vol = clusterBytesLen v.vol := sameGeom_clusterBytesLen hsg
  have hd2 : ∀ b, ¬ IsFatBlock v.vol b → fs2.dev.disk.get b = t.dev.disk.get b := by
    intro b hb
    refine hframe b (fun hm => hb ?_) (fun p hp hm => hb ?_) (fun hz => by cases hz.1)
    · exact isFatBlock_of_mem hrc.2 hm
    · cases hp
      exact isFatBlock_of_mem hlastU.1.2 hm
  refine ⟨?_, hsg', hd2⟩
  refine ⟨⟨hready2.noFault, hready2.coherent, hready2.blocksOK, hunl⟩, h.file, List.getElem?_set_self hvilt, hready2.geom,
    hready2.hint, ?_, by simp, hown2⟩
  show FileOK fs2.vol fs2.dev.disk f (cs ++ [c])
  rcases h.fileOK.cursor with hnil | ⟨k0, hk0, hk0off, hk0c⟩
  · exact absurd hnil h.ne
  · refine ⟨.inr hchain2, ?_, h.fileOK.pos_le, .inr ⟨k0, by rw [List.length_append]; omega, by rw [hcbeq]; exact hk0off,
      by rw [List.getElem?_append_left hk0]; exact hk0c⟩⟩
    rw [hcbeq, List.length_append, Nat.add_mul]
    exact Nat.le_trans h.fileOK.size_fits (Nat.le_add_right _ _)

end Sdmmc.Lemmas.WriteRefines
