/-
Volume invariant (C03), layer 1a: helper lemmas for the pure (medium-free) part `TreeOK` —
pending-state lookup (`pendOf`), reference lists under list edits, a directory id list without
repetitions, `flatMap` over the directories when one directory changes.
-/
import Mathlib.Data.List.Perm.Basic
import Sdmmc.Lemmas.VolBase

namespace Sdmmc.Lemmas.VolTree
open Sdmmc.Model Sdmmc.Model.Fat Sdmmc.Spec Sdmmc.Spec.Volume Sdmmc.Lemmas.VolBase

/-- The slot position an open file sits at. -/
abbrev fkey (f : FileInfo) : Nat × Nat := (f.entry.entryBlock, f.entry.entryOffset)
/-- The position of a slot. -/
abbrev spos (s : Slot) : Nat × Nat := (s.1, s.2.1)

theorem perm_of_count {l₁ l₂ : List Nat} (h : ∀ a, l₁.count a = l₂.count a) : l₁.Perm l₂ := List.perm_iff_count.2 h

/-! ### `pendOf` -/

theorem pendOf_some_mem {files : List FileInfo} {s : Slot} {g : FileInfo} (h : pendOf files s = some g) :
    g ∈ files ∧ fkey g = spos s := by
  unfold pendOf at h
  have h1 := List.find?_some h
  have h2 := List.mem_of_find?_eq_some h
  simp only [decide_eq_true_eq] at h1
  exact ⟨h2, Prod.ext h1.1 h1.2⟩

theorem pendOf_none_iff (files : List FileInfo) (s : Slot) :
    pendOf files s = none ↔ ∀ g, g ∈ files → fkey g ≠ spos s := by
  unfold pendOf
  rw [List.find?_eq_none]
  constructor
  · intro h g hg he
    have := h g hg
    simp only [decide_eq_true_eq, not_and] at this
    obtain ⟨h1, h2⟩ := Prod.mk.inj he
    exact this h1 h2
  · intro h g hg
    simp only [decide_eq_true_eq, not_and]
    intro h1 h2
    exact h g hg (Prod.ext h1 h2)

theorem pendOf_some_iff {files : List FileInfo} (hnd : (files.map fkey).Nodup) (s : Slot) (g : FileInfo) :
    pendOf files s = some g ↔ g ∈ files ∧ fkey g = spos s := by
  constructor
  · exact pendOf_some_mem
  · rintro ⟨hg, hk⟩
    induction files with
    | nil => cases hg
    | cons a l ih =>
      rw [List.map_cons, List.nodup_cons] at hnd
      unfold pendOf
      rw [List.find?_cons]
      by_cases ha : fkey a = spos s
      · obtain ⟨h1, h2⟩ := Prod.mk.inj ha
        simp only [h1, h2, and_self, decide_true]
        rcases List.mem_cons.1 hg with rfl | hg
        · rfl
        · exfalso
          exact hnd.1 (List.mem_map.2 ⟨g, hg, hk.trans ha.symm⟩)
      · have : decide (a.entry.entryBlock = s.1 ∧ a.entry.entryOffset = s.2.1) = false := by
          simp only [decide_eq_false_iff_not, not_and]
          intro h1 h2; exact ha (Prod.ext h1 h2)
        rw [this]
        rcases List.mem_cons.1 hg with rfl | hg
        · exact absurd hk ha
        · exact ih hnd.2 hg

theorem effCluster_of_pend {ft : FatType} {files : List FileInfo} {s : Slot} {g : FileInfo} (h : pendOf files s = some g) :
    effCluster ft files s = g.entry.cluster := by unfold effCluster; rw [h]
theorem effSize_of_pend {files : List FileInfo} {s : Slot} {g : FileInfo} (h : pendOf files s = some g) :
    effSize files s = g.entry.size := by unfold effSize; rw [h]
theorem effCluster_of_none {ft : FatType} {files : List FileInfo} {s : Slot} (h : pendOf files s = none) :
    effCluster ft files s = sCluster ft s := by unfold effCluster; rw [h]
theorem effSize_of_none {files : List FileInfo} {s : Slot} (h : pendOf files s = none) :
    effSize files s = sSize s := by unfold effSize; rw [h]

/-- `pendOf` only looks at the position of a slot. -/
theorem pendOf_pos (files : List FileInfo) (s t : Slot) (h : spos s = spos t) : pendOf files s = pendOf files t := by
  unfold pendOf
  obtain ⟨h1, h2⟩ := Prod.mk.inj h
  rw [h1, h2]

/-! ### Reference lists under list edits -/

theorem subdirRefs_append (ft : FatType) (a b : List Slot) : subdirRefs ft (a ++ b) = subdirRefs ft a ++ subdirRefs ft b := by
  simp [subdirRefs]
theorem fileRefs_append (ft : FatType) (files : List FileInfo) (a b : List Slot) :
    fileRefs ft files (a ++ b) = fileRefs ft files a ++ fileRefs ft files b := by
  simp [fileRefs]
theorem subdirRefs_nil (ft : FatType) : subdirRefs ft [] = [] := rfl
theorem fileRefs_nil (ft : FatType) (files : List FileInfo) : fileRefs ft files [] = [] := rfl

theorem subdirRefs_single (ft : FatType) (o : Slot) :
    subdirRefs ft [o] = if isDirE o then [sCluster ft o] else [] := by
  unfold subdirRefs
  by_cases h : isDirE o = true <;> simp [h]

theorem fileRefs_single (ft : FatType) (files : List FileInfo) (o : Slot) :
    fileRefs ft files [o] = if isDirE o = false ∧ effCluster ft files o ≠ 0 then [effCluster ft files o] else [] := by
  unfold fileRefs
  by_cases h : isDirE o = true
  · simp [h]
  · have h' : isDirE o = false := by simpa using h
    by_cases hc : effCluster ft files o = 0 <;> simp [h', hc]

theorem subdirRefs_cons (ft : FatType) (o : Slot) (l : List Slot) :
    subdirRefs ft (o :: l) = subdirRefs ft [o] ++ subdirRefs ft l := subdirRefs_append ft [o] l
theorem fileRefs_cons (ft : FatType) (files : List FileInfo) (o : Slot) (l : List Slot) :
    fileRefs ft files (o :: l) = fileRefs ft files [o] ++ fileRefs ft files l := fileRefs_append ft files [o] l

theorem fileRefs_congr (ft : FatType) (files files' : List FileInfo) (os : List Slot)
    (h : ∀ o, o ∈ os → isDirE o = false → effCluster ft files' o = effCluster ft files o) :
    fileRefs ft files' os = fileRefs ft files os := by
  unfold fileRefs
  congr 1
  apply List.map_congr_left
  intro o ho
  rw [List.mem_filter] at ho
  exact h o ho.1 (by simpa using ho.2)

theorem mem_subdirRefs {ft : FatType} {os : List Slot} {c : Nat} :
    c ∈ subdirRefs ft os ↔ ∃ o, o ∈ os ∧ isDirE o = true ∧ sCluster ft o = c := by
  unfold subdirRefs
  simp only [List.mem_map, List.mem_filter]
  constructor
  · rintro ⟨o, ⟨h1, h2⟩, h3⟩; exact ⟨o, h1, h2, h3⟩
  · rintro ⟨o, h1, h2, h3⟩; exact ⟨o, ⟨h1, h2⟩, h3⟩

theorem mem_fileRefs {ft : FatType} {files : List FileInfo} {os : List Slot} {c : Nat} :
    c ∈ fileRefs ft files os ↔ c ≠ 0 ∧ ∃ o, o ∈ os ∧ isDirE o = false ∧ effCluster ft files o = c := by
  unfold fileRefs
  simp only [List.mem_filter, List.mem_map, decide_eq_true_eq, Bool.not_eq_true']
  constructor
  · rintro ⟨⟨o, ⟨h1, h2⟩, h3⟩, h4⟩; exact ⟨h4, o, h1, h2, h3⟩
  · rintro ⟨h4, o, h1, h2, h3⟩; exact ⟨⟨o, ⟨h1, h2⟩, h3⟩, h4⟩

/-! ### `flatMap` over the directories when one of them changes -/

theorem flatMap_update {ids : List Nat} (hnd : ids.Nodup) {h : Nat} (hh : h ∈ ids) (g g' : Nat → List Nat)
    (hother : ∀ x, x ∈ ids → x ≠ h → g' x = g x) :
    ∃ R, (ids.flatMap g).Perm (g h ++ R) ∧ (ids.flatMap g').Perm (g' h ++ R) := by
  refine ⟨(ids.erase h).flatMap g, ?_, ?_⟩
  · have := List.Perm.flatMap_right g (List.perm_cons_erase hh)
    rwa [List.flatMap_cons] at this
  · have := List.Perm.flatMap_right g' (List.perm_cons_erase hh)
    rw [List.flatMap_cons] at this
    have he : (ids.erase h).flatMap g' = (ids.erase h).flatMap g := by
      apply List.flatMap_congr
      intro x hx
      have := (hnd.mem_erase_iff).1 hx
      exact hother x this.2 this.1
    rwa [he] at this

/-! ### The directory numbers -/

theorem mem_dirIds {dirs : List (Nat × Nat)} {h : Nat} : h ∈ dirIds dirs ↔ h = 0 ∨ ∃ p, (h, p) ∈ dirs := by
  unfold dirIds
  rw [List.mem_cons, List.mem_map]
  constructor
  · rintro (h0 | ⟨⟨a, p⟩, hm, rfl⟩)
    · exact .inl h0
    · exact .inr ⟨p, hm⟩
  · rintro (h0 | ⟨p, hm⟩)
    · exact .inl h0
    · exact .inr ⟨(h, p), hm, rfl⟩

theorem zero_mem_dirIds (dirs : List (Nat × Nat)) : 0 ∈ dirIds dirs := List.mem_cons_self

theorem dirIds_append (dirs extra : List (Nat × Nat)) : dirIds (dirs ++ extra) = dirIds dirs ++ extra.map Prod.fst := by
  simp [dirIds]

end Sdmmc.Lemmas.VolTree
