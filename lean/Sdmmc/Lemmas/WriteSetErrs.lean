/-
C04 over whole calls, refusals, part 1: the errors of the FAT engine.  Every function of
`Sdmmc.Model.Fat` (and the data-path helpers of `Mgr.lean`) returns, when it returns an error, one of
`DeviceError`, `NotEnoughSpace`, `EndOfFile`, `BadCluster`, `UnterminatedFatChain`, `NotFound`
(`EngineErr`) — never one of the errors by which the manager refuses a call (`BadHandle`, the limits,
`FileAlreadyOpen`, …).  For all states, all arguments, all fault plans.
-/
import Sdmmc.Lemmas.FaultFat

namespace Sdmmc.Lemmas.WriteSet
open Sdmmc.Model Sdmmc.Model.Fat Sdmmc.Lemmas.Fault

/-- The errors the FAT engine itself produces. -/
def EngineErr : Err → Prop
  | .DeviceError | .NotEnoughSpace | .EndOfFile | .BadCluster | .UnterminatedFatChain | .NotFound => True
  | _ => False

instance (e : Err) : Decidable (EngineErr e) := by cases e <;> unfold EngineErr <;> infer_instance

/-- An outcome that, if it is an error, is an engine error. -/
def ResEng {α} (r : Res α) : Prop := ∀ e, r = .err e → EngineErr e

/-- Every error `m` returns is an engine error. -/
def Errs {α} (m : F α) : Prop := ∀ s, ResEng (m s).1

theorem ResEng.ok {α} (a : α) : ResEng (Res.ok a) := fun _ h => by cases h
theorem ResEng.panic {α} (m : String) : ResEng (Res.panic m : Res α) := fun _ h => by cases h
theorem ResEng.diverged {α} : ResEng (Res.diverged : Res α) := fun _ h => by cases h
theorem ResEng.err {α} {e : Err} (h : EngineErr e) : ResEng (Res.err e : Res α) := fun _ h' => by cases h'; exact h
theorem ResEng.bind {α β} {r : Res α} {f : α → Res β} (hr : ResEng r) (hf : ∀ a, ResEng (f a)) : ResEng (r.bind f) := by
  cases r with
  | ok a => exact hf a
  | err e => exact fun e' h => by cases h; exact hr e rfl
  | panic m => exact fun _ h => by cases h
  | diverged => exact fun _ h => by cases h

theorem Errs.pure {α} (a : α) : Errs (pure a : F α) := fun _ => ResEng.ok a
theorem Errs.lift {α} {r : Res α} (h : ResEng r) : Errs (F.lift r) := fun _ => h
theorem Errs.fail {α} {e : Err} (h : EngineErr e) : Errs (F.fail e : F α) := fun _ => ResEng.err h
theorem Errs.panic {α} (m : String) : Errs (F.panic m : F α) := fun _ => ResEng.panic m
theorem Errs.diverge {α} : Errs (F.diverge : F α) := fun _ => ResEng.diverged
theorem Errs.getVol : Errs F.getVol := fun _ => ResEng.ok _
theorem Errs.modifyVol (f : FatVolume → FatVolume) : Errs (F.modifyVol f) := fun _ => ResEng.ok _
theorem Errs.cacheBlk : Errs cacheBlk := fun _ => ResEng.ok _
theorem Errs.cacheModify (f : Block → Block) : Errs (cacheModify f) := fun _ => ResEng.ok _
theorem Errs.blankMut (i : Nat) : Errs (blankMut i) := fun _ => ResEng.ok _

theorem Errs.bind {α β} {m : F α} {f : α → F β} (hm : Errs m) (hf : ∀ a, Errs (f a)) : Errs (m >>= f) := by
  intro s
  have h1 := hm s
  rcases hms : m s with ⟨r, s'⟩
  rw [hms] at h1
  cases r with
  | ok a => rw [F.bind_ok hms]; exact hf a s'
  | err e => rw [F.bind_err hms]; exact ResEng.err (h1 e rfl)
  | panic msg => rw [F.bind_panic hms]; exact ResEng.panic _
  | diverged => rw [F.bind_diverged hms]; exact ResEng.diverged

theorem Errs.attempt_bind {α β} {m : F α} {k : Res α → F β} (hm : Errs m) (hk : ∀ r, ResEng r → Errs (k r)) :
    Errs (F.attempt m >>= k) := fun s => hk _ (hm s) _

theorem Errs.devRead (idx : Nat) : Errs (devRead idx) := by
  intro s; unfold Model.devRead; dsimp only; split
  · exact ResEng.err (by decide)
  · exact ResEng.ok _

theorem Errs.devWrite (idx : Nat) : Errs (devWrite idx) := by
  intro s; unfold Model.devWrite; dsimp only; split
  · exact ResEng.err (by decide)
  · exact ResEng.ok _

theorem Errs.cacheRead (idx : Nat) : Errs (cacheRead idx) := by
  intro s; unfold Model.cacheRead; split
  · exact ResEng.ok _
  · have h := Errs.devRead idx { s with cache := { s.cache with tag := none } }
    split
    · exact ResEng.ok _
    · next r s' _ heq => rw [heq] at h; exact h

theorem Errs.writeBack : Errs writeBack := by
  intro s; unfold Model.writeBack; split
  · exact ResEng.panic _
  · next idx _ =>
    have h := Errs.devWrite idx s
    split
    · exact ResEng.ok _
    · next r s' _ heq => rw [heq] at h; exact h

theorem Errs.writeBackWithDuplicate (dup : Nat) : Errs (writeBackWithDuplicate dup) := by
  intro s; unfold Model.writeBackWithDuplicate; split
  · exact ResEng.panic _
  · next idx _ =>
    have h := Errs.devWrite idx s
    split
    · next s' _ =>
      have h2 := Errs.devWrite dup s'
      split
      · exact ResEng.ok _
      · next r s'' _ heq => rw [heq] at h2; exact h2
    · next r s' _ heq => rw [heq] at h; exact h

theorem resEng_decodeNext (ft : FatType) (raw : Nat) : ResEng (decodeNext ft raw) := by
  unfold decodeNext
  cases ft <;> dsimp only <;> repeat' split
  all_goals first | exact ResEng.ok _ | exact ResEng.err (by decide)

macro "errs_step" : tactic => `(tactic| first
  | with_reducible first
    | apply_hyp
    | assumption
    | exact Errs.pure _
    | exact Errs.panic _
    | exact Errs.diverge
    | exact Errs.getVol
    | exact Errs.modifyVol _
    | exact Errs.cacheBlk
    | exact Errs.cacheModify _
    | exact Errs.blankMut _
    | exact Errs.cacheRead _
    | exact Errs.writeBack
    | exact Errs.writeBackWithDuplicate _
    | exact ResEng.ok _
    | exact ResEng.panic _
    | exact ResEng.diverged
    | exact resEng_decodeNext _ _
    | apply Errs.lift
    | apply ResEng.bind
    | apply Errs.attempt_bind
    | apply Errs.bind
  | exact ResEng.err (by decide)
  | exact Errs.fail (by decide)
  | intro_pi
  | dsimp only
  | split)

macro "errs_auto" : tactic => `(tactic| repeat errs_step)

theorem updateFat_errs (c n : Nat) : Errs (updateFat c n) := by unfold updateFat; errs_auto
theorem nextCluster_errs (c : Nat) : Errs (nextCluster c) := by unfold nextCluster; errs_auto
theorem findNextFreeCluster_errs (fuel cur endC : Nat) : Errs (findNextFreeCluster fuel cur endC) := by
  induction fuel generalizing cur with
  | zero => unfold findNextFreeCluster; errs_auto
  | succ n ih => unfold findNextFreeCluster; errs_auto
theorem findNextFree_errs (a b : Nat) : Errs (findNextFree a b) := findNextFreeCluster_errs _ _ _
theorem zeroBlocks_errs (n first : Nat) : Errs (zeroBlocks n first) := by
  induction n generalizing first with
  | zero => unfold zeroBlocks; errs_auto
  | succ n ih => unfold zeroBlocks; errs_auto
theorem allocCluster_errs (prev : Option Nat) (zero : Bool) : Errs (allocCluster prev zero) := by
  have := findNextFree_errs
  have := zeroBlocks_errs
  have := updateFat_errs
  unfold allocCluster; errs_auto

theorem truncateLoop_errs (fuel next : Nat) : Errs (truncateLoop fuel next) := by
  have := nextCluster_errs
  have := updateFat_errs
  induction fuel generalizing next with
  | zero => unfold truncateLoop; errs_auto
  | succ n ih => unfold truncateLoop; errs_auto

theorem truncateClusterChain_errs (c : Nat) : Errs (truncateClusterChain c) := by
  have := nextCluster_errs
  have := updateFat_errs
  have := truncateLoop_errs
  unfold truncateClusterChain; errs_auto

theorem freeClusterChain_errs (c : Nat) : Errs (freeClusterChain c) := by
  have := truncateClusterChain_errs
  have := updateFat_errs
  unfold freeClusterChain; errs_auto

theorem updateInfoSector_errs : Errs updateInfoSector := by unfold updateInfoSector; errs_auto
theorem writeEntryToDisk_errs (e : DirEntry) : Errs (writeEntryToDisk e) := by unfold writeEntryToDisk; errs_auto

theorem findBlocks_errs (name : Bytes) (n b : Nat) : Errs (findBlocks name n b) := by
  induction n generalizing b with
  | zero => unfold findBlocks; errs_auto
  | succ n ih => unfold findBlocks; errs_auto

theorem findWalk_errs (name : Bytes) (fuel : Nat) (w : DirWalk) : Errs (findWalk name fuel w) := by
  have := nextCluster_errs
  have := findBlocks_errs
  induction fuel generalizing w with
  | zero => unfold findWalk; errs_auto
  | succ n ih => unfold findWalk; errs_auto

theorem findDirectoryEntry_errs (d : Nat) (name : Bytes) : Errs (Fat.findDirectoryEntry d name) := by
  have := findWalk_errs
  unfold Fat.findDirectoryEntry; errs_auto

theorem deleteBlocks_errs (name : Bytes) (n b : Nat) : Errs (deleteBlocks name n b) := by
  induction n generalizing b with
  | zero => unfold deleteBlocks; errs_auto
  | succ n ih => unfold deleteBlocks; errs_auto

theorem deleteWalk_errs (name : Bytes) (fuel : Nat) (w : DirWalk) : Errs (deleteWalk name fuel w) := by
  have := nextCluster_errs
  have := deleteBlocks_errs
  induction fuel generalizing w with
  | zero => unfold deleteWalk; errs_auto
  | succ n ih => unfold deleteWalk; errs_auto

theorem deleteDirectoryEntry_errs (d : Nat) (name : Bytes) : Errs (deleteDirectoryEntry d name) := by
  have := deleteWalk_errs
  unfold deleteDirectoryEntry; errs_auto

theorem writeNewBlocks_errs (name : Bytes) (att fc : Nat) (now : Timestamp) (n b : Nat) :
    Errs (writeNewBlocks name att fc now n b) := by
  induction n generalizing b with
  | zero => unfold writeNewBlocks; errs_auto
  | succ n ih => unfold writeNewBlocks; errs_auto

theorem writeNewWalk_errs (name : Bytes) (att fc : Nat) (now : Timestamp) (fuel : Nat) (w : DirWalk) :
    Errs (writeNewWalk name att fc now fuel w) := by
  have := nextCluster_errs
  have := writeNewBlocks_errs
  have := allocCluster_errs
  induction fuel generalizing w with
  | zero => unfold writeNewWalk; errs_auto
  | succ n ih => unfold writeNewWalk; errs_auto

theorem writeNewDirectoryEntry_errs (d : Nat) (name : Bytes) (att fc : Nat) (now : Timestamp) :
    Errs (writeNewDirectoryEntry d name att fc now) := by
  have := writeNewWalk_errs
  unfold writeNewDirectoryEntry; errs_auto

theorem makeDir_errs (parent : Nat) (sfn : Bytes) (att : Nat) (now : Timestamp) : Errs (makeDir parent sfn att now) := by
  have := allocCluster_errs
  have := zeroBlocks_errs
  have := writeNewDirectoryEntry_errs
  have := freeClusterChain_errs
  unfold makeDir; errs_auto
  · rename_i e he _ _
    exact Errs.fail (he e rfl)
  · rename_i hr _ _ _
    exact Errs.lift (ResEng.bind hr fun _ => ResEng.ok _)

theorem writeBlockPart_errs (b o : Nat) (d : Bytes) (w : Bool) : Errs (writeBlockPart b o d w) := by
  unfold writeBlockPart; errs_auto

end Sdmmc.Lemmas.WriteSet
