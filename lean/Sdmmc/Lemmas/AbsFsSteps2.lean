/-
Refinement of the API to the abstract file system, part 3: the directory calls that write nothing —
`find_directory_entry`, `iterate_dir`, `iterate_dir_lfn`, `open_dir` — with the listing walk on a
directory of a sound volume (`iterate_spec`, the companion of `VolEng.find_spec`).
-/
import Sdmmc.Lemmas.AbsFsSteps1
import Sdmmc.Lemmas.VolEng

namespace Sdmmc.Lemmas.AbsFs
open Sdmmc.Model Sdmmc.Model.Fat Sdmmc.Spec.Volume Sdmmc.Lemmas.VolBase Sdmmc.Lemmas.VolTree
open Sdmmc.Spec hiding NoFault Coherent
open Sdmmc.Spec.AbsFs (Meta view storedMeta fatRound OpenFile OpenDir absStep)
open Sdmmc.Lemmas.VolDisk Sdmmc.Lemmas.VolMed Sdmmc.Lemmas.VolApi Sdmmc.Lemmas.VolEng
open Sdmmc.Lemmas.FBasic (NoFault Coherent)
open Sdmmc.Lemmas.MHoare

/-! ### The listing walk -/

/-- **Listing** a directory of a sound volume: the live slots of the directory, decoded, with their raw
bytes.  Nothing is written. -/
theorem iterate_spec {fs : FS} {files : List FileInfo} {gh : Ghost} {X : List (List Nat)}
    (hM : MedX fs.vol fs.dev.disk files gh X) (hn : NoFault fs) (hc : Coherent fs) {dc : Nat}
    (hv : ValidDir gh.dirs dc) :
    ∃ fs', iterateRaw dc fs =
        (.ok ((live (dirSlots fs.vol fs.dev.disk gh.G (dirIdOf dc))).map fun x => (Listing.decode fs.vol.fatType x, x.2.2)), fs') ∧
      fs'.dev.disk = fs.dev.disk ∧ fs'.dev.wlog = fs.dev.wlog ∧ fs'.vol = fs.vol ∧ NoFault fs' ∧ Coherent fs' := by
  obtain ⟨hh, hcase⟩ := dir_walk_facts hM hv
  rcases hcase with ⟨hdc, h16, hsl⟩ | ⟨hkind, _, cs, _, _, hch, hlen, hsl⟩
  · subst hdc
    obtain ⟨fs', h, rest⟩ := Listing.iterate_fat16_root_spec fs hn hc h16
    refine ⟨fs', ?_, rest⟩
    rw [hsl]
    rw [show iterateRaw 4294967292 fs = iterateRaw Gen.CLUSTER_ROOT_DIR fs from rfl, h, h16]
    rfl
  · obtain ⟨fs', h, rest⟩ := Listing.iterate_chain_spec fs dc cs hn hc hkind hch (by omega)
    refine ⟨fs', ?_, rest⟩
    rw [hsl, h]
    rfl

/-- What `iterate_dir` keeps of the walk: the entries, decoded. -/
theorem listing_of_walk (ft : FatType) (ss : List Slot) :
    (((live ss).map fun x => (Listing.decode ft x, x.2.2)).map (·.1)).filter (fun e => !Attr.isLfn e.attributes) =
      (entries ss).map (Listing.decode ft) := by
  rw [List.map_map]
  unfold entries
  rw [List.filter_map]
  congr 1

/-! ### `Abs` when only device bookkeeping and the cache move -/

theorem abs_ro {s : Mgr} {gh : Ghost} {a : AState} (hA : Abs s gh a) (dev' : Dev) (cache' : Cache)
    (hd : dev'.disk = s.dev.disk) : Abs { s with dev := dev', cache := cache' } gh a :=
  ⟨hA.nextId, hA.maxDirs, hA.maxFiles, hA.clock, hA.locked, hA.vols, hA.dirs,
   forall₂_mono hA.files fun _ _ _ h => h.of_disk hd, hA.ids,
   fun h hh => by rw [hA.slots h hh]; exact (absSlots_congr (s' := { s with dev := dev', cache := cache' }) hd (fun _ => ⟨rfl, rfl⟩) h).symm⟩

/-- A read-only engine call on the open volume: outcome, and both relations afterwards. -/
theorem withVol_ro_refines {α : Type} (f : F α) (hf : FatOps.ReadOnly f) {s : Mgr} {gh : Ghost} {a : AState}
    (hI : VolInv s gh) (hA : Abs s gh a) {vi : VolInfo} (hv : s.vols = [vi]) (hvol : vi.vol = gh.vol) :
    (withVol 0 f s).1 = (f (fsOf s gh)).1 ∧ VolInv (withVol 0 f s).2 gh ∧ Abs (withVol 0 f s).2 gh a ∧
    (withVol 0 f s).2.files = s.files ∧ (withVol 0 f s).2.dirs = s.dirs ∧ (withVol 0 f s).2.nextId = s.nextId ∧
    (withVol 0 f s).2.vols = s.vols ∧ (withVol 0 f s).2.maxDirs = s.maxDirs ∧ (withVol 0 f s).2.maxFiles = s.maxFiles ∧
    (withVol 0 f s).2.dev.disk = s.dev.disk ∧ (withVol 0 f s).2.clock = s.clock := by
  have h1 := withVol_one f hv hvol
  obtain ⟨dev', cache', he, hd, _, _⟩ := withVol_ro_state 0 f hf s
  refine ⟨by rw [h1], withVol_ro_inv 0 f hf hI, ?_, ?_⟩
  · rw [he]; exact abs_ro hA dev' cache' hd
  · rw [he]; exact ⟨rfl, rfl, rfl, rfl, rfl, rfl, hd, rfl⟩

/-! ### Directory handles -/

theorem dirOf_none {s : Mgr} {gh : Ghost} {a : AState} (hA : Abs s gh a) {d : Nat}
    (hidx : s.dirs.findIdx? (·.rawDirectory = d) = none) : Spec.AbsFs.dirOf a d = .error .BadHandle := by
  unfold Spec.AbsFs.dirOf
  rw [dirIdx_abs hA, hidx]

theorem dirOf_some {s : Mgr} {gh : Ghost} {a : AState} (hA : Abs s gh a) {d i : Nat}
    (hidx : s.dirs.findIdx? (·.rawDirectory = d) = some i) :
    ∃ di, s.dirs[i]? = some di ∧ di ∈ s.dirs ∧
      Spec.AbsFs.dirOf a d = if (s.vols.any fun x => decide (x.rawVolume = di.rawVolume)) = true then .ok (absDir di) else .error .BadHandle := by
  obtain ⟨di, hdi, _⟩ := findIdx?_some_get hidx
  refine ⟨di, hdi, List.mem_of_getElem? hdi, ?_⟩
  unfold Spec.AbsFs.dirOf
  rw [dirIdx_abs hA, hidx]
  simp only
  rw [hA.dirs, List.getElem?_map, hdi]
  simp only [Option.map_some]
  rw [volOpen_abs hA]
  rfl

/-- The directory the handle designates is a directory of the tree, and its abstract content is the
abstraction of its slots. -/
theorem dir_slots {s : Mgr} {gh : Ghost} {a : AState} (hI : VolInv s gh) (hA : Abs s gh a) {di : DirInfo} (hdi : di ∈ s.dirs) :
    dirIdOf di.cluster ∈ dirIds gh.dirs ∧ a.slots (dirIdOf di.cluster) = absSlots s gh (dirIdOf di.cluster) := by
  have hM := medX_of_med hI.med
  have hh := (validDir_id hM (hI.openDirs di hdi)).1
  exact ⟨hh, hA.slots _ hh⟩

/-! ### `find_directory_entry` -/

/-- The outcome of the engine's lookup, read abstractly. -/
theorem lookup_refines {gh : Ghost} (ss : List Slot) (sfn : Bytes) (cont : Slot → Bytes) :
    (Spec.AbsFs.lookup ((beforeEnd ss).map (absSlot gh.vol.fatType cont)) sfn = none ∧
      (entries ss).find? (fun s => decide (sName s = sfn)) = none) ∨
    ∃ i o, Spec.AbsFs.lookup ((beforeEnd ss).map (absSlot gh.vol.fatType cont)) sfn = some i ∧
      (entries ss).find? (fun s => decide (sName s = sfn)) = some o ∧ (beforeEnd ss)[i]? = some o ∧ keep o = true ∧
      sName o = sfn := by
  rw [lookup_abs, entries_find]
  cases hfi : (beforeEnd ss).findIdx? (fun s => keep s && decide (sName s = sfn)) with
  | none => exact .inl ⟨rfl, rfl⟩
  | some i =>
    obtain ⟨o, ho, hp⟩ := findIdx?_some_get hfi
    simp only [Bool.and_eq_true, decide_eq_true_eq] at hp
    exact .inr ⟨i, o, rfl, by simp only [Option.bind_some]; exact ho, ho, hp.1, hp.2⟩

theorem dirCtx_bad {a : AState} {d : Nat} {name : List Nat} {e : Err} (h : Spec.AbsFs.dirOf a d = .error e) :
    Spec.AbsFs.dirCtx a d name = .error e := by
  unfold Spec.AbsFs.dirCtx; rw [h]

theorem dirCtx_name {a : AState} {d : Nat} {name : List Nat} {od : OpenDir} {e : FnErr} (h : Spec.AbsFs.dirOf a d = .ok od)
    (hs : Sfn.createFromStr name = .error e) : Spec.AbsFs.dirCtx a d name = .error (.FilenameError e) := by
  unfold Spec.AbsFs.dirCtx; rw [h]; simp only; rw [hs]

theorem dirCtx_ok {a : AState} {d : Nat} {name : List Nat} {od : OpenDir} {sfn : Bytes} (h : Spec.AbsFs.dirOf a d = .ok od)
    (hs : Sfn.createFromStr name = .ok sfn) : Spec.AbsFs.dirCtx a d name = .ok (od, sfn) := by
  unfold Spec.AbsFs.dirCtx; rw [h]; simp only; rw [hs]

/-- The abstract `find`, from the engine's answer. -/
theorem findS_of {s : Mgr} {gh : Ghost} {a : AState} {d : Nat} {name : List Nat} {di : DirInfo} {sfn : Bytes}
    (hctx : Spec.AbsFs.dirCtx a d name = .ok (absDir di, sfn))
    (hsl : a.slots (dirIdOf di.cluster) = absSlots s gh (dirIdOf di.cluster)) :
    Spec.AbsFs.findS a d name a
      (((((entries (dirSlots gh.vol s.dev.disk gh.G (dirIdOf di.cluster))).find? fun s => decide (sName s = sfn)).map
          (Listing.decode gh.vol.fatType)).elim (Res.err Err.NotFound) Res.ok).bind fun e => Res.ok (Payload.entry e)) := by
  unfold Spec.AbsFs.findS
  rw [hctx]
  refine ⟨rfl, ?_⟩
  dsimp only [absDir]
  rw [hsl]
  unfold absSlots
  rcases lookup_refines (gh := gh) (dirSlots gh.vol s.dev.disk gh.G (dirIdOf di.cluster)) sfn
      (contentOf gh.vol s.dev.disk gh.G s.files) with ⟨h1, h2⟩ | ⟨j, o, h1, h2, h3, h4, _⟩
  · rw [h1, h2]
    rfl
  · rw [h1, h2]
    refine ⟨Listing.decode gh.vol.fatType o, _, rfl, ?_, rfl⟩
    rw [List.getElem?_map, h3]
    simp only [Option.map_some, Option.bind_some]
    rw [meta?_absSlot, if_pos h4]
    rfl

theorem refines_find (d : Nat) (name : List Nat) {s : Mgr} {gh : Ghost} {a : AState} (hI : VolInv s gh) (hA : Abs s gh a)
    (hname : ∀ sfn, Sfn.createFromStr name = .ok sfn → sfn.head? ≠ some 0xE5) : Refines (.find d name) s gh a := by
  have hl : a.locked = false := hA.locked.trans hI.unlocked
  unfold Refines
  rw [show runOp (.find d name) s = (Model.findDirectoryEntry d name >>= fun e => pure (Payload.entry e)) s from rfl, run_map]
  have hgoal : ∀ (a' : AState) (r : Res Payload), absStep a (.find d name) (a', r) ↔ Spec.AbsFs.findS a d name a' r := by
    intro a' r
    unfold absStep
    rw [if_neg (by rw [hl]; exact Bool.false_ne_true)]
  have hbad : ∀ e, Spec.AbsFs.dirCtx a d name = .error e → Spec.AbsFs.findS a d name a (.err e) := by
    intro e he
    unfold Spec.AbsFs.findS
    rw [he]
    exact ⟨rfl, rfl⟩
  unfold Model.findDirectoryEntry
  cases hidx : s.dirs.findIdx? (·.rawDirectory = d) with
  | none =>
    rw [bind_err (getDirById_bad hidx)]
    exact ⟨gh, a, hI, SameGeom.refl _, hA, (hgoal a _).2 (hbad _ (dirCtx_bad (dirOf_none hA hidx)))⟩
  | some i =>
    obtain ⟨di, hdi, hdim, hdo⟩ := dirOf_some hA hidx
    rw [bind_ok (getDirById_ok hidx), bind_ok (getDir_ok hdi)]
    cases hva : (s.vols.any fun x => decide (x.rawVolume = di.rawVolume)) with
    | false =>
      rw [bind_err (getVolumeById_bad (volume_missing hva))]
      rw [hva] at hdo
      exact ⟨gh, a, hI, SameGeom.refl _, hA, (hgoal a _).2 (hbad _ (dirCtx_bad hdo))⟩
    | true =>
      obtain ⟨vi, hvs, hvol, _, hvfind⟩ := volume_found hI hva
      rw [bind_ok (getVolumeById_ok hvfind)]
      rw [hva] at hdo
      have hdo' : Spec.AbsFs.dirOf a d = .ok (absDir di) := hdo
      unfold toSfn
      cases hs : Sfn.createFromStr name with
      | error e =>
        exact ⟨gh, a, hI, SameGeom.refl _, hA, (hgoal a _).2 (hbad _ (dirCtx_name hdo' hs))⟩
      | ok sfn =>
        obtain ⟨hres, hI', hA', _⟩ :=
          withVol_ro_refines (Fat.findDirectoryEntry di.cluster sfn) (DirMgr.findDirectoryEntry_readOnly di.cluster sfn) hI hA hvs hvol
        obtain ⟨hn, hc, hM⟩ := volInv_fs hI
        obtain ⟨fs', hfind, _⟩ := find_spec hM hn hc (hI.openDirs di hdim) sfn (hname sfn hs)
        rw [hfind] at hres
        obtain ⟨_, hsl⟩ := dir_slots hI hA hdim
        refine ⟨gh, a, hI', SameGeom.refl _, hA', (hgoal a _).2 ?_⟩
        show Spec.AbsFs.findS a d name a ((withVol 0 (Fat.findDirectoryEntry di.cluster sfn) s).1.bind fun e => .ok (Payload.entry e))
        rw [hres]
        exact findS_of (dirCtx_ok hdo' hs) hsl

/-! ### `iterate_dir`, `iterate_dir_lfn` -/

/-- `iterate_dir` on a state with both relations: outcome, abstractly; the relations afterwards. -/
theorem iterateDir_refines (d : Nat) {s : Mgr} {gh : Ghost} {a : AState} (hI : VolInv s gh) (hA : Abs s gh a) :
    VolInv (iterateDir d s).2 gh ∧ Abs (iterateDir d s).2 gh a ∧ Spec.AbsFs.ListsAs a d (iterateDir d s).1 ∧
    (iterateDir d s).2.dirs = s.dirs ∧ (iterateDir d s).2.nextId = s.nextId ∧ (iterateDir d s).2.files = s.files ∧
    (iterateDir d s).2.vols = s.vols ∧ (iterateDir d s).2.maxDirs = s.maxDirs := by
  unfold iterateDir
  cases hidx : s.dirs.findIdx? (·.rawDirectory = d) with
  | none =>
    rw [bind_err (getDirById_bad hidx)]
    refine ⟨hI, hA, ?_, rfl, rfl, rfl, rfl, rfl⟩
    unfold Spec.AbsFs.ListsAs
    rw [dirOf_none hA hidx]
  | some i =>
    obtain ⟨di, hdi, hdim, hdo⟩ := dirOf_some hA hidx
    rw [bind_ok (getDirById_ok hidx), bind_ok (getDir_ok hdi)]
    cases hva : (s.vols.any fun x => decide (x.rawVolume = di.rawVolume)) with
    | false =>
      rw [bind_err (getVolumeById_bad (volume_missing hva))]
      refine ⟨hI, hA, ?_, rfl, rfl, rfl, rfl, rfl⟩
      unfold Spec.AbsFs.ListsAs
      rw [hdo, hva]
      rfl
    | true =>
      obtain ⟨vi, hvs, hvol, _, hvfind⟩ := volume_found hI hva
      rw [bind_ok (getVolumeById_ok hvfind)]
      obtain ⟨hres, hI', hA', h1, h2, h3, h4, h5, _⟩ :=
        withVol_ro_refines (Fat.iterateRaw di.cluster) (iterateRaw_readOnly di.cluster) hI hA hvs hvol
      obtain ⟨hn, hc, hM⟩ := volInv_fs hI
      obtain ⟨fs', hit, _⟩ := iterate_spec hM hn hc (hI.openDirs di hdim)
      rw [hit] at hres
      rw [bind_def]
      rcases hrun : withVol 0 (iterateRaw di.cluster) s with ⟨r, s1⟩
      rw [hrun] at hres hI' hA' h1 h2 h3 h4 h5
      simp only at hres
      subst hres
      refine ⟨hI', hA', ?_, h2, h3, h1, h4, h5⟩
      unfold Spec.AbsFs.ListsAs
      rw [hdo, hva]
      refine ⟨_, rfl, ?_⟩
      obtain ⟨_, hsl⟩ := dir_slots hI hA hdim
      show _ = Spec.AbsFs.listing (a.slots (dirIdOf di.cluster))
      rw [hsl]
      unfold absSlots
      rw [listing_abs]
      show List.map view (List.filter _ (List.map _ (List.map _ (live (dirSlots (fsOf s gh).vol (fsOf s gh).dev.disk gh.G (dirIdOf di.cluster)))))) = _
      rw [listing_of_walk, List.map_map]
      rfl

theorem refines_list (d : Nat) {s : Mgr} {gh : Ghost} {a : AState} (hI : VolInv s gh) (hA : Abs s gh a) :
    Refines (.list d) s gh a := by
  have hl : a.locked = false := hA.locked.trans hI.unlocked
  unfold Refines
  rw [show runOp (.list d) s = (iterateDir d >>= fun es => pure (Payload.entries es)) s from rfl, run_map]
  obtain ⟨hI', hA', hL, _⟩ := iterateDir_refines d hI hA
  refine ⟨gh, a, hI', SameGeom.refl _, hA', ?_⟩
  unfold absStep
  rw [if_neg (by rw [hl]; exact Bool.false_ne_true)]
  exact ⟨rfl, _, hL, rfl⟩

theorem refines_listLfn (d n : Nat) {s : Mgr} {gh : Ghost} {a : AState} (hI : VolInv s gh) (hA : Abs s gh a) :
    Refines (.listLfn d n) s gh a := by
  have hl : a.locked = false := hA.locked.trans hI.unlocked
  unfold Refines
  rw [show runOp (.listLfn d n) s = (iterateDirLfn d n >>= fun es => pure (Payload.lfnEntries es)) s from rfl, run_map]
  have hgoal : ∀ (r : Res Payload), absStep a (.listLfn d n) (a, r) ↔ Spec.AbsFs.listLfnS a d a r := by
    intro r
    unfold absStep
    rw [if_neg (by rw [hl]; exact Bool.false_ne_true)]
  unfold iterateDirLfn
  cases hidx : s.dirs.findIdx? (·.rawDirectory = d) with
  | none =>
    rw [bind_err (getDirById_bad hidx)]
    refine ⟨gh, a, hI, SameGeom.refl _, hA, (hgoal _).2 ⟨rfl, fun e he => ?_⟩⟩
    rw [dirOf_none hA hidx] at he
    cases he; rfl
  | some i =>
    obtain ⟨di, hdi, hdim, hdo⟩ := dirOf_some hA hidx
    rw [bind_ok (getDirById_ok hidx), bind_ok (getDir_ok hdi)]
    cases hva : (s.vols.any fun x => decide (x.rawVolume = di.rawVolume)) with
    | false =>
      rw [bind_err (getVolumeById_bad (volume_missing hva))]
      refine ⟨gh, a, hI, SameGeom.refl _, hA, (hgoal _).2 ⟨rfl, fun e he => ?_⟩⟩
      rw [hdo, hva] at he
      cases he; rfl
    | true =>
      obtain ⟨vi, hvs, hvol, _, hvfind⟩ := volume_found hI hva
      rw [bind_ok (getVolumeById_ok hvfind)]
      obtain ⟨_, hI', hA', _⟩ :=
        withVol_ro_refines (Fat.iterateRaw di.cluster) (iterateRaw_readOnly di.cluster) hI hA hvs hvol
      rw [bind_lift_state]
      refine ⟨gh, a, hI', SameGeom.refl _, hA', (hgoal _).2 ⟨rfl, fun e he => ?_⟩⟩
      rw [hdo, hva] at he
      cases he

end Sdmmc.Lemmas.AbsFs
