/-
C11 (device faults) with several open volumes, part 1 — the projection under a pending schedule and WHERE A FAULTED
CALL WRITES.

`VolInvNF s ghs` (`Spec/VolumeNFault.lean`): the multi-volume invariant up to the pending schedule `s.dev.faults`.

* `proj_clearFaults`, `volInvF_proj` — the projection to volume record `i` commutes with `clearFaults`, and satisfies the
  one-volume invariant up to the schedule (`VolInvF`);
* `step_sim_F` — the simulation lemma `Lemmas.VolN.step_sim` needs no invariant and no fault-freedom: under `VolInvNF`
  a call addressed to volume record `i` gives the same output and the same device on `s` and on its projection;
* `write_frame` — a `write` under ANY schedule changes no block outside the partition of its volume (one-volume; from
  `Retry.write_kept`);
* `single_frame` (one-volume manager), `addressed_frame` — for every call addressed to volume record `i` OTHER THAN
  `make_dir_in_dir` (that one: `Lemmas/VolNFaultMkdir.lean`), under ANY schedule, no block outside the partition of volume
  `i` changes.  Read-only calls: they write nothing; `prefixOp` calls: their writes are licensed by the licence of the
  fault-free call (`FaultInv.faulted_licensed` on the projection; this needs identical FAT copies, `MirrorN`); `write`:
  `write_frame`.  Second component: for all of these except `write` (that one: `Lemmas/VolNFaultLen.lean`) the medium
  still consists of 512-byte blocks.
The assembly for ALL addressed calls is `Lemmas/VolNFault4.addressed_staysIn`.
-/
import Sdmmc.Spec.VolumeNFault
import Sdmmc.Lemmas.VolNStep
import Sdmmc.Lemmas.VolNLic
import Sdmmc.Lemmas.MainC11

namespace Sdmmc.Lemmas.VolNFault
open Sdmmc.Model Sdmmc.Model.Fat Sdmmc.Spec.Volume
open Sdmmc.Spec hiding run step NoFault Coherent
open Sdmmc.Lemmas.VolN (LabelFresh ProjRel StepSim projH)
open Sdmmc.Lemmas.MHoare

/-! ### The projection and the schedule -/

theorem projH_clearFaults (hv i : Nat) (s : Mgr) : projH hv i (clearFaults s) = clearFaults (projH hv i s) := rfl

theorem proj_clearFaults (s : Mgr) (i : Nat) : proj (clearFaults s) i = clearFaults (proj s i) := by
  unfold proj
  show (match s.vols[i]? with | none => _ | some vi => _) = _
  cases s.vols[i]? <;> rfl

/-- The projection has the device — schedule included — and the cache of the manager. -/
theorem projH_dev (hv i : Nat) (s : Mgr) : (projH hv i s).dev = s.dev := rfl

/-- **The projection satisfies the one-volume invariant up to the schedule.** -/
theorem volInvF_projH {s : Mgr} {ghs : List Ghost} (hI : VolInvNF s ghs) {i : Nat} {vi : VolInfo} {gh : Ghost}
    (hvi : s.vols[i]? = some vi) (hgh : ghs[i]? = some gh) : VolInvF (projH vi.rawVolume i s) gh :=
  Lemmas.VolN.volInv_proj (s := clearFaults s) hI hvi hgh

theorem volInvF_proj {s : Mgr} {ghs : List Ghost} (hI : VolInvNF s ghs) {i : Nat} {vi : VolInfo} {gh : Ghost}
    (hvi : s.vols[i]? = some vi) (hgh : ghs[i]? = some gh) : VolInvF (proj s i) gh := by
  rw [Lemmas.VolN.proj_eq_projH hvi]; exact volInvF_projH hI hvi hgh

/-- A volume record has a ghost. -/
theorem ghost_of_vol {s : Mgr} {ghs : List Ghost} (hI : VolInvNF s ghs) {i : Nat} {vi : VolInfo} (hvi : s.vols[i]? = some vi) :
    ∃ gh, ghs[i]? = some gh :=
  ⟨_, List.getElem?_eq_getElem (by rw [hI.len]; exact (List.getElem?_eq_some_iff.1 hvi).1)⟩

/-- **The simulation lemma under a pending schedule.** -/
theorem step_sim_F {s : Mgr} {ghs : List Ghost} (hI : VolInvNF s ghs) (op : Op) {i : Nat} {vi : VolInfo}
    (ht : target s op = some i) (hvi : s.vols[i]? = some vi) (hf : LabelFresh s op) : StepSim vi.rawVolume i s op :=
  Lemmas.VolN.step_sim (s := s) hI.unlocked (Lemmas.VolN.findIdx?_of_nodup (s := s) hI.handles hvi) op ht hf

/-- The device after an addressed call is the device after the call on the projection. -/
theorem step_dev_F {s : Mgr} {ghs : List Ghost} (hI : VolInvNF s ghs) (op : Op) {i : Nat} {vi : VolInfo}
    (ht : target s op = some i) (hvi : s.vols[i]? = some vi) (hf : LabelFresh s op) :
    (Model.step s op).1.dev = (Model.step (projH vi.rawVolume i s) op).1.dev :=
  (step_sim_F hI op ht hvi hf).rel.dev.symm

/-! ### `write` under any schedule stays in its partition -/

theorem inPartition_of_fatBlock {v : FatVolume} (hg : WFGeom v) {b : Nat} (h : IsFatBlock v b) : InPartition v b :=
  Lemmas.VolN.inPartition_of_region (.inl (WriteRefines.isFatBlock_region hg h))

theorem inPartition_of_clusterBlock {v : FatVolume} (hg : WFGeom v) {c b : Nat} (hc : InRange v c)
    (h1 : clusterToBlock v c ≤ b) (h2 : b < clusterToBlock v c + v.blocksPerCluster) : InPartition v b := by
  have hdata := FatLens.cluster_blocks_in_data_region v hg c (b - clusterToBlock v c) hc.1 hc.2 (by omega)
  rw [show clusterToBlock v c + (b - clusterToBlock v c) = b by omega] at hdata
  exact Lemmas.VolN.inPartition_of_region (.inr (.inl hdata))

/-- **`write` under any fault schedule changes no block outside the partition of its volume.** -/
theorem write_frame {s0 : Mgr} {gh : Ghost} (hI : VolInv s0 gh) (L : List Nat) (file : Nat) (data : Bytes) (b : Nat)
    (hb : ¬ InPartition gh.vol b) :
    (Model.write file data (Lemmas.FaultInv.withFaults L s0)).2.dev.disk.get b = s0.dev.disk.get b := by
  have hM := Lemmas.VolMed.medX_of_med hI.med
  cases hidx : s0.files.findIdx? (·.rawFile = file) with
  | none =>
    have : Model.write file data (Lemmas.FaultInv.withFaults L s0) = (.err .BadHandle, Lemmas.FaultInv.withFaults L s0) := by
      unfold Model.write
      rw [bind_err (getFileById_bad (s := Lemmas.FaultInv.withFaults L s0) hidx)]
    rw [this]; rfl
  | some i =>
    obtain ⟨f, hf, _⟩ := findIdx?_some_get hidx
    have hfm : f ∈ s0.files := List.mem_of_getElem? hf
    obtain ⟨vi, hv, hvol, hrv, _⟩ := Lemmas.VolApi.vol_of_file hI hfm
    have hvfind : s0.vols.findIdx? (·.rawVolume = f.rawVolume) = some 0 := by rw [hv]; simp [hrv]
    have hvi : s0.vols[0]? = some vi := by rw [hv]; rfl
    by_cases hmode : f.mode = .ReadOnly
    · rw [Modes.write_readOnly (s := Lemmas.FaultInv.withFaults L s0) file data i f 0 hidx hf hvfind hmode]; rfl
    have hG : Lemmas.VolTree.HeadsOK gh.G := Lemmas.VolMed.med_heads hM
    obtain ⟨hok, hcur⟩ := hI.med.fileOK f hfm
    generalize hcsdef : chainOf gh.G f.entry.cluster = cs at hok hcur
    have hhead : cs ≠ [] → cs ∈ gh.G := by
      intro hne
      rw [← hcsdef] at hne ⊢
      exact (Lemmas.VolTree.chainOf_spec hG ((Lemmas.VolTree.chainOf_ne_nil_iff hG).1 hne)).1
    obtain ⟨A, B, hGeq⟩ : ∃ A B, gh.G = withChain A cs B := by
      by_cases hne : cs = []
      · exact ⟨[], gh.G, by rw [hne, WriteRefines.withChain_nil]; rfl⟩
      · obtain ⟨A, B, h⟩ := List.append_of_mem (hhead hne)
        exact ⟨A, B, by rw [WriteRefines.withChain_ne hne, h]; simp⟩
    have hs : Lemmas.Retry.MgrOKF (Lemmas.FaultInv.withFaults L s0) := ⟨hI.coherent, hI.med.blocksOK, hI.unlocked⟩
    obtain ⟨_, ⟨cs', _, hoth⟩⟩ :=
      Lemmas.Retry.write_kept (Lemmas.FaultInv.withFaults L s0) file i 0 data f vi cs A B hs hidx hf hvfind hvi hmode
        (by rw [hvol]; exact hI.med.geom) (by rw [hvol]; exact hI.med.hint) (by rw [hvol]; exact hok) hcur
        (by rw [hvol, ← hGeq]; exact hI.med.owns)
    have hframe := hoth.frame
    have hrange := hoth.inRange
    rw [hvol] at hframe hrange
    apply hframe
    · exact fun hfat => hb (inPartition_of_fatBlock hI.med.geom hfat)
    · rintro ⟨c, hc, hle, hlt⟩
      exact hb (inPartition_of_clusterBlock hI.med.geom (hrange c hc) hle hlt)

/-! ### Where an addressed call writes under any schedule -/

/-- The calls this file covers: every call except `make_dir_in_dir`. -/
def notMkdir : Op → Bool
  | .mkdir _ _ => false
  | _ => true

theorem class_cases (op : Op) : Fault.readOnlyOp op = true ∨ (Fault.readOnlyOp op = false ∧ FaultPre.prefixOp op = true) ∨
    (∃ f d, op = .write f d) ∨ (∃ d n, op = .mkdir d n) := by
  cases op <;> first
    | exact .inl rfl
    | exact .inr (.inl ⟨rfl, rfl⟩)
    | exact .inr (.inr (.inl ⟨_, _, rfl⟩))
    | exact .inr (.inr (.inr ⟨_, _, rfl⟩))

theorem labelFresh_of_not_readonly {s : Mgr} {op : Op} (h : Fault.readOnlyOp op = false) : LabelFresh s op := by
  cases op <;> first | exact trivial | cases h

/-- **A call on the one-volume manager `p` under its pending schedule changes no block outside the partition**
(all calls except `make_dir_in_dir`; `prefixOp` calls need identical FAT copies), and — read-only and `prefixOp` calls —
leaves 512-byte blocks. -/
theorem single_frame {p : Mgr} {gh : Ghost} (hP : VolInvF p gh) (hm : Mirror gh.vol p.dev.disk) (op : Op)
    (hop : notMkdir op = true) :
    (∀ b, ¬ InPartition gh.vol b → (Model.step p op).1.dev.disk.get b = p.dev.disk.get b) ∧
    ((∀ f d, op ≠ .write f d) → BlocksOK (Model.step p op).1.dev.disk) := by
  have hP' : VolInv (clearFaults p) gh := hP
  have hbl : BlocksOK p.dev.disk := hP'.med.blocksOK
  rcases class_cases op with hro | ⟨_, hpre⟩ | ⟨f, d, rfl⟩ | ⟨d, n, rfl⟩
  · rw [(Fault.step_readonly_nowrite p op hro).1]
    exact ⟨fun _ _ => rfl, fun _ => hbl⟩
  · obtain ⟨Lic, _, hall, hdisk⟩ := Lemmas.FaultInv.faulted_licensed hP' hm p.dev.faults op hpre (Lemmas.VolN.nameCovered_all op)
    have hall' : AllLicensed gh.vol p.dev.disk Lic (Model.step p op).2.writes := hall
    have hdisk' : ∀ i, (Model.step p op).1.dev.disk.get i = (p.dev.disk.applyWrites (Model.step p op).2.writes).get i := hdisk
    have hreg := Lemmas.WriteSet.allLicensed_in_region gh.vol hP'.med.geom Lic _ _ hall'
    refine ⟨fun b hb => ?_, fun _ i => ?_⟩
    · rw [hdisk' b, Lemmas.CrashBase.applyWrites_get_other _ _ _ fun w hw (e : w.1 = b) =>
        hb (by rw [← e]; exact (hreg w hw).2.1)]
    · rw [hdisk' i]
      exact Lemmas.FaultInv.allLicensed_blocksOK _ _ hbl hall' i
  · refine ⟨fun b hb => ?_, fun h => absurd rfl (h f d)⟩
    have e : (Model.step p (.write f d)).1 =
        (Model.write f d (Lemmas.FaultInv.withFaults p.dev.faults (resetLogs (clearFaults p)))).2 := by
      rw [step_unlocked p _ hP'.unlocked]
      exact Lemmas.VolApi.seq_state (Model.write f d) Payload.unit _
    rw [e]
    exact write_frame (Lemmas.VolApi.volInv_resetLogs hP') p.dev.faults f d b hb
  · cases hop

/-- **`addressed_frame`.**  A call addressed to volume record `i` (any call except `make_dir_in_dir`), under ANY pending
schedule: no block outside the partition of volume `i` changes; and (all of these except `write`) the medium still
consists of 512-byte blocks. -/
theorem addressed_frame {s : Mgr} {ghs : List Ghost} (hI : VolInvNF s ghs) (hm : MirrorN s ghs) (op : Op) {i : Nat}
    {vi : VolInfo} {gh : Ghost} (ht : target s op = some i) (hvi : s.vols[i]? = some vi) (hgh : ghs[i]? = some gh)
    (hop : notMkdir op = true) :
    (∀ b, ¬ InPartition gh.vol b → (Model.step s op).1.dev.disk.get b = s.dev.disk.get b) ∧
    ((∀ f d, op ≠ .write f d) → BlocksOK (Model.step s op).1.dev.disk) := by
  by_cases hro : Fault.readOnlyOp op = true
  · rw [(Fault.step_readonly_nowrite s op hro).1]
    exact ⟨fun _ _ => rfl, fun _ => (hI.med i vi gh hvi hgh).blocksOK⟩
  · have hro' : Fault.readOnlyOp op = false := by cases h : Fault.readOnlyOp op with | true => exact absurd h hro | false => rfl
    rw [step_dev_F hI op ht hvi (labelFresh_of_not_readonly hro')]
    exact single_frame (volInvF_projH hI hvi hgh) (hm gh (List.mem_of_getElem? hgh)) op hop

end Sdmmc.Lemmas.VolNFault
