/-
Crash points of the device writes of `open_file_in_dir(…, ReadWriteTruncate)` on an existing file (F level):
`truncate_cluster_chain(first cluster)` — the chain is cut behind its first cluster, the tail freed — and
THEN `write_entry_to_disk` with size 0.  At every crash point the record with the file's chain as it was,
or cut to its first cluster, is sound; other chains are untouched; the directory slot is written last, so
in between the on-disk entry still carries the OLD size while the chain already has one cluster
(`Props/C09CrashApi.lean`, `Example.truncate_size_residue`).
-/
import Sdmmc.Lemmas.CrashStep
import Sdmmc.Lemmas.CrashData

namespace Sdmmc.Lemmas.CrashTruncOpen
open Sdmmc.Model Sdmmc.Model.Fat Sdmmc.Spec
open Sdmmc.Lemmas.FBasic hiding NoFault Coherent
open Sdmmc.Lemmas.FatOps hiding BlocksOK Mirror HintOK
open Sdmmc.Lemmas.ChainL Sdmmc.Lemmas.ForestBase Sdmmc.Lemmas.ForestStep Sdmmc.Lemmas.ForestOwns
open Sdmmc.Lemmas.CrashBase Sdmmc.Lemmas.CrashStep

/-- The device writes of truncate-on-open: cut the chain of `c`, then write the entry `e'` (size 0). -/
def truncOpenBody (c : Nat) (e' : DirEntry) : F Unit := do
  truncateClusterChain c
  writeEntryToDisk e'

/-- What holds of a crashed medium `d` of truncate-on-open of the file whose chain is `G[i] = c :: tail`. -/
structure TruncOpenCrash (v : FatVolume) (d0 : Disk) (G : List (List Nat)) (i c : Nat) (e' : DirEntry) (d : Disk) : Prop where
  sound : OwnsLoose v d G ∨ OwnsLoose v d (G.set i [c])
  others : ∀ j X, G[j]? = some X → j ≠ i → ∀ x, x ∈ X → fatRaw v d x = fatRaw v d0 x
  blocks : ∀ b, regionOf v b ≠ .fat → b ≠ e'.entryBlock → d.get b = d0.get b
  slotLast : d.get e'.entryBlock ≠ d0.get e'.entryBlock → OwnsLoose v d (G.set i [c])

theorem truncOpen_crash (s : FS) (G : List (List Nat)) (i c : Nat) (tail : List Nat) (e' : DirEntry) (hr : Ready s)
    (ho : Owns s.vol s.dev.disk G) (hGi : G[i]? = some (c :: tail))
    (hoff : e'.entryOffset + 32 ≤ 512) (hname : e'.name.length = 11) (hbnf : regionOf s.vol e'.entryBlock ≠ .fat) :
    ∃ s', truncOpenBody c e' s = (.ok (), s') ∧ CrashAll (TruncOpenCrash s.vol s.dev.disk G i c e') s s' := by
  obtain ⟨hsplit, _⟩ := split_at hGi
  have ho2 : Owns s.vol s.dev.disk (G.take i ++ [[] ++ c :: tail] ++ G.drop (i + 1)) := by
    rw [List.nil_append, ← hsplit]; exact ho
  obtain ⟨s1, ht, hcr1⟩ := truncate_stepCrash s _ _ [] tail c hr ho2
  obtain ⟨s1', ht', hr1, ho1, hsg, _, _⟩ := owns_truncate s _ _ [] tail c hr ho2
  rw [ht] at ht'
  have e1 : s1 = s1' := congrArg Prod.snd ht'
  subst e1
  obtain ⟨s', hw, _, hcr2⟩ := CrashData.writeEntry_crash s1 e' hr1.noFault hr1.coherent hr1.blocksOK hoff hname
  refine ⟨s', by unfold truncOpenBody; rw [bind_ok ht, hw], ?_⟩
  have hset : G.set i [c] = G.take i ++ [[] ++ [c]] ++ G.drop (i + 1) := by rw [set_at hGi]; rfl
  have hfin1 := hcr1.final
  have c1 : CrashAll (TruncOpenCrash s.vol s.dev.disk G i c e') s s1 := hcr1.mono fun d hd => by
    obtain ⟨h1, h2, h3, _, _⟩ := hd
    rw [List.nil_append, ← hsplit] at h1
    refine ⟨by rw [hset]; exact h1, fun j X hj hji x hx => h2 x (mem_split_of_ne hj hji hx), fun b hb _ => h3 b hb,
      fun hne => absurd (h3 _ hbnf) hne⟩
  have hown1 : OwnsLoose s.vol s1.dev.disk (G.set i [c]) := by
    rw [hset]; exact ownsLoose_sameGeom hsg.symm (ownsLoose_of_owns ho1)
  have c2 : CrashAll (TruncOpenCrash s.vol s.dev.disk G i c e') s1 s' := hcr2.mono fun d hd => by
    obtain ⟨hoth, _⟩ := hd
    have hfat : ∀ x, x < endCluster s.vol → fatRaw s.vol d x = fatRaw s.vol s1.dev.disk x := fun x hx => by
      unfold fatRaw
      rw [hoth _ (fun e => hbnf (by rw [← e]; exact (FatLens.fat_blocks_in_fat_region s.vol hr.geom x hx).1))]
    have hs : OwnsLoose s.vol d (G.set i [c]) := ownsLoose_congr hown1 fun x hx => hfat x (hown1.2.2 x hx).1.2
    refine ⟨.inr hs, fun j X hj hji x hx => ?_, fun b hb hbe => ?_, fun _ => hs⟩
    · have hxE : x < endCluster s.vol := (owns_mem_used ho (mem_flatten_of_mem (List.mem_of_getElem? hj) hx)).1.2
      exact (hfat x hxE).trans (hfin1.2.1 x (mem_split_of_ne hj hji hx))
    · rw [hoth b hbe]; exact hfin1.2.2.1 b hb
  exact c1.trans c2

end Sdmmc.Lemmas.CrashTruncOpen
