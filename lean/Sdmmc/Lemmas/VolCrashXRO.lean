/-
C10 strengthened (`Props/C10InvX.lean`): `VolCrashRO.lean` restated for `CIX` / `RawOKX`.
-/
import Sdmmc.Lemmas.VolCrashXApi
import Sdmmc.Lemmas.VolCrashRO

namespace Sdmmc.Lemmas.VolCrashX
open Sdmmc.Lemmas.VolCrash
open Sdmmc.Model Sdmmc.Model.Fat Sdmmc.Spec.Volume
open Sdmmc.Spec hiding NoFault Coherent run step
open Sdmmc.Lemmas.FBasic
open Sdmmc.Lemmas.VolBase Sdmmc.Lemmas.VolTree Sdmmc.Lemmas.VolMed Sdmmc.Lemmas.VolDisk Sdmmc.Lemmas.VolEng
open Sdmmc.Lemmas.VolApi Sdmmc.Lemmas.CrashBase Sdmmc.Lemmas.CrashMgr Sdmmc.Lemmas.MHoare
open Sdmmc.Lemmas.Fault

/-! ### The relation -/

/-- Every open file of `s'` carries the directory entry of an open file of `s`. -/
def FilesKeep (s s' : Mgr) : Prop := ∀ g, g ∈ s'.files → ∃ f, f ∈ s.files ∧ g.entry = f.entry

theorem FilesKeep.of_files_eq {s s' : Mgr} (h : s'.files = s.files) : FilesKeep s s' :=
  fun g hg => ⟨g, h ▸ hg, rfl⟩

instance : RelOK FilesKeep where
  refl := fun _ => FilesKeep.of_files_eq rfl
  trans := fun h1 h2 g hg => by
    obtain ⟨f, hf, e⟩ := h2 g hg
    obtain ⟨f0, hf0, e0⟩ := h1 f hf
    exact ⟨f0, hf0, e.trans e0⟩

instance : WithVolOK FilesKeep where
  withVol := fun i f s => by
    rcases withVol_cases i f s with ⟨_, he⟩ | ⟨vi, _, he⟩
    · rw [he]; exact FilesKeep.of_files_eq rfl
    · rw [he]; exact FilesKeep.of_files_eq rfl

theorem rawOKX_filesKeep {ft : FatType} {d : Disk} {s s' : Mgr} (hR : RawOKX ft d s.files) (h : FilesKeep s s') :
    RawOKX ft d s'.files :=
  rawOKX_files hR fun g hg => by
    obtain ⟨f, hf, e⟩ := h g hg
    exact ⟨f, hf, by rw [e], by rw [e], by rw [e]⟩

/-! ### Combinators -/

theorem FilesKeep.generate : M.Inv FilesKeep generate := fun _ => FilesKeep.of_files_eq rfl

theorem FilesKeep.rdBlock (idx : Nat) : M.Inv FilesKeep (rdBlock idx) := fun _ => FilesKeep.of_files_eq rfl

theorem FilesKeep.modify {f : Mgr → Mgr} (h : ∀ s, (f s).files = s.files) : M.Inv FilesKeep (M.modify f) :=
  fun s => FilesKeep.of_files_eq (h s)

theorem mem_modify {α : Type} (g : α → α) : ∀ (l : List α) (i : Nat) (x : α), x ∈ l.modify i g → x ∈ l ∨ ∃ y, y ∈ l ∧ x = g y := by
  intro l i x hx
  obtain ⟨j, hj⟩ := List.getElem?_of_mem hx
  rw [List.getElem?_modify] at hj
  cases hl : l[j]? with
  | none => rw [hl] at hj; cases hj
  | some y =>
    rw [hl] at hj
    have hy : y ∈ l := List.mem_of_getElem? hl
    simp only [Functor.map, Option.map_some, Option.some.injEq] at hj
    by_cases hij : i = j
    · rw [if_pos hij] at hj; exact Or.inr ⟨y, hy, hj.symm⟩
    · rw [if_neg hij] at hj; exact Or.inl (hj ▸ hy)

theorem FilesKeep.modifyFile (i : Nat) {g : FileInfo → FileInfo} (hg : ∀ x, (g x).entry = x.entry) :
    M.Inv FilesKeep (Model.modifyFile i g) := by
  intro s x hx
  rcases mem_modify g s.files i x hx with h | ⟨y, hy, e⟩
  · exact ⟨x, h, rfl⟩
  · exact ⟨y, hy, by rw [e, hg]⟩

/-- The shape of the three seeks. -/
theorem FilesKeep.seek (i : Nat) (g : FileInfo → Option FileInfo) (hg : ∀ f f', g f = some f' → f'.entry = f.entry) :
    M.Inv FilesKeep (getFile i >>= fun f => match g f with
      | some f' => setFile i f'
      | none => M.fail .InvalidOffset) := by
  intro s
  cases hf : s.files[i]? with
  | none =>
    have e : getFile i s = (.panic "file index out of range", s) := by unfold getFile; rw [hf]
    rw [M.bind_panic e]; exact RelOK.refl s
  | some f =>
    have e : getFile i s = (.ok f, s) := by unfold getFile; rw [hf]
    rw [M.bind_ok e]
    cases hgf : g f with
    | none => exact RelOK.refl s
    | some f' =>
      intro x hx
      rcases List.mem_or_eq_of_mem_set hx with h | h
      · exact ⟨x, h, rfl⟩
      · exact ⟨f, List.mem_of_getElem? hf, by rw [h]; exact hg f f' hgf⟩

macro "kfault_step" : tactic => `(tactic| first
  | with_reducible first
    | exact FilesKeep.generate
    | exact FilesKeep.modify (fun _ => rfl)
    | exact FilesKeep.modifyFile _ (fun _ => rfl)
  | exact FilesKeep.rdBlock _
  | mfault_step)

macro "kfault_auto" : tactic => `(tactic| repeat kfault_step)

/-! ### The methods -/

theorem openRawVolume_keep (i : Nat) : M.Inv FilesKeep (openRawVolume i) := by
  unfold openRawVolume; kfault_auto

theorem openRootDir_keep (v : Nat) : M.Inv FilesKeep (openRootDir v) := by
  unfold openRootDir; kfault_auto

theorem openDir_keep (d : Nat) (name : List Nat) : M.Inv FilesKeep (openDir d name) := by
  unfold openDir; kfault_auto

theorem closeDir_keep (d : Nat) : M.Inv FilesKeep (closeDir d) := by
  unfold closeDir; kfault_auto

theorem findDirectoryEntry_keep (d : Nat) (name : List Nat) : M.Inv FilesKeep (Model.findDirectoryEntry d name) := by
  unfold Model.findDirectoryEntry; kfault_auto

theorem iterateDir_keep (d : Nat) : M.Inv FilesKeep (iterateDir d) := by
  unfold iterateDir; kfault_auto

theorem iterateDirLfn_keep (d n : Nat) : M.Inv FilesKeep (iterateDirLfn d n) := by
  unfold iterateDirLfn; kfault_auto

theorem readLoop_keep (fi vi start fuel space : Nat) (acc : Bytes) :
    M.Inv FilesKeep (readLoop fi vi start fuel space acc) := by
  induction fuel generalizing space acc with
  | zero => unfold readLoop; kfault_auto
  | succ n ih => unfold readLoop; kfault_auto

theorem read_keep (f n : Nat) : M.Inv FilesKeep (Model.read f n) := by
  have := readLoop_keep
  unfold Model.read; kfault_auto

theorem fileEof_keep (f : Nat) : M.Inv FilesKeep (fileEof f) := by unfold fileEof; kfault_auto
theorem fileLength_keep (f : Nat) : M.Inv FilesKeep (fileLength f) := by unfold fileLength; kfault_auto
theorem fileOffset_keep (f : Nat) : M.Inv FilesKeep (fileOffset f) := by unfold fileOffset; kfault_auto

theorem fileSeekFromStart_keep (f n : Nat) : M.Inv FilesKeep (fileSeekFromStart f n) := by
  unfold fileSeekFromStart
  refine M.Inv.bind (M.Inv.getFileById _) fun i => FilesKeep.seek i (fun x => x.seekFromStart n) ?_
  intro x x' h
  unfold FileInfo.seekFromStart at h
  split at h
  · cases h
  · cases h; rfl

theorem fileSeekFromCurrent_keep (f : Nat) (n : Int) : M.Inv FilesKeep (fileSeekFromCurrent f n) := by
  unfold fileSeekFromCurrent
  refine M.Inv.bind (M.Inv.getFileById _) fun i => FilesKeep.seek i (fun x => x.seekFromCurrent n) ?_
  intro x x' h
  unfold FileInfo.seekFromCurrent at h
  dsimp only at h
  split at h
  · cases h
  · cases h; rfl

theorem fileSeekFromEnd_keep (f n : Nat) : M.Inv FilesKeep (fileSeekFromEnd f n) := by
  unfold fileSeekFromEnd
  refine M.Inv.bind (M.Inv.getFileById _) fun i => FilesKeep.seek i (fun x => x.seekFromEnd n) ?_
  intro x x' h
  unfold FileInfo.seekFromEnd at h
  split at h
  · cases h
  · cases h; rfl

theorem getRootVolumeLabel_keep (v : Nat) : M.Inv FilesKeep (getRootVolumeLabel v) := by
  have := openRootDir_keep
  have := iterateDir_keep
  have := closeDir_keep
  unfold getRootVolumeLabel; kfault_auto

/-- Every read-only operation keeps the directory entries of the open files. -/
theorem runOp_readonly_keep (op : Op) (h : readOnlyOp op = true) : M.Inv FilesKeep (runOp op) := by
  have := openRawVolume_keep
  have := openRootDir_keep
  have := openDir_keep
  have := closeDir_keep
  have := read_keep
  have := getRootVolumeLabel_keep
  have := fileSeekFromStart_keep
  have := fileSeekFromCurrent_keep
  have := fileSeekFromEnd_keep
  have := findDirectoryEntry_keep
  have := iterateDir_keep
  have := iterateDirLfn_keep
  have := fileLength_keep
  have := fileOffset_keep
  have := fileEof_keep
  cases op <;> first | (cases h; done) | (unfold runOp; kfault_auto)
  exact M.Inv.of_eq fun _ => rfl

/-! ### The calls -/

/-- C10 for the operations that never write: the one crash point is the medium between two calls, and the open files
afterwards sit where open files sat before and name the same clusters. -/
theorem readonly_callCX {s : Mgr} {gh : Ghost} (hI : VolInv s gh) (hR : RawOKX gh.vol.fatType s.dev.disk s.files)
    (op : Op) (h : Sdmmc.Lemmas.Fault.readOnlyOp op = true) : CallCX gh.vol s (runOp op s).2 := by
  obtain ⟨hw, hd⟩ := Sdmmc.Lemmas.Fault.runOp_readonly_inv (R := MNoWrite) op h s
  exact callCX_same hw hd (cix_start hI hR) (rawOKX_filesKeep hR (runOp_readonly_keep op h s))

end Sdmmc.Lemmas.VolCrashX
