/-
The read side of C01 for every file size, chain length and fragmentation: `find_data_on_disk`
along a chain (`find_on_chain`, `find_at_chain_end`) and the loop of `read` against the byte-array
model (`readLoop_refines`, `read_refines`).  Statements for users are in `Sdmmc.Props.C01Read`.
-/
import Sdmmc.Lemmas.Chain
import Sdmmc.Lemmas.MHoare

namespace Sdmmc.Lemmas.ReadRefines
open Sdmmc.Model Sdmmc.Model.Fat Sdmmc.Spec Sdmmc.Lemmas.FBasic Sdmmc.Lemmas.FatOps Sdmmc.Lemmas.ChainL

/-! ### `find_data_on_disk` on a chain -/

theorem div_sub_mul (x k cb : Nat) (hcb : 0 < cb) (h : k * cb ≤ x) : (x - k * cb) / cb = x / cb - k := by
  have hk : k ≤ x / cb := (Nat.le_div_iff_mul_le hcb).2 h
  have h1 : x - k * cb = (x / cb - k) * cb + x % cb := by
    have := Nat.div_add_mod x cb
    rw [Nat.mul_comm] at this
    have h2 : x / cb * cb = (x / cb - k) * cb + k * cb := by rw [← Nat.add_mul]; congr 1; omega
    omega
  rw [h1, Nat.mul_comm, Nat.mul_add_div hcb, Nat.div_eq_of_lt (Nat.mod_lt _ hcb), Nat.add_zero]

theorem sub_div_mul (x cb : Nat) : x - x / cb * cb = x % cb := by
  rw [Nat.mod_def, Nat.mul_comm]

/-- The (restarted) walk of `find_data_on_disk` for an offset inside the chain ends on the cluster
holding the offset, whatever the position of the cursor. -/
theorem walk_to_offset (f : FileInfo) (cs : List Nat) (s : FS) (desired c : Nat)
    (hn : NoFault s) (hc : Coherent s) (hg : WFGeom s.vol) (hok : FileOK s.vol s.dev.disk f cs)
    (hk : cs[desired / clusterBytesLen s.vol]? = some c) :
    ∃ s', walkClusters (clusterBytesLen s.vol)
        ((desired - (Files.restart f.entry.cluster desired (f.curClusterOff, f.curCluster)).1) / clusterBytesLen s.vol)
        (Files.restart f.entry.cluster desired (f.curClusterOff, f.curCluster)) s =
      (.ok ((desired / clusterBytesLen s.vol * clusterBytesLen s.vol, c), .ok ()), s') ∧ RO s s' := by
  have hcb : 0 < clusterBytesLen s.vol := Nat.mul_pos hg.bpc_pos (by omega)
  have hne : cs ≠ [] := by intro h; rw [h] at hk; simp at hk
  have hch : Chain s.vol s.dev.disk f.entry.cluster cs := by
    rcases hok.chain with ⟨_, h, _⟩ | h
    · exact absurd h hne
    · exact h
  obtain ⟨k0, hk0, hoff, hcur⟩ : ∃ k, k < cs.length ∧ f.curClusterOff = k * clusterBytesLen s.vol ∧
      cs[k]? = some f.curCluster := by
    rcases hok.cursor with h | h
    · exact absurd h hne
    · exact h
  unfold Files.restart
  by_cases hlt : desired < f.curClusterOff
  · simp only [hlt, if_true, Nat.sub_zero]
    obtain ⟨s', hw, hro⟩ := walk_chain (clusterBytesLen s.vol) (desired / clusterBytesLen s.vol) 0 0
      f.entry.cluster c s hn hc hg hch (chain_get_zero hch) (by rw [Nat.zero_add]; exact hk)
    rw [Nat.zero_add] at hw
    exact ⟨s', hw, hro⟩
  · simp only [hlt, if_false]
    have hle : k0 * clusterBytesLen s.vol ≤ desired := by omega
    have hk0le : k0 ≤ desired / clusterBytesLen s.vol := (Nat.le_div_iff_mul_le hcb).2 hle
    rw [hoff, div_sub_mul desired k0 _ hcb hle]
    obtain ⟨s', hw, hro⟩ := walk_chain (clusterBytesLen s.vol) (desired / clusterBytesLen s.vol - k0) k0
      (k0 * clusterBytesLen s.vol) f.curCluster c s hn hc hg hch hcur
      (by rw [← hk]; congr 1; omega)
    refine ⟨s', ?_, hro⟩
    rw [hw, ← Nat.add_mul]
    congr 5
    omega

/-- `find_data_on_disk` for an offset inside the chain of a consistent file: the cursor moves to
the cluster holding the offset, the located block is block `(desired % cb) / 512` of that cluster,
the offset in the block is `desired % 512` — whether the old cursor was before, at or after the
wanted cluster.  Nothing but the cache and the read bookkeeping changes. -/
theorem find_on_chain (f : FileInfo) (cs : List Nat) (s : FS) (desired c : Nat)
    (hn : NoFault s) (hc : Coherent s) (hg : WFGeom s.vol) (hok : FileOK s.vol s.dev.disk f cs)
    (hk : cs[desired / clusterBytesLen s.vol]? = some c) :
    ∃ s', findDataOnDisk f.entry.cluster desired (f.curClusterOff, f.curCluster) s =
        (.ok ((desired / clusterBytesLen s.vol * clusterBytesLen s.vol, c),
          .ok (clusterToBlock s.vol c + desired % clusterBytesLen s.vol / 512, desired % 512, 512 - desired % 512)), s') ∧
      RO s s' := by
  have hcb : 0 < clusterBytesLen s.vol := Nat.mul_pos hg.bpc_pos (by omega)
  obtain ⟨s1, hw1, hro⟩ := walk_to_offset f cs s desired c hn hc hg hok hk
  obtain ⟨st', r, s', hw, heq, _⟩ := Files.find_data_eq f.entry.cluster desired (f.curClusterOff, f.curCluster) s
    (by rw [bpc_eq]; omega)
  rw [bpc_eq, hw1] at hw
  simp only [Prod.mk.injEq, Res.ok.injEq] at hw
  obtain ⟨⟨hst, hr⟩, hs⟩ := hw
  subst hst; subst hr; subst hs
  refine ⟨s1, ?_, hro⟩
  rw [heq]
  simp only [Files.located, sub_div_mul]

/-- At the end of the chain (offset = chain capacity) `find_data_on_disk` reports `EndOfFile` and
leaves the cursor on the last cluster — what `write` extends the file from. -/
theorem find_at_chain_end (f : FileInfo) (cs : List Nat) (s : FS) (last : Nat)
    (hn : NoFault s) (hc : Coherent s) (hg : WFGeom s.vol) (hok : FileOK s.vol s.dev.disk f cs)
    (hlast : cs[cs.length - 1]? = some last) :
    ∃ s', findDataOnDisk f.entry.cluster (cs.length * clusterBytesLen s.vol) (f.curClusterOff, f.curCluster) s =
        (.ok (((cs.length - 1) * clusterBytesLen s.vol, last), .err .EndOfFile), s') ∧ RO s s' := by
  have hcb : 0 < clusterBytesLen s.vol := Nat.mul_pos hg.bpc_pos (by omega)
  have hne : cs ≠ [] := by intro h; rw [h] at hlast; simp at hlast
  have hch : Chain s.vol s.dev.disk f.entry.cluster cs := by
    rcases hok.chain with ⟨_, h, _⟩ | h
    · exact absurd h hne
    · exact h
  obtain ⟨k0, hk0, hoff, hcur⟩ : ∃ k, k < cs.length ∧ f.curClusterOff = k * clusterBytesLen s.vol ∧
      cs[k]? = some f.curCluster := by
    rcases hok.cursor with h | h
    · exact absurd h hne
    · exact h
  have hle : k0 * clusterBytesLen s.vol ≤ cs.length * clusterBytesLen s.vol :=
    Nat.mul_le_mul_right _ (by omega)
  have hnlt : ¬ cs.length * clusterBytesLen s.vol < f.curClusterOff := by omega
  obtain ⟨st', r, s', hw, heq, _⟩ := Files.find_data_eq f.entry.cluster (cs.length * clusterBytesLen s.vol)
    (f.curClusterOff, f.curCluster) s (by rw [bpc_eq]; omega)
  have hrs : Files.restart f.entry.cluster (cs.length * clusterBytesLen s.vol) (f.curClusterOff, f.curCluster) =
      (k0 * clusterBytesLen s.vol, f.curCluster) := by
    unfold Files.restart
    show (if _ < f.curClusterOff then _ else _) = _
    rw [if_neg hnlt, hoff]
  rw [bpc_eq, hrs] at hw
  have hnum : (cs.length * clusterBytesLen s.vol - k0 * clusterBytesLen s.vol) / clusterBytesLen s.vol =
      cs.length - k0 := by
    rw [← Nat.sub_mul, Nat.mul_div_cancel _ hcb]
  obtain ⟨s1, hw1, hro⟩ := walk_chain_end (clusterBytesLen s.vol) (cs.length - k0) k0 (k0 * clusterBytesLen s.vol)
    f.curCluster last s hn hc hg hch hcur (by omega) hlast
  simp only [hnum] at hw
  rw [hw1] at hw
  simp only [Prod.mk.injEq, Res.ok.injEq] at hw
  obtain ⟨⟨hst, hr⟩, hs⟩ := hw
  subst hst; subst hr; subst hs
  refine ⟨s1, ?_, hro⟩
  rw [heq]
  simp only [Files.located, Prod.mk.injEq, Res.ok.injEq, and_true]
  rw [← Nat.add_mul]; congr 1; omega

theorem find_on_chain_kept (f : FileInfo) (cs : List Nat) (s : FS) (desired c : Nat)
    (hn : NoFault s) (hc : Coherent s) (hg : WFGeom s.vol) (hok : FileOK s.vol s.dev.disk f cs)
    (hk : cs[desired / clusterBytesLen s.vol]? = some c) :
    ∃ s', findDataOnDisk f.entry.cluster desired (f.curClusterOff, f.curCluster) s =
        (.ok ((desired / clusterBytesLen s.vol * clusterBytesLen s.vol, c),
          .ok (clusterToBlock s.vol c + desired % clusterBytesLen s.vol / 512, desired % 512, 512 - desired % 512)), s') ∧
      Kept s s' := by
  obtain ⟨s', h, hro⟩ := find_on_chain f cs s desired c hn hc hg hok hk
  exact ⟨s', h, ro_kept hro hn hc⟩

theorem find_at_chain_end_kept (f : FileInfo) (cs : List Nat) (s : FS) (last : Nat)
    (hn : NoFault s) (hc : Coherent s) (hg : WFGeom s.vol) (hok : FileOK s.vol s.dev.disk f cs)
    (hlast : cs[cs.length - 1]? = some last) :
    ∃ s', findDataOnDisk f.entry.cluster (cs.length * clusterBytesLen s.vol) (f.curClusterOff, f.curCluster) s =
        (.ok (((cs.length - 1) * clusterBytesLen s.vol, last), .err .EndOfFile), s') ∧ Kept s s' := by
  obtain ⟨s', h, hro⟩ := find_at_chain_end f cs s last hn hc hg hok hlast
  exact ⟨s', h, ro_kept hro hn hc⟩

/-! ### The manager level -/

/-- The state a FAT-level call on volume record `v` starts from. -/
def fsOf (s : Mgr) (v : VolInfo) : FS := { dev := s.dev, cache := s.cache, vol := v.vol }

/-- No device fault scheduled, the cache holds what the medium holds, every block has 512 bytes,
and no directory-iteration callback is running. -/
def MgrOK (s : Mgr) : Prop :=
  s.dev.faults = [] ∧ (∀ i, s.cache.tag = some i → s.cache.blk = s.dev.disk.get i) ∧
  (∀ i, (s.dev.disk.get i).length = 512) ∧ s.locked = false

theorem list_set_self {α : Type} (l : List α) (i : Nat) (a : α) (h : l[i]? = some a) : l.set i a = l := by
  apply List.ext_getElem?
  intro j
  rw [List.getElem?_set]
  split
  · next hij =>
    subst hij
    obtain ⟨hi, he⟩ := List.getElem?_eq_some_iff.1 h
    simp [hi, he]
  · rfl

theorem modify_modify_eq_set {α : Type} (l : List α) (i : Nat) (g1 g2 : α → α) (a : α) (h : l[i]? = some a) :
    (l.modify i g1).modify i g2 = l.set i (g2 (g1 a)) := by
  apply List.ext_getElem?
  intro j
  simp only [List.getElem?_modify, List.getElem?_set]
  by_cases hij : i = j
  · subst hij
    obtain ⟨hi, he⟩ := List.getElem?_eq_some_iff.1 h
    simp [hi, he]
  · simp [hij]

/-- A read-only FAT-level call run on an open volume changes only device bookkeeping and cache. -/
theorem withVol_ro {α : Type} (vi : Nat) (m : F α) (s : Mgr) (v : VolInfo) (hv : s.vols[vi]? = some v)
    (hro : RO (fsOf s v) (m (fsOf s v)).2) :
    withVol vi m s = ((m (fsOf s v)).1, { s with dev := (m (fsOf s v)).2.dev, cache := (m (fsOf s v)).2.cache }) := by
  unfold withVol
  rw [hv]
  show ((m (fsOf s v)).1, { s with
    dev := (m (fsOf s v)).2.dev, cache := (m (fsOf s v)).2.cache,
    vols := s.vols.set vi { v with vol := (m (fsOf s v)).2.vol } }) = _
  rw [hro.vol]
  show (_, { s with dev := _, cache := _, vols := s.vols.set vi v }) = _
  rw [list_set_self _ _ _ hv]

/-- The fields of an open-file record a read never touches. -/
structure SameFile (f f' : FileInfo) : Prop where
  rawFile : f'.rawFile = f.rawFile
  rawVolume : f'.rawVolume = f.rawVolume
  mode : f'.mode = f.mode
  entry : f'.entry = f.entry
  dirty : f'.dirty = f.dirty

theorem SameFile.refl (f : FileInfo) : SameFile f f := ⟨rfl, rfl, rfl, rfl, rfl⟩
theorem SameFile.trans {a b c : FileInfo} (h1 : SameFile a b) (h2 : SameFile b c) : SameFile a c :=
  ⟨h2.rawFile.trans h1.rawFile, h2.rawVolume.trans h1.rawVolume, h2.mode.trans h1.mode,
   h2.entry.trans h1.entry, h2.dirty.trans h1.dirty⟩

theorem SameFile.eq {f f' : FileInfo} (h : SameFile f f') :
    f' = { f with currentOffset := f'.currentOffset, curClusterOff := f'.curClusterOff, curCluster := f'.curCluster } := by
  obtain ⟨h1, h2, h3, h4, h5⟩ := h
  cases f; cases f'
  simp only at h1 h2 h3 h4 h5
  subst h1; subst h2; subst h3; subst h4; subst h5
  rfl

/-- What a read may change in the manager: device bookkeeping, cache, and slot `i` of the file
table (which becomes `f'`). -/
structure Step (s s' : Mgr) (i : Nat) (f' : FileInfo) : Prop where
  eq : s' = { s with dev := s'.dev, cache := s'.cache, files := s.files.set i f' }
  disk : s'.dev.disk = s.dev.disk
  wlog : s'.dev.wlog = s.dev.wlog

theorem Step.refl (s : Mgr) (i : Nat) (f : FileInfo) (hf : s.files[i]? = some f) : Step s s i f :=
  ⟨by rw [list_set_self _ _ _ hf], rfl, rfl⟩

theorem Step.trans {a b c : Mgr} {i : Nat} {f1 f2 : FileInfo} (h1 : Step a b i f1) (h2 : Step b c i f2) :
    Step a c i f2 := by
  refine ⟨?_, h2.disk.trans h1.disk, h2.wlog.trans h1.wlog⟩
  have hb : b.files = a.files.set i f1 := by rw [h1.eq]
  have e1 := h1.eq
  have e2 := h2.eq
  rw [hb, List.set_set] at e2
  rw [e2, e1]

theorem Step.files {s s' : Mgr} {i : Nat} {f' : FileInfo} (h : Step s s' i f') : s'.files = s.files.set i f' := by
  rw [h.eq]

theorem Step.get {s s' : Mgr} {i : Nat} {f f' : FileInfo} (h : Step s s' i f') (hf : s.files[i]? = some f) :
    s'.files[i]? = some f' := by
  rw [h.files, List.getElem?_set_self (List.getElem?_eq_some_iff.1 hf).1]

theorem Step.vols {s s' : Mgr} {i : Nat} {f' : FileInfo} (h : Step s s' i f') : s'.vols = s.vols := by
  rw [h.eq]

/-- One iteration of the loop of `read` on a consistent file that is not at its end: `t ≥ 1` bytes
of the byte-array contents at the current offset are appended, the offset advances by `t`, and the
invariant holds again. -/
theorem readLoop_iter (i vi so fuel space : Nat) (acc : Bytes) (s : Mgr) (f : FileInfo) (v : VolInfo) (cs : List Nat)
    (hs : MgrOK s) (hf : s.files[i]? = some f) (hv : s.vols[vi]? = some v) (hg : WFGeom v.vol)
    (hok : FileOK v.vol s.dev.disk f cs) (hspace : space ≠ 0) (heof : f.eof = false) :
    ∃ s2 f2 t, readLoop i vi so (fuel + 1) space acc s =
        readLoop i vi so fuel (space - t)
          (acc ++ ((fileContent v.vol s.dev.disk cs f.entry.size).drop f.currentOffset).take t) s2 ∧
      0 < t ∧ t ≤ space ∧ f.currentOffset + t ≤ f.entry.size ∧
      f2.currentOffset = f.currentOffset + t ∧ SameFile f f2 ∧
      Step s s2 i f2 ∧ MgrOK s2 ∧ FileOK v.vol s2.dev.disk f2 cs := by
  obtain ⟨hnf, hcoh, hblk, hunl⟩ := hs
  have hcb : 0 < clusterBytesLen v.vol := Nat.mul_pos hg.bpc_pos (by omega)
  have hne : f.currentOffset ≠ f.entry.size := by
    unfold FileInfo.eof at heof; simpa using heof
  have hlt : f.currentOffset < f.entry.size := Nat.lt_of_le_of_ne hok.pos_le hne
  have hklt : f.currentOffset / clusterBytesLen v.vol < cs.length :=
    (Nat.div_lt_iff_lt_mul hcb).2 (Nat.lt_of_lt_of_le hlt hok.size_fits)
  obtain ⟨c, hk⟩ : ∃ c, cs[f.currentOffset / clusterBytesLen v.vol]? = some c :=
    ⟨_, List.getElem?_eq_getElem hklt⟩
  -- locate
  have hn0 : NoFault (fsOf s v) := hnf
  have hc0 : Coherent (fsOf s v) := hcoh
  obtain ⟨fs1, hfind, hro1⟩ := find_on_chain f cs (fsOf s v) f.currentOffset c hn0 hc0 hg hok hk
  have hfindM := withVol_ro vi (findDataOnDisk f.entry.cluster f.currentOffset (f.curClusterOff, f.curCluster)) s v hv
    (by rw [hfind]; exact hro1)
  rw [hfind] at hfindM
  -- read the block
  let s1' : Mgr := { s with
    dev := fs1.dev, cache := fs1.cache,
    files := s.files.modify i fun g => { g with
      curClusterOff := f.currentOffset / clusterBytesLen v.vol * clusterBytesLen v.vol, curCluster := c } }
  have hn1 : NoFault (fsOf s1' v) := hro1.noFault hn0
  have hc1 : Coherent (fsOf s1' v) := hro1.coherent hc0
  have hv1 : s1'.vols[vi]? = some v := hv
  let b := clusterToBlock v.vol c + f.currentOffset % clusterBytesLen v.vol / 512
  have hrd : (do cacheRead b; cacheBlk : F Block) (fsOf s1' v) = (.ok (s.dev.disk.get b), afterRead b (fsOf s1' v)) := by
    show (cacheRead b >>= fun _ => cacheBlk) (fsOf s1' v) = _
    simp only [bind_apply, cacheRead_eq' _ _ hn1 hc1, cacheBlk_apply, afterRead_blk]
    show (Res.ok (fs1.dev.disk.get b), _) = _
    rw [hro1.disk]; rfl
  have hreadM := withVol_ro vi (do cacheRead b; cacheBlk : F Block) s1' v hv1 (by rw [hrd]; exact ro_afterRead _ _)
  rw [hrd] at hreadM
  -- the iteration
  have hpos := Files.read_to_copy_pos f space f.currentOffset hok.pos_le hspace heof
  have hbounds := Files.read_to_copy_bounds (512 - f.currentOffset % 512) space f.left
  have hiter := Files.read_copies_slice i vi so fuel space acc (s.dev.disk.get b) f
    (f.currentOffset / clusterBytesLen v.vol * clusterBytesLen v.vol, c) b (f.currentOffset % 512)
    (512 - f.currentOffset % 512) s _ _ (MHoare.getFile_ok hf) hspace heof hfindM hreadM hpos
  generalize ht : min (min (512 - f.currentOffset % 512) space) f.left = t at hiter hpos hbounds
  have hleft : t ≤ f.entry.size - f.currentOffset := hbounds.2.1
  let f2 : FileInfo := { f with
    curClusterOff := f.currentOffset / clusterBytesLen v.vol * clusterBytesLen v.vol, curCluster := c,
    currentOffset := f.currentOffset + t }
  let s2 : Mgr := { s with
    dev := (afterRead b (fsOf s1' v)).dev, cache := (afterRead b (fsOf s1' v)).cache,
    files := s.files.set i f2 }
  have hfiles := modify_modify_eq_set s.files i
    (fun g => { g with curClusterOff := f.currentOffset / clusterBytesLen v.vol * clusterBytesLen v.vol, curCluster := c })
    (fun g => { g with currentOffset := g.currentOffset + t }) f hf
  have hdisk2 : s2.dev.disk = s.dev.disk := hro1.disk
  refine ⟨s2, f2, t, ?_, Nat.pos_of_ne_zero hpos, hbounds.1, by omega, rfl, ⟨rfl, rfl, rfl, rfl, rfl⟩,
    ⟨rfl, hdisk2, hro1.wlog⟩, ⟨?_, ?_, ?_, hunl⟩, ?_⟩
  · rw [hiter]
    have hsl : slice (s.dev.disk.get b) (f.currentOffset % 512) t =
        ((fileContent v.vol s.dev.disk cs f.entry.size).drop f.currentOffset).take t := by
      unfold fileContent
      rw [take_drop_take _ _ _ _ (by omega)]
      exact chain_slice v.vol s.dev.disk cs f.currentOffset t c hblk hg.bpc_pos hk hbounds.2.2
    rw [hsl]
    congr 1
    show ({ s with dev := _, cache := _, files := (s.files.modify i _).modify i _ } : Mgr) = _
    rw [hfiles]
  · exact hro1.faults.trans hnf
  · exact afterRead_coherent b (fsOf s1' v)
  · intro j; rw [hdisk2]; exact hblk j
  · rw [hdisk2]
    exact ⟨hok.chain, hok.size_fits, by show f.currentOffset + t ≤ f.entry.size; omega,
      .inr ⟨_, hklt, rfl, hk⟩⟩

/-- The loop of `read` against the byte-array model: started with room for `space` bytes on a
consistent file, it returns the accumulated bytes followed by the `space` bytes (or as many as
there are) of the byte-array contents at the current offset, advances the offset by that many, and
changes nothing else.  Fuel `> space` suffices: every iteration copies at least one byte. -/
theorem readLoop_refines (i vi so : Nat) (v : VolInfo) (cs : List Nat) (hg : WFGeom v.vol) :
    ∀ (fuel space : Nat) (acc : Bytes) (s : Mgr) (f : FileInfo), space < fuel → MgrOK s →
      s.files[i]? = some f → s.vols[vi]? = some v → FileOK v.vol s.dev.disk f cs →
      ∃ s' f', readLoop i vi so fuel space acc s =
          (.ok (acc ++ ((fileContent v.vol s.dev.disk cs f.entry.size).drop f.currentOffset).take space), s') ∧
        f'.currentOffset = f.currentOffset + min space (f.entry.size - f.currentOffset) ∧ SameFile f f' ∧
        Step s s' i f' ∧ MgrOK s' ∧ FileOK v.vol s'.dev.disk f' cs := by
  intro fuel
  induction fuel with
  | zero => intro space acc s f h; omega
  | succ fuel ih =>
    intro space acc s f hfuel hs hf hv hok
    by_cases hstop : space = 0 ∨ f.eof = true
    · refine ⟨s, f, ?_, ?_, SameFile.refl f, Step.refl s i f hf, hs, hok⟩
      · rw [readLoop]
        simp only [bind, M.bind', MHoare.getFile_ok hf, hstop, if_true, pure, M.pure']
        congr 2
        rcases hstop with h0 | he
        · rw [h0, List.take_zero, List.append_nil]
        · have : f.currentOffset = f.entry.size := by unfold FileInfo.eof at he; simpa using he
          rw [this, List.drop_eq_nil_of_le, List.take_nil, List.append_nil]
          unfold fileContent
          rw [List.length_take]; omega
      · rcases hstop with h0 | he
        · omega
        · have : f.currentOffset = f.entry.size := by unfold FileInfo.eof at he; simpa using he
          omega
    · have hspace : space ≠ 0 := fun h => hstop (.inl h)
      have heof : f.eof = false := by
        cases h : f.eof
        · rfl
        · exact absurd (.inr h) hstop
      obtain ⟨s2, f2, t, hiter, htpos, htle, htsize, hoff2, hsame2, hstep2, hs2, hok2⟩ :=
        readLoop_iter i vi so fuel space acc s f v cs hs hf hv hg hok hspace heof
      obtain ⟨s', f', hrun, hoff', hsame', hstep', hs', hok'⟩ :=
        ih (space - t) (acc ++ ((fileContent v.vol s.dev.disk cs f.entry.size).drop f.currentOffset).take t)
          s2 f2 (by omega) hs2 (hstep2.get hf) (by rw [hstep2.vols]; exact hv) hok2
      refine ⟨s', f', ?_, ?_, hsame2.trans hsame', hstep2.trans hstep', hs', ?_⟩
      · rw [hiter, hrun, hstep2.disk, hsame2.entry, hoff2, List.append_assoc, ← List.drop_drop,
          take_split _ t space htle]
      · rw [hoff', hoff2, hsame2.entry]; omega
      · rw [(hstep2.trans hstep').disk]
        rw [hstep'.disk, hstep2.disk] at hok'
        exact hok'

/-! ### `read` -/

/-- With the handle and its volume found, `read` is its loop. -/
theorem read_run (s : Mgr) (h n i vi : Nat) (f : FileInfo)
    (hh : s.files.findIdx? (·.rawFile = h) = some i) (hf : s.files[i]? = some f)
    (hv : s.vols.findIdx? (·.rawVolume = f.rawVolume) = some vi) :
    Model.read h n s = readLoop i vi f.currentOffset (n + 1) n [] s := by
  unfold Model.read
  rw [MHoare.bind_ok (MHoare.getFileById_ok hh), MHoare.bind_ok (MHoare.getFile_ok hf),
    MHoare.bind_ok (MHoare.getVolumeById_ok hv)]

theorem absFile_read_fst (v : FatVolume) (d : Disk) (f : FileInfo) (cs : List Nat) (n : Nat) :
    ((absFile v d f cs).read n).1 = ((fileContent v d cs f.entry.size).drop f.currentOffset).take n := rfl

theorem absFile_read_pos (v : FatVolume) (d : Disk) (f : FileInfo) (cs : List Nat) (n : Nat) (hb : BlocksOK d)
    (hok : FileOK v d f cs) :
    ((absFile v d f cs).read n).2.pos = f.currentOffset + min n (f.entry.size - f.currentOffset) := by
  show f.currentOffset + (((fileContent v d cs f.entry.size).drop f.currentOffset).take n).length = _
  rw [List.length_take, List.length_drop, fileContent_length v d cs _ hb hok.size_fits]

/-- The main theorem in the form used by `Props/C01Read.lean`. -/
theorem read_refines (s : Mgr) (h n i vi : Nat) (f : FileInfo) (v : VolInfo) (cs : List Nat)
    (hs : MgrOK s)
    (hh : s.files.findIdx? (·.rawFile = h) = some i) (hf : s.files[i]? = some f)
    (hv : s.vols.findIdx? (·.rawVolume = f.rawVolume) = some vi) (hvi : s.vols[vi]? = some v)
    (hg : WFGeom v.vol) (hok : FileOK v.vol s.dev.disk f cs) :
    ∃ s' f', Model.read h n s = (.ok ((absFile v.vol s.dev.disk f cs).read n).1, s') ∧
      s'.dev.disk = s.dev.disk ∧ s'.dev.wlog = s.dev.wlog ∧
      s' = { s with dev := s'.dev, cache := s'.cache, files := s.files.set i f' } ∧
      f' = { f with currentOffset := ((absFile v.vol s.dev.disk f cs).read n).2.pos,
                    curClusterOff := f'.curClusterOff, curCluster := f'.curCluster } ∧
      absFile v.vol s'.dev.disk f' cs = ((absFile v.vol s.dev.disk f cs).read n).2 ∧
      FileOK v.vol s'.dev.disk f' cs ∧ MgrOK s' := by
  obtain ⟨s', f', hrun, hoff, hsame, hstep, hs', hok'⟩ :=
    readLoop_refines i vi f.currentOffset v cs hg (n + 1) n [] s f (by omega) hs hf hvi hok
  have hpos := absFile_read_pos v.vol s.dev.disk f cs n hs.2.2.1 hok
  refine ⟨s', f', ?_, hstep.disk, hstep.wlog, hstep.eq, ?_, ?_, hok', hs'⟩
  · rw [read_run s h n i vi f hh hf hv, hrun, List.nil_append]; rfl
  · have := hsame.eq
    rw [hoff, ← hpos] at this
    exact this
  · show ({ bytes := fileContent v.vol s'.dev.disk cs f'.entry.size, pos := f'.currentOffset } : ByteFile) =
      { bytes := fileContent v.vol s.dev.disk cs f.entry.size, pos := ((absFile v.vol s.dev.disk f cs).read n).2.pos }
    rw [hstep.disk, hsame.entry, hoff, hpos]

/-- At the end of the file `read` returns no bytes and changes nothing at all. -/
theorem read_at_eof (s : Mgr) (h n i vi : Nat) (f : FileInfo)
    (hh : s.files.findIdx? (·.rawFile = h) = some i) (hf : s.files[i]? = some f)
    (hv : s.vols.findIdx? (·.rawVolume = f.rawVolume) = some vi) (he : f.currentOffset = f.entry.size) :
    Model.read h n s = (.ok [], s) := by
  have : f.eof = true := by unfold FileInfo.eof; simp [he]
  rw [read_run s h n i vi f hh hf hv, readLoop]
  simp only [bind, M.bind', MHoare.getFile_ok hf, this, or_true, if_true, pure, M.pure']

/-- Two reads in a row are one read of the total, in the byte-array model. -/
theorem byteFile_read_add (bf : ByteFile) (a b : Nat) :
    (bf.read (a + b)).1 = (bf.read a).1 ++ ((bf.read a).2.read b).1 ∧
    (bf.read (a + b)).2 = ((bf.read a).2.read b).2 := by
  have hlen : ((bf.bytes.drop bf.pos).take a).length = min a (bf.bytes.length - bf.pos) := by
    rw [List.length_take, List.length_drop]
  have hdrop : bf.bytes.drop (bf.pos + min a (bf.bytes.length - bf.pos)) = (bf.bytes.drop bf.pos).drop a := by
    rw [List.drop_drop]
    by_cases h : a ≤ bf.bytes.length - bf.pos
    · rw [Nat.min_eq_left h]
    · rw [List.drop_eq_nil_of_le (by omega), List.drop_eq_nil_of_le (by omega)]
  have h1 : (bf.read (a + b)).1 = (bf.read a).1 ++ ((bf.read a).2.read b).1 := by
    show (bf.bytes.drop bf.pos).take (a + b) =
      (bf.bytes.drop bf.pos).take a ++ (bf.bytes.drop (bf.pos + ((bf.bytes.drop bf.pos).take a).length)).take b
    rw [hlen, hdrop, List.take_add]
  refine ⟨h1, ?_⟩
  show ({ bytes := bf.bytes, pos := bf.pos + (bf.read (a + b)).1.length } : ByteFile) =
    { bytes := bf.bytes, pos := bf.pos + (bf.read a).1.length + ((bf.read a).2.read b).1.length }
  rw [h1, List.length_append, Nat.add_assoc]

theorem findIdx?_set_same {α : Type} (p : α → Bool) : ∀ (l : List α) (i : Nat) (a a' : α),
    l[i]? = some a → p a' = p a → (l.set i a').findIdx? p = l.findIdx? p
  | [], _, _, _, h, _ => by simp at h
  | x :: l, 0, a, a', h, hp => by
    simp only [List.getElem?_cons_zero, Option.some.injEq] at h
    subst h
    rw [List.set_cons_zero, List.findIdx?_cons, List.findIdx?_cons, hp]
  | x :: l, i + 1, a, a', h, hp => by
    simp only [List.getElem?_cons_succ] at h
    rw [List.set_cons_succ, List.findIdx?_cons, List.findIdx?_cons, findIdx?_set_same p l i a a' h hp]

/-- Two consecutive reads of `a` and `b` bytes return what one read of `a + b` bytes returns, and
leave the file (as a byte array with a position) and the medium in the same condition. -/
theorem read_twice (s : Mgr) (h a b i vi : Nat) (f : FileInfo) (v : VolInfo) (cs : List Nat)
    (hs : MgrOK s)
    (hh : s.files.findIdx? (·.rawFile = h) = some i) (hf : s.files[i]? = some f)
    (hv : s.vols.findIdx? (·.rawVolume = f.rawVolume) = some vi) (hvi : s.vols[vi]? = some v)
    (hg : WFGeom v.vol) (hok : FileOK v.vol s.dev.disk f cs) :
    ∃ o1 s1 o2 s2 s12 f2 f12, Model.read h a s = (.ok o1, s1) ∧ Model.read h b s1 = (.ok o2, s2) ∧
      Model.read h (a + b) s = (.ok (o1 ++ o2), s12) ∧
      s2.dev.disk = s12.dev.disk ∧ s2.files[i]? = some f2 ∧ s12.files[i]? = some f12 ∧
      absFile v.vol s2.dev.disk f2 cs = absFile v.vol s12.dev.disk f12 cs := by
  obtain ⟨s1, f1, hr1, hd1, _, he1, hf1, ha1, hok1, hs1⟩ := read_refines s h a i vi f v cs hs hh hf hv hvi hg hok
  have hi : i < s.files.length := (List.getElem?_eq_some_iff.1 hf).1
  have hfiles1 : s1.files = s.files.set i f1 := by rw [he1]
  have hvols1 : s1.vols = s.vols := by rw [he1]
  have hraw1 : f1.rawFile = f.rawFile := by rw [hf1]
  have hrv1 : f1.rawVolume = f.rawVolume := by rw [hf1]
  have hh1 : s1.files.findIdx? (·.rawFile = h) = some i := by
    rw [hfiles1, findIdx?_set_same _ s.files i f f1 hf (by simp only [hraw1])]; exact hh
  have hf1' : s1.files[i]? = some f1 := by rw [hfiles1, List.getElem?_set_self hi]
  obtain ⟨s2, f2, hr2, hd2, _, he2, _, ha2, _, _⟩ := read_refines s1 h b i vi f1 v cs hs1 hh1 hf1'
    (by rw [hvols1, hrv1]; exact hv) (by rw [hvols1]; exact hvi) hg hok1
  obtain ⟨s12, f12, hr12, hd12, _, he12, _, ha12, _, _⟩ := read_refines s h (a + b) i vi f v cs hs hh hf hv hvi hg hok
  obtain ⟨hadd1, hadd2⟩ := byteFile_read_add (absFile v.vol s.dev.disk f cs) a b
  have hi1 : i < s1.files.length := by rw [hfiles1, List.length_set]; exact hi
  refine ⟨_, s1, _, s2, s12, f2, f12, hr1, hr2, ?_, by rw [hd2, hd1, hd12], ?_, ?_, ?_⟩
  · rw [hr12, hadd1, ha1]
  · rw [he2]; exact List.getElem?_set_self hi1
  · rw [he12]; exact List.getElem?_set_self hi
  · rw [ha2, ha12, hadd2, ha1]

/-- Length, offset and end-of-file flag reported by the API are those of the byte-array model. -/
theorem observers_refine (s : Mgr) (h i : Nat) (f : FileInfo) (v : FatVolume) (cs : List Nat)
    (hh : s.files.findIdx? (·.rawFile = h) = some i) (hf : s.files[i]? = some f)
    (hb : BlocksOK s.dev.disk) (hok : FileOK v s.dev.disk f cs) :
    fileLength h s = (.ok (absFile v s.dev.disk f cs).length, s) ∧
    fileOffset h s = (.ok (absFile v s.dev.disk f cs).pos, s) ∧
    fileEof h s = (.ok (absFile v s.dev.disk f cs).eof, s) := by
  obtain ⟨h1, h2, h3⟩ := Files.file_observers_spec h i f s (MHoare.getFileById_ok hh) (MHoare.getFile_ok hf)
  have hl : (absFile v s.dev.disk f cs).length = f.entry.size := fileContent_length v s.dev.disk cs _ hb hok.size_fits
  refine ⟨by rw [h1, hl], h2, ?_⟩
  rw [h3]
  show _ = (Res.ok (decide (f.currentOffset = (absFile v s.dev.disk f cs).length)), s)
  rw [hl]

/-- A read leaves every other open file exactly as it was: same record, same byte-array view,
same consistency with the medium; and the volume table is untouched. -/
theorem read_other_files_untouched (s : Mgr) (h n i vi : Nat) (f : FileInfo) (v : VolInfo) (cs : List Nat)
    (hs : MgrOK s)
    (hh : s.files.findIdx? (·.rawFile = h) = some i) (hf : s.files[i]? = some f)
    (hv : s.vols.findIdx? (·.rawVolume = f.rawVolume) = some vi) (hvi : s.vols[vi]? = some v)
    (hg : WFGeom v.vol) (hok : FileOK v.vol s.dev.disk f cs)
    (j : Nat) (hj : j ≠ i) (g : FileInfo) (hgj : s.files[j]? = some g) (vg : FatVolume) (cs' : List Nat) :
    (Model.read h n s).2.vols = s.vols ∧ (Model.read h n s).2.files[j]? = some g ∧
    absFile vg (Model.read h n s).2.dev.disk g cs' = absFile vg s.dev.disk g cs' ∧
    (FileOK vg s.dev.disk g cs' → FileOK vg (Model.read h n s).2.dev.disk g cs') := by
  obtain ⟨s', f', hr, hd, _, he, _, _, _, _⟩ := read_refines s h n i vi f v cs hs hh hf hv hvi hg hok
  rw [hr]
  refine ⟨by rw [he], ?_, by rw [hd], fun hk => by rw [hd]; exact hk⟩
  show s'.files[j]? = some g
  have : s'.files = s.files.set i f' := by rw [he]
  rw [this, List.getElem?_set_ne (Ne.symm hj)]; exact hgj

/-! ### Through `step`: what the user of the API sees -/

theorem mgrOK_resetLogs (s : Mgr) (hs : MgrOK s) : MgrOK (MHoare.resetLogs s) := hs

/-- One `read` call through the transition function: the payload is what the byte-array model
returns, and the call performs no device write. -/
theorem read_step_refines (s : Mgr) (h n i vi : Nat) (f : FileInfo) (v : VolInfo) (cs : List Nat)
    (hs : MgrOK s)
    (hh : s.files.findIdx? (·.rawFile = h) = some i) (hf : s.files[i]? = some f)
    (hv : s.vols.findIdx? (·.rawVolume = f.rawVolume) = some vi) (hvi : s.vols[vi]? = some v)
    (hg : WFGeom v.vol) (hok : FileOK v.vol s.dev.disk f cs) :
    ∃ payload, (step s (.read h n)).2.result = .ok payload ∧
      payload = .bytes ((absFile v.vol s.dev.disk f cs).read n).1 ∧
      (step s (.read h n)).2.writes = [] ∧ (step s (.read h n)).1.dev.disk = s.dev.disk := by
  obtain ⟨s', f', hr, hd, hw, _⟩ := read_refines (MHoare.resetLogs s) h n i vi f v cs (mgrOK_resetLogs s hs)
    hh hf hv hvi hg hok
  have hrun : runOp (.read h n) (MHoare.resetLogs s) =
      (.ok (.bytes ((absFile v.vol s.dev.disk f cs).read n).1), s') := by
    show (Model.read h n >>= fun b => pure (Payload.bytes b)) (MHoare.resetLogs s) = _
    rw [MHoare.bind_ok hr]; rfl
  rw [MHoare.step_unlocked s _ hs.2.2.2, hrun]
  refine ⟨_, rfl, rfl, ?_, hd⟩
  show s'.dev.wlog.reverse = []
  rw [hw]; rfl

end Sdmmc.Lemmas.ReadRefines
