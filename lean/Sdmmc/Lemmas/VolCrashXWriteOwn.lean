/-
C10 strengthened (`Props/C10InvX.lean`), `write`: at EVERY crash point of the call the medium has an EXACT record
(`PW`): the record of the call with the chain of the written file extended (`withChain A csk B`, `cs0 <+: csk`)
together with lost chains `Y` (the cluster an interrupted allocation has marked but not linked yet).

`VolCrashWriteFat.lean` restated: the induction of `CrashWriteLoop.writeLoop_crash` / `CrashWriteCall.write_crash` once
more, with the predicate `PW`: every iteration of the loop is `locate` (read-only, or ONE `allocCluster (some last)
false` — `alloc_pw`, from the three stages of `CrashAlloc.alloc_crash`) followed by one data-block write between two
media with an exact record.

* `alloc_pw` — a successful allocation between two media with exact records `withChain A cs B`, `withChain A cs' B`;
* `locate_pw`, `writeLoop_pw`, `writeRest_pw` — the pieces of the call;
* `write_pw` — the call, under the hypotheses of `CrashWriteCall.write_crash`.
-/
import Sdmmc.Lemmas.VolCrashStep
import Sdmmc.Lemmas.CrashWriteCall
import Sdmmc.Lemmas.VolCrashWriteFat
import Sdmmc.Lemmas.VolCrashXStep

namespace Sdmmc.Lemmas.VolCrashX
open Sdmmc.Lemmas.VolCrash
open Sdmmc.Model Sdmmc.Model.Fat Sdmmc.Spec
open Sdmmc.Lemmas.FBasic hiding NoFault Coherent
open Sdmmc.Lemmas.FatOps hiding BlocksOK Mirror HintOK
open Sdmmc.Lemmas.ChainL Sdmmc.Lemmas.ForestBase Sdmmc.Lemmas.ForestOwns Sdmmc.Lemmas.ReadRefines
open Sdmmc.Lemmas.WriteRefines Sdmmc.Lemmas.CrashBase Sdmmc.Lemmas.CrashMgr Sdmmc.Lemmas.CrashStep

/-! ### The predicate -/

/-- The medium has an exact record: the record of the call with the chain of the written file extended from `cs0`,
together with lost chains `Y`. -/
def PW (A B : List (List Nat)) (cs0 : List Nat) (v : FatVolume) (d : Disk) : Prop :=
  ∃ csk Y, cs0 <+: csk ∧ Owns v d (withChain A csk B ++ Y)

theorem PW.of_owns {A B : List (List Nat)} {cs0 cs : List Nat} {v : FatVolume} {d : Disk} (hp : cs0 <+: cs)
    (h : Owns v d (withChain A cs B)) : PW A B cs0 v d :=
  ⟨cs, [], hp, by rw [List.append_nil]; exact h⟩

theorem PW.sameGeom {A B : List (List Nat)} {cs0 : List Nat} {v v' : FatVolume} {d : Disk} (hs : SameGeom v v')
    (h : PW A B cs0 v d) : PW A B cs0 v' d := by
  obtain ⟨csk, Y, hp, hO⟩ := h
  exact ⟨csk, Y, hp, owns_sameGeom hs hO⟩

/-! ### One allocation -/

/-- A successful allocation between two media with exact records `withChain A cs B` and `withChain A cs' B`
(`cs0 <+: cs <+: cs'`): every crash point has an exact record — the one before (the new cluster still free), the one
before with the new cluster as a lost chain (marked, not linked yet), or the one after. -/
theorem alloc_pw (s s' : FS) (prev : Option Nat) (zero : Bool) (c : Nat) (hn : NoFault s) (hc : Coherent s)
    (hb : BlocksOK s.dev.disk) (hg : WFGeom s.vol) (hh : HintOK s.vol)
    (hp : ∀ p, prev = some p → p < endCluster s.vol)
    (h : allocCluster prev zero s = (.ok c, s'))
    {A B : List (List Nat)} {cs0 cs cs' : List Nat} (hp0 : cs0 <+: cs) (hpp : cs <+: cs')
    (hO0 : Owns s.vol s.dev.disk (withChain A cs B)) (hO1 : Owns s.vol s'.dev.disk (withChain A cs' B)) :
    CrashAll (PW A B cs0 s.vol) s s' := by
  obtain ⟨hc2, hcE, hfree⟩ := alloc_in_range_and_free s s' prev zero c hn hc hh h
  have hcL : c ∉ (withChain A cs B).flatten := fun hx => ((hO0.2.2 c).2 hx).2.1 hfree
  obtain ⟨hcr, _⟩ := CrashAlloc.alloc_crash s s' prev zero c hn hc hb hg hh hp h
  refine hcr.mono fun d hd => ?_
  rcases hd.1 with hA | ⟨hB, heof, _⟩ | ⟨hC, _⟩
  · exact PW.of_owns hp0 (owns_within hO0 hA (fun x hx => by cases hx) (fun x hx => by cases hx))
  · exact ⟨cs, [[c]], hp0, owns_add_eof hO0 hB hcL ⟨hc2, hcE⟩ heof⟩
  · exact PW.of_owns (hp0.trans hpp) (owns_view hO1 hC)

/-! ### The first half of an iteration: locating the block -/

theorem locate_pw (i vi : Nat) (A B : List (List Nat)) (cs0 : List Nat) (s : Mgr) (f : FileInfo) (v : VolInfo)
    (cs : List Nat) (h : WInv i vi A B s f v cs) (hp0 : cs0 <+: cs) : MCrash (PW A B cs0 v.vol) s (locate vi f s).2 := by
  obtain ⟨hnf, hcoh, hblk, hunl⟩ := h.ok
  have hcb := h.cbpos
  have hn0 : NoFault (fsOf s v) := hnf
  have hc0 : Coherent (fsOf s v) := hcoh
  have hg : WFGeom (fsOf s v).vol := h.geom
  have hF0 : PW A B cs0 v.vol s.dev.disk := PW.of_owns hp0 (by rw [withChain_ne h.ne]; exact h.owns)
  have hle : f.currentOffset ≤ cs.length * clusterBytesLen v.vol := Nat.le_trans h.fileOK.pos_le h.fileOK.size_fits
  by_cases hin : f.currentOffset < cs.length * clusterBytesLen v.vol
  · -- inside the chain: read-only
    have hklt : f.currentOffset / clusterBytesLen v.vol < cs.length := (Nat.div_lt_iff_lt_mul hcb).2 hin
    obtain ⟨c, hk⟩ : ∃ c, cs[f.currentOffset / clusterBytesLen v.vol]? = some c := ⟨_, List.getElem?_eq_getElem hklt⟩
    obtain ⟨fs1, hfind, hro1⟩ := find_on_chain f cs (fsOf s v) f.currentOffset c hn0 hc0 hg h.fileOK hk
    simp only [fsOf_vol] at hfind
    have hfindM := withVol_ro vi (findDataOnDisk f.entry.cluster f.currentOffset (f.curClusterOff, f.curCluster)) s v h.vol
      (by rw [hfind]; exact hro1)
    rw [hfind] at hfindM
    have hrun : (locate vi f s).2 = { s with dev := fs1.dev, cache := fs1.cache } := by
      show ((M.attempt _ >>= _) s).2 = _
      rw [MHoare.attempt_bind, hfindM]
      rfl
    rw [hrun]
    exact MCrash.same' hro1.wlog hro1.disk hF0
  · -- at the end of the chain
    have hoff : f.currentOffset = cs.length * clusterBytesLen v.vol := by omega
    have hlenpos : 0 < cs.length := List.length_pos_iff.2 h.ne
    obtain ⟨last, hlast⟩ : ∃ last, cs[cs.length - 1]? = some last := ⟨_, List.getElem?_eq_getElem (by omega)⟩
    obtain ⟨fs1, hfind, hro1⟩ := find_at_chain_end f cs (fsOf s v) last hn0 hc0 hg h.fileOK hlast
    simp only [fsOf_vol] at hfind
    rw [← hoff] at hfind
    have hfindM := withVol_ro vi (findDataOnDisk f.entry.cluster f.currentOffset (f.curClusterOff, f.curCluster)) s v h.vol
      (by rw [hfind]; exact hro1)
    rw [hfind] at hfindM
    generalize hs1 : ({ s with dev := fs1.dev, cache := fs1.cache } : Mgr) = s1 at hfindM
    have hfs1 : fsOf s1 v = fs1 := by rw [← hs1]; exact fsOf_ro_eq s v fs1 hro1
    have hv1 : s1.vols[vi]? = some v := by rw [← hs1]; exact h.vol
    have hn1 : NoFault fs1 := hro1.noFault hn0
    have hc1 : Coherent fs1 := hro1.coherent hc0
    have hvol1 : fs1.vol = v.vol := hro1.vol
    have hd1 : fs1.dev.disk = s.dev.disk := hro1.disk
    have hb1 : BlocksOK fs1.dev.disk := by intro j; rw [hd1]; exact hblk j
    have hready : Ready fs1 := ⟨hn1, hc1, hb1, by rw [hvol1]; exact h.geom, by rw [hvol1]; exact h.hint⟩
    have hcs : cs = cs.dropLast ++ [last] := dropLast_append_last cs last hlast
    have hown1 : Owns fs1.vol fs1.dev.disk (A ++ [cs.dropLast ++ [last]] ++ B) := by
      rw [hvol1, hd1, ← hcs]; exact h.owns
    have hallocM := withVol_run vi (allocCluster (some last) false) s1 v hv1
    rw [hfs1] at hallocM
    have c01 : MCrash (PW A B cs0 v.vol) s s1 := by
      rw [← hs1]; exact MCrash.same' hro1.wlog hro1.disk hF0
    rcases alloc_cases fs1 (some last) false hn1 hc1 with ⟨c, fs2, ha⟩ | ⟨fs2, ha, ro2⟩
    · -- a cluster is appended
      obtain ⟨hready2, hown2, hsg, _, _⟩ := ForestStep.owns_extend fs1 fs2 A B cs.dropLast last false c hready hown1 ha
      have hlastm : last ∈ (A ++ [cs.dropLast ++ [last]] ++ B).flatten :=
        (mem_flatten3 _ _ _ last).2 (.inr (.inl (by rw [ForestStep.flatten_one]; exact List.mem_append_right _ (List.mem_singleton.2 rfl))))
      have hlastE : last < endCluster fs1.vol := (ForestStep.owns_mem_used hown1 hlastm).1.2
      have hcr : CrashAll (PW A B cs0 fs1.vol) fs1 fs2 :=
        alloc_pw fs1 fs2 (some last) false c hn1 hc1 hb1 hready.geom hready.hint (fun p hp => by cases hp; exact hlastE) ha
          (cs := cs.dropLast ++ [last]) (cs' := cs.dropLast ++ [last] ++ [c]) (by rw [← hcs]; exact hp0)
          (List.prefix_append _ _)
          (by rw [withChain_ne (by simp)]; exact hown1)
          (by rw [withChain_ne (by simp)]; exact owns_sameGeom hsg.symm hown2)
      rw [ha] at hallocM
      simp only at hallocM
      generalize hv1def : ({ v with vol := fs2.vol } : VolInfo) = v1 at hallocM
      have hv1vol : v1.vol = fs2.vol := by rw [← hv1def]
      generalize hs2 : ({ s1 with dev := fs2.dev, cache := fs2.cache, vols := s1.vols.set vi v1 } : Mgr) = s2 at hallocM
      have hvilt : vi < s.vols.length := (List.getElem?_eq_some_iff.1 h.vol).1
      have hv2 : s2.vols[vi]? = some v1 := by
        rw [← hs2, ← hs1]; exact List.getElem?_set_self hvilt
      have hfs2 : fsOf s2 v1 = fs2 := by
        rw [← hs2]
        show ({ dev := fs2.dev, cache := fs2.cache, vol := v1.vol } : FS) = fs2
        rw [hv1vol]
      -- the second `find_data_on_disk` is read-only
      have hro3 : RO (fsOf s2 v1) (findDataOnDisk f.entry.cluster f.currentOffset ((cs.length - 1) * clusterBytesLen v.vol, last) (fsOf s2 v1)).2 :=
        findDataOnDisk_readOnly _ _ _ _
      have hfind2M := withVol_ro vi (findDataOnDisk f.entry.cluster f.currentOffset
        ((cs.length - 1) * clusterBytesLen v.vol, last)) s2 v1 hv2 hro3
      -- the final state has the device of the state after the second search
      have hfinal : (locate vi f s).2.dev = (findDataOnDisk f.entry.cluster f.currentOffset
          ((cs.length - 1) * clusterBytesLen v.vol, last) (fsOf s2 v1)).2.dev := by
        show ((M.attempt _ >>= _) s).2.dev = _
        rw [MHoare.attempt_bind, hfindM]
        show ((M.attempt _ >>= _) s1).2.dev = _
        rw [MHoare.attempt_bind, hallocM]
        show ((M.attempt _ >>= _) s2).2.dev = _
        rw [MHoare.attempt_bind, hfind2M]
        generalize (findDataOnDisk f.entry.cluster f.currentOffset ((cs.length - 1) * clusterBytesLen v.vol, last) (fsOf s2 v1)) = p
        obtain ⟨r, fs3⟩ := p
        rcases r with ⟨cc2, x⟩ | e | m | _
        · rcases x with x | e | m | _ <;> rfl
        · rfl
        · rfl
        · rfl
      have hdfin : (locate vi f s).2.dev.disk = fs2.dev.disk := by
        rw [hfinal, hro3.disk, hfs2]
      have hwfin : (locate vi f s).2.dev.wlog = fs2.dev.wlog := by
        rw [hfinal, hro3.wlog, hfs2]
      have c12 : MCrash (PW A B cs0 v.vol) s1 s2 := by
        have hdev1 : fs1.dev = s1.dev := by rw [← hfs1]; rfl
        have hdev2 : fs2.dev = s2.dev := by rw [← hs2]
        rw [hvol1] at hcr
        exact MCrash.of_fs hcr hdev1 hdev2
      have c23 : MCrash (PW A B cs0 v.vol) s2 (locate vi f s).2 := by
        have hdev2 : s2.dev = fs2.dev := by rw [← hs2]
        exact MCrash.same' (by rw [hwfin, hdev2]) (by rw [hdfin, hdev2]) c12.final
      exact (c01.trans c12).trans c23
    · -- the volume is full: read-only
      rw [ha] at hallocM
      simp only at hallocM
      have hrun : (locate vi f s).2.dev = fs2.dev := by
        show ((M.attempt _ >>= _) s).2.dev = _
        rw [MHoare.attempt_bind, hfindM]
        show ((M.attempt _ >>= _) s1).2.dev = _
        rw [MHoare.attempt_bind, hallocM]
        rfl
      have hdev1 : s1.dev = fs1.dev := by rw [← hs1]
      exact c01.trans (MCrash.same' (by rw [hrun, ro2.wlog, hdev1]) (by rw [hrun, ro2.disk, hdev1]) c01.final)

/-! ### The loop -/

/-- Every crash point of the loop of `write` has valid FAT entries. -/
theorem writeLoop_pw (i vi : Nat) (A B : List (List Nat)) (cs0 : List Nat) :
    ∀ (fuel : Nat) (buffer : Bytes) (s : Mgr) (f : FileInfo) (v : VolInfo) (cs : List Nat),
      buffer.length < fuel → WInv i vi A B s f v cs → cs0 <+: cs →
      MCrash (PW A B cs0 v.vol) s (writeLoop i vi fuel buffer s).2 := by
  intro fuel
  induction fuel with
  | zero => intro buffer s f v cs hlt; omega
  | succ fuel ih =>
    intro buffer s f v cs hfuel h hp0
    have hF0 : PW A B cs0 v.vol s.dev.disk := PW.of_owns hp0 (by rw [withChain_ne h.ne]; exact h.owns)
    by_cases hne : buffer = []
    · subst hne
      rw [writeLoop_nil i vi _ s]
      exact MCrash.same rfl hF0
    · rw [writeLoop_succ i vi fuel buffer f s hne (MHoare.getFile_ok h.file)]
      have hlc := locate_pw i vi A B cs0 s f v cs h hp0
      rcases locate_spec i vi A B s f v cs h with
        ⟨c, s1, v1, cs1, hloc, h1, hk1, hpre1, hsg1, hvid1, hstep1, hdisk1, hwlog1⟩ | ⟨s1, hloc, h1, hstep1, hd1, hw1, hfull⟩
      · rw [hloc] at hlc
        simp only at hlc
        have hcbeq : clusterBytesLen v1.vol = clusterBytesLen v.vol := sameGeom_clusterBytesLen hsg1
        have hctb : ∀ x, clusterToBlock v1.vol x = clusterToBlock v.vol x := sameGeom_clusterToBlock hsg1
        obtain ⟨s2, hfin, h2, _, htpos⟩ := finish_spec i vi A B s1 f v1 cs1 c buffer h1 (by rw [hcbeq]; exact hk1) hne
          (min (512 - f.currentOffset % 512) buffer.length) rfl
          (f.currentOffset / clusterBytesLen v.vol * clusterBytesLen v.vol, c) (by rw [hcbeq])
        have hfc := finish_crash i vi s1 s2 v1 _ _ _ _ _ h1.ok h1.vol hfin
        rw [hcbeq, hctb] at hfin
        generalize ht : min (512 - f.currentOffset % 512) buffer.length = t at hfin h2 htpos
        generalize hf2 : bump (f.currentOffset / clusterBytesLen v.vol * clusterBytesLen v.vol, c) t f = f2 at hfin h2
        have hrest := ih (buffer.drop t) s2 f2 v1 cs1 (by rw [List.length_drop]; omega) h2 (hp0.trans hpre1)
        have hrun : (locate vi f >>= fun x =>
            withVol vi (writeBlockPart x.2.1 x.2.2.1 (buffer.take (min x.2.2.2 buffer.length))
              (decide (x.2.2.1 = 0 ∧ min x.2.2.2 buffer.length = x.2.2.2))) >>= fun _ =>
            modifyFile i (bump x.1 (min x.2.2.2 buffer.length)) >>= fun _ =>
            writeLoop i vi fuel (buffer.drop (min x.2.2.2 buffer.length))) s =
            writeLoop i vi fuel (buffer.drop t) s2 := by
          rw [MHoare.bind_ok hloc]
          dsimp only
          rw [ht]
          have hassoc : ∀ (m1 : M Unit) (m2 : M Unit) (m3 : M Unit) (x y : Mgr), (m1 >>= fun _ => m2) x = (.ok (), y) →
              (m1 >>= fun _ => m2 >>= fun _ => m3) x = m3 y := by
            intro m1 m2 m3 x y hxy
            rw [MHoare.bind_def] at hxy ⊢
            rcases hm1 : m1 x with ⟨r1, x1⟩
            rw [hm1] at hxy
            cases r1 with
            | ok u =>
              simp only at hxy ⊢
              rw [MHoare.bind_ok hxy]
            | err e => cases hxy
            | panic m => cases hxy
            | diverged => cases hxy
          rw [hassoc _ _ _ _ _ hfin]
        rw [hrun]
        have c2 : MCrash (PW A B cs0 v.vol) s1 s2 :=
          hfc.mono fun d hd => by
            rcases hd with rfl | rfl
            · exact hlc.final
            · exact PW.sameGeom hsg1.symm (PW.of_owns (hp0.trans hpre1) (by rw [withChain_ne h2.ne]; exact h2.owns))
        have c3 : MCrash (PW A B cs0 v.vol) s2 (writeLoop i vi fuel (buffer.drop t) s2).2 :=
          hrest.mono fun d hd => PW.sameGeom hsg1.symm hd
        exact (hlc.trans c2).trans c3
      · -- the volume is full
        rw [MHoare.bind_err hloc]
        exact MCrash.same' hw1 hd1 hF0

/-! ### From the cursor fix-up on -/

theorem writeRest_pw (i vi : Nat) (A B : List (List Nat)) (cs0 : List Nat) (sc : Mgr) (fc : FileInfo) (v1 : VolInfo) (cs1 : List Nat)
    (rv : Nat) (data : Bytes) (hfc : sc.files[i]? = some fc)
    (hv : sc.vols.findIdx? (·.rawVolume = rv) = some vi)
    (hinv : WInv i vi A B { sc with files := sc.files.set i (fixup fc) } (fixup fc) v1 cs1) (hp0 : cs0 <+: cs1) :
    MCrash (PW A B cs0 v1.vol) sc (writeRest rv i data sc).2 := by
  generalize hn : min data.length (Gen.MAX_FILE_SIZE - (fixup fc).currentOffset) = n
  have hnle : n ≤ data.length := by omega
  have hlen : (data.take n).length = n := by rw [List.length_take]; omega
  have hcr := writeLoop_pw i vi A B cs0 (n + 1) (data.take n) _ _ _ _ (by omega) hinv hp0
  have hrunEq : writeRest rv i data sc =
      (writeLoop i vi (n + 1) (data.take n) >>= fun _ => if n < data.length then M.fail .DiskFull else pure ())
        { sc with files := sc.files.set i (fixup fc) } := by
    unfold writeRest
    rw [MHoare.bind_ok (MHoare.getVolumeById_ok hv)]
    show (modifyFile i fixup >>= _) sc = _
    have hmod : modifyFile i fixup sc = (.ok (), { sc with files := sc.files.set i (fixup fc) }) := by
      show (Res.ok (), ({ sc with files := sc.files.modify i fixup } : Mgr)) = _
      rw [modify_eq_set _ _ _ _ hfc]
    rw [MHoare.bind_ok hmod, MHoare.bind_ok (MHoare.getFile_ok hinv.file)]
    simp only [hn]
  rw [hrunEq, bind_tail_state]
  obtain ⟨ws, h1, h2, h3⟩ := hcr
  exact ⟨ws, h1, h2, h3⟩

/-! ### The call -/

/-- **Every crash point of the API call `write` has an exact record** — the record of the call with the chain of the
written file extended, and lost chains (hypotheses of `CrashWriteCall.write_crash`). -/
theorem write_pw (s : Mgr) (h i vi : Nat) (data : Bytes) (f : FileInfo) (v : VolInfo) (cs : List Nat)
    (A B : List (List Nat)) (hs : MOK s)
    (hh : s.files.findIdx? (·.rawFile = h) = some i) (hf : s.files[i]? = some f)
    (hv : s.vols.findIdx? (·.rawVolume = f.rawVolume) = some vi) (hvi : s.vols[vi]? = some v)
    (hmode : f.mode ≠ .ReadOnly) (hg : WFGeom v.vol) (hhint : HintOK v.vol)
    (hok : FileOK v.vol s.dev.disk f cs) (hcur : cs = [] → f.curCluster < 2)
    (hown : Owns v.vol s.dev.disk (withChain A cs B)) :
    MCrash (PW A B cs v.vol) s (Model.write h data s).2 := by
  suffices H : ∀ cs0, cs0 <+: cs → MCrash (PW A B cs0 v.vol) s (Model.write h data s).2 from H cs (List.prefix_refl _)
  intro cs0 hp0
  obtain ⟨hnf, hcoh, hblk, hunl⟩ := hs
  have hF0 : PW A B cs0 v.vol s.dev.disk := PW.of_owns hp0 hown
  have hilt : i < s.files.length := (List.getElem?_eq_some_iff.1 hf).1
  have hvilt : vi < s.vols.length := (List.getElem?_eq_some_iff.1 hvi).1
  rw [write_run s h i vi data f hh hf hv hmode]
  generalize hfa : touchFile s.clock f = fa
  have hfa_cl : fa.entry.cluster = f.entry.cluster := by rw [← hfa]; rfl
  have hfa_cur : fa.curCluster = f.curCluster ∧ fa.curClusterOff = f.curClusterOff := by rw [← hfa]; exact ⟨rfl, rfl⟩
  have hfa_off : fa.currentOffset = f.currentOffset := by rw [← hfa]; rfl
  have hfa_size : fa.entry.size = f.entry.size := by rw [← hfa]; rfl
  by_cases hcl : f.entry.cluster < 2
  · -- an empty file that owns no cluster: the first cluster is allocated
    have hcs : cs = [] ∧ f.entry.size = 0 := by
      rcases hok.chain with ⟨_, h1, h2⟩ | h1
      · exact ⟨h1, h2⟩
      · have := (chain_inRange h1 _ (chain_head_mem h1)).1
        omega
    obtain ⟨hcsnil, hsize0⟩ := hcs
    subst hcsnil
    have hoff0 : f.currentOffset = 0 := by have := hok.pos_le; omega
    rw [withChain_nil] at hown
    have hcurlt := hcur rfl
    generalize hsa : ({ s with files := s.files.set i fa } : Mgr) = sa
    have hsa_vol : sa.vols[vi]? = some v := by rw [← hsa]; exact hvi
    have hsa_dev : sa.dev = s.dev := by rw [← hsa]
    have hfs : fsOf sa v = fsOf s v := by rw [← hsa]; rfl
    have hready : Ready (fsOf s v) := ⟨hnf, hcoh, hblk, hg, hhint⟩
    have hallocM := withVol_run vi (allocCluster none false) sa v hsa_vol
    rw [hfs] at hallocM
    have hcond : f.entry.cluster < Gen.RESERVED_ENTRIES := hcl
    rcases alloc_cases (fsOf s v) none false hnf hcoh with ⟨c, fs2, ha⟩ | ⟨fs2, ha, ro2⟩
    · obtain ⟨hready2, hown2, hsg, hrc⟩ := owns_insert (fsOf s v) fs2 A B c hready hown ha
      simp only [fsOf_vol] at hsg hrc
      have hcrA : CrashAll (PW A B cs0 v.vol) (fsOf s v) fs2 :=
        alloc_pw (fsOf s v) fs2 none false c hnf hcoh hblk hg hhint (fun p hp => by cases hp) ha
          (cs := []) (cs' := [c]) hp0 (List.nil_prefix)
          (by rw [withChain_nil]; exact hown)
          (by rw [withChain_ne (by simp)]; exact owns_sameGeom hsg.symm hown2)
      rw [ha] at hallocM
      simp only at hallocM
      generalize hv1def : ({ v with vol := fs2.vol } : VolInfo) = v1 at hallocM
      have hv1vol : v1.vol = fs2.vol := by rw [← hv1def]
      have hsg' : SameGeom v.vol v1.vol := by rw [hv1vol]; exact hsg
      generalize hfcdef : ({ fa with entry := { fa.entry with cluster := c } } : FileInfo) = fc
      have hfix : fixup fc = { fc with curClusterOff := 0, curCluster := c } := by
        unfold fixup
        have h1 : fc.curCluster < fc.entry.cluster := by
          rw [← hfcdef]; show fa.curCluster < c; rw [hfa_cur.1]; have := hrc.1; omega
        rw [if_pos h1, ← hfcdef]
      generalize hfddef : fixup fc = fd at hfix
      generalize hscdef : ({ sa with dev := fs2.dev, cache := fs2.cache, vols := sa.vols.set vi v1, files := (s.files.set i fa).set i fc } : Mgr) = sc
      have hsc_files : sc.files = s.files.set i fc := by rw [← hscdef, ← hsa]; simp only [List.set_set]
      have hsc_vols : sc.vols = s.vols.set vi v1 := by rw [← hscdef, ← hsa]
      have hsc_dev : sc.dev = fs2.dev := by rw [← hscdef]
      have hfc : sc.files[i]? = some fc := by rw [hsc_files]; exact List.getElem?_set_self hilt
      have hvfind : sc.vols.findIdx? (·.rawVolume = f.rawVolume) = some vi := by
        rw [hsc_vols, findIdx?_set_same _ s.vols vi v v1 hvi (by rw [← hv1def])]; exact hv
      generalize hsddef : ({ sc with files := sc.files.set i fd } : Mgr) = sd
      have hsd_eq : sd = { s with dev := fs2.dev, cache := fs2.cache, files := s.files.set i fd, vols := s.vols.set vi v1 } := by
        rw [← hsddef, hsc_files, List.set_set, ← hscdef, ← hsa]
      have hfd_fields : fd.entry.cluster = c ∧ fd.curCluster = c ∧ fd.curClusterOff = 0 ∧ fd.currentOffset = 0 ∧
          fd.entry.size = 0 := by
        rw [hfix, ← hfcdef]
        exact ⟨rfl, rfl, rfl, by show fa.currentOffset = 0; rw [hfa_off, hoff0], by show fa.entry.size = 0; rw [hfa_size, hsize0]⟩
      obtain ⟨hd_cl, hd_cur, hd_co, hd_off, hd_size⟩ := hfd_fields
      have hchain1 : Chain v1.vol fs2.dev.disk c [c] := by
        have := hown2.1 [c] (List.mem_append_left _ (List.mem_append_right _ (List.mem_singleton.2 rfl)))
        rw [hv1vol]; exact this
      have hinv : WInv i vi A B sd fd v1 [c] := by
        rw [hsd_eq]
        refine ⟨⟨hready2.noFault, hready2.coherent, hready2.blocksOK, hunl⟩, List.getElem?_set_self hilt,
          List.getElem?_set_self hvilt, by rw [hv1vol]; exact hready2.geom, by rw [hv1vol]; exact hready2.hint, ?_,
          by simp, by rw [hv1vol]; exact hown2⟩
        refine ⟨.inr (by rw [hd_cl]; exact hchain1), by rw [hd_size]; exact Nat.zero_le _, by rw [hd_off, hd_size]; exact Nat.le_refl _,
          .inr ⟨0, by simp, by rw [hd_co, Nat.zero_mul], by rw [hd_cur]; rfl⟩⟩
      have hrest := writeRest_pw i vi A B cs0 sc fc v1 [c] f.rawVolume data hfc hvfind
        (by rw [hfddef, hsddef]; exact hinv) (hp0.trans List.nil_prefix)
      have hrun : writeTail f i vi data sa = writeRest f.rawVolume i data sc := by
        unfold writeTail
        rw [if_pos hcond]
        rw [MHoare.bind_ok hallocM]
        have hmodc : modifyFile i (fun f => { f with entry := { f.entry with cluster := c } })
            { sa with dev := fs2.dev, cache := fs2.cache, vols := sa.vols.set vi v1 } = (.ok (), sc) := by
          show (Res.ok (), _) = _
          congr 1
          rw [← hscdef, ← hsa, ← hfcdef]
          show ({ s with dev := fs2.dev, cache := fs2.cache, vols := s.vols.set vi v1, files := (s.files.set i fa).modify i _ } : Mgr) = _
          rw [modify_eq_set _ _ _ _ (List.getElem?_set_self hilt)]
        rw [MHoare.bind_ok hmodc]
      rw [hrun]
      have c1 : MCrash (PW A B cs0 v.vol) s sc :=
        MCrash.of_fs (a := fsOf s v) (b := fs2) hcrA rfl hsc_dev.symm
      exact c1.trans (hrest.mono fun d hd => PW.sameGeom hsg'.symm hd)
    · -- the volume is full: nothing written
      rw [ha] at hallocM
      simp only at hallocM
      generalize hsF : ({ sa with dev := fs2.dev, cache := fs2.cache, vols := sa.vols.set vi { v with vol := fs2.vol } } : Mgr) = sF at hallocM
      have hsF_dev : sF.dev = fs2.dev := by rw [← hsF]
      have hrun : writeTail f i vi data sa = (.err .NotEnoughSpace, sF) := by
        unfold writeTail
        rw [if_pos hcond]
        rw [MHoare.bind_err hallocM]
      rw [hrun]
      exact MCrash.same' (by rw [hsF_dev, ro2.wlog]; rfl) (by rw [hsF_dev, ro2.disk]; rfl) hF0
  · -- the file owns clusters
    have hch : Chain v.vol s.dev.disk f.entry.cluster cs := by
      rcases hok.chain with ⟨h1, _, _⟩ | h1
      · exact absurd h1 hcl
      · exact h1
    have hne : cs ≠ [] := chain_ne_nil hch
    rw [withChain_ne hne] at hown
    have hcond : ¬ f.entry.cluster < Gen.RESERVED_ENTRIES := hcl
    generalize hsa : ({ s with files := s.files.set i fa } : Mgr) = sa
    have hfc : sa.files[i]? = some fa := by rw [← hsa]; exact List.getElem?_set_self hilt
    have hvfind : sa.vols.findIdx? (·.rawVolume = f.rawVolume) = some vi := by rw [← hsa]; exact hv
    have hsa_dev : sa.dev = s.dev := by rw [← hsa]
    generalize hfddef : fixup fa = fd
    have hfd_fields : fd.entry = fa.entry ∧ fd.currentOffset = fa.currentOffset := by
      rw [← hfddef]; unfold fixup; split <;> exact ⟨rfl, rfl⟩
    obtain ⟨hd_entry, hd_off⟩ := hfd_fields
    have hd_cursor : ∃ k, k < cs.length ∧ fd.curClusterOff = k * clusterBytesLen v.vol ∧ cs[k]? = some fd.curCluster := by
      rcases hok.cursor with hnil | ⟨k0, hk0, hk0off, hk0c⟩
      · exact absurd hnil hne
      · rw [← hfddef]
        unfold fixup
        split
        · exact ⟨0, chain_length_pos hch, by show 0 = _; rw [Nat.zero_mul], by
            show cs[0]? = some fa.entry.cluster; rw [hfa_cl]; exact chain_get_zero hch⟩
        · exact ⟨k0, hk0, by rw [hfa_cur.2]; exact hk0off, by rw [hfa_cur.1]; exact hk0c⟩
    generalize hsddef : ({ sa with files := sa.files.set i fd } : Mgr) = sd
    have hsd_eq : sd = { s with files := s.files.set i fd } := by
      rw [← hsddef, ← hsa]
      show ({ s with files := (s.files.set i fa).set i fd } : Mgr) = _
      rw [List.set_set]
    have hinv : WInv i vi A B sd fd v cs := by
      rw [hsd_eq]
      refine ⟨⟨hnf, hcoh, hblk, hunl⟩, List.getElem?_set_self hilt, hvi, hg, hhint, ?_, hne, hown⟩
      refine ⟨.inr (by rw [hd_entry, hfa_cl]; exact hch), by rw [hd_entry, hfa_size]; exact hok.size_fits,
        by rw [hd_off, hd_entry, hfa_off, hfa_size]; exact hok.pos_le, .inr hd_cursor⟩
    have hrest := writeRest_pw i vi A B cs0 sa fa v cs f.rawVolume data hfc hvfind
      (by rw [hfddef, hsddef]; exact hinv) hp0
    have hrun : writeTail f i vi data sa = writeRest f.rawVolume i data sa := by
      unfold writeTail
      rw [if_neg hcond]
    rw [hrun]
    obtain ⟨ws, h1, h2, h3⟩ := hrest
    exact ⟨ws, by rw [← hsa_dev]; exact h1, by rw [← hsa_dev]; exact h2, by rw [← hsa_dev]; exact h3⟩

end Sdmmc.Lemmas.VolCrashX
