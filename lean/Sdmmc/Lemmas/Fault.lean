/-
C11 (device faults) — the summary theorems the property file states.

`FaultBase`   : notions and compositional rules for the FAT engine's monad `F`; device and cache.
`FaultFat`    : every function of `Model/Fat.lean`.
`FaultMgr`    : notions and rules for the manager's monad `M`; `withVol`.
`FaultApi`    : every public method reports device failures.
`FaultFrame`  : `failed` never decreases; read-only methods write nothing.
`FaultHandles`: the handle tables after a call that did not return `Ok`.
`FaultRetry`  : a failed `read` leaves all offsets unchanged.
-/
import Sdmmc.Lemmas.FaultRetry

namespace Sdmmc.Lemmas.Fault

open Sdmmc.Model Sdmmc.Model.Fat

/-- Every function of `Sdmmc.Model.Fat`, for all arguments: a device failure during the call
surfaces as `DeviceError` (`make_dir`: as some error). -/
theorem fat_fault_strict :
    (∀ c n, FaultStrict (updateFat c n)) ∧
    (∀ c, FaultStrict (nextCluster c)) ∧
    (∀ fuel cur endC, FaultStrict (findNextFreeCluster fuel cur endC)) ∧
    (∀ a b, FaultStrict (findNextFree a b)) ∧
    (∀ n first, FaultStrict (zeroBlocks n first)) ∧
    (∀ prev zero, FaultStrict (allocCluster prev zero)) ∧
    (∀ fuel next, FaultStrict (truncateLoop fuel next)) ∧
    (∀ c, FaultStrict (truncateClusterChain c)) ∧
    (∀ c, FaultStrict (freeClusterChain c)) ∧
    FaultStrict updateInfoSector ∧
    (∀ e, FaultStrict (writeEntryToDisk e)) ∧
    (∀ n b, FaultStrict (iterateBlocks n b)) ∧
    (∀ fuel w, FaultStrict (iterateWalk fuel w)) ∧
    (∀ d, FaultStrict (iterateRaw d)) ∧
    (∀ name n b, FaultStrict (findBlocks name n b)) ∧
    (∀ name fuel w, FaultStrict (findWalk name fuel w)) ∧
    (∀ d name, FaultStrict (Fat.findDirectoryEntry d name)) ∧
    (∀ name n b, FaultStrict (deleteBlocks name n b)) ∧
    (∀ name fuel w, FaultStrict (deleteWalk name fuel w)) ∧
    (∀ d name, FaultStrict (deleteDirectoryEntry d name)) ∧
    (∀ name att fc now n b, FaultStrict (writeNewBlocks name att fc now n b)) ∧
    (∀ name att fc now fuel w, FaultStrict (writeNewWalk name att fc now fuel w)) ∧
    (∀ d name att fc now, FaultStrict (writeNewDirectoryEntry d name att fc now)) ∧
    (∀ parent sfn att now, FaultWeak (makeDir parent sfn att now)) :=
  ⟨updateFat_strict, nextCluster_strict, findNextFreeCluster_strict, findNextFree_strict, zeroBlocks_strict,
   allocCluster_strict, truncateLoop_strict, truncateClusterChain_strict, freeClusterChain_strict,
   updateInfoSector_strict, writeEntryToDisk_strict, iterateBlocks_strict, iterateWalk_strict, iterateRaw_strict,
   findBlocks_strict, findWalk_strict, findDirectoryEntry_strict, deleteBlocks_strict, deleteWalk_strict,
   deleteDirectoryEntry_strict, writeNewBlocks_strict, writeNewWalk_strict, writeNewDirectoryEntry_strict,
   makeDir_weak⟩

/-- `failed` never decreases in any function of `Sdmmc.Model.Fat`. -/
theorem fat_fault_mono :
    (∀ c n, FaultMono (updateFat c n)) ∧
    (∀ c, FaultMono (nextCluster c)) ∧
    (∀ a b, FaultMono (findNextFree a b)) ∧
    (∀ n first, FaultMono (zeroBlocks n first)) ∧
    (∀ prev zero, FaultMono (allocCluster prev zero)) ∧
    (∀ c, FaultMono (truncateClusterChain c)) ∧
    (∀ c, FaultMono (freeClusterChain c)) ∧
    FaultMono updateInfoSector ∧
    (∀ e, FaultMono (writeEntryToDisk e)) ∧
    (∀ d, FaultMono (iterateRaw d)) ∧
    (∀ d name, FaultMono (Fat.findDirectoryEntry d name)) ∧
    (∀ d name, FaultMono (deleteDirectoryEntry d name)) ∧
    (∀ d name att fc now, FaultMono (writeNewDirectoryEntry d name att fc now)) ∧
    (∀ parent sfn att now, FaultMono (makeDir parent sfn att now)) :=
  ⟨updateFat_inv, nextCluster_inv, findNextFree_inv, zeroBlocks_inv, allocCluster_inv, truncateClusterChain_inv,
   freeClusterChain_inv, updateInfoSector_inv, writeEntryToDisk_inv, iterateRaw_inv, findDirectoryEntry_inv,
   deleteDirectoryEntry_inv, writeNewDirectoryEntry_inv, makeDir_inv⟩

end Sdmmc.Lemmas.Fault
