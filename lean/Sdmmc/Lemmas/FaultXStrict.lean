/-
C11, arbitrary fault placement — A FAULTED RUN MISSES A WRITE (`SW`).

`Pre m` (`Lemmas/FaultPre`) says that the device writes of a run in which a device call failed are a PREFIX of the writes
of the fault-free run.  For a function whose fault-free run ENDS with a device write — `write_new_directory_entry` — the
prefix is PROPER: a run that reports a device error has not written the entry (`writeNew_strict`).  `make_dir` relies on
this: its clean-up frees the new cluster after `write_new_directory_entry` failed.

`SW m good`: whenever a device call of `m s` fails and the fault-free run from `clr s` returns a value satisfying `good`,
the faulted run issued FEWER device writes.  Compositional (`SW.bind`, `SW.attempt_bind`): where the part that failed
claims nothing itself (a read), the rest of the fault-free run must write (`WL` grows).
-/
import Sdmmc.Lemmas.FaultPreFat
import Sdmmc.Lemmas.FaultInvBase

namespace Sdmmc.Lemmas.FaultX
open Sdmmc.Model Sdmmc.Model.Fat Sdmmc.Spec
open Sdmmc.Lemmas.Fault Sdmmc.Lemmas.Retry Sdmmc.Lemmas.CrashBase Sdmmc.Lemmas.FaultPre
open Sdmmc.Lemmas.FBasic (NoFault)

variable {α β : Type}

/-- The number of device writes so far. -/
def WL (s : FS) : Nat := s.dev.wlog.length

theorem wl_clr (s : FS) : WL (clr s) = WL s := rfl

theorem trace_wl {s t : FS} {ws : List (Nat × Block)} (h : Trace s t ws) : WL t = ws.length + WL s := by
  unfold WL
  rw [h.wlog, List.length_append, List.length_reverse]

theorem pre_wl_mono {m : F α} (h : Pre m) (s : FS) : WL s ≤ WL (m s).2 := by
  obtain ⟨⟨ws, ht⟩, _⟩ := h s
  rw [trace_wl ht]; omega

theorem pre_wl_hit {m : F α} (h : Pre m) (s : FS) (hq : (m s).2.dev.failed ≠ s.dev.failed) :
    WL (m s).2 ≤ WL (m (clr s)).2 := by
  obtain ⟨_, ⟨wa, wb, hta, htb, _⟩⟩ := (h s).2.2.2 hq
  rw [trace_wl hta, trace_wl htb, wl_clr, List.length_append]; omega

/-- A run in which a device call failed, whose fault-free twin returns a `good` value, issued fewer device writes. -/
def SW (m : F α) (good : α → Prop) : Prop :=
  ∀ s, (m s).2.dev.failed ≠ s.dev.failed → ∀ a, (m (clr s)).1 = .ok a → good a → WL (m s).2 < WL (m (clr s)).2

theorem SW.of_quiet {m : F α} {good : α → Prop} (h : ∀ s, (m s).2.dev.failed = s.dev.failed) : SW m good :=
  fun s hq => absurd (h s) hq

theorem SW.none {m : F α} : SW m (fun _ => False) := fun _ _ _ _ h => h.elim

theorem SW.mono {m : F α} {g g' : α → Prop} (h : SW m g) (hg : ∀ a, g' a → g a) : SW m g' :=
  fun s hq a ha hga => h s hq a ha (hg a hga)

theorem SW.pure {good : α → Prop} (a : α) : SW (pure a : F α) good := .of_quiet fun _ => rfl

/-- Sequencing.  `hmw`: where `m` claims nothing for its value, the rest of the fault-free run writes. -/
theorem SW.bind {m : F α} {f : α → F β} {gm : α → Prop} {gf : β → Prop} (hpm : Pre m) (hpf : ∀ a, Pre (f a))
    (hm : SW m gm) (hf : ∀ a, SW (f a) gf)
    (hmw : ∀ s a c1, (m s).2.dev.failed ≠ s.dev.failed → m (clr s) = (.ok a, c1) → ¬ gm a →
      ∀ b, (f a c1).1 = .ok b → gf b → WL c1 < WL (f a c1).2) :
    SW (m >>= f) gf := by
  intro s hq b hb hgb
  obtain ⟨_, hle1, hag1, hhit1⟩ := hpm s
  rcases hr : m s with ⟨r, t1⟩
  rw [hr] at hle1 hag1 hhit1
  simp only at hle1 hag1 hhit1
  -- the fault-free run
  rcases hr0 : m (clr s) with ⟨r0, c1⟩
  have hra : ∃ a, r0 = .ok a := by
    cases r0 with
    | ok a => exact ⟨a, rfl⟩
    | err e => rw [F.bind_err hr0] at hb; cases hb
    | panic msg => rw [F.bind_panic hr0] at hb; cases hb
    | diverged => rw [F.bind_diverged hr0] at hb; cases hb
  obtain ⟨a, rfl⟩ := hra
  rw [F.bind_ok hr0] at hb ⊢
  by_cases hq1 : t1.dev.failed = s.dev.failed
  · -- nothing failed in `m`
    have hm0 := hag1 hq1
    rw [hr0] at hm0
    obtain ⟨h1, h2⟩ := Prod.mk.inj hm0
    subst h1; subst h2
    rw [F.bind_ok hr] at hq ⊢
    exact hf a t1 (by rw [hq1]; exact hq) b hb hgb
  · -- a device call of `m` failed
    obtain ⟨he, _⟩ := hhit1 hq1
    subst he
    rw [F.bind_err hr]
    have hq1' : (m s).2.dev.failed ≠ s.dev.failed := by rw [hr]; exact hq1
    have hle : WL t1 ≤ WL c1 := by
      have := pre_wl_hit hpm s hq1'
      rw [hr, hr0] at this; exact this
    have hmono : WL c1 ≤ WL (f a c1).2 := pre_wl_mono (hpf a) c1
    by_cases hg : gm a
    · have := hm s hq1' a (by rw [hr0]) hg
      rw [hr, hr0] at this
      exact Nat.lt_of_lt_of_le this hmono
    · exact Nat.lt_of_le_of_lt hle (hmw s a c1 hq1' hr0 hg b hb hgb)

/-- Sequencing after a part that makes no device call. -/
theorem SW.bind_nodev {m : F α} {f : α → F β} {gf : β → Prop} (hpm : Pre m) (hpf : ∀ a, Pre (f a))
    (hnd : ∀ s, (m s).2.dev.failed = s.dev.failed) (hf : ∀ a, SW (f a) gf) : SW (m >>= f) gf :=
  SW.bind (gm := fun _ => False) hpm hpf .none hf fun s _ _ hq => absurd (hnd s) hq

/-- The `match`-on-the-outcome pattern. -/
theorem SW.attempt_bind {m : F α} {k : Res α → F β} {gm : α → Prop} {gf : β → Prop} (hpm : Pre m) (hpk : ∀ r, Pre (k r))
    (hdev : ∀ s, k (.err .DeviceError) s = (.err .DeviceError, s))
    (hm : SW m gm) (hk : ∀ r, SW (k r) gf)
    (hmw : ∀ s r0 c1, (m s).2.dev.failed ≠ s.dev.failed → m (clr s) = (r0, c1) → (∀ a, r0 = .ok a → ¬ gm a) →
      ∀ b, (k r0 c1).1 = .ok b → gf b → WL c1 < WL (k r0 c1).2) :
    SW (F.attempt m >>= k) gf := by
  intro s hq b hb hgb
  obtain ⟨_, hle1, hag1, hhit1⟩ := hpm s
  rw [F.attempt_bind_apply] at hq ⊢
  rw [F.attempt_bind_apply] at hb ⊢
  by_cases hq1 : (m s).2.dev.failed = s.dev.failed
  · have hm0 := hag1 hq1
    rw [hm0] at hb ⊢
    simp only at hb ⊢
    exact hk (m s).1 (m s).2 (by rw [hq1]; exact hq) b hb hgb
  · obtain ⟨he, _⟩ := hhit1 hq1
    rw [he, hdev]
    simp only
    have hle : WL (m s).2 ≤ WL (m (clr s)).2 := pre_wl_hit hpm s hq1
    have hmono : WL (m (clr s)).2 ≤ WL (k (m (clr s)).1 (m (clr s)).2).2 := pre_wl_mono (hpk _) _
    by_cases hg : ∃ a, (m (clr s)).1 = .ok a ∧ gm a
    · obtain ⟨a, ha, hga⟩ := hg
      exact Nat.lt_of_lt_of_le (hm s hq1 a ha hga) hmono
    · exact Nat.lt_of_le_of_lt hle (hmw s _ _ hq1 rfl (fun a ha hga => hg ⟨a, ha, hga⟩) b hb hgb)

/-! ### The device writes -/

/-- `write_back`: when its device write fails, nothing was written; the fault-free run writes the block. -/
theorem sw_writeBack : SW writeBack (fun _ => True) := by
  intro s hq a ha _
  cases ht : s.cache.tag with
  | none =>
    exfalso; apply hq
    rw [FBasic.writeBack_none s ht]
  | some idx =>
    have hw := FBasic.writeBack_wlog (clr s) idx rfl (show (clr s).cache.tag = some idx from ht)
    have h1 : WL (writeBack (clr s)).2 = WL s + 1 := by
      unfold WL; rw [hw]; rfl
    rw [h1]
    -- the faulted run wrote nothing
    have h2 : WL (writeBack s).2 = WL s := by
      rw [writeBack_tagged ht]
      unfold WL
      rw [untagIfErr_dev]
      rcases devWrite_cases idx s with ⟨_, _, _, hw', _⟩ | ⟨_, _, hf, _⟩
      · rw [hw']
      · exfalso; apply hq
        rw [writeBack_tagged ht, untagIfErr_dev]
        exact hf
    rw [h2]; exact Nat.lt_succ_self _

end Sdmmc.Lemmas.FaultX
