/-
C02 over arbitrary histories, the remount: the abstract tree is a function of the medium (and the ghost) —
a fresh manager on the medium of a state without open files sees the same directories (`fresh_abs`), and so
does it after `open_volume` (`remount_same_tree`).
-/
import Sdmmc.Lemmas.AbsFsCor2
import Sdmmc.Props.C02Reopen

namespace Sdmmc.Lemmas.AbsFs
open Sdmmc.Model Sdmmc.Model.Fat Sdmmc.Spec.Volume Sdmmc.Lemmas.VolBase Sdmmc.Lemmas.VolTree
open Sdmmc.Spec hiding NoFault Coherent
open Sdmmc.Spec.AbsFs (Meta view storedMeta fatRound OpenFile OpenDir absStep absRun)
open Sdmmc.Lemmas.VolDisk Sdmmc.Lemmas.VolMed Sdmmc.Lemmas.VolApi Sdmmc.Lemmas.VolEng
open Sdmmc.Lemmas.MHoare

/-- A manager with empty tables on the medium of `s`: no fault scheduled, coherent cache, not borrowed, room
for one volume.  (Handle generator, directory and file limits, clock are arbitrary.) -/
structure FreshOn (s t : Mgr) : Prop where
  disk : t.dev.disk = s.dev.disk
  noFault : t.dev.faults = []
  coherent : ∀ i, t.cache.tag = some i → t.cache.blk = t.dev.disk.get i
  unlocked : t.locked = false
  maxVols : t.maxVols = 1
  vols : t.vols = []
  dirs : t.dirs = []
  files : t.files = []

/-- The directories read from the medium and the ghost only (no file is open on either side). -/
theorem absSlots_fresh {s t : Mgr} (gh : Ghost) (hd : t.dev.disk = s.dev.disk) (hs : s.files = []) (ht : t.files = []) (h : Nat) :
    absSlots t gh h = absSlots s gh h := by
  unfold absSlots
  rw [hd, hs, ht]

/-- **A fresh manager on the same medium**: the invariant holds for the same ghost, and its abstract
counterpart has the same directories. -/
theorem fresh_abs {s t : Mgr} {gh : Ghost} (hI : VolInv s gh) (hs : s.files = []) (hF : FreshOn s t) :
    VolInv t gh ∧ Abs t gh (absOf0 t gh) ∧ ∀ h, (absOf0 t gh).slots h = absSlots s gh h := by
  refine ⟨⟨hF.noFault, hF.coherent, hF.unlocked, hF.maxVols, .inl hF.vols, ?_, ?_, ?_⟩, abs_absOf0 hF.files,
    fun h => absSlots_fresh gh hF.disk hs hF.files h⟩
  · rw [hF.disk, hF.files, ← hs]; exact hI.med
  · intro f hf; rw [hF.files] at hf; cases hf
  · intro d hd; rw [hF.dirs] at hd; cases hd

/-- The fresh manager's `open_volume`, when the medium mounts (`mountPure`, `Props.C15`): it answers the next
handle and appends the mounted record; nothing is written. -/
theorem fresh_openVolume {s t : Mgr} {gh : Ghost} (hI : VolInv s gh) (hF : FreshOn s t) (idx : Nat) (w : FatVolume)
    (hm : mountPure (t.dev.disk.get 0) idx t.dev.disk.get = .ok w) :
    ∃ s', openRawVolume idx (resetLogs t) = (.ok t.nextId, s') ∧
      s'.vols = [{ rawVolume := t.nextId, idx := idx, vol := w }] ∧ s'.dev.disk = t.dev.disk := by
  have hok : Sdmmc.Lemmas.ReadRefines.MgrOK (resetLogs t) :=
    ⟨hF.noFault, hF.coherent, by show ∀ i, (t.dev.disk.get i).length = 512; rw [hF.disk]; exact hI.med.blocksOK, hF.unlocked⟩
  obtain ⟨s', hrun, heq, hdisk, _, _⟩ := Sdmmc.Lemmas.Reopen.openRawVolume_spec (resetLogs t) idx w hok
    (by show t.vols.length < t.maxVols; rw [hF.vols, hF.maxVols]; decide)
    (by show t.vols.any _ = false; rw [hF.vols]; rfl) hm
  refine ⟨s', hrun, ?_, hdisk⟩
  rw [heq]
  show t.vols ++ [_] = [_]
  rw [hF.vols]; rfl

/-- **Remount: the same tree.**  `s` has the invariant (ghost `gh`), an abstract counterpart `a`, and no open
file; `t` is a fresh manager on the medium of `s` (`s` itself after `close_volume` is one); the medium mounts
(partition `idx`) to a record `w` with the geometry of the volume.  Then `open_volume idx` on `t` answers the
next handle, the invariant and the abstraction hold again, and the abstract directories — numbers and contents:
every entry, every file's bytes — are those of `a`. -/
theorem remount_same_tree {s t : Mgr} {gh : Ghost} {a : AState} (hI : VolInv s gh) (hA : Abs s gh a) (hs : s.files = [])
    (hF : FreshOn s t) (idx : Nat) (w : FatVolume) (hm : mountPure (t.dev.disk.get 0) idx t.dev.disk.get = .ok w)
    (hsg : SameGeom gh.vol w) :
    ∃ gh' a', (step t (.openVolume idx)).2.result = .ok (.handle t.nextId) ∧
      VolInv (step t (.openVolume idx)).1 gh' ∧ SameGeom gh.vol gh'.vol ∧ Abs (step t (.openVolume idx)).1 gh' a' ∧
      a'.ids = a.ids ∧ (∀ h, h ∈ a.ids → a'.slots h = a.slots h) ∧
      a'.vols = [(t.nextId, idx)] ∧ a'.dirs = [] ∧ a'.files = [] ∧ a'.nextId = (t.nextId + 1) % 4294967296 ∧
      a'.maxDirs = t.maxDirs ∧ a'.maxFiles = t.maxFiles ∧ a'.clock = t.clock ∧ a'.locked = false := by
  obtain ⟨hIt, hAt, hsl⟩ := fresh_abs hI hs hF
  obtain ⟨s', hrun, hvols, _⟩ := fresh_openVolume hI hF idx w hm
  have hc : FsCovered gh.vol t (.openVolume idx) := by
    refine .inr fun h s'' hr vi hvi => ?_
    rw [hrun] at hr
    injection hr with _ hr
    rw [← hr, hvols] at hvi
    rw [List.mem_singleton] at hvi
    rw [hvi]; exact hsg
  obtain ⟨gh', a', h1, h2, h3, h4⟩ := fs_step_refines gh.vol hIt hAt (SameGeom.refl _) (.openVolume idx) hc
  have hres : (step t (.openVolume idx)).2.result = .ok (.handle t.nextId) := by
    rw [step_unlocked t _ hF.unlocked]
    show ((openRawVolume idx >>= fun h => (pure (Payload.handle h) : M Payload)) (resetLogs t)).1 = _
    rw [bind_ok hrun]; rfl
  rw [hres] at h4
  unfold absStep at h4
  have hl0 : (absOf0 t gh).locked = false := hF.unlocked
  rw [if_neg (by rw [hl0]; exact Bool.false_ne_true)] at h4
  have h4 : Spec.AbsFs.openVolumeS (absOf0 t gh) idx a' (.ok (.handle t.nextId)) := h4
  unfold Spec.AbsFs.openVolumeS at h4
  have hv0 : (absOf0 t gh).vols = [] := by show t.vols.map _ = []; rw [hF.vols]; rfl
  rw [if_neg (by rw [hv0]; decide)] at h4
  rcases h4 with ⟨_, hno⟩ | ⟨ha', _⟩
  · exact absurd rfl (hno _)
  · refine ⟨gh', a', hres, h1, h2, h3, ?_, ?_, ?_, ?_, ?_, ?_, ?_, ?_, ?_, ?_⟩
    · rw [ha', hA.ids]; rfl
    · intro h hh
      rw [ha']
      show (absOf0 t gh).slots h = a.slots h
      rw [hsl h, hA.slots h (by rw [← hA.ids]; exact hh)]
    · rw [ha']; show (absOf0 t gh).vols ++ [_] = _; rw [hv0]; rfl
    · rw [ha']; show t.dirs.map absDir = []; rw [hF.dirs]; rfl
    · rw [ha']; rfl
    · rw [ha']; rfl
    · rw [ha']; rfl
    · rw [ha']; rfl
    · rw [ha']; rfl
    · rw [ha']; exact hF.unlocked

end Sdmmc.Lemmas.AbsFs
