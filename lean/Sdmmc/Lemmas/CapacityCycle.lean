/-
Capacity (C05, second sentence), part 7 — fill / close / delete, again and again.

* `close_keeps_fat`: `close_file` of a written file touches no FAT block: the chains and the number
  of free clusters are those of before;
* `cycle_once`: from the state a `ReadWriteCreate` left (a new empty file, `F` free clusters) —
  fill to capacity, close, delete: the chains and the free count are again those of the start;
* `cycles_preserve`: any number of such rounds.
-/
import Sdmmc.Lemmas.CapacitySeq
import Sdmmc.Lemmas.CapacityReclaim
import Sdmmc.Lemmas.ReopenFlush

namespace Sdmmc.Lemmas.Capacity
open Sdmmc.Model Sdmmc.Model.Fat Sdmmc.Spec
open Sdmmc.Lemmas.FBasic hiding NoFault Coherent
open Sdmmc.Lemmas.FatOps hiding BlocksOK Mirror HintOK
open Sdmmc.Lemmas.ChainL Sdmmc.Lemmas.ForestBase Sdmmc.Lemmas.ForestOwns Sdmmc.Lemmas.ReadRefines
open Sdmmc.Lemmas.WriteRefines

/-- **Closing keeps the FAT.**  An open written file (`WReady`, dirty) whose directory slot lies
inside its block, carries an 11-byte name and is not in a FAT block: `close_file` answers `Ok`,
drops the record, leaves the volume and directory tables alone; the chains of the volume and the
number of free clusters are unchanged. -/
theorem close_keeps_fat (s : Mgr) (h i vi : Nat) (f : FileInfo) (v : VolInfo) (cs : List Nat) (A B : List (List Nat))
    (hr : WReady s h i vi f v cs A B) (hd : f.dirty = true) (ho : f.entry.entryOffset + 32 ≤ 512)
    (hname : f.entry.name.length = 11) (hreg : regionOf v.vol f.entry.entryBlock ≠ .fat) :
    ∃ s', closeFile h s = (.ok (), s') ∧ MOK s' ∧ s'.vols = s.vols ∧ s'.dirs = s.dirs ∧
      s'.files = swapRemove s.files i ∧
      Owns v.vol s'.dev.disk (withChain A cs B) ∧ freeCount v.vol s'.dev.disk = freeCount v.vol s.dev.disk := by
  have hassert : ¬ (f.entry.size ≠ 0 ∧ f.entry.cluster = 0) := by
    rintro ⟨h1, h2⟩
    rcases hr.fileOK.chain with ⟨_, _, h3⟩ | h3
    · exact h1 h3
    · have := (chain_inRange h3 _ (chain_head_mem h3)).1
      omega
  obtain ⟨s1, _, hclose, hfl, hok1, _, _, hagree⟩ :=
    Reopen.closeFile_spec s h i vi f v hr.ok hr.hh hr.hf hr.hv hr.hvi hd hassert ho hname
  have hfat : ∀ c, c < endCluster v.vol → s1.dev.disk.get (fatBlock v.vol c) = s.dev.disk.get (fatBlock v.vol c) := by
    intro c hc
    have hrf := (FatLens.fat_blocks_in_fat_region v.vol hr.geom c hc).1
    exact Reopen.agreeOff_region v.vol hr.geom _ _ _ hagree _ (fun e => hreg (by rw [← e]; exact hrf))
      (by rw [hrf]; intro e; cases e)
  unfold Reopen.Flushed at hfl
  refine ⟨_, hclose, ?_, by rw [hfl], by rw [hfl], rfl, owns_of_fat_eq hfat hr.owns, freeCount_congr hfat⟩
  obtain ⟨a, b, c, d⟩ := hok1
  exact ⟨a, b, c, d⟩

/-- The invariant between rounds: the manager is fault-free, coherent and unlocked; slot `vi` holds a
volume with sane geometry; the chains `G` are exactly the chains of the volume; `F` clusters are free. -/
def VolInv (vi : Nat) (G : List (List Nat)) (F : Nat) (s : Mgr) : Prop :=
  MOK s ∧ ∃ v, s.vols[vi]? = some v ∧ WFGeom v.vol ∧ HintOK v.vol ∧ Owns v.vol s.dev.disk G ∧
    freeCount v.vol s.dev.disk = F

/-- The state a successful `open_file_in_dir(.., ReadWriteCreate)` leaves when the directory had a
free slot: handle `h` (slot `i`) is a writable file on the volume in slot `vi` that owns no cluster
(offset and size 0); all the chains of the volume are `G`, `F` clusters are free; the file's directory
slot lies inside its block, carries an 11-byte name, and is not in a FAT block. -/
def Fresh (vi : Nat) (G : List (List Nat)) (F : Nat) (h i : Nat) (s : Mgr) : Prop :=
  ∃ f v, WReady s h i vi f v [] G [] ∧ f.currentOffset = 0 ∧ f.entry.size = 0 ∧
    freeCount v.vol s.dev.disk = F ∧ F * clusterBytesLen v.vol ≤ Gen.MAX_FILE_SIZE ∧
    f.entry.entryOffset + 32 ≤ 512 ∧ f.entry.name.length = 11 ∧ regionOf v.vol f.entry.entryBlock ≠ .fat

theorem SameGeom.regionOf {v v' : FatVolume} (h : SameGeom v v') (b : Nat) : regionOf v' b = regionOf v b := by
  obtain ⟨cnt, hint, rfl⟩ := h
  rfl

/-- The glue of one round that is NOT proved here: after the file has been filled and closed (state
`s2`), `directory` / `name` resolve to the volume slot `vi`; the lookup of the name finds an entry
whose first cluster is the one the closed record `f1` carried (what `flush_file` wrote into the slot
— `Props.C02Reopen.reopen_reads_flushed` proves this under its first-hit hypotheses); and
`delete_file_in_dir` answers `Ok`. -/
def DeleteGlue (vi i : Nat) (directory : Nat) (name : List Nat) (s1 s2 : Mgr) : Prop :=
  ∃ di d sfn, s2.dirs.findIdx? (·.rawDirectory = directory) = some di ∧ s2.dirs[di]? = some d ∧
    s2.vols.findIdx? (·.rawVolume = d.rawVolume) = some vi ∧ Sfn.createFromStr name = .ok sfn ∧
    (∀ v2 f1, s2.vols[vi]? = some v2 → s1.files[i]? = some f1 →
      ∃ e, (Fat.findDirectoryEntry d.cluster sfn (fsOf s2 v2)).1 = .ok e ∧ e.cluster = f1.entry.cluster) ∧
    (deleteFileInDir directory name s2).1 = .ok ()

/-- **One round.**  From a `Fresh` state with `F ≥ 1` free clusters: buffers of `F * cb` bytes in all
are all accepted (`writeMany` answers `Ok` throughout), after which the file's chain has `F` clusters,
no cluster is free and every further non-empty write answers `DiskFull` and stores nothing;
`close_file` answers `Ok`; and — under `DeleteGlue` — after `delete_file_in_dir` the chains of the
volume are `G` again and `F` clusters are free again. -/
theorem cycle_once (vi : Nat) (G : List (List Nat)) (F h i directory : Nat) (name : List Nat) (s0 : Mgr)
    (bs : List Bytes) (hfresh : Fresh vi G F h i s0) (hF : 1 ≤ F)
    (htotal : ∀ v, s0.vols[vi]? = some v → bs.flatten.length = F * clusterBytesLen v.vol)
    (hglue : DeleteGlue vi i directory name (writeMany h bs s0).2 (closeFile h (writeMany h bs s0).2).2) :
    (writeMany h bs s0).1 = bs.map (fun _ => .ok ()) ∧
    (∃ f1 v1 cs1, WReady (writeMany h bs s0).2 h i vi f1 v1 cs1 G [] ∧ cs1.length = F ∧
       freeCount v1.vol (writeMany h bs s0).2.dev.disk = 0 ∧
       (absFile v1.vol (writeMany h bs s0).2.dev.disk f1 cs1).bytes = bs.flatten ∧
       ∀ data : Bytes, data ≠ [] → f1.currentOffset + data.length ≤ Gen.MAX_FILE_SIZE →
         ∃ s', Model.write h data (writeMany h bs s0).2 = (.err .DiskFull, s') ∧
           ∃ f' v' , WReady s' h i vi f' v' cs1 G [] ∧
             (absFile v'.vol s'.dev.disk f' cs1).bytes = bs.flatten) ∧
    (closeFile h (writeMany h bs s0).2).1 = .ok () ∧
    VolInv vi G F (deleteFileInDir directory name (closeFile h (writeMany h bs s0).2).2).2 := by
  obtain ⟨f0, v0, hr0, hpos0, hsize0, hF0, hmaxF, ho0, hname0, hreg0⟩ := hfresh
  have htot := htotal v0 hr0.hvi
  have hcb : 0 < clusterBytesLen v0.vol := Nat.mul_pos hr0.geom.bpc_pos (by omega)
  have hFcb : 0 < F * clusterBytesLen v0.vol := Nat.mul_pos (by omega) hcb
  have hbsne : bs ≠ [] := by intro e; rw [e] at htot; simp at htot; omega
  obtain ⟨s1, f1, v1, cs1, hrun1, hr1, hsg1, _, hoff1, hsize1, hbytes1, hsum1, hlen1, heb1, heo1, hnm1, hdirty1, hdirs1, hrv1⟩ :=
    fill_ok h i vi G [] bs s0 f0 v0 [] hr0 (by rw [hpos0, hsize0]) (by simp; omega)
      (by rw [hpos0, hF0, htot]; simp) (by rw [hpos0, htot]; simpa using hmaxF)
  have hcb1 : clusterBytesLen v1.vol = clusterBytesLen v0.vol := sameGeom_clusterBytesLen hsg1
  have hcs1 : cs1.length = F := by
    rw [hlen1 hbsne, hpos0, htot]
    unfold needed
    have h1 : cdiv (0 + F * clusterBytesLen v0.vol) (clusterBytesLen v0.vol) ≤ F := cdiv_le hcb (by omega)
    have h2 : F ≤ cdiv (0 + F * clusterBytesLen v0.vol) (clusterBytesLen v0.vol) := le_cdiv hcb (by omega)
    simp only [List.length_nil]
    omega
  have hfree1 : freeCount v1.vol s1.dev.disk = 0 := by
    simp only [List.length_nil] at hsum1
    omega
  have hs1 : (writeMany h bs s0).2 = s1 := by rw [hrun1]
  rw [hs1] at hglue ⊢
  have hcs1ne : cs1 ≠ [] := by intro e; rw [e] at hcs1; simp at hcs1; omega
  have hbytes1' : (absFile v1.vol s1.dev.disk f1 cs1).bytes = bs.flatten := by
    rw [hbytes1]
    show fileContent v0.vol s0.dev.disk [] f0.entry.size ++ _ = _
    unfold fileContent chainBytes
    simp
  -- closing
  obtain ⟨s2, hclose, hok2, hvols2, hdirs2, _, hown2, hcount2⟩ :=
    close_keeps_fat s1 h i vi f1 v1 cs1 G [] hr1 (hdirty1 hbsne) (by rw [heo1]; exact ho0) (by rw [hnm1]; exact hname0)
      (by rw [heb1, SameGeom.regionOf hsg1]; exact hreg0)
  have hs2 : (closeFile h s1).2 = s2 := by rw [hclose]
  rw [hs2] at hglue ⊢
  refine ⟨by rw [hrun1], ⟨f1, v1, cs1, hr1, hcs1, hfree1, hbytes1', ?_⟩, by rw [hclose], ?_⟩
  · -- no further byte is accepted
    intro data hdata hmaxd
    have hlen : 0 < data.length := List.length_pos_iff.2 hdata
    have hpos1 : f1.currentOffset = f1.entry.size := by rw [hoff1, hsize1]
    obtain ⟨k, s', f', v', cs', hrun', hr', _, hpre', hk, _, _, _, hb', hl', _⟩ :=
      fill_over s1 h i vi data f1 v1 cs1 G [] hr1 hpos1 (by omega)
        (by rw [hfree1, hcs1, hcb1, hoff1, hpos0, htot, Nat.add_zero]; omega) hmaxd
    have hk0 : k = 0 := by
      rw [hfree1, hcs1, hcb1, hoff1, hpos0, htot, Nat.add_zero] at hk
      omega
    have hcs' : cs' = cs1 := by
      obtain ⟨t, ht⟩ := hpre'
      have : t.length = 0 := by
        have := congrArg List.length ht
        rw [List.length_append, hl', hfree1] at this
        omega
      rw [List.length_eq_zero_iff.1 this, List.append_nil] at ht
      exact ht.symm
    subst hcs'
    refine ⟨s', hrun', f', v', hr', ?_⟩
    rw [hb', hk0, hbytes1']
    simp
  · -- deleting
    obtain ⟨di, d, sfn, hdi, hd, hv, hsfn, hlook, hdel⟩ := hglue
    have hvi2 : s2.vols[vi]? = some v1 := by rw [hvols2]; exact hr1.hvi
    obtain ⟨e, hfind, hec⟩ := hlook v1 f1 hvi2 hr1.hf
    have hch1 : Chain v1.vol s1.dev.disk f1.entry.cluster cs1 := by
      rcases hr1.fileOK.chain with ⟨_, h2, _⟩ | h3
      · exact absurd h2 hcs1ne
      · exact h3
    obtain ⟨tail, htail⟩ : ∃ tail, cs1 = e.cluster :: tail := by
      rw [hec]
      cases hch1 with
      | last _ _ _ => exact ⟨[], rfl⟩
      | link _ n rest _ _ _ _ => exact ⟨rest, rfl⟩
    have hown2' : Owns v1.vol s2.dev.disk (G ++ [e.cluster :: tail] ++ []) := by
      have := hown2
      unfold withChain at this
      rw [if_neg hcs1ne, htail] at this
      exact this
    generalize hres : deleteFileInDir directory name s2 = res at hdel ⊢
    obtain ⟨rD, sE⟩ := res
    simp only at hdel
    subst hdel
    obtain ⟨vE, hvolsE, _, hsgE, hhintE, hokE, _, _, hownE, _, hcountE, _⟩ :=
      delete_reclaims s2 sE directory di vi name sfn d v1 e G [] tail hok2 hdi hd hv hvi2 hsfn hr1.geom hr1.hint hown2' hfind hres
    have hvilt : vi < s2.vols.length := (List.getElem?_eq_some_iff.1 hvi2).1
    refine ⟨hokE, vE, by rw [hvolsE]; exact List.getElem?_set_self hvilt, hsgE.wfGeom hr1.geom, hhintE, by simpa using hownE, ?_⟩
    show freeCount vE.vol sE.dev.disk = F
    rw [hcountE, hcount2, hfree1, ← hcs1, htail]
    simp

/-- `n` rounds.  Between rounds a new file is created; that `ReadWriteCreate` call is NOT modelled
here: `create` is any relation which, from a state satisfying the invariant, leads to a `Fresh` state
with the same chains and the same number of free clusters (true of `open_file_in_dir` when the
directory has a free slot, e.g. the one the previous round's delete marked `0xE5`). -/
inductive Cycles (vi : Nat) (G : List (List Nat)) (F : Nat) (create : Mgr → Nat → Nat → Mgr → Prop) : Nat → Mgr → Mgr → Prop
  | zero (s : Mgr) : Cycles vi G F create 0 s s
  | succ (n : Nat) (s sn s0 : Mgr) (h i directory : Nat) (name : List Nat) (bs : List Bytes) :
      Cycles vi G F create n s sn → create sn h i s0 →
      (∀ v, s0.vols[vi]? = some v → bs.flatten.length = F * clusterBytesLen v.vol) →
      DeleteGlue vi i directory name (writeMany h bs s0).2 (closeFile h (writeMany h bs s0).2).2 →
      Cycles vi G F create (n + 1) s (deleteFileInDir directory name (closeFile h (writeMany h bs s0).2).2).2

/-- **Fill / delete / refill, indefinitely.**  If creating a file keeps the invariant (hypothesis
`hcreate`), then after any number `n` of rounds — create, fill to capacity (`F * cb` bytes, all
accepted), close, delete — the chains of the volume are `G` and `F` clusters are free, as at the
start: the next round again accepts exactly `F * cb` bytes. -/
theorem cycles_preserve (vi : Nat) (G : List (List Nat)) (F : Nat) (create : Mgr → Nat → Nat → Mgr → Prop) (hF : 1 ≤ F)
    (hcreate : ∀ s h i s0, VolInv vi G F s → create s h i s0 → Fresh vi G F h i s0) :
    ∀ (n : Nat) (s sE : Mgr), VolInv vi G F s → Cycles vi G F create n s sE → VolInv vi G F sE := by
  intro n s sE hinv hc
  induction hc with
  | zero s => exact hinv
  | succ n s sn s0 h i directory name bs _ hcr htot hglue ih =>
    exact (cycle_once vi G F h i directory name s0 bs (hcreate sn h i s0 (ih hinv) hcr) hF htot hglue).2.2.2

end Sdmmc.Lemmas.Capacity
