/-
Refinement of the API to the abstract file system, part 7: `flush_file` and `close_file`.
-/
import Sdmmc.Lemmas.AbsFsEdit
import Sdmmc.Lemmas.VolApi2

namespace Sdmmc.Lemmas.AbsFs
open Sdmmc.Model Sdmmc.Model.Fat Sdmmc.Spec.Volume Sdmmc.Lemmas.VolBase Sdmmc.Lemmas.VolTree
open Sdmmc.Spec hiding NoFault Coherent
open Sdmmc.Spec.AbsFs (Meta view storedMeta fatRound OpenFile OpenDir absStep)
open Sdmmc.Lemmas.VolDisk Sdmmc.Lemmas.VolMed Sdmmc.Lemmas.VolApi Sdmmc.Lemmas.VolEng
open Sdmmc.Lemmas.FBasic (NoFault Coherent)
open Sdmmc.Lemmas.MHoare

section
variable {v : FatVolume} {d : Disk} {files : List FileInfo} {gh : Ghost} {X : List (List Nat)}

/-- `update_info_sector` keeps the invariant and every block of the FAT, the root region and the data
area. -/
theorem updateInfo_frame {fs : FS} (hM : MedX fs.vol fs.dev.disk files gh X) (hn : NoFault fs) (hc : Coherent fs) :
    ∃ fs', updateInfoSector fs = (.ok (), fs') ∧ NoFault fs' ∧ Coherent fs' ∧ fs'.vol = fs.vol ∧
      MedX fs'.vol fs'.dev.disk files gh X ∧
      (∀ i, regionOf fs.vol i = .fat ∨ regionOf fs.vol i = .data ∨ regionOf fs.vol i = .root →
        fs'.dev.disk.get i = fs.dev.disk.get i) := by
  obtain ⟨fs', h, hn', hc', hv, hb', hother, _, hcase⟩ := DirEntryIO.updateInfoSector_state fs hn hc hM.blocksOK
  have hinfo : ∀ i, regionOf fs.vol i = .fat ∨ regionOf fs.vol i = .data ∨ regionOf fs.vol i = .root →
      fs'.dev.disk.get i = fs.dev.disk.get i := by
    intro i hi
    rcases hcase with ⟨_, hd⟩ | ⟨h32, _⟩
    · rw [hd]
    · apply hother
      intro e
      have hgf := FatLens.geom_facts fs.vol hM.geom
      have := FatLens.info_block_in_info_region fs.vol hM.geom h32 (by
        have := FatLens.fatsEnd_ge fs.vol hM.geom
        omega)
      rw [← e] at this
      rcases hi with hi | hi | hi <;> rw [hi] at this <;> cases this
  refine ⟨fs', h, hn', hc', hv, ?_, hinfo⟩
  rw [hv]
  apply med_congr hM (SameGeom.refl _) hM.hint hb'
  · intro c hcl
    exact hinfo _ (.inl (FatLens.fat_blocks_in_fat_region fs.vol hM.geom c hcl).1)
  · intro h hh
    apply dirSlots_congr
    intro s hs
    rcases dirSlot_not_fat hM hh hs with h1 | h1
    · exact hinfo _ (.inr (.inl h1))
    · exact hinfo _ (.inr (.inr h1))

/-- A kept slot before the end marker that is no directory entry is an object of the directory. -/
theorem view_object (hM : MedX v d files gh X) {h : Nat} (hh : h ∈ dirIds gh.dirs) {o : Slot}
    (ho : o ∈ beforeEnd (dirSlots v d gh.G h)) (hk : keep o = true) (hod : isDirE o = false) :
    o ∈ objects h (dirSlots v d gh.G h) := by
  have hoe : o ∈ entries (dirSlots v d gh.G h) := by
    rw [entries_eq, List.mem_filter]; exact ⟨ho, hk⟩
  refine VolEng.entry_object (ft := v.fatType) hoe hod fun h0 => ?_
  rcases mem_dirIds.1 hh with e | ⟨p, hp⟩
  · exact absurd e h0
  · obtain ⟨s0, s1, rest, hss, hd0, hd1⟩ := hM.tree.dots h p hp
    exact ⟨p, s0, s1, rest, hss, hd0, hd1⟩

end

/-- `absSlot` uses the bytes only for file slots. -/
theorem absSlot_cont_congr (ft : FatType) (c1 c2 : Slot → Bytes) (o : Slot)
    (h : keep o = true → isDirE o = false → c1 o = c2 o) : absSlot ft c1 o = absSlot ft c2 o := by
  unfold absSlot
  by_cases h1 : first o = 0xE5
  · rw [if_pos h1, if_pos h1]
  · rw [if_neg h1, if_neg h1]
    by_cases h2 : isFrag o = true
    · rw [if_pos h2, if_pos h2]
    · rw [if_neg h2, if_neg h2]
      by_cases h3 : isDirE o = true
      · rw [if_pos h3, if_pos h3]
      · rw [if_neg h3, if_neg h3, h (by unfold keep; simp [h1, h2]) (by simpa using h3)]

/-- The view of a directory split at an index. -/
theorem view_index_split {ss : List Slot} {i : Nat} {o : Slot} (ho : (beforeEnd ss)[i]? = some o) :
    ∃ pre post, ss = pre ++ o :: post ∧ pre.length = i ∧ (∀ x, x ∈ pre → first x ≠ 0) ∧ first o ≠ 0 := by
  have hlt : i < (beforeEnd ss).length := (List.getElem?_eq_some_iff.1 ho).1
  have hget : (beforeEnd ss)[i] = o := (List.getElem?_eq_some_iff.1 ho).2
  refine ⟨(beforeEnd ss).take i, (beforeEnd ss).drop (i + 1) ++ ss.dropWhile (fun s => decide (first s ≠ 0)), ?_, ?_, ?_, ?_⟩
  · have h1 : ss = beforeEnd ss ++ ss.dropWhile (fun s => decide (first s ≠ 0)) := (List.takeWhile_append_dropWhile).symm
    have h2 : beforeEnd ss = (beforeEnd ss).take i ++ o :: (beforeEnd ss).drop (i + 1) := by
      rw [← hget]
      exact (List.take_append_drop i _).symm.trans (by rw [List.drop_eq_getElem_cons hlt])
    rw [← List.cons_append, ← List.append_assoc, ← h2]
    exact h1
  · rw [List.length_take]; omega
  · intro x hx
    exact (mem_beforeEnd (List.mem_of_mem_take hx)).2
  · exact (mem_beforeEnd (List.mem_of_getElem? ho)).2

/-! ### `flush_file` of a dirty file -/

theorem flush_dirty_refines {s : Mgr} {gh : Ghost} {a : AState} (hI : VolInv s gh) (hA : Abs s gh a) {h i : Nat} {f : FileInfo}
    {af : OpenFile} (hidx : s.files.findIdx? (·.rawFile = h) = some i) (hf : s.files[i]? = some f)
    (hrel : FileRel s gh af f) (hd : f.dirty = true) :
    ∃ s' m bytes, flushFile h s = (.ok (), s') ∧ VolInv s' gh ∧ s'.files = s.files ∧ s'.dirs = s.dirs ∧ s'.nextId = s.nextId ∧
      (a.slots af.dir)[af.idx]? = some (.file m bytes) ∧
      Abs s' gh (Spec.AbsFs.setSlot a af.dir af.idx (.file (storedMeta af.pm) bytes)) := by
  have hfm : f ∈ s.files := List.mem_of_getElem? hf
  obtain ⟨vi, hv, hvol, hrv, h3⟩ := vol_of_file hI hfm
  obtain ⟨hn, hc, hM⟩ := volInv_fs hI
  have hassert : ¬ (f.entry.size ≠ 0 ∧ f.entry.cluster = 0) := by
    rintro ⟨hs, hcl⟩
    obtain ⟨hok, _⟩ := hI.med.fileOK f hfm
    rcases hok.chain with ⟨_, _, h0⟩ | hch
    · exact hs h0
    · have := (ChainL.chain_inRange hch _ (ForestBase.chain_head_mem hch)).1
      omega
  -- the engine run
  obtain ⟨fs1, hr1, hn1, hc1, hv1, hM1, hfr1⟩ := updateInfo_frame hM hn hc
  obtain ⟨fs2, hr2, hd2, hv2, hn2, hc2⟩ := writeEntryToDisk_exact fs1 f.entry hn1 hc1
  obtain ⟨fs2', hr2', _, _, _, hM2, _⟩ := flush_med hM1 hn1 hc1 hfm
  have e22 : fs2' = fs2 := by rw [hr2] at hr2'; exact (congrArg Prod.snd hr2').symm
  subst e22
  have hrun : DirEntryIO.flushF f.entry (fsOf s gh) = (.ok (), fs2') := by
    unfold DirEntryIO.flushF
    rw [FBasic.bind_ok hr1, hr2]
  have hvv : fs2'.vol = gh.vol := hv2.trans hv1
  have hflush : flushFile h s = (.ok (), afterVol s vi fs2') := by
    rw [DirMgr.flushFile_dirty h i 0 f s (getFileById_ok hidx) (getFile_ok hf) hd h3 hassert, withVol_one _ hv hvol, hrun]
  have hI' : VolInv (afterVol s vi fs2') gh := volInv_afterVol hI hv hn2 hc2 hvv.symm hM2 (fun _ h => h)
  -- the slot
  obtain ⟨o, ho, hpo, hobj, hk, hod, hpend, hslot⟩ := handle_slot hI hA hfm hrel
  have hh := hrel.dirMem
  obtain ⟨pre, post, hsp, hplen, hpre, hnz⟩ := view_index_split ho
  have hmem : o ∈ dirSlots gh.vol s.dev.disk gh.G af.dir := by rw [hsp]; simp
  have hol := mem_dirSlots_length hM.blocksOK hmem
  obtain ⟨_, _, _, hnm, _, _⟩ := open_file_object hM hfm hh ho hpo
  have hname : f.entry.name.length = 11 := by
    rw [← hnm]; unfold sName; rw [List.length_take, hol]; rfl
  obtain ⟨hcb, hsb⟩ := file_record_facts hM hfm
  obtain ⟨ha1, ha2, ha3, _⟩ := hI.med.tree.fileAttrs f hfm
  have hcl32 : f.entry.cluster < 4294967296 := by
    cases hft : gh.vol.fatType <;> rw [show (fsOf s gh).vol = gh.vol from rfl, hft] at hcb <;> simp only at hcb <;> omega
  obtain ⟨hp1, hp2⟩ := Prod.mk.inj hpo
  -- the media
  have hslots1 : ∀ x, x ∈ dirIds gh.dirs → dirSlots gh.vol fs1.dev.disk gh.G x = dirSlots gh.vol s.dev.disk gh.G x := by
    intro x hx
    apply dirSlots_congr
    intro t ht
    rcases dirSlot_not_fat hM hx ht with r | r
    · exact hfr1 _ (.inr (.inl r))
    · exact hfr1 _ (.inr (.inr r))
  have hsp1 : dirSlots fs1.vol fs1.dev.disk gh.G af.dir = pre ++ o :: post := by
    rw [hv1]; show dirSlots gh.vol fs1.dev.disk gh.G af.dir = _; rw [hslots1 _ hh]; exact hsp
  have hbl : (DirEntry.serialize gh.vol.fatType f.entry).length = 32 := VolDisk.serialize_length _ _ hname
  obtain ⟨_, _, hnewsl, hothers⟩ := slot_write hM1 hh hsp1 (DirEntry.serialize gh.vol.fatType f.entry) hbl
  have hdisk2 : fs2'.dev.disk = fs1.dev.disk.set o.1 (splice (fs1.dev.disk.get o.1) o.2.1 (DirEntry.serialize gh.vol.fatType f.entry)) := by
    rw [hd2, ← hp1, ← hp2, hv1]; rfl
  set new : Slot := (o.1, o.2.1, DirEntry.serialize gh.vol.fatType f.entry) with hnewdef
  have hslots2h : dirSlots gh.vol fs2'.dev.disk gh.G af.dir = pre ++ new :: post := by
    rw [hdisk2]
    have := hnewsl
    rw [hv1] at this
    exact this
  have hslots2o : ∀ x, x ∈ dirIds gh.dirs → x ≠ af.dir → dirSlots gh.vol fs2'.dev.disk gh.G x = dirSlots gh.vol s.dev.disk gh.G x := by
    intro x hx hne
    rw [hdisk2]
    have := hothers x hx hne
    rw [hv1] at this
    rw [show dirSlots gh.vol _ gh.G x = _ from this]
    exact hslots1 x hx
  -- fields of the new slot
  have hfirst : first new = first o := by
    rw [hnewdef, serialize_first _ _ _ _ hname, ← hnm]
    unfold first sName byteAt
    cases hb : o.2.2 with
    | nil => rfl
    | cons a l => rfl
  have hattr : sAttr new = f.entry.attributes := serialize_sAttr _ _ _ _ hname ha1
  have hnewkeep : keep new = true := by
    unfold keep at hk ⊢
    unfold isFrag at hk ⊢
    rw [hfirst, hattr]
    simp only [Bool.and_eq_true, decide_eq_true_eq, Bool.not_eq_true', decide_eq_false_iff_not] at hk ⊢
    exact ⟨hk.1, ha2⟩
  have hnewdir : isDirE new = false := by
    unfold isDirE; rw [hattr]; simp [ha3]
  have hpnew : pendOf s.files new = some f := by rw [← hpend]; exact pendOf_pos s.files _ _ rfl
  -- the views
  have hs'disk : (afterVol s vi fs2').dev.disk = fs2'.dev.disk := rfl
  have hs'files : (afterVol s vi fs2').files = s.files := rfl
  obtain ⟨hview, _, _⟩ := view_split (ss' := dirSlots gh.vol fs2'.dev.disk gh.G af.dir) hsp hslots2h hpre
    (by rw [hfirst]; exact hnz) (.inl hnz)
  rw [hplen] at hview
  have hview' : DirView (afterVol s vi fs2') gh af.dir = putL (DirView s gh af.dir) af.idx new := hview
  have hother' : ∀ x, x ∈ dirIds gh.dirs → x ≠ af.dir → DirView (afterVol s vi fs2') gh x = DirView s gh x := by
    intro x hx hne
    unfold DirView
    rw [hs'disk, hslots2o x hx hne]
  -- file bytes
  have hbytes : ∀ x, x ∈ dirIds gh.dirs → ∀ o', o' ∈ objects x (dirSlots gh.vol s.dev.disk gh.G x) → isDirE o' = false →
      ∀ n, fileContent gh.vol fs2'.dev.disk (chainOf gh.G (effCluster gh.vol.fatType s.files o')) n =
        fileContent gh.vol s.dev.disk (chainOf gh.G (effCluster gh.vol.fatType s.files o')) n := by
    intro x hx o' ho' hod' n
    apply fileContent_congr'
    intro c hcm j hj
    have hne : clusterToBlock gh.vol c + j ≠ o.1 := dirBlock_not_fileChain hM hh hmem hx ho' hod' c hcm j hj
    rw [hdisk2, FBasic.Disk.get_set_ne _ _ _ _ (fun e => hne e.symm)]
    apply hfr1
    have hG := med_heads hM
    have hnil : chainOf gh.G (effCluster gh.vol.fatType s.files o') ≠ [] := by intro h0; rw [h0] at hcm; cases hcm
    obtain ⟨hmemG, _⟩ := chainOf_spec hG ((chainOf_ne_nil_iff hG).1 hnil)
    have hcr := med_inRange hM hmemG hcm
    exact .inr (.inl (FatLens.cluster_blocks_in_data_region gh.vol hM.geom c j hcr.1 hcr.2 hj))
  have hcont : ∀ x, x ∈ dirIds gh.dirs → ∀ j o', (DirView s gh x)[j]? = some o' → (x = af.dir → j ≠ af.idx) →
      absSlot gh.vol.fatType (contOf (afterVol s vi fs2') gh) o' = absSlot gh.vol.fatType (contOf s gh) o' := by
    intro x hx j o' ho' _
    apply absSlot_cont_congr
    intro hk' hd'
    have hobj' := view_object hM hx (List.mem_of_getElem? ho') hk' hd'
    unfold contOf contentOf
    rw [hs'disk, hs'files]
    exact hbytes x hx o' hobj' hd' _
  have hnewabs : absSlot gh.vol.fatType (contOf (afterVol s vi fs2') gh) new =
      .file (storedMeta af.pm) (fileContent gh.vol s.dev.disk (chainOf gh.G f.entry.cluster) f.entry.size) := by
    rw [absSlot_file hnewkeep hnewdir, hnewdef, metaOf_serialize _ _ _ _ hname ha1 hsb hcl32, hrel.pm]
    congr 1
    unfold contOf
    rw [contentOf_open (by rw [hs'files]; exact hpnew), hs'disk]
    have := hbytes af.dir hh o hobj hod f.entry.size
    rw [effCluster_of_pend hpend] at this
    exact this
  refine ⟨afterVol s vi fs2', _, _, hflush, hI', rfl, rfl, rfl, hslot, ?_⟩
  rw [← hnewabs]
  refine ⟨hA.nextId, hA.maxDirs, hA.maxFiles, hA.clock, hA.locked, ?_, hA.dirs, ?_, hA.ids,
    slots_edit hA rfl hh hview' hother' hcont⟩
  · show a.vols = [{ vi with vol := fs2'.vol }].map _
    rw [hA.vols, hv]; rfl
  · show List.Forall₂ (FileRel (afterVol s vi fs2') gh) a.files s.files
    refine forall₂_mono hA.files fun af1 f1 hf1 hr1 => fileRel_edit hr1 rfl hview' hother' fun hdd hii => ?_
    -- only the flushed file sits at the rewritten slot
    obtain ⟨o1, ho1, hp1'⟩ := hr1.slot
    rw [hdd, hii, ho] at ho1
    cases ho1
    exact hp1'

/-! ### `flush_file` -/

theorem flushF_clean {a : AState} {h i : Nat} {af : OpenFile} (hfo : Spec.AbsFs.fileOf a h = some (i, af)) (hd : af.dirty = false) :
    Spec.AbsFs.flushF a h = (a, .ok .unit) := by
  unfold Spec.AbsFs.flushF
  rw [hfo]
  simp only [hd, Bool.not_false, if_true]

theorem flushF_dirty {a : AState} {h i : Nat} {af : OpenFile} {m : Meta} {bytes : Bytes}
    (hfo : Spec.AbsFs.fileOf a h = some (i, af)) (hd : af.dirty = true) (hv : Spec.AbsFs.volOpen a af.volume = true)
    (hslot : (a.slots af.dir)[af.idx]? = some (.file m bytes)) :
    Spec.AbsFs.flushF a h = (Spec.AbsFs.setSlot a af.dir af.idx (.file (storedMeta af.pm) bytes), .ok .unit) := by
  unfold Spec.AbsFs.flushF
  rw [hfo]
  simp only [hd, hv, Bool.not_true, Bool.false_eq_true, if_false, hslot]

/-- `flush_file` on any handle: outcome, both relations afterwards, tables untouched. -/
theorem flush_refines (h : Nat) {s : Mgr} {gh : Ghost} {a : AState} (hI : VolInv s gh) (hA : Abs s gh a) :
    VolInv (flushFile h s).2 gh ∧ Abs (flushFile h s).2 gh (Spec.AbsFs.flushF a h).1 ∧
    (Spec.AbsFs.flushF a h).2 = (flushFile h s).1.bind (fun _ => .ok Payload.unit) ∧
    (flushFile h s).2.files = s.files ∧ (flushFile h s).2.dirs = s.dirs ∧ (flushFile h s).2.nextId = s.nextId := by
  cases hidx : s.files.findIdx? (·.rawFile = h) with
  | none =>
    have hrun : flushFile h s = (.err .BadHandle, s) := by
      unfold flushFile; rw [bind_err (getFileById_bad hidx)]
    have habs : Spec.AbsFs.flushF a h = (a, .err .BadHandle) := by
      unfold Spec.AbsFs.flushF; rw [fileOf_none hA hidx]
    rw [hrun, habs]
    exact ⟨hI, hA, rfl, rfl, rfl, rfl⟩
  | some i =>
    obtain ⟨f, af, hf, haf, hrel, hfo⟩ := fileOf_some hA hidx
    have hfm : f ∈ s.files := List.mem_of_getElem? hf
    cases hd : f.dirty with
    | false =>
      rw [DirMgr.flushFile_clean h i f s (getFileById_ok hidx) (getFile_ok hf) hd,
        flushF_clean hfo (by rw [hrel.dirty]; exact hd)]
      exact ⟨hI, hA, rfl, rfl, rfl, rfl⟩
    | true =>
      obtain ⟨s', m, bytes, hrun, hI', h1, h2, h3, hslot, hA'⟩ := flush_dirty_refines hI hA hidx hf hrel hd
      obtain ⟨vi, hv, _, hrv, _⟩ := vol_of_file hI hfm
      have hvopen : Spec.AbsFs.volOpen a af.volume = true := by
        rw [volOpen_abs hA, hrel.volume, hv]; simp [hrv]
      rw [hrun, flushF_dirty hfo (by rw [hrel.dirty]; exact hd) hvopen hslot]
      exact ⟨hI', hA', rfl, h1, h2, h3⟩

theorem refines_flush (h : Nat) {s : Mgr} {gh : Ghost} {a : AState} (hI : VolInv s gh) (hA : Abs s gh a) :
    Refines (.flush h) s gh a := by
  have hl : a.locked = false := hA.locked.trans hI.unlocked
  unfold Refines
  rw [show runOp (.flush h) s = (flushFile h >>= fun _ => pure Payload.unit) s from rfl, run_seq]
  obtain ⟨hI', hA', hres, _⟩ := flush_refines h hI hA
  refine ⟨gh, _, hI', SameGeom.refl _, hA', ?_⟩
  unfold absStep
  rw [if_neg (by rw [hl]; exact Bool.false_ne_true)]
  show (_, _) = Spec.AbsFs.flushF a h
  rw [← hres]

/-! ### `close_file` -/

theorem pendOf_swapRemove {files : List FileInfo} (hnd : (files.map fkey).Nodup) {i : Nat} {f : FileInfo}
    (hi : files[i]? = some f) (o : Slot) :
    pendOf (swapRemove files i) o = if spos o = fkey f then none else pendOf files o := by
  have hp := swapRemove_perm files i f hi
  have hnd2 : ((files.eraseIdx i).map fkey).Nodup := hnd.sublist ((List.eraseIdx_sublist files i).map fkey)
  rw [pendOf_perm hnd2 hp.symm o]
  by_cases hs : spos o = fkey f
  · rw [if_pos hs, pendOf_none_iff]
    intro g hg he
    obtain ⟨j, hj, hne, hjg⟩ := List.mem_eraseIdx_iff_getElem.1 hg
    obtain ⟨hilt, hif⟩ := List.getElem?_eq_some_iff.1 hi
    have e1 : (files.map fkey)[j]'(by simpa using hj) = (files.map fkey)[i]'(by simpa using hilt) := by
      simp only [List.getElem_map]
      rw [hjg, hif, he, hs]
    exact hne ((List.Nodup.getElem_inj_iff hnd).1 e1)
  · rw [if_neg hs]; exact pendOf_eraseIdx_other hi hs

theorem absSlots_congr_mem {s s' : Mgr} {gh : Ghost} (hd : s'.dev.disk = s.dev.disk) (h : Nat)
    (hc : ∀ o, o ∈ DirView s gh h → keep o = true → isDirE o = false → contOf s' gh o = contOf s gh o) :
    absSlots s' gh h = absSlots s gh h := by
  rw [absSlots_eq, absSlots_eq]
  have : DirView s' gh h = DirView s gh h := by unfold DirView; rw [hd]
  rw [this]
  apply List.map_congr_left
  intro o ho
  exact absSlot_cont_congr _ _ _ o (hc o ho)

theorem flushF_fields (a : AState) (h : Nat) :
    (Spec.AbsFs.flushF a h).1 = { a with slots := (Spec.AbsFs.flushF a h).1.slots } := by
  unfold Spec.AbsFs.flushF
  cases Spec.AbsFs.fileOf a h with
  | none => rfl
  | some p =>
    obtain ⟨i, f⟩ := p
    simp only
    split
    · rfl
    · split
      · rfl
      · split <;> rfl

theorem refines_closeFile (h : Nat) {s : Mgr} {gh : Ghost} {a : AState} (hI : VolInv s gh) (hA : Abs s gh a) :
    Refines (.closeFile h) s gh a := by
  have hl : a.locked = false := hA.locked.trans hI.unlocked
  unfold Refines
  rw [show runOp (.closeFile h) s = (closeFile h >>= fun _ => pure Payload.unit) s from rfl, run_seq]
  have hgoal : ∀ (a' : AState) (r : Res Payload), absStep a (.closeFile h) (a', r) ↔ Spec.AbsFs.closeFileS a h a' r := by
    intro a' r
    unfold absStep
    rw [if_neg (by rw [hl]; exact Bool.false_ne_true)]
  obtain ⟨hI1, hA1, hres, hfiles, hdirs, hnid⟩ := flush_refines h hI hA
  rcases hfl : flushFile h s with ⟨r, s1⟩
  rw [hfl] at hI1 hA1 hres hfiles hdirs hnid
  simp only at hI1 hA1 hres hfiles hdirs hnid
  cases hidx : s.files.findIdx? (·.rawFile = h) with
  | none =>
    have hfl' : flushFile h s = (.err .BadHandle, s) := by
      unfold flushFile; rw [bind_err (getFileById_bad hidx)]
    rw [hfl'] at hfl
    cases hfl
    have hrun : closeFile h s = (.err .BadHandle, s) := by
      unfold closeFile
      rw [attempt_bind, hfl']
      dsimp only
      rw [bind_err (getFileById_bad hidx)]
    rw [hrun]
    refine ⟨gh, a, hI, SameGeom.refl _, hA, (hgoal a _).2 ?_⟩
    unfold Spec.AbsFs.closeFileS
    rw [fileIdx_abs hA, hidx]
    exact ⟨rfl, rfl⟩
  | some i =>
    have hidx1 : s1.files.findIdx? (·.rawFile = h) = some i := by rw [hfiles]; exact hidx
    have hrun : closeFile h s = (r, { s1 with files := swapRemove s1.files i }) := by
      unfold closeFile
      rw [attempt_bind, hfl]
      dsimp only
      rw [bind_ok (getFileById_ok hidx1), modify_bind]
      rfl
    rw [hrun]
    obtain ⟨f, hf, _⟩ := findIdx?_some_get hidx
    obtain ⟨s1', hfl', _, _, _, gh1, _, hsg1, hD1, hG1, hsync⟩ := flush_api hI hidx hf
    rw [hfl] at hfl'
    obtain ⟨rfl, rfl⟩ := Prod.mk.inj hfl'
    have hf1 : s1.files[i]? = some f := by rw [hfiles]; exact hf
    have hM1 := medX_of_med hI1.med
    have hsync' : ∀ x, x ∈ dirIds gh.dirs → ∀ o, o ∈ objects x (dirSlots gh.vol s1.dev.disk gh.G x) → spos o = fkey f →
        sCluster gh.vol.fatType o = f.entry.cluster ∧ sSize o = f.entry.size := by
      intro x hx o ho hp
      have := hsync x (by rw [hD1]; exact hx) o (by rw [hG1, dirSlots_sameGeom hsg1]; exact ho) hp
      obtain ⟨c, hnt, e⟩ := hsg1
      rw [e] at this
      exact this
    -- the invariant
    have hI2 : VolInv { s1 with files := swapRemove s1.files i } gh := by
      have htc := tree_close hI1.med.tree (med_heads hM1) (objPos_nodup hM1) hf1 hsync'
      have hp := swapRemove_perm s1.files i f hf1
      have hsub : ∀ g, g ∈ swapRemove s1.files i → g ∈ s1.files :=
        fun g hg => (List.eraseIdx_sublist s1.files i).subset (hp.subset hg)
      apply volInv_files hI1 _ hsub
      exact ⟨hI1.med.blocksOK, hI1.med.geom, hI1.med.hint, hI1.med.owns, tree_files_perm htc hp.symm,
        fun g hg => hI1.med.fileOK g (hsub g hg)⟩
    -- the abstraction
    have hnd := hI1.med.tree.filesDistinct
    have hA2 : Abs { s1 with files := swapRemove s1.files i } gh
        { (Spec.AbsFs.flushF a h).1 with files := swapRemove a.files i } := by
      have hfa : (Spec.AbsFs.flushF a h).1.files = a.files := by rw [flushF_fields a h]
      refine ⟨hA1.nextId, hA1.maxDirs, hA1.maxFiles, hA1.clock, hA1.locked, hA1.vols, hA1.dirs, ?_, hA1.ids, ?_⟩
      · show List.Forall₂ _ (swapRemove a.files i) (swapRemove s1.files i)
        have := forall₂_swapRemove hA1.files i
        rw [hfa] at this
        exact forall₂_mono this fun _ _ _ hr => hr.of_disk rfl
      · intro x hx
        show (Spec.AbsFs.flushF a h).1.slots x = absSlots { s1 with files := swapRemove s1.files i } gh x
        rw [hA1.slots x hx]
        refine (absSlots_congr_mem (s := s1) (s' := { s1 with files := swapRemove s1.files i }) rfl x ?_).symm
        intro o ho hk hod
        have hobj := view_object hM1 hx ho hk hod
        unfold contOf contentOf effCluster effSize
        show fileContent gh.vol s1.dev.disk (chainOf gh.G (match pendOf (swapRemove s1.files i) o with | some f => _ | none => _))
          (match pendOf (swapRemove s1.files i) o with | some f => _ | none => _) = _
        rw [pendOf_swapRemove hnd hf1 o]
        by_cases hs : spos o = fkey f
        · rw [if_pos hs]
          have hpo : pendOf s1.files o = some f :=
            (pendOf_some_iff hnd o f).2 ⟨List.mem_of_getElem? hf1, hs.symm⟩
          rw [hpo]
          obtain ⟨e1, e2⟩ := hsync' x hx o hobj hs
          simp only
          rw [e1, e2]
        · rw [if_neg hs]
          rfl
    refine ⟨gh, _, hI2, SameGeom.refl _, hA2, (hgoal _ _).2 ?_⟩
    unfold Spec.AbsFs.closeFileS
    rw [fileIdx_abs hA, hidx]
    exact ⟨rfl, hres.symm⟩

end Sdmmc.Lemmas.AbsFs
