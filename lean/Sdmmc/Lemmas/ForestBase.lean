/-
Base lemmas for `Props/C05Forest.lean`:

* bridges between the three names of one FAT entry (`Spec.fatRaw` = `DirFat.rawEntry`,
  `Spec.fatEntry` = `FatOps.entryOnDisk`);
* `SameGeom`: a volume record whose bookkeeping fields changed reads the FAT the same way;
* classification of an entry (`isFree`, `isBad`, `isUsed`) against `decodeNext`;
* chains: transfer to another medium (`chain_transfer`), members are used, splitting at a cluster,
  re-terminating a prefix, appending a cluster, length bound (fuel adequacy of `chainFuel`).
-/
import Sdmmc.Spec.Forest
import Sdmmc.Lemmas.Chain
import Sdmmc.Lemmas.DirFat

namespace Sdmmc.Lemmas.ForestBase
open Sdmmc.Model Sdmmc.Model.Fat Sdmmc.Spec
open Sdmmc.Lemmas.FBasic hiding NoFault Coherent
open Sdmmc.Lemmas.FatOps hiding BlocksOK Mirror HintOK
open Sdmmc.Lemmas.ChainL

/-! ### One entry, three names -/

theorem fatRaw_eq_rawEntry (v : FatVolume) (d : Disk) (c : Nat) : fatRaw v d c = DirFat.rawEntry v d c := rfl
theorem fatEntry_eq_entryOnDisk (v : FatVolume) (d : Disk) (c : Nat) : fatEntry v d c = entryOnDisk v d c := rfl
theorem isFree_iff (v : FatVolume) (d : Disk) (c : Nat) : isFree v d c ↔ entryOnDisk v d c = 0 := Iff.rfl

/-! ### `SameGeom` -/

theorem _root_.Sdmmc.Spec.SameGeom.refl (v : FatVolume) : SameGeom v v := ⟨v.freeClustersCount, v.nextFreeCluster, rfl⟩

theorem _root_.Sdmmc.Spec.SameGeom.trans {v v' v'' : FatVolume} (h1 : SameGeom v v') (h2 : SameGeom v' v'') : SameGeom v v'' := by
  obtain ⟨a, b, rfl⟩ := h1
  obtain ⟨a', b', rfl⟩ := h2
  exact ⟨a', b', rfl⟩

theorem _root_.Sdmmc.Spec.SameGeom.symm {v v' : FatVolume} (h : SameGeom v v') : SameGeom v' v := by
  obtain ⟨a, b, rfl⟩ := h
  exact ⟨v.freeClustersCount, v.nextFreeCluster, rfl⟩

theorem _root_.Sdmmc.Spec.SameGeom.of_eq {v v' : FatVolume} (h : v' = v) : SameGeom v v' := by subst h; exact SameGeom.refl _

theorem _root_.Sdmmc.Spec.SameGeom.endCluster {v v' : FatVolume} (h : SameGeom v v') : endCluster v' = endCluster v := by
  obtain ⟨a, b, rfl⟩ := h; rfl
theorem _root_.Sdmmc.Spec.SameGeom.fatType {v v' : FatVolume} (h : SameGeom v v') : v'.fatType = v.fatType := by
  obtain ⟨a, b, rfl⟩ := h; rfl
theorem _root_.Sdmmc.Spec.SameGeom.fatRaw {v v' : FatVolume} (h : SameGeom v v') (d : Disk) (c : Nat) : fatRaw v' d c = fatRaw v d c := by
  obtain ⟨a, b, rfl⟩ := h; rfl
theorem _root_.Sdmmc.Spec.SameGeom.fatEntry {v v' : FatVolume} (h : SameGeom v v') (d : Disk) (c : Nat) :
    fatEntry v' d c = fatEntry v d c := by
  obtain ⟨a, b, rfl⟩ := h; rfl
theorem _root_.Sdmmc.Spec.SameGeom.nextOf {v v' : FatVolume} (h : SameGeom v v') (d : Disk) (c : Nat) : nextOf v' d c = nextOf v d c := by
  obtain ⟨a, b, rfl⟩ := h; rfl
theorem _root_.Sdmmc.Spec.SameGeom.inRange {v v' : FatVolume} (h : SameGeom v v') (c : Nat) : InRange v' c ↔ InRange v c := by
  obtain ⟨a, b, rfl⟩ := h; exact Iff.rfl
theorem _root_.Sdmmc.Spec.SameGeom.isFree {v v' : FatVolume} (h : SameGeom v v') (d : Disk) (c : Nat) : isFree v' d c ↔ isFree v d c := by
  obtain ⟨a, b, rfl⟩ := h; exact Iff.rfl
theorem _root_.Sdmmc.Spec.SameGeom.isBad {v v' : FatVolume} (h : SameGeom v v') (d : Disk) (c : Nat) : isBad v' d c ↔ isBad v d c := by
  obtain ⟨a, b, rfl⟩ := h; exact Iff.rfl
theorem _root_.Sdmmc.Spec.SameGeom.isUsed {v v' : FatVolume} (h : SameGeom v v') (d : Disk) (c : Nat) : isUsed v' d c ↔ isUsed v d c := by
  obtain ⟨a, b, rfl⟩ := h; exact Iff.rfl
theorem _root_.Sdmmc.Spec.SameGeom.mirror {v v' : FatVolume} (h : SameGeom v v') (d : Disk) : Mirror v' d ↔ Mirror v d := by
  obtain ⟨a, b, rfl⟩ := h; exact Iff.rfl
theorem _root_.Sdmmc.Spec.SameGeom.regionOf {v v' : FatVolume} (h : SameGeom v v') (i : Nat) : regionOf v' i = regionOf v i := by
  obtain ⟨a, b, rfl⟩ := h; rfl
theorem _root_.Sdmmc.Spec.SameGeom.wfGeom {v v' : FatVolume} (h : SameGeom v v') (hg : WFGeom v) : WFGeom v' := by
  obtain ⟨a, b, rfl⟩ := h
  exact ⟨hg.bpc_pos, hg.fat_after_boot, hg.second_after_first, hg.root16, hg.root32, hg.data_fits, hg.count_bound⟩

/-! ### Classification of an entry -/

theorem not_free_of_eof {v : FatVolume} {d : Disk} {c : Nat} (h : nextOf v d c = .err .EndOfFile) :
    ¬ isFree v d c ∧ ¬ isBad v d c := by
  unfold nextOf decodeNext at h
  unfold isFree isBad fatEntry badMark
  cases hft : v.fatType <;> rw [hft] at h <;> simp only at h ⊢
  · split at h
    · cases h
    · split at h
      · constructor <;> omega
      · cases h
  · split at h
    · cases h
    · split at h
      · cases h
      · split at h
        · constructor <;> omega
        · cases h

theorem not_free_of_link {v : FatVolume} {d : Disk} {c n : Nat} (h : nextOf v d c = .ok n) (h2 : 2 ≤ n) :
    ¬ isFree v d c ∧ ¬ isBad v d c := by
  unfold nextOf decodeNext at h
  unfold isFree isBad fatEntry badMark
  cases hft : v.fatType <;> rw [hft] at h <;> simp only at h ⊢
  · split at h
    · cases h
    · split at h
      · cases h
      · cases h; constructor <;> omega
  · split at h
    · cases h
    · split at h
      · cases h
      · split at h
        · cases h
        · cases h; constructor <;> omega

/-- A free entry is neither an end-of-chain mark nor a link to a data cluster. -/
theorem free_not_used {v : FatVolume} {d : Disk} {c : Nat} (h : isFree v d c) : ¬ isUsed v d c :=
  fun hu => hu.2.1 h

/-! ### Chains -/

/-- A chain read through another volume record / on another medium that decodes the entries of the
chain's clusters the same way. -/
theorem chain_transfer {v v' : FatVolume} {d d' : Disk} {c : Nat} {cs : List Nat} (h : Chain v d c cs)
    (hE : endCluster v' = endCluster v) (hx : ∀ x, x ∈ cs → nextOf v' d' x = nextOf v d x) : Chain v' d' c cs := by
  induction h with
  | last c hr he =>
    refine Chain.last c ⟨hr.1, by rw [hE]; exact hr.2⟩ ?_
    rw [hx c (List.mem_singleton.2 rfl)]; exact he
  | link c n rest hr hn hnot _ ih =>
    refine Chain.link c n rest ⟨hr.1, by rw [hE]; exact hr.2⟩ ?_ hnot (ih fun x hx' => hx x (List.mem_cons_of_mem _ hx'))
    rw [hx c List.mem_cons_self]; exact hn

theorem nextOf_congr {v v' : FatVolume} {d d' : Disk} {c : Nat} (hft : v'.fatType = v.fatType)
    (h : fatRaw v' d' c = fatRaw v d c) : nextOf v' d' c = nextOf v d c := by
  unfold nextOf; rw [hft, h]

theorem chain_sameGeom {v v' : FatVolume} {d : Disk} {c : Nat} {cs : List Nat} (hs : SameGeom v v')
    (h : Chain v d c cs) : Chain v' d c cs :=
  chain_transfer h hs.endCluster fun x _ => hs.nextOf d x

theorem chain_head_eq {v : FatVolume} {d : Disk} {c : Nat} {cs : List Nat} (h : Chain v d c cs) : cs.headD 0 = c := by
  cases h <;> rfl

theorem chain_head_mem {v : FatVolume} {d : Disk} {c : Nat} {cs : List Nat} (h : Chain v d c cs) : c ∈ cs := by
  cases h <;> exact List.mem_cons_self

/-- Every cluster of a chain is used. -/
theorem chain_mem_used {v : FatVolume} {d : Disk} {c : Nat} {cs : List Nat} (h : Chain v d c cs) :
    ∀ x, x ∈ cs → isUsed v d x := by
  induction h with
  | last c hr he =>
    intro x hx
    rw [List.mem_singleton] at hx
    subst hx
    exact ⟨hr, not_free_of_eof he⟩
  | link c n rest hr hn _ hrest ih =>
    intro x hx
    rcases List.mem_cons.1 hx with hx | hx
    · subst hx
      exact ⟨hr, not_free_of_link hn (chain_inRange hrest n (chain_head_mem hrest)).1⟩
    · exact ih x hx

/-- Inversion of a chain with at least two clusters. -/
theorem chain_cons_inv {v : FatVolume} {d : Disk} {c a : Nat} {l : List Nat} (h : Chain v d c (a :: l)) (hl : l ≠ []) :
    a = c ∧ InRange v c ∧ ∃ n, nextOf v d c = .ok n ∧ c ∉ l ∧ Chain v d n l := by
  cases h with
  | last _ _ _ => exact absurd rfl hl
  | link _ n _ hr hn hnot hrest => exact ⟨rfl, hr, n, hn, hnot, hrest⟩

/-- The part of a chain from one of its clusters on is the chain of that cluster. -/
theorem chain_suffix {v : FatVolume} {d : Disk} {x : Nat} {tail : List Nat} :
    ∀ {c : Nat} (pre : List Nat), Chain v d c (pre ++ x :: tail) → Chain v d x (x :: tail) := by
  intro c pre
  induction pre generalizing c with
  | nil =>
    intro h
    have := chain_head_eq h
    simp only [List.nil_append, List.headD_cons] at this
    subst this; exact h
  | cons p pre ih =>
    intro h
    obtain ⟨_, _, n, _, _, hrest⟩ := chain_cons_inv (l := pre ++ x :: tail) h (by simp)
    exact ih hrest

/-- The link out of `x` in a chain `… x y …`. -/
theorem chain_next_of_split {v : FatVolume} {d : Disk} {c x y : Nat} {pre tail : List Nat}
    (h : Chain v d c (pre ++ x :: y :: tail)) : nextOf v d x = .ok y ∧ Chain v d y (y :: tail) := by
  have hs := chain_suffix pre h
  cases hs with
  | link _ n _ _ hn _ hrest =>
    have := chain_head_eq hrest
    simp only [List.headD_cons] at this
    subst this
    exact ⟨hn, hrest⟩

theorem chain_last_of_split {v : FatVolume} {d : Disk} {c x : Nat} {pre : List Nat}
    (h : Chain v d c (pre ++ [x])) : nextOf v d x = .err .EndOfFile := by
  have hs := chain_suffix pre h
  cases hs with
  | last _ _ he => exact he
  | link _ n _ _ _ _ hrest => exact absurd rfl (chain_ne_nil hrest)

/-- Cutting behind `x`: on a medium where `x` reads end-of-chain and the clusters before `x` read
as before, the kept part is the chain. -/
theorem chain_cut {v v' : FatVolume} {d d' : Disk} {x : Nat} {tail : List Nat} :
    ∀ {c : Nat} (pre : List Nat), Chain v d c (pre ++ x :: tail) → endCluster v' = endCluster v →
      nextOf v' d' x = .err .EndOfFile → (∀ y, y ∈ pre → nextOf v' d' y = nextOf v d y) →
      Chain v' d' c (pre ++ [x]) := by
  intro c pre
  induction pre generalizing c with
  | nil =>
    intro h hE hx _
    have hc := chain_head_eq h
    simp only [List.nil_append, List.headD_cons] at hc
    subst hc
    have hr := chain_inRange h _ (chain_head_mem h)
    exact Chain.last _ ⟨hr.1, by rw [hE]; exact hr.2⟩ hx
  | cons p pre ih =>
    intro h hE hx hpre
    obtain ⟨hpc, hr, n, hn, hnot, hrest⟩ := chain_cons_inv (l := pre ++ x :: tail) h (by simp)
    subst hpc
    · refine Chain.link _ n _ ⟨hr.1, by rw [hE]; exact hr.2⟩ ?_ ?_
        (ih hrest hE hx fun y hy => hpre y (List.mem_cons_of_mem _ hy))
      · rw [hpre _ List.mem_cons_self]; exact hn
      · intro hm
        apply hnot
        rcases List.mem_append.1 hm with hm | hm
        · exact List.mem_append_left _ hm
        · rw [List.mem_singleton] at hm
          subst hm
          exact List.mem_append_right _ List.mem_cons_self

/-- Appending a cluster: on a medium where the old last cluster `p` links to `n`, `n` reads
end-of-chain and the other clusters of the chain read as before, the chain has grown by `n`. -/
theorem chain_snoc {v v' : FatVolume} {d d' : Disk} {p n : Nat} :
    ∀ {c : Nat} (pre : List Nat), Chain v d c (pre ++ [p]) → endCluster v' = endCluster v →
      InRange v' n → n ∉ pre ++ [p] → nextOf v' d' p = .ok n → nextOf v' d' n = .err .EndOfFile →
      (∀ y, y ∈ pre → nextOf v' d' y = nextOf v d y) → Chain v' d' c (pre ++ [p] ++ [n]) := by
  intro c pre
  induction pre generalizing c with
  | nil =>
    intro h hE hrn hnot hp hn _
    have hc := chain_head_eq h
    simp only [List.nil_append, List.headD_cons] at hc
    subst hc
    have hr := chain_inRange h _ (chain_head_mem h)
    refine Chain.link _ n [n] ⟨hr.1, by rw [hE]; exact hr.2⟩ hp ?_ (Chain.last n hrn hn)
    intro hm
    rw [List.mem_singleton] at hm
    apply hnot
    rw [hm]; exact List.mem_cons_self
  | cons q pre ih =>
    intro h hE hrn hnot hp hn hpre
    obtain ⟨hqc, hr, m, hm, hnotq, hrest⟩ := chain_cons_inv (l := pre ++ [p]) h (by simp)
    subst hqc
    · refine Chain.link _ m _ ⟨hr.1, by rw [hE]; exact hr.2⟩ ?_ ?_
        (ih hrest hE hrn (fun hx => hnot (List.mem_cons_of_mem _ hx)) hp hn
          fun y hy => hpre y (List.mem_cons_of_mem _ hy))
      · rw [hpre _ List.mem_cons_self]; exact hm
      · intro hx
        rcases List.mem_append.1 hx with hx | hx
        · exact hnotq hx
        · rw [List.mem_singleton] at hx
          apply hnot
          rw [hx]; exact List.mem_cons_self

/-! ### Fuel adequacy: a chain is no longer than the volume has clusters -/

/-- Pigeonhole: a repetition-free list of numbers in `[a, a+n)` has at most `n` elements. -/
theorem nodup_length_le (a : Nat) : ∀ (n : Nat) (l : List Nat), l.Nodup → (∀ x, x ∈ l → a ≤ x ∧ x < a + n) → l.length ≤ n := by
  intro n
  induction n with
  | zero =>
    intro l _ h
    cases l with
    | nil => exact Nat.le_refl _
    | cons b l => have := h b List.mem_cons_self; omega
  | succ n ih =>
    intro l hnd h
    by_cases hm : a + n ∈ l
    · have h1 := ih (l.erase (a + n)) (hnd.erase (a + n)) (fun x hx => by
        have h2 := (hnd.mem_erase_iff).1 hx
        have := h x h2.2
        have := h2.1
        omega)
      rw [List.length_erase_of_mem hm] at h1
      have : 0 < l.length := List.length_pos_of_mem hm
      omega
    · have := ih l hnd (fun x hx => by
        have := h x hx
        have : x ≠ a + n := fun e => hm (e ▸ hx)
        omega)
      omega

/-- A chain has at most `cluster_count` clusters. -/
theorem chain_length_le {v : FatVolume} {d : Disk} {c : Nat} {cs : List Nat} (h : Chain v d c cs) :
    cs.length ≤ v.clusterCount :=
  nodup_length_le 2 v.clusterCount cs (chain_nodup h) fun x hx => by
    have := chain_inRange h x hx
    unfold InRange endCluster at this
    have e : Gen.RESERVED_ENTRIES = 2 := rfl
    omega

end Sdmmc.Lemmas.ForestBase
