/-
Lemmas for C17 (long-file-name decoding): the statements used by `Sdmmc.Props.C17`.

`Sdmmc.Props.C17` states its theorems with its own `BufOK`, `FragOK`, `Utf8Inv`, `nameUnits`
(plain definitions, restated here and in `C17Name` with the same bodies, so the types agree by
unfolding) and
`pushAll` / `updateAll` (recursive functions: the lemmas about them are stated for any function
satisfying the two defining equations, which the caller discharges by `rfl`).
-/
import Sdmmc.Model.Mgr
import Sdmmc.Lemmas.C17Name

namespace Sdmmc.Lemmas.C17
open Sdmmc.Model Sdmmc.Model.Lfn
open Sdmmc.Spec.Utf (decodeUtf16Lossy isScalar encodeScalar ValidUtf8)

/-- Same body as `Sdmmc.Props.C17.BufOK`. -/
def BufOK (b : Buf) : Prop :=
  b.free ≤ b.inner.length ∧ (∀ u, b.unpaired = some u → isSurrogate u = true)

/-- Same body as `Sdmmc.Props.C17.FragOK`. -/
def FragOK (f : List Nat) : Prop := f.length = 13 ∧ ∀ u ∈ f, u < 65536

/-- Same body as `Sdmmc.Props.C17.Utf8Inv`. -/
def Utf8Inv (b : Buf) : Prop := BufOK b ∧ ValidUtf8 (b.inner.drop b.free)

/-! ### Totality of `push` -/

/-- `push` in closed form on a 13-unit fragment, with the invariants of the result. -/
theorem push_ok (b : Buf) (f : List Nat) (hb : b.free ≤ b.inner.length) (hf : f.length = 13) :
    ∃ b', push b f = .ok b' ∧
      b' = store { b with unpaired := (splitFirst (pushUnits b f)).1 }
        (decodeUtf16Lossy (splitFirst (pushUnits b f)).2).reverse ∧
      b'.unpaired = (splitFirst (pushUnits b f)).1 ∧
      BufOK b' ∧ b'.inner.length = b.inner.length := by
  refine ⟨_, push_spec b f (pushUnits_length_le b f hf), rfl, ?_, ?_, ?_⟩
  · rw [store_unpaired]
  · have hbd := store_bounds (decodeUtf16Lossy (splitFirst (pushUnits b f)).2).reverse
      { b with unpaired := (splitFirst (pushUnits b f)).1 } hb
    refine ⟨?_, ?_⟩
    · rw [hbd.1]; exact hbd.2
    · intro u hu
      rw [store_unpaired] at hu
      exact (splitFirst_some hu).2.1
  · exact (store_bounds _ { b with unpaired := (splitFirst (pushUnits b f)).1 } hb).1

theorem push_total (b : Buf) (f : List Nat) (hb : BufOK b) (hf : FragOK f) :
    ∃ b', push b f = .ok b' ∧ BufOK b' ∧ b'.inner.length = b.inner.length := by
  obtain ⟨b', h1, _, _, h2, h3⟩ := push_ok b f hb.1 hf.1
  exact ⟨b', h1, h2, h3⟩

/-! ### Well-formed UTF-8 -/

theorem validUtf8_nil : ValidUtf8 [] := by
  refine ⟨[], ?_, rfl⟩
  intro c h; cases h

theorem new_inv (storage : Bytes) : Utf8Inv (Lfn.new storage) := by
  refine ⟨⟨Nat.le_refl _, fun u h => by cases h⟩, ?_⟩
  show ValidUtf8 (storage.drop storage.length)
  rw [List.drop_length]; exact validUtf8_nil

theorem clear_bufOK (b : Buf) : BufOK (Lfn.clear b) := ⟨Nat.le_refl _, fun u h => by cases h⟩

theorem clear_inv (b : Buf) : Utf8Inv (Lfn.clear b) := by
  refine ⟨clear_bufOK b, ?_⟩
  show ValidUtf8 (b.inner.drop b.inner.length)
  rw [List.drop_length]; exact validUtf8_nil

theorem pushUnits_lt (b : Buf) (f : List Nat) (hb : BufOK b) (hf : FragOK f) :
    ∀ u ∈ pushUnits b f, u < 65536 := by
  intro u hu
  unfold pushUnits at hu
  rcases List.mem_append.mp hu with hu | hu
  · exact hf.2 u ((List.takeWhile_sublist _).subset hu)
  · cases hup : b.unpaired with
    | none => rw [hup] at hu; cases hu
    | some c =>
      rw [hup] at hu
      simp only [Option.toList_some, List.mem_singleton] at hu
      rw [hu]; exact surrogate_lt (hb.2 c hup)

theorem push_inv (b b' : Buf) (f : List Nat) (hb : Utf8Inv b) (hf : FragOK f) (h : push b f = .ok b') :
    Utf8Inv b' := by
  obtain ⟨b'', h1, h2, _, h3, _⟩ := push_ok b f hb.1.1 hf.1
  rw [h1] at h
  cases h
  refine ⟨h3, ?_⟩
  rw [h2]
  apply store_valid
  · intro c hc
    rw [List.mem_reverse] at hc
    refine lossy_scalar _ ?_ c hc
    intro u hu
    obtain ⟨P, hP⟩ := splitFirst_suffix (pushUnits b f)
    exact pushUnits_lt b f hb.1 hf u (by rw [hP]; exact List.mem_append_right _ hu)
  · exact hb.1.1
  · exact hb.2

theorem as_str_valid_utf8 (b : Buf) (hb : Utf8Inv b) : ValidUtf8 (asStr b) := by
  unfold asStr
  split
  · exact validUtf8_nil
  · exact hb.2

/-! ### The exact text -/

theorem as_str_exact {pa : Buf → List (List Nat) → Res Buf}
    (size : Nat) (frags : List (List Nat)) (hf : ∀ f ∈ frags, FragOK f)
    (h0 : ∀ b, pa b [] = .ok b := by intros; rfl)
    (h1 : ∀ b f fs, pa b (f :: fs) = (push b f).bind (fun b' => pa b' fs) := by intros; rfl) :
    ∃ b, pa (Lfn.new (zeros size)) frags = .ok b ∧
      let units := nameUnits frags
      let units' := match b.unpaired with
        | some _ => units.drop 1
        | none => units
      let text := Spec.Utf.encodeUtf8 (decodeUtf16Lossy units')
      asStr b = if text.length ≤ size then text else [] := by
  obtain ⟨b, U', hp, hinv, hs⟩ := pushAll_new size frags (fun f h => (hf f h).1)
  refine ⟨b, by rw [pushAll_unique h0 h1]; exact hp, ?_⟩
  show asStr b = _
  cases hu : b.unpaired with
  | none =>
    show asStr b = if (Spec.Utf.encodeUtf8 (decodeUtf16Lossy (nameUnits frags))).length ≤ size
      then Spec.Utf.encodeUtf8 (decodeUtf16Lossy (nameUnits frags)) else []
    rw [(hinv.1 hu).1]; exact hs
  | some u =>
    show asStr b = if (Spec.Utf.encodeUtf8 (decodeUtf16Lossy ((nameUnits frags).drop 1))).length ≤ size
      then Spec.Utf.encodeUtf8 (decodeUtf16Lossy ((nameUnits frags).drop 1)) else []
    rw [(hinv.2 u hu).1]; exact hs

theorem as_str_eq_lossy_partial {pa : Buf → List (List Nat) → Res Buf}
    (size : Nat) (frags : List (List Nat)) (hf : ∀ f ∈ frags, FragOK f)
    (hstart : ∀ u rest, nameUnits frags = u :: rest →
      isSurrogate u = false ∨ (isHigh u = true ∧ ∃ v rest', rest = v :: rest' ∧ isLow v = true))
    (h0 : ∀ b, pa b [] = .ok b := by intros; rfl)
    (h1 : ∀ b f fs, pa b (f :: fs) = (push b f).bind (fun b' => pa b' fs) := by intros; rfl) :
    ∃ b, pa (Lfn.new (zeros size)) frags = .ok b ∧
      let text := Spec.Utf.encodeUtf8 (decodeUtf16Lossy (nameUnits frags))
      asStr b = if text.length ≤ size then text else [] := by
  obtain ⟨b, U', hp, hinv, hs⟩ := pushAll_new size frags (fun f h => (hf f h).1)
  refine ⟨b, by rw [pushAll_unique h0 h1]; exact hp, ?_⟩
  show asStr b = if (Spec.Utf.encodeUtf8 (decodeUtf16Lossy (nameUnits frags))).length ≤ size
      then Spec.Utf.encodeUtf8 (decodeUtf16Lossy (nameUnits frags)) else []
  cases hu : b.unpaired with
  | none => rw [(hinv.1 hu).1]; exact hs
  | some u =>
    exfalso
    obtain ⟨hU, hsur, hhigh⟩ := hinv.2 u hu
    rcases hstart u U' hU with hns | ⟨hh, v, rest', hr, hv⟩
    · rw [hns] at hsur; cases hsur
    · have := hhigh hh
      rw [hr] at this
      exact absurd (show isLow v = false from this) (by rw [hv]; exact Bool.noConfusion)

/-! ### The short-name checksum -/

theorem csum_spec (name : Bytes) :
    Sfn.csum name = name.foldl (fun sum b => ((if sum % 2 = 1 then 0x80 else 0) + sum / 2 + b.toNat) % 256) 0 := by
  unfold Sfn.csum
  congr 1
  funext r b
  split <;> omega

/-! ### Listings: unfolding `lfnFold` -/

/-- The long name reported with a short entry. -/
def reportedName (st : SeqState) (buf : Buf) (de : DirEntry) : Option Bytes :=
  match st with
  | .Complete csum => if csum = Sfn.csum de.name then some (Lfn.asStr buf) else none
  | _ => none

theorem lfnFold_cons_none (st : SeqState) (buf : Buf) (de : DirEntry) (raw : Bytes)
    (rest : List (DirEntry × Bytes)) (h : OnDisk.lfnContents raw = none) :
    lfnFold st buf ((de, raw) :: rest)
      = (lfnFold .Waiting buf rest).bind fun tl => .ok ((de, reportedName st buf de) :: tl) := by
  rw [lfnFold.eq_def]
  simp only [h]
  rfl

theorem lfnFold_cons_some (st : SeqState) (buf : Buf) (de : DirEntry) (raw : Bytes)
    (rest : List (DirEntry × Bytes)) {s : Bool} {q c : Nat} {fr : List Nat}
    (h : OnDisk.lfnContents raw = some (s, q, c, fr)) :
    lfnFold st buf ((de, raw) :: rest)
      = (st.update buf s q c fr).bind fun p => lfnFold p.1 p.2 rest := by
  rw [lfnFold.eq_def]
  simp only [h]
  rfl

/-! ### The sequence state machine -/

theorem bind_pure_ok {r : Res Buf} {x st' : SeqState} {buf' : Buf}
    (h : (r >>= fun b => (pure (x, b) : Res (SeqState × Buf))) = Res.ok (st', buf')) :
    x = st' ∧ r = .ok buf' := by
  cases r with
  | ok a =>
    simp only [Res.bind_ok, Res.pure_eq] at h
    cases h; exact ⟨rfl, rfl⟩
  | err e => simp only [Res.bind_err] at h; cases h
  | panic m => simp only [Res.bind_panic] at h; cases h
  | diverged => simp only [Res.bind_diverged] at h; cases h

/-- All the ways `SeqState::update` can return. -/
theorem update_cases (st st' : SeqState) (buf buf' : Buf) (start : Bool) (sq cs : Nat) (frag : List Nat)
    (h : st.update buf start sq cs frag = .ok (st', buf')) :
    (start = true ∧ sq = 1 ∧ st' = .Complete cs ∧ Lfn.push (Lfn.clear buf) frag = .ok buf') ∨
    (start = true ∧ 2 ≤ sq ∧ st' = .Remaining cs (sq - 1) ∧ Lfn.push (Lfn.clear buf) frag = .ok buf') ∨
    (start = false ∧ sq = 1 ∧ st = .Remaining cs sq ∧ st' = .Complete cs ∧ Lfn.push buf frag = .ok buf') ∨
    (start = false ∧ 1 ≤ sq ∧ st = .Remaining cs sq ∧ st' = .Remaining cs (sq - 1) ∧
      Lfn.push buf frag = .ok buf') ∨
    (st' = .Waiting ∧ buf' = Lfn.clear buf) := by
  unfold SeqState.update at h
  split at h
  · rename_i hc
    have ⟨h1, h2⟩ := bind_pure_ok h
    exact .inl ⟨hc.1, hc.2, h1.symm, h2⟩
  · split at h
    · rename_i hc
      have ⟨h1, h2⟩ := bind_pure_ok h
      exact .inr (.inl ⟨hc.1, hc.2.1, h1.symm, h2⟩)
    · split at h
      · rename_i c next
        split at h
        · rename_i hc
          have ⟨h1, h2⟩ := bind_pure_ok h
          refine .inr (.inr (.inl ⟨?_, hc.2.1, ?_, h1.symm, h2⟩))
          · simpa using hc.1
          · rw [hc.2.2.1, hc.2.2.2]
        · split at h
          · rename_i hc
            have ⟨h1, h2⟩ := bind_pure_ok h
            refine .inr (.inr (.inr (.inl ⟨?_, hc.2.1, ?_, h1.symm, h2⟩)))
            · simpa using hc.1
            · rw [hc.2.2.2.1, hc.2.2.2.2]
          · simp only [Res.pure_eq] at h
            cases h; exact .inr (.inr (.inr (.inr ⟨rfl, rfl⟩)))
      · simp only [Res.pure_eq] at h
        cases h; exact .inr (.inr (.inr (.inr ⟨rfl, rfl⟩)))

theorem seq_complete_only_after_one (st st' : SeqState) (buf buf' : Buf) (start : Bool) (sq cs c : Nat)
    (frag : List Nat) (h : st.update buf start sq cs frag = .ok (st', buf')) (hc : st' = .Complete c) :
    sq = 1 ∧ c = cs ∧ (start = true ∨ (start = false ∧ st = .Remaining c 1)) := by
  subst hc
  rcases update_cases _ _ _ _ _ _ _ _ h with ⟨h1, h2, h3, _⟩ | ⟨_, _, h3, _⟩ | ⟨h1, h2, h3, h4, _⟩ |
    ⟨_, _, _, h4, _⟩ | ⟨h4, _⟩
  · cases h3; exact ⟨h2, rfl, .inl h1⟩
  · cases h3
  · cases h4; subst h2; exact ⟨rfl, rfl, .inr ⟨h1, h3⟩⟩
  · cases h4
  · cases h4

theorem seq_remaining_only_in_order (st st' : SeqState) (buf buf' : Buf) (start : Bool) (sq cs c n : Nat)
    (frag : List Nat) (h : st.update buf start sq cs frag = .ok (st', buf')) (hc : st' = .Remaining c n) :
    sq = n + 1 ∧ c = cs ∧ (start = true ∨ (start = false ∧ st = .Remaining c sq)) := by
  subst hc
  rcases update_cases _ _ _ _ _ _ _ _ h with ⟨_, _, h3, _⟩ | ⟨h1, h2, h3, _⟩ | ⟨_, _, _, h4, _⟩ |
    ⟨h1, h2, h3, h4, _⟩ | ⟨h4, _⟩
  · cases h3
  · cases h3; exact ⟨by omega, rfl, .inl h1⟩
  · cases h4
  · cases h4; exact ⟨by omega, rfl, .inr ⟨h1, h3⟩⟩
  · cases h4

/-! ### Runs of fragments -/

theorem res_bind_ok {α β} {r : Res α} {f : α → Res β} {y : β} (h : r.bind f = .ok y) :
    ∃ a, r = .ok a ∧ f a = .ok y := by
  cases r with
  | ok a => exact ⟨a, rfl, h⟩
  | err e => cases h
  | panic m => cases h
  | diverged => cases h

/-- A fragment as the listing closure sees it: (is_start, sequence, csum, 13 code units). -/
abbrev Frag := Bool × Nat × Nat × List Nat

/-- Same equations as `Sdmmc.Props.C17.updateAll`. -/
def updateAll (st : SeqState) (buf : Buf) : List Frag → Res (SeqState × Buf)
  | [] => .ok (st, buf)
  | x :: rest => (st.update buf x.1 x.2.1 x.2.2.1 x.2.2.2).bind fun p => updateAll p.1 p.2 rest

/-- `run` starts with a start-flagged fragment, all its checksum bytes are `c`, and its sequence
numbers count down without a gap to `n + 1` (so `n` more fragments are expected). -/
def IsRun (c n : Nat) (run : List Frag) : Prop :=
  ∃ x tl, run = x :: tl ∧ x.1 = true ∧
    ∀ i y, run[i]? = some y → y.2.1 = n + (run.length - i) ∧ y.2.2.1 = c

theorem isRun_singleton (s : Bool) (q c : Nat) (fr : List Nat) (n : Nat) (hs : s = true) (hq : q = n + 1) :
    IsRun c n [(s, q, c, fr)] := by
  refine ⟨_, [], rfl, hs, ?_⟩
  intro i y hy
  cases i with
  | zero =>
    simp only [List.getElem?_cons_zero, Option.some.injEq] at hy
    subst hy
    exact ⟨by simp only [List.length_cons, List.length_nil]; omega, rfl⟩
  | succ i => simp at hy

theorem isRun_snoc {c n : Nat} {run : List Frag} (h : IsRun c n run) (x : Frag) (hn : 1 ≤ n)
    (hq : x.2.1 = n) (hc : x.2.2.1 = c) : IsRun c (n - 1) (run ++ [x]) := by
  obtain ⟨x0, tl, rfl, hs, hall⟩ := h
  refine ⟨x0, tl ++ [x], rfl, hs, ?_⟩
  intro i y hy
  by_cases hi : i < (x0 :: tl).length
  · rw [List.getElem?_append_left hi] at hy
    have := hall i y hy
    refine ⟨?_, this.2⟩
    rw [this.1, List.length_append]
    simp only [List.length_cons, List.length_nil] at hi ⊢
    omega
  · rw [List.getElem?_append_right (by omega)] at hy
    have hi0 : i - (x0 :: tl).length = 0 := by
      cases hk : i - (x0 :: tl).length with
      | zero => rfl
      | succ k => rw [hk] at hy; simp at hy
    rw [hi0] at hy
    simp only [List.getElem?_cons_zero, Option.some.injEq] at hy
    subst hy
    refine ⟨?_, hc⟩
    rw [hq, List.length_append]
    simp only [List.length_cons, List.length_nil] at hi hi0 ⊢
    omega

/-- What the sequence state says about the fragments processed so far. -/
def StInv (processed : List Frag) : SeqState → Prop
  | .Waiting => True
  | .Remaining c n => ∃ pre run, processed = pre ++ run ∧ IsRun c n run
  | .Complete c => processed = [] ∨ ∃ pre run, processed = pre ++ run ∧ IsRun c 0 run

theorem stInv_step (P : List Frag) (st st' : SeqState) (buf buf' : Buf) (x : Frag)
    (hinv : StInv P st) (h : st.update buf x.1 x.2.1 x.2.2.1 x.2.2.2 = .ok (st', buf')) :
    StInv (P ++ [x]) st' := by
  obtain ⟨s, q, cs, fr⟩ := x
  rcases update_cases _ _ _ _ _ _ _ _ h with ⟨h1, h2, h3, _⟩ | ⟨h1, h2, h3, _⟩ | ⟨h1, h2, h3, h4, _⟩ |
    ⟨h1, h2, h3, h4, _⟩ | ⟨h4, _⟩
  · subst h3
    exact .inr ⟨P, _, rfl, isRun_singleton s q cs fr 0 h1 h2⟩
  · subst h3
    have h2' : 2 ≤ q := h2
    exact ⟨P, _, rfl, isRun_singleton s q cs fr (q - 1) h1 (by omega)⟩
  · subst h3 h4
    obtain ⟨pre, run, hP, hrun⟩ := hinv
    have h2' : q = 1 := h2
    refine .inr ⟨pre, run ++ [(s, q, cs, fr)], by rw [hP, List.append_assoc], ?_⟩
    have := isRun_snoc hrun (s, q, cs, fr) (by show 1 ≤ q; omega) rfl rfl
    rw [show q - 1 = 0 by omega] at this
    exact this
  · subst h3 h4
    obtain ⟨pre, run, hP, hrun⟩ := hinv
    exact ⟨pre, run ++ [(s, q, cs, fr)], by rw [hP, List.append_assoc],
      isRun_snoc hrun (s, q, cs, fr) h2 rfl rfl⟩
  · subst h4; trivial

theorem stInv_updateAll (frs : List Frag) : ∀ (P : List Frag) (st st' : SeqState) (buf buf' : Buf),
    StInv P st → updateAll st buf frs = .ok (st', buf') → StInv (P ++ frs) st' := by
  induction frs with
  | nil =>
    intro P st st' buf buf' hinv h
    cases h
    rw [List.append_nil]; exact hinv
  | cons x rest ih =>
    intro P st st' buf buf' hinv h
    obtain ⟨p, hp, hrest⟩ := res_bind_ok (show (st.update buf x.1 x.2.1 x.2.2.1 x.2.2.2).bind
      (fun p => updateAll p.1 p.2 rest) = .ok (st', buf') from h)
    have := ih (P ++ [x]) p.1 st' p.2 buf' (stInv_step P st p.1 buf p.2 x hinv hp) hrest
    rw [List.append_assoc] at this
    exact this

theorem updateAll_unique {ua : SeqState → Buf → List Frag → Res (SeqState × Buf)}
    (h0 : ∀ st b, ua st b [] = .ok (st, b))
    (h1 : ∀ st b x rest, ua st b (x :: rest)
      = (st.update b x.1 x.2.1 x.2.2.1 x.2.2.2).bind (fun p => ua p.1 p.2 rest)) :
    ∀ frs st b, ua st b frs = updateAll st b frs := by
  intro frs
  induction frs with
  | nil => intro st b; rw [h0]; rfl
  | cons x rest ih =>
    intro st b
    rw [h1]
    show _ = (st.update b x.1 x.2.1 x.2.2.1 x.2.2.2).bind (fun p => updateAll p.1 p.2 rest)
    congr 1
    funext p
    exact ih p.1 p.2

/-- A run of fragments that ends in `Complete c` ends with a start-flagged fragment followed by a
gap-free countdown to 1, all carrying the checksum byte `c`. -/
theorem lfn_run_checksums {ua : SeqState → Buf → List Frag → Res (SeqState × Buf)}
    (st : SeqState) (buf buf' : Buf) (frs : List Frag) (c : Nat)
    (hst : ∀ c' n, st ≠ .Remaining c' n) (hne : frs ≠ [])
    (h : ua st buf frs = .ok (.Complete c, buf'))
    (h0 : ∀ st b, ua st b [] = .ok (st, b) := by intros; rfl)
    (h1 : ∀ st b x rest, ua st b (x :: rest)
      = (st.update b x.1 x.2.1 x.2.2.1 x.2.2.2).bind (fun p => ua p.1 p.2 rest) := by intros; rfl) :
    ∃ pre x tl, frs = pre ++ x :: tl ∧ x.1 = true ∧
      ∀ i y, (x :: tl)[i]? = some y → y.2.1 = (tl.length + 1) - i ∧ y.2.2.1 = c := by
  rw [updateAll_unique h0 h1] at h
  have hinit : StInv [] st := by
    cases st with
    | Waiting => trivial
    | Remaining c' n => exact absurd rfl (hst c' n)
    | Complete c' => exact .inl rfl
  have := stInv_updateAll frs [] st _ buf buf' hinit h
  rw [List.nil_append] at this
  rcases this with he | ⟨pre, run, hP, x, tl, hrun, hs, hall⟩
  · exact absurd he hne
  · subst hrun
    refine ⟨pre, x, tl, hP, hs, ?_⟩
    intro i y hy
    have := hall i y hy
    simp only [List.length_cons, Nat.zero_add] at this
    exact this

/-- `SeqState::update` never panics on a 13-unit fragment and keeps the buffer invariant. -/
theorem update_total (st : SeqState) (buf : Buf) (start : Bool) (sq cs : Nat) (frag : List Nat)
    (hb : BufOK buf) (hf : FragOK frag) :
    ∃ st' buf', st.update buf start sq cs frag = .ok (st', buf') ∧ BufOK buf' := by
  obtain ⟨b1, hp1, hb1, _⟩ := push_total (Lfn.clear buf) frag (clear_bufOK buf) hf
  obtain ⟨b2, hp2, hb2, _⟩ := push_total buf frag hb hf
  unfold SeqState.update
  split
  · exact ⟨_, b1, by rw [hp1]; rfl, hb1⟩
  · split
    · exact ⟨_, b1, by rw [hp1]; rfl, hb1⟩
    · split
      · split
        · exact ⟨_, b2, by rw [hp2]; rfl, hb2⟩
        · split
          · exact ⟨_, b2, by rw [hp2]; rfl, hb2⟩
          · exact ⟨_, _, rfl, clear_bufOK buf⟩
      · exact ⟨_, _, rfl, clear_bufOK buf⟩

/-! ### Fragments read from a directory slot -/

theorem byteAt_lt (b : Bytes) (i : Nat) : byteAt b i < 256 := by
  unfold byteAt; exact UInt8.toNat_lt _

theorem readU16_lt (b : Bytes) (off : Nat) : readU16 b off < 65536 := by
  unfold readU16
  have h1 := byteAt_lt b off
  have h2 := byteAt_lt b (off + 1)
  omega

theorem lfnContents_fragOK {raw : Bytes} {s : Bool} {q c : Nat} {fr : List Nat}
    (h : OnDisk.lfnContents raw = some (s, q, c, fr)) : FragOK fr := by
  unfold OnDisk.lfnContents at h
  split at h
  · simp only [Option.some.injEq, Prod.mk.injEq] at h
    obtain ⟨_, _, _, rfl⟩ := h
    refine ⟨rfl, ?_⟩
    intro u hu
    simp only [List.mem_cons, List.not_mem_nil, or_false] at hu
    rcases hu with rfl | rfl | rfl | rfl | rfl | rfl | rfl | rfl | rfl | rfl | rfl | rfl | rfl <;>
      exact readU16_lt _ _
  · cases h

/-! ### The listing fold -/

theorem lfnFold_total (es : List (DirEntry × Bytes)) : ∀ (st : SeqState) (buf : Buf), BufOK buf →
    ∃ out, lfnFold st buf es = .ok out := by
  induction es with
  | nil => intro st buf _; exact ⟨[], rfl⟩
  | cons e rest ih =>
    intro st buf hb
    obtain ⟨de, raw⟩ := e
    cases hc : OnDisk.lfnContents raw with
    | none =>
      obtain ⟨tl, htl⟩ := ih .Waiting buf hb
      rw [lfnFold_cons_none _ _ _ _ _ hc, htl]
      exact ⟨_, rfl⟩
    | some v =>
      obtain ⟨s, q, c, fr⟩ := v
      obtain ⟨st', buf', hu, hb'⟩ := update_total st buf s q c fr hb (lfnContents_fragOK hc)
      rw [lfnFold_cons_some _ _ _ _ _ hc, hu]
      exact ih st' buf' hb'

theorem lfn_listing_total (bufSize : Nat) (es : List (DirEntry × Bytes))
    (_h : ∀ e ∈ es, e.2.length = 32) :
    ∃ out, lfnFold .Waiting (Lfn.new (zeros bufSize)) es = .ok out :=
  lfnFold_total es _ _ (new_inv _).1

theorem lfnFold_entries (es : List (DirEntry × Bytes)) : ∀ (st : SeqState) (buf : Buf)
    (out : List (DirEntry × Option Bytes)), lfnFold st buf es = .ok out →
    out.map (·.1) = (es.filter fun e => (OnDisk.lfnContents e.2).isNone).map (·.1) := by
  induction es with
  | nil => intro st buf out h; cases h; rfl
  | cons e rest ih =>
    intro st buf out h
    obtain ⟨de, raw⟩ := e
    cases hc : OnDisk.lfnContents raw with
    | none =>
      rw [lfnFold_cons_none _ _ _ _ _ hc] at h
      obtain ⟨tl, htl, hout⟩ := res_bind_ok h
      cases hout
      rw [List.filter_cons_of_pos (by simp [hc]), List.map_cons, List.map_cons, ih _ _ _ htl]
    | some v =>
      obtain ⟨s, q, c, fr⟩ := v
      rw [lfnFold_cons_some _ _ _ _ _ hc] at h
      obtain ⟨p, _, hout⟩ := res_bind_ok h
      rw [List.filter_cons_of_neg (by simp [hc])]
      exact ih _ _ _ hout

theorem lfn_listing_entries (bufSize : Nat) (es : List (DirEntry × Bytes)) (out : List (DirEntry × Option Bytes))
    (h : lfnFold .Waiting (Lfn.new (zeros bufSize)) es = .ok out) :
    out.map (·.1) = (es.filter fun e => (OnDisk.lfnContents e.2).isNone).map (·.1) :=
  lfnFold_entries es _ _ out h

theorem lfn_not_inherited (st : SeqState) (buf : Buf) (d1 d2 : DirEntry) (r1 r2 : Bytes)
    (rest : List (DirEntry × Bytes)) (out : List (DirEntry × Option Bytes))
    (h1 : OnDisk.lfnContents r1 = none) (h2 : OnDisk.lfnContents r2 = none)
    (h : lfnFold st buf ((d1, r1) :: (d2, r2) :: rest) = .ok out) :
    ∃ n1 tl, out = (d1, n1) :: (d2, none) :: tl := by
  rw [lfnFold_cons_none _ _ _ _ _ h1] at h
  obtain ⟨tl1, htl1, hout⟩ := res_bind_ok h
  cases hout
  rw [lfnFold_cons_none _ _ _ _ _ h2] at htl1
  obtain ⟨tl2, _, hout2⟩ := res_bind_ok htl1
  cases hout2
  exact ⟨_, tl2, rfl⟩

theorem lfn_name_only_if_complete (st : SeqState) (buf : Buf) (de : DirEntry) (raw : Bytes)
    (rest : List (DirEntry × Bytes)) (out : List (DirEntry × Option Bytes)) (name : Bytes)
    (hraw : OnDisk.lfnContents raw = none)
    (h : lfnFold st buf ((de, raw) :: rest) = .ok out) (hn : out.head? = some (de, some name)) :
    st = .Complete (Sfn.csum de.name) ∧ name = asStr buf := by
  rw [lfnFold_cons_none _ _ _ _ _ hraw] at h
  obtain ⟨tl, _, hout⟩ := res_bind_ok h
  cases hout
  simp only [List.head?_cons, Option.some.injEq, Prod.mk.injEq, true_and] at hn
  unfold reportedName at hn
  split at hn
  · rename_i csum
    split at hn
    · rename_i hcs
      cases hn
      exact ⟨by rw [hcs], rfl⟩
    · cases hn
  · cases hn

end Sdmmc.Lemmas.C17
