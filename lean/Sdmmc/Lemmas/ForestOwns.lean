/-
List-level part of `Props/C05Forest.lean`: replacing a segment `mid` of the owned chains by `mid'`
(`owns_splice`) — the one argument behind all four operations — and the bridge `Owns → Forest`.
-/
import Sdmmc.Lemmas.ForestBase

namespace Sdmmc.Lemmas.ForestOwns
open Sdmmc.Model Sdmmc.Model.Fat Sdmmc.Spec
open Sdmmc.Lemmas.ChainL Sdmmc.Lemmas.ForestBase

theorem flatten3 (A M B : List (List Nat)) : (A ++ M ++ B).flatten = A.flatten ++ M.flatten ++ B.flatten := by
  rw [List.flatten_append, List.flatten_append]

theorem mem_flatten3 (A M B : List (List Nat)) (c : Nat) :
    c ∈ (A ++ M ++ B).flatten ↔ c ∈ A.flatten ∨ c ∈ M.flatten ∨ c ∈ B.flatten := by
  rw [flatten3, List.mem_append, List.mem_append, or_assoc]

theorem nodup3 (a m b : List Nat) :
    (a ++ m ++ b).Nodup ↔ a.Nodup ∧ m.Nodup ∧ b.Nodup ∧ (∀ x, x ∈ a → x ∉ m) ∧ (∀ x, x ∈ a → x ∉ b) ∧ (∀ x, x ∈ m → x ∉ b) := by
  rw [List.nodup_append, List.nodup_append]
  constructor
  · rintro ⟨⟨h1, h2, h3⟩, h4, h5⟩
    exact ⟨h1, h2, h4, fun x hx hm => h3 x hx x hm rfl, fun x hx hb => h5 x (List.mem_append_left _ hx) x hb rfl,
      fun x hx hb => h5 x (List.mem_append_right _ hx) x hb rfl⟩
  · rintro ⟨h1, h2, h3, h4, h5, h6⟩
    refine ⟨⟨h1, h2, fun x hx y hy e => h4 x hx (e ▸ hy)⟩, h3, fun x hx y hy e => ?_⟩
    rcases List.mem_append.1 hx with hx | hx
    · exact h5 x hx (e ▸ hy)
    · exact h6 x hx (e ▸ hy)

/-- Replace the segment `mid` of the owned chains by `mid'`, on a medium where the chains outside the
segment read as before, the lists of `mid'` are chains, and a cluster is used exactly when it is in
`mid'` or was used outside `mid`. -/
theorem owns_splice {v v' : FatVolume} {d d' : Disk} {A B mid mid' : List (List Nat)}
    (h : Owns v d (A ++ mid ++ B)) (hE : endCluster v' = endCluster v)
    (hkeep : ∀ x, x ∈ A.flatten ∨ x ∈ B.flatten → nextOf v' d' x = nextOf v d x)
    (hmid : ∀ cs, cs ∈ mid' → Chain v' d' (cs.headD 0) cs)
    (hnd : mid'.flatten.Nodup)
    (hdisj : ∀ x, x ∈ mid'.flatten → x ∉ A.flatten ∧ x ∉ B.flatten)
    (hused : ∀ c, isUsed v' d' c ↔ c ∈ mid'.flatten ∨ (isUsed v d c ∧ c ∉ mid.flatten)) :
    Owns v' d' (A ++ mid' ++ B) := by
  obtain ⟨hch, hnodup, hiff⟩ := h
  rw [flatten3, nodup3] at hnodup
  obtain ⟨nA, _, nB, dAM, dAB, dMB⟩ := hnodup
  refine ⟨?_, ?_, ?_⟩
  · intro cs hcs
    rcases List.mem_append.1 hcs with hcs | hcs
    · rcases List.mem_append.1 hcs with hcs | hcs
      · exact chain_transfer (hch cs (List.mem_append_left _ (List.mem_append_left _ hcs))) hE
          fun x hx => hkeep x (.inl (List.mem_flatten_of_mem hcs hx))
      · exact hmid cs hcs
    · exact chain_transfer (hch cs (List.mem_append_right _ hcs)) hE
        fun x hx => hkeep x (.inr (List.mem_flatten_of_mem hcs hx))
  · rw [flatten3, nodup3]
    exact ⟨nA, hnd, nB, fun x hx hm => (hdisj x hm).1 hx, dAB, fun x hx => (hdisj x hx).2⟩
  · intro c
    rw [hused, mem_flatten3, hiff, mem_flatten3]
    constructor
    · rintro (h1 | ⟨h1 | h1 | h1, h2⟩)
      · exact .inr (.inl h1)
      · exact .inl h1
      · exact absurd h1 h2
      · exact .inr (.inr h1)
    · rintro (h1 | h1 | h1)
      · exact .inr ⟨.inl h1, dAM c h1⟩
      · exact .inl h1
      · exact .inr ⟨.inr (.inr h1), fun hm => dMB c hm h1⟩

/-- Splitting the list of chains at an index. -/
theorem split_at {α : Type} {G : List α} {i : Nat} {cs : α} (h : G[i]? = some cs) :
    G = G.take i ++ [cs] ++ G.drop (i + 1) ∧ (G.take i).length = i := by
  obtain ⟨hi, he⟩ := List.getElem?_eq_some_iff.1 h
  refine ⟨?_, by rw [List.length_take]; omega⟩
  rw [List.append_assoc, List.singleton_append, ← he, List.getElem_cons_drop, List.take_append_drop]

theorem set_at {α : Type} {G : List α} {i : Nat} {cs : α} (h : G[i]? = some cs) (cs' : α) :
    G.set i cs' = G.take i ++ [cs'] ++ G.drop (i + 1) := by
  obtain ⟨hi, _⟩ := List.getElem?_eq_some_iff.1 h
  rw [List.set_eq_take_append_cons_drop, if_pos hi, List.append_assoc]; rfl

theorem eraseIdx_at {α : Type} (G : List α) (i : Nat) : G.eraseIdx i = G.take i ++ [] ++ G.drop (i + 1) := by
  rw [List.eraseIdx_eq_take_drop_succ, List.append_nil]

theorem getLast?_split {α : Type} {cs : List α} {p : α} (h : cs.getLast? = some p) : cs.dropLast ++ [p] = cs := by
  cases cs with
  | nil => cases h
  | cons a t =>
    rw [List.getLast?_eq_some_getLast (List.cons_ne_nil a t)] at h
    cases h
    exact List.dropLast_concat_getLast (List.cons_ne_nil a t)

/-- The ghost chains witness the root-indexed statement. -/
theorem forest_of_owns {v : FatVolume} {d : Disk} {G : List (List Nat)} (h : Owns v d G) : Forest v d (rootsOf G) := by
  refine ⟨G, by unfold rootsOf; rw [List.length_map], ?_, h.2⟩
  intro i r cs hr hcs
  unfold rootsOf at hr
  rw [List.getElem?_map, hcs] at hr
  cases hr
  exact h.1 cs (List.mem_of_getElem? hcs)

end Sdmmc.Lemmas.ForestOwns
