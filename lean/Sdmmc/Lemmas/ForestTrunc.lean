/-
`truncate_cluster_chain` and `free_cluster_chain` on a well-formed chain: they succeed (the loop
fuel `chainFuel` is enough for every chain of the volume), free exactly the clusters behind /
of the chain, and change no other FAT entry.  Used by `Props/C05Forest.lean`.
-/
import Sdmmc.Lemmas.ForestBase

namespace Sdmmc.Lemmas.ForestTrunc
open Sdmmc.Model Sdmmc.Model.Fat Sdmmc.Spec
open Sdmmc.Lemmas.FBasic hiding NoFault Coherent
open Sdmmc.Lemmas.FatOps hiding BlocksOK Mirror HintOK
open Sdmmc.Lemmas.ChainL Sdmmc.Lemmas.ForestBase

/-! ### The free count -/

theorem satAdd_succ (n k : Nat) : satAdd n (k + 1) = satInc (satAdd n k) := by
  induction k generalizing n with
  | zero => rfl
  | succ k ih => show satAdd (satInc n) (k + 1) = _; rw [ih]; rfl

theorem satAdd_eq (n k : Nat) (h : n + k ≤ U32_MAX) : satAdd n k = n + k := by
  induction k generalizing n with
  | zero => rfl
  | succ k ih =>
    show satAdd (satInc n) k = _
    have : satInc n = n + 1 := by unfold satInc; rw [if_neg (by omega)]
    rw [this, ih (n + 1) (by omega)]; omega

theorem satAdd_min (n k : Nat) (h : n ≤ U32_MAX) : satAdd n k = min (n + k) U32_MAX := by
  induction k generalizing n with
  | zero => show n = _; omega
  | succ k ih =>
    show satAdd (satInc n) k = _
    unfold satInc
    split
    · rw [ih _ (Nat.le_refl _)]; omega
    · rw [ih _ (by omega)]; omega

/-- The volume record after `k` clusters were given back. -/
def bump (k : Nat) (v : FatVolume) : FatVolume :=
  { v with freeClustersCount := v.freeClustersCount.map fun n => satAdd n k }

theorem bump_sameGeom (k : Nat) (v : FatVolume) : SameGeom v (bump k v) := ⟨_, _, rfl⟩

theorem map_satAdd_zero (o : Option Nat) : o.map (fun n => satAdd n 0) = o := by cases o <;> rfl

theorem bump_zero (v : FatVolume) : bump 0 v = v := by
  unfold bump; rw [map_satAdd_zero]

/-! ### One iteration of the loop -/

/-- What the frame of an operation leaves alone, relative to the volume record `v`: every FAT entry
outside `touched`, the identity of the FAT copies, every block that is not a FAT block. -/
structure Frame (v : FatVolume) (d d' : Disk) (touched : List Nat) : Prop where
  other : ∀ c, c < endCluster v → c ∉ touched → fatRaw v d' c = fatRaw v d c
  mirror : Mirror v d → Mirror v d'
  nonFat : ∀ i, regionOf v i ≠ .fat → d'.get i = d.get i

theorem Frame.refl (v : FatVolume) (d : Disk) (t : List Nat) : Frame v d d t := ⟨fun _ _ _ => rfl, id, fun _ _ => rfl⟩

theorem Frame.trans {v : FatVolume} {d d' d'' : Disk} {t t' t'' : List Nat} (h1 : Frame v d d' t) (h2 : Frame v d' d'' t')
    (ht : ∀ c, c ∈ t → c ∈ t'') (ht' : ∀ c, c ∈ t' → c ∈ t'') : Frame v d d'' t'' :=
  ⟨fun c hc hn => (h2.other c hc fun h => hn (ht' c h)).trans (h1.other c hc fun h => hn (ht c h)),
   fun hm => h2.mirror (h1.mirror hm), fun i hi => (h2.nonFat i hi).trans (h1.nonFat i hi)⟩

theorem Frame.sameGeom {v v' : FatVolume} {d d' : Disk} {t : List Nat} (hs : SameGeom v v') (h : Frame v' d d' t) :
    Frame v d d' t := by
  obtain ⟨a, b, rfl⟩ := hs
  exact ⟨h.other, h.mirror, h.nonFat⟩

/-- `update_fat(c, val)` on a fault-free, coherent state of a well-formed volume. -/
theorem updateFat_spec (s : FS) (c val : Nat) (hn : NoFault s) (hc : Coherent s) (hb : BlocksOK s.dev.disk)
    (hg : WFGeom s.vol) (hcl : c < endCluster s.vol) :
    ∃ s', updateFat c val s = (.ok (), s') ∧ NoFault s' ∧ Coherent s' ∧ BlocksOK s'.dev.disk ∧ s'.vol = s.vol ∧
      fatRaw s.vol s'.dev.disk c = rawFatEntry s.vol.fatType (fatPayload s c val) (fatEntOffset s.vol c) ∧
      Frame s.vol s.dev.disk s'.dev.disk [c] := by
  obtain ⟨s', h, hc', hn', hv, hb', _, _, hself, hother, hmir, hget⟩ := DirFat.updateFat_frame s c val hn hc hg hcl hb
  refine ⟨s', h, hn', hc', hb', hv, hself, ?_, fun hm => (hmir hm).1, ?_⟩
  · intro c' hc'' hne
    exact hother c' hc'' (fun e => hne (by rw [e]; exact List.mem_singleton.2 rfl))
  · intro i hi
    exact hget i (DirFat.not_mem_fatWrites_of_region s.vol hg c i hcl hi)

theorem updateFat_empty_free (s : FS) (c : Nat) (hb : BlocksOK s.dev.disk) {d' : Disk}
    (h : fatRaw s.vol d' c = rawFatEntry s.vol.fatType (fatPayload s c Gen.CLUSTER_EMPTY) (fatEntOffset s.vol c)) :
    isFree s.vol d' c := by
  have := DirFat.updateFat_empty_reads_free s c hb
  unfold isFree fatEntry
  rw [h]
  exact this

theorem updateFat_eof_reads (s : FS) (c : Nat) (hb : BlocksOK s.dev.disk) {d' : Disk}
    (h : fatRaw s.vol d' c = rawFatEntry s.vol.fatType (fatPayload s c Gen.CLUSTER_END_OF_FILE) (fatEntOffset s.vol c)) :
    nextOf s.vol d' c = .err .EndOfFile := by
  unfold nextOf
  rw [h]
  exact DirFat.eof_payload_reads_eof s c hb

/-- The body of one loop iteration after the look-ahead read: free `n`, count it. -/
theorem free_one (s : FS) (n : Nat) (hn : NoFault s) (hb : BlocksOK s.dev.disk)
    (hg : WFGeom s.vol) (hr : InRange s.vol n) :
    ∃ s2, updateFat n Gen.CLUSTER_EMPTY (afterRead (fatBlock s.vol n) s) = (.ok (), s2) ∧ NoFault s2 ∧ Coherent s2 ∧
      BlocksOK s2.dev.disk ∧ s2.vol = s.vol ∧ isFree s.vol s2.dev.disk n ∧ Frame s.vol s.dev.disk s2.dev.disk [n] := by
  obtain ⟨s2, h, hn2, hc2, hb2, hv2, hself, hfr⟩ :=
    updateFat_spec (afterRead (fatBlock s.vol n) s) n Gen.CLUSTER_EMPTY hn (afterRead_coherent _ s) hb hg hr.2
  exact ⟨s2, h, hn2, hc2, hb2, hv2, updateFat_empty_free (afterRead (fatBlock s.vol n) s) n hb hself, hfr⟩

theorem bump_succ (k : Nat) (v : FatVolume) :
    bump k { v with freeClustersCount := v.freeClustersCount.map satInc } = bump (k + 1) v := by
  unfold bump
  cases v.freeClustersCount <;> rfl

/-- The loop of `truncate_cluster_chain` started on the chain `tail` of `n` with enough fuel: every
cluster of `tail` is freed and counted, nothing else changes. -/
theorem truncateLoop_spec : ∀ (tail : List Nat) (n : Nat) (s : FS) (fuel : Nat), NoFault s → Coherent s →
    BlocksOK s.dev.disk → WFGeom s.vol → Chain s.vol s.dev.disk n tail → tail.length ≤ fuel →
    ∃ s', truncateLoop fuel n s = (.ok (), s') ∧ NoFault s' ∧ Coherent s' ∧ BlocksOK s'.dev.disk ∧
      s'.vol = bump tail.length s.vol ∧ (∀ c, c ∈ tail → isFree s.vol s'.dev.disk c) ∧
      Frame s.vol s.dev.disk s'.dev.disk tail := by
  intro tail
  induction tail with
  | nil => intro n s fuel _ _ _ _ hch; exact absurd rfl (chain_ne_nil hch)
  | cons a rest ih =>
    intro n s fuel hn hc hb hg hch hfuel
    obtain ⟨fuel, rfl⟩ : ∃ f, fuel = f + 1 := ⟨fuel - 1, by simp only [List.length_cons] at hfuel; omega⟩
    have han : a = n := by have := chain_head_eq hch; simpa using this
    subst han
    have hr : InRange s.vol a := chain_inRange hch a List.mem_cons_self
    have hnc := nextCluster_spec a s hn hc hg hr
    obtain ⟨s2, hu, hn2, hc2, hb2, hv2, hfree2, hfr2⟩ := free_one s a hn hb hg hr
    by_cases hrest : rest = []
    · subst hrest
      have he : nextOf s.vol s.dev.disk a = .err .EndOfFile := chain_last_of_split (pre := []) hch
      rw [he] at hnc
      refine ⟨{ s2 with vol := { s2.vol with freeClustersCount := s2.vol.freeClustersCount.map satInc } }, ?_,
        hn2, hc2, hb2, ?_, ?_, hfr2⟩
      · rw [truncateLoop]
        simp only [bind_apply, attempt_apply, hnc, hu, modifyVol_apply]
      · show _ = bump 1 s.vol
        rw [← bump_succ 0, bump_zero, hv2]
      · intro c hmem
        rw [List.mem_singleton] at hmem
        subst hmem; exact hfree2
    · obtain ⟨_, _, m, hm, hnot, hchm⟩ := chain_cons_inv hch hrest
      rw [hm] at hnc
      -- the state the recursive call starts from
      let s3 : FS := { s2 with vol := { s2.vol with freeClustersCount := s2.vol.freeClustersCount.map satInc } }
      have hs3 : SameGeom s.vol s3.vol := (SameGeom.of_eq hv2).trans ⟨_, _, rfl⟩
      have hch3 : Chain s3.vol s3.dev.disk m rest :=
        chain_transfer hchm hs3.endCluster fun x hx => by
          rw [hs3.nextOf]
          exact nextOf_congr rfl (hfr2.other x (chain_inRange hchm x hx).2
            (fun h => hnot (by rw [List.mem_singleton.1 h] at hx; exact hx)))
      obtain ⟨s', hl, hn', hc', hb', hv', hfree', hfr'⟩ := ih m s3 fuel hn2 hc2 hb2 (hs3.wfGeom hg) hch3
        (by simp only [List.length_cons] at hfuel; omega)
      refine ⟨s', ?_, hn', hc', hb', ?_, ?_, ?_⟩
      · rw [truncateLoop]
        simp only [bind_apply, attempt_apply, hnc, hu, modifyVol_apply]
        exact hl
      · rw [hv']
        show bump rest.length { s2.vol with freeClustersCount := s2.vol.freeClustersCount.map satInc } = _
        rw [hv2, bump_succ]; rfl
      · intro c hc''
        rcases List.mem_cons.1 hc'' with hc'' | hc''
        · subst hc''
          have hfr'' := Frame.sameGeom hs3 hfr'
          unfold isFree fatEntry at hfree2 ⊢
          rw [hfr''.other c hr.2 hnot]; exact hfree2
        · exact (hs3.isFree _ _).1 (hfree' c hc'')
      · exact Frame.trans hfr2 (Frame.sameGeom hs3 hfr') (fun c h => by rw [List.mem_singleton.1 h]; exact List.mem_cons_self)
          (fun c h => List.mem_cons_of_mem _ h)

/-! ### `truncate_cluster_chain` -/

/-- The next-free hint after a call that freed cluster `y`: the smaller of the old hint and `y`. -/
def hintMin (y : Nat) (v : FatVolume) : FatVolume :=
  { v with nextFreeCluster :=
      match v.nextFreeCluster with
      | some nf => if nf > y then some y else some nf
      | none => some y }

theorem hintMin_sameGeom (y : Nat) (v : FatVolume) : SameGeom v (hintMin y v) := ⟨_, _, rfl⟩

theorem hintMin_hintOK (y : Nat) (v : FatVolume) (hy : 2 ≤ y) (hh : HintOK v) : HintOK (hintMin y v) := by
  intro n hn
  unfold hintMin at hn
  simp only at hn
  cases hnf : v.nextFreeCluster with
  | none => rw [hnf] at hn; cases hn; exact hy
  | some nf =>
    rw [hnf] at hn
    simp only at hn
    split at hn
    · cases hn; exact hy
    · cases hn; exact hh _ hnf

theorem bump_hintOK (k : Nat) (v : FatVolume) (hh : HintOK v) : HintOK (bump k v) := hh

/-- The volume record after `truncate_cluster_chain` cut off `tail`. -/
def volAfterTruncate (tail : List Nat) (v : FatVolume) : FatVolume :=
  match tail with
  | [] => v
  | y :: _ => bump tail.length (hintMin y v)

theorem volAfterTruncate_sameGeom (tail : List Nat) (v : FatVolume) : SameGeom v (volAfterTruncate tail v) := by
  cases tail with
  | nil => exact SameGeom.refl v
  | cons y t => exact (hintMin_sameGeom y v).trans (bump_sameGeom _ _)

theorem nodup_split {pre tail : List Nat} {x : Nat} (h : (pre ++ x :: tail).Nodup) :
    x ∉ tail ∧ x ∉ pre ∧ (∀ y, y ∈ pre → y ∉ x :: tail) ∧ tail.Nodup := by
  obtain ⟨_, h2, h3⟩ := List.nodup_append.1 h
  obtain ⟨h4, h5⟩ := List.nodup_cons.1 h2
  exact ⟨h4, fun hx => h3 x hx x List.mem_cons_self rfl, fun y hy hy' => h3 y hy y hy' rfl, h5⟩

theorem truncate_unfold_ok (x y : Nat) (s s0 : FS) (hlt : ¬ x < Gen.RESERVED_ENTRIES)
    (hnc : nextCluster x s = (.ok y, s0)) :
    truncateClusterChain x s =
      (updateFat x Gen.CLUSTER_END_OF_FILE >>= fun _ => F.getVol >>= fun v => truncateLoop (chainFuel v) y)
        { s0 with vol := hintMin y s0.vol } := by
  unfold truncateClusterChain
  simp only [ite_apply, if_neg hlt, bind_apply, attempt_apply, hnc, modifyVol_apply]
  rfl

/-- `truncate_cluster_chain(x)` for a cluster `x` anywhere in a chain: it succeeds, the chain now
ends at `x`, exactly the clusters behind `x` are free, no other entry changed. -/
theorem truncate_spec (s : FS) (c x : Nat) (pre tail : List Nat) (hn : NoFault s) (hc : Coherent s)
    (hb : BlocksOK s.dev.disk) (hg : WFGeom s.vol) (hch : Chain s.vol s.dev.disk c (pre ++ x :: tail)) :
    ∃ s', truncateClusterChain x s = (.ok (), s') ∧ NoFault s' ∧ Coherent s' ∧ BlocksOK s'.dev.disk ∧
      s'.vol = volAfterTruncate tail s.vol ∧ Chain s.vol s'.dev.disk c (pre ++ [x]) ∧
      (∀ y, y ∈ tail → isFree s.vol s'.dev.disk y) ∧ Frame s.vol s.dev.disk s'.dev.disk (x :: tail) ∧
      (tail = [] → s'.dev.disk = s.dev.disk) := by
  have hrx : InRange s.vol x := chain_inRange hch x (List.mem_append_right _ List.mem_cons_self)
  have hlt : ¬ x < Gen.RESERVED_ENTRIES := by have := hrx.1; show ¬ x < 2; omega
  have hnc := nextCluster_spec x s hn hc hg hrx
  obtain ⟨hxt, hxp, hpre, _⟩ := nodup_split (chain_nodup hch)
  cases tail with
  | nil =>
    rw [chain_last_of_split hch] at hnc
    refine ⟨afterRead (fatBlock s.vol x) s, ?_, hn, afterRead_coherent _ s, hb, rfl, hch, ?_, Frame.refl _ _ _, fun _ => rfl⟩
    · unfold truncateClusterChain
      simp only [ite_apply, if_neg hlt, bind_apply, attempt_apply, hnc, pure_apply]
    · intro y hy; cases hy
  | cons y t =>
    obtain ⟨hxy, hchy⟩ := chain_next_of_split hch
    rw [hxy] at hnc
    -- the state after the hint update
    generalize hs1 : ({ afterRead (fatBlock s.vol x) s with vol := hintMin y (afterRead (fatBlock s.vol x) s).vol } : FS) = s1
    have hn1 : NoFault s1 := by subst hs1; exact hn
    have hc1 : Coherent s1 := by subst hs1; exact afterRead_coherent _ s
    have hd1 : s1.dev.disk = s.dev.disk := by subst hs1; rfl
    have hv1 : s1.vol = hintMin y s.vol := by subst hs1; rfl
    have hg1 : SameGeom s.vol s1.vol := by rw [hv1]; exact hintMin_sameGeom y s.vol
    obtain ⟨s2, hu, hn2, hc2, hb2, hv2, hself2, hfr2⟩ :=
      updateFat_spec s1 x Gen.CLUSTER_END_OF_FILE hn1 hc1 (by rw [hd1]; exact hb) (hg1.wfGeom hg)
        (by rw [hg1.endCluster]; exact hrx.2)
    have heof2 : nextOf s1.vol s2.dev.disk x = .err .EndOfFile :=
      updateFat_eof_reads s1 x (by rw [hd1]; exact hb) hself2
    have hg2 : SameGeom s.vol s2.vol := hg1.trans (SameGeom.of_eq hv2)
    have hfr2' : Frame s.vol s.dev.disk s2.dev.disk [x] := by
      have := Frame.sameGeom hg1 hfr2
      rw [hd1] at this; exact this
    have hch2 : Chain s2.vol s2.dev.disk y (y :: t) :=
      chain_transfer hchy hg2.endCluster fun z hz => by
        rw [hg2.nextOf]
        exact nextOf_congr rfl (hfr2'.other z (chain_inRange hchy z hz).2
          (fun h => hxt (by rw [List.mem_singleton.1 h] at hz; exact hz)))
    have hfuel : (y :: t).length ≤ chainFuel s2.vol := by
      have := chain_length_le hch2
      unfold chainFuel; omega
    obtain ⟨s', hl, hn', hc', hb', hv', hfree', hfr'⟩ :=
      truncateLoop_spec (y :: t) y s2 (chainFuel s2.vol) hn2 hc2 hb2 (hg2.wfGeom hg) hch2 hfuel
    have hfr'' : Frame s.vol s2.dev.disk s'.dev.disk (y :: t) := Frame.sameGeom hg2 hfr'
    have hfrAll : Frame s.vol s.dev.disk s'.dev.disk (x :: y :: t) :=
      Frame.trans hfr2' hfr'' (fun c h => by rw [List.mem_singleton.1 h]; exact List.mem_cons_self)
        (fun c h => List.mem_cons_of_mem _ h)
    refine ⟨s', ?_, hn', hc', hb', ?_, ?_, fun z hz => (hg2.isFree _ _).1 (hfree' z hz), hfrAll, fun h => by cases h⟩
    · rw [truncate_unfold_ok x y s _ hlt hnc, hs1, bind_ok hu, bind_apply, getVol_apply]
      exact hl
    · rw [hv', hv2, hv1]; rfl
    · refine chain_cut pre hch rfl ?_ ?_
      · have h1 : nextOf s.vol s2.dev.disk x = .err .EndOfFile := by rw [← hg1.nextOf]; exact heof2
        rw [← h1]
        exact nextOf_congr rfl (hfr''.other x hrx.2 hxt)
      · intro z hz
        exact nextOf_congr rfl (hfrAll.other z (chain_inRange hch z (List.mem_append_left _ hz)).2 (hpre z hz))

/-! ### `free_cluster_chain` -/

/-- The last step of `free_cluster_chain(c)`: count `c`, lower the hint to `c`. -/
def freeHint (c : Nat) (v : FatVolume) : FatVolume :=
  { v with
    freeClustersCount := v.freeClustersCount.map satInc
    nextFreeCluster :=
      match v.nextFreeCluster with
      | some nf => if nf ≤ c then some nf else some c
      | none => some c }

/-- The volume record after `free_cluster_chain(c)` on the chain `c :: tail`. -/
def volAfterFree (c : Nat) (tail : List Nat) (v : FatVolume) : FatVolume := freeHint c (volAfterTruncate tail v)

theorem freeHint_sameGeom (c : Nat) (v : FatVolume) : SameGeom v (freeHint c v) := ⟨_, _, rfl⟩

theorem volAfterFree_sameGeom (c : Nat) (tail : List Nat) (v : FatVolume) : SameGeom v (volAfterFree c tail v) :=
  (volAfterTruncate_sameGeom tail v).trans (freeHint_sameGeom c _)

theorem freeHint_hintOK (c : Nat) (v : FatVolume) (hc : 2 ≤ c) (hh : HintOK v) : HintOK (freeHint c v) := by
  intro n hn
  unfold freeHint at hn
  simp only at hn
  cases hnf : v.nextFreeCluster with
  | none => rw [hnf] at hn; cases hn; exact hc
  | some nf =>
    rw [hnf] at hn
    simp only at hn
    split at hn
    · cases hn; exact hh _ hnf
    · cases hn; exact hc

theorem volAfterTruncate_hintOK (tail : List Nat) (v : FatVolume) (ht : ∀ y, y ∈ tail → 2 ≤ y) (hh : HintOK v) :
    HintOK (volAfterTruncate tail v) := by
  cases tail with
  | nil => exact hh
  | cons y t => exact bump_hintOK _ _ (hintMin_hintOK y v (ht y List.mem_cons_self) hh)

theorem volAfterTruncate_count (tail : List Nat) (v : FatVolume) :
    (volAfterTruncate tail v).freeClustersCount = v.freeClustersCount.map fun n => satAdd n tail.length := by
  cases tail with
  | nil => exact (map_satAdd_zero _).symm
  | cons y t => rfl

theorem volAfterFree_count (c : Nat) (tail : List Nat) (v : FatVolume) :
    (volAfterFree c tail v).freeClustersCount = v.freeClustersCount.map fun n => satAdd n (tail.length + 1) := by
  show ((volAfterTruncate tail v).freeClustersCount).map satInc = _
  rw [volAfterTruncate_count]
  cases v.freeClustersCount with
  | none => rfl
  | some n => simp only [Option.map_some]; rw [satAdd_succ]

theorem free_unfold (c : Nat) (s : FS) (hlt : ¬ c < Gen.RESERVED_ENTRIES) :
    freeClusterChain c s =
      (truncateClusterChain c >>= fun _ => updateFat c Gen.CLUSTER_EMPTY >>= fun _ => F.modifyVol (freeHint c)) s := by
  unfold freeClusterChain
  simp only [ite_apply, if_neg hlt]
  rfl

/-- `free_cluster_chain(c)` on the chain `c :: tail`: it succeeds, exactly the clusters of the chain
are free afterwards, no other entry changed. -/
theorem free_spec (s : FS) (c : Nat) (tail : List Nat) (hn : NoFault s) (hc : Coherent s) (hb : BlocksOK s.dev.disk)
    (hg : WFGeom s.vol) (hch : Chain s.vol s.dev.disk c (c :: tail)) :
    ∃ s', freeClusterChain c s = (.ok (), s') ∧ NoFault s' ∧ Coherent s' ∧ BlocksOK s'.dev.disk ∧
      s'.vol = volAfterFree c tail s.vol ∧ (∀ y, y ∈ c :: tail → isFree s.vol s'.dev.disk y) ∧
      Frame s.vol s.dev.disk s'.dev.disk (c :: tail) := by
  have hrc : InRange s.vol c := chain_inRange hch c List.mem_cons_self
  have hlt : ¬ c < Gen.RESERVED_ENTRIES := by have := hrc.1; show ¬ c < 2; omega
  have hct : c ∉ tail := (List.nodup_cons.1 (chain_nodup hch)).1
  obtain ⟨s1, ht, hn1, hc1, hb1, hv1, _, hfree1, hfr1, _⟩ := truncate_spec s c c [] tail hn hc hb hg hch
  have hg1 : SameGeom s.vol s1.vol := by rw [hv1]; exact volAfterTruncate_sameGeom tail s.vol
  obtain ⟨s2, hu, hn2, hc2, hb2, hv2, hself2, hfr2⟩ :=
    updateFat_spec s1 c Gen.CLUSTER_EMPTY hn1 hc1 hb1 (hg1.wfGeom hg) (by rw [hg1.endCluster]; exact hrc.2)
  have hfree2 : isFree s.vol s2.dev.disk c := (hg1.isFree _ _).1 (updateFat_empty_free s1 c hb1 hself2)
  have hfr2' : Frame s.vol s1.dev.disk s2.dev.disk [c] := Frame.sameGeom hg1 hfr2
  refine ⟨{ s2 with vol := freeHint c s2.vol }, ?_, hn2, hc2, hb2, ?_, ?_, ?_⟩
  · rw [free_unfold c s hlt, bind_ok ht, bind_ok hu, modifyVol_apply]
  · show freeHint c s2.vol = _
    rw [hv2, hv1]; rfl
  · intro y hy
    rcases List.mem_cons.1 hy with hy | hy
    · subst hy; exact hfree2
    · have hyc : y ∉ [c] := fun h => hct (by rw [List.mem_singleton.1 h] at hy; exact hy)
      have hyr : y < endCluster s.vol := by
        have := chain_inRange hch y (List.mem_cons_of_mem _ hy)
        exact this.2
      have := hfree1 y hy
      unfold isFree fatEntry at this ⊢
      rw [hfr2'.other y hyr hyc]; exact this
  · exact Frame.trans hfr1 hfr2' (fun _ h => h) (fun y h => by rw [List.mem_singleton.1 h]; exact List.mem_cons_self)

end Sdmmc.Lemmas.ForestTrunc
