/-
Volume invariant (C03), `make_dir_in_dir`, part 2 (engine): `make_dir(parent, name, DIRECTORY)` for a
name the parent does not hold keeps the invariant (`makeDir_med`) — whether it succeeds (the new
directory joins the ghost: chain `[c]`, directory `(c, parent)`), or answers `NotEnoughSpace` before
(nothing changed) or after the allocation (the new cluster is freed again).
-/
import Sdmmc.Lemmas.VolApiMkdir2

namespace Sdmmc.Lemmas.VolEng
open Sdmmc.Model Sdmmc.Model.Fat Sdmmc.Spec.Volume Sdmmc.Lemmas.VolBase Sdmmc.Lemmas.VolTree
open Sdmmc.Spec hiding NoFault Coherent
open Sdmmc.Lemmas.VolDisk Sdmmc.Lemmas.VolMed Sdmmc.Lemmas.VolWalk
open Sdmmc.Lemmas.FBasic
open Sdmmc.Lemmas.FatOps hiding BlocksOK Mirror HintOK

/-- `make_dir` after its allocation succeeded: the block writes into the new cluster lead to a state
`fs4`; then the entry is created in the parent and, should that fail, the cluster is freed again. -/
theorem makeDir_steps {fs fs1 : FS} {c : Nat} (parent : Nat) (sfn : Bytes) (att : Nat) (now : Timestamp)
    (ha : allocCluster none false fs = (.ok c, fs1)) (hn1 : NoFault fs1) :
    ∃ fs4, NoFault fs4 ∧ Coherent fs4 ∧ fs4.vol = fs1.vol ∧
      (∀ i, fs4.dev.disk.get i =
        if clusterToBlock fs1.vol c + 1 ≤ i ∧ i < clusterToBlock fs1.vol c + 1 + (fs1.vol.blocksPerCluster - 1) then zeroBlock
        else if clusterToBlock fs1.vol c = i then
          DirMake.dirBlock fs1.vol.fatType c parent att now (clusterToBlock fs1.vol c)
        else fs1.dev.disk.get i) ∧
      ∀ (r : Res DirEntry) (s5 : FS), writeNewDirectoryEntry parent sfn att c now fs4 = (r, s5) →
        (∀ e, r = .ok e → makeDir parent sfn att now fs = (.ok (), s5)) ∧
        (∀ e, r = .err e → makeDir parent sfn att now fs = (.err e, (freeClusterChain c s5).2)) := by
  generalize hsb : clusterToBlock fs1.vol c = sb
  let s2 : FS := { fs1 with cache := { tag := some sb, blk := DirMake.dirBlock fs1.vol.fatType c parent att now sb } }
  have hn2 : NoFault s2 := hn1
  have htag : s2.cache.tag = some sb := rfl
  have hwb : writeBack s2 = (.ok (), (writeBack s2).2) := Prod.ext (writeBack_fst s2 sb hn2 htag) rfl
  have hn3 := writeBack_noFault s2 sb hn2 htag
  have hc3 := writeBack_coherent s2 sb hn2 htag
  have hd3 := writeBack_disk s2 sb hn2 htag
  have hv3 : (writeBack s2).2.vol = fs1.vol := by rw [writeBack_eq s2 sb hn2 htag]
  generalize (writeBack s2).2 = s3 at hwb hn3 hc3 hd3 hv3
  obtain ⟨hz1, _, hn4, hc4, hv4⟩ := zeroBlocks_writes s3 (fs1.vol.blocksPerCluster - 1) (sb + 1) hn3 hc3
  have hzb : zeroBlocks (fs1.vol.blocksPerCluster - 1) (sb + 1) s3 =
      (.ok (), (zeroBlocks (fs1.vol.blocksPerCluster - 1) (sb + 1) s3).2) := Prod.ext hz1 rfl
  have hd4 := DirFat.zeroBlocks_disk s3 (fs1.vol.blocksPerCluster - 1) (sb + 1) hn3
  generalize (zeroBlocks (fs1.vol.blocksPerCluster - 1) (sb + 1) s3).2 = s4 at hzb hn4 hc4 hv4 hd4
  refine ⟨s4, hn4, hc4, hv4.trans hv3, ?_, ?_⟩
  · intro i
    rw [hd4 i]
    split
    · rfl
    · rw [hd3, Disk.get_set]
  · have hstep : ∀ (r : Res DirEntry) (s5 : FS), makeDir parent sfn att now fs =
        (match (writeNewDirectoryEntry parent sfn att c now s4).1 with
          | Res.ok _ => pure ()
          | Res.err e => do
            let _ ← (freeClusterChain c).attempt
            F.fail e
          | other => F.lift (other.bind fun _ => Res.ok ()) : F Unit) (writeNewDirectoryEntry parent sfn att c now s4).2 := by
      intro _ _
      unfold makeDir
      rw [bind_ok ha, bind_ok (getVol_apply fs1), bind_ok (blankMut_apply _ _), bind_ok (cacheModify_apply _ _), hsb]
      refine (bind_ok hwb).trans ?_
      rw [bind_ok hzb, bind_ok (attempt_apply _ _)]
      rfl
    intro r s5 hw
    have hst := hstep r s5
    rw [hw] at hst
    constructor
    · intro e he
      rw [hst, he]
      rfl
    · intro e he
      rw [hst, he]
      show ((freeClusterChain c).attempt >>= fun _ => F.fail e) s5 = _
      rw [bind_ok (attempt_apply _ _)]
      rfl

section
variable {files : List FileInfo}

/-- **The directory entry of the new directory is written.**  State `(v1, d1)` with the chains `G1` and
the not yet referenced chain `[c]`, whose cluster holds the dot block and blank blocks; the entry naming
`c` goes into the free slot `old` of directory `dirIdOf dc`: the invariant holds with the chain `[c]`
and the directory `(c, dirIdOf dc)` added to the ghost. -/
theorem mkdir_finish {v1 : FatVolume} {d1 : Disk} {G1 : List (List Nat)} {dirs : List (Nat × Nat)} {c dc : Nat}
    {pre post : List Slot} {old : Slot}
    (hM1 : MedX v1 d1 files { vol := v1, G := G1, dirs := dirs } [[c]]) (hv : ValidDir dirs dc)
    (hsplit : dirSlots v1 d1 G1 (dirIdOf dc) = pre ++ old :: post) (hpre_nz : ∀ s, s ∈ pre → first s ≠ 0)
    (hpre_len : dirIdOf dc ≠ 0 → 2 ≤ pre.length) (hfree : freeSlot old)
    (sfn : Bytes) (hlen : sfn.length = 11) (h0 : byteAt sfn 0 ≠ 0) (hE5 : byteAt sfn 0 ≠ 0xE5)
    (hfresh : sfn ∉ (entries (dirSlots v1 d1 G1 (dirIdOf dc))).map sName) (now : Timestamp)
    (hB0 : d1.get (clusterToBlock v1 c) = DirMake.dirBlock v1.fatType c dc 16 now (clusterToBlock v1 c))
    (hBz : ∀ i, i < v1.blocksPerCluster - 1 → d1.get (clusterToBlock v1 c + 1 + i) = zeroBlock) :
    MedX v1 (d1.set old.1 (splice (d1.get old.1) old.2.1
        (DirEntry.serialize v1.fatType (DirEntry.new sfn 16 c now old.1 old.2.1)))) files
      { vol := v1, G := G1 ++ [[c]], dirs := dirs ++ [(c, dirIdOf dc)] } [] := by
  obtain ⟨hh, hvd⟩ := validDir_id hM1 hv
  have hh' : dirIdOf dc ∈ dirIds dirs := hh
  have hHall : HeadsOK (G1 ++ [[c]]) := med_headsAll hM1
  have hG : HeadsOK G1 := med_heads hM1
  have hcmem : [c] ∈ G1 ++ [[c]] := List.mem_append_right _ (List.mem_singleton.2 rfl)
  have hcR : InRange v1 c := ChainL.chain_inRange (hM1.owns.1 [c] hcmem) c (List.mem_singleton.2 rfl)
  have hc2 : 2 ≤ c := hcR.1
  have hcheads : c ∉ heads G1 := by
    have := hHall.nodup
    unfold heads at this
    rw [List.map_append, List.nodup_append] at this
    intro hm
    exact this.2.2 c hm c (List.mem_singleton.2 rfl) rfl
  have hcG : c ∉ G1.flatten := by
    have := hM1.owns.2.1
    rw [List.flatten_append, List.nodup_append] at this
    intro hm
    exact this.2.2 c hm c (by simp) rfl
  have hfitOf : ∀ x, x < endCluster v1 → ClusterFits v1.fatType x := by
    intro x hx
    have := hM1.geom.count_bound
    unfold ClusterFits
    cases hft : v1.fatType <;> rw [hft] at this <;> simp only at this ⊢ <;> omega
  have hfit : ClusterFits v1.fatType c := hfitOf c hcR.2
  have hfitP : ClusterFits v1.fatType (dirIdOf dc) := by
    by_cases hroot : dc = Gen.CLUSTER_ROOT_DIR
    · have : dirIdOf dc = 0 := by unfold dirIdOf; rw [if_pos hroot]
      rw [this]
      unfold ClusterFits
      cases v1.fatType <;> decide
    · obtain ⟨he, _, hlt⟩ := hvd hroot
      rw [he]; exact hfitOf dc hlt
  -- the new entry
  obtain ⟨hbl, hfirst, hsn, hsa, hsc, hss⟩ := new_entry_slot v1.fatType sfn 16 c now old.1 old.2.1 hlen (by decide) hfit
  generalize hbytes : DirEntry.serialize v1.fatType (DirEntry.new sfn 16 c now old.1 old.2.1) = bytes at hbl hfirst hsn hsa hsc hss
  have hE := slotEdit_write hM1 hh hsplit hpre_nz hpre_len bytes hbl (by rw [hfirst]; exact h0)
  have hkeep : keep (old.1, old.2.1, bytes) = true := by
    unfold keep isFrag
    rw [hfirst, hsa]
    simp [hE5]
  have hnd : isDirE (old.1, old.2.1, bytes) = true := by
    unfold isDirE; rw [hsa]; decide
  obtain ⟨hb', hfat', _, _⟩ := slot_write hM1 hh hsplit bytes hbl
  generalize hd' : d1.set old.1 (splice (d1.get old.1) old.2.1 bytes) = d' at hE hb' hfat'
  have hold_mem : old ∈ dirSlots v1 d1 G1 (dirIdOf dc) := by rw [hsplit]; simp
  -- slot lists over the new chain list
  have hslotsOld : ∀ x, x ∈ dirIds dirs → ∀ dd : Disk, dirSlots v1 dd (G1 ++ [[c]]) x = dirSlots v1 dd G1 x := by
    intro x hx dd
    by_cases hf : isFixedRoot v1 x
    · rw [dirSlots_fixed hf, dirSlots_fixed hf]
    · rw [dirSlots_chain hf, dirSlots_chain hf, chainOf_append_other hHall]
      intro e
      apply hcheads
      have := dirHead_mem hM1 (show x ∈ dirIds ({ vol := v1, G := G1, dirs := dirs } : Ghost).dirs from hx) hf
      rw [e] at this
      exact this
  have hE' : SlotEdit dirs (dirSlots v1 d1 G1) (dirSlots v1 d' (G1 ++ [[c]])) (dirIdOf dc) pre post old
      (old.1, old.2.1, bytes) :=
    ⟨hE.mem, fun x hx hne => by rw [hslotsOld x hx]; exact hE.other x hx hne, hE.before,
      by rw [hslotsOld _ hh']; exact hE.after, hE.pre_nz, hE.pre_len, hE.new_nz⟩
  have hslotC : dirSlots v1 d' (G1 ++ [[c]]) c = runSlots d' (clusterToBlock v1 c) v1.blocksPerCluster := by
    unfold dirSlots
    rw [if_neg (by omega), chainOf_of_mem hHall hcmem rfl, VolDisk.chainSlots_cons, VolDisk.chainSlots_nil, List.append_nil]
  have hblkC : ∀ j, j < v1.blocksPerCluster → d'.get (clusterToBlock v1 c + j) = d1.get (clusterToBlock v1 c + j) := by
    intro j hj
    rw [← hd']
    exact Disk.get_set_ne _ _ _ _ (dirSlot_not_cluster hM1 hh hold_mem hcR hcG hj)
  have hpos := hM1.geom.bpc_pos
  have hB0' : d'.get (clusterToBlock v1 c) = DirMake.dirBlock v1.fatType c dc 16 now (clusterToBlock v1 c) := by
    have := hblkC 0 hpos
    rw [Nat.add_zero] at this
    rw [this, hB0]
  have hBz' : ∀ i, i < v1.blocksPerCluster - 1 → d'.get (clusterToBlock v1 c + 1 + i) = zeroBlock := by
    intro i hi
    have := hblkC (1 + i) (by omega)
    rw [← Nat.add_assoc] at this
    rw [this, hBz i hi]
  obtain ⟨hctC, hnamesC, hdotsC, hobjC⟩ := newDir_slots hpos hB0' hBz' hfit rfl hfitP (by omega : c ≠ 0)
  rw [← hslotC] at hctC hnamesC hdotsC hobjC
  have hcnot : c ∉ dirIds dirs := by
    intro hm
    rcases mem_dirIds.1 hm with e | ⟨p, hp⟩
    · omega
    · exact hcheads (dir_mem_heads hM1.tree hp)
  have htree := tree_mkdir hM1.tree hG hE' hfree hkeep hnd (by rw [hsn]; exact hfresh) hsc hcnot hctC hnamesC hdotsC hobjC
    (fun a => heads_append_count G1 [c] a)
    (fun c' hc' => by
      have hne : c' ≠ [c].headD 0 := by
        intro e
        have e' : c' = c := e
        rw [e'] at hc'
        exact hcheads hc'
      show (chainOf G1 c').length ≤ _
      rw [chainOf_append_other hHall hne]
      exact Nat.le_refl _)
  have hown : Owns v1 d' (G1 ++ [[c]]) := WriteRefines.owns_of_fat_eq hfat' hM1.owns
  refine ⟨hb', hM1.geom, hM1.hint, by rw [List.append_nil]; exact hown, htree, ?_⟩
  intro f hf
  obtain ⟨hok, hcur⟩ := hM1.fileOK f hf
  have hne : f.entry.cluster ≠ c := by
    intro e
    rcases hok.chain with ⟨hlt, _, _⟩ | hch
    · omega
    · have hnil : chainOf G1 c = [] := chainOf_nil hcheads
      rw [e] at hch
      change Chain v1 d1 c (chainOf G1 c) at hch
      rw [hnil] at hch
      exact ChainL.chain_ne_nil hch rfl
  show FileOK v1 d' f (chainOf (G1 ++ [[c]]) f.entry.cluster) ∧ (chainOf (G1 ++ [[c]]) f.entry.cluster = [] → _)
  rw [chainOf_append_other hHall hne]
  refine ⟨fileOK_congr (SameGeom.refl v1) hok ?_, hcur⟩
  intro hnil
  have hm := chainOf_spec hG ((chainOf_ne_nil_iff hG).1 hnil)
  have := hown.1 _ (List.mem_append_left _ hm.1)
  rwa [headD_of_head? hm.2] at this

theorem validDir_mono {dirs extra : List (Nat × Nat)} {c : Nat} (h : ValidDir dirs c) : ValidDir (dirs ++ extra) c := by
  rcases h with h | h
  · exact .inl h
  · right
    rw [List.map_append]
    exact List.mem_append_left _ h

/-- **`make_dir(parent, name, DIRECTORY)`** on a directory of a sound volume, for a name the directory
does not hold: whatever the outcome, the invariant holds afterwards (for a new ghost), and every
directory handle stays valid. -/
theorem makeDir_med {gh : Ghost} {fs : FS} (hM : MedX fs.vol fs.dev.disk files gh []) (hn : NoFault fs) (hc : Coherent fs)
    {dc : Nat} (hv : ValidDir gh.dirs dc) (sfn : Bytes) (hlen : sfn.length = 11) (h0 : byteAt sfn 0 ≠ 0)
    (hE5 : byteAt sfn 0 ≠ 0xE5)
    (hfresh : sfn ∉ (entries (dirSlots fs.vol fs.dev.disk gh.G (dirIdOf dc))).map sName) (now : Timestamp) :
    ∃ r fs', makeDir dc sfn Gen.ATTR_DIRECTORY now fs = (r, fs') ∧ NoFault fs' ∧ Coherent fs' ∧ SameGeom fs.vol fs'.vol ∧
      ∃ gh', gh'.vol = fs'.vol ∧ MedX fs'.vol fs'.dev.disk files gh' [] ∧
        (∀ c, ValidDir gh.dirs c → ValidDir gh'.dirs c) := by
  show ∃ r fs', makeDir dc sfn 16 now fs = (r, fs') ∧ _
  rcases ForestAlloc.alloc_total fs none false hn hc with ⟨c, fs1, ha⟩ | ⟨s', ha, hd, hv', hn', hc'⟩
  swap
  · -- the volume is full: nothing happened
    refine ⟨.err .NotEnoughSpace, s', ?_, hn', hc', SameGeom.of_eq hv', { gh with vol := s'.vol }, rfl, ?_, fun _ h => h⟩
    · unfold makeDir; rw [bind_err ha]
    · rw [hd, hv']; exact medX_of_ghost hM rfl rfl
  -- 1. the allocation
  have hr : Ready fs := ⟨hn, hc, hM.blocksOK, hM.geom, hM.hint⟩
  have ho : Owns fs.vol fs.dev.disk gh.G := by have := hM.owns; rwa [List.append_nil] at this
  have hG := med_heads hM
  obtain ⟨hr1, ho1, hsg, _, _⟩ := ForestStep.owns_newChain fs fs1 gh.G false c hr ho ha
  obtain ⟨hcR, _, _, hcG', _⟩ := ForestFinal.alloc_never_returns_used fs fs1 none false c hn hc hM.hint ha
  have hcG : c ∉ gh.G.flatten := hcG' _ ho
  have hpp : ∀ p, (none : Option Nat) = some p → p < endCluster fs.vol := fun p hp => by cases hp
  obtain ⟨hk1, hk2⟩ := alloc_keeps_blocks hn hc hM.blocksOK hM.geom hM.hint hpp ha
  have hblocks1 := dir_blocks_keep hM hcG hk1 hk2
  have hmemOf : ∀ (f : FileInfo) (Y : List (List Nat)),
      chainOf gh.G f.entry.cluster = [] ∨ chainOf gh.G f.entry.cluster ∈ gh.G ++ Y := by
    intro f Y
    by_cases hnil : chainOf gh.G f.entry.cluster = []
    · exact .inl hnil
    · exact .inr (List.mem_append_left _ (chainOf_spec hG ((chainOf_ne_nil_iff hG).1 hnil)).1)
  have hM1 : MedX fs1.vol fs1.dev.disk files { vol := fs1.vol, G := gh.G, dirs := gh.dirs } [[c]] :=
    medX_fat_update hM hsg hr1.hint hr1.blocksOK (G' := gh.G) (X' := [[c]]) ho1 (fun _ _ _ => rfl) hblocks1 rfl hM.tree
      (fun f hf => ⟨fileOK_of_owns hsg (hM.fileOK f hf).1 ho1 (hmemOf f _), (hM.fileOK f hf).2⟩)
  have hsl1 : ∀ h, h ∈ dirIds gh.dirs → dirSlots fs1.vol fs1.dev.disk gh.G h = dirSlots fs.vol fs.dev.disk gh.G h := by
    intro h hh
    rw [dirSlots_sameGeom hsg]
    exact dirSlots_congr (hblocks1 h hh)
  have hcR1 : InRange fs1.vol c := (hsg.inRange c).2 hcR
  -- 2. the blocks of the new cluster
  obtain ⟨fs4, hn4, hc4, hv4, hd4, hsteps⟩ := makeDir_steps dc sfn 16 now ha hr1.noFault
  have hpos : 0 < fs1.vol.blocksPerCluster := hr1.geom.bpc_pos
  have hb4 : BlocksOK fs4.dev.disk := by
    intro i
    rw [hd4 i]
    split
    · exact zeroBlock_length
    · split
      · exact (DirMake.dirBlock_facts _ _ _ _ _ _).1
      · exact hr1.blocksOK i
  have hsame4 : ∀ i, (∀ j, j < fs1.vol.blocksPerCluster → i ≠ clusterToBlock fs1.vol c + j) →
      fs4.dev.disk.get i = fs1.dev.disk.get i := by
    intro i hi
    rw [hd4 i, if_neg, if_neg]
    · intro e
      exact hi 0 hpos (by omega)
    · rintro ⟨h1, h2⟩
      exact hi (i - clusterToBlock fs1.vol c) (by omega) (by omega)
  obtain ⟨hM4', hsl4⟩ := medX_cluster_write hM1 hcR1 hcG hb4 hsame4
  have hM4 : MedX fs4.vol fs4.dev.disk files { vol := fs1.vol, G := gh.G, dirs := gh.dirs } [[c]] := by
    rw [hv4]; exact hM4'
  have hB0 : fs4.dev.disk.get (clusterToBlock fs1.vol c) =
      DirMake.dirBlock fs1.vol.fatType c dc 16 now (clusterToBlock fs1.vol c) := by
    rw [hd4, if_neg (by omega), if_pos rfl]
  have hBz : ∀ i, i < fs1.vol.blocksPerCluster - 1 → fs4.dev.disk.get (clusterToBlock fs1.vol c + 1 + i) = zeroBlock := by
    intro i hi
    rw [hd4, if_pos ⟨by omega, by omega⟩]
  -- 3. the entry in the parent
  obtain ⟨hh, _⟩ := validDir_id hM hv
  obtain ⟨r, fs5, hrun, hn5, hc5, hcase⟩ :=
    writeNew_stage hM4 hn4 hc4 (show ValidDir ({ vol := fs1.vol, G := gh.G, dirs := gh.dirs } : Ghost).dirs dc from hv) sfn 16 c now
  obtain ⟨hok, herr⟩ := hsteps r fs5 hrun
  rcases hcase with ⟨hre, hd5, hv5⟩ | ⟨v1, d1, G1, pre, post, old, hS, hre, hd'⟩
  · -- no room for the entry: the cluster is given back
    have hM5 : MedX fs5.vol fs5.dev.disk files { vol := fs1.vol, G := gh.G, dirs := gh.dirs } [[c]] := by
      rw [hd5, hv5]; exact hM4
    have hr5 : Ready fs5 := ⟨hn5, hc5, hM5.blocksOK, hM5.geom, hM5.hint⟩
    have ho5 : Owns fs5.vol fs5.dev.disk (gh.G ++ [c :: []] ++ []) := by rw [List.append_nil]; exact hM5.owns
    obtain ⟨s6, hf, hr6, ho6, hsg6, _, _⟩ := ForestStep.owns_free fs5 gh.G [] c [] hr5 ho5
    have hch : Chain fs5.vol fs5.dev.disk c [c] :=
      hM5.owns.1 [c] (List.mem_append_right _ (List.mem_singleton.2 rfl))
    obtain ⟨s6', hf', _, _, _, _, _, hfr⟩ := ForestTrunc.free_spec fs5 c [] hn5 hc5 hM5.blocksOK hM5.geom hch
    have hs6 : s6' = s6 := by
      rw [hf] at hf'
      exact (congrArg Prod.snd hf').symm
    subst hs6
    have ho6' : Owns s6'.vol s6'.dev.disk (gh.G ++ []) := by
      have := ho6
      rwa [List.append_nil] at this
    have hM6 : MedX s6'.vol s6'.dev.disk files { vol := s6'.vol, G := gh.G, dirs := gh.dirs } [] :=
      medX_fat_update hM5 hsg6 hr6.hint hr6.blocksOK (G' := gh.G) (X' := []) ho6' (fun _ _ _ => rfl)
        (fun h hh' s hs => hfr.nonFat _ (by
          rcases dirSlot_not_fat hM5 hh' hs with h1 | h1 <;> rw [h1] <;> intro e <;> cases e))
        rfl hM5.tree
        (fun f hf => ⟨fileOK_of_owns hsg6 (hM5.fileOK f hf).1 ho6' (hmemOf f _), (hM5.fileOK f hf).2⟩)
    refine ⟨.err .NotEnoughSpace, s6', ?_, hr6.noFault, hr6.coherent,
      hsg.trans ((SameGeom.of_eq (hv5.trans hv4)).trans hsg6), _, rfl, hM6, fun _ h => h⟩
    rw [herr _ hre, hf]
  · -- the entry is written
    have hsgS := hS.sameGeom
    have hctb : clusterToBlock v1 c = clusterToBlock fs1.vol c := by
      rw [WriteRefines.sameGeom_clusterToBlock hsgS, hv4]
    have hbpc : v1.blocksPerCluster = fs1.vol.blocksPerCluster := by rw [WriteRefines.sameGeom_bpc hsgS, hv4]
    have hft : v1.fatType = fs1.vol.fatType := by rw [hsgS.fatType, hv4]
    have hextra : ∀ j, j < fs1.vol.blocksPerCluster →
        d1.get (clusterToBlock fs1.vol c + j) = fs4.dev.disk.get (clusterToBlock fs1.vol c + j) := by
      intro j hj
      have := hS.extra_blocks c j hcR1.1 (by rw [hv4]; exact hcR1.2)
        ⟨[c], List.mem_append_right _ (List.mem_singleton.2 rfl), List.mem_singleton.2 rfl⟩ (by rw [hv4]; exact hj)
      rw [hv4] at this
      exact this
    have hfresh1 : sfn ∉ (entries (dirSlots v1 d1 G1 (dirIdOf dc))).map sName := by
      rw [hS.entries_eq _ hh, hv4, hsl4 _ hh, hsl1 _ hh]
      exact hfresh
    have hfin := mkdir_finish hS.med hv hS.split hS.pre_nz hS.pre_len hS.free sfn hlen h0 hE5 hfresh1 now
      (by
        rw [hctb, hft]
        have := hextra 0 hpos
        rw [Nat.add_zero] at this
        rw [this, hB0])
      (by
        intro i hi
        rw [hbpc] at hi
        rw [hctb]
        have := hextra (1 + i) (by omega)
        rw [← Nat.add_assoc] at this
        rw [this, hBz i hi])
    refine ⟨.ok (), fs5, ?_, hn5, hc5, hsg.trans ((SameGeom.of_eq hv4).trans (hsgS.trans (SameGeom.of_eq hS.vol'))), { vol := v1, G := G1 ++ [[c]], dirs := gh.dirs ++ [(c, dirIdOf dc)] }, hS.vol'.symm,
      ?_, fun _ h => validDir_mono h⟩
    · exact hok _ hre
    · rw [hS.vol', hd']; exact hfin

end

end Sdmmc.Lemmas.VolEng
