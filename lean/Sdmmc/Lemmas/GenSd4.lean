/-
Tie of the SD-card driver to the source text, part 4: `read_csd`, `num_blocks`, `num_bytes`.
-/
import Sdmmc.Lemmas.GenSd3
import Sdmmc.Props.C12Gen

namespace Sdmmc.Lemmas.GenSd
open Sdmmc.Model Sdmmc.Model.Sd Sdmmc.Gen Sdmmc.Lemmas.Sd

variable {σ : Type} (B : BusOps σ)

theorem csd_ver_eq (d : Bytes) : FunsSd.CsdV2_csd_ver d = Csd.v2CsdVer d := by
  unfold FunsSd.CsdV2_csd_ver Csd.v2CsdVer Csd.field csdV2_csd_ver
  simp only [List.foldl, Csd.accessField, rdByte_eq, Sdmmc.Lemmas.GenBits.shr, Sdmmc.Lemmas.GenBits.and_3, Nat.zero_mul,
    Nat.zero_add, Nat.reducePow]
  rfl

/-- the model's `(register, is it a version 2 layout)` as the crate's `Csd` -/
def toCsd (p : Bytes × Bool) : FunsSd.Csd := if p.2 then .V2 p.1 else .V1 p.1

theorem read_csd_eq : FunsSd.read_csd B = readCsd B >>= fun p => pure (toCsd p) := by
  unfold FunsSd.read_csd readCsd
  rw [bind_assoc]
  congr 1
  funext st
  have h16 : (FunsSd.CsdV1_new).length = 16 := rfl
  have h16' : (FunsSd.CsdV2_new).length = 16 := rfl
  cases hct : st.cardType with
  | none => rfl
  | some ct =>
    cases ct <;>
      simp only [card_command_eq, read_data_eq, h16, h16', bind_assoc, pure_bind, ite_bind, fail_bind, csd_ver_eq, CMD9, toCsd]
    · rfl
    · congr 1; funext r; split
      · rfl
      · congr 1; funext csd; by_cases hv : Csd.v2CsdVer csd = 0 <;> simp [hv]
    · congr 1; funext r; split
      · rfl
      · congr 1; funext csd; by_cases hv : Csd.v2CsdVer csd = 0 <;> simp [hv]

theorem num_blocks_eq : FunsSd.num_blocks B = numBlocks B := by
  unfold FunsSd.num_blocks numBlocks
  rw [read_csd_eq, bind_assoc]
  congr 1
  funext p
  obtain ⟨csd, v2⟩ := p
  cases v2 <;> simp [toCsd, Sdmmc.Props.C12Gen.v1_capacity_blocks_eq, Sdmmc.Props.C12Gen.v2_capacity_blocks_eq]

theorem num_bytes_eq : FunsSd.num_bytes B = numBytes B := by
  unfold FunsSd.num_bytes numBytes
  rw [read_csd_eq, bind_assoc]
  congr 1
  funext p
  obtain ⟨csd, v2⟩ := p
  cases v2 <;> simp [toCsd, Sdmmc.Props.C12Gen.v1_capacity_bytes_eq, Sdmmc.Props.C12Gen.v2_capacity_bytes_eq]

end Sdmmc.Lemmas.GenSd
