/-
ROUTE (D) — the licence argument without `Mirror` (`Lemmas/LicX*`, restated from the invariant with size slack in
`Lemmas/DLicX*` by `tools/gend.py`) ALONG HISTORIES WITH NO RESTRICTION ON WHERE DEVICE CALLS FAIL: every covered history that
satisfies the side condition `NotDamagedRun` is licensed (`runLic1_ofD`), for some slack.
-/
import Sdmmc.Lemmas.DLicXFault
import Sdmmc.Lemmas.FaultDTruncRun

namespace Sdmmc.Lemmas.VolD
open Sdmmc.Lemmas.VolX.Lic
open Sdmmc.Model Sdmmc.Model.Fat Sdmmc.Spec.Volume
open Sdmmc.Spec hiding NoFault Coherent
open Sdmmc.Lemmas.MHoare Sdmmc.Lemmas.FaultInv Sdmmc.Lemmas.Retry Sdmmc.Lemmas.FaultHist
open Sdmmc.Lemmas.WriteSetInv (LicenceFor run_cons)

theorem RunLic1.mono {sk sk' : Nat} (h : sk ≤ sk') {v0 : FatVolume} : ∀ {s : Mgr} {ops : List Op} {Ls : List Licence},
    RunLic1 sk v0 s ops Ls → RunLic1 sk' v0 s ops Ls
  | _, _, _, .nil s => .nil s
  | _, _, _, .cons s op ops L Ls gh Xs hI hg hl ha hd rest =>
    .cons s op ops L Ls gh Xs (hI.mono h) hg hl ha hd (RunLic1.mono h rest)

/-- **Every covered history satisfying the side condition is licensed** — whatever device calls fail —, and `InvFE`
holds at its end, for some slack. -/
theorem runLic1_ofD (v0 : FatVolume) : ∀ (ops : List Op) {sk : Nat} {s : Mgr} {gh : Ghost}, InvFE sk gh s →
    SameGeom v0 gh.vol → CoveredRunF s ops → NotDamagedRun s ops →
    ∃ sk', sk ≤ sk' ∧ ∃ Ls, RunLic1 sk' v0 s ops Ls ∧ InvFE sk' gh (run s ops).1
  | [], sk, s, gh, hI, _, _, _ => ⟨sk, Nat.le_refl _, [], .nil s, hI⟩
  | op :: ops, sk, s, gh, hI, hg, hc, hn => by
    obtain ⟨⟨gh1, X1, hI1, hg1⟩, hR⟩ := hI
    obtain ⟨L, hlic, hall, hdisk⟩ := step_lic1 hI1 op hc.1
    obtain ⟨⟨sk1, hle1, hE1⟩, _⟩ := step_outD ⟨⟨gh1, X1, hI1, hg1⟩, hR⟩ op hc.1 hn.1
    obtain ⟨sk2, hle2, Ls, hRun, hE2⟩ := runLic1_ofD v0 ops hE1 hg hc.2 hn.2
    refine ⟨sk2, Nat.le_trans hle1 hle2, L :: Ls, .cons s op ops L Ls gh1 X1 (hI1.mono (Nat.le_trans hle1 hle2)) (hg.trans hg1) hlic
      ((WriteSet1.allLicensed_sameGeom (hg.trans hg1) L _ _).1 hall) hdisk hRun, ?_⟩
    rw [run_cons]; exact hE2

end Sdmmc.Lemmas.VolD
