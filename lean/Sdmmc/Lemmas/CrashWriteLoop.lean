/-
Crash points of the loop of `write` (`Model.writeLoop`), on top of `WriteRefines.writeLoop_spec`.
`WCrash`: a crashed medium of a stretch of the loop that stores `data` at the offset of `f` — for some
`m ≤ data.length` (the part of `data` whose block writes have reached the medium) and some chain `csk`
between the chain before and the chain after the stretch, the record with `csk` is structurally sound
(`OwnsLoose`) and the file's byte array read along `csk` is the old one with `data.take m` written at the
old offset.
-/
import Sdmmc.Lemmas.CrashMgr
import Sdmmc.Lemmas.ForestFinal

namespace Sdmmc.Lemmas.CrashWriteLoop
open Sdmmc.Model Sdmmc.Model.Fat Sdmmc.Spec
open Sdmmc.Lemmas.FBasic hiding NoFault Coherent
open Sdmmc.Lemmas.FatOps hiding BlocksOK Mirror HintOK
open Sdmmc.Lemmas.ChainL Sdmmc.Lemmas.ForestBase Sdmmc.Lemmas.ForestOwns Sdmmc.Lemmas.ReadRefines
open Sdmmc.Lemmas.WriteRefines Sdmmc.Lemmas.CrashBase Sdmmc.Lemmas.CrashMgr

/-- A crashed medium `d` of a stretch of the loop of `write`. -/
def WCrash (v : FatVolume) (A B : List (List Nat)) (d0 : Disk) (f : FileInfo) (cs cs' : List Nat) (data : Bytes) (k : Nat) (d : Disk) : Prop :=
  ∃ m csk, m ≤ k ∧ cs <+: csk ∧ csk <+: cs' ∧ OwnsLoose v d (A ++ [csk] ++ B) ∧
    fileContent v d csk (max f.entry.size (f.currentOffset + m)) =
      splice (fileContent v d0 cs f.entry.size) f.currentOffset (data.take m)

theorem WCrash.mono {v : FatVolume} {A B : List (List Nat)} {d0 d : Disk} {f : FileInfo} {cs cs' cs'' : List Nat} {data : Bytes} {k : Nat}
    (h : WCrash v A B d0 f cs cs' data k d) (hp : cs' <+: cs'') : WCrash v A B d0 f cs cs'' data k d := by
  obtain ⟨m, csk, h1, h2, h3, h4, h5⟩ := h
  exact ⟨m, csk, h1, h2, h3.trans hp, h4, h5⟩

theorem mid_cancel {A B : List (List Nat)} {X Y : List Nat} (h : A ++ [X] ++ B = A ++ [Y] ++ B) : X = Y := by
  rw [List.append_assoc, List.append_assoc] at h
  have := List.append_cancel_left h
  simp only [List.singleton_append, List.cons.injEq] at this
  exact this.1

/-- A crash point of `locate`: nothing of the data is stored yet. -/
theorem wcrash_of_loc {v : FatVolume} {A B : List (List Nat)} {d0 dfin d : Disk} {f : FileInfo} {cs cs1 cs' : List Nat} (data : Bytes) (k : Nat)
    (hg : WFGeom v) (hb : BlocksOK d0) (hne : cs ≠ []) (hsz : f.entry.size ≤ cs.length * clusterBytesLen v)
    (hpos : f.currentOffset ≤ f.entry.size) (h : LocCrash v d0 dfin A B cs d)
    (hfin : Owns v dfin (A ++ [cs1] ++ B)) (hp1 : cs <+: cs1) (hp' : cs1 <+: cs') : WCrash v A B d0 f cs cs' data k d := by
  have hcont : ∀ csk ext, csk = cs ++ ext → OwnsLoose v d (A ++ [csk] ++ B) →
      fileContent v d csk (max f.entry.size (f.currentOffset + 0)) =
        splice (fileContent v d0 cs f.entry.size) f.currentOffset (data.take 0) := by
    intro csk ext he hs
    rw [Nat.add_zero, Nat.max_eq_left hpos, List.take_zero, splice_nil]
    have hch := hs.1 csk (List.mem_append_left _ (List.mem_append_right _ (List.mem_singleton.2 rfl)))
    have : fileContent v d csk f.entry.size = fileContent v d0 csk f.entry.size := by
      unfold fileContent
      congr 1
      exact CrashBase.chainBytes_congr v d0 d csk fun x hx j hj =>
        h.nonFat _ (by rw [FatLens.cluster_blocks_in_data_region v hg x j (chain_inRange hch x hx).1 (chain_inRange hch x hx).2 hj]; decide)
    rw [this, he, fileContent_append v d0 cs ext _ hb hsz]
  rcases h.sound with hs | ⟨c, hs, hown⟩
  · exact ⟨0, cs, Nat.zero_le _, List.prefix_refl _, hp1.trans hp', hs, hcont cs [] (List.append_nil _).symm hs⟩
  · -- the extended chain is the chain after `locate`
    have hroots : rootsOf (A ++ [cs ++ [c]] ++ B) = rootsOf (A ++ [cs1] ++ B) := by
      unfold rootsOf
      simp only [List.map_append, List.map_cons, List.map_nil]
      congr 3
      obtain ⟨ext, rfl⟩ := hp1
      cases cs with
      | nil => exact absurd rfl hne
      | cons a t => rfl
    have := mid_cancel (ForestFinal.chains_determined hown hfin hroots)
    exact ⟨0, cs ++ [c], Nat.zero_le _, List.prefix_append _ _, by rw [this]; exact hp', hs, hcont _ [c] rfl hs⟩

/-- A state of the loop, as a crash point of the stretch that led to it. -/
theorem wcrash_of_prog {i vi : Nat} {A B : List (List Nat)} {s s2 : Mgr} {f f2 : FileInfo} {v v1 : VolInfo} {cs cs1 cs' : List Nat}
    {buffer : Bytes} {t k : Nat} (ht : t ≤ buffer.length) (htk : t ≤ k) (hprog : WProg i vi s s2 f f2 v v1 cs cs1 (buffer.take t))
    (hown : Owns v1.vol s2.dev.disk (A ++ [cs1] ++ B)) (hp' : cs1 <+: cs') :
    WCrash v.vol A B s.dev.disk f cs cs' buffer k s2.dev.disk := by
  have hlen : (buffer.take t).length = t := by rw [List.length_take]; omega
  refine ⟨t, cs1, htk, hprog.pre, hp', ownsLoose_of_owns (owns_sameGeom hprog.geom.symm hown), ?_⟩
  have := hprog.content
  rw [hprog.size, hlen] at this
  exact this

/-- A crash point of the rest of the loop, seen from the start of the loop. -/
theorem wcrash_compose {i vi : Nat} {A B : List (List Nat)} {s s2 : Mgr} {f f2 : FileInfo} {v v1 : VolInfo} {cs cs1 cs' : List Nat}
    {buffer : Bytes} {t k : Nat} {d : Disk} (ht : t ≤ buffer.length) (hb : BlocksOK s.dev.disk) (hok : FileOK v.vol s.dev.disk f cs)
    (hprog : WProg i vi s s2 f f2 v v1 cs cs1 (buffer.take t))
    (h : WCrash v1.vol A B s2.dev.disk f2 cs1 cs' (buffer.drop t) k d) : WCrash v.vol A B s.dev.disk f cs cs' buffer (t + k) d := by
  obtain ⟨m, csk, hm, hp1, hp2, hs, hc⟩ := h
  have hlen : (buffer.take t).length = t := by rw [List.length_take]; omega
  have hlold : (fileContent v.vol s.dev.disk cs f.entry.size).length = f.entry.size :=
    fileContent_length _ _ _ _ hb hok.size_fits
  refine ⟨t + m, csk, by omega, hprog.pre.trans hp1, hp2, ownsLoose_sameGeom hprog.geom.symm hs, ?_⟩
  have hoff := hprog.off
  have hsize := hprog.size
  rw [hlen] at hoff hsize
  rw [sameGeom_fileContent hprog.geom, sameGeom_fileContent hprog.geom, hprog.content, hoff, hsize] at hc
  have e1 : max (max f.entry.size (f.currentOffset + t)) (f.currentOffset + t + m) = max f.entry.size (f.currentOffset + (t + m)) := by
    omega
  rw [e1] at hc
  rw [hc]
  have := splice_splice (fileContent v.vol s.dev.disk cs f.entry.size) (buffer.take t) ((buffer.drop t).take m) f.currentOffset
    (by rw [hlold]; exact hok.pos_le)
  rw [hlen] at this
  rw [this, List.take_add]

/-- `writeLoop_spec` with the crash points: at every prefix of the device writes of the loop the medium
is a `WCrash` medium relative to the start of the loop. -/
theorem writeLoop_crash (i vi : Nat) (A B : List (List Nat)) :
    ∀ (fuel : Nat) (buffer : Bytes) (s : Mgr) (f : FileInfo) (v : VolInfo) (cs : List Nat),
      buffer.length < fuel → WInv i vi A B s f v cs →
      ∃ k r s' f' v' cs', writeLoop i vi fuel buffer s = (r, s') ∧ k ≤ buffer.length ∧
        ((r = .ok () ∧ k = buffer.length) ∨ (r = .err .DiskFull ∧ k < buffer.length ∧ Full v'.vol s'.dev.disk)) ∧
        WInv i vi A B s' f' v' cs' ∧ WProg i vi s s' f f' v v' cs cs' (buffer.take k) ∧
        MCrash (WCrash v.vol A B s.dev.disk f cs cs' buffer k) s s' := by
  intro fuel
  induction fuel with
  | zero => intro buffer s f v cs hlt; omega
  | succ fuel ih =>
    intro buffer s f v cs hfuel h
    have hb : BlocksOK s.dev.disk := h.ok.2.2.1
    have hrefl : WProg i vi s s f f v v cs cs [] :=
      WProg.nil (WStep.refl h.file h.vol) (List.prefix_refl _) (SameGeom.refl _) rfl h.fileOK.pos_le rfl (Touch.refl _ _ _)
    have hself : ∀ cs' k, cs <+: cs' → WCrash v.vol A B s.dev.disk f cs cs' buffer k s.dev.disk := fun cs' k hp =>
      ⟨0, cs, Nat.zero_le _, List.prefix_refl _, hp, ownsLoose_of_owns h.owns, by
        rw [Nat.add_zero, Nat.max_eq_left h.fileOK.pos_le, List.take_zero, splice_nil]⟩
    by_cases hne : buffer = []
    · subst hne
      exact ⟨0, .ok (), s, f, v, cs, writeLoop_nil i vi _ s, Nat.le_refl _, .inl ⟨rfl, rfl⟩, h, hrefl,
        MCrash.same rfl (hself cs 0 (List.prefix_refl _))⟩
    · rw [writeLoop_succ i vi fuel buffer f s hne (MHoare.getFile_ok h.file)]
      have hlc := locate_crash i vi A B s f v cs h
      rcases locate_spec i vi A B s f v cs h with
        ⟨c, s1, v1, cs1, hloc, h1, hk1, hpre1, hsg1, hvid1, hstep1, hdisk1, hwlog1⟩ | ⟨s1, hloc, h1, hstep1, hd1, hw1, hfull⟩
      · rw [hloc] at hlc
        simp only at hlc
        have hcbeq : clusterBytesLen v1.vol = clusterBytesLen v.vol := sameGeom_clusterBytesLen hsg1
        have hctb : ∀ x, clusterToBlock v1.vol x = clusterToBlock v.vol x := sameGeom_clusterToBlock hsg1
        obtain ⟨s2, hfin, h2, hprog2, htpos⟩ := finish_spec i vi A B s1 f v1 cs1 c buffer h1 (by rw [hcbeq]; exact hk1) hne
          (min (512 - f.currentOffset % 512) buffer.length) rfl
          (f.currentOffset / clusterBytesLen v.vol * clusterBytesLen v.vol, c) (by rw [hcbeq])
        have hfc := finish_crash i vi s1 s2 v1 _ _ _ _ _ h1.ok h1.vol hfin
        rw [hcbeq, hctb] at hfin
        generalize ht : min (512 - f.currentOffset % 512) buffer.length = t at hfin h2 hprog2 htpos
        have htle : t ≤ buffer.length := by omega
        generalize hf2 : bump (f.currentOffset / clusterBytesLen v.vol * clusterBytesLen v.vol, c) t f = f2 at hfin h2 hprog2
        have hprog1 : WProg i vi s s1 f f v v1 cs cs1 [] := by
          refine WProg.nil hstep1 hpre1 hsg1 hvid1 h.fileOK.pos_le ?_ ?_
          · obtain ⟨ext, hext⟩ := hpre1
            rw [← hext]
            have hcsz := h.fileOK.size_fits
            have hb1 : BlocksOK s1.dev.disk := h1.ok.2.2.1
            rw [fileContent_append _ _ _ _ _ hb1 hcsz]
            unfold fileContent
            congr 1
            apply WriteRefines.chainBytes_congr
            intro x hx j hj
            exact hdisk1 _ (clusterBlock_not_fat h.geom (chain_inRange h.chain x hx) hj)
          · obtain ⟨new, e, hn⟩ := hwlog1
            exact ⟨fun b hb1 _ => hdisk1 b hb1, new, e, fun w hw => .inl (hn w hw)⟩
        have hprog12 := WProg.trans hprog1 hprog2 hb h.fileOK
        rw [List.nil_append] at hprog12
        obtain ⟨k, r, s', f', v', cs', hrun, hkle, hres, h', hprog', hcr'⟩ :=
          ih (buffer.drop t) s2 f2 v1 cs1 (by rw [List.length_drop]; omega) h2
        have hlen : (buffer.drop t).length = buffer.length - t := List.length_drop
        have hp1' : cs1 <+: cs' := hprog'.pre
        refine ⟨t + k, r, s', f', v', cs', ?_, by omega, ?_, h', ?_, ?_⟩
        · rw [MHoare.bind_ok hloc]
          dsimp only
          rw [ht]
          have hassoc : ∀ (m1 : M Unit) (m2 : M Unit) (m3 : M Unit) (x y : Mgr), (m1 >>= fun _ => m2) x = (.ok (), y) →
              (m1 >>= fun _ => m2 >>= fun _ => m3) x = m3 y := by
            intro m1 m2 m3 x y hxy
            rw [MHoare.bind_def] at hxy ⊢
            rcases hm1 : m1 x with ⟨r1, x1⟩
            rw [hm1] at hxy
            cases r1 with
            | ok u =>
              simp only at hxy ⊢
              rw [MHoare.bind_ok hxy]
            | err e => cases hxy
            | panic m => cases hxy
            | diverged => cases hxy
          rw [hassoc _ _ _ _ _ hfin]
          exact hrun
        · rcases hres with ⟨hr, hk⟩ | ⟨hr, hk, hf⟩
          · exact .inl ⟨hr, by omega⟩
          · exact .inr ⟨hr, by omega, hf⟩
        · have := WProg.trans hprog12 hprog' hb h.fileOK
          rw [← List.take_add] at this
          exact this
        · -- the crash points: `locate`, the block write, the rest of the loop
          have hown1 : Owns v.vol s1.dev.disk (A ++ [cs1] ++ B) := owns_sameGeom hsg1.symm h1.owns
          have c1 : MCrash (WCrash v.vol A B s.dev.disk f cs cs' buffer (t + k)) s s1 :=
            hlc.mono fun d hd => wcrash_of_loc buffer (t + k) h.geom hb h.ne h.fileOK.size_fits h.fileOK.pos_le hd hown1 hpre1 hp1'
          have c2 : MCrash (WCrash v.vol A B s.dev.disk f cs cs' buffer (t + k)) s1 s2 :=
            hfc.mono fun d hd => by
              rcases hd with rfl | rfl
              · exact c1.final
              · exact wcrash_of_prog htle (Nat.le_add_right _ _) hprog12 h2.owns hp1'
          have c3 : MCrash (WCrash v.vol A B s.dev.disk f cs cs' buffer (t + k)) s2 s' :=
            hcr'.mono fun d hd => wcrash_compose htle hb h.fileOK hprog12 hd
          exact (c1.trans c2).trans c3
      · -- the volume is full
        rw [hloc] at hlc
        simp only at hlc
        refine ⟨0, .err .DiskFull, s1, f, v, cs, ?_, Nat.zero_le _, .inr ⟨rfl, List.length_pos_iff.2 hne, ?_⟩, h1, ?_, ?_⟩
        · rw [MHoare.bind_err hloc]
        · rw [hd1]; exact hfull
        · exact WProg.nil hstep1 (List.prefix_refl _) (SameGeom.refl _) rfl h.fileOK.pos_le (by rw [hd1]) (Touch.of_eq hd1 hw1)
        · exact MCrash.same' hw1 hd1 (hself cs 0 (List.prefix_refl _))

end Sdmmc.Lemmas.CrashWriteLoop
