/-
C11, arbitrary fault placement — `close_file` of a file that was not modified makes no device call: a device failure
during `close_file` can only occur when the file is modified (`dirty`).
-/
import Sdmmc.Lemmas.Tables
import Sdmmc.Lemmas.TablesInv
import Sdmmc.Lemmas.VolApiRO

namespace Sdmmc.Lemmas.FaultX
open Sdmmc.Model Sdmmc.Model.Fat
open Sdmmc.Spec hiding step run
open Sdmmc.Lemmas.MHoare Sdmmc.Lemmas.VolApi

theorem flushFile_clean (file : Nat) (s : Mgr) (h : ∀ f, f ∈ s.files → f.rawFile = file → f.dirty = false) :
    (flushFile file s).2 = s := by
  unfold flushFile
  cases hidx : s.files.findIdx? (·.rawFile = file) with
  | none => rw [bind_err (getFileById_bad hidx)]
  | some i =>
    obtain ⟨f, hf, hp⟩ := findIdx?_some_get hidx
    have hd : f.dirty = false := h f (List.mem_of_getElem? hf) (of_decide_eq_true hp)
    rw [bind_ok (getFileById_ok hidx), bind_ok (getFile_ok hf), if_neg (by rw [hd]; exact Bool.false_ne_true)]
    rfl

theorem closeFile_clean_dev (file : Nat) (s : Mgr) (h : ∀ f, f ∈ s.files → f.rawFile = file → f.dirty = false) :
    (closeFile file s).2.dev = s.dev := by
  have hfl := flushFile_clean file s h
  by_cases hf : file ∈ s.files.map (·.rawFile)
  · obtain ⟨i, x, _, _, hc⟩ := Tables.closeFile_open hf
    rw [hc, hfl]
  · have hidx : s.files.findIdx? (·.rawFile = file) = none := by
      rw [List.findIdx?_eq_none_iff]
      intro x hx
      cases hp : decide (x.rawFile = file) with
      | false => rfl
      | true => exact absurd (List.mem_map.2 ⟨x, hx, of_decide_eq_true hp⟩) hf
    unfold closeFile
    rw [MHoare.attempt_bind]
    have : getFileById file (flushFile file s).2 = (.err .BadHandle, (flushFile file s).2) :=
      getFileById_bad (by rw [hfl]; exact hidx)
    rw [bind_err this, hfl]

/-- **`close_file` of an unmodified file makes no device call** (so none can fail). -/
theorem step_closeFile_clean (file : Nat) (s : Mgr) (h : ∀ f, f ∈ s.files → f.rawFile = file → f.dirty = false) :
    (step s (.closeFile file)).1.dev.failed = s.dev.failed ∧ (step s (.closeFile file)).1.dev.disk = s.dev.disk := by
  by_cases hl : s.locked = true
  · have : step s (.closeFile file) = (s, { result := .err .LockError, writes := [], reads := [] }) := by
      unfold step; rw [if_pos hl]; rfl
    rw [this]; exact ⟨rfl, rfl⟩
  · have hl' : s.locked = false := by cases hlk : s.locked <;> simp_all
    rw [MHoare.step_unlocked s _ hl']
    show ((closeFile file >>= fun _ => (pure Payload.unit : M Payload)) (resetLogs s)).2.dev.failed = _ ∧
      ((closeFile file >>= fun _ => (pure Payload.unit : M Payload)) (resetLogs s)).2.dev.disk = _
    rw [seq_state, closeFile_clean_dev file (resetLogs s) h]
    exact ⟨rfl, rfl⟩

end Sdmmc.Lemmas.FaultX
