/-
C16, last sentence, abstract side — WHERE THE ABSTRACT FILE SYSTEM (`Spec/AbsFs.lean`) CAN ANSWER A PANIC, EXACTLY.

Target was: "`absStep a op (a', r)` with `a.locked = false` implies `Clean r`".  THAT IS FALSE as stated: the relation
`absStep` is loose in exactly four places (`Loose a op`), and there it allows the answer `panic` (and `diverged`):
* `open_volume` while no volume is open: `openVolumeS` says "`a' = a ∧ ∀ p, r ≠ .ok p`" — any answer that is not `Ok`;
* `iterate_dir_lfn` on a valid directory handle: `listLfnS` pins the answer only when the handle is bad;
* `flush_file` / `close_file` on a handle that was written to, whose volume is open and whose slot holds no file
  (`Dangling`): `flushF` answers the panic "dangling file reference".
What is proved:
* `absStep_clean` — unborrowed and NOT `Loose`: the answer is `Ok` or an error (all 24 constructors of `Op`);
* `absStep_loose_panics` — unborrowed and `Loose`: some panic IS an allowed answer.  So `Loose` is the exact exception;
* `absStep_locked`, `absRun_locked` — no step changes the borrow flag;
* `absRun_clean_partial` — a run none of whose calls is `open_volume`, `iterate_dir_lfn`, `flush_file`, `close_file`
  answers only `Ok` / errors.  (The FULL statement for runs — all calls — is proved on the concrete side, where the four
  loose calls are treated directly: `Lemmas.StaleSafe`, `Props.C16Stale`.)
* `absStepN_clean`, `absRunN_clean_partial` — the same for the multi-volume abstract file system (`Spec/AbsFsN.lean`):
  there the loose calls are `open_volume` (always), and the three others when their handle leads to an open volume.
Not proved: that `Dangling` is unreachable along abstract runs (it is unreachable for the states the crate refines to:
the concrete `flush_file` / `close_file` never panic under the volume invariant, `Lemmas.FaultHist.covered_call_clean`).
-/
import Sdmmc.Lemmas.FaultHistClean
import Sdmmc.Spec.AbsFsN
import Sdmmc.Spec.VolumeFault

namespace Sdmmc.Lemmas.AbsClean
open Sdmmc.Model Sdmmc.Spec.Volume
open Sdmmc.Spec.AbsFs
open Sdmmc.Lemmas.FaultHist

/-! ### The exception -/

/-- The file handle `h` was written to, its volume is open, and the slot it refers to holds no file. -/
def Dangling (a : AbsFs) (h : Nat) : Prop :=
  ∃ i f, fileOf a h = some (i, f) ∧ f.dirty = true ∧ volOpen a f.volume = true ∧
    ∀ m b, (a.slots f.dir)[f.idx]? ≠ some (.file m b)

/-- The calls for which `absStep` does not pin the answer to `Ok` / an error. -/
def Loose (a : AbsFs) : Op → Prop
  | .openVolume _ => a.vols = []
  | .listLfn d _ => ∃ od, dirOf a d = .ok od
  | .flush h => Dangling a h
  | .closeFile h => Dangling a h
  | _ => False

theorem not_locked {a : AbsFs} (hl : a.locked = false) : ¬ a.locked = true := by rw [hl]; exact Bool.false_ne_true

/-! ### `flush_file` -/

theorem flushF_clean_of {a : AbsFs} {h : Nat} (hn : ¬ Dangling a h) : Clean (flushF a h).2 := by
  unfold flushF
  cases hfo : fileOf a h with
  | none => exact clean_err _
  | some p =>
    obtain ⟨i, f⟩ := p
    simp only
    cases hd : f.dirty with
    | false => simp only [Bool.not_false, if_true]; exact clean_ok _
    | true =>
      simp only [Bool.not_true, Bool.false_eq_true, if_false]
      cases hv : volOpen a f.volume with
      | false => simp only [Bool.not_false, if_true]; exact clean_err _
      | true =>
        simp only [Bool.not_true, Bool.false_eq_true, if_false]
        cases hs : (a.slots f.dir)[f.idx]? with
        | none => exact absurd ⟨i, f, hfo, hd, hv, fun m b e => by rw [hs] at e; cases e⟩ hn
        | some sl =>
          cases sl with
          | file m b => exact clean_ok _
          | deleted => exact absurd ⟨i, f, hfo, hd, hv, fun m b e => by rw [hs] at e; cases e⟩ hn
          | frag raw => exact absurd ⟨i, f, hfo, hd, hv, fun m b e => by rw [hs] at e; cases e⟩ hn
          | dir m t => exact absurd ⟨i, f, hfo, hd, hv, fun m b e => by rw [hs] at e; cases e⟩ hn

theorem flushF_panics_of {a : AbsFs} {h : Nat} (hd : Dangling a h) :
    flushF a h = (a, .panic "dangling file reference") := by
  obtain ⟨i, f, hfo, hdirty, hv, hs⟩ := hd
  unfold flushF
  rw [hfo]
  -- the side condition of the catch-all arm is `hs`
  simp only [hdirty, hv, Bool.not_true, Bool.false_eq_true, if_false]

theorem flushF_locked (a : AbsFs) (h : Nat) : (flushF a h).1.locked = a.locked := by
  unfold flushF
  repeat' split
  all_goals rfl

/-! ### T1: one step -/

/-- **Unborrowed and not `Loose`: the abstract file system answers `Ok` or an error.** -/
theorem absStep_clean {a a' : AbsFs} {op : Op} {r : Res Payload} (hl : a.locked = false) (hn : ¬ Loose a op)
    (h : absStep a op (a', r)) : Clean r := by
  unfold absStep at h
  rw [if_neg (not_locked hl)] at h
  cases op with
  | openVolume i =>
    have h : openVolumeS a i a' r := h
    unfold openVolumeS at h
    split at h
    · rw [h.2]; exact clean_err _
    · next hlen =>
      refine absurd ?_ hn
      show a.vols = []
      cases hv : a.vols with
      | nil => rfl
      | cons x l => rw [hv] at hlen; simp at hlen
  | closeVolume v => exact closeVolumeS_clean h
  | openRoot v => have := openRootF_clean a v; rw [← h] at this; exact this
  | closeDir d => have := closeDirF_clean a d; rw [← h] at this; exact this
  | openDir d name => exact openDirS_clean h
  | find d name => exact findS_clean h
  | list d => exact listS_clean h
  | listLfn d n =>
    have h : listLfnS a d a' r := h
    cases hd : dirOf a d with
    | error e => rw [h.2 e hd]; exact clean_err _
    | ok od => exact absurd ⟨od, hd⟩ hn
  | openFile d name mode => exact openFileS_clean h
  | read f n => exact readS_clean h
  | write f data => exact writeS_clean h
  | seekStart f n => exact seekStartS_clean h
  | seekEnd f n => exact seekEndS_clean h
  | seekCur f n => exact seekCurS_clean h
  | flush f =>
    have := flushF_clean_of (a := a) (h := f) hn
    rw [← h] at this; exact this
  | closeFile f =>
    have h : closeFileS a f a' r := h
    unfold closeFileS at h
    split at h
    · rw [h.2]; exact clean_err _
    · rw [h.2]; exact flushF_clean_of hn
  | delete d name => exact deleteS_clean h
  | mkdir d name => exact mkdirS_clean h
  | length f => exact lengthS_clean h
  | offset f => exact offsetS_clean h
  | eof f => exact eofS_clean h
  | hasOpen => have := congrArg Prod.snd h; simp only at this; rw [this]; exact clean_ok _
  | label v => exact labelS_clean h

/-- **… and `Loose` is the exact exception: there a panic IS an allowed answer.** -/
theorem absStep_loose_panics {a : AbsFs} {op : Op} (hl : a.locked = false) (hL : Loose a op) :
    ∃ a' msg, absStep a op (a', .panic msg) := by
  cases op with
  | openVolume i =>
    refine ⟨a, "", ?_⟩
    unfold absStep
    rw [if_neg (not_locked hl)]
    show openVolumeS a i a (.panic "")
    unfold openVolumeS
    have hv : a.vols = [] := hL
    rw [if_neg (by rw [hv]; simp)]
    exact .inl ⟨rfl, fun p e => by cases e⟩
  | listLfn d n =>
    obtain ⟨od, hd⟩ := hL
    refine ⟨a, "", ?_⟩
    unfold absStep
    rw [if_neg (not_locked hl)]
    exact ⟨rfl, fun e he => by rw [hd] at he; cases he⟩
  | flush f =>
    refine ⟨a, "dangling file reference", ?_⟩
    unfold absStep
    rw [if_neg (not_locked hl)]
    exact (flushF_panics_of hL).symm
  | closeFile f =>
    have hL : Dangling a f := hL
    obtain ⟨i, g, hfo, _⟩ := id hL
    have hidx : ∃ j, fileIdx a f = some j := by
      unfold fileOf at hfo
      cases hj : fileIdx a f with
      | none => rw [hj] at hfo; cases hfo
      | some j => exact ⟨j, rfl⟩
    obtain ⟨j, hj⟩ := hidx
    refine ⟨{ (flushF a f).1 with files := swapRemove a.files j }, "dangling file reference", ?_⟩
    unfold absStep
    rw [if_neg (not_locked hl)]
    show closeFileS a f _ _
    unfold closeFileS
    rw [hj]
    exact ⟨rfl, by rw [flushF_panics_of hL]⟩
  | _ => exact absurd hL id

/-! ### The borrow flag -/

/-- No step changes the borrow flag. -/
theorem absStep_locked {a a' : AbsFs} {op : Op} {r : Res Payload} (h : absStep a op (a', r)) : a'.locked = a.locked := by
  unfold absStep at h
  split at h
  · rw [(Prod.mk.inj h).1]
  cases op with
  | openVolume i =>
    have h : openVolumeS a i a' r := h
    unfold openVolumeS at h
    split at h
    · rw [h.1]
    · rcases h with ⟨h1, _⟩ | ⟨h1, _⟩ <;> rw [h1] <;> rfl
  | closeVolume v =>
    have h : closeVolumeS a v a' r := h
    unfold closeVolumeS at h
    repeat' split at h
    all_goals (rw [h.1])
  | openRoot v =>
    have e : a' = (openRootF a v).1 := congrArg Prod.fst h
    rw [e]; unfold openRootF; split <;> rfl
  | closeDir d =>
    have e : a' = (closeDirF a d).1 := congrArg Prod.fst h
    rw [e]; unfold closeDirF; split <;> rfl
  | openDir d name =>
    have h : openDirS a d name a' r := h
    unfold openDirS at h
    repeat' split at h
    all_goals (rw [h.1])
    all_goals rfl
  | find d name => have h : findS a d name a' r := h; rw [h.1]
  | list d => have h : listS a d a' r := h; rw [h.1]
  | listLfn d n => have h : listLfnS a d a' r := h; rw [h.1]
  | openFile d name mode =>
    have h : openFileS a d name mode a' r := h
    unfold openFileS at h
    repeat' split at h
    all_goals first
      | (rw [h.1])
      | (rcases h with ⟨h1, _⟩ | ⟨h1, _⟩ <;> rw [h1] <;> rfl)
      | exact absurd h id
      | (rw [h.2]; rfl)
  | read f n =>
    have h : readS a f n a' r := h
    unfold readS at h
    repeat' split at h
    · rw [h.1]
    · rw [h.1]
    · obtain ⟨m, b, _, _, h3⟩ := h; rw [h3]
  | write f data =>
    have h : writeS a f data a' r := h
    unfold writeS at h
    repeat' split at h
    · rw [h.1]
    · rw [h.1]
    · rw [h.1]
    · obtain ⟨m, b, k, _, _, _, h3⟩ := h; rw [h3]; rfl
  | seekStart f n =>
    have h : seekStartS a f n a' r := h
    unfold seekStartS at h
    repeat' split at h
    all_goals (rw [h.1])
  | seekEnd f n =>
    have h : seekEndS a f n a' r := h
    unfold seekEndS at h
    repeat' split at h
    all_goals (rw [h.1])
  | seekCur f n =>
    have h : seekCurS a f n a' r := h
    unfold seekCurS at h
    repeat' split at h
    all_goals (rw [h.1])
  | flush f =>
    have e : a' = (flushF a f).1 := congrArg Prod.fst h
    rw [e]; exact flushF_locked a f
  | closeFile f =>
    have h : closeFileS a f a' r := h
    unfold closeFileS at h
    split at h
    · rw [h.1]
    · rw [h.1]; exact flushF_locked a f
  | delete d name =>
    have h : deleteS a d name a' r := h
    unfold deleteS at h
    repeat' split at h
    all_goals first
      | (rw [h.1]; done)
      | (rw [h.1]; rfl)
      | exact absurd h id
  | mkdir d name =>
    have h : mkdirS a d name a' r := h
    unfold mkdirS at h
    repeat' split at h
    all_goals first
      | (rw [h.1])
      | (rcases h with ⟨h1, _⟩ | ⟨c, _, _, h1⟩ <;> rw [h1] <;> rfl)
  | length f => have h : lengthS a f a' r := h; rw [h.1]
  | offset f => have h : offsetS a f a' r := h; rw [h.1]
  | eof f => have h : eofS a f a' r := h; rw [h.1]
  | hasOpen => rw [(Prod.mk.inj h).1]
  | label v =>
    have h : labelS a v a' r := h
    unfold labelS at h
    split at h
    · rw [h.1]
    · rcases h with ⟨h1, _⟩ | h
      · rw [h1]
      · have hor : (openRootF a v).1.locked = a.locked := by unfold openRootF; split <;> rfl
        split at h
        · rw [h.1]
          have : ∀ (b : AbsFs) (d : Nat), (closeDirF b d).1.locked = b.locked := by
            intro b d; unfold closeDirF; split <;> rfl
          rw [this, hor]
        · rw [h.1, hor]

theorem absRun_locked : ∀ {a a' : AbsFs} {ops : List Op} {rs : List (Res Payload)}, absRun a ops rs a' → a'.locked = a.locked
  | _, _, [], [], h => by rw [show _ = _ from h]
  | _, _, [], _ :: _, h => absurd h id
  | _, _, _ :: _, [], h => absurd h id
  | _, _, _ :: _, _ :: _, ⟨_, h1, h2⟩ => (absRun_locked h2).trans (absStep_locked h1)

/-! ### Runs -/

/-- The calls whose abstract relation is tight in EVERY state. -/
def TightOp : Op → Prop
  | .openVolume _ => False
  | .listLfn _ _ => False
  | .flush _ => False
  | .closeFile _ => False
  | _ => True

theorem not_loose_of_tight {a : AbsFs} {op : Op} (h : TightOp op) : ¬ Loose a op := by
  cases op <;> first | exact absurd h id | exact id

/-- **Runs, partial**: an abstract run from an unborrowed state none of whose calls is `open_volume`,
`iterate_dir_lfn`, `flush_file` or `close_file` answers only `Ok` / errors.
FULL TARGET (false for the abstract relation, see the header; true of the crate: `Props.C16Stale.history_never_panics`):
the same for all calls. -/
theorem absRun_clean_partial : ∀ {a a' : AbsFs} {ops : List Op} {rs : List (Res Payload)}, a.locked = false →
    (∀ op ∈ ops, TightOp op) → absRun a ops rs a' → ∀ r ∈ rs, Clean r
  | _, _, [], [], _, _, _ => fun _ hr => by cases hr
  | _, _, [], _ :: _, _, _, h => absurd h id
  | _, _, _ :: _, [], _, _, h => absurd h id
  | _, _, op :: ops, r0 :: rs, hl, ht, ⟨a1, h1, h2⟩ => by
    intro r hr
    rcases List.mem_cons.1 hr with e | hr
    · rw [e]; exact absStep_clean hl (not_loose_of_tight (ht op List.mem_cons_self)) h1
    · exact absRun_clean_partial ((absStep_locked h1).trans hl) (fun o ho => ht o (List.mem_cons_of_mem _ ho)) h2 r hr

/-! ### Several open volumes (`Spec/AbsFsN.lean`) -/

theorem tPerm_locked {A B : AbsFsN} (h : TPerm A B) : B.locked = A.locked := h.locked.symm

/-- **One step of the multi-volume abstract file system**, unborrowed, for a call that is tight in every state: the
answer is `Ok` or an error. -/
theorem absStepN_clean {A A' : AbsFsN} {op : Op} {r : Res Payload} (hl : A.locked = false) (ht : TightOp op)
    (h : absStepN A op (A', r)) : Clean r := by
  unfold absStepN at h
  rw [if_neg (by rw [hl]; exact Bool.false_ne_true)] at h
  obtain ⟨B, hAB, hc⟩ := h
  have hlB : B.locked = false := (tPerm_locked hAB).trans hl
  have hon : ∀ hv, onVolume B hv op A' r → Clean r := by
    intro hv ⟨a', hs, _, _⟩
    exact absStep_clean (a := viewOf B hv) hlB (not_loose_of_tight ht) hs
  have hgen : (match targetA B op with
      | some hv => onVolume B hv op A' r
      | none => (A', r) = (B, .err (refusalN B op))) → Clean r := by
    intro h
    split at h
    · exact hon _ h
    · rw [(Prod.mk.inj h).2]; exact clean_err _
  cases op with
  | openVolume i => exact absurd ht id
  | listLfn d n => exact absurd ht id
  | flush f => exact absurd ht id
  | closeFile f => exact absurd ht id
  | closeVolume v =>
    have e : r = (closeVolumeN B v).2 := congrArg Prod.snd hc
    rw [e]; unfold closeVolumeN
    repeat' split
    all_goals first | exact clean_ok _ | exact clean_err _
  | openRoot v =>
    have e : r = (openRootN B v).2 := congrArg Prod.snd hc
    rw [e]; unfold openRootN
    split <;> first | exact clean_ok _ | exact clean_err _
  | closeDir d =>
    have e : r = (closeDirN B d).2 := congrArg Prod.snd hc
    rw [e]; unfold closeDirN
    split <;> first | exact clean_ok _ | exact clean_err _
  | hasOpen =>
    have hc : (A', r) = (B, _) := hc
    rw [(Prod.mk.inj hc).2]; exact clean_ok _
  | openDir d name => exact hgen hc
  | find d name => exact hgen hc
  | list d => exact hgen hc
  | openFile d name mode => exact hgen hc
  | read f n => exact hgen hc
  | write f data => exact hgen hc
  | seekStart f n => exact hgen hc
  | seekEnd f n => exact hgen hc
  | seekCur f n => exact hgen hc
  | delete d name => exact hgen hc
  | mkdir d name => exact hgen hc
  | length f => exact hgen hc
  | offset f => exact hgen hc
  | eof f => exact hgen hc
  | label v => exact hgen hc

/-- No step of the multi-volume abstract file system changes the borrow flag. -/
theorem absStepN_locked {A A' : AbsFsN} {op : Op} {r : Res Payload} (h : absStepN A op (A', r)) : A'.locked = A.locked := by
  unfold absStepN at h
  split at h
  · rw [(Prod.mk.inj h).1]
  obtain ⟨B, hAB, hc⟩ := h
  refine Eq.trans ?_ (tPerm_locked hAB)
  have hgen : (match targetA B op with
      | some hv => onVolume B hv op A' r
      | none => (A', r) = (B, .err (refusalN B op))) → A'.locked = B.locked := by
    intro h
    split at h
    · obtain ⟨a', hs, hso, _⟩ := h
      have h1 : a'.locked = B.locked := absStep_locked hs
      have h2 : a'.locked = A'.locked := hso.locked
      rw [← h2, h1]
    · rw [(Prod.mk.inj h).1]
  cases op with
  | openVolume i =>
    have hc : openVolumeN B i A' r := hc
    rcases hc with ⟨h1, _⟩ | ⟨_, _, _, ids, sl, h1⟩ <;> rw [h1] <;> rfl
  | closeVolume v =>
    have e : A' = (closeVolumeN B v).1 := congrArg Prod.fst hc
    rw [e]; unfold closeVolumeN
    repeat' split
    all_goals rfl
  | openRoot v =>
    have e : A' = (openRootN B v).1 := congrArg Prod.fst hc
    rw [e]; unfold openRootN
    split <;> rfl
  | closeDir d =>
    have e : A' = (closeDirN B d).1 := congrArg Prod.fst hc
    rw [e]; unfold closeDirN
    split <;> rfl
  | hasOpen =>
    have hc : (A', r) = (B, _) := hc
    rw [(Prod.mk.inj hc).1]
  | openDir d name => exact hgen hc
  | find d name => exact hgen hc
  | list d => exact hgen hc
  | listLfn d n => exact hgen hc
  | openFile d name mode => exact hgen hc
  | read f n => exact hgen hc
  | write f data => exact hgen hc
  | seekStart f n => exact hgen hc
  | seekEnd f n => exact hgen hc
  | seekCur f n => exact hgen hc
  | flush f => exact hgen hc
  | closeFile f => exact hgen hc
  | delete d name => exact hgen hc
  | mkdir d name => exact hgen hc
  | length f => exact hgen hc
  | offset f => exact hgen hc
  | eof f => exact hgen hc
  | label v => exact hgen hc

/-- **Runs of the multi-volume abstract file system, partial** (as `absRun_clean_partial`). -/
theorem absRunN_clean_partial : ∀ {A A' : AbsFsN} {ops : List Op} {rs : List (Res Payload)}, A.locked = false →
    (∀ op ∈ ops, TightOp op) → absRunN A ops rs A' → ∀ r ∈ rs, Clean r
  | _, _, [], [], _, _, _ => fun _ hr => by cases hr
  | _, _, [], _ :: _, _, _, h => absurd h id
  | _, _, _ :: _, [], _, _, h => absurd h id
  | _, _, op :: ops, r0 :: rs, hl, ht, ⟨A1, h1, h2⟩ => by
    intro r hr
    rcases List.mem_cons.1 hr with e | hr
    · rw [e]; exact absStepN_clean hl (ht op List.mem_cons_self) h1
    · exact absRunN_clean_partial ((absStepN_locked h1).trans hl) (fun o ho => ht o (List.mem_cons_of_mem _ ho)) h2 r hr

end Sdmmc.Lemmas.AbsClean
