/-
Bridging lemmas for `Props/C16Main.lean`: prefixes of covered histories are covered.
-/
import Sdmmc.Props.C16Hist2

namespace Sdmmc.Lemmas.MainK16
open Sdmmc.Model Sdmmc.Model.Fat Sdmmc.Spec.Volume
open Sdmmc.Spec hiding run step NoFault Coherent
open Sdmmc.Props.C03Inv (Covered CoveredRun)

theorem coveredRun_take : ∀ (ops : List Op) (s : Mgr), CoveredRun s ops → ∀ k, CoveredRun s (ops.take k)
  | _, _, _, 0 => by simp [CoveredRun]
  | [], _, _, _ + 1 => by simp [CoveredRun]
  | _ :: ops, _, h, k + 1 => ⟨h.1, coveredRun_take ops _ h.2 k⟩

end Sdmmc.Lemmas.MainK16
