/-
The shape of a successful `write_new_directory_entry` (model: `Fat.writeNewWalk`) on a directory whose
chain is well formed: read-only steps, then EITHER one device write — the 32 bytes of the first free
slot of the directory — OR, when every slot of every block of the chain is taken, one
`alloc_cluster(Some(last), zero = true)` followed by one device write: slot 0 of the first block of the
new cluster.  Nothing else is written.
-/
import Sdmmc.Lemmas.CrashHist
import Sdmmc.Lemmas.DirSlots

namespace Sdmmc.Lemmas.CrashDirWalk
open Sdmmc.Model Sdmmc.Model.Fat Sdmmc.Spec
open Sdmmc.Lemmas.FBasic hiding NoFault Coherent
open Sdmmc.Lemmas.FatOps hiding BlocksOK Mirror HintOK
open Sdmmc.Lemmas.ChainL Sdmmc.Lemmas.ForestBase Sdmmc.Lemmas.ForestTrunc Sdmmc.Lemmas.ForestAlloc
open Sdmmc.Lemmas.ForestStep Sdmmc.Lemmas.CrashBase Sdmmc.Lemmas.CrashFat Sdmmc.Lemmas.CrashAlloc

/-- The one device write that makes the new entry `e` visible: from `sM` to `s'`, the 32 bytes of a
slot that was free on `sM` (first free slot of its block) are replaced by the serialised entry. -/
structure SlotWrite (name : Bytes) (att fc : Nat) (now : Timestamp) (sM s' : FS) (e : DirEntry) : Prop where
  free : firstFreeSlot (slotsOf (sM.dev.disk.get e.entryBlock)) = some e.entryOffset
  entry : e = DirEntry.new name att fc now e.entryBlock e.entryOffset
  disk : s'.dev.disk = sM.dev.disk.set e.entryBlock
    (splice (sM.dev.disk.get e.entryBlock) e.entryOffset (DirEntry.serialize sM.vol.fatType e))
  wlog : s'.dev.wlog = (e.entryBlock,
    splice (sM.dev.disk.get e.entryBlock) e.entryOffset (DirEntry.serialize sM.vol.fatType e)) :: sM.dev.wlog
  vol : s'.vol = sM.vol
  noFault : NoFault s'
  coherent : Coherent s'

/-- The walk `w` is at the fixed root, or at the first block of cluster `w.cluster` whose chain on `d`
is `suffix`. -/
def WalkOK (v : FatVolume) (d : Disk) (w : DirWalk) (suffix : List Nat) : Prop :=
  w.fixedRoot = true ∨
  (w.fixedRoot = false ∧ w.firstBlock = clusterToBlock v w.cluster ∧ w.dirSize = v.blocksPerCluster ∧
    Chain v d w.cluster suffix)

/-- Block `b` belongs to the part of the directory the walk `w` still has in front of it. -/
def InWalk (v : FatVolume) (w : DirWalk) (suffix : List Nat) (b : Nat) : Prop :=
  (w.fixedRoot = true ∧ w.firstBlock ≤ b ∧ b < w.firstBlock + w.dirSize) ∨
  (w.fixedRoot = false ∧ ∃ x, x ∈ suffix ∧ InCluster v x b)

/-- The two shapes of a successful creation. -/
def Shape (name : Bytes) (att fc : Nat) (now : Timestamp) (w : DirWalk) (suffix : List Nat) (s s' : FS) (e : DirEntry) : Prop :=
  (∃ sM, RO s sM ∧ NoFault sM ∧ Coherent sM ∧ SlotWrite name att fc now sM s' e ∧ InWalk s.vol w suffix e.entryBlock) ∨
  (∃ p c s1 s2, w.fixedRoot = false ∧ suffix.getLast? = some p ∧ RO s s1 ∧ NoFault s1 ∧ Coherent s1 ∧
    allocCluster (some p) true s1 = (.ok c, s2) ∧ SlotWrite name att fc now s2 s' e ∧
    e.entryBlock = clusterToBlock s.vol c ∧ e.entryOffset = 0)

theorem firstFreeSlot_zeroBlock : firstFreeSlot (slotsOf zeroBlock) = some 0 := by decide +kernel

/-- The blocks of a freshly allocated, blanked cluster are blank on the medium after the allocation. -/
theorem alloc_final_zero (s s' : FS) (prev : Option Nat) (c : Nat) (hn : NoFault s) (hc : Coherent s)
    (hb : BlocksOK s.dev.disk) (hg : WFGeom s.vol) (hh : HintOK s.vol)
    (hp : ∀ p, prev = some p → p < endCluster s.vol ∧ ¬ isFree s.vol s.dev.disk p)
    (h : allocCluster prev true s = (.ok c, s')) : ClusterZero s.vol s'.dev.disk c := by
  obtain ⟨_, _, _, _, _, _, hrc, hfree, heof, _, _, _⟩ := alloc_spec s s' prev true c hn hc hb hg hh hp h
  obtain ⟨hcr, _⟩ := alloc_crash s s' prev true c hn hc hb hg hh (fun p hp' => (hp p hp').1) h
  rcases hcr.final.1 with hA | ⟨_, _, hz⟩ | ⟨_, hz⟩
  · have := (isFree_congr_raw (hA.other c hrc.2 List.not_mem_nil)).2 hfree
    exact absurd this (not_free_of_eof heof).1
  · exact hz rfl
  · exact hz rfl

theorem shape_of_ro {name : Bytes} {att fc : Nat} {now : Timestamp} {w w' : DirWalk} {suffix suffix' : List Nat}
    {s s2 s' : FS} {e : DirEntry} (ro : RO s s2) (h : Shape name att fc now w' suffix' s2 s' e)
    (hfr : w'.fixedRoot = w.fixedRoot)
    (hin : ∀ b, InWalk s2.vol w' suffix' b → InWalk s.vol w suffix b)
    (hlast : w'.fixedRoot = false → suffix'.getLast? = suffix.getLast?) : Shape name att fc now w suffix s s' e := by
  rcases h with ⟨sM, roM, hnM, hcM, hsw, hi⟩ | ⟨p, c, s1, s3, hf, hl, ro1, hn1, hc1, ha, hsw, hb, ho⟩
  · exact .inl ⟨sM, ro.trans roM, hnM, hcM, hsw, hin _ hi⟩
  · exact .inr ⟨p, c, s1, s3, by rw [← hfr]; exact hf, by rw [← hlast hf]; exact hl, ro.trans ro1, hn1, hc1, ha, hsw,
      by rw [← ro.vol]; exact hb, ho⟩

theorem writeNewWalk_shape (name : Bytes) (att fc : Nat) (now : Timestamp) :
    ∀ (fuel : Nat) (w : DirWalk) (s s' : FS) (e : DirEntry) (suffix : List Nat),
      NoFault s → Coherent s → BlocksOK s.dev.disk → WFGeom s.vol → HintOK s.vol →
      WalkOK s.vol s.dev.disk w suffix →
      writeNewWalk name att fc now fuel w s = (.ok e, s') → Shape name att fc now w suffix s s' e := by
  intro fuel
  induction fuel with
  | zero => intro w s s' e suffix _ _ _ _ _ _ h; cases h
  | succ fuel ih =>
    intro w s s' e suffix hn hc hb hg hh hw h
    obtain ⟨r1, s1, hwb, hn1, hc1, hv1, hcase⟩ := DirSlots.writeNewBlocks_spec name att fc now w.dirSize w.firstBlock s hn hc
    rw [writeNewWalk, bind_apply, hwb] at h
    rcases hcase with ⟨hr, hd1, hw1, hfull⟩ | ⟨b, off, hb1, hb2, _, hfree, hr, hd1, hw1⟩
    · -- no free slot in this part of the directory
      subst hr
      have ro1 : RO s s1 := ⟨hd1, hw1, hv1, by rw [hn1, hn], fun _ => hc1⟩
      simp only at h
      rcases hw with hfr | ⟨hfr, hfb, hds, hch⟩
      · rw [ite_apply, if_pos hfr] at h; cases h
      · rw [ite_apply, if_neg (by rw [hfr]; decide), bind_apply, attempt_apply] at h
        have hch1 : Chain s1.vol s1.dev.disk w.cluster suffix := by rw [hv1, hd1]; exact hch
        have hrc : InRange s1.vol w.cluster := chain_inRange hch1 _ (chain_head_mem hch1)
        have hg1 : WFGeom s1.vol := by rw [hv1]; exact hg
        rw [nextCluster_spec w.cluster s1 hn1 hc1 hg1 hrc] at h
        have ro2 : RO s1 (afterRead (fatBlock s1.vol w.cluster) s1) := ro_afterRead _ s1
        generalize hs2 : afterRead (fatBlock s1.vol w.cluster) s1 = s2 at h ro2
        have hn2 : NoFault s2 := by subst hs2; exact hn1
        have hc2 : Coherent s2 := by subst hs2; exact afterRead_coherent _ s1
        have ro : RO s s2 := ro1.trans ro2
        cases hch1 with
        | last _ _ heof =>
          -- the chain ends here: allocate
          rw [heof] at h
          simp only at h
          rw [bind_apply] at h
          have hpu : w.cluster < endCluster s2.vol ∧ ¬ isFree s2.vol s2.dev.disk w.cluster := by
            rw [ro2.vol, ro2.disk]
            exact ⟨hrc.2, (not_free_of_eof heof).1⟩
          generalize hal : allocCluster (some w.cluster) true s2 = p3 at h
          obtain ⟨r3, s3⟩ := p3
          cases r3 with
          | ok c =>
            simp only [bind_apply, getVol_apply] at h
            have hb2 : BlocksOK s2.dev.disk := by rw [ro.disk]; exact hb
            have hg2 : WFGeom s2.vol := by rw [ro.vol]; exact hg
            have hh2 : HintOK s2.vol := by rw [ro.vol]; exact hh
            obtain ⟨hn3, hc3, _, hsg, _, _, hrc3, _, _, _, _, _⟩ :=
              alloc_spec s2 s3 (some w.cluster) true c hn2 hc2 hb2 hg2 hh2 (fun q hq => by cases hq; exact hpu) hal
            have hz := alloc_final_zero s2 s3 (some w.cluster) c hn2 hc2 hb2 hg2 hh2 (fun q hq => by cases hq; exact hpu) hal
            have hctb : clusterToBlock s3.vol c = clusterToBlock s2.vol c := by
              obtain ⟨a, b', hv⟩ := hsg; rw [hv]; rfl
            -- the walk continues in the blank cluster: its first slot is free
            cases fuel with
            | zero => cases h
            | succ fuel =>
              obtain ⟨r4, s4, hwb4, hn4, hc4, hv4, hcase4⟩ :=
                DirSlots.writeNewBlocks_spec name att fc now w.dirSize (clusterToBlock s3.vol c) s3 hn3 hc3
              rw [writeNewWalk, bind_apply] at h
              simp only at h hwb4
              rw [hwb4] at h
              have hbpc : 0 < w.dirSize := by rw [hds]; exact hg.bpc_pos
              have hfirst : s3.dev.disk.get (clusterToBlock s3.vol c) = zeroBlock := by
                rw [hctb]
                have := hz 0 (by rw [ro.vol]; exact hg.bpc_pos)
                rw [Nat.add_zero] at this; exact this
              rcases hcase4 with ⟨_, _, _, hfull4⟩ | ⟨b4, off4, hb41, hb42, hpre4, hfree4, hr4, hd4, hw4⟩
              · have := hfull4 (clusterToBlock s3.vol c) (Nat.le_refl _) (by omega)
                rw [hfirst, firstFreeSlot_zeroBlock] at this
                cases this
              · subst hr4
                simp only [pure_apply] at h
                have he : DirEntry.new name att fc now b4 off4 = e := Res.ok.inj (congrArg Prod.fst h)
                have hs' : s4 = s' := congrArg Prod.snd h
                subst hs'
                have hb4 : b4 = clusterToBlock s3.vol c := by
                  refine Classical.byContradiction fun hne => ?_
                  have := hpre4 (clusterToBlock s3.vol c) (Nat.le_refl _) (by omega)
                  rw [hfirst, firstFreeSlot_zeroBlock] at this
                  cases this
                subst hb4
                have hoff : off4 = 0 := by
                  rw [hfirst, firstFreeSlot_zeroBlock] at hfree4
                  exact (Option.some.inj hfree4).symm
                subst hoff
                subst he
                refine .inr ⟨w.cluster, c, s2, s3, hfr, rfl, ro, hn2, hc2, hal, ⟨hfree4, rfl, hd4, hw4, hv4, hn4, hc4⟩, ?_, rfl⟩
                show clusterToBlock s3.vol c = clusterToBlock s.vol c
                rw [hctb, ro.vol]
          | err e' => cases h
          | panic m => cases h
          | diverged => cases h
        | link _ n rest _ hnext hnot hrest =>
          rw [hnext] at h
          simp only [bind_apply, getVol_apply] at h
          have hw' : WalkOK s2.vol s2.dev.disk
              { w with cluster := n, firstBlock := clusterToBlock s2.vol n } rest :=
            .inr ⟨hfr, rfl, by rw [ro.vol]; exact hds, by rw [ro2.vol, ro2.disk]; exact hrest⟩
          have hsh := ih _ s2 s' e rest hn2 hc2 (by rw [ro.disk]; exact hb) (by rw [ro.vol]; exact hg)
            (by rw [ro.vol]; exact hh) hw' h
          refine shape_of_ro ro hsh rfl (fun b hi => ?_) (fun _ => ?_)
          · rcases hi with ⟨hf', _⟩ | ⟨_, x, hx, hin⟩
            · rw [hfr] at hf'; cases hf'
            · exact .inr ⟨hfr, x, List.mem_cons_of_mem _ hx, by rw [← ro.vol]; exact hin⟩
          · rw [List.getLast?_cons_of_ne_nil (chain_ne_nil hrest)]
    · -- a free slot: one write
      subst hr
      simp only [pure_apply] at h
      have he : DirEntry.new name att fc now b off = e := Res.ok.inj (congrArg Prod.fst h)
      have hs' : s1 = s' := congrArg Prod.snd h
      subst hs'; subst he
      refine .inl ⟨s, RO.refl s, hn, hc, ⟨hfree, rfl, hd1, hw1, hv1, hn1, hc1⟩, ?_⟩
      rcases hw with hfr | ⟨hfr, hfb, hds, hch⟩
      · exact .inl ⟨hfr, hb1, hb2⟩
      · exact .inr ⟨hfr, w.cluster, chain_head_mem hch, by
          show clusterToBlock s.vol w.cluster ≤ b ∧ b < clusterToBlock s.vol w.cluster + s.vol.blocksPerCluster
          rw [← hfb, ← hds]; exact ⟨hb1, hb2⟩⟩

end Sdmmc.Lemmas.CrashDirWalk
