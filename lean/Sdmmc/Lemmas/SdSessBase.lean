/-
Lemmas for C14 over sessions, part 1: the session runner only appends to the log; the marked
log of a session is a decoration of its event log; the whole log of a session satisfies the
chunk-local command properties; the four shapes of the marked log of one call.
-/
import Sdmmc.Spec.SdSession
import Sdmmc.Lemmas.SdIdent

namespace Sdmmc.Lemmas.Sd
open Sdmmc.Model Sdmmc.Model.Sd Sdmmc.Gen Sdmmc.Spec.SdSession

variable {σ : Type} (B : BusOps σ)

theorem newEvents_eq (s s' : St σ) : newEvents s s' = evsNew s s' := rfl

/-! ### Erasing the marks -/

@[simp] theorem events_nil : events [] = [] := rfl
@[simp] theorem events_ev (e : Event) (l : List Mark) : events (.ev e :: l) = e :: events l := rfl
@[simp] theorem events_call (c : Call) (l : List Mark) : events (.call c :: l) = events l := rfl
@[simp] theorem events_identified (l : List Mark) : events (.identified :: l) = events l := rfl
@[simp] theorem events_reset (l : List Mark) : events (.reset :: l) = events l := rfl

@[simp] theorem events_append (a b : List Mark) : events (a ++ b) = events a ++ events b := by
  induction a with
  | nil => rfl
  | cons x a ih => cases x <;> simp [ih]

@[simp] theorem events_map_ev (l : List Event) : events (l.map .ev) = l := by
  induction l with
  | nil => rfl
  | cons x l ih => simp [ih]

@[simp] theorem events_acquireMark (r : SRes Unit) (l : List Mark) : events (acquireMark r :: l) = events l := by
  cases r <;> rfl

theorem isMarkUninit_true {c : Call} (h : isMarkUninit c = true) : c = .markUninit := by
  cases c <;> first | rfl | cases h

/-! ### The session runner only appends -/

theorem runCalls_extend (cs : List Call) (s : St σ) :
    ∃ evs, (runCalls B cs s).events = evs.reverse ++ s.events ∧ (runCalls B cs s).useCrc = s.useCrc ∧
      (runCalls B cs s).acquireRetries = s.acquireRetries ∧ CmdsOK evs := by
  induction cs generalizing s with
  | nil => exact ⟨[], by simp [runCalls], rfl, rfl, Local.nil⟩
  | cons c cs ih =>
    obtain ⟨h1, h2, h3⟩ := call_events_extend B c s
    obtain ⟨evs, g1, g2, g3, g4⟩ := ih (call B c s).2
    refine ⟨evsNew s (call B c s).2 ++ evs, ?_, g2.trans h2, g3.trans h3,
      Local.append _ _ (call_cmdsOK B c s) g4⟩
    show (runCalls B cs (call B c s).2).events = _
    rw [g1, h1]; simp

/-- The whole log of a session: well-formed frames, no command while busy, application commands
prefixed. -/
theorem session_cmdsOK (cs : List Call) (s : St σ) : CmdsOK (evsNew s (runCalls B cs s)) := by
  obtain ⟨evs, h1, _, _, h4⟩ := runCalls_extend B cs s
  rw [evsNew_of_eq h1]; exact h4

theorem runCalls_useCrc (cs : List Call) (s : St σ) : (runCalls B cs s).useCrc = s.useCrc := by
  obtain ⟨_, _, h, _⟩ := runCalls_extend B cs s
  exact h

theorem runCalls_append (cs ds : List Call) (s : St σ) :
    runCalls B (cs ++ ds) s = runCalls B ds (runCalls B cs s) := by
  induction cs generalizing s with
  | nil => rfl
  | cons c cs ih => exact ih _

/-! ### The marked log is a decoration of the event log -/

theorem events_callMarks (c : Call) (s : St σ) : events (callMarks B c s) = evsNew s (call B c s).2 := by
  unfold callMarks
  by_cases hm : isMarkUninit c = true
  · have := isMarkUninit_true hm
    subst this
    simp [isMarkUninit, call, evsNew]
  · rw [if_neg hm]
    by_cases hs : s.cardType.isSome = true
    · rw [if_pos hs]; simp [newEvents_eq]
    · rw [if_neg hs]
      have hnone : s.cardType = none := by cases h : s.cardType <;> simp_all
      have hc : c ≠ .markUninit := by rintro rfl; exact hm rfl
      obtain ⟨ea, eo, h1, _, _, h4⟩ := ident_before_data B c s
      obtain ⟨h5, _⟩ := h4 hnone hc
      simp only [events_call, events_append, events_map_ev, events_acquireMark, newEvents_eq]
      rw [h1, ← h5]; simp

theorem events_sessionMarks_aux (cs : List Call) (s : St σ) (evs : List Event)
    (h1 : (runCalls B cs s).events = evs.reverse ++ s.events) : events (sessionMarks B cs s) = evs := by
  induction cs generalizing s evs with
  | nil =>
    have : evs.reverse = [] := by simpa [runCalls] using h1.symm
    simp [sessionMarks, sessionBlocks, List.reverse_eq_nil_iff.mp this]
  | cons c cs ih =>
    obtain ⟨g1, _⟩ := call_events_extend B c s
    obtain ⟨evs', k1, _⟩ := runCalls_extend B cs (call B c s).2
    have : evs = evsNew s (call B c s).2 ++ evs' := by
      have h2 : (runCalls B cs (call B c s).2).events = evs.reverse ++ s.events := h1
      rw [k1, g1, ← List.append_assoc, ← List.reverse_append] at h2
      exact (List.reverse_inj.mp (List.append_cancel_right h2)).symm
    subst this
    have := ih (call B c s).2 evs' k1
    simp only [sessionMarks] at this
    simp [sessionMarks, sessionBlocks, events_callMarks, this]

theorem events_sessionMarks (cs : List Call) (s : St σ) :
    events (sessionMarks B cs s) = evsNew s (runCalls B cs s) := by
  obtain ⟨evs, h1, _⟩ := runCalls_extend B cs s
  rw [evsNew_of_eq h1]
  exact events_sessionMarks_aux B cs s evs h1

/-! ### The operation behind `check_init` -/

/-- What a call does after `check_init`. -/
def opOf (B : BusOps σ) : Call → S σ Answer
  | .read n idx => do let bs ← Sd.read B n idx; pure (.blocks bs)
  | .write bs idx => do write B bs idx; pure .unit
  | .numBlocks => do let n ← numBlocks B; pure (.num n)
  | .numBytes => do let n ← numBytes B; pure (.num n)
  | .cardType => do let s ← S.get; pure (.ctype s.cardType)
  | .markUninit => pure .unit

theorem call_of_checkInit_ok (c : Call) (s s1 : St σ) (hci : checkInit B s = (.ok (), s1))
    (hc : isMarkUninit c = false) : call B c s = opOf B c s1 := by
  cases c with
  | read n idx => simp only [call, opOf]; rw [bind_ok hci]
  | write bs idx => simp only [call, opOf]; rw [bind_ok hci]
  | numBlocks => simp only [call, opOf]; rw [bind_ok hci]
  | numBytes => simp only [call, opOf]; rw [bind_ok hci]
  | cardType => simp only [call, opOf, bind_apply, attempt_apply, hci]
  | markUninit => cases hc

theorem call_of_checkInit_err (c : Call) (s s1 : St σ) (e : SdErr) (hci : checkInit B s = (.err e, s1))
    (hc : isMarkUninit c = false) : (call B c s).2 = s1 := by
  cases c with
  | read n idx => simp only [call]; rw [bind_err hci]
  | write bs idx => simp only [call]; rw [bind_err hci]
  | numBlocks => simp only [call]; rw [bind_err hci]
  | numBytes => simp only [call]; rw [bind_err hci]
  | cardType => simp only [call, bind_apply, attempt_apply, hci]; rfl
  | markUninit => cases hc

theorem opOf_keeps (c : Call) : Keeps (opOf B c) := by
  cases c with
  | read n idx => exact Keeps.bind (read_keeps B n idx) fun _ => Keeps.pure _
  | write bs idx => exact Keeps.bind (write_keeps B bs idx) fun _ => Keeps.pure _
  | numBlocks => exact Keeps.bind (numBlocks_keeps B) fun _ => Keeps.pure _
  | numBytes => exact Keeps.bind (numBytes_keeps B) fun _ => Keeps.pure _
  | cardType => exact Keeps.bind Keeps.get fun _ => Keeps.pure _
  | markUninit => exact Keeps.pure _

theorem opOf_any (c : Call) : Emits (fun _ => True) (opOf B c) := by
  have hc : ∀ c arg, c ∈ plainCmds → Emits (fun _ => True) (cardCommand B c arg) := fun c arg _ => cardCommand_any B c arg
  have ha : ∀ c arg, c = ACMD41 ∨ c = ACMD23 → Emits (fun _ => True) (cardAcmd B c arg) := fun c arg _ => cardAcmd_any B c arg
  cases c with
  | read n idx => unfold opOf; emits [read_emits B hc _ _]
  | write blocks idx => unfold opOf; emits [write_emits B hc ha _ _]
  | numBlocks => unfold opOf numBlocks; emits [readCsd_emits B hc]
  | numBytes => unfold opOf numBytes; emits [readCsd_emits B hc]
  | cardType => unfold opOf; emits []
  | markUninit => unfold opOf; emits []

/-! ### The four shapes of the marked log of one call -/

/-- The marked log of one call and the card type afterwards: `mark_card_uninit`; a call on a
driver that has a card type (no `acquire`); a call whose `acquire` succeeded; a call whose
`acquire` failed (nothing follows it). -/
theorem callMarks_cases (c : Call) (s : St σ) :
    (c = .markUninit ∧ callMarks B c s = [.call c, .reset] ∧ (call B c s).2.cardType = none) ∨
    (isMarkUninit c = false ∧ s.cardType.isSome ∧ call B c s = opOf B c s ∧
      callMarks B c s = .call c :: (evsNew s (opOf B c s).2).map .ev ∧
      (call B c s).2.cardType = s.cardType) ∨
    (isMarkUninit c = false ∧ s.cardType = none ∧ ∃ s1, acquire B s = (.ok (), s1) ∧
      call B c s = opOf B c s1 ∧
      callMarks B c s = .call c :: ((evsNew s s1).map .ev ++ .identified :: (evsNew s1 (opOf B c s1).2).map .ev) ∧
      (call B c s).2.cardType.isSome) ∨
    (isMarkUninit c = false ∧ s.cardType = none ∧ ∃ e s1, acquire B s = (.err e, s1) ∧
      callMarks B c s = .call c :: ((evsNew s s1).map .ev ++ [.reset]) ∧
      (call B c s).2.cardType = none) := by
  by_cases hm : isMarkUninit c = true
  · have := isMarkUninit_true hm
    subst this
    exact Or.inl ⟨rfl, by simp [callMarks, isMarkUninit], rfl⟩
  have hm' : isMarkUninit c = false := by simpa using hm
  right
  cases hct : s.cardType with
  | some ct =>
    have hs : s.cardType.isSome = true := by simp [hct]
    have hci := checkInit_of_some B s hs
    have hcall := call_of_checkInit_ok B c s s hci hm'
    refine Or.inl ⟨hm', rfl, hcall, ?_, ?_⟩
    · unfold callMarks
      rw [if_neg hm, if_pos hs, hcall]; rfl
    · rw [hcall, opOf_keeps B c s, hct]
  | none =>
    right
    have hs : ¬ s.cardType.isSome = true := by simp [hct]
    have hci := checkInit_of_none B s hct
    obtain ⟨ea, h1, _, _, _⟩ := acquire_identOnly B s
    rcases hacq : acquire B s with ⟨r, s1⟩
    rw [hacq] at h1
    simp only at h1
    have hea : evsNew s s1 = ea := evsNew_of_eq h1
    cases r with
    | ok u =>
      have hcall := call_of_checkInit_ok B c s s1 (hci.trans hacq) hm'
      obtain ⟨eo, g1, _⟩ := opOf_any B c s1
      have hall : evsNew s (opOf B c s1).2 = ea ++ eo := evsNew_of_eq (by rw [g1, h1]; simp)
      refine Or.inl ⟨hm', rfl, s1, rfl, hcall, ?_, ?_⟩
      · unfold callMarks
        rw [if_neg hm, if_neg hs, hcall, hacq]
        simp only [newEvents_eq, hea, hall, evsNew_of_eq g1, acquireMark]
        simp
      · rw [hcall, opOf_keeps B c s1]
        exact acquire_ok_sets B s s1 hacq
    | err e =>
      have hcall := call_of_checkInit_err B c s s1 e (hci.trans hacq) hm'
      refine Or.inr ⟨hm', rfl, e, s1, rfl, ?_, ?_⟩
      · unfold callMarks
        rw [if_neg hm, if_neg hs, hcall, hacq]
        simp only [newEvents_eq, hea, acquireMark]
        simp
      · rw [hcall]
        exact failed_init_leaves_uninit B s s1 e hacq
    | panic p =>
      have := acquire_nopanic B s p
      rw [hacq] at this
      exact absurd rfl this

end Sdmmc.Lemmas.Sd
