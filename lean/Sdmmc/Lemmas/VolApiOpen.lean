/-
Volume invariant (C03), layer 3 (API): `open_file_in_dir`, every mode, every outcome (`openFile_api`).
-/
import Sdmmc.Lemmas.VolApiDelete
import Sdmmc.Lemmas.VolEng7
import Sdmmc.Lemmas.VolSfn
import Sdmmc.Lemmas.Modes

namespace Sdmmc.Lemmas.VolApi
open Sdmmc.Model Sdmmc.Model.Fat Sdmmc.Spec.Volume Sdmmc.Lemmas.VolBase Sdmmc.Lemmas.VolTree
open Sdmmc.Spec hiding NoFault Coherent
open Sdmmc.Lemmas.VolDisk Sdmmc.Lemmas.VolMed Sdmmc.Lemmas.VolEng
open Sdmmc.Lemmas.FBasic (NoFault Coherent)
open Sdmmc.Lemmas.MHoare

/-- A record is entered in the open-file table (and a handle drawn). -/
theorem volInv_add_file {s : Mgr} {gh : Ghost} (hI : VolInv s gh) {vi : VolInfo} (hv : s.vols = [vi]) {f : FileInfo}
    (hM : MedX gh.vol s.dev.disk (s.files ++ [f]) gh []) (hfv : f.rawVolume = vi.rawVolume) (nid : Nat) :
    VolInv { s with nextId := nid, files := s.files ++ [f] } gh := by
  refine ⟨hI.noFault, hI.coherent, hI.unlocked, hI.maxVols, hI.vols, med_of_medX hM, ?_, hI.openDirs⟩
  intro g hg
  rcases List.mem_append.1 hg with hg | hg
  · exact hI.fileVols g hg
  · rw [List.mem_singleton.1 hg]; exact ⟨vi, hv, hfv⟩

/-- What the lookup found, as an object of the directory. -/
structure Found (s : Mgr) (gh : Ghost) (d : DirInfo) (sfn : Bytes) (e : DirEntry) (o : Slot) : Prop where
  mem : o ∈ entries (dirSlots gh.vol s.dev.disk gh.G (dirIdOf d.cluster))
  name : sName o = sfn
  dec : e = Listing.decode gh.vol.fatType o

theorem Found.fields {s : Mgr} {gh : Ghost} {d : DirInfo} {sfn : Bytes} {e : DirEntry} {o : Slot} (h : Found s gh d sfn e o) :
    e.name = sName o ∧ e.attributes = sAttr o ∧ e.size = sSize o ∧ e.entryBlock = o.1 ∧ e.entryOffset = o.2.1 ∧
    (Attr.isDirectory e.attributes = false → isDirE o = false ∧ e.cluster = sCluster gh.vol.fatType o) := by
  obtain ⟨hdn, hda, hds, hdb, hdo, hdc⟩ := decode_fields gh.vol.fatType o
  rw [h.dec]
  refine ⟨hdn, hda, hds, hdb, hdo, ?_⟩
  intro hdir
  have hod : isDirE o = false := by
    have : Attr.isDirectory (sAttr o) = false := by rw [← hda]; exact hdir
    exact this
  have hattr : ¬ sAttr o / 16 % 2 = 1 := by
    unfold isDirE at hod
    exact of_decide_eq_false hod
  exact ⟨hod, by rw [hdc, if_neg (fun h' => hattr h'.2)]⟩

/-- A found plain-file entry is an object of its directory; if the table says it is not open, no open file sits
there. -/
theorem Found.object {s : Mgr} {gh : Ghost} (hI : VolInv s gh) {vi : VolInfo} (hv : s.vols = [vi]) {d : DirInfo}
    (hdv : ValidDir gh.dirs d.cluster) (hraw : vi.rawVolume = d.rawVolume) {sfn : Bytes} {e : DirEntry} {o : Slot}
    (h : Found s gh d sfn e o) (hdir : Attr.isDirectory e.attributes = false) (hopen : fileIsOpen s d.rawVolume e = false) :
    o ∈ objects (dirIdOf d.cluster) (dirSlots gh.vol s.dev.disk gh.G (dirIdOf d.cluster)) ∧ isDirE o = false ∧
      pendOf s.files o = none := by
  obtain ⟨_, _, _, hdb, hdo, hnd⟩ := h.fields
  obtain ⟨hod, _⟩ := hnd hdir
  have hM := medX_of_med hI.med
  obtain ⟨hid, _⟩ := validDir_id hM hdv
  refine ⟨?_, hod, ?_⟩
  · refine entry_object (ft := gh.vol.fatType) h.mem hod ?_
    intro hne
    rcases mem_dirIds.1 hid with e0 | ⟨p, hp⟩
    · exact absurd e0 hne
    · obtain ⟨s0, s1, rest, hss, hd0, hd1⟩ := hM.tree.dots _ p hp
      exact ⟨p, s0, s1, rest, hss, hd0, hd1⟩
  · rw [pendOf_none_iff]
    intro g hg hk
    have : fileIsOpen s d.rawVolume e = true := by
      unfold fileIsOpen
      rw [List.any_eq_true]
      obtain ⟨vi', hv', he'⟩ := hI.fileVols g hg
      rw [hv] at hv'
      cases hv'
      obtain ⟨hk1, hk2⟩ := Prod.mk.inj hk
      refine ⟨g, hg, ?_⟩
      simp only [decide_eq_true_eq]
      exact ⟨he'.trans hraw, by rw [hdb]; exact hk1, by rw [hdo]; exact hk2⟩
    rw [hopen] at this; cases this

/-- Opening an existing plain file that is not open (`ReadOnly`, `ReadWriteAppend`): the record built from
the entry found is entered in the table. -/
theorem volInv_open_existing {s : Mgr} {gh : Ghost} (hI : VolInv s gh) {vi : VolInfo} (hv : s.vols = [vi]) {d : DirInfo}
    (hdv : ValidDir gh.dirs d.cluster) (hraw : vi.rawVolume = d.rawVolume) {sfn : Bytes} {e : DirEntry} {o : Slot}
    (h : Found s gh d sfn e o) (hdir : Attr.isDirectory e.attributes = false) (hopen : fileIsOpen s d.rawVolume e = false)
    (id : Nat) (mode : Mode) (off : Nat) (hoff : off ≤ e.size) (nid : Nat) :
    VolInv { s with nextId := nid, files := s.files ++ [Modes.openedFile d id e mode off] } gh := by
  obtain ⟨ho, hod, hfree⟩ := h.object hI hv hdv hraw hdir hopen
  obtain ⟨hn, ha, hsz, hb, hoo, hnd⟩ := h.fields
  obtain ⟨_, hcl⟩ := hnd hdir
  have hM := medX_of_med hI.med
  obtain ⟨hid, _⟩ := validDir_id hM hdv
  apply volInv_add_file hI hv _ hraw.symm
  exact med_open hM hid ho hod hfree (f := Modes.openedFile d id e mode off) (Prod.ext hb hoo) hn ha hcl hsz hoff rfl rfl

/-- **The directory lookup** all name-taking calls start with, under the invariant: the state afterwards is
the start state up to device bookkeeping and cache; the answer is `NotFound` for a fresh name, or the
decoding of the live short entry with that name. -/
theorem lookup_found {s : Mgr} {gh : Ghost} (hI : VolInv s gh) {vi : VolInfo} (hvs : s.vols = [vi]) (hvol : vi.vol = gh.vol)
    {d : DirInfo} (hdv : ValidDir gh.dirs d.cluster) (sfn : Bytes) (hne5 : sfn.head? ≠ some 0xE5) :
    ∃ r fs', withVol 0 (Fat.findDirectoryEntry d.cluster sfn) s = (r, afterVol s vi fs') ∧
      (afterVol s vi fs').dev.disk = s.dev.disk ∧ fs'.vol = gh.vol ∧ VolInv (afterVol s vi fs') gh ∧
      ((r = .err .NotFound ∧ sfn ∉ (entries (dirSlots gh.vol s.dev.disk gh.G (dirIdOf d.cluster))).map sName) ∨
       ∃ e o, r = .ok e ∧ Found (afterVol s vi fs') gh d sfn e o) := by
  have hro := DirMgr.findDirectoryEntry_readOnly d.cluster sfn
  have h1 := withVol_ro_inv 0 _ hro hI
  have hw := withVol_one (Fat.findDirectoryEntry d.cluster sfn) hvs hvol
  obtain ⟨hn, hc, hM⟩ := volInv_fs hI
  obtain ⟨fs', hfind, hdisk, _, hvol', _, _⟩ := find_spec hM hn hc hdv sfn hne5
  rw [hfind] at hw
  rw [hw] at h1
  refine ⟨_, fs', hw, hdisk, hvol', h1, ?_⟩
  cases hfo : (entries (dirSlots (fsOf s gh).vol (fsOf s gh).dev.disk gh.G (dirIdOf d.cluster))).find?
      fun s => decide (sName s = sfn) with
  | none =>
    left
    refine ⟨rfl, ?_⟩
    intro hm
    obtain ⟨x, hx, hxe⟩ := List.mem_map.1 hm
    have := List.find?_eq_none.1 hfo x hx
    simp only [decide_eq_true_eq] at this
    exact this hxe
  | some o =>
    right
    refine ⟨_, o, rfl, ?_, ?_, rfl⟩
    · have hd' : (afterVol s vi fs').dev.disk = (fsOf s gh).dev.disk := hdisk
      rw [hd']
      exact List.mem_of_find?_eq_some hfo
    · have := List.find?_some hfo
      simpa using this

theorem afterVol_tables (s : Mgr) (vi : VolInfo) (fs' : FS) :
    (afterVol s vi fs').files = s.files ∧ (afterVol s vi fs').dirs = s.dirs ∧ (afterVol s vi fs').nextId = s.nextId ∧
    (afterVol s vi fs').clock = s.clock ∧ (afterVol s vi fs').vols = [{ vi with vol := fs'.vol }] ∧
    (afterVol s vi fs').maxFiles = s.maxFiles := ⟨rfl, rfl, rfl, rfl, rfl, rfl⟩

/-! ### The creating branch -/

theorem createRun_inv {s : Mgr} {gh : Ghost} (hI : VolInv s gh) {vi : VolInfo} (hvs : s.vols = [vi]) (hvol : vi.vol = gh.vol)
    {d : DirInfo} (hdv : ValidDir gh.dirs d.cluster) (hraw : vi.rawVolume = d.rawVolume) (sfn : Bytes)
    (hlen : sfn.length = 11) (h0 : byteAt sfn 0 ≠ 0) (hE5 : byteAt sfn 0 ≠ 0xE5)
    (hfresh : sfn ∉ (entries (dirSlots gh.vol s.dev.disk gh.G (dirIdOf d.cluster))).map sName) (now : Timestamp) :
    ∃ gh', VolInv (Modes.createRun d sfn now s).2 gh' ∧ SameGeom gh.vol gh'.vol := by
  unfold Modes.createRun
  have hv0 : s.vols.findIdx? (·.rawVolume = d.rawVolume) = some 0 := by rw [hvs]; simp [hraw]
  rw [bind_ok (getVolumeById_ok hv0)]
  obtain ⟨hn, hc, hM⟩ := volInv_fs hI
  obtain ⟨r, fs', hrun, hn', hc', hcase⟩ := create_file_med hM hn hc hdv sfn hlen h0 hE5 hfresh now
  have hw := withVol_one (Fat.writeNewDirectoryEntry d.cluster sfn 0 Gen.CLUSTER_EMPTY now) hvs hvol
  have hrun' : Fat.writeNewDirectoryEntry d.cluster sfn 0 Gen.CLUSTER_EMPTY now (fsOf s gh) = (r, fs') := hrun
  rw [hrun'] at hw
  rcases hcase with ⟨hr, hd', hv'⟩ | ⟨e, gh', hr, hgv, hgd, hsg, hM', he, o, ho, hpo, hod, hsn, hsa, hsc, hss, hpn⟩
  · subst hr
    rw [bind_err hw]
    refine ⟨{ gh with vol := fs'.vol }, volInv_afterVol hI hvs hn' hc' rfl ?_ (fun _ h => h), SameGeom.of_eq hv'⟩
    have : MedX fs'.vol fs'.dev.disk s.files gh [] := by rw [hd', hv']; exact hM
    exact medX_of_ghost this rfl rfl
  · subst hr
    rw [bind_ok hw, generate_bind, modify_bind]
    refine ⟨gh', ?_, by rw [hgv]; exact hsg⟩
    have hidm : dirIdOf d.cluster ∈ dirIds gh'.dirs := by
      rw [hgd]; exact (validDir_id hM hdv).1
    have hfile : MedX fs'.vol fs'.dev.disk (s.files ++ [Modes.createdFile d s.nextId e]) gh' [] := by
      obtain ⟨hp1, hp2⟩ := Prod.mk.inj hpo
      refine med_open hM' hidm ho hod hpn (f := Modes.createdFile d s.nextId e) (Prod.ext hp1.symm hp2.symm) ?_ ?_ ?_ ?_
        (Nat.zero_le _) rfl rfl
      · show e.name = sName o
        rw [hsn, he]; rfl
      · show e.attributes = sAttr o
        rw [hsa, he]; rfl
      · show e.cluster = sCluster fs'.vol.fatType o
        rw [hsc, he]; rfl
      · show e.size = sSize o
        rw [hss, he]; rfl
    exact volInv_after (vi := vi) (files' := s.files ++ [Modes.createdFile d s.nextId e]) (dirs' := s.dirs) hI hn' hc' hgv hfile
      (by
        intro g hg
        rcases List.mem_append.1 hg with hg | hg
        · obtain ⟨vi', hv', he'⟩ := hI.fileVols g hg
          rw [hvs] at hv'; cases hv'; exact he'
        · rw [List.mem_singleton.1 hg]; exact hraw.symm)
      (by intro di hdi; rw [hgd]; exact hI.openDirs di hdi) ((s.nextId + 1) % 4294967296)

/-! ### The truncating branch -/

theorem truncRun_inv {s : Mgr} {gh : Ghost} (hI : VolInv s gh) {vi : VolInfo} (hvs : s.vols = [vi]) (hvol : vi.vol = gh.vol)
    {d : DirInfo} (hdv : ValidDir gh.dirs d.cluster) (hraw : vi.rawVolume = d.rawVolume) {sfn : Bytes} {e : DirEntry} {o : Slot}
    (hF : Found s gh d sfn e o) (hdir : Attr.isDirectory e.attributes = false) (hopen : fileIsOpen s d.rawVolume e = false)
    (id : Nat) (now : Timestamp) : ∃ gh', VolInv (Modes.truncRun d 0 e id now s).2 gh' ∧ SameGeom gh.vol gh'.vol := by
  obtain ⟨ho, hod, hfree⟩ := hF.object hI hvs hdv hraw hdir hopen
  obtain ⟨hnm, hat, hsz, hb, hoo, hnd⟩ := hF.fields
  obtain ⟨_, hcl⟩ := hnd hdir
  obtain ⟨hn, hc, hM⟩ := volInv_fs hI
  obtain ⟨hid, _⟩ := validDir_id hM hdv
  obtain ⟨fs1, fs2, hr1, hr2, hn2, hc2, hsg, gh', hgv, hgd, hM2, o', ho', hpo', hod', hsn', hsa', hsc', hss', hpn'⟩ :=
    truncate_med hM hn hc hid ho hod hfree (Modes.truncatedFile d id e now).entry hb hoo hnm hat hcl rfl
  -- the two runs on the volume
  have hw1 := withVol_one (Fat.truncateClusterChain e.cluster) hvs hvol
  have hr1' : Fat.truncateClusterChain e.cluster (fsOf s gh) = (.ok (), fs1) := hr1
  rw [hr1'] at hw1
  have hvs1 : (afterVol s vi fs1).vols = [{ vi with vol := fs1.vol }] := rfl
  have hw2 := withVol_one (gh := { gh with vol := fs1.vol }) (Fat.writeEntryToDisk (Modes.truncatedFile d id e now).entry) hvs1 rfl
  have hfs1 : fsOf (afterVol s vi fs1) { gh with vol := fs1.vol } = fs1 := rfl
  rw [hfs1, hr2] at hw2
  unfold Modes.truncRun
  have hinner : ((do
      withVol 0 (Fat.truncateClusterChain e.cluster)
      withVol 0 (Fat.writeEntryToDisk (Modes.truncatedFile d id e now).entry)
      pure (Modes.truncatedFile d id e now) : M FileInfo)) s =
      (.ok (Modes.truncatedFile d id e now), afterVol (afterVol s vi fs1) { vi with vol := fs1.vol } fs2) := by
    rw [bind_ok hw1, bind_ok hw2]; rfl
  rw [bind_ok hinner, modify_bind]
  refine ⟨gh', ?_, by rw [hgv]; exact hsg⟩
  have hidm : dirIdOf d.cluster ∈ dirIds gh'.dirs := by rw [hgd]; exact hid
  have hfile : MedX fs2.vol fs2.dev.disk (s.files ++ [Modes.truncatedFile d id e now]) gh' [] := by
    obtain ⟨hp1, hp2⟩ := Prod.mk.inj hpo'
    refine med_open hM2 hidm ho' hod' hpn' (f := Modes.truncatedFile d id e now) ?_ ?_ ?_ ?_ ?_ (Nat.zero_le _) rfl rfl
    · show (e.entryBlock, e.entryOffset) = spos o'
      rw [hpo', hb, hoo]
    · show e.name = sName o'
      rw [hsn', hnm]
    · show e.attributes = sAttr o'
      rw [hsa', hat]
    · show e.cluster = sCluster fs2.vol.fatType o'
      rw [hsc', hcl]; rfl
    · show 0 = sSize o'
      rw [hss']
  have := volInv_after (s := s) (vi := vi) (files' := s.files ++ [Modes.truncatedFile d id e now]) (dirs' := s.dirs) hI hn2 hc2 hgv
    hfile
    (by
      intro g hg
      rcases List.mem_append.1 hg with hg | hg
      · obtain ⟨vi', hv', he'⟩ := hI.fileVols g hg
        rw [hvs] at hv'; cases hv'; exact he'
      · rw [List.mem_singleton.1 hg]; exact hraw.symm)
    (by intro di hdi; rw [hgd]; exact hI.openDirs di hdi) s.nextId
  exact this

/-! ### `open_file_in_dir` -/

/-- **`open_file_in_dir`** keeps the volume invariant in every mode and for every outcome (for a name whose
short form does not start with 0xE5). -/
theorem openFile_api {s : Mgr} {gh : Ghost} (hI : VolInv s gh) (directory : Nat) (name : List Nat) (mode : Mode)
    (hname : ∀ sfn, Sfn.createFromStr name = .ok sfn → sfn.head? ≠ some 0xE5) :
    ∃ gh', VolInv (openFileInDir directory name mode s).2 gh' ∧ SameGeom gh.vol gh'.vol := by
  rw [Modes.openFileInDir_eq]
  unfold Modes.openFileInDirAlt
  rw [get_bind]
  by_cases hroom : s.files.length ≥ s.maxFiles
  · rw [if_pos hroom]; exact ⟨gh, hI, SameGeom.refl _⟩
  rw [if_neg hroom]
  refine dirPrologue_state directory name _ hI fun d volIdx sfn hdm hv hsfn => ?_
  obtain ⟨h0, vi, hvs, hvol, hraw⟩ := vol_of_handle hI hv
  subst h0
  have hdv := hI.openDirs d hdm
  rw [attempt_bind]
  obtain ⟨r, fs', hlk, hdisk, hvol', h1, hcase⟩ := lookup_found hI hvs hvol hdv sfn (hname sfn hsfn)
  rw [hlk]
  show ∃ gh', VolInv (Modes.openFileTail d 0 sfn mode r (afterVol s vi fs')).2 gh' ∧ SameGeom gh.vol gh'.vol
  have hvs1 : (afterVol s vi fs').vols = [{ vi with vol := fs'.vol }] := rfl
  have hraw1 : ({ vi with vol := fs'.vol } : VolInfo).rawVolume = d.rawVolume := hraw
  rcases hcase with ⟨hr, hfresh⟩ | ⟨e, o, hr, hF⟩
  · subst hr
    by_cases hm : mode = .ReadWriteCreate ∨ mode = .ReadWriteCreateOrTruncate ∨ mode = .ReadWriteCreateOrAppend
    · rw [Modes.tail_create_eq d 0 sfn _ mode hm]
      obtain ⟨hlen, h0⟩ := VolSfn.sfn_facts hsfn
      refine createRun_inv h1 hvs1 hvol' hdv hraw1 sfn hlen h0 (VolSfn.sfn_first_ne_e5 (hname sfn hsfn)) ?_ _
      rw [hdisk]; exact hfresh
    · have hm' : mode = .ReadOnly ∨ mode = .ReadWriteAppend ∨ mode = .ReadWriteTruncate := by
        cases mode <;> simp at hm ⊢
      rw [Modes.tail_notFound d 0 sfn _ mode hm']
      exact ⟨gh, h1, SameGeom.refl _⟩
  · subst hr
    by_cases hopen : fileIsOpen (afterVol s vi fs') d.rawVolume e = true
    · rw [Modes.tail_open d 0 sfn _ mode e hopen]; exact ⟨gh, h1, SameGeom.refl _⟩
    have hopen' : fileIsOpen (afterVol s vi fs') d.rawVolume e = false := by simpa using hopen
    by_cases hcreate : mode = .ReadWriteCreate
    · subst hcreate
      rw [Modes.tail_exists d 0 sfn _ e hopen']; exact ⟨gh, h1, SameGeom.refl _⟩
    by_cases hro : Attr.isReadOnly e.attributes = true ∧ mode ≠ .ReadOnly
    · rw [Modes.tail_readOnlyAttr d 0 sfn _ mode e hopen' hcreate hro.2 hro.1]; exact ⟨gh, h1, SameGeom.refl _⟩
    have hro' : Attr.isReadOnly e.attributes = false ∨ mode = .ReadOnly := by
      by_cases h : mode = .ReadOnly
      · exact .inr h
      · left
        by_cases h2 : Attr.isReadOnly e.attributes = true
        · exact absurd ⟨h2, h⟩ hro
        · simpa using h2
    by_cases hdir : Attr.isDirectory e.attributes = true
    · rw [Modes.tail_dirAsFile d 0 sfn _ mode e hopen' hcreate hro' hdir]; exact ⟨gh, h1, SameGeom.refl _⟩
    have hdir' : Attr.isDirectory e.attributes = false := by simpa using hdir
    cases mode with
    | ReadOnly =>
      rw [Modes.tail_readOnly d 0 sfn _ e hopen' hdir']
      exact ⟨gh, volInv_open_existing h1 hvs1 hdv hraw1 hF hdir' hopen' _ _ 0 (Nat.zero_le _) _, SameGeom.refl _⟩
    | ReadWriteCreate => exact absurd rfl hcreate
    | ReadWriteAppend =>
      have hron : Attr.isReadOnly e.attributes = false := hro'.elim id (fun h => by cases h)
      rw [Modes.tail_append d 0 sfn _ .ReadWriteAppend e (.inl rfl) hopen' hron hdir']
      exact ⟨gh, volInv_open_existing h1 hvs1 hdv hraw1 hF hdir' hopen' _ _ e.size (Nat.le_refl _) _, SameGeom.refl _⟩
    | ReadWriteCreateOrAppend =>
      have hron : Attr.isReadOnly e.attributes = false := hro'.elim id (fun h => by cases h)
      rw [Modes.tail_append d 0 sfn _ .ReadWriteCreateOrAppend e (.inr rfl) hopen' hron hdir']
      exact ⟨gh, volInv_open_existing h1 hvs1 hdv hraw1 hF hdir' hopen' _ _ e.size (Nat.le_refl _) _, SameGeom.refl _⟩
    | ReadWriteTruncate =>
      have hron : Attr.isReadOnly e.attributes = false := hro'.elim id (fun h => by cases h)
      rw [Modes.tail_truncate_eq d 0 sfn _ .ReadWriteTruncate (.inl rfl) e hopen' hron hdir']
      have h1' : VolInv { afterVol s vi fs' with nextId := ((afterVol s vi fs').nextId + 1) % 4294967296 } gh :=
        volInv_ro h1 rfl h1.noFault h1.coherent rfl rfl rfl rfl h1.openDirs
      exact truncRun_inv h1' hvs1 hvol' hdv hraw1 ⟨hF.mem, hF.name, hF.dec⟩ hdir' hopen' _ _
    | ReadWriteCreateOrTruncate =>
      have hron : Attr.isReadOnly e.attributes = false := hro'.elim id (fun h => by cases h)
      rw [Modes.tail_truncate_eq d 0 sfn _ .ReadWriteCreateOrTruncate (.inr rfl) e hopen' hron hdir']
      have h1' : VolInv { afterVol s vi fs' with nextId := ((afterVol s vi fs').nextId + 1) % 4294967296 } gh :=
        volInv_ro h1 rfl h1.noFault h1.coherent rfl rfl rfl rfl h1.openDirs
      exact truncRun_inv h1' hvs1 hvol' hdv hraw1 ⟨hF.mem, hF.name, hF.dec⟩ hdir' hopen' _ _

theorem step_openFile_api {s : Mgr} {gh : Ghost} (hI : VolInv s gh) (d : Nat) (name : List Nat) (mode : Mode)
    (hname : ∀ sfn, Sfn.createFromStr name = .ok sfn → sfn.head? ≠ some 0xE5) :
    ∃ gh', VolInv (step s (.openFile d name mode)).1 gh' ∧ SameGeom gh.vol gh'.vol := by
  refine step_keeps_of (op := .openFile d name mode) ?_ s gh hI
  intro s gh hI
  show ∃ gh', VolInv ((openFileInDir d name mode >>= fun h => (pure (Payload.handle h) : M Payload)) s).2 gh' ∧ SameGeom gh.vol gh'.vol
  rw [map_state]
  exact openFile_api hI d name mode hname

end Sdmmc.Lemmas.VolApi
