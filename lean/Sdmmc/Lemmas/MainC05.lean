/-
Bridging lemmas for `Props/C05Main.lean`: the one-call and cycle theorems of `Props.C05Capacity` / `Props.C05Cycle`
restated for ANY state satisfying the volume invariant `VolInv` (no chain-list split, no glue), in the form the clauses
of the headline theorem take.
-/
import Sdmmc.Props.C05Capacity
import Sdmmc.Props.C05Cycle
import Sdmmc.Props.C03All

namespace Sdmmc.Lemmas.MainC05
open Sdmmc.Model Sdmmc.Model.Fat Sdmmc.Spec.Volume
open Sdmmc.Spec hiding run step NoFault Coherent
open Sdmmc.Lemmas.VolTree (HeadsOK heads chainOf_of_mem chainOf_spec chainOf_ne_nil_iff chainOf_lt_two)
open Sdmmc.Lemmas.VolMed (medX_of_med med_heads)
open Sdmmc.Lemmas.VolWalk (isFreeSlot)
open Sdmmc.Lemmas.Cycle (Quiet roundsState RoundAnswers)
open Sdmmc.Props
open Sdmmc.Props.C05Capacity (Writable needed)

/-- The chain list splits around the chain of any first cluster (`withChain`: nothing in between if there is none). -/
theorem split_at_chain {G : List (List Nat)} (hG : HeadsOK G) (c : Nat) :
    ∃ A B, G = withChain A (chainOf G c) B := by
  by_cases hne : chainOf G c = []
  · exact ⟨G, [], by rw [hne]; simp [withChain]⟩
  · obtain ⟨A, B, hAB⟩ := List.append_of_mem (chainOf_spec hG ((chainOf_ne_nil_iff hG).1 hne)).1
    refine ⟨A, B, ?_⟩
    unfold withChain
    rw [if_neg hne, List.append_assoc]
    exact hAB

/-- **Every open writable file of a state with the volume invariant is `Writable`** (the hypotheses of
`Props.C01Write.write_refines` / `Props.C05Capacity`), its chain being `chainOf gh.G f.entry.cluster`. -/
theorem writable_of_inv {s : Mgr} {gh : Ghost} (hI : VolInv s gh) {h i : Nat} {f : FileInfo}
    (hidx : s.files.findIdx? (·.rawFile = h) = some i) (hf : s.files[i]? = some f) (hmode : f.mode ≠ .ReadOnly) :
    ∃ v A B, s.vols = [v] ∧ v.vol = gh.vol ∧ gh.G = withChain A (chainOf gh.G f.entry.cluster) B ∧
      Writable s h i 0 f v (chainOf gh.G f.entry.cluster) A B := by
  have hfm : f ∈ s.files := List.mem_of_getElem? hf
  obtain ⟨vi, hv, hvol, hrv, _⟩ := Lemmas.VolApi.vol_of_file hI hfm
  have hG : HeadsOK gh.G := med_heads (medX_of_med hI.med)
  obtain ⟨A, B, hAB⟩ := split_at_chain hG f.entry.cluster
  obtain ⟨hok, hcur⟩ := hI.med.fileOK f hfm
  refine ⟨vi, A, B, hv, hvol, hAB, ⟨hI.noFault, hI.coherent, hI.med.blocksOK, hI.unlocked⟩, hidx, hf, ?_, ?_, hmode, ?_, ?_, ?_,
    hcur, ?_⟩
  · rw [hv]; simp [hrv]
  · rw [hv]; rfl
  · rw [hvol]; exact hI.med.geom
  · rw [hvol]; exact hI.med.hint
  · rw [hvol]; exact hok
  · rw [hvol, ← hAB]; exact hI.med.owns

/-- **One `write`, classified by the free space** — `Props.C05Capacity.write_fails_iff_no_space` for any open writable file
of a state with the volume invariant.  `cs` the chain of the file, `F` the number of free clusters, `cb` the bytes per
cluster, `bytes'` the contents afterwards. -/
theorem write_capacity {s : Mgr} {gh : Ghost} (hI : VolInv s gh) {h i : Nat} {f : FileInfo}
    (hidx : s.files.findIdx? (·.rawFile = h) = some i) (hf : s.files[i]? = some f) (hmode : f.mode ≠ .ReadOnly)
    (data : Bytes) (hmax : f.currentOffset + data.length ≤ Gen.MAX_FILE_SIZE) :
    ∃ k r s', Model.write h data s = (r, s') ∧ k ≤ data.length ∧
      (r = .ok () ↔ needed (chainOf gh.G f.entry.cluster).length (f.currentOffset + data.length) (clusterBytesLen gh.vol) -
          (chainOf gh.G f.entry.cluster).length ≤ freeCount gh.vol s.dev.disk) ∧
      ((r = .err .DiskFull ∨ r = .err .NotEnoughSpace) ↔
        freeCount gh.vol s.dev.disk < needed (chainOf gh.G f.entry.cluster).length (f.currentOffset + data.length)
          (clusterBytesLen gh.vol) - (chainOf gh.G f.entry.cluster).length) ∧
      (r = .ok () → k = data.length) ∧
      (r ≠ .ok () → f.currentOffset + k = ((chainOf gh.G f.entry.cluster).length + freeCount gh.vol s.dev.disk) *
          clusterBytesLen gh.vol ∧
        freeCount gh.vol s'.dev.disk = 0 ∧ Full gh.vol s'.dev.disk ∧
        (r = .err .NotEnoughSpace ↔ (chainOf gh.G f.entry.cluster).length + freeCount gh.vol s.dev.disk = 0)) ∧
      ∀ p n, p ≤ ((absFile gh.vol s.dev.disk f (chainOf gh.G f.entry.cluster)).write (data.take k)).bytes.length →
        ∃ s2 s3, fileSeekFromStart h p s' = (.ok (), s2) ∧
          read h n s2 =
            (.ok ((((absFile gh.vol s.dev.disk f (chainOf gh.G f.entry.cluster)).write (data.take k)).bytes.drop p).take n),
            s3) := by
  obtain ⟨v, A, B, hv, hvol, hAB, hW⟩ := writable_of_inv hI hidx hf hmode
  obtain ⟨k, r, s', f', v', cs', hrun, hk, hW', _, _, hok, herr, hfull, hover, hback⟩ :=
    C05Capacity.write_fails_iff_no_space s h i 0 data f v _ A B hW hmax
  simp only [C05Capacity.cbOf, C05Capacity.freeOf, hvol] at hok herr hover hback
  refine ⟨k, r, s', hrun, hk, hok, herr, hfull, fun hne => ?_, hback⟩
  have hlt : freeCount gh.vol s.dev.disk < needed (chainOf gh.G f.entry.cluster).length (f.currentOffset + data.length)
      (clusterBytesLen gh.vol) - (chainOf gh.G f.entry.cluster).length :=
    Nat.lt_of_not_le fun hle => hne (hok.2 hle)
  obtain ⟨_, hz, _, hoff, hnes⟩ := hover hlt
  obtain ⟨_, v2, _, _, hvols2, _, _, _, hsg, _⟩ := Lemmas.Cycle.write_core_x hI hidx hf hmode data rfl hAB
  rw [hrun] at hvols2
  have hv' : v' = v2 := by
    have := hW'.vol
    rw [show s'.vols = [v2] from hvols2] at this
    exact (Option.some.inj this).symm
  subst hv'
  have hz' : freeCount gh.vol s'.dev.disk = 0 := by rw [← hsg.freeCount]; exact hz
  exact ⟨hoff, hz', (Lemmas.Capacity.full_iff_freeCount_zero _ _).2 hz', hnes⟩

/-- In a chain list with distinct first clusters, removing the chain in the middle is `List.erase`. -/
theorem erase_middle {A B : List (List Nat)} {x : List Nat} (hG : HeadsOK (A ++ x :: B)) : (A ++ x :: B).erase x = A ++ B := by
  have hx : x ∉ A := by
    intro hm
    have hnd : (heads A ++ heads (x :: B)).Nodup := by
      have := hG.nodup
      simpa [heads, List.map_append] using this
    exact (List.nodup_append.1 hnd).2.2 (x.headD 0) (List.mem_map.2 ⟨x, hm, rfl⟩) (x.headD 0)
      (List.mem_map.2 ⟨x, List.mem_cons_self, rfl⟩) rfl
  rw [List.erase_append_right _ hx, List.erase_cons_head]

/-- **`delete_file_in_dir` gives the chain back** — `Props.C05Cycle.delete_succeeds` with the result spelled out: the chain
list afterwards is the old one without the chain of the deleted file, and the number of free clusters has grown by the
length of that chain (0 for a file without cluster). -/
theorem delete_gives_back {s : Mgr} {gh : Ghost} (hI : VolInv s gh) (directory di : Nat) (name : List Nat) (d : DirInfo)
    (sfn : Bytes) (hdi : s.dirs.findIdx? (·.rawDirectory = directory) = some di) (hd : s.dirs[di]? = some d)
    (hvo : ∃ volIdx, s.vols.findIdx? (·.rawVolume = d.rawVolume) = some volIdx)
    (hsfn : Sfn.createFromStr name = .ok sfn) {o : Slot}
    (ho : o ∈ objects (dirIdOf d.cluster) (dirSlots gh.vol s.dev.disk gh.G (dirIdOf d.cluster)))
    (hod : isDirE o = false) (hsn : sName o = sfn) (hfree : pendOf s.files o = none) :
    ∃ s' gh', deleteFileInDir directory name s = (.ok (), s') ∧ VolInv s' gh' ∧ SameGeom gh.vol gh'.vol ∧
      s'.files = s.files ∧ s'.dirs = s.dirs ∧ gh'.dirs = gh.dirs ∧
      gh'.G = gh.G.erase (chainOf gh.G (sCluster gh.vol.fatType o)) ∧
      freeCount gh.vol s'.dev.disk = freeCount gh.vol s.dev.disk + (chainOf gh.G (sCluster gh.vol.fatType o)).length := by
  have hG : HeadsOK gh.G := med_heads (medX_of_med hI.med)
  obtain ⟨s', vi', G', k, pre, post, hrun, hfl, hdr, _, _, _, _, hsg, hI', hgave, hcase, _⟩ :=
    C05Cycle.delete_succeeds hI directory di name d sfn hdi hd hvo hsfn (C03All.name_ok_all name sfn hsfn) ho hod hsn hfree
  refine ⟨s', _, hrun, hI', hsg, hfl, hdr, rfl, ?_, ?_⟩
  · show G' = _
    rcases hcase with ⟨h0, hG', _⟩ | ⟨A, B, tail, hGe, hG', _⟩
    · rw [h0, chainOf_lt_two hG (by decide), hG']
      exact (List.erase_of_not_mem fun hm => hG.ne [] hm rfl).symm
    · have hc : chainOf gh.G (sCluster gh.vol.fatType o) = sCluster gh.vol.fatType o :: tail :=
        chainOf_of_mem hG (by rw [hGe]; simp) rfl
      rw [hc, hG']
      rw [hGe] at hG ⊢
      exact (erase_middle hG).symm
  · rw [hgave.free]
    rcases hcase with ⟨h0, _, hk⟩ | ⟨A, B, tail, hGe, _, hk⟩
    · rw [h0, chainOf_lt_two hG (by decide), hk]; rfl
    · have hc : chainOf gh.G (sCluster gh.vol.fatType o) = sCluster gh.vol.fatType o :: tail :=
        chainOf_of_mem hG (by rw [hGe]; simp) rfl
      rw [hc, hk]; rfl

/-- **Truncation gives the tail back** — `Props.C05Cycle.truncate_reclaims` with the count spelled out. -/
theorem truncate_gives_back {s : Mgr} {gh : Ghost} (hI : VolInv s gh) (directory di : Nat) (name : List Nat) (d : DirInfo)
    (sfn : Bytes) (hroom : s.files.length < s.maxFiles)
    (hdi : s.dirs.findIdx? (·.rawDirectory = directory) = some di) (hd : s.dirs[di]? = some d)
    (hvo : ∃ volIdx, s.vols.findIdx? (·.rawVolume = d.rawVolume) = some volIdx)
    (hsfn : Sfn.createFromStr name = .ok sfn) {o : Slot}
    (ho : o ∈ objects (dirIdOf d.cluster) (dirSlots gh.vol s.dev.disk gh.G (dirIdOf d.cluster)))
    (hod : isDirE o = false) (hsn : sName o = sfn) (hfree : pendOf s.files o = none)
    (hro : Attr.isReadOnly (sAttr o) = false) :
    ∃ s' gh', openFileInDir directory name .ReadWriteTruncate s = (.ok s.nextId, s') ∧ VolInv s' gh' ∧
      SameGeom gh.vol gh'.vol ∧
      freeCount gh.vol s'.dev.disk =
        freeCount gh.vol s.dev.disk + ((chainOf gh.G (sCluster gh.vol.fatType o)).length - 1) := by
  obtain ⟨s', gh', hrun, hI', hsg, hgave⟩ :=
    C05Cycle.truncate_reclaims hI directory di name d sfn hroom hdi hd hvo hsfn (C03All.name_ok_all name sfn hsfn) ho hod hsn
      hfree hro
  exact ⟨s', gh', hrun, hI', hsg, hgave.free⟩

/-- **The fill / delete / refill cycle from any quiescent state with the invariant** — `Props.C05Cycle.fill_delete_refill_inv`
with the hypotheses of `Quiet` spelled out and `F` the number of free clusters of the state. -/
theorem cycle_of_inv {s : Mgr} {gh : Ghost} (hI : VolInv s gh) (hq : s.files = []) (hroom : 0 < s.maxFiles)
    (directory di : Nat) (d : DirInfo) (name : List Nat) (sfn : Bytes)
    (hdi : s.dirs.findIdx? (·.rawDirectory = directory) = some di) (hd : s.dirs[di]? = some d)
    (hvo : ∃ volIdx, s.vols.findIdx? (·.rawVolume = d.rawVolume) = some volIdx)
    (hsfn : Sfn.createFromStr name = .ok sfn)
    (hfresh : sfn ∉ (entries (dirSlots gh.vol s.dev.disk gh.G (dirIdOf d.cluster))).map sName)
    (hslot : ∃ t, t ∈ dirSlots gh.vol s.dev.disk gh.G (dirIdOf d.cluster) ∧ (first t = 0 ∨ first t = 0xE5))
    (hF : 1 ≤ freeCount gh.vol s.dev.disk)
    (hcap : freeCount gh.vol s.dev.disk * clusterBytesLen gh.vol ≤ Gen.MAX_FILE_SIZE)
    (bss : Nat → List Bytes) (htotal : ∀ j, (bss j).flatten.length = freeCount gh.vol s.dev.disk * clusterBytesLen gh.vol)
    (n : Nat) :
    (∃ ghn, VolInv (roundsState directory name bss n s) ghn ∧ (roundsState directory name bss n s).files = [] ∧
      ghn.G = gh.G ∧ ghn.dirs = gh.dirs ∧ SameGeom gh.vol ghn.vol ∧
      freeCount ghn.vol (roundsState directory name bss n s).dev.disk = freeCount gh.vol s.dev.disk) ∧
    RoundAnswers directory name (bss n) (freeCount gh.vol s.dev.disk * clusterBytesLen gh.vol)
      (roundsState directory name bss n s) := by
  have hQ : Quiet s gh directory di d sfn (freeCount gh.vol s.dev.disk) := by
    obtain ⟨t, ht, htf⟩ := hslot
    exact ⟨hI, hq, hroom, hdi, hd, hvo, hfresh, ⟨t, ht, by unfold isFreeSlot; exact decide_eq_true htf⟩, rfl⟩
  obtain ⟨⟨ghn, hQn, hG, hD, hsg⟩, hR⟩ :=
    C05Cycle.fill_delete_refill_inv hQ name hsfn (C03All.name_ok_all name sfn hsfn) hF hcap bss htotal n
  exact ⟨⟨ghn, hQn.inv, hQn.noFiles, hG, hD, hsg, hQn.free⟩, hR⟩

end Sdmmc.Lemmas.MainC05
