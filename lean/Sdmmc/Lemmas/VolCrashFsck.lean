/-
Bridge from the crash-consistency invariant `CrashInv` of a MEDIUM (`Spec/VolumeCrash.lean`) to the independent
structure checker `Spec.Fs.fsck` run without pending entries and without the size clause (`fsck g d [] false`),
part 1.  The bridge from `VolInv` (`VolFsck` … `VolFsck8`) restated over `CrashCore v d gh` (`VolCrashBase`):
the manager is replaced by the medium `d`, `files := []`, `ps := []`, `sc := false`.

* what `TreeLoose` says about first clusters (the `VolFacts` lemmas, which never used the clause `sizes`);
* what `OwnsLoose` says about chains (the `VolMed` lemmas `med_chain`, `med_disjoint`, `dirHead_mem`, …);
* F2 `dirSlotsT_ok`: the checker lists every directory of the tree and sees the slots the invariant speaks of;
* F3 `checkFatEntries_ok`: from `FatEntriesOK` (lost clusters are not covered by `OwnsLoose`);
* F4 `dirPre_eq`: the per-directory checks D2, D3, D4 add no problem.
-/
import Sdmmc.Lemmas.VolFsck8
import Sdmmc.Lemmas.VolCrashBase

namespace Sdmmc.Lemmas.VolCrash.Fsck
open Sdmmc.Model Sdmmc.Model.Fat Sdmmc.Spec.Volume
open Sdmmc.Spec hiding NoFault Coherent
open Sdmmc.Lemmas.VolTree Sdmmc.Lemmas.VolMed Sdmmc.Lemmas.VolBase
open Sdmmc.Lemmas.VolFsck
open Sdmmc.Spec.Fs (Acc DirRef Pending Geom)

/-! ### What `TreeLoose` says about first clusters -/

section
variable {ft : FatType} {root : List Nat} {G : List (List Nat)} {dirs : List (Nat × Nat)} {slots : Nat → List Slot}

theorem refList_nodup (hT : TreeLoose ft root G dirs slots) (hG : HeadsOK G) :
    (refList ft root dirs slots []).Nodup := (hT.allRefs.nodup_iff).2 hG.nodup

theorem dirHeads_nodup (hT : TreeLoose ft root G dirs slots) (hG : HeadsOK G) : (dirs.map Prod.fst).Nodup := by
  have := refList_nodup hT hG
  exact (List.nodup_append.1 (List.nodup_append.1 this).1).2.1

theorem dir_mem_heads (hT : TreeLoose ft root G dirs slots) {h p : Nat} (hm : (h, p) ∈ dirs) : h ∈ heads G := by
  apply hT.allRefs.subset
  exact List.mem_append_left _ (List.mem_append_right _ (List.mem_map.2 ⟨(h, p), hm, rfl⟩))

theorem root_mem_heads (hT : TreeLoose ft root G dirs slots) {c : Nat} (hm : c ∈ root) : c ∈ heads G :=
  hT.allRefs.subset (List.mem_append_left _ (List.mem_append_left _ hm))

theorem dir_ge_two (hT : TreeLoose ft root G dirs slots) (hG : HeadsOK G) {h p : Nat} (hm : (h, p) ∈ dirs) :
    2 ≤ h := by
  obtain ⟨cs, hcs, hcs0⟩ := List.mem_map.1 (dir_mem_heads hT hm)
  have := hG.ge cs hcs
  rw [hcs0] at this
  exact this

theorem dirIds_nodup (hT : TreeLoose ft root G dirs slots) (hG : HeadsOK G) : (dirIds dirs).Nodup := by
  unfold dirIds
  rw [List.nodup_cons]
  refine ⟨?_, dirHeads_nodup hT hG⟩
  intro h0
  obtain ⟨⟨h, p⟩, hm, he⟩ := List.mem_map.1 h0
  have he' : h = 0 := he
  subst he'
  have := dir_ge_two hT hG hm
  omega

/-- The start cluster of a file object, when not zero, is the first cluster of a chain. -/
theorem fileRef_mem_heads (hT : TreeLoose ft root G dirs slots) {h : Nat} (hh : h ∈ dirIds dirs) {o : Slot}
    (ho : o ∈ objects h (slots h)) (hd : isDirE o = false) (hc : sCluster ft o ≠ 0) :
    sCluster ft o ∈ heads G := by
  apply hT.allRefs.subset
  apply List.mem_append_right
  rw [List.mem_flatMap]
  exact ⟨h, hh, mem_fileRefs.2 ⟨hc, o, ho, hd, rfl⟩⟩

/-- … and it is neither the FAT32 root nor a sub-directory. -/
theorem fileRef_not_dir (hT : TreeLoose ft root G dirs slots) (hG : HeadsOK G) {h : Nat} (hh : h ∈ dirIds dirs)
    {o : Slot} (ho : o ∈ objects h (slots h)) (hd : isDirE o = false) (hc : sCluster ft o ≠ 0) :
    sCluster ft o ∉ root ∧ sCluster ft o ∉ dirs.map Prod.fst := by
  have hnd := refList_nodup hT hG
  have hm : sCluster ft o ∈ (dirIds dirs).flatMap fun h => fileRefs ft [] (objects h (slots h)) := by
    rw [List.mem_flatMap]
    exact ⟨h, hh, mem_fileRefs.2 ⟨hc, o, ho, hd, rfl⟩⟩
  have h3 := (List.nodup_append.1 hnd).2.2
  constructor
  · intro hr; exact h3 _ (List.mem_append_left _ hr) _ hm rfl
  · intro hr; exact h3 _ (List.mem_append_right _ hr) _ hm rfl

theorem root_not_dir (hT : TreeLoose ft root G dirs slots) (hG : HeadsOK G) {c : Nat} (hc : c ∈ root) :
    c ∉ dirs.map Prod.fst := by
  have hnd := refList_nodup hT hG
  have := (List.nodup_append.1 (List.nodup_append.1 hnd).1).2.2
  intro hm
  exact this c hc c hm rfl

end

/-! ### What `OwnsLoose` says about chains -/

section
variable {v : FatVolume} {d : Disk} {gh : Ghost}

theorem lheads (hC : CrashCore v d gh) : HeadsOK gh.G := headsOK_of_ownsLoose hC.owns

theorem lchain (hC : CrashCore v d gh) {cs : List Nat} (hcs : cs ∈ gh.G) : Chain v d (cs.headD 0) cs := hC.owns.1 cs hcs

theorem linRange (hC : CrashCore v d gh) {cs : List Nat} (hcs : cs ∈ gh.G) {c : Nat} (hc : c ∈ cs) : InRange v c :=
  ChainL.chain_inRange (lchain hC hcs) c hc

theorem lchain_nodup (hC : CrashCore v d gh) {cs : List Nat} (hcs : cs ∈ gh.G) : cs.Nodup :=
  ChainL.chain_nodup (lchain hC hcs)

/-- Two chains of `G` with different first clusters share no cluster. -/
theorem ldisjoint (hC : CrashCore v d gh) {cs cs' : List Nat} (hcs : cs ∈ gh.G) (hcs' : cs' ∈ gh.G)
    (hne : cs.headD 0 ≠ cs'.headD 0) : ∀ c, c ∈ cs → c ∉ cs' := by
  have hp := (List.perm_cons_erase hcs).flatten
  have hnd := (hp.nodup_iff).1 hC.owns.2.1
  rw [List.flatten_cons, List.nodup_append] at hnd
  have hm : cs' ∈ gh.G.erase cs := (List.mem_erase_of_ne (fun e => hne (by rw [e]))).2 hcs'
  intro c hc hc'
  exact hnd.2.2 c hc c (List.mem_flatten_of_mem hm hc') rfl

theorem fat32_of_not_fixed {h : Nat} (h0 : h = 0) (hf : ¬ isFixedRoot v h) : v.fatType = .fat32 := by
  cases hft : v.fatType with
  | fat16 => exact absurd ⟨h0, hft⟩ hf
  | fat32 => rfl

theorem root_mem_rootHead (h32 : v.fatType = .fat32) : v.firstRootDirCluster ∈ rootHead v := by
  unfold rootHead; rw [h32]; exact List.mem_singleton.2 rfl

/-- The directory numbers other than the FAT16 root name chains of `G`. -/
theorem dirHead_mem (hC : CrashCore v d gh) {h : Nat} (hh : h ∈ dirIds gh.dirs) (hf : ¬ isFixedRoot v h) :
    dirHead v h ∈ heads gh.G := by
  unfold dirHead
  by_cases h0 : h = 0
  · rw [if_pos h0]
    exact root_mem_heads hC.tree (root_mem_rootHead (fat32_of_not_fixed h0 hf))
  · rw [if_neg h0]
    rcases mem_dirIds.1 hh with h0' | ⟨p, hp⟩
    · exact absurd h0' h0
    · exact dir_mem_heads hC.tree hp

theorem dirChain_spec (hC : CrashCore v d gh) {h : Nat} (hh : h ∈ dirIds gh.dirs) (hf : ¬ isFixedRoot v h) :
    chainOf gh.G (dirHead v h) ∈ gh.G ∧ (chainOf gh.G (dirHead v h)).head? = some (dirHead v h) :=
  chainOf_spec (lheads hC) (dirHead_mem hC hh hf)

/-- Different directory numbers have different first clusters. -/
theorem dirHead_inj (hC : CrashCore v d gh) {h h' : Nat} (hh : h ∈ dirIds gh.dirs) (hh' : h' ∈ dirIds gh.dirs)
    (hf : ¬ isFixedRoot v h) (hf' : ¬ isFixedRoot v h') (hne : h ≠ h') : dirHead v h ≠ dirHead v h' := by
  have hG := lheads hC
  unfold dirHead
  by_cases h0 : h = 0
  · by_cases h0' : h' = 0
    · exact absurd (h0.trans h0'.symm) hne
    · rw [if_pos h0, if_neg h0']
      rcases mem_dirIds.1 hh' with e | ⟨p, hp⟩
      · exact absurd e h0'
      · intro e
        exact root_not_dir hC.tree hG (root_mem_rootHead (fat32_of_not_fixed h0 hf))
          (e ▸ List.mem_map.2 ⟨(h', p), hp, rfl⟩)
  · by_cases h0' : h' = 0
    · rw [if_neg h0, if_pos h0']
      rcases mem_dirIds.1 hh with e | ⟨p, hp⟩
      · exact absurd e h0
      · intro e
        exact root_not_dir hC.tree hG (root_mem_rootHead (fat32_of_not_fixed h0' hf'))
          (e ▸ List.mem_map.2 ⟨(h, p), hp, rfl⟩)
    · rw [if_neg h0, if_neg h0']; exact hne

end

/-! ### F2: the directory slots -/

section
variable {v : FatVolume} {d : Disk} {gh : Ghost} {g : Geom} {fat : Array Nat}

/-- **F2.** The checker lists every directory of the tree, and sees the slots the invariant speaks of. -/
theorem dirSlotsT_ok (hC : CrashCore v d gh) (hg : GeomOf v g) (hfat : FatIs v d fat) (h1 : NoOne v d) {h : Nat}
    (hh : h ∈ dirIds gh.dirs) :
    Fs.dirSlotsT g d fat (refOf v h) = .ok (fsDirSlots v g d gh.G h, dirChain v gh.G h) ∧
      (fsDirSlots v g d gh.G h).map cv = dirSlots v d gh.G h := by
  unfold refOf fsDirSlots dirChain
  by_cases hf : isFixedRoot v h
  · rw [if_pos hf, if_pos hf, if_pos hf, dirSlots_fixed hf]
    exact ⟨rfl, cv_rootSlots hg _⟩
  · rw [if_neg hf, if_neg hf, if_neg hf, dirSlots_chain hf]
    obtain ⟨hm, hhd⟩ := dirChain_spec hC hh hf
    have hch := lchain hC hm
    rw [headD_of_head? hhd] at hch
    refine ⟨?_, cv_chainSlots hg hC.geom _ (fun c hc => linRange hC hm hc)⟩
    unfold Fs.dirSlotsT
    simp only [chainT_of_chain hg hC.geom hfat h1 hch]
    rfl

/-! ### F3: the FAT entries -/

/-- The entry of a data cluster is free, a link into the data area, an end mark or the bad mark. -/
theorem entry_class (hg : GeomOf v g) (hw : WFGeom v) (hF : FatEntriesOK v d) (h1 : NoOne v d) {c : Nat}
    (hc : InRange v c) :
    fatEntry v d c = 0 ∨ Fs.inRange g (fatEntry v d c) = true ∨ Fs.isEoc g (fatEntry v d c) = true ∨
      Fs.isBad g (fatEntry v d c) = true := by
  rcases hF c hc with hfree | hbad | heof | ⟨n, hn, hnr⟩
  · exact .inl hfree
  · exact .inr (.inr (.inr ((fsIsBad_iff hg _).2 hbad)))
  · exact .inr (.inr (.inl (isEoc_of_eof hg h1 hc heof)))
  · obtain ⟨e1, _⟩ := link_of_ok hg hw hnr hn
    rw [e1]
    exact .inr (.inl ((hg.inRange _).2 hnr))

/-- **F3.** The checker's FAT-entry clause holds. -/
theorem checkFatEntries_ok (hg : GeomOf v g) (hw : WFGeom v) (hF : FatEntriesOK v d) (hfat : FatIs v d fat)
    (h1 : NoOne v d) : Fs.checkFatEntries g fat = [] := by
  unfold Fs.checkFatEntries
  have : ((List.range g.clusters).filterMap fun i =>
      if fat.getD (i + 2) 0 = 0 ∨ Fs.inRange g (fat.getD (i + 2) 0) = true ∨ Fs.isEoc g (fat.getD (i + 2) 0) = true ∨
        Fs.isBad g (fat.getD (i + 2) 0) = true then none
      else some s!"F1-bad-fat-entry:{i + 2}:{fat.getD (i + 2) 0}") = [] := by
    rw [List.filterMap_eq_nil_iff]
    intro i hi
    have hir : InRange v (i + 2) := by
      have := List.mem_range.1 hi
      rw [hg.clusters] at this
      exact ⟨by omega, by unfold endCluster Gen.RESERVED_ENTRIES; omega⟩
    rw [hfat _ hir.2, if_pos (entry_class hg hw hF h1 hir)]
  exact (congrArg (List.take 3) this).trans rfl

/-! ### F4: the per-directory checks -/

/-- **F4.** The per-directory checks D2 (nothing after the end marker), D3 (unique names), D4 (dot entries) add no
problem for a directory of the tree: what remains of `dirPre` is the claim of the directory's chain. -/
theorem dirPre_eq (hC : CrashCore v d gh) (hg : GeomOf v g) {h : Nat} (hh : h ∈ dirIds gh.dirs)
    {ss : List Fs.Slot} (hss : ss.map cv = dirSlots v d gh.G h)
    {self parent : Nat} {path : String} (hself : h ≠ 0 → self = h) (hpar : h ≠ 0 → (h, parent) ∈ gh.dirs)
    (hpath : path = "/" ↔ h = 0) (cs : List Nat) (a : Acc) :
    dirPre g (refOf v h) self parent path ss cs a = Fs.claim { a with dirsVisited := a.dirsVisited + 1 } cs path := by
  have hT := hC.tree
  -- D2
  have hD2 : ((ss.dropWhile fun x => decide (Fs.firstByte x ≠ 0)).all fun x => decide (Fs.firstByte x = 0)) = true := by
    rw [List.all_eq_true]
    intro x hx
    have hx' : cv x ∈ (ss.map cv).dropWhile fun t => decide (first t ≠ 0) := by
      rw [← dropWhile_cv]; exact List.mem_map_of_mem hx
    rw [hss] at hx'
    exact decide_eq_true (hT.cleanTail h hh _ hx')
  -- D3
  have hD3 : ((Fs.objects ss).map Fs.nameOf).eraseDups.length = ((Fs.objects ss).map Fs.nameOf).length := by
    have hnd : ((Fs.objects ss).map Fs.nameOf).Nodup := by
      have e : (Fs.objects ss).map Fs.nameOf = ((Fs.objects ss).map cv).map sName := by
        rw [List.map_map]; rfl
      rw [e, objects_cv, hss]
      exact List.Nodup.sublist (List.Sublist.map sName List.filter_sublist) (hT.names h hh)
    rw [eraseDups_of_nodup _ hnd]
  unfold dirPre
  simp only [hD2, hD3, if_true]
  unfold refOf
  by_cases hf : isFixedRoot v h
  · rw [if_pos hf]
  · rw [if_neg hf]
    simp only
    by_cases hp : path = "/"
    · rw [if_pos hp]
    · rw [if_neg hp]
      have h0 : h ≠ 0 := fun e => hp (hpath.2 e)
      obtain ⟨s0, s1, rest, hsl, hd0, hd1⟩ := hT.dots h parent (hpar h0)
      have hl : (Fs.liveSlots ss).map cv = s0 :: s1 :: live rest := by
        rw [liveSlots_cv, hss, hsl, live_dots hd0 hd1]
      obtain ⟨x1, l1, e1, c1, hl1⟩ := List.map_eq_cons_iff.1 hl
      obtain ⟨x2, l2, e2, c2, _⟩ := List.map_eq_cons_iff.1 hl1
      rw [e1, e2]
      have n1 : Fs.nameOf x1 = Fs.dotName := by rw [nameOf_cv, c1, hd0.1]; rfl
      have n2 : Fs.nameOf x2 = Fs.dotDotName := by rw [nameOf_cv, c2, hd1.1]; rfl
      have d1 : Fs.isDirSlot x1 = true := by rw [isDir_cv, c1, hd0.2.1]
      have d2 : Fs.isDirSlot x2 = true := by rw [isDir_cv, c2, hd1.2.1]
      have k1 : Fs.clusterOf g x1 = self := by rw [clusterOf_cv hg, c1, hd0.2.2.2, hself h0]
      have k2 : Fs.clusterOf g x2 = parent := by rw [clusterOf_cv hg, c2, hd1.2.2.2]
      simp only [n1, n2, d1, d2, k1, k2, and_self, if_true]

end

end Sdmmc.Lemmas.VolCrash.Fsck
