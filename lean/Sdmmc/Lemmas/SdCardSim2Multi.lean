/-
Lemmas for C12, part 23 (end-to-end, continued): the multiple-block read — CMD18, the streamed
blocks, and CMD12 sent while the card is already sending the next block.
-/
import Sdmmc.Lemmas.SdCardSim2Read

namespace Sdmmc.Lemmas.SdCardSim2
open Sdmmc.Model Sdmmc.Spec.Card Sdmmc.Model.Sd Sdmmc.Lemmas.Sd Sdmmc.Gen Sdmmc.Lemmas.SdCardSim

/-! ### A CMD12 frame received while the card is sending data -/

theorem step_start_pop (c : Card) (hb : c.cmdBuf = []) (hp : c.phase = .ready) (b b' : UInt8) (rest : List UInt8)
    (ho : c.out = b :: b' :: rest) (x : UInt8) (hx : x.toNat / 64 = 1) (h12 : x.toNat % 64 = 12) :
    step c x = (setBuf (setOut c (b' :: rest)) [x], b) := by
  rcases c with ⟨kind, mem, csd, cap, ncr, nac, busy, initPolls, idle, spiMode, crcOn, appCmd, cmd8Seen,
    initLeft, initialised, out, busyLeft, cmdBuf, phase, streaming, preErase, violations, commands⟩
  simp only at hb hp ho
  subst hb hp ho
  cases streaming <;> simp [step, setBuf, setOut, hx, h12]

theorem step_mid_pop (c : Card) (y : UInt8) (ys : List UInt8) (hb : c.cmdBuf = y :: ys) (b b' : UInt8)
    (rest : List UInt8) (ho : c.out = b :: b' :: rest) (x : UInt8) (hl : (y :: ys ++ [x]).length ≠ 6) :
    step c x = (setBuf (setOut c (b' :: rest)) (y :: ys ++ [x]), b) := by
  rcases c with ⟨kind, mem, csd, cap, ncr, nac, busy, initPolls, idle, spiMode, crcOn, appCmd, cmd8Seen,
    initLeft, initialised, out, busyLeft, cmdBuf, phase, streaming, preErase, violations, commands⟩
  simp only at hb ho
  subst hb ho
  simp only [step, setBuf, setOut]
  simp at hl ⊢
  intro h; omega

theorem step_last_pop (c : Card) (y : UInt8) (ys : List UInt8) (hb : c.cmdBuf = y :: ys) (b b' : UInt8)
    (rest : List UInt8) (ho : c.out = b :: b' :: rest) (x : UInt8) (hl : (y :: ys ++ [x]).length = 6) :
    step c x = (frameDone (setBuf (setOut c (b' :: rest)) []) (y :: ys ++ [x]), b) := by
  rcases c with ⟨kind, mem, csd, cap, ncr, nac, busy, initPolls, idle, spiMode, crcOn, appCmd, cmd8Seen,
    initLeft, initialised, out, busyLeft, cmdBuf, phase, streaming, preErase, violations, commands⟩
  simp only at hb ho
  subst hb ho
  simp only [step, setBuf, setOut]
  simp at hl ⊢
  intro h; omega

@[simp] theorem setOut_setBuf (c : Card) (b o) : setOut (setBuf c b) o = setBuf (setOut c o) b := rfl
@[simp] theorem setOut_cmdBuf (c : Card) (o) : (setOut c o).cmdBuf = c.cmdBuf := rfl

/-- A whole STOP_TRANSMISSION frame received while at least seven bytes are still queued: the
card keeps sending, then executes the command. -/
theorem run_frame12_pop (c : Card) (hb : c.cmdBuf = []) (hp : c.phase = .ready)
    (b0 b1 b2 b3 b4 b5 b6 : UInt8) (post : List UInt8)
    (ho : c.out = b0 :: b1 :: b2 :: b3 :: b4 :: b5 :: b6 :: post) :
    run c (frame 12 0) = (execCommand (setOut c (b6 :: post)) 12 0, [b0, b1, b2, b3, b4, b5]) := by
  have hfd := frameDone_frame (setBuf (setOut c (b6 :: post)) []) 12 0 (by decide) (by decide)
  obtain ⟨_, h0, _⟩ := frame_layout 12 0 (by decide) (by decide)
  obtain ⟨x0, x1, x2, x3, x4, x5, hf⟩ := frame_six 12 0
  rw [hf] at hfd h0 ⊢
  have hx0 : x0.toNat / 64 = 1 ∧ x0.toNat % 64 = 12 := by
    simp at h0; rw [h0]; decide
  have hself : setBuf (setOut c (b6 :: post)) [] = setOut c (b6 :: post) := by
    show setBuf (setOut c (b6 :: post)) [] = setBuf (setOut c (b6 :: post)) c.cmdBuf
    rw [hb]
  simp only [run]
  rw [step_start_pop c hb hp b0 b1 _ ho x0 hx0.1 hx0.2]
  simp only []
  rw [step_mid_pop (setBuf (setOut c _) [x0]) x0 [] rfl b1 b2 _ rfl x1 (by simp)]
  simp only [setOut_setBuf, setOut_setOut, setBuf_setBuf, List.cons_append, List.nil_append]
  rw [step_mid_pop (setBuf (setOut c _) _) x0 [x1] rfl b2 b3 _ rfl x2 (by simp)]
  simp only [setOut_setBuf, setOut_setOut, setBuf_setBuf, List.cons_append, List.nil_append]
  rw [step_mid_pop (setBuf (setOut c _) _) x0 [x1, x2] rfl b3 b4 _ rfl x3 (by simp)]
  simp only [setOut_setBuf, setOut_setOut, setBuf_setBuf, List.cons_append, List.nil_append]
  rw [step_mid_pop (setBuf (setOut c _) _) x0 [x1, x2, x3] rfl b4 b5 _ rfl x4 (by simp)]
  simp only [setOut_setBuf, setOut_setOut, setBuf_setBuf, List.cons_append, List.nil_append]
  rw [step_last_pop (setBuf (setOut c _) _) x0 [x1, x2, x3, x4] rfl b5 b6 _ rfl x5 (by simp)]
  simp only [setOut_setBuf, setOut_setOut, setBuf_setBuf, List.cons_append, List.nil_append]
  rw [hfd, hself]

theorem seven_of_length {l : List UInt8} (h : 7 ≤ l.length) :
    ∃ b0 b1 b2 b3 b4 b5 b6 post, l = b0 :: b1 :: b2 :: b3 :: b4 :: b5 :: b6 :: post := by
  match l, h with
  | b0 :: b1 :: b2 :: b3 :: b4 :: b5 :: b6 :: post, _ => exact ⟨b0, b1, b2, b3, b4, b5, b6, post, rfl⟩

/-! ### The streamed blocks -/

/-- A card in the middle of a multiple-block read, about to send block `m` — or, at the end of
the card, with nothing more to send. -/
def streamAt (c0 : Card) (m : Nat) : Card :=
  if m < c0.capacity then { c0 with out := dataBlock c0 (getBlock c0 m), streaming := some (m + 1) }
  else { c0 with out := [], streaming := none }

theorem drain_streamAt (c0 : Card) (m : Nat) (hm : m < c0.capacity) :
    drain (streamAt c0 m) = streamAt c0 (m + 1) := by
  unfold streamAt
  rw [if_pos hm]
  unfold drain
  simp only
  by_cases h : m + 1 < c0.capacity
  · rw [if_pos h, if_pos h]; rfl
  · rw [if_neg h, if_neg h]

theorem Listening.streamAt {c0 : Card} (h : Listening c0) (m : Nat) : Listening (streamAt c0 m) := by
  unfold SdCardSim2.streamAt
  split <;> exact h

theorem readBlocks_card (c0 : Card) (hL : Listening c0) (hnac : c0.nac ≤ DEFAULT_READ_RETRIES) :
    ∀ (n m : Nat) (s : St Card), s.bus = streamAt c0 m → m + n ≤ c0.capacity →
    (∀ j, m ≤ j → j < m + n → (getBlock c0 j).length = 512) →
    ∃ s', readBlocks cardBus n s = (.ok ((List.range' m n).map (getBlock c0)), s') ∧
      StAt s (streamAt c0 (m + n)) s' := by
  intro n
  induction n with
  | zero =>
    intro m s hbus _ _
    exact ⟨s, rfl, hbus, rfl, rfl, rfl⟩
  | succ n ih =>
    intro m s hbus hcap hlen
    have hm : m < c0.capacity := by omega
    have hl := hlen m (Nat.le_refl _) (by omega)
    obtain ⟨s1, h1, a1⟩ := readData_card2 s (by rw [hbus]; exact hL.streamAt m) c0 (getBlock c0 m)
      (by intro h; rw [h] at hl; cases hl) hnac (by rw [hbus]; unfold streamAt; rw [if_pos hm])
    rw [hl] at h1
    rw [hbus, drain_streamAt c0 m hm] at a1
    obtain ⟨s2, h2, a2⟩ := ih (m + 1) s1 a1.1 (by omega) (fun j h1 h2 => hlen j (by omega) (by omega))
    refine ⟨s2, ?_, ?_⟩
    · rw [readBlocks, bind_ok h1, bind_ok h2, List.range'_succ]
      rfl
    · have := a1.trans a2
      rw [show m + 1 + n = m + (n + 1) by omega] at this
      exact this

/-! ### CMD12 -/

theorem xferEv_card (ev : Event) (s : St Card) (c' : Card) (ys : List UInt8)
    (h : run s.bus ev.bytes = (c', ys)) :
    ∃ s', xferEv cardBus ev s = (.ok ys, s') ∧ StAt s c' s' := by
  simp only [xferEv, cardBus, h]
  exact ⟨_, rfl, by simp [StAt]⟩

/-- `card_command(CMD12, 0)` closing a multiple-block read, whether the card is already sending
the next block or has reached its last block: R1b answered with 0 after the stuff byte, and the
card is left signalling busy. -/
theorem cardCommand12_card (c0 : Card) (hcb : c0.cmdBuf = []) (hp : c0.phase = .ready) (hid : c0.idle = false)
    (hz : c0.busyLeft = 0) (hncr : c0.ncr ≤ DEFAULT_COMMAND_RETRIES) (m : Nat)
    (hlen : m < c0.capacity → (getBlock c0 m).length = 512) (s : St Card) (hbus : s.bus = streamAt c0 m) :
    ∃ s', cardCommand cardBus CMD12 0 s = (.ok 0, s') ∧
      StAt s { c0 with commands := c0.commands + 1, appCmd := false, streaming := none,
                       busyLeft := c0.busy, out := [] } s' := by
  have hrun : ∃ ys, run s.bus (frame 12 0) =
      ({ c0 with commands := c0.commands + 1, appCmd := false, streaming := none, busyLeft := c0.busy,
                 out := 0xFF :: (List.replicate c0.ncr 0xFF ++ [0x00]) }, ys) := by
    rw [hbus]
    unfold streamAt
    by_cases hm : m < c0.capacity
    · rw [if_pos hm]
      obtain ⟨b0, b1, b2, b3, b4, b5, b6, post, hd⟩ :=
        seven_of_length (l := dataBlock c0 (getBlock c0 m)) (by rw [dataBlock_length, hlen hm]; omega)
      rw [hd]
      refine ⟨[b0, b1, b2, b3, b4, b5], ?_⟩
      rw [run_frame12_pop
        { c0 with out := b0 :: b1 :: b2 :: b3 :: b4 :: b5 :: b6 :: post, streaming := some (m + 1) }
        hcb hp b0 b1 b2 b3 b4 b5 b6 post rfl]
      rw [exec12 (setOut { c0 with out := b0 :: b1 :: b2 :: b3 :: b4 :: b5 :: b6 :: post,
                                   streaming := some (m + 1) } (b6 :: post)) hid]
      rfl
    · rw [if_neg hm]
      refine ⟨List.replicate 6 0xFF, ?_⟩
      rw [run_frame { c0 with out := [], streaming := none } hcb hp rfl hz 12 0 (by decide) (by decide)]
      rw [exec12 { c0 with out := [], streaming := none } hid]
  obtain ⟨ys, hrun⟩ := hrun
  obtain ⟨s1, h1, a1⟩ := xferEv_card (.cmd (frame CMD12 0)) s _ ys hrun
  have hL1 : Listening s1.bus := by rw [a1.1]; exact ⟨hcb, by rw [hp]; rfl⟩
  have h2 := readByte_pop s1 hL1 0xFF (List.replicate c0.ncr 0xFF ++ [0x00]) (by rw [a1.1])
  rw [popTo_ne_nil _ _ (by simp)] at h2
  obtain ⟨s3, h3, a3⟩ := waitResponse_card2 CMD12 DEFAULT_COMMAND_RETRIES c0.ncr
    { s1 with bus := setOut s1.bus (List.replicate c0.ncr 0xFF ++ [0x00]),
              events := .poll (0xFF : UInt8).toNat :: s1.events }
    (hL1.setOut _) 0x00 [] rfl (by decide) hncr
  refine ⟨s3, ?_, ?_⟩
  · unfold cardCommand
    dsimp only
    rw [if_neg (show ¬ (CMD12 ≠ CMD0 ∧ CMD12 ≠ CMD12) by decide)]
    rw [bind_ok h1, if_pos rfl, bind_ok h2]
    exact h3
  · refine ⟨?_, a3.2.1.trans a1.2.1, a3.2.2.1.trans a1.2.2.1, a3.2.2.2.trans a1.2.2.2⟩
    rw [a3.1]
    show drain _ = _
    rw [drain_setOut, a1.1]
    refine (drain_none _ rfl).trans rfl

/-! ### The multiple-block read -/

/-- `read(blocks, idx)` for `n ≠ 1` blocks, any card kind: CMD18, the `n` streamed blocks, CMD12.
The card is left signalling busy for its `busy` bytes (R1b): the driver does not wait for the end
of it here — the next command's `wait_not_busy` does. -/
theorem read_multi_card (s : St Card) (hS : Settled s.bus)
    (hbl : s.bus.busyLeft ≤ DEFAULT_COMMAND_RETRIES) (hncr : s.bus.ncr ≤ DEFAULT_COMMAND_RETRIES)
    (hnac : s.bus.nac ≤ DEFAULT_READ_RETRIES)
    (n idx start : Nat) (hn1 : n ≠ 1) (hstart : startIdx s.cardType idx = .ok start) (h32 : start < 4294967296)
    (hblk : blockOfArg s.bus start = some idx) (hidx : idx < s.bus.capacity) (hcap : idx + n ≤ s.bus.capacity)
    (hlen : ∀ j, idx ≤ j → j ≤ idx + n → j < s.bus.capacity → (getBlock s.bus j).length = 512) :
    ∃ s', Sd.read cardBus n idx s = (.ok ((List.range' idx n).map (getBlock s.bus)), s') ∧
      StAt s { s.bus with commands := s.bus.commands + 2, appCmd := false, streaming := none,
                          busyLeft := s.bus.busy, out := [] } s' := by
  obtain ⟨hi, hid, hcb, hp, hst, ho⟩ := hS
  have hL0 : Listening s.bus := ⟨hcb, by rw [hp]; rfl⟩
  obtain ⟨s1, h1, a1⟩ := cardCommand_card2 CMD18 start (by decide) (by decide) (by decide) h32 s hcb hp hst ho hbl
    _ (exec18 (setBusy s.bus 0) hi hst start idx hblk hidx) hL0 s.bus.ncr 0x00
    (dataBlock s.bus (getBlock s.bus idx)) rfl hncr (by decide)
  rw [popTo_ne_nil _ _ (dataBlock_ne_nil _ _)] at a1
  let c0 : Card := { s.bus with busyLeft := 0, commands := s.bus.commands + 1, appCmd := false }
  have hb1 : s1.bus = streamAt c0 idx := by
    rw [a1.1]; unfold streamAt; rw [if_pos (show idx < c0.capacity from hidx)]; rfl
  obtain ⟨s2, h2, a2⟩ := readBlocks_card c0 hL0 hnac n idx s1 hb1 hcap
    (fun j hj1 hj2 => hlen j hj1 (by omega) (by show j < s.bus.capacity; omega))
  obtain ⟨s3, h3, a3⟩ := cardCommand12_card c0 hcb hp hid rfl hncr (idx + n)
    (fun h => hlen (idx + n) (by omega) (by omega) h) s2 a2.1
  refine ⟨s3, ?_, ?_⟩
  · unfold Sd.read
    rw [bind_ok (get_apply s), hstart, bind_ok (show S.lift (SRes.ok start) s = (.ok start, s) from rfl)]
    simp only [if_neg hn1]
    rw [bind_ok h1]
    have hat : S.attempt (readBlocks cardBus n) s1 =
        (.ok (.ok ((List.range' idx n).map (getBlock s.bus))), s2) := by rw [attempt_apply, h2]; rfl
    rw [bind_ok hat]
    simp only
    have hat2 : S.attempt (cardCommand cardBus CMD12 0) s2 = (.ok (.ok 0), s3) := by rw [attempt_apply, h3]
    rw [bind_ok hat2]
    rfl
  · have h := (a1.trans a2).trans a3
    exact ⟨h.1, h.2.1, h.2.2.1, h.2.2.2⟩

end Sdmmc.Lemmas.SdCardSim2
