/-
THE EXCURSION: a size-keeping `open_file_in_dir` issued WITHOUT the side condition `NotDamagedOpen` (it may open a damaged closed
file), then `read` / seeks / observers on ANY handle, then `close_file` of the handle the open drew: `Mid` after the open and
after every call in between — the invariant with slack, or the hybrid invariant for that handle —, hence `FaultInv` and
`EntriesNotAhead`; the invariant with slack (`InvFE`) again after the close.  Any fault schedule.
-/
import Sdmmc.Lemmas.LooseOpen
import Sdmmc.Lemmas.FaultDSpec

namespace Sdmmc.Lemmas.VolD
open Sdmmc.Lemmas.FaultX
open Sdmmc.Lemmas.FaultHist Sdmmc.Lemmas.VolX
open Sdmmc.Model Sdmmc.Model.Fat Sdmmc.Spec.Volume
open Sdmmc.Spec hiding NoFault Coherent
open Sdmmc.Lemmas.VolApi Sdmmc.Lemmas.MHoare Sdmmc.Lemmas.FaultInv Sdmmc.Lemmas.Retry Sdmmc.Lemmas.VolMed Sdmmc.Lemmas.VolTree
open Sdmmc.Lemmas.Fault hiding resetLogs step_unlocked
open Sdmmc.Lemmas.Loose (fileRO)

variable {sk : Nat}

/-- Between the open and the close of its handle `h`: the invariant with slack, or the hybrid invariant for `h` with `h` in
the table; in both cases no entry of an open file is ahead of its record. -/
def Mid (sk : Nat) (gh : Ghost) (h : Nat) (t : Mgr) : Prop :=
  InvFE sk gh t ∨
  ∃ gh' X', VolInvH sk h X' t gh' ∧ SameGeom gh.vol gh'.vol ∧ h ∈ t.files.map (·.rawFile) ∧ RawAll t

/-- `Mid` gives the weak invariant. -/
theorem weak_of_mid {gh : Ghost} {h : Nat} {t : Mgr} (hm : Mid sk gh h t) :
    (∃ gh' X', Spec.Volume.FaultInv t gh' X' ∧ SameGeom gh.vol gh'.vol) ∧ RawAll t := by
  rcases hm with ⟨⟨gh', X', hI, hg⟩, hR⟩ | ⟨gh', X', hI, hg, _, hR⟩
  · exact ⟨⟨gh', X', faultInv_of_volInvX hI, hg⟩, hR⟩
  · exact ⟨⟨gh', X', faultInv_of_volInvH hI, hg⟩, hR⟩

/-- The open, from one ghost. -/
theorem step_open_out {s : Mgr} {gh1 : Ghost} {X1 : List (List Nat)} (hI1 : VolInvD sk X1 (mclr s) gh1) (hR : RawAll s)
    (d : Nat) (name : List Nat) (mode : Mode) (hmode : nonTruncating mode = true) (hc : FCovered s (.openFile d name mode))
    (hfresh : s.nextId ∉ s.files.map (·.rawFile)) :
    (InvF sk gh1 (step s (.openFile d name mode)).1 ∧ RawAll (step s (.openFile d name mode)).1) ∨
    ((step s (.openFile d name mode)).2.result = .ok (.handle s.nextId) ∧
      VolInvH sk s.nextId X1 (step s (.openFile d name mode)).1 gh1 ∧
      s.nextId ∈ (step s (.openFile d name mode)).1.files.map (·.rawFile) ∧ RawAll (step s (.openFile d name mode)).1) := by
  have hI' := volInv_resetLogs hI1
  have hT : ∀ g, g ∈ (step s (.openFile d name mode)).1.files → g.dirty = false ∨ ∃ f, f ∈ (mclr s).files ∧ Desc f g := by
    have e2 := MHoare.step_unlocked s (.openFile d name mode) hI1.unlocked
    rw [e2]
    exact runOp_tab _ (MHoare.resetLogs s)
  have hout := openFile_hybD hI' s.dev.faults d name mode hmode hc hfresh
  have hD := openFile_disk hI' (rawAllD_of hI' (rawAll_mclr hR)) s.dev.faults d name mode hmode hc
  have e1 := MHoare.step_unlocked (withFaults s.dev.faults (mclr s)) (.openFile d name mode) hI1.unlocked
  rw [resetLogs_withFaults, withFaults_mclr s] at e1
  have hrun : runOp (.openFile d name mode) (withFaults s.dev.faults (MHoare.resetLogs (mclr s))) =
      ((openFileInDir d name mode (withFaults s.dev.faults (MHoare.resetLogs (mclr s)))).1.bind fun x => .ok (Payload.handle x),
        (openFileInDir d name mode (withFaults s.dev.faults (MHoare.resetLogs (mclr s)))).2) :=
    AbsFs.run_map (openFileInDir d name mode) Payload.handle _
  have hst : (step s (.openFile d name mode)).1 = (openFileInDir d name mode (withFaults s.dev.faults (MHoare.resetLogs (mclr s)))).2 := by
    rw [e1, hrun]
  have hres : (step s (.openFile d name mode)).2.result =
      (openFileInDir d name mode (withFaults s.dev.faults (MHoare.resetLogs (mclr s)))).1.bind fun x => .ok (Payload.handle x) := by
    rw [e1, hrun]
  rw [← hst] at hD
  unfold OpenOut at hout
  rw [← hst] at hout
  rcases hout with hA | ⟨hr, hH, hmem, _, hRa⟩
  · exact .inl ⟨hA, rawAll_afterD hI1 hA hD hT⟩
  · refine .inr ⟨?_, hH, hmem, hRa (rawAll_mclr hR)⟩
    rw [hres, hr]; rfl

/-- **The open** (a mode that does not truncate; NO side condition; the id it draws is carried by no open file). -/
theorem step_open_mid {s : Mgr} {gh : Ghost} (hI : InvFE sk gh s) (d : Nat) (name : List Nat) (mode : Mode)
    (hmode : nonTruncating mode = true) (hc : FCovered s (.openFile d name mode))
    (hfresh : s.nextId ∉ s.files.map (·.rawFile)) :
    Mid sk gh s.nextId (step s (.openFile d name mode)).1 ∧
    ((step s (.openFile d name mode)).1.dev.failed ≠ s.dev.failed → ∃ e, (step s (.openFile d name mode)).2.result = .err e) ∧
    (¬ InvFE sk gh (step s (.openFile d name mode)).1 → (step s (.openFile d name mode)).2.result = .ok (.handle s.nextId)) := by
  obtain ⟨⟨gh1, X1, hI1, hg1⟩, hR⟩ := hI
  rcases step_open_out hI1 hR d name mode hmode hc hfresh with ⟨hA, hRa⟩ | ⟨hr, hH, hmem, hRa⟩
  · exact ⟨.inl ⟨hA.sameGeom hg1, hRa⟩, fun hq => Fault.step_reported s _ hq, fun hno => absurd ⟨hA.sameGeom hg1, hRa⟩ hno⟩
  · exact ⟨.inr ⟨gh1, X1, hH, hg1, hmem, hRa⟩, fun hq => Fault.step_reported s _ hq, fun _ => hr⟩

/-- **A file-read-only call** (any handle) keeps `Mid` and answers `Ok` or an error. -/
theorem step_fileRO_mid {s : Mgr} {gh : Ghost} {h : Nat} (hm : Mid sk gh h s) (op : Op) (hop : fileRO op = true) :
    Mid sk gh h (step s op).1 ∧ FaultInv.Clean (step s op).2.result := by
  rcases hm with hI | ⟨gh', X', hI, hg, hmem, hR⟩
  · have hc : FCovered s op := by cases op <;> first | trivial | cases hop
    have hn : NotDamagedOpen s op := by cases op <;> first | trivial | cases hop
    obtain ⟨_, h2⟩ := step_outD hI op hc hn
    refine ⟨?_, h2⟩
    -- a file-read-only call is of class C: `step_inv_C` keeps the slack
    have hfit : ∀ gh1 X1, VolInvD sk X1 (mclr s) gh1 → FitsOp gh1 (mclr s) op := fun _ _ _ => by
      cases op <;> first | trivial | cases hop
    exact .inl (step_inv_C hI op hc hfit (fun _ => by cases op <;> first | rfl | cases hop)).1
  · obtain ⟨h1, h2⟩ := step_fileRO_hyb hI op hop
    refine ⟨.inr ⟨gh', X', h2.inv, hg, by rw [h2.ids]; exact hmem, rawAll_hybOut h2 hR⟩, h1⟩

/-- Any sequence of file-read-only calls. -/
theorem run_fileRO_mid : ∀ (ops : List Op) {s : Mgr} {gh : Ghost} {h : Nat}, Mid sk gh h s →
    (∀ op, op ∈ ops → fileRO op = true) → ∀ k, Mid sk gh h (run s (ops.take k)).1 ∧
      ∀ o, o ∈ (run s (ops.take k)).2 → FaultInv.Clean o.result
  | [], s, gh, h, hm, _, k => by rw [List.take_nil]; exact ⟨hm, fun o ho => by cases ho⟩
  | op :: ops, s, gh, h, hm, hro, 0 => ⟨hm, fun o ho => by cases ho⟩
  | op :: ops, s, gh, h, hm, hro, k + 1 => by
    obtain ⟨h1, h2⟩ := step_fileRO_mid hm op (hro op List.mem_cons_self)
    obtain ⟨h3, h4⟩ := run_fileRO_mid ops h1 (fun o ho => hro o (List.mem_cons_of_mem _ ho)) k
    rw [List.take_succ_cons, WriteSetInv.run_cons]
    refine ⟨h3, fun o ho => ?_⟩
    rcases List.mem_cons.1 ho with rfl | ho
    · exact h2
    · exact h4 o ho

/-- **The close of the handle**: the invariant with slack again. -/
theorem step_close_mid {s : Mgr} {gh : Ghost} {h : Nat} (hm : Mid sk gh h s) :
    (∃ sk', sk ≤ sk' ∧ InvFE sk' gh (step s (.closeFile h)).1) ∧ FaultInv.Clean (step s (.closeFile h)).2.result := by
  rcases hm with hI | ⟨gh', X', hI, hg, hmem, hR⟩
  · exact step_outD hI (.closeFile h) trivial trivial
  · obtain ⟨h1, h2, h3, h4, h5, _⟩ := step_close_hyb hI hmem
    refine ⟨⟨sk, Nat.le_refl _, ⟨gh', X', h2, hg⟩, ?_⟩, by rw [h1]; exact clean_ok _⟩
    intro g hg' vi hvi
    have := hR g (h5 g hg') vi (by rw [← h4]; exact hvi)
    unfold VolX.RawBelow VolX.rawSlot at this ⊢
    rw [h3]; exact this

end Sdmmc.Lemmas.VolD
