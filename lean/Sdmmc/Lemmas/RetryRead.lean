/-
C11, the retry clause, part 2 — `read` under an arbitrary fault schedule.

* the cluster cursor only ever moves along the chain, whatever fails (`walk_on_chain`,
  `find_cursor_on_chain`, `readLoop_keeps`);
* `read_under_faults`: the call either hit no scheduled fault and then is the fault-free call
  (`read_refines`), or answers `DeviceError`, leaves medium, write log, volume table and every
  other file alone, restores the offset, keeps the file consistent and the cache coherent;
* `read_retry_correct`: the retried call returns the answer of the byte-array model.
-/
import Sdmmc.Lemmas.RetryAgree
import Sdmmc.Lemmas.WriteRefinesFrame

namespace Sdmmc.Lemmas.Retry
open Sdmmc.Model Sdmmc.Model.Fat Sdmmc.Spec Sdmmc.Lemmas.Fault
open Sdmmc.Lemmas.FBasic hiding cacheRead_cases cacheRead_ok_tag NoFault Coherent
open Sdmmc.Lemmas.FatOps hiding BlocksOK Mirror HintOK
open Sdmmc.Lemmas.ChainL Sdmmc.Lemmas.ReadRefines

/-! ### What a successful cache fill holds -/

theorem cacheRead_ok_blk (idx : Nat) (s : FS) (hc : Coherent s) (h : (cacheRead idx s).1 = .ok ()) :
    (cacheRead idx s).2.cache.blk = s.dev.disk.get idx := by
  have h1 := FBasic.cacheRead_coherent idx s hc idx (FBasic.cacheRead_ok_tag idx s h)
  rw [h1, cacheRead_disk]

/-- Under any fault schedule `next_cluster` of a data cluster either reads the FAT link off the
medium or fails with `DeviceError`; it is read-only. -/
theorem nextCluster_any (c : Nat) (s : FS) (hc : Coherent s) (hle : c ≤ U32_MAX / 4) :
    (nextCluster c s).1 = nextOf s.vol s.dev.disk c ∨ (nextCluster c s).1 = .err .DeviceError := by
  unfold nextCluster
  rw [if_neg (Nat.not_lt.mpr hle)]
  show ((F.getVol >>= fun v => cacheRead (fatBlock v c) >>= fun _ => cacheBlk >>= fun blk =>
    F.lift (decodeNext v.fatType (rawFatEntry v.fatType blk (fatEntOffset v c)))) s).1 = _ ∨ _
  rw [F.bind_ok (show F.getVol s = (.ok s.vol, s) from rfl)]
  rcases hcr : cacheRead (fatBlock s.vol c) s with ⟨r, s'⟩
  rcases cacheRead_result (fatBlock s.vol c) s with hr | hr
  · rw [hcr] at hr
    simp only at hr
    subst hr
    left
    rw [F.bind_ok hcr]
    have hblk := cacheRead_ok_blk (fatBlock s.vol c) s hc (by rw [hcr])
    rw [hcr] at hblk
    show decodeNext s.vol.fatType (rawFatEntry s.vol.fatType s'.cache.blk (fatEntOffset s.vol c)) = _
    rw [hblk]
    rfl
  · rw [hcr] at hr
    simp only at hr
    subst hr
    right
    rw [F.bind_err hcr]

instance : RelOK RO := ⟨RO.refl, RO.trans⟩
instance : ReadOK RO := { cacheRead := fun i s => ReadOnly.cacheRead i s }

/-! ### The cursor stays on the chain -/

/-- Whatever fails: the walk of `find_data_on_disk` from the `k`-th cluster of a chain ends on a
cluster of the chain, at the matching byte position. -/
theorem walk_on_chain {c : Nat} {cs : List Nat} (bpc : Nat) :
    ∀ (n k o x : Nat) (s : FS), Coherent s → WFGeom s.vol → Chain s.vol s.dev.disk c cs → cs[k]? = some x →
      ∃ j z r s', walkClusters bpc n (o, x) s = (.ok ((o + j * bpc, z), r), s') ∧ cs[k + j]? = some z ∧ RO s s' := by
  intro n
  induction n with
  | zero =>
    intro k o x s _ _ _ hx
    exact ⟨0, x, .ok (), s, by rw [Files.walk_zero, Nat.zero_mul, Nat.add_zero], by rw [Nat.add_zero]; exact hx, RO.refl s⟩
  | succ n ih =>
    intro k o x s hc hg hch hx
    have hk := (List.getElem?_eq_some_iff.1 hx).1
    have hxr := chain_inRange_get hch k x hx
    have hro : RO s (nextCluster x s).2 := nextCluster_readOnly x s
    have hany := nextCluster_any x s hc (inRange_le s.vol hg x hxr)
    rw [Files.walk_succ]
    rcases hnc : nextCluster x s with ⟨r1, s1⟩
    rw [hnc] at hro hany
    simp only at hany
    have hstop : ∀ (r : Res Unit), ∃ j z r' s', ((Res.ok ((o, x), r) : Res ((Nat × Nat) × Res Unit)), s1) =
        (.ok ((o + j * bpc, z), r'), s') ∧ cs[k + j]? = some z ∧ RO s s' :=
      fun r => ⟨0, x, r, s1, by rw [Nat.zero_mul, Nat.add_zero], by rw [Nat.add_zero]; exact hx, hro⟩
    cases r1 with
    | ok y =>
      simp only
      rcases hany with h | h
      · -- a true link
        by_cases hend : k + 1 = cs.length
        · rw [chain_next_last hch k x hx hend] at h; cases h
        · have hlt : k + 1 < cs.length := by omega
          have hz := chain_next hch k x cs[k + 1] hx (List.getElem?_eq_getElem hlt)
          rw [hz] at h
          cases h
          obtain ⟨j, z, r, s', hw, hz', hro'⟩ := ih (k + 1) (o + bpc) cs[k + 1] s1 (hro.coherent hc)
            (by rw [hro.vol]; exact hg) (by rw [hro.vol, hro.disk]; exact hch) (List.getElem?_eq_getElem hlt)
          refine ⟨j + 1, z, r, s', ?_, by rw [← hz']; congr 1; omega, hro.trans hro'⟩
          have e : o + bpc + j * bpc = o + (j * bpc + bpc) := by omega
          rw [hw, Nat.succ_mul, e]
      · cases h
    | err e => exact hstop _
    | panic m => exact hstop _
    | diverged => exact hstop _

/-- The cursor of a consistent file is on its chain; so is the cursor `find_data_on_disk` hands
back, whatever the outcome and whatever device call failed. -/
theorem find_cursor_on_chain (f : FileInfo) (cs : List Nat) (s : FS) (desired : Nat) (hc : Coherent s) (hg : WFGeom s.vol)
    (hch : Chain s.vol s.dev.disk f.entry.cluster cs)
    (hcur : ∃ k, k < cs.length ∧ f.curClusterOff = k * clusterBytesLen s.vol ∧ cs[k]? = some f.curCluster) :
    ∃ k z r s', findDataOnDisk f.entry.cluster desired (f.curClusterOff, f.curCluster) s = (.ok ((k * clusterBytesLen s.vol, z), r), s') ∧
      k < cs.length ∧ cs[k]? = some z ∧ RO s s' := by
  have hcb : 0 < clusterBytesLen s.vol := Nat.mul_pos hg.bpc_pos (by omega)
  obtain ⟨st', r, s', hw, heq, _⟩ := Files.find_data_eq f.entry.cluster desired (f.curClusterOff, f.curCluster) s
    (by rw [bpc_eq]; omega)
  obtain ⟨k0, hk0, hoff, hcurk⟩ := hcur
  rw [bpc_eq] at hw
  have hstart : ∃ k1 x1, Files.restart f.entry.cluster desired (f.curClusterOff, f.curCluster) =
      (k1 * clusterBytesLen s.vol, x1) ∧ cs[k1]? = some x1 := by
    unfold Files.restart
    split
    · exact ⟨0, f.entry.cluster, by rw [Nat.zero_mul], chain_get_zero hch⟩
    · exact ⟨k0, f.curCluster, by rw [hoff], hcurk⟩
  obtain ⟨k1, x1, hrs, hx1⟩ := hstart
  rw [hrs] at hw
  obtain ⟨j, z, r', s'', hw', hz, hro⟩ := walk_on_chain (clusterBytesLen s.vol) _ k1 (k1 * clusterBytesLen s.vol) x1 s
    hc hg hch hx1
  rw [hw'] at hw
  simp only [Prod.mk.injEq, Res.ok.injEq] at hw
  obtain ⟨⟨hst, hr⟩, hs⟩ := hw
  subst hst; subst hr; subst hs
  refine ⟨k1 + j, z, Files.located s.vol desired (k1 * clusterBytesLen s.vol + j * clusterBytesLen s.vol, z) r', s'', ?_,
    (List.getElem?_eq_some_iff.1 hz).1, hz, hro⟩
  rw [heq, Nat.add_mul]

/-! ### The loop of `read` under faults -/

/-- The standing hypothesis without the fault clause: coherent cache, 512-byte blocks, not inside a
directory callback. -/
def MgrOKF (s : Mgr) : Prop :=
  (∀ i, s.cache.tag = some i → s.cache.blk = s.dev.disk.get i) ∧ (∀ i, (s.dev.disk.get i).length = 512) ∧ s.locked = false

theorem mgrOK_mclr {s : Mgr} (h : MgrOKF s) : MgrOK (mclr s) := ⟨rfl, h.1, h.2.1, h.2.2⟩
theorem mgrOKF_of {s : Mgr} (h : MgrOK s) : MgrOKF s := ⟨h.2.1, h.2.2.1, h.2.2.2⟩

/-- What a read may change, when nothing is known about its outcome: device bookkeeping, cache,
and in slot `i` the offset and the cursor — which stays on the chain. -/
structure Keeps (v : FatVolume) (cs : List Nat) (i : Nat) (s s' : Mgr) (f f' : FileInfo) : Prop where
  step : Step s s' i f'
  same : SameFile f f'
  faults : s'.dev.faults = s.dev.faults
  coh : ∀ j, s'.cache.tag = some j → s'.cache.blk = s'.dev.disk.get j
  cursor : cs = [] ∨ ∃ k, k < cs.length ∧ f'.curClusterOff = k * clusterBytesLen v ∧ cs[k]? = some f'.curCluster

theorem withVol_ro' {α : Type} (vi : Nat) (m : F α) (hm : ReadOnly m) (s : Mgr) (v : VolInfo) (hv : s.vols[vi]? = some v) :
    withVol vi m s = ((m (fsOf s v)).1, { s with dev := (m (fsOf s v)).2.dev, cache := (m (fsOf s v)).2.cache }) :=
  withVol_ro vi m s v hv (hm _)

theorem walkClusters_readOnly (bpc : Nat) : ∀ (n : Nat) (st : Nat × Nat), ReadOnly (walkClusters bpc n st)
  | 0, _ => ReadOnly.pure _
  | n + 1, st => by
    unfold walkClusters
    refine ReadOnly.bind (ReadOnly.attempt (nextCluster_readOnly _)) fun r => ?_
    cases r with
    | ok c => exact walkClusters_readOnly bpc n _
    | err e => exact ReadOnly.pure _
    | panic m => exact ReadOnly.pure _
    | diverged => exact ReadOnly.pure _

theorem readBlock_readOnly (b : Nat) : ReadOnly (do cacheRead b; cacheBlk : F Block) :=
  ReadOnly.bind (ReadOnly.cacheRead b) fun _ => ReadOnly.cacheBlk

/-- Whatever fails and whatever the outcome, the loop of `read` changes only device bookkeeping,
the cache, and offset and cursor of its own file, and the cursor stays on the chain. -/
theorem readLoop_keeps (i vi so : Nat) (v : VolInfo) (cs : List Nat) (hg : WFGeom v.vol) :
    ∀ (fuel space : Nat) (acc : Bytes) (s : Mgr) (f : FileInfo), MgrOKF s → s.files[i]? = some f →
      s.vols[vi]? = some v → Chain v.vol s.dev.disk f.entry.cluster cs →
      (∃ k, k < cs.length ∧ f.curClusterOff = k * clusterBytesLen v.vol ∧ cs[k]? = some f.curCluster) →
      ∃ f', Keeps v.vol cs i s (readLoop i vi so fuel space acc s).2 f f' := by
  intro fuel
  induction fuel with
  | zero =>
    intro space acc s f hs hf _ _ hcur
    exact ⟨f, Step.refl s i f hf, SameFile.refl f, rfl, hs.1, .inr hcur⟩
  | succ fuel ih =>
    intro space acc s f hs hf hv hch hcur
    obtain ⟨hcoh, hblk, hunl⟩ := hs
    have hrefl : ∃ f', Keeps v.vol cs i s s f f' := ⟨f, Step.refl s i f hf, SameFile.refl f, rfl, hcoh, .inr hcur⟩
    rw [readLoop]
    rw [M.bind_ok (MHoare.getFile_ok hf)]
    by_cases hstop : space = 0 ∨ f.eof = true
    · rw [if_pos hstop]; exact hrefl
    · rw [if_neg hstop]
      -- locate
      obtain ⟨k, z, r, fs1, hfind, hk, hz, hro1⟩ := find_cursor_on_chain f cs (fsOf s v) f.currentOffset hcoh hg hch hcur
      have hfindM := withVol_ro vi (findDataOnDisk f.entry.cluster f.currentOffset (f.curClusterOff, f.curCluster)) s v hv
        (by rw [hfind]; exact hro1)
      rw [hfind] at hfindM
      rw [M.attempt_bind_apply, hfindM]
      simp only [WriteRefines.fsOf_vol] at hfind hk hz hfindM ⊢
      -- the state after the (read-only) locate
      have hcoh1 : ∀ j, fs1.cache.tag = some j → fs1.cache.blk = fs1.dev.disk.get j := hro1.coherent hcoh
      have hd1 : fs1.dev.disk = s.dev.disk := hro1.disk
      have hrestore : ∀ (o : Nat) (rr : Res Bytes) (sx : Mgr) (fx : FileInfo), Keeps v.vol cs i s sx f fx →
          ∃ f', Keeps v.vol cs i s ((modifyFile i (fun g => { g with currentOffset := o }) >>= fun _ => (M.lift rr : M Bytes)) sx).2 f f' := by
        intro o rr sx fx hkx
        have hfx : sx.files[i]? = some fx := hkx.step.get hf
        refine ⟨{ fx with currentOffset := o }, ?_, ⟨hkx.same.rawFile, hkx.same.rawVolume, hkx.same.mode, hkx.same.entry, hkx.same.dirty⟩,
          hkx.faults, hkx.coh, hkx.cursor⟩
        have : ((modifyFile i (fun g => { g with currentOffset := o }) >>= fun _ => (M.lift rr : M Bytes)) sx).2 =
            { sx with files := sx.files.set i { fx with currentOffset := o } } := by
          show ({ sx with files := sx.files.modify i _ } : Mgr) = _
          rw [WriteRefines.modify_eq_set _ _ _ _ hfx]
        rw [this]
        exact hkx.step.trans ⟨rfl, rfl, rfl⟩
      have hk1 : Keeps v.vol cs i s { s with dev := fs1.dev, cache := fs1.cache } f f :=
        ⟨⟨by rw [list_set_self _ _ _ hf], hd1, hro1.wlog⟩, SameFile.refl f, hro1.faults, hcoh1, .inr hcur⟩
      cases r with
      | ok x =>
        obtain ⟨blockIdx, blockOffset, blockAvail⟩ := x
        simp only
        -- the cursor is stored
        generalize hf1 : ({ f with curClusterOff := k * clusterBytesLen v.vol, curCluster := z } : FileInfo) = f1
        have hmod : modifyFile i (fun g => { g with curClusterOff := k * clusterBytesLen v.vol, curCluster := z })
            { s with dev := fs1.dev, cache := fs1.cache } =
            (.ok (), { s with dev := fs1.dev, cache := fs1.cache, files := s.files.set i f1 }) := by
          show (Res.ok (), ({ s with dev := fs1.dev, cache := fs1.cache, files := s.files.modify i _ } : Mgr)) = _
          rw [WriteRefines.modify_eq_set _ _ _ _ hf, hf1]
        rw [M.bind_ok hmod]
        generalize hs1 : ({ s with dev := fs1.dev, cache := fs1.cache, files := s.files.set i f1 } : Mgr) = s1
        have hv1 : s1.vols[vi]? = some v := by rw [← hs1]; exact hv
        have hilt : i < s.files.length := (List.getElem?_eq_some_iff.1 hf).1
        have hf1' : s1.files[i]? = some f1 := by rw [← hs1]; exact List.getElem?_set_self hilt
        have hcur1 : ∃ k, k < cs.length ∧ f1.curClusterOff = k * clusterBytesLen v.vol ∧ cs[k]? = some f1.curCluster := by
          rw [← hf1]; exact ⟨k, hk, rfl, hz⟩
        have hks1 : Keeps v.vol cs i s s1 f f1 := by
          rw [← hs1]
          exact ⟨⟨rfl, hd1, hro1.wlog⟩, by rw [← hf1]; exact ⟨rfl, rfl, rfl, rfl, rfl⟩, hro1.faults, hcoh1, .inr hcur1⟩
        -- the block is read
        have hro2 : RO (fsOf s1 v) ((do cacheRead blockIdx; cacheBlk : F Block) (fsOf s1 v)).2 := readBlock_readOnly blockIdx _
        have hreadM := withVol_ro vi (do cacheRead blockIdx; cacheBlk : F Block) s1 v hv1 hro2
        rw [M.attempt_bind_apply, hreadM]
        generalize hfs2 : (do cacheRead blockIdx; cacheBlk : F Block) (fsOf s1 v) = out at hro2
        obtain ⟨rb, fs2⟩ := out
        simp only at hro2 ⊢
        have hcoh2 : ∀ j, fs2.cache.tag = some j → fs2.cache.blk = fs2.dev.disk.get j :=
          hro2.coherent (by rw [← hs1]; exact hcoh1)
        have hd2 : fs2.dev.disk = s1.dev.disk := hro2.disk
        have hks2 : Keeps v.vol cs i s { s1 with dev := fs2.dev, cache := fs2.cache } f f1 :=
          ⟨hks1.step.trans ⟨by rw [list_set_self _ _ _ hf1'], hd2, hro2.wlog⟩, hks1.same,
            (show fs2.dev.faults = _ from hro2.faults).trans hks1.faults, hcoh2, .inr hcur1⟩
        cases rb with
        | ok blk =>
          simp only
          split
          · exact ⟨f1, hks2⟩
          · next htc =>
            generalize htdef : min (min blockAvail space) f.left = t
            generalize hf2 : ({ f1 with currentOffset := f1.currentOffset + t } : FileInfo) = f2
            have hmod2 : modifyFile i (fun g => { g with currentOffset := g.currentOffset + t })
                { s1 with dev := fs2.dev, cache := fs2.cache } =
                (.ok (), { s1 with dev := fs2.dev, cache := fs2.cache, files := s1.files.set i f2 }) := by
              show (Res.ok (), ({ s1 with dev := fs2.dev, cache := fs2.cache, files := s1.files.modify i _ } : Mgr)) = _
              rw [WriteRefines.modify_eq_set _ _ _ _ hf1', hf2]
            rw [M.bind_ok hmod2]
            generalize hs3 : ({ s1 with dev := fs2.dev, cache := fs2.cache, files := s1.files.set i f2 } : Mgr) = s3
            have hi1 : i < s1.files.length := (List.getElem?_eq_some_iff.1 hf1').1
            have hks3 : Keeps v.vol cs i s s3 f f2 := by
              rw [← hs3]
              refine ⟨hks1.step.trans ⟨rfl, hd2, hro2.wlog⟩, ?_, (show fs2.dev.faults = _ from hro2.faults).trans hks1.faults, hcoh2, ?_⟩
              · rw [← hf2]
                exact ⟨hks1.same.rawFile, hks1.same.rawVolume, hks1.same.mode, hks1.same.entry, hks1.same.dirty⟩
              · rw [← hf2]; exact .inr hcur1
            obtain ⟨f', hk'⟩ := ih (space - t) (acc ++ slice blk blockOffset t) s3 f2
              ⟨hks3.coh, by intro j; rw [hks3.step.disk]; exact hblk j, by rw [hks3.step.eq]; exact hunl⟩
              (by rw [← hs3]; exact List.getElem?_set_self hi1)
              (by rw [hks3.step.vols]; exact hv)
              (by rw [hks3.step.disk, hks3.same.entry]; exact hch)
              (by rw [← hf2]; exact hcur1)
            refine ⟨f', hks3.step.trans hk'.step, hks3.same.trans hk'.same, hk'.faults.trans hks3.faults, hk'.coh, hk'.cursor⟩
        | err e => exact hrestore so _ _ f1 hks2
        | panic m => exact hrestore so _ _ f1 hks2
        | diverged => exact hrestore so _ _ f1 hks2
      | err e => exact hrestore so _ _ f hk1
      | panic m => exact hrestore so _ _ f hk1
      | diverged => exact hrestore so _ _ f hk1

/-! ### A device failure during `read` surfaces as `DeviceError` -/

theorem MStrict.attempt_bind_inner {σ γ β} {m : M (σ × Res γ)} {k : Res (σ × Res γ) → M β}
    (hm : MInner m) (hk : ∀ r, MStrict (k r))
    (hdev : ∀ st s, (k (.ok (st, .err .DeviceError)) s).1 = .err .DeviceError) :
    MStrict (M.attempt m >>= k) := by
  intro s h
  rw [M.attempt_bind_apply] at h ⊢
  by_cases hfail : (m s).2.dev.failed = s.dev.failed
  · rw [← hfail] at h; exact hk _ _ h
  · obtain ⟨st, hst⟩ := hm s hfail
    rw [hst]; exact hdev st _

macro "mstrict_auto" : tactic => `(tactic| repeat (first | apply MStrict.attempt_bind_inner | mfault_step))

theorem readLoop_mstrict (fi vi start fuel space : Nat) (acc : Bytes) : MStrict (readLoop fi vi start fuel space acc) := by
  induction fuel generalizing space acc with
  | zero => unfold readLoop; mstrict_auto
  | succ n ih => unfold readLoop; mstrict_auto

theorem read_mstrict (h n : Nat) : MStrict (Model.read h n) := by
  have := readLoop_mstrict
  unfold Model.read; mstrict_auto

/-! ### `read` under an arbitrary fault schedule -/

theorem fileOK_of_cursor {v : FatVolume} {d : Disk} {f f1 : FileInfo} {cs : List Nat} (hok : FileOK v d f cs)
    (hsame : SameFile f f1) (hoff : f1.currentOffset ≤ f.entry.size)
    (hcur : cs = [] ∨ ∃ k, k < cs.length ∧ f1.curClusterOff = k * clusterBytesLen v ∧ cs[k]? = some f1.curCluster) :
    FileOK v d f1 cs :=
  ⟨by rw [hsame.entry]; exact hok.chain, by rw [hsame.entry]; exact hok.size_fits, by rw [hsame.entry]; exact hoff, hcur⟩

/-- **`read` under any fault schedule.**  The state `s` may have any fault schedule; otherwise the
hypotheses are those of `read_refines`.  Then, with `(r, s1) = read h n s`:

* in every case only device bookkeeping, cache and file slot `i` differ (`Step`: medium and write
  log are the same); the schedule is the same; the cache is coherent; in slot `i` only offset and
  cluster cursor may differ (`SameFile`);
* if no device call failed (`failed` did not grow), the call is the fault-free call: it answers
  what the byte-array model answers, the byte-array view afterwards is the model's;
* if a device call failed, the answer is `DeviceError` and the offset is where it was;
* in both cases the record is still consistent with the medium (the cursor is on the chain). -/
theorem read_under_faults (s : Mgr) (h n i vi : Nat) (f : FileInfo) (v : VolInfo) (cs : List Nat)
    (hs : MgrOKF s)
    (hh : s.files.findIdx? (·.rawFile = h) = some i) (hf : s.files[i]? = some f)
    (hv : s.vols.findIdx? (·.rawVolume = f.rawVolume) = some vi) (hvi : s.vols[vi]? = some v)
    (hg : WFGeom v.vol) (hok : FileOK v.vol s.dev.disk f cs) :
    ∃ f1, Step s (Model.read h n s).2 i f1 ∧ SameFile f f1 ∧ (Model.read h n s).2.dev.faults = s.dev.faults ∧
      MgrOKF (Model.read h n s).2 ∧ FileOK v.vol (Model.read h n s).2.dev.disk f1 cs ∧
      ((Model.read h n s).2.dev.failed = s.dev.failed →
        (Model.read h n s).1 = .ok ((absFile v.vol s.dev.disk f cs).read n).1 ∧
        absFile v.vol s.dev.disk f1 cs = ((absFile v.vol s.dev.disk f cs).read n).2) ∧
      ((Model.read h n s).2.dev.failed ≠ s.dev.failed →
        (Model.read h n s).1 = .err .DeviceError ∧ f1.currentOffset = f.currentOffset) := by
  have hrun := read_run s h n i vi f hh hf hv
  have hilt : i < s.files.length := (List.getElem?_eq_some_iff.1 hf).1
  -- the frame
  have hkeep : ∃ f1, Keeps v.vol cs i s (Model.read h n s).2 f f1 := by
    by_cases hnil : cs = []
    · have hsz : f.currentOffset = f.entry.size := by
        rcases hok.chain with ⟨_, _, h3⟩ | h3
        · have := hok.pos_le; omega
        · exact absurd hnil (chain_ne_nil h3)
      rw [read_at_eof s h n i vi f hh hf hv hsz]
      exact ⟨f, Step.refl s i f hf, SameFile.refl f, rfl, hs.1, .inl hnil⟩
    · have hch : Chain v.vol s.dev.disk f.entry.cluster cs := by
        rcases hok.chain with ⟨_, h2, _⟩ | h2
        · exact absurd h2 hnil
        · exact h2
      have hcur : ∃ k, k < cs.length ∧ f.curClusterOff = k * clusterBytesLen v.vol ∧ cs[k]? = some f.curCluster := by
        rcases hok.cursor with hc | hc
        · exact absurd hc hnil
        · exact hc
      rw [hrun]
      exact readLoop_keeps i vi f.currentOffset v cs hg (n + 1) n [] s f hs hf hvi hch hcur
  obtain ⟨f1, hk⟩ := hkeep
  have hf1 : (Model.read h n s).2.files[i]? = some f1 := hk.step.get hf
  have hok1 : f1.currentOffset ≤ f.entry.size → FileOK v.vol (Model.read h n s).2.dev.disk f1 cs := fun hle => by
    rw [hk.step.disk]; exact fileOK_of_cursor hok hk.same hle hk.cursor
  have hsF : MgrOKF (Model.read h n s).2 :=
    ⟨hk.coh, by intro j; rw [hk.step.disk]; exact hs.2.1 j, by rw [hk.step.eq]; exact hs.2.2⟩
  by_cases hq : (Model.read h n s).2.dev.failed = s.dev.failed
  · -- no fault was hit: the run is the fault-free run
    obtain ⟨e1, e2⟩ := (read_magree h n).run s hq
    obtain ⟨s', f', hread, hd, _, heq, hf', habs, hok', _⟩ :=
      read_refines (mclr s) h n i vi f v cs (mgrOK_mclr hs) hh hf hv hvi hg hok
    rw [hread] at e1 e2
    have hfe : f1 = f' := by
      have h1 : (mclr (Model.read h n s).2).files[i]? = some f1 := hf1
      rw [e2] at h1
      have h2 : s'.files[i]? = some f' := by rw [heq]; exact List.getElem?_set_self hilt
      rw [h2] at h1
      exact (Option.some.inj h1).symm
    subst hfe
    have hpos : f1.currentOffset ≤ f.entry.size := by
      have := hok'.pos_le
      rw [hf'] at this ⊢
      exact this
    refine ⟨f1, hk.step, hk.same, hk.faults, hsF, hok1 hpos, fun _ => ⟨e1, ?_⟩, fun hne => absurd hq hne⟩
    have : (mclr s).dev.disk = s.dev.disk := rfl
    rw [hd, this] at habs
    exact habs
  · -- a device call failed
    have herr := read_mstrict h n s hq
    have hoff : f1.currentOffset = f.currentOffset := by
      have := readLoop_errRestores i vi f.currentOffset (n + 1) n [] s .DeviceError (by rw [← hrun]; exact herr) f1
        (by rw [← hrun]; exact hf1)
      exact this
    exact ⟨f1, hk.step, hk.same, hk.faults, hsF, hok1 (by rw [hoff]; exact hok.pos_le), fun he => absurd he hq,
      fun _ => ⟨herr, hoff⟩⟩

/-- **The retry gives the correct answer.**  A `read` that failed on a device fault is issued again
from the state it left, with any fault schedule `L'` for the retry: if no device call of the retry
fails (in particular if `L' = []`, `read_retry_clean`), the retry answers exactly what the
byte-array model answers on the ORIGINAL state — the answer the fault-free first call would have
given — and leaves the model's view. -/
theorem read_retry_correct (s : Mgr) (h n i vi : Nat) (f : FileInfo) (v : VolInfo) (cs : List Nat)
    (hs : MgrOKF s)
    (hh : s.files.findIdx? (·.rawFile = h) = some i) (hf : s.files[i]? = some f)
    (hv : s.vols.findIdx? (·.rawVolume = f.rawVolume) = some vi) (hvi : s.vols[vi]? = some v)
    (hg : WFGeom v.vol) (hok : FileOK v.vol s.dev.disk f cs)
    (e : Err) (hfail : (Model.read h n s).1 = .err e) (L' : List Nat)
    (hquiet : (Model.read h n (msetFaults L' (Model.read h n s).2)).2.dev.failed = (Model.read h n s).2.dev.failed) :
    (Model.read h n (msetFaults L' (Model.read h n s).2)).1 = .ok ((absFile v.vol s.dev.disk f cs).read n).1 ∧
    (Model.read h n (msetFaults L' (Model.read h n s).2)).2.dev.disk = s.dev.disk := by
  obtain ⟨f1, hstep, hsame, _, hsF, hok1, hA, hB⟩ := read_under_faults s h n i vi f v cs hs hh hf hv hvi hg hok
  have hne : (Model.read h n s).2.dev.failed ≠ s.dev.failed := by
    intro heq
    rw [(hA heq).1] at hfail
    cases hfail
  obtain ⟨_, hoff⟩ := hB hne
  generalize hs1 : (Model.read h n s).2 = s1 at *
  have hilt : i < s.files.length := (List.getElem?_eq_some_iff.1 hf).1
  have hfiles : s1.files = s.files.set i f1 := hstep.files
  have hh1 : (msetFaults L' s1).files.findIdx? (·.rawFile = h) = some i := by
    show s1.files.findIdx? _ = _
    rw [hfiles, findIdx?_set_same _ s.files i f f1 hf (by simp only [hsame.rawFile])]; exact hh
  have hf1 : (msetFaults L' s1).files[i]? = some f1 := by
    show s1.files[i]? = _; rw [hfiles]; exact List.getElem?_set_self hilt
  have hv1 : (msetFaults L' s1).vols.findIdx? (·.rawVolume = f1.rawVolume) = some vi := by
    show s1.vols.findIdx? _ = _; rw [hstep.vols, hsame.rawVolume]; exact hv
  have hvi1 : (msetFaults L' s1).vols[vi]? = some v := by show s1.vols[vi]? = _; rw [hstep.vols]; exact hvi
  obtain ⟨f2, hstep2, _, _, _, _, hA2, _⟩ := read_under_faults (msetFaults L' s1) h n i vi f1 v cs hsF hh1 hf1 hv1 hvi1 hg hok1
  obtain ⟨hans, _⟩ := hA2 hquiet
  refine ⟨?_, ?_⟩
  · rw [hans]
    have hd : (msetFaults L' s1).dev.disk = s.dev.disk := hstep.disk
    rw [hd, absFile_read_fst, absFile_read_fst, hsame.entry, hoff]
  · rw [hstep2.disk]; exact hstep.disk

/-- The retry with the fault gone: no hypothesis on the retry is needed. -/
theorem read_retry_clean (s : Mgr) (h n i vi : Nat) (f : FileInfo) (v : VolInfo) (cs : List Nat)
    (hs : MgrOKF s)
    (hh : s.files.findIdx? (·.rawFile = h) = some i) (hf : s.files[i]? = some f)
    (hv : s.vols.findIdx? (·.rawVolume = f.rawVolume) = some vi) (hvi : s.vols[vi]? = some v)
    (hg : WFGeom v.vol) (hok : FileOK v.vol s.dev.disk f cs)
    (e : Err) (hfail : (Model.read h n s).1 = .err e) :
    (Model.read h n (mclr (Model.read h n s).2)).1 = .ok ((absFile v.vol s.dev.disk f cs).read n).1 ∧
    (Model.read h n (mclr (Model.read h n s).2)).2.dev.disk = s.dev.disk := by
  refine read_retry_correct s h n i vi f v cs hs hh hf hv hvi hg hok e hfail [] ?_
  exact readonly_quiet (.read h n) rfl (mclr (Model.read h n s).2) rfl |> fun hq => by
    have e1 : runOp (.read h n) (mclr (Model.read h n s).2) =
        (Model.read h n >>= fun b => pure (Payload.bytes b)) (mclr (Model.read h n s).2) := rfl
    rw [e1] at hq
    rcases hr : Model.read h n (mclr (Model.read h n s).2) with ⟨r, s2⟩
    rw [M.bind_apply, hr] at hq
    cases r <;> exact hq

end Sdmmc.Lemmas.Retry
