/-
C02 over abstract histories, part 7: the ghost through the six calls that change a slot or the file table
(`ginv_openFile`, `ginv_write`, `ginv_flush`, `ginv_closeFile`, `ginv_delete`, `ginv_mkdir`), the step theorem
`ginv_ev` and the history theorem `ginv_run`.
-/
import Sdmmc.Lemmas.AbsFsTimesGhost

namespace Sdmmc.Lemmas.AbsFsTimes
open Sdmmc.Model Sdmmc.Spec.AbsFs Sdmmc.Lemmas.AbsFsTouch
open Sdmmc.Spec (ByteFile)

section
variable {a a' : AbsFs} {x j : Nat} {g : SlotG} {r : Res Payload}

theorem nameFound_of_lookup {d : Nat} {name : List Nat} {od : OpenDir} {sfn : Bytes}
    (hctx : dirCtx a d name = .ok (od, sfn)) : nameFound a d name = (lookup (a.slots od.dir) sfn).isSome := by
  unfold nameFound; rw [hctx]

/-- Old records keep their place when the table only grows by a record that is not dirty. -/
theorem pending_append {rec : OpenFile} (hrec : rec.dirty = false) :
    ∀ f', f' ∈ a.files ++ [rec] → f'.dir = x → f'.idx = j → f'.dirty = true →
      ∃ f, f ∈ a.files ∧ f.dir = x ∧ f.idx = j ∧ f.dirty = true ∧ f.pm.mtime = f'.pm.mtime := by
  intro f' hf' h1 h2 h3
  rcases List.mem_append.1 hf' with hf' | hf'
  · exact ⟨f', hf', h1, h2, h3, rfl⟩
  · rw [List.mem_singleton] at hf'; subst hf'; rw [hrec] at h3; cases h3

/-! ### `open_file_in_dir` -/

theorem ginv_openFile (hA : AInv a) (hG : GInv a x j g) {d : Nat} {name : List Nat} {mode : Mode}
    (h : openFileS a d name mode a' r) : GInv a' x j (eff a x j (.call (.openFile d name mode) r) g) := by
  rcases openFileS_cases h with ⟨he0, hr⟩ | ⟨od, sfn, hctx, rfl, hcase⟩
  · rw [he0]
    have : eff a x j (.call (.openFile d name mode) r) g = g := by
      show (if nameSlot a d name = some (x, j) ∧ isOkHandle r = true then _ else g) = g
      rw [if_neg (fun hc => by rw [hr] at hc; cases hc.2)]
    rw [this]; exact hG
  obtain ⟨hod, hv⟩ := ctx_facts hA hctx
  have hfound := nameFound_of_lookup hctx
  rcases hcase with ⟨hlk, rfl⟩ | ⟨i, m, bytes, hlk, hsl, hno, hcase⟩
  · -- create
    have hns := nameSlot_fresh hctx hlk
    have hget := createdSt_get (a := a) od sfn
    have hfree : ∀ m b, (a.slots od.dir)[freeIdx (a.slots od.dir)]? ≠ some (.file m b) := freeIdx_not_file _
    have hnf : nameFound a d name = false := by rw [hfound, hlk]; rfl
    by_cases hxy : some (od.dir, freeIdx (a.slots od.dir)) = some (x, j)
    · have he : eff a x j (.call (.openFile d name mode) (.ok (.handle a.nextId))) g =
          ⟨some (fatRound a.clock, sfn, 0), some (a.clock, true)⟩ := by
        show (if nameSlot a d name = some (x, j) ∧ isOkHandle (.ok (.handle a.nextId)) = true then _ else g) = _
        rw [hns, if_pos ⟨hxy, rfl⟩, hnf]
        simp only [Bool.false_eq_true, if_false, hctx]
      rw [he]
      injection hxy with hxy
      injection hxy with e1 e2
      subst e1; subst e2
      have hslot : ((createdSt a od sfn).slots od.dir)[freeIdx (a.slots od.dir)]? =
          some (.file (storedMeta (newMeta sfn 0 a.clock)) []) := by rw [hget, if_pos rfl]
      refine ⟨?_, ?_, ?_⟩
      · intro t n at0 hb
        injection hb with hb
        injection hb with e1 hb
        injection hb with e2 e3
        subst e1; subst e2; subst e3
        exact ⟨_, _, hslot, storedMeta_ctime _, storedMeta_name _, .inl (storedMeta_attr _)⟩
      · intro t sy hm f' hf' h1 h2 h3
        exfalso
        rcases List.mem_append.1 hf' with hf' | hf'
        · exact slot_ne_of_file (hA.files f' hf') hfree (by rw [h1, h2])
        · rw [List.mem_singleton] at hf'; subst hf'; cases h3
      · intro t hm
        injection hm with hm
        injection hm with e1 _
        subst e1
        exact ⟨_, _, hslot, storedMeta_mtime _, storedMeta_size _⟩
    · have he : eff a x j (.call (.openFile d name mode) (.ok (.handle a.nextId))) g = g := by
        show (if nameSlot a d name = some (x, j) ∧ _ then _ else g) = g
        rw [hns, if_neg (fun hc => hxy hc.1)]
      rw [he]
      refine ginv_of_same hG ?_ (pending_append rfl)
      rw [hget, if_neg (fun e => hxy (by rw [e]))]
  · have hns := nameSlot_found hctx hlk
    have hno' := ainv_notOpenAt_of hA hv hno
    have hf : nameFound a d name = true := by rw [hfound, hlk]; rfl
    rcases hcase with ⟨ht, rfl⟩ | ⟨ht, rfl⟩
    · -- truncate
      have hget := truncatedSt_get (a := a) od i m (lt_of_getElem?_some hsl)
      by_cases hxy : some (od.dir, i) = some (x, j)
      · have he : eff a x j (.call (.openFile d name mode) (.ok (.handle a.nextId))) g =
            { g with modified := some (a.clock, true) } := by
          show (if nameSlot a d name = some (x, j) ∧ isOkHandle (.ok (.handle a.nextId)) = true then _ else g) = _
          rw [hns, if_pos ⟨hxy, rfl⟩, if_pos hf, if_pos ht]
        rw [he]
        injection hxy with hxy
        injection hxy with e1 e2
        subst e1; subst e2
        have hslot : ((truncatedSt a od i m).slots od.dir)[i]? =
            some (.file (storedMeta { m with size := 0, mtime := a.clock }) []) := by rw [hget, if_pos rfl]
        refine ⟨?_, ?_, ?_⟩
        · intro t n at0 hb
          obtain ⟨m1, b1, hs1, hc1, hn1, ha1⟩ := hG.born t n at0 hb
          rw [hsl] at hs1
          injection hs1 with hs1
          injection hs1 with em eb
          subst em
          refine ⟨_, _, hslot, ?_, by rw [storedMeta_name]; exact hn1, by rw [storedMeta_attr]; exact ha1⟩
          rw [storedMeta_ctime]
          show fatRound m.ctime = t
          rw [hA.rounded od.dir hod i m bytes hsl, hc1]
        · intro t sy hm f' hf' h1 h2 h3
          exfalso
          rcases List.mem_append.1 hf' with hf' | hf'
          · exact hno' f' hf' ⟨h1, h2⟩
          · rw [List.mem_singleton] at hf'; subst hf'; cases h3
        · intro t hm
          injection hm with hm
          injection hm with e1 _
          subst e1
          exact ⟨_, _, hslot, storedMeta_mtime _, storedMeta_size _⟩
      · have he : eff a x j (.call (.openFile d name mode) (.ok (.handle a.nextId))) g = g := by
          show (if nameSlot a d name = some (x, j) ∧ _ then _ else g) = g
          rw [hns, if_neg (fun hc => hxy hc.1)]
        rw [he]
        refine ginv_of_same hG ?_ (pending_append rfl)
        rw [hget, if_neg (fun e => hxy (by rw [e]))]
    · -- plain open
      have he : eff a x j (.call (.openFile d name mode) (.ok (.handle a.nextId))) g = g := by
        show (if nameSlot a d name = some (x, j) ∧ isOkHandle (.ok (.handle a.nextId)) = true then _ else g) = g
        by_cases hc : nameSlot a d name = some (x, j) ∧ isOkHandle (.ok (.handle a.nextId)) = true
        · rw [if_pos hc, if_pos hf, if_neg ht]
        · rw [if_neg hc]
      rw [he]
      exact ginv_of_same hG rfl (pending_append rfl)

/-! ### `write` -/

theorem writtenRec_mtime (a : AbsFs) (f : OpenFile) (nb : Bytes) (k : Nat) : (writtenRec a f nb k).pm.mtime = a.clock := rfl

theorem handleSlot_of {hd i : Nat} {f : OpenFile} (hf : fileOf a hd = some (i, f)) :
    handleSlot a hd = some (f.dir, f.idx) := by
  unfold handleSlot; rw [hf]; rfl

theorem ginv_write (hA : AInv a) (hG : GInv a x j g) {hd : Nat} {data : Bytes} (h : writeS a hd data a' r) :
    GInv a' x j (eff a x j (.call (.write hd data) r) g) := by
  rcases writeS_cases h with ⟨he0, hr⟩ | ⟨i, f, m, bytes, k, hf, _, hsl, _, hr, rfl⟩
  · rw [he0]
    have : eff a x j (.call (.write hd data) r) g = g := by
      show (if handleSlot a hd = some (x, j) ∧ isEffWrite r = true then _ else g) = g
      rw [if_neg (fun hc => by rw [hr] at hc; cases hc.2)]
    rw [this]; exact hG
  have hfi := (fileOf_some hf).2.1
  have hfm := (fileOf_some hf).2.2
  have hhs := handleSlot_of hf
  generalize hnb : ((⟨bytes, f.pos⟩ : ByteFile).write (data.take k)).bytes = nb
  have hget := writtenSt_get (a := a) i f m nb k hsl
  by_cases hxy : some (f.dir, f.idx) = some (x, j)
  · have he : eff a x j (.call (.write hd data) r) g = { g with modified := some (a.clock, false) } := by
      show (if handleSlot a hd = some (x, j) ∧ isEffWrite r = true then _ else g) = _
      rw [hhs, if_pos ⟨hxy, hr⟩]
    rw [he]
    injection hxy with hxy
    injection hxy with e1 e2
    subst e1; subst e2
    have hslot : ((writtenSt a i f m nb k).slots f.dir)[f.idx]? = some (.file m nb) := by rw [hget, if_pos rfl]
    refine ⟨?_, ?_, fun t hm => by cases hm⟩
    · intro t n at0 hb
      obtain ⟨m1, b1, hs1, hc1, hn1, ha1⟩ := hG.born t n at0 hb
      rw [hsl] at hs1
      injection hs1 with hs1
      injection hs1 with em eb
      subst em
      exact ⟨_, _, hslot, hc1, hn1, ha1⟩
    · intro t sy hm f' hf' h1 h2 h3
      injection hm with hm
      injection hm with e1 _
      subst e1
      rcases mem_set_cases (fun f => (f.dir, f.idx)) hA.distinct hfi hf' with rfl | ⟨_, hne⟩
      · exact writtenRec_mtime a f nb k
      · exact absurd (by show (f'.dir, f'.idx) = (f.dir, f.idx); rw [h1, h2]) hne
  · have he : eff a x j (.call (.write hd data) r) g = g := by
      show (if handleSlot a hd = some (x, j) ∧ _ then _ else g) = g
      rw [hhs, if_neg (fun hc => hxy hc.1)]
    rw [he]
    refine ginv_of_same hG (by rw [hget, if_neg (fun e => hxy (by rw [e]))]) ?_
    intro f' hf' h1 h2 h3
    rcases mem_set_cases (fun f => (f.dir, f.idx)) hA.distinct hfi hf' with rfl | ⟨hf'', _⟩
    · exact absurd (by show some ((writtenRec a f nb k).dir, (writtenRec a f nb k).idx) = some (x, j); rw [h1, h2]) hxy
    · exact ⟨f', hf'', h1, h2, h3, rfl⟩

/-! ### `flush_file`, `close_file` -/

/-- What the store does to the ghost, given the record that is stored. -/
theorem ginv_flushedSt (hA : AInv a) (hG : GInv a x j g) {f : OpenFile} {m : Meta} {bytes : Bytes} (hfm : f ∈ a.files)
    (hdirty : f.dirty = true) (hsl : (a.slots f.dir)[f.idx]? = some (.file m bytes)) :
    GInv (flushedSt a f bytes) x j
      (if some (f.dir, f.idx) = some (x, j) then { g with modified := g.modified.map fun p => (p.1, true) } else g) := by
  have hget := flushedSt_get (a := a) f bytes hsl
  obtain ⟨m0, b0, hs0, hn0, hc0, hz0, hat0, _⟩ := (hA.files f hfm).slot
  rw [hsl] at hs0
  injection hs0 with hs0
  injection hs0 with em eb
  subst em; subst eb
  by_cases hxy : some (f.dir, f.idx) = some (x, j)
  · rw [if_pos hxy]
    injection hxy with hxy
    injection hxy with e1 e2
    subst e1; subst e2
    have hslot : ((flushedSt a f bytes).slots f.dir)[f.idx]? = some (.file (storedMeta f.pm) bytes) := by
      rw [hget, if_pos rfl]
    refine ⟨?_, ?_, ?_⟩
    · intro t n at0 hb
      obtain ⟨m1, b1, hs1, hc1, hn1, ha1⟩ := hG.born t n at0 hb
      rw [hsl] at hs1
      injection hs1 with hs1
      injection hs1 with em eb
      subst em
      refine ⟨_, _, hslot, by rw [storedMeta_ctime, hc0, hc1], by rw [storedMeta_name, hn0, hn1], ?_⟩
      rw [storedMeta_attr]
      rcases hat0 with e | e <;> rcases ha1 with e' | e'
      · left; rw [e, e']
      · right; rw [e, e']
      · right; rw [e, e']
      · right; rw [e, e', setArchive_idem]
    · intro t sy hm f' hf' h1 h2 h3
      cases hgm : g.modified with
      | none => rw [hgm] at hm; cases hm
      | some p =>
        rw [hgm] at hm
        have hm' : (p.1, true) = (t, sy) := Option.some.inj hm
        have e1 : p.1 = t := congrArg Prod.fst hm'
        subst e1
        exact hG.pending p.1 p.2 (by rw [hgm]) f' hf' h1 h2 h3
    · intro t hm
      cases hgm : g.modified with
      | none => rw [hgm] at hm; cases hm
      | some p =>
        rw [hgm] at hm
        have hm' : (p.1, true) = (t, true) := Option.some.inj hm
        have e1 : p.1 = t := congrArg Prod.fst hm'
        subst e1
        refine ⟨_, _, hslot, ?_, by rw [storedMeta_size]; exact hz0⟩
        rw [storedMeta_mtime, hG.pending p.1 p.2 (by rw [hgm]) f hfm rfl rfl hdirty]
  · rw [if_neg hxy]
    exact ginv_of_same hG (by rw [hget, if_neg (fun e => hxy (by rw [e]))]) fun f' hf' h1 h2 h3 => ⟨f', hf', h1, h2, h3, rfl⟩

theorem eff_flush_eq (hd : Nat) (r : Res Payload) :
    eff a x j (.call (.flush hd) r) g =
      if handleSlot a hd = some (x, j) ∧ dirtyAt a hd = true ∧ isOkUnit r = true
      then { g with modified := g.modified.map fun p => (p.1, true) } else g := rfl

theorem eff_closeFile_eq (hd : Nat) (r : Res Payload) :
    eff a x j (.call (.closeFile hd) r) g =
      if handleSlot a hd = some (x, j) ∧ dirtyAt a hd = true ∧ isOkUnit r = true
      then { g with modified := g.modified.map fun p => (p.1, true) } else g := rfl

/-- The flush inside `flush_file` / `close_file`, with the ghost it leaves. -/
theorem ginv_flushF (hA : AInv a) (hG : GInv a x j g) (hd : Nat) :
    GInv (flushF a hd).1 x j
      (if handleSlot a hd = some (x, j) ∧ dirtyAt a hd = true ∧ isOkUnit (flushF a hd).2 = true
       then { g with modified := g.modified.map fun p => (p.1, true) } else g) := by
  rcases flushF_cases (a := a) hd with ⟨he, hnot⟩ | ⟨i, f, m, bytes, hf, hdirty, _, hsl, he⟩
  · rw [he, if_neg (fun hc => hnot hc.2)]; exact hG
  · have hda : dirtyAt a hd = true := by unfold dirtyAt; rw [hf]; exact hdirty
    rw [he, handleSlot_of hf]
    have := ginv_flushedSt hA hG (fileOf_some hf).2.2 hdirty hsl
    by_cases hxy : some (f.dir, f.idx) = some (x, j)
    · rw [if_pos hxy] at this; rw [if_pos ⟨hxy, hda, rfl⟩]; exact this
    · rw [if_neg hxy] at this; rw [if_neg (fun hc => hxy hc.1)]; exact this

theorem ginv_flush (hA : AInv a) (hG : GInv a x j g) {hd : Nat} (h : (a', r) = flushF a hd) :
    GInv a' x j (eff a x j (.call (.flush hd) r) g) := by
  have h1 : a' = (flushF a hd).1 := congrArg Prod.fst h
  have h2 : r = (flushF a hd).2 := congrArg Prod.snd h
  rw [eff_flush_eq, h1, h2]
  exact ginv_flushF hA hG hd

theorem ginv_closeFile (hA : AInv a) (hG : GInv a x j g) {hd : Nat} (h : closeFileS a hd a' r) :
    GInv a' x j (eff a x j (.call (.closeFile hd) r) g) := by
  unfold closeFileS at h
  cases hi : fileIdx a hd with
  | none =>
    rw [hi] at h
    obtain ⟨he0, rfl⟩ := h
    rw [he0]
    have : eff a x j (.call (.closeFile hd) (.err .BadHandle)) g = g := by
      rw [eff_closeFile_eq, if_neg (fun hc => by cases hc.2.2)]
    rw [this]; exact hG
  | some i =>
    rw [hi] at h
    dsimp only at h
    obtain ⟨rfl, rfl⟩ := h
    rw [eff_closeFile_eq]
    have hF := ginv_flushF hA hG hd
    generalize (if handleSlot a hd = some (x, j) ∧ dirtyAt a hd = true ∧ isOkUnit (flushF a hd).2 = true
       then ({ g with modified := g.modified.map fun p => (p.1, true) } : SlotG) else g) = g' at hF ⊢
    have hfiles : (flushF a hd).1.files = a.files := by
      rcases flushF_cases (a := a) hd with ⟨he, _⟩ | ⟨_, _, _, _, _, _, _, _, he⟩
      · rw [he]
      · rw [he]; rfl
    refine ginv_of_same hF rfl ?_
    intro f' hf' h1 h2 h3
    exact ⟨f', by rw [hfiles]; exact mem_swapRemove hf', h1, h2, h3, rfl⟩

/-! ### `delete_file_in_dir`, `make_dir_in_dir` -/

theorem ginv_delete (_hA : AInv a) (hG : GInv a x j g) {d : Nat} {name : List Nat} (h : deleteS a d name a' r) :
    GInv a' x j (eff a x j (.call (.delete d name) r) g) := by
  rcases deleteS_cases h with ⟨he0, hr⟩ | ⟨od, sfn, i, m, bytes, hctx, hlk, hsl, _, rfl, rfl⟩
  · rw [he0]
    have : eff a x j (.call (.delete d name) r) g = g := by
      show (if nameSlot a d name = some (x, j) ∧ isOkUnit r = true then _ else g) = g
      rw [if_neg (fun hc => by rw [hr] at hc; cases hc.2)]
    rw [this]; exact hG
  have hns := nameSlot_found hctx hlk
  have hget := deletedSt_get (a := a) od i (lt_of_getElem?_some hsl)
  by_cases hxy : some (od.dir, i) = some (x, j)
  · have : eff a x j (.call (.delete d name) (.ok .unit)) g = ⟨none, none⟩ := by
      show (if nameSlot a d name = some (x, j) ∧ isOkUnit (.ok .unit) = true then _ else g) = _
      rw [hns, if_pos ⟨hxy, rfl⟩]
    rw [this]; exact ginv_none
  · have : eff a x j (.call (.delete d name) (.ok .unit)) g = g := by
      show (if nameSlot a d name = some (x, j) ∧ _ then _ else g) = g
      rw [hns, if_neg (fun hc => hxy hc.1)]
    rw [this]
    exact ginv_of_same hG (by rw [hget, if_neg (fun e => hxy (by rw [e]))]) fun f' hf' h1 h2 h3 => ⟨f', hf', h1, h2, h3, rfl⟩

theorem ginv_mkdir (_hA : AInv a) (hx : x ∈ a.ids) (hG : GInv a x j g) {d : Nat} {name : List Nat}
    (h : mkdirS a d name a' r) : GInv a' x j (eff a x j (.call (.mkdir d name) r) g) := by
  rcases mkdirS_cases h with ⟨he0, hr⟩ | ⟨od, sfn, c, hctx, hlk, hc, rfl, rfl⟩
  · rw [he0]
    have : eff a x j (.call (.mkdir d name) r) g = g := by
      show (if nameSlot a d name = some (x, j) ∧ isOkUnit r = true then _ else g) = g
      rw [if_neg (fun hc => by rw [hr] at hc; cases hc.2)]
    rw [this]; exact hG
  have hns := nameSlot_fresh hctx hlk
  have hxc : x ≠ c := fun e => hc (e ▸ hx)
  by_cases hxy : some (od.dir, freeIdx (a.slots od.dir)) = some (x, j)
  · have : eff a x j (.call (.mkdir d name) (.ok .unit)) g = ⟨none, none⟩ := by
      show (if nameSlot a d name = some (x, j) ∧ isOkUnit (.ok .unit) = true then _ else g) = _
      rw [hns, if_pos ⟨hxy, rfl⟩]
    rw [this]; exact ginv_none
  · have : eff a x j (.call (.mkdir d name) (.ok .unit)) g = g := by
      show (if nameSlot a d name = some (x, j) ∧ _ then _ else g) = g
      rw [hns, if_neg (fun hc => hxy hc.1)]
    rw [this]
    refine ginv_of_same hG ?_ fun f' hf' h1 h2 h3 => ⟨f', hf', h1, h2, h3, rfl⟩
    rw [mkdirSt_get_old od sfn c hxc, if_neg (fun e => hxy (by rw [e]))]

end

/-! ### Every event, every history -/

theorem ids_mono_step {a a' : AbsFs} {op : Op} {r : Res Payload} (hl : a.locked = false) (h : absStep a op (a', r))
    {x : Nat} (hx : x ∈ a.ids) : x ∈ a'.ids := by
  by_cases ht : tablesOnly op = true
  · rw [(tables_shape hl ht h).2.1]; exact hx
  · unfold absStep at h
    rw [if_neg (by rw [hl]; exact Bool.false_ne_true)] at h
    cases op with
    | openFile d name mode =>
      rcases openFileS_cases (show openFileS a d name mode a' r from h) with ⟨rfl, _⟩ | ⟨od, sfn, _, _, hcase⟩
      · exact hx
      · rcases hcase with ⟨_, rfl⟩ | ⟨i, m, bytes, _, _, _, ⟨_, rfl⟩ | ⟨_, rfl⟩⟩ <;> exact hx
    | write f data =>
      rcases writeS_cases (show writeS a f data a' r from h) with ⟨rfl, _⟩ | ⟨i, rec, m, bytes, k, _, _, _, _, _, rfl⟩ <;> exact hx
    | flush f =>
      have h' : (a', r) = flushF a f := h
      have h1 : a' = (flushF a f).1 := congrArg Prod.fst h'
      rw [h1]
      rcases flushF_cases (a := a) f with ⟨he, _⟩ | ⟨_, _, _, _, _, _, _, _, he⟩ <;> rw [he] <;> exact hx
    | closeFile f =>
      have h : closeFileS a f a' r := h
      unfold closeFileS at h
      split at h
      · obtain ⟨rfl, _⟩ := h; exact hx
      · obtain ⟨rfl, _⟩ := h
        show x ∈ (flushF a f).1.ids
        rcases flushF_cases (a := a) f with ⟨he, _⟩ | ⟨_, _, _, _, _, _, _, _, he⟩ <;> rw [he] <;> exact hx
    | delete d name =>
      rcases deleteS_cases (show deleteS a d name a' r from h) with ⟨rfl, _⟩ | ⟨od, sfn, i, m, bytes, _, _, _, _, rfl, _⟩ <;> exact hx
    | mkdir d name =>
      rcases mkdirS_cases (show mkdirS a d name a' r from h) with ⟨rfl, _⟩ | ⟨od, sfn, c, _, _, _, rfl, _⟩
      · exact hx
      · exact List.mem_append_left _ hx
    | _ => exact absurd rfl ht

theorem ids_mono_ev {a a' : AbsFs} {ev : Ev} (hl : a.locked = false) (h : evStep a ev a') {x : Nat} (hx : x ∈ a.ids) :
    x ∈ a'.ids := by
  cases ev with
  | call op r => exact ids_mono_step hl h hx
  | tick t => have h' : a' = { a with clock := t } := h; rw [h']; exact hx

/-- **The ghost stays true through every event.** -/
theorem ginv_ev {a a' : AbsFs} {x j : Nat} {g : SlotG} {ev : Ev} (hA : AInv a) (hx : x ∈ a.ids) (hG : GInv a x j g)
    (h : evStep a ev a') : GInv a' x j (eff a x j ev g) := by
  cases ev with
  | tick t =>
    have h' : a' = { a with clock := t } := h
    rw [h']
    exact ginv_tables hG rfl rfl
  | call op r =>
    have h : absStep a op (a', r) := h
    by_cases ht : tablesOnly op = true
    · obtain ⟨h1, _, h3⟩ := tables_shape hA.unlocked ht h
      rw [eff_tablesOnly a x j r g ht]
      exact ginv_tables hG h1 h3
    · unfold absStep at h
      rw [if_neg (by rw [hA.unlocked]; exact Bool.false_ne_true)] at h
      cases op with
      | openFile d name mode => exact ginv_openFile hA hG (show openFileS a d name mode a' r from h)
      | write f data => exact ginv_write hA hG (show writeS a f data a' r from h)
      | flush f => exact ginv_flush hA hG (show (a', r) = flushF a f from h)
      | closeFile f => exact ginv_closeFile hA hG (show closeFileS a f a' r from h)
      | delete d name => exact ginv_delete hA hG (show deleteS a d name a' r from h)
      | mkdir d name => exact ginv_mkdir hA hx hG (show mkdirS a d name a' r from h)
      | _ => exact absurd rfl ht

/-- **… and through every history.** -/
theorem ginv_run {x j : Nat} : ∀ {es : List Ev} {a a' : AbsFs} {g g' : SlotG}, AInv a → x ∈ a.ids → GInv a x j g →
    ghostRun x j a g es a' g' → GInv a' x j g' ∧ AInv a' ∧ x ∈ a'.ids
  | [], _, _, _, _, hA, hx, hG, h => by
    obtain ⟨h1, h2⟩ := h
    rw [h1, h2]; exact ⟨hG, hA, hx⟩
  | _ :: _, _, _, _, _, hA, hx, hG, h => by
    obtain ⟨a1, h1, h2⟩ := h
    exact ginv_run (ainv_ev hA h1) (ids_mono_ev hA.unlocked h1 hx) (ginv_ev hA hx hG h1) h2

/-- The start ghost is true. -/
theorem ginv_ghost0 (a : AbsFs) (x j : Nat) : GInv a x j (ghost0 a x j) := by
  unfold ghost0
  cases hs : (a.slots x)[j]? with
  | none => exact ginv_none
  | some sl =>
    cases sl with
    | file m b =>
      refine ⟨?_, (fun _ _ h => by cases h), (fun _ h => by cases h)⟩
      intro t n at0 hb
      injection hb with hb
      injection hb with e1 hb
      injection hb with e2 e3
      subst e1; subst e2; subst e3
      exact ⟨m, b, hs, rfl, rfl, .inl rfl⟩
    | deleted => exact ginv_none
    | frag raw => exact ginv_none
    | dir m t => exact ginv_none

/-- Every history has its ghost. -/
theorem ghostRun_exists (x j : Nat) : ∀ {es : List Ev} {a a' : AbsFs} (g : SlotG), absRunClk a es a' →
    ∃ g', ghostRun x j a g es a' g'
  | [], _, _, g, h => ⟨g, h, rfl⟩
  | ev :: _, a, _, g, h => by
    obtain ⟨a1, h1, h2⟩ := h
    obtain ⟨g', hg'⟩ := ghostRun_exists x j (eff a x j ev g) h2
    exact ⟨g', a1, h1, hg'⟩

end Sdmmc.Lemmas.AbsFsTimes
