/-
C11, arbitrary fault placement — the vocabulary of `Spec/VolumeLost.lean` against the one the proofs use.
-/
import Sdmmc.Spec.VolumeLost
import Sdmmc.Lemmas.FaultXUse
import Sdmmc.Lemmas.FaultXRun

namespace Sdmmc.Lemmas.FaultX
open Sdmmc.Lemmas.FaultHist Sdmmc.Lemmas.VolX
open Sdmmc.Model Sdmmc.Model.Fat Sdmmc.Spec.Volume
open Sdmmc.Spec hiding NoFault Coherent
open Sdmmc.Lemmas.VolMed Sdmmc.Lemmas.Retry

theorem medLost_iff {v : FatVolume} {d : Disk} {files : List FileInfo} {gh : Ghost} {X : List (List Nat)} :
    MedLost v d files gh X ↔ MedX v d files gh X :=
  ⟨fun h => ⟨h.blocksOK, h.geom, h.hint, h.owns, h.tree, h.fileOK⟩, fun h => ⟨h.blocksOK, h.geom, h.hint, h.owns, h.tree, h.fileOK⟩⟩

theorem volInvL_iff {s : Mgr} {gh : Ghost} {X : List (List Nat)} : VolInvL s gh X ↔ VolInvX X (mclr s) gh :=
  ⟨fun h => ⟨rfl, h.coherent, h.unlocked, h.maxVols, h.vols, medLost_iff.1 h.med, h.fileVols, h.openDirs⟩,
   fun h => ⟨h.coherent, h.unlocked, h.maxVols, h.vols, medLost_iff.2 h.med, h.fileVols, h.openDirs⟩⟩

theorem entryNotAhead_iff {s : Mgr} {file : Nat} : EntryNotAhead s file ↔ RawBelowAt s file := Iff.rfl

theorem invF_iff {s : Mgr} {gh : Ghost} : InvF gh s ↔ ∃ gh' X', VolInvL s gh' X' ∧ SameGeom gh.vol gh'.vol :=
  ⟨fun ⟨gh', X', h1, h2⟩ => ⟨gh', X', volInvL_iff.2 h1, h2⟩, fun ⟨gh', X', h1, h2⟩ => ⟨gh', X', volInvL_iff.1 h1, h2⟩⟩

theorem volInvL_nil {s : Mgr} {gh : Ghost} : VolInvL s gh [] ↔ VolInvF s gh := by
  rw [volInvL_iff]
  exact volInvX_nil

end Sdmmc.Lemmas.FaultX
