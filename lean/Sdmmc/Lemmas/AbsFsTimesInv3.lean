/-
C02 over abstract histories, part 5: `AInv` after `make_dir_in_dir` (`ainv_mkdirSt`), and the theorem:
every event keeps `AInv` (`ainv_step`, `ainv_tick`), hence every history does (`ainv_run`).
-/
import Sdmmc.Lemmas.AbsFsTimesInv2

namespace Sdmmc.Lemmas.AbsFsTimes
open Sdmmc.Model Sdmmc.Spec.AbsFs Sdmmc.Lemmas.AbsFsTouch
open Sdmmc.Spec (ByteFile)

section
variable {a : AbsFs}

/-! ### `make_dir_in_dir` -/

theorem mkdirSt_get_old (od : OpenDir) (sfn : Bytes) (c : Nat) {x : Nat} (hx : x ≠ c) (j : Nat) :
    ((mkdirSt a od sfn c).slots x)[j]? =
      if (x, j) = (od.dir, freeIdx (a.slots od.dir)) then some (.dir (mkdirMeta a sfn) c) else (a.slots x)[j]? := by
  show ((if x = c then _ else (setSlot a od.dir (freeIdx (a.slots od.dir)) (.dir (mkdirMeta a sfn) c)).slots x))[j]? = _
  rw [if_neg hx]
  exact setSlot_get a _ _ _ (freeIdx_le _) x j

theorem mkdirSt_new (od : OpenDir) (sfn : Bytes) (c : Nat) :
    (mkdirSt a od sfn c).slots c =
      [.dir { mkdirMeta a sfn with name := Sfn.thisDir } c, .dir { mkdirMeta a sfn with name := Sfn.parentDir } od.dir] := by
  show (if c = c then _ else _) = _
  rw [if_pos rfl]

theorem ainv_mkdirSt (hA : AInv a) {od : OpenDir} {sfn : Bytes} {c : Nat} (hod : od.dir ∈ a.ids) (hc : c ∉ a.ids) :
    AInv (mkdirSt a od sfn c) := by
  have hids : (mkdirSt a od sfn c).ids = a.ids ++ [c] := rfl
  have hne : ∀ x, x ∈ a.ids → x ≠ c := fun x hx e => hc (e ▸ hx)
  have hfree : ∀ m b, (a.slots od.dir)[freeIdx (a.slots od.dir)]? ≠ some (.file m b) := freeIdx_not_file _
  have hold : ∀ x, x ∈ a.ids → ∀ (j : Nat) (m : Meta) (b : Bytes), ((mkdirSt a od sfn c).slots x)[j]? = some (Slot.file m b) →
      (a.slots x)[j]? = some (Slot.file m b) := by
    intro x hx j m b hsl
    rw [mkdirSt_get_old od sfn c (hne x hx)] at hsl
    by_cases he : (x, j) = (od.dir, freeIdx (a.slots od.dir))
    · rw [if_pos he] at hsl; cases hsl
    · rw [if_neg he] at hsl; exact hsl
  have hnewfile : ∀ (j : Nat) (m : Meta) (b : Bytes), ((mkdirSt a od sfn c).slots c)[j]? ≠ some (Slot.file m b) := by
    intro j m b hsl
    rw [mkdirSt_new] at hsl
    match j, hsl with
    | 0, hsl => cases hsl
    | 1, hsl => cases hsl
    | (j + 2), hsl => cases hsl
  refine ⟨hA.unlocked, hA.oneVol, ?_, ?_, ?_, ?_, hA.distinct, ?_, ?_⟩
  · rw [hids]; exact List.mem_append_left _ hA.root
  · intro d hd; rw [hids]; exact List.mem_append_left _ (hA.dirs d hd)
  · intro x hx j m t hsl
    rw [hids] at hx ⊢
    rcases List.mem_append.1 hx with hx | hx
    · rw [mkdirSt_get_old od sfn c (hne x hx)] at hsl
      by_cases he : (x, j) = (od.dir, freeIdx (a.slots od.dir))
      · rw [if_pos he] at hsl
        injection hsl with hsl
        injection hsl with _ ht
        rw [← ht]; simp
      · rw [if_neg he] at hsl
        exact List.mem_append_left _ (hA.targets x hx j m t hsl)
    · rw [List.mem_singleton] at hx
      subst hx
      rw [mkdirSt_new] at hsl
      match j, hsl with
      | 0, hsl =>
        injection hsl with hsl
        injection hsl with _ ht
        rw [← ht]; simp
      | 1, hsl =>
        injection hsl with hsl
        injection hsl with _ ht
        rw [← ht]; exact List.mem_append_left _ hod
      | (j + 2), hsl => cases hsl
  · intro f hf
    have hF := hA.files f hf
    refine fileAt_of_key hF rfl hF.volume (by rw [hids]; exact List.mem_append_left _ hF.dir) ?_
    rw [mkdirSt_get_old od sfn c (hne f.dir hF.dir), if_neg (slot_ne_of_file hF hfree)]
  · intro x hx j m b hsl
    rw [hids] at hx
    rcases List.mem_append.1 hx with hx | hx
    · exact hA.rounded x hx j m b (hold x hx j m b hsl)
    · rw [List.mem_singleton] at hx; subst hx; exact absurd hsl (hnewfile j m b)
  · intro x hx j m b hsl hno
    rw [hids] at hx
    rcases List.mem_append.1 hx with hx | hx
    · exact hA.sizes x hx j m b (hold x hx j m b hsl) hno
    · rw [List.mem_singleton] at hx; subst hx; exact absurd hsl (hnewfile j m b)

/-! ### Tables-only calls -/

theorem mem_swapRemove {α : Type} {l : List α} {i : Nat} {x : α} (h : x ∈ swapRemove l i) : x ∈ l := by
  have := Tables.SubP.mem (Tables.swapRemove_map_subP l id i) (by simpa using h)
  simpa using this

theorem volOpen_append {a' : AbsFs} {p : Nat × Nat} (h : a'.vols = a.vols ++ [p]) {v : Nat} (hv : volOpen a v = true) :
    volOpen a' v = true := by
  unfold volOpen at hv ⊢
  rw [h, List.any_append, hv]; rfl

theorem ainv_gen_dirs (hA : AInv a) (od : OpenDir) (hod : od.dir ∈ a.ids) : AInv { gen a with dirs := a.dirs ++ [od] } := by
  refine ainv_tables hA rfl rfl rfl hA.oneVol ?_ rfl fun f hf => (hA.files f hf).volume
  intro d hd
  rcases List.mem_append.1 hd with hd | hd
  · exact hA.dirs d hd
  · rw [List.mem_singleton] at hd; subst hd; exact hod

theorem ainv_gen (hA : AInv a) : AInv (gen a) :=
  ainv_tables hA rfl rfl rfl hA.oneVol hA.dirs rfl fun f hf => (hA.files f hf).volume

theorem ainv_openRootF (hA : AInv a) (v : Nat) : AInv (openRootF a v).1 := by
  unfold openRootF
  split
  · exact ainv_gen hA
  · exact ainv_gen_dirs hA _ hA.root

theorem ainv_closeDirF (hA : AInv a) (d : Nat) : AInv (closeDirF a d).1 := by
  unfold closeDirF
  split
  · exact ainv_tables hA rfl rfl rfl hA.oneVol (fun d hd => hA.dirs d (mem_swapRemove hd)) rfl
      fun f hf => (hA.files f hf).volume
  · exact hA

/-- A record's position changes. -/
theorem ainv_setPos (hA : AInv a) {i : Nat} {f : OpenFile} (hfi : a.files[i]? = some f) (p : Nat) :
    AInv { a with files := a.files.set i { f with pos := p } } :=
  ainv_tables hA rfl rfl rfl hA.oneVol hA.dirs
    (Sdmmc.Lemmas.MHoare.map_set_of_eq a.files fkeyA i f _ hfi rfl) fun f hf => (hA.files f hf).volume

end

/-! ### Every call -/

theorem ainv_step {a a' : AbsFs} {op : Op} {r : Res Payload} (hA : AInv a) (h : absStep a op (a', r)) : AInv a' := by
  unfold absStep at h
  rw [if_neg (by rw [hA.unlocked]; exact Bool.false_ne_true)] at h
  cases op with
  | openVolume idx =>
    have h : openVolumeS a idx a' r := h
    unfold openVolumeS at h
    split at h
    · obtain ⟨rfl, _⟩ := h; exact hA
    · next hlen =>
      rcases h with ⟨rfl, _⟩ | ⟨rfl, _⟩
      · exact hA
      · have hv0 : a.vols = [] := by
          cases hvs : a.vols with
          | nil => rfl
          | cons p t => rw [hvs] at hlen; simp at hlen
        refine ainv_tables hA rfl rfl rfl ?_ hA.dirs rfl fun f hf => volOpen_append (a := a) rfl (hA.files f hf).volume
        show (a.vols ++ [_]).length ≤ 1
        rw [hv0]; simp
  | closeVolume v =>
    have h : closeVolumeS a v a' r := h
    unfold closeVolumeS at h
    split at h
    · obtain ⟨rfl, _⟩ := h; exact hA
    · next hnf =>
      split at h
      · obtain ⟨rfl, _⟩ := h; exact hA
      · split at h
        · obtain ⟨rfl, _⟩ := h; exact hA
        · next i hi =>
          obtain ⟨rfl, _⟩ := h
          -- the volume being closed is the one every open file belongs to: there is none
          have hvo : volOpen a v = true := by
            unfold volOpen
            obtain ⟨hlt, hp, _⟩ := List.findIdx?_eq_some_iff_getElem.1 hi
            exact List.any_eq_true.2 ⟨a.vols[i], List.getElem_mem hlt, hp⟩
          have hnone : a.files = [] := by
            cases hfs : a.files with
            | nil => rfl
            | cons f t =>
              exfalso
              have hf : f ∈ a.files := by rw [hfs]; exact List.mem_cons_self
              have := ainv_sameVol hA hvo hf
              apply hnf
              exact List.any_eq_true.2 ⟨f, hf, by simpa using this⟩
          refine ainv_tables hA rfl rfl rfl ?_ hA.dirs rfl ?_
          · exact Nat.le_trans (Tables.swapRemove_length_le a.vols i) hA.oneVol
          · intro f hf; rw [hnone] at hf; cases hf
  | openRoot v =>
    have h' : (a', r) = openRootF a v := h
    have h1 : a' = (openRootF a v).1 := congrArg Prod.fst h'
    rw [h1]
    exact ainv_openRootF hA v
  | closeDir d =>
    have h' : (a', r) = closeDirF a d := h
    have h1 : a' = (closeDirF a d).1 := congrArg Prod.fst h'
    rw [h1]
    exact ainv_closeDirF hA d
  | openDir d name =>
    have h : openDirS a d name a' r := h
    unfold openDirS at h
    split at h
    · obtain ⟨rfl, _⟩ := h; exact hA
    cases hctx : dirCtx a d name with
    | error e => rw [hctx] at h; obtain ⟨rfl, _⟩ := h; exact hA
    | ok p =>
      obtain ⟨od, sfn⟩ := p
      rw [hctx] at h
      dsimp only at h
      obtain ⟨hod, _⟩ := ctx_facts hA hctx
      split at h
      · obtain ⟨rfl, _⟩ := h
        exact ainv_gen_dirs hA _ hod
      · split at h
        · obtain ⟨rfl, _⟩ := h; exact hA
        · split at h
          · next m t hsl =>
            obtain ⟨rfl, _⟩ := h
            exact ainv_gen_dirs hA _ (hA.targets od.dir hod _ m t hsl)
          · obtain ⟨rfl, _⟩ := h; exact hA
  | find d name => obtain ⟨rfl, _⟩ := (show findS a d name a' r from h); exact hA
  | list d => obtain ⟨rfl, _⟩ := (show listS a d a' r from h); exact hA
  | listLfn d n => obtain ⟨rfl, _⟩ := (show listLfnS a d a' r from h); exact hA
  | openFile d name mode =>
    rcases openFileS_cases (show openFileS a d name mode a' r from h) with ⟨rfl, _⟩ | ⟨od, sfn, hctx, _, hcase⟩
    · exact hA
    · obtain ⟨hod, hv⟩ := ctx_facts hA hctx
      rcases hcase with ⟨_, rfl⟩ | ⟨i, m, bytes, _, hsl, hno, hcase⟩
      · exact ainv_createdSt hA hod hv
      · have hno' := ainv_notOpenAt_of hA hv hno
        rcases hcase with ⟨_, rfl⟩ | ⟨_, rfl⟩
        · exact ainv_truncatedSt hA hod hv hsl hno'
        · exact ainv_openedSt hA mode hod hv hsl hno'
  | read f n =>
    have h : readS a f n a' r := h
    unfold readS at h
    cases hf : fileOf a f with
    | none => rw [hf] at h; obtain ⟨rfl, _⟩ := h; exact hA
    | some p =>
      obtain ⟨i, rec⟩ := p
      rw [hf] at h
      dsimp only at h
      split at h
      · obtain ⟨rfl, _⟩ := h; exact hA
      · obtain ⟨m, bytes, _, _, rfl⟩ := h
        exact ainv_setPos hA (fileOf_some hf).2.1 _
  | write f data =>
    rcases writeS_cases (show writeS a f data a' r from h) with ⟨rfl, _⟩ | ⟨i, rec, m, bytes, k, hf, _, hsl, _, _, rfl⟩
    · exact hA
    · exact ainv_writtenSt hA _ k (fileOf_some hf).2.1 hsl
  | seekStart f n =>
    have h : seekStartS a f n a' r := h
    unfold seekStartS at h
    cases hf : fileOf a f with
    | none => rw [hf] at h; obtain ⟨rfl, _⟩ := h; exact hA
    | some p =>
      obtain ⟨i, rec⟩ := p
      rw [hf] at h
      dsimp only at h
      split at h
      · obtain ⟨rfl, _⟩ := h; exact ainv_setPos hA (fileOf_some hf).2.1 _
      · obtain ⟨rfl, _⟩ := h; exact hA
  | seekCur f n =>
    have h : seekCurS a f n a' r := h
    unfold seekCurS at h
    cases hf : fileOf a f with
    | none => rw [hf] at h; obtain ⟨rfl, _⟩ := h; exact hA
    | some p =>
      obtain ⟨i, rec⟩ := p
      rw [hf] at h
      dsimp only at h
      split at h
      · obtain ⟨rfl, _⟩ := h; exact hA
      · obtain ⟨rfl, _⟩ := h; exact ainv_setPos hA (fileOf_some hf).2.1 _
  | seekEnd f n =>
    have h : seekEndS a f n a' r := h
    unfold seekEndS at h
    cases hf : fileOf a f with
    | none => rw [hf] at h; obtain ⟨rfl, _⟩ := h; exact hA
    | some p =>
      obtain ⟨i, rec⟩ := p
      rw [hf] at h
      dsimp only at h
      split at h
      · obtain ⟨rfl, _⟩ := h; exact ainv_setPos hA (fileOf_some hf).2.1 _
      · obtain ⟨rfl, _⟩ := h; exact hA
  | flush f =>
    have h' : (a', r) = flushF a f := h
    have h1 : a' = (flushF a f).1 := congrArg Prod.fst h'
    rw [h1]
    rcases flushF_cases (a := a) f with ⟨he, _⟩ | ⟨i, rec, m, bytes, hf, _, _, hsl, he⟩
    · rw [he]; exact hA
    · rw [he]; exact ainv_flushedSt hA (fileOf_some hf).2.2 hsl
  | closeFile f =>
    have h : closeFileS a f a' r := h
    unfold closeFileS at h
    cases hi : fileIdx a f with
    | none => rw [hi] at h; obtain ⟨rfl, _⟩ := h; exact hA
    | some i =>
      rw [hi] at h
      dsimp only at h
      obtain ⟨rfl, _⟩ := h
      -- the record at index `i`
      obtain ⟨hlt, _, _⟩ := List.findIdx?_eq_some_iff_getElem.1 hi
      have hfi : a.files[i]? = some a.files[i] := List.getElem?_eq_getElem hlt
      have hfo : fileOf a f = some (i, a.files[i]) := by unfold fileOf; rw [hi]; simp only; rw [hfi]; rfl
      have hfm : a.files[i] ∈ a.files := List.getElem_mem hlt
      obtain ⟨m0, b0, hs0, _, _, hz0, _, hnd0⟩ := (hA.files _ hfm).slot
      rcases flushF_cases (a := a) f with ⟨he, hnot⟩ | ⟨i', rec, m, bytes, hf, hdirty, _, hsl, he⟩
      · rw [he]
        have hclean : (a.files[i]).dirty = false := by
          cases hd : (a.files[i]).dirty with
          | false => rfl
          | true =>
            exfalso
            apply hnot
            have hda : dirtyAt a f = true := by unfold dirtyAt; rw [hfo]; exact hd
            refine ⟨hda, ?_⟩
            unfold flushF
            rw [hfo]
            simp only [hd, Bool.not_true, Bool.false_eq_true, if_false, (hA.files _ hfm).volume, hs0]
            rfl
        exact ainv_remove hA hfi hs0 (hnd0 hclean)
      · rw [he]
        rw [hfo] at hf
        injection hf with hf
        injection hf with e1 e2
        subst e1; subst e2
        have hA2 := ainv_flushedSt hA hfm hsl
        have hfi2 : (flushedSt a a.files[i] bytes).files[i]? = some a.files[i] := hfi
        have hsl2 : ((flushedSt a a.files[i] bytes).slots (a.files[i]).dir)[(a.files[i]).idx]? =
            some (.file (storedMeta (a.files[i]).pm) bytes) := by
          rw [flushedSt_get _ _ hsl, if_pos rfl]
        rw [hsl] at hs0
        injection hs0 with hs0
        injection hs0 with em eb
        subst em; subst eb
        have := ainv_remove hA2 hfi2 hsl2 (by rw [storedMeta_size]; exact hz0)
        exact this
  | delete d name =>
    rcases deleteS_cases (show deleteS a d name a' r from h) with ⟨rfl, _⟩ | ⟨od, sfn, i, m, bytes, hctx, _, hsl, hno, rfl, _⟩
    · exact hA
    · obtain ⟨hod, hv⟩ := ctx_facts hA hctx
      exact ainv_deletedSt hA hod hsl (ainv_notOpenAt_of hA hv hno)
  | mkdir d name =>
    rcases mkdirS_cases (show mkdirS a d name a' r from h) with ⟨rfl, _⟩ | ⟨od, sfn, c, hctx, _, hc, rfl, _⟩
    · exact hA
    · exact ainv_mkdirSt hA (ctx_facts hA hctx).1 hc
  | length f => obtain ⟨rfl, _⟩ := (show lengthS a f a' r from h); exact hA
  | offset f => obtain ⟨rfl, _⟩ := (show offsetS a f a' r from h); exact hA
  | eof f => obtain ⟨rfl, _⟩ := (show eofS a f a' r from h); exact hA
  | hasOpen =>
    have h' : (a', r) = (a, _) := h
    injection h' with h1 _
    rw [h1]; exact hA
  | label v =>
    have h : labelS a v a' r := h
    unfold labelS at h
    split at h
    · obtain ⟨rfl, _⟩ := h; exact hA
    · rcases h with ⟨rfl, _⟩ | h
      · exact hA
      · split at h
        · obtain ⟨rfl, _⟩ := h
          exact ainv_closeDirF (ainv_openRootF hA v) _
        · obtain ⟨rfl, _⟩ := h
          exact ainv_openRootF hA v

theorem ainv_tick {a : AbsFs} (hA : AInv a) (t : Timestamp) : AInv { a with clock := t } :=
  ainv_tables hA rfl rfl rfl hA.oneVol hA.dirs rfl fun f hf => (hA.files f hf).volume

theorem ainv_ev {a a' : AbsFs} {ev : Ev} (hA : AInv a) (h : evStep a ev a') : AInv a' := by
  cases ev with
  | call op r => exact ainv_step hA h
  | tick t => have h' : a' = { a with clock := t } := h; rw [h']; exact ainv_tick hA t

/-- **Every history keeps the abstract state well formed.** -/
theorem ainv_run : ∀ {es : List Ev} {a a' : AbsFs}, AInv a → absRunClk a es a' → AInv a'
  | [], _, _, hA, h => by have h' : _ = _ := h; rw [h']; exact hA
  | _ :: _, _, _, hA, h => by
    obtain ⟨a1, h1, h2⟩ := h
    exact ainv_run (ainv_ev hA h1) h2

end Sdmmc.Lemmas.AbsFsTimes
