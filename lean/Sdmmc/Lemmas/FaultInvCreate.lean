/-
C11 under the invariant, part 8 (engine, fault-free): at every crash point of `write_new_directory_entry` — the
entry of a new file, or of a new directory — the directories are sound (`newEntry_crash_dirs`): before the slot write
they read as before the call (a directory that has to grow may already own its new, blank cluster); the slot write
is the last device write.
-/
import Sdmmc.Lemmas.FaultInvEng
import Sdmmc.Lemmas.FaultInvWalk
import Sdmmc.Lemmas.CrashDirEntry
import Sdmmc.Lemmas.VolEng4

namespace Sdmmc.Lemmas.FaultInv
open Sdmmc.Model Sdmmc.Model.Fat Sdmmc.Spec.Volume Sdmmc.Lemmas.VolBase Sdmmc.Lemmas.VolTree
open Sdmmc.Spec hiding NoFault Coherent
open Sdmmc.Lemmas.VolDisk Sdmmc.Lemmas.VolMed Sdmmc.Lemmas.VolApi Sdmmc.Lemmas.VolEng
open Sdmmc.Lemmas.FBasic (NoFault Coherent)
open Sdmmc.Lemmas.CrashBase Sdmmc.Lemmas.Retry Sdmmc.Lemmas.FaultPre

theorem sameGeom_symm {v w : FatVolume} (h : SameGeom v w) : SameGeom w v := by
  obtain ⟨a, b, rfl⟩ := h; exact ⟨v.freeClustersCount, v.nextFreeCluster, rfl⟩

section
variable {files : List FileInfo} {gh : Ghost} {X : List (List Nat)}

/-- The directory a handle designates, as the engine's walk sees it. -/
theorem walk_of_dir {v : FatVolume} {d : Disk} (hM : MedX v d files gh X) {dc : Nat} (hv : ValidDir gh.dirs dc) :
    ∃ dcs, (¬ Reopen.IsFixedRoot v dc → Chain v d (Listing.startCluster v dc) dcs) ∧
      ((dirWalkStart v dc).fixedRoot = true ∨ Chain v d (dirWalkStart v dc).cluster dcs) ∧
      ((dirWalkStart v dc).fixedRoot = false →
        ¬ isFixedRoot v (dirIdOf dc) ∧ chainOf gh.G (dirHead v (dirIdOf dc)) = dcs) := by
  obtain ⟨hh, hcase⟩ := dir_walk_facts hM hv
  rcases hcase with ⟨hdc, h16, _⟩ | ⟨hk, hf, cs, hcs, hsc, _, _, _⟩
  · have hw : (dirWalkStart v dc).fixedRoot = true := by
      unfold dirWalkStart
      rw [h16]
      simp only
      rw [if_pos (show dc = Gen.CLUSTER_ROOT_DIR from hdc)]
    exact ⟨[], fun h => absurd ⟨h16, hdc⟩ h, .inl hw, fun h => by rw [hw] at h; cases h⟩
  · obtain ⟨hm, hhd⟩ := dirChain_spec hM hh hf
    have hch : Chain v d (dirHead v (dirIdOf dc)) (chainOf gh.G (dirHead v (dirIdOf dc))) := by
      have := med_chain hM hm
      rwa [headD_of_head? hhd] at this
    obtain ⟨h1, _, _, _⟩ := Listing.dirWalkStart_chain v dc hk
    refine ⟨chainOf gh.G (dirHead v (dirIdOf dc)), fun _ => by rw [hsc]; exact hch, .inr (by rw [h1, hsc]; exact hch),
      fun _ => ⟨hf, rfl⟩⟩

/-- The directories are sound on `d` and on every medium that differs from `d` only in the FAT entries of the
clusters `T` (clusters of chains nothing refers to yet) — and in FAT copy 2. -/
def RobP (v : FatVolume) (dirs : List (Nat × Nat)) (T : List Nat) (d : Disk) : Prop :=
  ∀ d', Within v d d' T clean → DirsP v dirs d'

theorem RobP.dirsP {v : FatVolume} {dirs : List (Nat × Nat)} {T : List Nat} {d : Disk} (h : RobP v dirs T d) : DirsP v dirs d :=
  h d (Within.refl _ _ _ _)

theorem DirsP.sameGeom {v v' : FatVolume} {dirs : List (Nat × Nat)} {d : Disk} (h : DirsP v dirs d) (hs : SameGeom v v') :
    DirsP v' dirs d := by
  obtain ⟨G', h'⟩ := h
  exact ⟨G', h'.sameGeom hs⟩

theorem RobP.sameGeom {v v' : FatVolume} {dirs : List (Nat × Nat)} {T : List Nat} {d : Disk} (h : RobP v dirs T d)
    (hs : SameGeom v v') : RobP v' dirs T d :=
  fun d' hw => (h d' (Within.sameGeom hs hw)).sameGeom hs

/-- A cluster of a directory's chain lies in no chain outside the record. -/
theorem dirChain_not_extra {v : FatVolume} {d : Disk} (hM : MedX v d files gh X) {h : Nat} (hh : h ∈ dirIds gh.dirs)
    (hf : ¬ isFixedRoot v h) {x : Nat} (hx : x ∈ chainOf gh.G (dirHead v h)) : x ∉ X.flatten := by
  intro hxX
  have hnd := hM.owns.2.1
  rw [List.flatten_append, List.nodup_append] at hnd
  exact hnd.2.2 x (List.mem_flatten_of_mem (dirChain_spec hM hh hf).1 hx) x hxX rfl

/-- From the invariant on `d`: a medium `d1` that differs from `d` in FAT entries of clusters outside the
directories' chains and in blocks holding no directory slot is robust. -/
theorem robP_of_within {v : FatVolume} {d : Disk} (hM : MedX v d files gh X) {d1 : Disk} {touched : List Nat} {dirty : Nat → Prop}
    (hw : Within v d d1 touched dirty) {T : List Nat} (hTX : ∀ x, x ∈ T → x ∈ X.flatten)
    (ht : ∀ h, h ∈ dirIds gh.dirs → ¬ isFixedRoot v h → ∀ x, x ∈ chainOf gh.G (dirHead v h) → x ∉ touched)
    (hd : ∀ h, h ∈ dirIds gh.dirs → ∀ s, s ∈ dirSlots v d gh.G h → ¬ dirty s.1) : RobP v gh.dirs T d1 := by
  intro d' hw'
  have hw2 : Within v d d' (touched ++ T) dirty :=
    Within.trans hw hw' (fun _ h => List.mem_append_left _ h) (fun _ h => List.mem_append_right _ h) (fun _ h => h)
      (fun _ h => h.elim)
  have := dirsInv_within hM hw2 (fun h hh hf x hx hm => by
    rcases List.mem_append.1 hm with hm | hm
    · exact ht h hh hf x hx hm
    · exact dirChain_not_extra hM hh hf hx (hTX x hm)) hd
  exact ⟨gh.G, ⟨this.geom, this.mem, this.chain, this.cleanTail, this.names, this.dots⟩⟩

theorem robP_of_med {v : FatVolume} {d : Disk} (hM : MedX v d files gh X) {T : List Nat} (hTX : ∀ x, x ∈ T → x ∈ X.flatten) :
    RobP v gh.dirs T d :=
  robP_of_within hM (Within.refl v d [] clean) hTX (fun _ _ _ _ _ hm => by cases hm) (fun _ _ _ _ hd => hd)

/-- `RobP`, and the not yet referenced chains `X` are still chains. -/
def RobX (v : FatVolume) (dirs : List (Nat × Nat)) (X : List (List Nat)) (T : List Nat) (d : Disk) : Prop :=
  RobP v dirs T d ∧ ∀ cs, cs ∈ X → Chain v d (cs.headD 0) cs

theorem RobX.sameGeom {v v' : FatVolume} {dirs : List (Nat × Nat)} {X : List (List Nat)} {T : List Nat} {d : Disk}
    (h : RobX v dirs X T d) (hs : SameGeom v v') : RobX v' dirs X T d :=
  ⟨h.1.sameGeom hs, fun cs hcs => ForestBase.chain_sameGeom hs (h.2 cs hcs)⟩

theorem robX_of_within {v : FatVolume} {d : Disk} (hM : MedX v d files gh X) {d1 : Disk} {touched : List Nat} {dirty : Nat → Prop}
    (hw : Within v d d1 touched dirty) {T : List Nat} (hTX : ∀ x, x ∈ T → x ∈ X.flatten)
    (ht : ∀ h, h ∈ dirIds gh.dirs → ¬ isFixedRoot v h → ∀ x, x ∈ chainOf gh.G (dirHead v h) → x ∉ touched)
    (hd : ∀ h, h ∈ dirIds gh.dirs → ∀ s, s ∈ dirSlots v d gh.G h → ¬ dirty s.1)
    (hXt : ∀ x, x ∈ X.flatten → x ∉ touched) : RobX v gh.dirs X T d1 := by
  refine ⟨robP_of_within hM hw hTX ht hd, fun cs hcs => ?_⟩
  have hch := hM.owns.1 cs (List.mem_append_right _ hcs)
  exact chain_congr_raw hch fun x hx =>
    hw.other x (ChainL.chain_inRange hch x hx).2 (hXt x (List.mem_flatten_of_mem hcs hx))

theorem robX_of_med {v : FatVolume} {d : Disk} (hM : MedX v d files gh X) {T : List Nat} (hTX : ∀ x, x ∈ T → x ∈ X.flatten) :
    RobX v gh.dirs X T d :=
  robX_of_within hM (Within.refl v d [] clean) hTX (fun _ _ _ _ _ hm => by cases hm) (fun _ _ _ _ hd => hd)
    (fun _ _ hm => by cases hm)

/-- **`write_new_directory_entry`, every crash point**, robust against changes of the FAT entries of the clusters `T`
of the not yet referenced chains `X`.  `hfin`: the same on the medium a successful call leaves (the caller knows what
the entry is for). -/
theorem newEntry_crash_rob {fs : FS} (hM : MedX fs.vol fs.dev.disk files gh X) (hn : NoFault fs) (hc : Coherent fs)
    {dc : Nat} (hv : ValidDir gh.dirs dc) (name : Bytes) (hname : name.length = 11) (att fc : Nat) (now : Timestamp)
    (T : List Nat) (hTX : ∀ x, x ∈ T → x ∈ X.flatten)
    (hfin : ∀ e fs', writeNewDirectoryEntry dc name att fc now fs = (.ok e, fs') → RobX fs.vol gh.dirs X T fs'.dev.disk) :
    CrashAll (RobX fs.vol gh.dirs X T) fs (writeNewDirectoryEntry dc name att fc now fs).2 := by
  obtain ⟨hh, _⟩ := validDir_id hM hv
  obtain ⟨dcs, hdir1, hdir2, hchain⟩ := walk_of_dir hM hv
  have h0 : RobX fs.vol gh.dirs X T fs.dev.disk := robX_of_med hM hTX
  rcases hrun : writeNewDirectoryEntry dc name att fc now fs with ⟨r, fs'⟩
  rcases writeNew_err_same dc name att fc now hname fs ⟨hn, hc, hM.blocksOK, hM.geom, hM.hint⟩ dcs hdir1 with ⟨en, hok⟩ | ⟨hw, hd⟩
  swap
  · rw [hrun] at hw hd
    exact CrashAll.same hw hd h0
  rw [hrun] at hok
  simp only at hok
  subst hok
  have hfin' := hfin en fs' hrun
  rcases CrashDirEntry.writeNewDirectoryEntry_shape dc name att fc now fs fs' en dcs hn hc hM.blocksOK hM.geom hM.hint hdir2 hrun with
    ⟨sM, ro, hnM, hcM, hsw, _⟩ | ⟨p, c, s1, s2, hfr, hl, ro1, hn1, hc1, ha, hsw, _, _⟩
  · -- a free slot: one device write
    have c1 : CrashAll (RobX fs.vol gh.dirs X T) fs sM := CrashAll.of_ro ro h0
    refine c1.trans (crash_le_one (.inr ⟨_, _, hsw.wlog, hsw.disk⟩) ?_ hfin')
    rw [ro.disk]; exact h0
  · -- the directory grows first
    obtain ⟨hf, hcs0⟩ := hchain hfr
    have hcs : chainOf gh.G (dirHead s1.vol (dirIdOf dc)) = dcs.dropLast ++ [p] := by
      rw [ro1.vol, hcs0]
      exact (List.dropLast_append_getLast? p hl).symm
    have hM1 : MedX s1.vol s1.dev.disk files gh X := by rw [ro1.vol, ro1.disk]; exact hM
    have hf1 : ¬ isFixedRoot s1.vol (dirIdOf dc) := by rw [ro1.vol]; exact hf
    obtain ⟨hn2, hc2, hsg12, G1, hM2, _, _, _, _, _, hcR, hcnot, _, _⟩ := grow_med hM1 hn1 hc1 hh hf1 hcs ha
    have hpE : p < endCluster s1.vol := by
      obtain ⟨hm, _⟩ := dirChain_spec hM1 hh hf1
      rw [hcs] at hm
      exact (med_inRange hM1 hm (List.mem_append_right _ (List.mem_singleton.2 rfl))).2
    obtain ⟨hcr, _⟩ := CrashAlloc.alloc_crash s1 s2 (some p) true c hn1 hc1 hM1.blocksOK hM1.geom hM1.hint
      (fun q hq => by cases hq; exact hpE) ha
    have hcG : c ∉ gh.G.flatten := by
      intro hm
      obtain ⟨cs, hcs', hc'⟩ := List.mem_flatten.1 hm
      exact hcnot cs (List.mem_append_left _ hcs') hc'
    have hsg21 : SameGeom s2.vol fs.vol := by rw [← ro1.vol]; exact sameGeom_symm hsg12
    have hP2 : ∀ d, View s1.vol s2.dev.disk d → RobX fs.vol gh.dirs X T d := by
      intro d hview
      have hview2 : View s2.vol s2.dev.disk d := View.sameGeom (sameGeom_symm hsg12) hview
      have : RobX s2.vol gh.dirs X T d :=
        robX_of_within (gh := { vol := s2.vol, G := G1, dirs := gh.dirs }) hM2 (hview2.within [] clean) hTX
          (fun _ _ _ _ _ hm => by cases hm) (fun _ _ _ _ hd => hd) (fun _ _ hm => by cases hm)
      exact this.sameGeom hsg21
    have c01 : CrashAll (RobX fs.vol gh.dirs X T) fs s1 := CrashAll.of_ro ro1 h0
    have c12 : CrashAll (RobX fs.vol gh.dirs X T) s1 s2 := by
      refine hcr.mono fun d hd => ?_
      rcases hd.1 with hA | ⟨hB, _, _⟩ | ⟨hC, _⟩
      · have := robX_of_within hM1 hA hTX (fun _ _ _ _ _ hm => by cases hm)
          (fun h hh' s hs hz => (dirSlot_place hM1 hh' hs).2 c hcR hcG hz.2) (fun _ _ hm => by cases hm)
        rw [ro1.vol] at this
        exact this
      · have := robX_of_within hM1 hB hTX (fun h hh' hf' x hx hm => by
            rw [List.mem_singleton] at hm
            subst hm
            exact hcG (List.mem_flatten_of_mem (dirChain_spec hM1 hh' hf').1 hx))
          (fun h hh' s hs hz => (dirSlot_place hM1 hh' hs).2 c hcR hcG hz.2)
          (fun x hx hm => by
            rw [List.mem_singleton] at hm
            subst hm
            obtain ⟨cs, hcs', hc'⟩ := List.mem_flatten.1 hx
            exact hcnot cs (List.mem_append_right _ hcs') hc')
        rw [ro1.vol] at this
        exact this
      · exact hP2 d hC
    have c23 : CrashAll (RobX fs.vol gh.dirs X T) s2 fs' :=
      crash_le_one (.inr ⟨_, _, hsw.wlog, hsw.disk⟩) (hP2 _ (View.refl _ _)) hfin'
    exact (c01.trans c12).trans c23

/-- … for the directories as they are (no extra clusters). -/
theorem newEntry_crash_dirs {fs : FS} (hM : MedX fs.vol fs.dev.disk files gh X) (hn : NoFault fs) (hc : Coherent fs)
    {dc : Nat} (hv : ValidDir gh.dirs dc) (name : Bytes) (hname : name.length = 11) (att fc : Nat) (now : Timestamp)
    (hfin : ∀ e fs', writeNewDirectoryEntry dc name att fc now fs = (.ok e, fs') → RobX fs.vol gh.dirs X [] fs'.dev.disk) :
    CrashAll (DirsP fs.vol gh.dirs) fs (writeNewDirectoryEntry dc name att fc now fs).2 :=
  (newEntry_crash_rob hM hn hc hv name hname att fc now [] (fun _ h => by cases h) hfin).mono fun _ h => h.1.dirsP

end

end Sdmmc.Lemmas.FaultInv
