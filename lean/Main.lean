import Sdmmc.Driver
open Sdmmc.Driver

partial def loop (hin hout : IO.FS.Stream) (st : DState) : IO Unit := do
  let line ← hin.getLine
  if line.isEmpty then return ()
  let (st', out) := handle st line
  hout.putStrLn out
  -- flush when the harness asks for a barrier (it sends "sync" after each batch)
  if line.startsWith "sync" then hout.flush
  loop hin hout st'

def main : IO Unit := do
  let hin ← IO.getStdin
  let hout ← IO.getStdout
  loop hin hout {}
