-- Root of the `Sdmmc` library: model, specifications, lemmas, property theorems.
import Sdmmc.Model.Crc
import Sdmmc.Spec.Poly
