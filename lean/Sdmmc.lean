-- Root of the `Sdmmc` library: model, specifications, lemmas, property theorems, driver.
import Sdmmc.Driver
import Sdmmc.Props.C15
import Sdmmc.Props.C17
import Sdmmc.Props.C18
import Sdmmc.Props.C19
