#!/usr/bin/env python3
"""translate_mgr2.py -- the methods of `VolumeManager` (volume_mgr.rs) that Gen/FunsMgr.lean does not contain:
`find_directory_entry`, `make_dir_in_dir`, `iterate_dir`, `iterate_dir_lfn`, `get_root_volume_label` (with the
`Directory` wrapper it opens, lists and drops), into the model's `M` monad: Gen/FunsMgr2.lean.

Own module.  The engine is translate_wrap.py's (method resolution as rustc does it, destructors, CPS into a small IR),
extended here with the manager's state (the tables of translate_mgr.py are imported, not copied), callbacks, early
returns and `match` on a kept `Result`.  translate_mgr.py / translate_dir.py / rustfront.py are not edited.
"""
import os
import re
import sys

sys.path.insert(0, os.path.dirname(os.path.abspath(__file__)))
import rustfront
from rustfront import ShapeError, parse_fn_body, parse_params, parse_type, split_commas
import translate_mgr as tm
import translate_wrap as tw
from translate_wrap import Wrap, Val, Env, FnInfo, atom, peel, show_ty, simplify_ir, render_ir, norm, lean_str, MANAGER

MGR2_FILES = tw.WRAP_FILES + ["filesystem/attributes.rs", "filesystem/cluster.rs", "fat/volume.rs", "filesystem/timestamp.rs"]

TARGETS = [
    ("VolumeManager", None, "find_directory_entry"),
    ("VolumeManager", None, "make_dir_in_dir"),
    ("VolumeManager", None, "iterate_dir"),
    ("VolumeManager", None, "iterate_dir_lfn"),
    ("VolumeManager", None, "get_root_volume_label"),
]

# ----------------------------------------------------------------------------------------------------------------
# Hand-written tables (trusted base, repeated in the header of the generated file)
# ----------------------------------------------------------------------------------------------------------------

# Rust types whose values are values of the model (records: the field map is translate_mgr.VALREC)
MODEL_TYPES2 = {"DirectoryInfo": "DirInfo", "VolumeInfo": "VolInfo", "ShortFileName": "List UInt8",
                "VolumeName": "List UInt8", "LfnBuffer": "Lfn.Buf", "Timestamp": "Timestamp"}
LOG_MACROS = {"debug", "trace", "warn", "info", "error"}

# methods of `FatVolume` reached through `match .. { VolumeType::Fat(fat) => fat.m(..) }`: the model's function and
# the roles of the Rust arguments.  cache: `&mut data.block_cache`; dir: a `&DirectoryInfo` (its cluster is passed);
# clock: `&self.time_source` (the value of the clock, last argument); cb: the callback; buf: the LFN buffer.
FAT2 = {
    "find_directory_entry": ("Fat.findDirectoryEntry", ["cache", "dir", "val"], ("adt", "DirEntry"), None,
                             "Props/C06GenM.lean find_directory_entry_eq_partial"),
    "make_dir": ("Fat.makeDir", ["cache", "clock", "val", "val", "val"], ("unit",), None,
                 "Props/C09GenM.lean make_dir_eq_partial"),
    "iterate_dir": ("Fat.iterateRaw", ["cache", "dir", "cb"], ("unit",), "fun es => pure (es.map (·.1))",
                    "Props/C06GenIter.lean iterate_dir_eq_partial"),
    "iterate_dir_lfn": ("Fat.iterateRaw", ["cache", "buf", "dir", "cb"], ("unit",),
                        "fun es => M.lift (lfnFold SeqState.Waiting {buf} es)", "no tie yet (the model's `lfnFold`)"),
}
# pure methods bound to the model
PURE_BIND = {
    ("VolumeName", "name"): ("volumeNameTrim", ("slice",)),          # the `while let [rest @ .., last]` trim loop
    ("ShortFileName", "to_volume_label"): ("", ("adt", "VolumeName")),  # the same eleven bytes under another type
}


class Mgr2(Wrap):
    FILES = MGR2_FILES
    MANAGER_OWN = {t[2] for t in TARGETS} | {"open_volume"}

    def __init__(self, read_src, mgr_text, ent_text):
        super().__init__(read_src, mgr_text)
        self.data_defs = {}
        for m in re.finditer(r"^def VolumeManagerData_(\w+)((?: \([^()]*\))*) : (.*) :=$", mgr_text, re.M):
            self.data_defs[m.group(1)] = (re.findall(r"\((\w+) : ([^()]*)\)", m.group(2)), m.group(3).strip())
        self.helpers = {}
        for ns, text in (("FunsMgr", mgr_text), ("FunsEnt", ent_text)):
            for m in re.finditer(r"^def ((?:Attributes)_\w+)((?: \([^()]*\))*) : (.*) :=$", text, re.M):
                if not m.group(1).endswith("_ok"):
                    self.helpers.setdefault(m.group(1), (ns, re.findall(r"\((\w+) : ([^()]*)\)", m.group(2)), m.group(3)))
        self.pure_depth = 0
        self.used_ns = set()

    # -- types ---------------------------------------------------------------------------------------------------
    def conv(self, ast, fn):
        if ast[0] == "ty" and ast[1] in fn.bounds and fn.bounds[ast[1]] in ("FnMut", "Fn", "FnOnce"):
            b = fn.bounds[ast[1]]
            if b.args is None:
                raise ShapeError(f"{fn.label()}: cannot read the arguments of the callback {ast[1]}")
            elems = []
            for part in split_commas(b.args, fn.label()):
                if part:
                    elems.append(peel(self.conv_elem(parse_type(part, fn.label(), self.items), fn)))
            return ("callback", tuple(elems))
        return super().conv(ast, fn)

    def conv_elem(self, ast, fn):
        if ast[0] == "tref":
            return self.conv_elem(ast[1], fn)
        if ast[0] == "ty" and ast[1] == "Option":
            return ("option", self.conv_elem(ast[2][0], fn))
        return self.conv(ast, fn)

    def rep(self, t, where):
        k = t[0]
        if k == "adt" and t[1] in MODEL_TYPES2:
            return MODEL_TYPES2[t[1]]
        if k == "str":
            return "List UInt8"
        if k == "option":
            return f"Option {atom(self.rep(peel(t[1]), where))}"
        if k == "callback":
            return self.calls_type(t, where)
        return super().rep(t, where)

    def calls_type(self, t, where):
        elems = [atom(self.rep(e, where)) for e in t[1]]
        return "List " + atom(" × ".join(elems))

    # -- functions -----------------------------------------------------------------------------------------------
    def translate_fn(self, fn):
        where = fn.label()
        info = FnInfo()
        info.cbs = []
        self.cur = info
        info.name = self.lean_name(fn)
        info.doc = f"`{where}` ({fn.impl.file})"
        self_kind, params = parse_params(fn.decl, self.items)
        env = Env()
        selfty = ("adt", fn.impl.ty)
        if self_kind is not None:
            st = self.recv_type(selfty, self_kind)
            if fn.impl.ty == MANAGER:
                env = env.set("self", "", st, "mgr")
            else:
                info.params.append(("self", self.rep(selfty, where)))
                env = env.set("self", "self", st)
                if self_kind in ("self", "mutself") and fn.impl.ty in self.droppable:
                    env = env.own("self")
        for pname, past in params:
            t = self.conv(past, fn)
            if peel(t) == ("adt", MANAGER):
                env = env.set(pname, "", t, "mgr")
                continue
            if t[0] == "callback":
                info.cbs.append((pname, self.calls_type(t, where)))
                env = env.set(pname, "[]", t, "calls")
                continue
            if t[0] == "tvar":
                raise ShapeError(f"{where}: the generic parameter type {t[1]} is outside the subset")
            info.params.append((pname, self.rep(t, where)))
            env = env.set(pname, pname, t)
            if t == ("refmut", ("slice",)):
                info.outs.append(pname)
            if t[0] == "adt" and t[1] in self.droppable:
                env = env.own(pname)
        info.ret_ty = self.conv(parse_type(fn.decl.ret, where, self.items), fn) if fn.decl.ret else ("unit",)
        self.fn, self.self_kind, self.where = fn, self_kind, where
        body = parse_fn_body(fn.decl, self.items)
        ir = self.tail(body, env)
        info.pure = not self.monadic(ir)
        vt = info.ret_ty[1] if info.ret_ty[0] == "result" else info.ret_ty
        comps = [self.rep(vt, where)] + [dict(info.params)[o] for o in info.outs] + [t for _, t in info.cbs]
        if info.self_out:
            comps.append(dict(info.params)["self"])
        if len(comps) > 1 and comps[0] == "Unit":
            comps = comps[1:]
        info.ret = " × ".join(atom(c) for c in comps)
        info.body = simplify_ir(ir)
        return info

    def extra(self, env):
        return bool(self.cur.outs) or self.cur.self_out or bool(getattr(self.cur, "cbs", []))

    def pack(self, text, ty, env):
        comps = [text] + [env.vars[o][0] for o in self.cur.outs] + [env.vars[c][0] for c, _ in getattr(self.cur, "cbs", [])]
        if self.cur.self_out:
            comps.append(env.vars["self"][0])
        if len(comps) > 1 and ty == ("unit",):
            comps = comps[1:]
        return comps[0] if len(comps) == 1 else "(" + ", ".join(comps) + ")"

    def fits(self, have, want):
        if have[0] == "option" and want[0] == "option":
            return have[1] == ("any",) or self.fits(have[1], want[1])
        return super().fits(have, want)

    def monadic(self, ir):
        if ir[0] == "matchres":
            return True
        return super().monadic(ir)

    # -- statements ----------------------------------------------------------------------------------------------
    def stmts(self, stmts, tail, env, k):
        if stmts:
            s, rest = stmts[0], stmts[1:]
            go = lambda env2: self.stmts(rest, tail, env2, k)
            if s[0] == "expr" and s[1][0] == "macro" and s[1][1] in LOG_MACROS:
                return go(env)
            if s[0] == "expr" and s[1][0] == "return":
                return self.tail(s[1], env)
            if s[0] == "expr" and s[1][0] == "call" and s[1][1] == ("path", ["drop"]) and len(s[1][2]) == 1 \
                    and s[1][2][0][0] == "path" and len(s[1][2][0][1]) == 1:
                n = s[1][2][0][1][0]
                if n in env.vars and env.vars[n][2] == "data":
                    e2 = Env(env.vars, env.live)
                    del e2.vars[n]
                    return go(e2)
            if s[0] == "let" and s[1][0] == "pbind" and s[3] is not None:
                name = s[1][1]

                def bound(v, env2):
                    if v.kind in ("data", "fat", "table", "elem"):
                        return go(env2.set(name, v.text, v.ty, v.kind))
                    if v.kind == "val" and v.ty[0] == "option" and s[3] == ("path", ["None"]):
                        return go(env2.set(name, "none", v.ty))
                    return None
                probe = s[3]
                if probe[0] in ("try", "ref") or (probe[0] == "mcall" and probe[2] == "deref_mut") or probe == ("path", ["None"]):
                    done = []

                    def k2(v, env2):
                        r = bound(v, env2)
                        if r is None:
                            done.append(1)
                            raise _Fallback()
                        return r
                    try:
                        return self.ev(probe, env, k2)
                    except _Fallback:
                        pass
        return super().stmts(stmts, tail, env, k)

    def tail(self, e, env):
        if e[0] == "if" and e[3] is None:
            return self.branch_stmt(e, env, lambda env2: self.finish(Val("val", "()", ("unit",)), env2))
        return super().tail(e, env)

    def branch_stmt(self, e, env, go):
        """a `match` / `if` in statement position: the rest of the function follows each arm (an arm that returns does
        not reach it)"""
        if e[0] == "block":
            return super().branch_stmt(e, env, go)

        def arm(b, env2):
            if b[0] == "block":
                def last(t, env3):
                    if t is None:
                        return go(env3)
                    if t[0] in ("if", "match"):
                        return self.branch_stmt(t, env3, go)
                    if t[0] == "assign":
                        return self.assign(t, env3, go)
                    return self.ev(t, env3, lambda v, env4: self.discard(v, env4, go, stmt=True))
                return self.stmts(b[1], b[2], env2, last)
            return self.ev(b, env2, lambda v, env3: self.discard(v, env3, go, stmt=True))
        if e[0] == "match":
            return self.ev(e[1], env, lambda s, env2: self.match_ir(s, e[2], env2, arm))
        return self.ev(e[1], env, lambda c, env2: ("ite", self.cond(c), arm(e[2], env2),
                                                    arm(e[3], env2) if e[3] is not None else go(env2)))

    def discard(self, v, env, go, stmt=False):
        if v.kind in ("data", "fat", "table", "calls", "closure"):
            return go(env)
        return super().discard(v, env, go, stmt)

    def assign(self, e, env, go):
        op, lhs, rhs = e[1], e[2], e[3]
        if op == "=" and lhs[0] == "path" and len(lhs[1]) == 1 and lhs[1][0] in env.vars and lhs[1][0] != "_" \
                and env.vars[lhs[1][0]][2] == "val":
            n = lhs[1][0]
            ty = env.vars[n][1]

            def setv(v, env2):
                def done(w, env3):
                    if not self.fits(w.ty, ty) and not (w.ty[0] == "option" and ty[0] == "option"):
                        self.err(f"`{n} = ..`: {show_ty(w.ty)} where {show_ty(ty)} is expected")
                    nty = w.ty if ty[0] == "option" and ty[1] == ("any",) else ty
                    return go(env3.set(n, w.text, nty))
                return self.force(v, env2, done)
            return self.ev(rhs, env, setv, expect=ty)
        return super().assign(e, env, go)

    def cond(self, v):
        if v.kind != "val" or v.ty != ("bool",):
            self.err("condition is not a plain boolean")
        return v.text

    def force(self, v, env, k):
        if v.kind in ("data", "fat", "table", "cache", "clock", "calls", "closure", "volty"):
            return k(v, env)
        if self.pure_depth and v.kind == "comp":
            self.err("a call with an effect where only a plain value is allowed (closure body, `&&`, guard)")
        if v.kind == "ok" and False:
            pass
        return super().force(v, env, k)

    # -- match ---------------------------------------------------------------------------------------------------
    def match_ir(self, s, arms, env, body):
        if s.kind == "volty":
            if len(arms) != 1 or arms[0][0][0] != "ptuple" or arms[0][0][1] != ["VolumeType", "Fat"] or \
                    arms[0][1] is not None or len(arms[0][0][2]) != 1 or arms[0][0][2][0][0] != "pbind":
                self.err("`match` on a volume type must be `VolumeType::Fat(fat) => ..`")
            return body(arms[0][2], env.set(arms[0][0][2][0][1], s.text, ("adt", "FatVolume"), "fat"))
        if s.kind == "res":
            return self.match_res(s, arms, env, body)
        return super().match_ir(s, arms, env, body)

    def match_res(self, s, arms, env, body):
        """`match result { Ok(x) if g => .., Ok(_) => .., Err(Error::X) => .., Err(e) => .. }` on a kept outcome"""
        okty, errty = s.ty[1], s.ty[2]
        oks, errs = [], []
        for pat, guard, b in arms:
            if pat[0] != "ptuple" or pat[1] not in (["Ok"], ["Err"]) or len(pat[2]) != 1:
                self.err("an arm of a `match` on a Result must be `Ok(..)` or `Err(..)`")
            (oks if pat[1] == ["Ok"] else errs).append((pat[2][0], guard, b))
        out = []
        if oks:
            x = self.fresh("ok")

            def chain(i):
                if i == len(oks):
                    self.err("the `Ok` arms of this `match` are not exhaustive")
                p, guard, b = oks[i]
                if p[0] == "pbind":
                    env2 = env.set(p[1], x, okty)
                elif p[0] == "pwild":
                    env2 = env
                else:
                    self.err("a pattern inside `Ok(..)` is outside the subset")
                if guard is None:
                    return body(b, env2)
                self.pure_depth += 1
                try:
                    holder = []
                    self.ev(guard, env2, lambda c, env3: holder.append(self.cond(c)) or ("ret", "()"))
                finally:
                    self.pure_depth -= 1
                return ("ite", holder[0], body(b, env2), chain(i + 1))
            out.append((f".ok {x}", chain(0)))
        for p, guard, b in errs:
            if guard is not None:
                self.err("a guard on an `Err` arm is outside the subset")
            if p[0] == "pbind":
                out.append((f".err {p[1]}", body(b, env.set(p[1], p[1], errty))))
                break
            if p[0] == "pwild":
                out.append((".err _", body(b, env)))
                break
            lp, binds = self.pattern(p, errty[1], self.variants(errty[1]))
            out.append((f".err ({lp[1:]})" if " " in lp else f".err {lp}", body(b, env)))
        else:
            if errs or not oks:
                pass
        out.append((".panic msg", ("comp", "M.panic msg")))
        out.append((".diverged", ("comp", "M.diverge")))
        return ("matchres", s.text, out)

    # -- the end of the function -----------------------------------------------------------------------------------
    def finish(self, v, env):
        rt = self.cur.ret_ty
        if rt[0] == "result" and v.kind == "ok" and env.live:
            want = rt[1]
            return self.drops(env, lambda env2: ("ret", self.pack(v.text, want, env2)))
        return super().finish(v, env)

    def take_outs(self, v, env, x):
        cbs = getattr(v, "cbs", ())
        if not cbs:
            return super().take_outs(v, env, x)
        names, env2 = [], env
        for var in v.outs:
            lean = self.fresh(var)
            names.append(lean)
            env2 = env2.set(var, lean, env.vars[var][1])
        for arg in cbs:
            cs = self.fresh("calls")
            names.append(cs)
            env2 = self.after_callback(arg, cs, env2)
        vt = v.ty[1] if v.ty[0] == "result" else v.ty
        parts = ([] if vt == ("unit",) else [x]) + names
        return env2, (parts[0] if len(parts) == 1 else "(" + ", ".join(parts) + ")")

    def after_callback(self, arg, cs, env):
        """the callee has handed back the list `cs` of the calls it made to the callback `arg`"""
        if arg.kind == "calls":
            old = env.vars[arg.var][0]
            return env.set(arg.var, cs if old == "[]" else f"{old} ++ {cs}", env.vars[arg.var][1], "calls")
        # a closure written in place: run over the calls, in order
        params, body, elems = arg.text
        if len(params) != len(elems):
            self.err(f"the closure takes {len(params)} arguments, the callee calls it with {len(elems)}")
        env2 = env
        for p, t in zip(params, elems):
            if not isinstance(p, str):
                self.err("closure parameter pattern outside the subset")
            env2 = env2.set(p, p, t)
        before = dict(env2.vars)
        self.pure_depth += 1
        saved = self.cur.ret_ty
        try:
            self.closure_states(arg, body, env2, params, cs, before)
        finally:
            self.pure_depth -= 1
            self.cur.ret_ty = saved
        return self._closure_env

    def closure_states(self, arg, body, env2, params, cs, before):
        """which captured variable the closure assigns (exactly one), then its fold"""
        # first pass: find the assigned variable
        assigned = set()

        def scan(e):
            if isinstance(e, tuple):
                if e and e[0] == "assign" and e[2][0] == "path" and len(e[2][1]) == 1:
                    assigned.add(e[2][1][0])
                if e and e[0] == "call" and e[1][0] == "path" and len(e[1][1]) == 1 and \
                        e[1][1][0] in env2.vars and env2.vars[e[1][1][0]][2] == "calls":
                    assigned.add(e[1][1][0])
                for x in e:
                    scan(x)
            elif isinstance(e, list):
                for x in e:
                    scan(x)
        scan(body)
        assigned = sorted(a for a in assigned if a in before)
        if len(assigned) != 1:
            self.err(f"a closure must assign exactly one captured variable (or call one callback); this one: {assigned}")
        st = assigned[0]
        lean0, ty, kd = env2.vars[st]
        stv = self.fresh("st")
        env3 = env2.set(st, stv, ty, kd)

        def end(t, env4):
            def fin(env5):
                return ("ret", env5.vars[st][0])
            if t is None:
                return fin(env4)
            if t[0] in ("if", "match"):
                return self.branch_stmt(t, env4, fin)
            if t[0] == "assign":
                return self.assign(t, env4, fin)
            return self.ev(t, env4, lambda v, env5: self.discard(v, env5, fin, stmt=True))
        blk = body if body[0] == "block" else ("block", [], body)
        ir = self.stmts(blk[1], blk[2], env3, end)
        if self.monadic(ir):
            self.err("a closure with an effect is outside the subset")
        ps = " ".join(params)
        ir = simplify_ir(ir)
        text = f"{cs}.foldl (fun {stv} {'(' + ', '.join(params) + ')' if len(params) > 1 else ps} =>\n      {render_ir(ir, 6, True)}) {atom(lean0)}"
        nty = ty
        self._closure_env = env2.set(st, f"({text})", nty, kd)
        for p in params:
            if p in before:
                self._closure_env.vars[p] = before[p]
            else:
                del self._closure_env.vars[p]

    # -- expressions ---------------------------------------------------------------------------------------------
    def ev(self, e, env, k, expect=None):
        kind = e[0]
        if kind == "macro" and e[1] in LOG_MACROS:
            return k(Val("val", "()", ("unit",)), env)
        if kind == "unsafe":
            return self.ev(e[1], env, k, expect)
        if kind == "return":
            if self.pure_depth:
                self.err("`return` inside a closure is outside the subset")
            return self.tail(e, env)
        if kind == "closure":
            return k(Val("closure", (e[1], e[2], None), ("closure",)), env)
        if kind == "match":
            def scrut(sv, env2):
                if sv.kind != "volty":
                    self.err("`match` used as a value is outside the subset (except on a volume type)")
                return self.match_ir(sv, e[2], env2, lambda b, env3: self.ev(b, env3, k, expect))
            return self.ev(e[1], env, scrut)
        if kind == "un" and e[1] == "!":
            return self.ev(e[2], env, lambda v, env2: self.force(
                v, env2, lambda w, env3: k(Val("val", f"¬({self.cond(w)})", ("bool",)), env3)))
        if kind == "bin" and e[1] in ("&&", "||", "==", "!="):
            def left(a, env2):
                self.pure_depth += 1
                try:
                    holder = []
                    self.ev(e[3], env2, lambda b, env3: self.force(b, env3, lambda w, env4: holder.append(w) or ("ret", "()")),
                            expect=a.ty if e[1] in ("==", "!=") else None)
                finally:
                    self.pure_depth -= 1
                b = holder[0]
                if e[1] in ("&&", "||"):
                    return k(Val("val", f"{atom(self.cond(a))} {'∧' if e[1] == '&&' else '∨'} {atom(self.cond(b))}", ("bool",)), env2)
                if not (a.ty == b.ty):
                    self.err(f"`{e[1]}` between {show_ty(a.ty)} and {show_ty(b.ty)}")
                if self.rep(a.ty, self.where) not in ("Nat", "Int", "Bool", "List UInt8"):
                    self.err(f"`{e[1]}` on {show_ty(a.ty)} is outside the subset")
                return k(Val("val", f"{atom(a.text)} {'=' if e[1] == '==' else '≠'} {atom(b.text)}", ("bool",)), env2)
            return self.ev(e[2], env, lambda a, env2: self.force(a, env2, left))
        if kind == "index":
            def idx(b, env2):
                if b.kind != "table":
                    self.err("indexing something that is not a table of the manager is outside the subset")
                return self.ev(e[2], env2, lambda i, env3: self.force(i, env3, lambda w, env4: k(
                    Val("elem", (b.text, w.text), ("adt", tm.TABLES[b.text]["elem"])), env4)))
            return self.ev(e[1], env, idx)
        if kind == "path" and e[1] == ["None"]:
            ty = expect if expect is not None and expect[0] == "option" else ("option", ("any",))
            return k(Val("val", "none", ty), env)
        if kind == "path" and len(e[1]) == 2 and (e[1][0], e[1][1]) in self.items.consts:
            tyt, valt, w = self.items.consts[(e[1][0], e[1][1])]
            if len(valt) == 1 and valt[0].k == "int":
                t = self.conv(parse_type(tyt, w, self.items), self.fn)
                return k(Val("val", str(valt[0].v), t), env)
            self.err(f"the constant {'::'.join(e[1])} is not a literal")
        if kind == "ref":
            def refd(v, env2):
                if v.kind == "elem" and v.text[0] == "open_volumes":
                    return k(v, env2)
                if v.kind == "elem":
                    return self.read_elem(v, env2, lambda w, env3: k(Val("val", w.text, ("ref", w.ty)), env3))
                if v.kind in ("cache", "clock", "volty", "data", "fat"):
                    return k(v, env2)
                if v.kind == "val":
                    return k(Val("val", v.text, ("refmut" if len(e) > 2 else "ref", v.ty), var=v.var), env2)
                if v.kind == "mgr":
                    return k(Val("mgr", "", ("ref", v.ty)), env2)
                self.err("`&` of this expression is outside the subset")
            return self.ev(e[1], env, refd)
        return super().ev(e, env, k, expect)

    def read_elem(self, v, env, k):
        """`table[i]`: the element is read (a panic when the index is out of range)"""
        table, i = v.text
        x = self.fresh("t")
        return ("bind", ("comp", f"{tm.TABLES[table]['get']} {atom(i)}"), x, k(Val("val", x, v.ty), env))

    def force(self, v, env, k):   # noqa: F811  (extends the definition above)
        if v.kind == "elem":
            return self.read_elem(v, env, k)
        if v.kind in ("data", "fat", "table", "cache", "clock", "calls", "closure", "volty"):
            return k(v, env)
        if self.pure_depth and v.kind == "comp":
            self.err("a call with an effect where only a plain value is allowed (closure body, `&&`, guard)")
        return super().force(v, env, k)

    def ev_path(self, segs, env, k):
        if len(segs) == 1 and segs[0] in env.vars and env.vars[segs[0]][2] in ("data", "fat", "table", "calls", "elem"):
            lean, ty, kd = env.vars[segs[0]]
            return k(Val(kd, lean, ty, var=segs[0]), env)
        return super().ev_path(segs, env, k)

    def ev_field(self, b, name, env, k):
        if b.kind == "mgr" and name == "data":
            return k(Val("cell", "", ("cell",)), env)
        if b.kind == "mgr" and name == "time_source":
            return k(Val("clock", "", ("clock",)), env)
        if b.kind == "data":
            if name in tm.TABLES:
                return k(Val("table", name, ("table",)), env)
            if name == "block_cache":
                return k(Val("cache", "", ("cache",)), env)
            self.err(f"the field `{name}` of the manager's data is outside the subset")
        if b.kind == "elem":
            table, i = b.text
            if table == "open_volumes" and name == "volume_type":
                return k(Val("volty", i, ("volty",)), env)
            return self.read_elem(b, env, lambda w, env2: self.ev_field(w, name, env2, k))
        if b.kind == "fat":
            if name == "name":
                x = self.fresh("vi")
                return ("bind", ("comp", f"getVolInfo {atom(b.text)}"), x,
                        k(Val("val", f"{x}.vol.name", ("adt", "VolumeName")), env))
            self.err(f"the field `{name}` of the volume is outside the subset")
        base = peel(b.ty)
        if b.kind == "val" and base[0] == "adt" and base[1] in tm.VALREC:
            lean_rec, fmap = tm.VALREC[base[1]]
            if name not in fmap or not isinstance(fmap[name], str):
                self.err(f"the field `{name}` of {base[1]} is outside the subset")
            st = self.items.structs[base[1]]
            for fname, ft in st[1]:
                if fname == name:
                    return k(Val("val", f"{atom(b.text)}.{fmap[name]}",
                                 self.conv(parse_type(ft, self.where, self.items), self._dummy_fn(base[1]))), env)
        return super().ev_field(b, name, env, k)

    def ev_try(self, v, env, k):
        if v.kind == "borrowed":
            s = self.fresh("s")
            return ("bind", ("comp", "M.get"), s,
                    ("ite", f"{s}.locked = true", ("comp", "M.fail Err.LockError"), k(Val("data", "", ("data",)), env)))
        if env.live and v.kind == "comp" and v.ty[0] == "result":
            # the error leaves the function: the destructors run first
            rt = self.cur.ret_ty
            if v.ty[2] != rt[2]:
                self.err(f"`?` would convert {show_ty(v.ty[2])} into {show_ty(rt[2])}: outside the subset")
            r, x, e = self.fresh("r"), self.fresh("t"), self.fresh("e")
            env2, pat = self.take_outs(v, env, x)
            okv = Val("val", "()" if v.ty[1] == ("unit",) else x, v.ty[1])
            arms = [(f".ok {pat if pat.startswith('(') or ' ' not in pat else '(' + pat + ')'}" if not (v.ty[1] == ("unit",) and pat == x)
                     else ".ok _", k(okv, env2)),
                    (f".err {e}", self.drops(env, lambda env3: ("comp", f"M.fail {e}"))),
                    (".panic msg", ("comp", "M.panic msg")), (".diverged", ("comp", "M.diverge"))]
            return ("bind", ("comp", f"M.attempt {atom(v.text)}"), r, ("matchres", r, arms))
        return super().ev_try(v, env, k)

    # -- calls ---------------------------------------------------------------------------------------------------
    def ev_call(self, f, args, env, k, expect):
        if f[0] == "path":
            segs = f[1]
            if segs == ["Some"] and len(args) == 1:
                want = expect[1] if expect is not None and expect[0] == "option" and expect[1] != ("any",) else None
                return self.ev(args[0], env, lambda v, env2: self.force(v, env2, lambda w, env3: k(
                    Val("val", f"some {atom(w.text)}", ("option", w.ty)), env3)), expect=want)
            if len(segs) == 1 and segs[0] in env.vars and env.vars[segs[0]][2] == "calls":
                name = segs[0]
                lean, ty, _ = env.vars[name]
                if len(args) != len(ty[1]):
                    self.err(f"the callback `{name}` takes {len(ty[1])} arguments")

                def go(i, env2, acc):
                    if i == len(args):
                        item = acc[0] if len(acc) == 1 else "(" + ", ".join(acc) + ")"
                        cur = env2.vars[name][0]
                        new = f"[{item}]" if cur == "[]" else f"{cur} ++ [{item}]"
                        return k(Val("val", "()", ("unit",)), env2.set(name, new, ty, "calls"))
                    return self.ev(args[i], env2, lambda v, env3: self.force(v, env3, lambda w, env4: go(
                        i + 1, env4, acc + [w.text])))
                return go(0, env, [])
            if len(segs) == 2 and f"{segs[0]}_{segs[1]}" in self.helpers:
                return self.helper_call(f"{segs[0]}_{segs[1]}", None, args, env, k)
        return super().ev_call(f, args, env, k, expect)

    def helper_call(self, name, recv, args, env, k):
        ns, params, ret = self.helpers[name]
        self.used_ns.add(ns)
        want = len(params) - (1 if recv is not None else 0)
        if len(args) != want:
            self.err(f"{name} takes {want} arguments")
        rty = {"Bool": ("bool",), "Nat": ("adt", "Attributes")}.get(ret.strip())
        if rty is None:
            self.err(f"{ns}.{name}: result type {ret} is outside the subset")

        def go(i, env2, acc):
            if i == len(args):
                text = " ".join([f"{ns}.{name}"] + [atom(a) for a in acc])
                if rty == ("bool",):
                    text = f"{text} = true"
                return k(Val("val", text, rty), env2)
            return self.ev(args[i], env2, lambda v, env3: self.force(v, env3, lambda w, env4: go(i + 1, env4, acc + [w.text])),
                           expect=("u", 8))
        return go(0, env, [recv.text] if recv is not None else [])

    def ev_mcall(self, r, name, args, env, k, expect):
        if r.kind == "cell" and name in ("try_borrow", "try_borrow_mut") and not args:
            return k(Val("borrow", name, ("borrow",)), env)
        if r.kind == "borrow" and name == "map_err" and len(args) == 1:
            c = self.closure_const(args[0])
            if c != ("path", ["Error", "LockError"]):
                self.err("the borrow of the manager's data must map its failure to `Error::LockError`")
            return k(Val("borrowed", "", ("result", ("data",), ("adt", "Error"))), env)
        if r.kind == "data":
            if name in ("deref_mut", "deref") and not args:
                return k(r, env)
            return self.data_call(name, args, env, k)
        if r.kind == "table":
            if name == "is_full" and not args:
                s = self.fresh("s")
                t = tm.TABLES[r.text]
                return ("bind", ("comp", "M.get"), s,
                        k(Val("val", f"{s}.{t['lean']}.length ≥ {s}.{t['cap']}", ("bool",)), env))
            self.err(f"`.{name}()` on a table of the manager is outside the subset")
        if r.kind == "fat":
            return self.fat_call(r, name, args, env, k)
        if r.kind == "elem":
            return self.read_elem(r, env, lambda w, env2: self.ev_mcall(w, name, args, env2, k, expect))
        if r.kind == "val":
            base = peel(r.ty)
            if name == "clone" and not args:
                return k(Val("val", r.text, base), env)
            if base == ("name",) and name == "to_short_filename" and not args:
                return k(Val("sfnres", r.text, ("sfnres",)), env)
            if base[0] == "option" and name in ("is_none", "is_some") and not args:
                return k(Val("val", f"{atom(r.text)} {'=' if name == 'is_none' else '≠'} none", ("bool",)), env)
            if base[0] == "adt" and (base[1], name) in PURE_BIND and not args:
                fn, ty = PURE_BIND[(base[1], name)]
                return k(Val("val", f"{fn} {atom(r.text)}" if fn else r.text, ty), env)
            if base[0] == "adt" and f"{base[1]}_{name}" in self.helpers:
                return self.helper_call(f"{base[1]}_{name}", r, args, env, k)
        if r.kind == "sfnres" and name == "map_err" and args == [("path", ["Error", "FilenameError"])]:
            return k(Val("comp", f"toSfn {atom(r.text)}", ("result", ("adt", "ShortFileName"), ("adt", "Error"))), env)
        return super().ev_mcall(r, name, args, env, k, expect)

    def data_call(self, name, args, env, k):
        """a method of `VolumeManagerData`: its machine translation in Gen/FunsMgr.lean"""
        target = None
        for im in self.impls:
            if im.ty == "VolumeManagerData" and im.trait is None and name in im.fns:
                target = im.fns[name]
        if target is None or name not in self.data_defs:
            self.err(f"VolumeManagerData::{name} is not in Gen/FunsMgr.lean")
        sk, params = parse_params(target.decl, self.items)
        ptys = [self.conv(p, target) for _, p in params]
        ret = self.conv(parse_type(target.decl.ret, self.where, self.items), target)
        hp, hr = self.data_defs[name]
        want = "M " + atom(self.rep(ret[1] if ret[0] == "result" else ret, self.where))
        if [norm(t) for _, t in hp] != [norm(self.rep(t, self.where)) for t in ptys] or norm(hr) != norm(want):
            self.err(f"Gen/FunsMgr.lean has VolumeManagerData_{name} with another type than the call needs")
        self.used_ns.add("FunsMgr")

        def go(i, env2, acc):
            if i == len(args):
                return k(Val("comp", " ".join([f"FunsMgr.VolumeManagerData_{name}"] + [atom(a) for a in acc]), ret), env2)
            return self.ev(args[i], env2, lambda v, env3: self.force(v, env3, lambda w, env4: go(i + 1, env4, acc + [w.text])),
                           expect=ptys[i])
        if len(args) != len(ptys):
            self.err(f"VolumeManagerData::{name} takes {len(ptys)} arguments")
        return go(0, env, [])

    def fat_call(self, r, name, args, env, k):
        if name not in FAT2:
            self.err(f"FatVolume::{name} has no binding here")
        fn, roles, ret, post, tie = FAT2[name]
        if len(args) != len(roles):
            self.err(f"FatVolume::{name} takes {len(roles)} arguments here")
        self.bindings_used = getattr(self, "bindings_used", [])
        if name not in self.bindings_used:
            self.bindings_used.append(name)

        def go(i, env2, acc, extra):
            if i == len(args):
                clock = extra.get("clock")
                inner = " ".join([fn] + [atom(a) for a in acc] + ([f"{clock}.clock"] if clock else []))
                text = f"withVol {atom(r.text)} ({inner})"
                rty = ("result", ret, ("adt", "Error"))
                v = Val("comp", text, rty)
                if post is not None:
                    text = f"({text} >>= {post.format(buf=extra.get('buf', ''))})"
                    v = Val("comp", text, rty)
                    cb = extra["cb"]
                    if cb.kind == "closure":
                        callee = self.fat_cb_elems(name)
                        cb = Val("closure", (cb.text[0], cb.text[1], callee), cb.ty)
                        cb.text = (cb.text[0], cb.text[1], callee)
                        cbv = Val("closure", (cb.text[0], cb.text[1], callee), ("closure",))
                        cbv.text = (cb.text[0], cb.text[1], callee)
                        v.cbs = (self.closure_arg(cbv),)
                    else:
                        v.cbs = (cb,)
                if clock:
                    return ("bind", ("comp", "M.get"), clock, k(v, env2))
                return k(v, env2)
            role = roles[i]

            def got(w, env3):
                if role == "cache":
                    if w.kind != "cache":
                        self.err(f"FatVolume::{name}: argument {i + 1} must be `&mut data.block_cache`")
                    return go(i + 1, env3, acc, extra)
                if role == "clock":
                    if w.kind != "clock":
                        self.err(f"FatVolume::{name}: argument {i + 1} must be `&self.time_source`")
                    return go(i + 1, env3, acc, dict(extra, clock=self.fresh("s")))
                if role == "dir":
                    if w.kind != "val" or peel(w.ty) != ("adt", "DirectoryInfo"):
                        self.err(f"FatVolume::{name}: argument {i + 1} must be a `&DirectoryInfo`")
                    return go(i + 1, env3, acc + [f"{atom(w.text)}.cluster"], extra)
                if role == "cb":
                    if w.kind not in ("closure", "calls"):
                        self.err(f"FatVolume::{name}: argument {i + 1} must be a closure or the caller's callback")
                    return go(i + 1, env3, acc, dict(extra, cb=w))
                if role == "buf":
                    if w.kind != "val" or peel(w.ty) != ("adt", "LfnBuffer"):
                        self.err(f"FatVolume::{name}: argument {i + 1} must be the LFN buffer")
                    return go(i + 1, env3, acc, dict(extra, buf=atom(w.text)))
                if w.kind != "val":
                    self.err(f"FatVolume::{name}: argument {i + 1} is not a plain value")
                return go(i + 1, env3, acc + [w.text], extra)
            return self.ev(args[i], env2, lambda v, env3: self.force(v, env3, got))
        return go(0, env, [], {})

    def fat_cb_elems(self, name):
        return {"iterate_dir": (("adt", "DirEntry"),),
                "iterate_dir_lfn": (("adt", "DirEntry"), ("option", ("str",)))}[name]

    def closure_arg(self, v):
        params, body, elems = v.text
        out = Val("closure", (params, body, elems), ("closure",))
        return out

    def call_fn(self, target, recv, args, env, k, by_value=False, path_call=False):
        if target.impl.ty == MANAGER and target.name not in self.MANAGER_OWN or \
                (target.impl.ty == MANAGER and recv is not None and recv.kind == "mgr"):
            if any(kd == "data" for _, _, kd in env.vars.values()):
                self.err(f"{target.label()} is called while the manager's data is borrowed (`LockError` at run time): "
                         f"outside the subset")
        sk, params = parse_params(target.decl, self.items)
        ptys = [self.conv(p, target) for _, p in params]
        if not any(t[0] == "callback" for t in ptys):
            return super().call_fn(target, recv, args, env, k, by_value, path_call)
        # a callee with a callback: translated here (never a FunsMgr definition)
        if len(params) != len(args):
            self.err(f"{target.label()} takes {len(params)} arguments, {len(args)} given")
        d = self.call_info(target)

        def go(i, env2, acc, cbs):
            if i == len(args):
                self.add_ext(d)
                head = [d.name] + (["fuel"] if d.fuel else []) + [e for e, _ in d.ext]
                if recv is not None and target.impl.ty != MANAGER:
                    head.append(atom(recv.text))
                v = Val("comp", " ".join(head + [atom(a) for a in acc]), d.ret_ty)
                v.cbs = tuple(cbs)
                return k(v, env2)
            pt = ptys[i]

            def got(w, env3):
                if pt[0] == "callback":
                    if w.kind == "calls":
                        return go(i + 1, env3, acc, cbs + [w])
                    if w.kind == "closure":
                        c = Val("closure", (w.text[0], w.text[1], pt[1]), ("closure",))
                        return go(i + 1, env3, acc, cbs + [c])
                    self.err(f"{target.label()}: argument {i + 1} must be a closure or the caller's callback")
                if w.kind != "val":
                    self.err(f"{target.label()}: argument {i + 1} is not a plain value")
                return go(i + 1, env3, acc + [w.text], cbs)
            return self.ev(args[i], env2, lambda v, env3: self.force(v, env3, got), expect=pt)
        return go(0, env, [], [])


class _Fallback(Exception):
    pass


def render_ir2(ir, ind, pure):
    if ir[0] == "matchres":
        pad = " " * ind
        arms = "".join(f"\n{pad}| {p} => ({render_ir2(a, ind + 4, False)})" for p, a in ir[2])
        return f"match {ir[1]} with{arms}"
    return _render_ir(ir, ind, pure)


_render_ir = tw.render_ir


def _patched_render(ir, ind, pure):
    return render_ir2(ir, ind, pure)


def _simplify2(ir):
    if ir[0] == "matchres":
        return ("matchres", ir[1], [(p, _simplify2(a)) for p, a in ir[2]])
    if ir[0] == "bind":
        c, rest = _simplify2(ir[1]), _simplify2(ir[3])
        if rest[0] == "ret" and (rest[1] == ir[2] or (ir[2] == "_" and rest[1] == "()")):
            return c
        return ("bind", c, ir[2], rest)
    if ir[0] == "ite":
        return ("ite", ir[1], _simplify2(ir[2]), _simplify2(ir[3]))
    if ir[0] == "match":
        return ("match", ir[1], [(p, _simplify2(a)) for p, a in ir[2]])
    if ir[0] == "let":
        return ("let", ir[1], ir[2], _simplify2(ir[3]))
    return ir


LEAN_HEADER_MGR2 = '''/-!
# Machine translation of the rest of the volume manager's directory methods into the model's `M` monad

Every definition below is produced by `tools/translate_mgr2.py` (called from tools/extract.py) from the text of
volume_mgr.rs (`find_directory_entry`, `make_dir_in_dir`, `iterate_dir`, `iterate_dir_lfn`, `get_root_volume_label`),
filesystem/directory.rs and lib.rs (the `Directory` wrapper `get_root_volume_label` opens, lists and drops); nothing
here is written by hand.  `Props/C06GenMgr.lean` and `Props/C03GenMgr.lean` prove the definitions equal to the
hand-written `Model/Mgr.lean`, for the free and for the borrowed manager.

The engine is the one of `Gen/FunsWrap.lean` (tools/translate_wrap.py: methods resolved as rustc resolves them;
destructors appended where an owned value with `impl Drop` goes out of scope; `Result` = the error channel of `M`;
see the head of that file).  Added here:

* **The manager's state**, with the tables of tools/translate_mgr.py (`TABLES`, `VALREC`; not copied):
  `let data = self.data.try_borrow_mut().map_err(|_| Error::LockError)?` (also `try_borrow`) is
  `M.get >>= fun s => if s.locked = true then M.fail Err.LockError else ..`; `data.deref_mut()` is `data`;
  `drop(data)` ends the borrow (a call of a manager method while it lasts is rejected: it would be `LockError`);
  `data.open_dirs.is_full()` is `s.dirs.length ≥ s.maxDirs` on the state read there; `data.open_dirs[i]` is
  `getDir i` (a panic when out of range) and a reference to it is that value (nothing can change the table while the
  reference lives); record fields by `VALREC`; `data.get_dir_by_id(..)` / `get_volume_by_id(..)` are their
  translations in `Gen/FunsMgr.lean` (types checked); `match &data.open_volumes[i].volume_type { VolumeType::Fat(fat)
  => .. }` binds `fat` to slot `i` (the bounds check of this index is `withVol`'s).
* **Bindings** (calls that are not translated here; the model's function, tied to the Rust text elsewhere):
  `fat.find_directory_entry(cache, dir, &sfn)` = `withVol i (Fat.findDirectoryEntry dir.cluster sfn)`
  (`Props/C06GenM.lean`); `fat.make_dir(cache, &self.time_source, cluster, sfn, att)` =
  `withVol i (Fat.makeDir cluster sfn att s.clock)`, `s` the state at the call (`Props/C09GenM.lean`);
  `fat.iterate_dir(cache, dir, f)` calls `f` with `(withVol i (Fat.iterateRaw dir.cluster)).map (·.1)`
  (`Props/C06GenIter.lean`); `fat.iterate_dir_lfn(cache, buf, dir, f)` calls `f` with
  `lfnFold SeqState.Waiting buf` of the same raw list (the model's fold; no tie to `Gen/FunsDir.lean` yet; the
  contents of the buffer after the call are not reported); `name.to_short_filename().map_err(Error::FilenameError)`
  = `toSfn name` (`Props/C18GenM.lean`); `volume_name.name()` = `volumeNameTrim` (the trim loop over a slice
  pattern); `sfn.to_volume_label()` = the same eleven bytes; `Attributes::..` = their translations in
  `Gen/FunsMgr.lean` / `Gen/FunsEnt.lean`; `Attributes::DIRECTORY` etc. = their literal values; `debug!` .. `warn!`
  = nothing.
* **Callbacks.**  A parameter `func: F`, `F: FnMut(..)`, is the list of the argument tuples it is called with, handed
  back after the value (`iterate_dir : M (List DirEntry)`), as in `Gen/FunsDir.lean`: `func(a)` appends; passing
  `func` on to a callee appends the callee's list; a closure written in place is FOLDED over the callee's list after
  the callee has returned (`List.foldl`; the state is the one captured variable the closure assigns, or the caller's
  own callback list).  Exact because the closures here have no effect of their own; after an `Err` of the callee the
  calls made so far are not reported (as in the model).
* `return e` anywhere is the function's end with that value; a `match` / `if` in statement position is followed, in
  each arm that does not return, by the rest of the function.
* `match kept_result { Ok(x) if g => a, Ok(_) => b, Err(Error::NotFound) => c, Err(e) => d }` on a `Result` kept in a
  variable (`M.attempt`): `| .ok x => if g then a else b | .err .NotFound => c | .err e => d`, and the two outcomes
  that are not Rust values go on: `| .panic msg => M.panic msg | .diverged => M.diverge`.
* `call(..)?` while a value with a destructor is owned: on `Err(e)` the destructors run, then `M.fail e`.
-/
'''


def render_mgr2(T):
    imports = ["import Sdmmc.Gen.FunsMgr", "import Sdmmc.Gen.FunsDir"]
    if "FunsEnt" in T.used_ns:
        imports.append("import Sdmmc.Gen.FunsEnt")
    lines = ["\n".join(imports) + "\n", LEAN_HEADER_MGR2, "set_option linter.unusedVariables false\n",
             "namespace Sdmmc.Gen.FunsMgr2\n", "open Sdmmc.Model\n",
             tw.PRELUDE_WRAP.format(kinds=" | ".join(v for v, _ in tw.EXT_ENUMS["ErrorKind"])).split("/-- `result.expect")[1]
             .join(["/-- `result.expect", ""])]
    for key in T.order:
        d = T.done[key]
        ps = ""
        if d.fuel:
            ps += " (fuel : Nat)"
        for n, t in d.ext:
            ps += f" ({n} : {t})"
        for n, t in d.params:
            ps += f" ({n} : {t})"
        rt = d.ret if d.pure else f"M {atom(d.ret)}"
        lines.append(f"/-- {d.doc}. -/\ndef {d.name}{ps} : {rt} :=\n  {render_ir2(_simplify2(d.body), 2, d.pure)}\n")
    lines.append("end Sdmmc.Gen.FunsMgr2\n")
    return "\n".join(lines)


def generate_mgr2(read_src, targets=None, mgr_text=None, ent_text=None):
    if mgr_text is None:
        mgr_text, _ = tm.generate_mgr(read_src)
    if ent_text is None:
        import translate
        ent_text, _ = translate.generate2(read_src)
    tw.render_ir = _patched_render
    try:
        T = Mgr2(read_src, mgr_text, ent_text)
        for ty, trait, name in (TARGETS if targets is None else targets):
            T.translate(T.find(ty, trait, name))
        text = render_mgr2(T)
    finally:
        tw.render_ir = _render_ir
    summary = {T.done[k].name: {"from": T.done[k].doc, "pure": T.done[k].pure} for k in T.order}
    return text, summary


# ----------------------------------------------------------------------------------------------------------------
# fat/info.rs: the info sector (pure; tools/translate.py used as a library)
# ----------------------------------------------------------------------------------------------------------------

INFO_FUNCTIONS = [("InfoSector", "create_from_bytes"), ("InfoSector", "free_clusters_count"),
                  ("InfoSector", "next_free_cluster")]

LEAN_HEADER_INFO = '''/-!
# Machine translation of fat/info.rs: the FAT32 info sector

Produced by `tools/translate_mgr2.py` with the pure translator `tools/translate.py` used as a library (same
representation and operator table as `Gen/Funs.lean`, whose definitions are used here, not repeated):
`InfoSector::{create_from_bytes, free_clusters_count, next_free_cluster}` with the `define_field!` accessors they
use.  A struct that only holds a reference to its bytes is those bytes (parameter `self_data`); the structure
`InfoSector` below has no field left.  `Props/C15GenM2.lean` proves them equal to the model's `Info.parse`.
-/
'''


def generate_info(read_src):
    """Gen/FunsInfo.lean.  Returns (lean text, summary dict)."""
    import translate
    from translate import Full, pretty
    items = rustfront.Items()
    for f in translate.FILES2 + ["fat/info.rs"]:
        items.scan_file(f, read_src(f))
    T = Full(items)
    for key in translate.FUNCTIONS:
        T.translate_fn(key)
    for spec in translate.FRAGMENTS:
        T.translate_fragment(spec)
    n0, types0 = len(T.order), list(T.types_used)
    for key in INFO_FUNCTIONS:
        T.translate_fn(key)
    lines = ["import Sdmmc.Gen.Funs\n", LEAN_HEADER_INFO, "set_option linter.unusedVariables false\n",
             "namespace Sdmmc.Gen.FunsInfo\n", "open Sdmmc.Gen.Funs\n"]
    full = translate.render(T)
    for kind, name in T.types_used:
        if (kind, name) in types0:
            continue
        marker = f"/-- `struct {name}` (non-reference fields). -/" if kind == "struct" else f"/-- `enum {name}`. -/"
        i = full.index(marker)
        j = full.index("\n\n", i)
        lines.append(full[i:j] + "\n")
    for key in T.order[n0:]:
        info = T.done[key]
        ps = "".join(f" ({n} : {T.lean_type(t, info.name)})" for n, t in info.params)
        rt = T.lean_type(info.ret, info.name)
        lines.append(f"/-- {info.doc}. -/\ndef {info.name}{ps} : {rt} :=\n  {pretty(info.body)}\n")
        if info.okbody:
            lines.append(f"/-- No overflow, no out-of-range index, no division by zero in {info.doc}. -/\n"
                         f"def {info.name}_ok{ps} : Prop :=\n  {info.okbody}\n")
    lines.append("end Sdmmc.Gen.FunsInfo\n")
    text = "\n".join(lines).replace("rdByte_PLACEHOLDER", "rdByte")
    summary = {("::".join(str(x) for x in k)): [T.done[k].name, T.done[k].body, T.done[k].okbody] for k in T.order[n0:]}
    return text, summary


if __name__ == "__main__":
    root = os.environ.get("VERIF_REPO", "/repo")

    def read_src(rel):
        with open(os.path.join(root, "src", rel)) as f:
            return f.read()
    try:
        text, _ = generate_mgr2(read_src)
    except ShapeError as e:
        print(f"translate_mgr2: {e}", file=sys.stderr)
        sys.exit(3)
    sys.stdout.write(text)
