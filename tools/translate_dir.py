#!/usr/bin/env python3
"""Directory functions of fat/volume.rs, translated whole into the model's F monad (Gen/FunsDir.lean).

Built on translate_m.py (statements, loops, `?`, block references) and translate_mgr.py (Rust structs whose
values are records of the model).  What this file adds is a table of BINDINGS (calls that are not translated
here but rendered as the model's function of the same meaning, each tied to the Rust text elsewhere) and the
loop over the 32-byte slots of a directory block.
"""
import re

from rustfront import ShapeError, Items, parse_fn_body, parse_params, parse_type
from translate import V, lname, atom, conj
import translate_m
from translate_m import MCtx, stmts_of, pretty_m
import translate_mgr
from translate_mgr import MgrFull, MGR_FILES

DIR_FILES = MGR_FILES

# methods of `FatVolume` (self) that are bindings here: Rust name -> (Lean function, takes the block cache?, result type)
ENGINE = {
    "next_cluster": ("Fat.nextCluster", True, ("nt", "ClusterId", ("int", 32)), True),
    "alloc_cluster": ("Fat.allocCluster", True, ("nt", "ClusterId", ("int", 32)), True),
    "free_cluster_chain": ("Fat.freeClusterChain", True, ("unit",), True),
    "cluster_to_block": ("Fat.clusterToBlock v", False, ("nt", "BlockIdx", ("int", 32)), False),
}

# pure methods of `OnDiskDirEntry` (a 32-byte slot), `DirEntry`: Rust name -> (Lean function, argument order, result type)
ONDISK = {
    "is_end": ("OnDisk.isEnd", ("bool",)),
    "is_valid": ("OnDisk.isValid", ("bool",)),
    "is_lfn": ("OnDisk.isLfn", ("bool",)),
    "matches": ("OnDisk.matches", ("bool",)),
    "lfn_contents": ("OnDisk.lfnContents", None),
    "get_entry": ("OnDisk.getEntry", ("vrec", "DirEntry")),
}


# enums with payloads whose values are values of a model inductive of the same shape: Rust name -> Lean name
# (constructors and the order of their arguments are those of the Rust declaration)
VENUMS = {"SeqState": "SeqState"}


class DirFull(MgrFull):
    mon = "F"
    cache_blk = "cacheBlk"

    def cache_modify(self, fn):
        return f"(cacheModify {fn})"

    # ------------------------------------------------------------------ types
    def conv_type(self, ty, what, impl=None):
        t = ty
        while t[0] == "tref":
            t = t[1]
        if t[0] == "ty" and t[1] == "OnDiskDirEntry":
            return ("bytes", 32)
        if t[0] == "ty" and t[1] == "FatType":
            return ("xenum", "FatType")
        if t[0] == "ty" and t[1] in VENUMS:
            return ("xenum", t[1])
        if t[0] == "ty" and t[1] == "Self" and impl in VENUMS:
            return ("xenum", impl)
        if t[0] == "ty" and t[1] == "LfnBuffer":
            return ("lfnbuf",)
        if t[0] == "ty" and t[1] == "str":
            return ("bytes", None)
        return super().conv_type(ty, what, impl)

    def deep_res(self, t):
        t = self.res(t)
        if t[0] == "tuple":
            return ("tuple", [self.deep_res(x) for x in t[1]])
        if t[0] in ("option", "result", "calls"):
            return (t[0], self.deep_res(t[1]))
        return t

    def lean_type(self, t, what):
        t = self.deep_res(t)
        t2 = t
        if t2[0] == "tuple":
            return "(" + " × ".join(self.lean_type(x, what) for x in t2[1]) + ")"
        if t2[0] == "xenum" and t2[1] == "FatType":
            return "FatType"
        if t2[0] == "xenum" and t2[1] in VENUMS:
            return VENUMS[t2[1]]
        if t2[0] == "lfnbuf":
            return "Lfn.Buf"
        if t2[0] == "ondisk":
            return "List UInt8"
        if t2[0] == "clock":
            return "Timestamp"
        if t2[0] == "calls":
            if t2[1][0] == "var":
                # the element type is known only once the first call of the callback has been translated
                return f"List \x01C{t2[1][1]}\x02"
            inner = self.lean_type(t2[1], what)
            return f"List ({inner})" if " " in inner else f"List {inner}"
        return super().lean_type(t, what)

    def translate_m(self, key):
        fresh = key not in self.mdone
        info = super().translate_m(key)
        if fresh:
            def rep(m):
                t = self.deep_res(("var", int(m.group(1))))
                if t[0] == "var":
                    raise ShapeError(f"{info.name}: the callback is never called: the type of its arguments is unknown")
                inner = self.lean_type(t, info.name)
                return f"({inner})" if " " in inner else inner

            def fix(x):
                if isinstance(x, str):
                    return re.sub("\x01C(\\d+)\x02", rep, x)
                if isinstance(x, tuple):
                    return tuple(fix(y) for y in x)
                if isinstance(x, list):
                    return [fix(y) for y in x]
                return x
            info.body = fix(info.body)
            info.aux = fix(info.aux)
        return info


    def unify(self, a, b, what):
        a2, b2 = self.res(a), self.res(b)
        if a2[0] == "calls" and b2[0] == "calls":
            return ("calls", self.unify(a2[1], b2[1], what))
        return super().unify(a, b, what)

    def show(self, t):
        t2 = self.res(t)
        if t2[0] == "calls":
            return "calls"
        if t2[0] == "ondisk":
            return "OnDiskDirEntry"
        return super().show(t)

    # ------------------------------------------------------------------ the time source
    def is_clock_type(self, pn, pty):
        t = pty
        while t[0] == "tref":
            t = t[1]
        return pn == "time_source" and t[0] == "ty" and t[1] == "T" and not t[2]

    # ------------------------------------------------------------------ callbacks
    # A parameter `func: F` (a closure the function calls) is represented by the list of the argument tuples it has
    # been called with: the function takes the list so far (`calls`), `func(a, b)` appends `(a, b)`, and the list is
    # what `Ok(())` hands back.
    def is_callback(self, pn, pty):
        t = pty
        while t[0] == "tref":
            t = t[1]
        return pn == "func" and t[0] == "ty" and t[1] == "F" and not t[2]

    def has_callback(self, env):
        return "func" in env and env["func"][0] == "val" and self.res(env["func"][2])[0] == "calls"

    def callee_callback_index(self, name, impl):
        """position (among all declared parameters) of the callback parameter of `impl::name`, or None"""
        key = (impl, name)
        if key not in self.items.fns:
            return None
        _sk, params = parse_params(self.items.fns[key], self.items)
        for idx, (pn, pty) in enumerate(params):
            if self.is_callback(pn, pty):
                return idx
        return None

    def rewrite_body(self, body, env, ctx):
        # a call `self.g(.., |a, b| { .. })` of a function with a callback: run `g` with an empty list, then run the
        # closure over the list it hands back, in order
        def rwc(n):
            if isinstance(n, tuple):
                if n and n[0] == "mcall" and n[1] == ("path", ["self"]):
                    ci = self.callee_callback_index(n[2], ctx.impl)
                    if ci is not None and ci < len(n[3]) and n[3][ci][0] == "closure":
                        tmp = self.tmp()
                        args = list(n[3])
                        closure = args[ci]
                        if closure[2][0] != "block":
                            closure = ("closure", closure[1], ("block", [("expr", closure[2])], None))
                        elif closure[2][2] is not None:
                            closure = ("closure", closure[1], ("block", list(closure[2][1]) + [("expr", closure[2][2])], None))
                        args[ci] = ("path", ["__nil"])
                        return ("block", [("let", ("pbind", tmp), None, ("try", ("mcall", n[1], n[2], args))),
                                          ("expr", ("__fold", closure, ("path", [tmp])))],
                                ("call", ("path", ["Ok"]), [("tuple", [])]))
                return tuple(rwc(x) for x in n)
            if isinstance(n, list):
                return [rwc(x) for x in n]
            return n
        body = rwc(body)
        if any(b[0] == "val" and self.res(b[2]) == ("lfnbuf",) for b in env.values()):
            body = self.rewrite_lfn(body, env, ctx)
        if not self.has_callback(env):
            return body

        def rw(n):
            if isinstance(n, tuple):
                if n and n[0] == "block" and n[2] is not None and n[2][0] == "call" and n[2][1] == ("path", ["func"]):
                    # a call of the callback as the value of a block (it returns `()`): a statement of that block
                    return rw(("block", list(n[1]) + [("expr", n[2])], None))
                if n and n[0] == "expr" and n[1][0] == "call" and n[1][1] == ("path", ["func"]):
                    return ("expr", ("assign", "=", ("path", ["func"]),
                                     ("call", ("path", ["__push"]), [("path", ["func"]), ("tuple", list(n[1][2]))])))
                if n == ("call", ("path", ["Ok"]), [("tuple", [])]):
                    return ("call", ("path", ["Ok"]), [("path", ["func"])])
                return tuple(rw(x) for x in n)
            if isinstance(n, list):
                return [rw(x) for x in n]
            return n
        return rw(body)

    def adjust_ret(self, ret, env, ctx):
        if self.has_callback(env):
            if self.res(ret) != ("unit",):
                raise ShapeError(f"{ctx.what}: a function with a callback must return `Result<(), _>`")
            return env["func"][2]
        return ret

    def self_value(self, decl, self_kind):
        if decl.impl in VENUMS and self_kind == "self":
            return ("xenum", decl.impl)
        return None

    def is_value_outparam(self, ty):
        return self.res(ty) == ("lfnbuf",)

    def lfn_var(self, e, env):
        return e[0] == "path" and len(e[1]) == 1 and e[1][0] in env and env[e[1][0]][0] == "val" and \
            self.res(env[e[1][0]][2]) == ("lfnbuf",)

    def rewrite_lfn(self, body, env, ctx):
        """`b.clear();` / `b.push(&x);` on a `&mut LfnBuffer` variable `b` are assignments to `b`; `b.as_str()` reads it;
        `b` handed to a callee's `&mut LfnBuffer` parameter is `&mut b`"""
        def rw(n, stmt=False):
            if isinstance(n, tuple):
                if n and n[0] == "expr" and n[1][0] == "mcall" and self.lfn_var(n[1][1], env):
                    m = n[1]
                    if m[2] == "clear" and not m[3]:
                        return ("expr", ("assign", "=", m[1], ("call", ("path", ["__lfn_clear"]), [m[1]])))
                    if m[2] == "push" and len(m[3]) == 1:
                        return ("expr", ("assign", "=", m[1], ("try", ("call", ("path", ["__lfn_push"]), [m[1], rw(m[3][0])]))))
                if n and n[0] == "mcall" and self.lfn_var(n[1], env):
                    if n[2] == "as_str" and not n[3]:
                        return ("call", ("path", ["__lfn_as_str"]), [n[1]])
                    raise ShapeError(f"{ctx.what}: `.{n[2]}` on the long-name buffer is outside the subset here")
                if n and n[0] == "mcall":
                    args = [("ref", a, "mut") if self.lfn_var(a, env) else rw(a) for a in n[3]]
                    return ("mcall", rw(n[1]), n[2], args)
                return tuple(rw(x) for x in n)
            if isinstance(n, list):
                return [rw(x) for x in n]
            return n
        return rw(body)

    def payload_param(self, pty):
        """`x: &Fat16Info` / `&Fat32Info` -> variant name ("Fat16" / "Fat32") or None"""
        t = pty
        while t[0] == "tref":
            t = t[1]
        if t[0] == "ty" and t[1] in ("Fat16Info", "Fat32Info") and not t[2]:
            return t[1][:-4]
        return None

    def special_param(self, pn, pty, env, plist, ctx):
        if self.is_clock_type(pn, pty):
            env[pn] = ("val", "now", ("clock",))
            plist.append(("now", ("clock",)))
            return True
        if self.is_callback(pn, pty):
            ty = ("calls", self.fresh_any())
            env[pn] = ("val", "calls", ty)
            plist.append(("calls", ty))
            return True
        vn = self.payload_param(pty)
        if vn is not None:
            # the payload of `self.fat_specific_info`, which lives in the same flat volume record
            if ctx.record is None or "fat_specific_info" not in ctx.record["enum_fields"]:
                raise ShapeError(f"{ctx.what}: a `{vn}Info` parameter outside a method of FatVolume")
            ef = ctx.record["enum_fields"]["fat_specific_info"]
            _ctor, fmap = ef["variants"][vn]
            tys = {}
            for fname, fty, isref in self.struct_fields(vn + "Info", ctx.what):
                if fname in fmap:
                    tys[fname] = (f"{ctx.record['var']}.{fmap[fname]}", self.conv_type(fty, ctx.what, vn + "Info"))
            env[pn] = ("payload", vn, tys)
            return True
        return False

    def special_arg(self, pn, pty, a, env, ctx):
        if self.is_clock_type(pn, pty):
            if not (a == ("path", ["time_source"]) and env.get("time_source", (None, None, None))[2] == ("clock",)):
                raise ShapeError(f"{ctx.what}: the time source must be passed on as it is")
            return "now"
        if self.is_callback(pn, pty):
            if a != ("path", ["__nil"]):
                raise ShapeError(f"{ctx.what}: a callback argument must be a closure written in place")
            return "[]"
        vn = self.payload_param(pty)
        if vn is not None:
            b = a
            while b[0] == "ref":
                b = b[1]
            if not (b[0] == "path" and len(b[1]) == 1 and b[1][0] in env and env[b[1][0]][0] == "payload" and
                    env[b[1][0]][1] == vn):
                raise ShapeError(f"{ctx.what}: `{pn}` must be given the payload bound by the match on fat_specific_info")
            return ""
        return None

    # ------------------------------------------------------------------ bindings
    def tr_struct(self, e, env, ctx):
        _, sname, fields = e
        if "::" in sname and sname.split("::")[0] in VENUMS:
            en, vn = sname.split("::")
            names = self.items.variant_fields.get((en, vn))
            payload = dict(self.items.enums[en]).get(vn)
            if names is None or payload is None:
                raise ShapeError(f"{ctx.what}: {sname} is not a struct-like variant")
            given = dict(fields)
            if set(given) != set(names):
                raise ShapeError(f"{ctx.what}: {sname}: wrong fields")
            parts = []
            for fn_, pt in zip(names, payload):
                v = self.tr(given[fn_], env, ctx)
                self.unify(v.ty, self.conv_type(parse_type(pt, ctx.what, self.items), ctx.what), ctx.what)
                parts.append(self.arg(v, ctx))
            return V(f"({VENUMS[en]}.{vn} " + " ".join(parts) + ")", ("xenum", en))
        return super().tr_struct(e, env, ctx)

    def tr_call(self, e, env, ctx):
        _, f, args = e
        if f == ("path", ["__lfn_clear"]) and len(args) == 1:
            b = self.tr(args[0], env, ctx)
            self.unify(b.ty, ("lfnbuf",), ctx.what)
            return V(f"(Lfn.clear {self.arg(b, ctx)})", ("lfnbuf",))
        if f == ("path", ["__lfn_as_str"]) and len(args) == 1:
            b = self.tr(args[0], env, ctx)
            self.unify(b.ty, ("lfnbuf",), ctx.what)
            return V(f"(Lfn.asStr {self.arg(b, ctx)})", ("bytes", None))
        if f == ("path", ["__push"]) and len(args) == 2:
            l, x = self.tr(args[0], env, ctx), self.tr(args[1], env, ctx)
            lt = self.res(l.ty)
            if lt[0] != "calls":
                raise ShapeError(f"{ctx.what}: internal: __push on {self.show(lt)}")
            xt = x.ty
            xr = self.res(xt)
            if xr[0] == "tuple" and len(xr[1]) == 1:
                xt = xr[1][0]
            self.unify(lt[1], xt, ctx.what)
            return V(f"({l.lean} ++ [{self.value(x, ctx)}])", l.ty)
        if f[0] == "path" and f[1][-2:] == ["OnDiskDirEntry", "new"] and len(args) == 1:
            v = self.tr(args[0], env, ctx)
            if self.res(v.ty)[0] != "bytes":
                raise ShapeError(f"{ctx.what}: OnDiskDirEntry::new of {self.show(v.ty)}")
            return V(v.lean, ("ondisk",), v.ok)
        if f[0] == "path" and f[1][-2:] == ["DirEntry", "new"] and len(args) == 6:
            vs = [self.tr(a, env, ctx) for a in args]
            want = [("bytes", 11), ("nt", "Attributes", ("int", 8)), ("nt", "ClusterId", ("int", 32)),
                    ("opaque", "Timestamp"), ("nt", "BlockIdx", ("int", 32)), ("int", 32)]
            for v, w in zip(vs, want):
                self.unify(v.ty, w, ctx.what)
            return V("(DirEntry.new " + " ".join(self.arg(v, ctx) for v in vs) + ")", ("vrec", "DirEntry"))
        return super().tr_call(e, env, ctx)

    def tr_mcall(self, e, env, ctx):
        _, recv, name, args = e
        # the time source handed to the function: its value during the call is the extra parameter `now`
        if recv[0] == "path" and recv[1] == ["time_source"] and name == "get_timestamp" and not args and \
                "time_source" in env and env["time_source"][2] == ("clock",):
            return V("now", ("opaque", "Timestamp"))
        if name == "csum" and not args and not self.is_effectful(recv, env, ctx):
            try:
                rv0 = self.tr(recv, env, ctx)
            except ShapeError:
                rv0 = None
            if rv0 is not None and self.res(rv0.ty) == ("bytes", 11):
                # `ShortFileName::csum` (BINDING; `Props/C18Gen.csum_eq`)
                return V(f"(Sfn.csum {self.arg(rv0, ctx)})", ("int", 8))
        if name in ONDISK or name == "serialize":
            try:
                rv = self.tr(recv, env, ctx)
            except ShapeError:
                rv = None
            if rv is not None:
                rt = self.res(rv.ty)
                if rt == ("ondisk",) and name in ONDISK:
                    fn, ret = ONDISK[name]
                    vs = [self.tr(a, env, ctx) for a in args]
                    d = self.arg(rv, ctx)
                    if name == "matches":
                        self.unify(vs[0].ty, ("bytes", 11), ctx.what)
                        return V(f"({fn} {d} {self.arg(vs[0], ctx)})", ("bool",))
                    if name == "get_entry":
                        self.unify(vs[0].ty, ("xenum", "FatType"), ctx.what)
                        self.unify(vs[1].ty, ("nt", "BlockIdx", ("int", 32)), ctx.what)
                        self.unify(vs[2].ty, ("int", 32), ctx.what)
                        return V(f"({fn} {self.arg(vs[0], ctx)} {d} {self.arg(vs[1], ctx)} {self.arg(vs[2], ctx)})",
                                 ("vrec", "DirEntry"))
                    if name == "lfn_contents":
                        return V(f"({fn} {d})", ("option", ("tuple", [("bool",), ("int", 8), ("int", 8), ("arr", ("int", 16), 13)])))
                    if args:
                        raise ShapeError(f"{ctx.what}: `{name}` takes no arguments")
                    return V(f"({fn} {d})", ret)
                if rt == ("vrec", "DirEntry") and name == "serialize" and len(args) == 1:
                    ft = self.tr(args[0], env, ctx)
                    self.unify(ft.ty, ("xenum", "FatType"), ctx.what)
                    return V(f"(DirEntry.serialize {self.arg(ft, ctx)} {self.arg(rv, ctx)})", ("bytes", 32))
        # pure functions of the volume record
        if recv == ("path", ["self"]) and name == "cluster_to_block" and len(args) == 1 and ctx.record is not None:
            c = self.tr(args[0], env, ctx)
            self.unify(c.ty, ("nt", "ClusterId", ("int", 32)), ctx.what)
            return V(f"(Fat.clusterToBlock {ctx.record['var']} {self.arg(c, ctx)})", ("nt", "BlockIdx", ("int", 32)))
        if recv == ("path", ["self"]) and name == "get_fat_type" and not args and ctx.record is not None:
            return V(f"{ctx.record['var']}.fatType", ("xenum", "FatType"))
        return super().tr_mcall(e, env, ctx)

    def callee_modifies(self, key):
        if key[0] == "FatVolume" and key[1] in ENGINE:
            return key[1] in ("alloc_cluster", "free_cluster_chain")
        return super().callee_modifies(key)

    def is_cache_param(self, a, env, ctx):
        while a[0] == "ref":
            a = a[1]
        return a[0] == "path" and len(a[1]) == 1 and a[1][0] in env and env[a[1][0]][0] == "cacheparam"

    def mclass(self, e, env, ctx):
        # the FAT engine (BINDINGS: the model's functions; the translations in Gen/FunsM.lean are proved equal to them)
        if e[0] == "mcall" and e[1] == ("path", ["self"]) and e[2] in ENGINE and ENGINE[e[2]][1] and \
                ctx.record is not None:
            fn, _cache, ret, fallible = ENGINE[e[2]]
            args = list(e[3])
            if not args:
                raise ShapeError(f"{ctx.what}: {e[2]} must be given the block cache")
            args = args[1:]
            vs = [self.tr(a, env, ctx) for a in args]
            lean = fn + "".join(" " + self.arg(v, ctx) for v in vs)
            return ("m" if fallible else "mi", f"({lean})", ret, False)
        if e[0] == "call" and e[1] == ("path", ["__lfn_push"]) and len(e[2]) == 2:
            b = self.tr(e[2][0], env, ctx)
            x = self.tr(e[2][1], env, ctx)
            self.unify(b.ty, ("lfnbuf",), ctx.what)
            self.unify(x.ty, ("arr", ("int", 16), 13), ctx.what)
            return ("m", f"(F.lift (Lfn.push {self.arg(b, ctx)} {self.arg(x, ctx)}))", ("lfnbuf",), False)
        # a method of a value enum that needs the monad (`seq_state.update(&mut lfn_buffer, ..)`)
        if e[0] == "mcall" and e[1][0] == "path" and len(e[1][1]) == 1 and e[1][1][0] in env and \
                env[e[1][1][0]][0] == "val" and self.res(env[e[1][1][0]][2])[0] == "xenum" and \
                self.res(env[e[1][1][0]][2])[1] in VENUMS:
            tn = self.res(env[e[1][1][0]][2])[1]
            key = (tn, e[2])
            if key in self.items.fns and self.is_monadic(key):
                info = self.translate_m(key)
                outnames = [n for n, _t in info.outparams]
                back, vals = [], [self.tr(e[1], env, ctx)]
                for pn, a in zip(info.param_names, e[3]):
                    if pn in outnames:
                        if not (a[0] == "ref" and len(a) == 3 and a[1][0] == "path" and len(a[1][1]) == 1 and
                                a[1][1][0] in env and env[a[1][1][0]][0] == "val"):
                            raise ShapeError(f"{ctx.what}: `&mut` argument of {e[2]} must be a local variable")
                        back.append(a[1][1][0])
                        vals.append(self.tr(a[1], env, ctx))
                    else:
                        vals.append(self.tr(a, env, ctx))
                it = iter(info.params[1:] if info.fuel else info.params)
                actual = []
                for v in vals:
                    lp, lt = next(it)
                    self.unify(v.ty, lt, ctx.what)
                    actual.append(self.arg(v, ctx))
                if info.fuel:
                    ctx.info.fuel = True
                    actual = ["fuel"] + actual
                lean = "(" + info.name + "".join(" " + a for a in actual) + ")"
                if back:
                    return ("mo", lean, info.ret, False, back, None, not info.fallible)
                return ("m" if info.fallible else "mi", lean, info.ret, False)
        return super().mclass(e, env, ctx)

    def is_monadic(self, key):
        if key[0] in VENUMS:
            return True
        return super().is_monadic(key)

    def is_effectful(self, node, env, ctx):
        if super().is_effectful(node, env, ctx):
            return True
        found = [False]

        def walk(n):
            if found[0]:
                return
            if isinstance(n, tuple) and n:
                if n[0] == "call" and n[1] == ("path", ["__lfn_push"]):
                    found[0] = True
                    return
                if n[0] == "__fold":
                    found[0] = True
                    return
                if n[0] == "mcall" and n[1][0] == "path" and len(n[1][1]) == 1 and n[1][1][0] in env and \
                        env[n[1][1][0]][0] == "val" and self.res(env[n[1][1][0]][2])[0] == "xenum" and \
                        self.res(env[n[1][1][0]][2])[1] in VENUMS and \
                        (self.res(env[n[1][1][0]][2])[1], n[2]) in self.items.fns:
                    found[0] = True
                    return
                for x in n:
                    walk(x)
            elif isinstance(n, list):
                for x in n:
                    walk(x)
        walk(node)
        return found[0]

    # ------------------------------------------------------------------ `match (a, b, c) { .. }` with guards
    def comp_tests(self, pat, val, env2, ctx):
        """one component: -> (list of Prop texts, wrapper or None) where wrapper(inner, rest) destructures an enum value:
        `match v with | C x y => inner | _ => rest`.  Bindings go to env2."""
        while pat[0] == "pref":
            pat = pat[1]
        t = self.res(val.ty)
        if pat[0] == "pwild":
            return [], None
        if pat[0] == "pbind" and pat[1] in ("true", "false") and t == ("bool",):
            return [f"{val.lean} = {pat[1]}"], None
        if pat[0] == "pbind":
            self.check_local(pat[1], ctx)
            env2[pat[1]] = ("val", val.lean, val.ty)       # the same value under the arm's name
            return [], None
        if pat[0] == "plit" and t[0] in ("int", "usize", "var"):
            return [f"{val.lean} = {pat[1]}"], None
        if pat[0] in ("pstruct", "ptuple", "ppath") and t[0] == "xenum" and t[1] in VENUMS and len(pat[1]) >= 1 and \
                (len(pat[1]) == 1 or pat[1][-2] == t[1]):
            vn = pat[1][-1]
            payload = dict(self.items.enums[t[1]]).get(vn)
            if payload is None:
                raise ShapeError(f"{ctx.what}: no variant {t[1]}::{vn}")
            names = self.items.variant_fields.get((t[1], vn), [])
            subs = {}
            if pat[0] == "pstruct":
                subs = dict(pat[2])
            elif pat[0] == "ptuple":
                subs = {i: q for i, q in enumerate(pat[2])}
            binders = []
            for idx, pt in enumerate(payload):
                q = subs.get(names[idx] if names else idx, ("pwild",))
                while q[0] == "pref":
                    q = q[1]
                if q[0] == "pwild":
                    binders.append("_")
                elif q[0] == "pbind":
                    self.check_local(q[1], ctx)
                    binders.append(lname(q[1]))
                    env2[q[1]] = ("val", lname(q[1]), self.conv_type(parse_type(pt, ctx.what, self.items), ctx.what))
                else:
                    raise ShapeError(f"{ctx.what}: nested pattern in {t[1]}::{vn} is outside the subset")
            head = f"{VENUMS[t[1]]}.{vn}" + "".join(" " + b for b in binders)
            if len(self.items.enums[t[1]]) == 1:
                return [], (lambda inner, rest: f"(match {val.lean} with | {head} => {inner})")
            return [], (lambda inner, rest: f"(match {val.lean} with | {head} => {inner} | _ => {rest})")
        raise ShapeError(f"{ctx.what}: pattern outside the subset in a match on a tuple")

    def match_on(self, scrut, arms, env, ctx, leaf):
        sc = scrut
        while sc[0] in ("ref", "paren"):
            sc = sc[1]
        comps = None
        if sc[0] == "tuple" and len(sc[1]) >= 2 and not self.is_effectful(sc, env, ctx):
            comps = list(sc[1])
        elif not self.is_effectful(sc, env, ctx):
            try:
                sv0 = self.tr(sc, env, ctx)
            except ShapeError:
                sv0 = None
            if sv0 is not None and self.res(sv0.ty)[0] == "xenum" and self.res(sv0.ty)[1] in VENUMS:
                comps = [sc]
                arms = [((("ptuple", [], [p]) if p[0] != "pwild" else p), g, b) for p, g, b in arms]
        if comps is None:
            return super().match_on(scrut, arms, env, ctx, leaf)
        vals = [self.tr(c, env, ctx) for c in comps]
        for v in vals:
            if not atom(v.lean):
                raise ShapeError(f"{ctx.what}: the components of a matched tuple must be names")

        def compile_(k):
            if k == len(arms):
                raise ShapeError(f"{ctx.what}: the last arm of a match on a tuple must be a catch-all")
            pat, guard, body = arms[k]
            while pat[0] == "pref":
                pat = pat[1]
            env2 = dict(env)
            tests, wraps = [], []
            if pat[0] == "pwild":
                pass
            elif pat[0] == "ptuple" and not pat[1] and len(pat[2]) == len(vals):
                for q, v in zip(pat[2], vals):
                    ts, w = self.comp_tests(q, v, env2, ctx)
                    tests += ts
                    if w is not None:
                        wraps.append(w)
            else:
                raise ShapeError(f"{ctx.what}: pattern outside the subset in a match on a tuple")
            irrefutable = not tests and not wraps and guard is None
            inner = leaf(body, env2)
            if irrefutable:
                return inner
            rest = compile_(k + 1)
            if guard is not None:
                g = self.tr(guard, env2, ctx)
                inner = f"(if {self.as_prop(g, ctx)} then {inner} else {rest})"
            for w in reversed(wraps):
                inner = w(inner, rest)
            if tests:
                inner = f"(if {' ∧ '.join(tests)} then {inner} else {rest})"
            return inner
        return compile_(0)

    def tr_path(self, e, env, ctx):
        segs = e[1]
        if segs == ["__nil"]:
            return V("[]", ("calls", self.fresh_any()))
        if len(segs) >= 2 and segs[-2] in VENUMS:
            for vname, payload in self.items.enums[segs[-2]]:
                if vname == segs[-1] and payload == []:
                    return V(f"{VENUMS[segs[-2]]}.{vname}", ("xenum", segs[-2]))
            raise ShapeError(f"{ctx.what}: {segs[-2]}::{segs[-1]} needs its fields")
        if segs[-2:] == ["FatType", "Fat16"]:
            return V("FatType.fat16", ("xenum", "FatType"))
        if segs[-2:] == ["FatType", "Fat32"]:
            return V("FatType.fat32", ("xenum", "FatType"))
        return super().tr_path(e, env, ctx)

    # ------------------------------------------------------------------ a closure run over the calls of a callee
    def mrun(self, stmts, env, ctx, k):
        if stmts and stmts[0][0] == "expr" and stmts[0][1][0] == "__fold":
            _, closure, lst = stmts[0][1]
            lv = self.tr(lst, env, ctx)
            lt = self.res(lv.ty)
            if lt[0] != "calls":
                raise ShapeError(f"{ctx.what}: internal: __fold over {self.show(lt)}")
            et = self.res(lt[1])
            params = closure[1]
            ets = et[1] if et[0] == "tuple" else [et]
            if len(params) != len(ets):
                raise ShapeError(f"{ctx.what}: the closure takes {len(params)} arguments, the callee calls it with {len(ets)}")
            body = closure[2]
            names = self.mstate_vars(body, env, ctx)
            x, st = self.tmp(), self.tmp()
            env_b = dict(env)
            binds = ""
            for idx, (pn, pt) in enumerate(zip(params, ets)):
                if pn == "_":
                    continue
                self.check_local(pn, ctx)
                if pn in names:
                    raise ShapeError(f"{ctx.what}: a closure parameter is assigned")
                proj = x if len(ets) == 1 else x + ".2" * idx + (".1" if idx < len(ets) - 1 else "")
                binds += f"let {lname(pn)} := {proj}; "
                env_b[pn] = ("val", lname(pn), pt)
            unpack_in = self.unpack_m(names, st, env, "BODY") if names else "BODY"
            btext = self.mrun(stmts_of(body) if body[0] == "block" else [("expr", body)], env_b, ctx,
                              lambda env2: f"(pure {self.tuple_m(names, env2) if names else '()'})")
            inner = f"({binds}{btext})"
            fn = f"(fun {st if names else '_'} {x} => {unpack_in.replace('BODY', inner)})"
            init = self.tuple_m(names, env) if names else "()"
            out = self.tmp()
            rest = self.mrun(stmts[1:], env, ctx, k)
            return self.bind(f"(forEachCall {lv.lean} {init} {fn})", out if names else "_",
                             self.unpack_m(names, out, env, rest) if names else rest)
        return super().mrun(stmts, env, ctx, k)

    # ------------------------------------------------------------------ the slots of a block
    def chunk_loop(self, it, env, ctx):
        """`BLOCK.chunks_exact(N).enumerate()` / `chunks_exact_mut` -> (block ast, N ast) or None"""
        if not (it[0] == "mcall" and it[2] == "enumerate" and not it[3]):
            return None
        c = it[1]
        if not (c[0] == "mcall" and c[2] in ("chunks_exact", "chunks_exact_mut") and len(c[3]) == 1):
            return None
        b = c[1]
        if not (b[0] == "path" and len(b[1]) == 1 and b[1][0] in env and env[b[1][0]][0] == "cacheblk"):
            raise ShapeError(f"{ctx.what}: `chunks_exact` on something that is not the cache block")
        return b, c[3][0]

    def subst_var(self, node, name, repl):
        if isinstance(node, tuple):
            if node == ("path", [name]):
                return repl
            if node and node[0] in ("let", "for") and False:
                return node
            return tuple(self.subst_var(x, name, repl) for x in node)
        if isinstance(node, list):
            return [self.subst_var(x, name, repl) for x in node]
        return node

    def st_mfor(self, s, env, ctx, cont):
        _, pat, it, body = s
        m = self.chunk_loop(it, env, ctx)
        if m is None:
            return super().st_mfor(s, env, ctx, cont)
        blk, nexpr = m
        nv = self.tr(nexpr, env, ctx)
        if nv.const is None or nv.const == 0 or 512 % nv.const != 0:
            raise ShapeError(f"{ctx.what}: the chunk length must be a constant that divides the block length")
        while pat[0] == "pref":
            pat = pat[1]
        if not (pat[0] == "ptuple" and not pat[1] and len(pat[2]) == 2 and pat[2][0][0] == "pbind" and
                pat[2][1][0] == "pbind"):
            raise ShapeError(f"{ctx.what}: `(i, chunk)` expected as the pattern of a loop over chunks")
        iv, xv = pat[2][0][1], pat[2][1][1]
        self.check_local(iv, ctx)
        self.check_local(xv, ctx)
        declared = set()
        translate_m.declared_names(body, declared)
        if xv in declared or iv in declared:
            raise ShapeError(f"{ctx.what}: the loop variables of a loop over chunks are re-declared in its body")
        ctr = self.tmp()
        lo = ("bin", "*", ("path", [iv]), nexpr)
        chunk = ("index", blk, ("range", lo, ("bin", "+", lo, nexpr), False))
        body2 = self.subst_var(body, xv, chunk)
        inner = [("let", ("pbind", iv), None, ("path", [ctr])),
                 ("expr", ("assign", "=", ("path", [ctr]), ("bin", "+", ("path", [ctr]), ("lit", 1, None))))] + \
            stmts_of(body2)
        new = [("let", ("pbind", ctr), None, ("lit", 0, "usize")),
               ("for", ("pwild",), ("range", ("lit", 0, None), ("lit", 512 // nv.const, None), False),
                ("block", inner, None))]
        return self.mrun(new, env, ctx, lambda env2: cont({k: v for k, v in env2.items() if k != ctr}))


DIR_FUNCTIONS = [
    ("FatVolume", "find_entry_in_block"), ("FatVolume", "find_directory_entry"),
    ("FatVolume", "delete_entry_in_block"), ("FatVolume", "delete_directory_entry"),
    ("FatVolume", "write_entry_to_disk"),
    ("FatVolume", "write_new_directory_entry"), ("FatVolume", "make_dir"),
    ("FatVolume", "iterate_fat16"), ("FatVolume", "iterate_fat32"), ("FatVolume", "iterate_dir"),
    ("FatVolume", "iterate_dir_lfn"),
]

PRELUDE_DIR = '''/-- A closure handed to a function with a callback, run over the calls that function made (in order); the state
is the tuple of the caller's variables the closure assigns. -/
def forEachCall {α σ : Type} : List α → σ → (σ → α → F σ) → F σ
  | [], st, _ => pure st
  | x :: xs, st, f => f st x >>= fun st' => forEachCall xs st' f
'''


LEAN_HEADER_DIR = '''/-!
# Machine translation of the directory functions of fat/volume.rs into the model's `F` monad

Every definition below is produced by `tools/translate_dir.py` (called from tools/extract.py) from the text of
fat/volume.rs; nothing here is written by hand.  Statements, loops, `?`, early returns, block references and the
volume record are translated as in `Gen/FunsM.lean` (its pure helpers `BlockIdx_range`, `BlockIter_next`, ... are
used from there, not repeated); Rust structs whose values are records of the model (`DirEntry`, `DirectoryInfo`)
as in `Gen/FunsMgr.lean`.  `Props/C06GenM.lean`, `Props/C03GenM.lean`, `Props/C09GenM.lean`, `Props/C06GenIter.lean`,
`Props/C17GenM.lean` compare the definitions with `Model/Fat.lean` (and `Model/Mgr.lean` for the long names).

## Bindings (calls that are NOT translated here: the model's function of the same meaning, tied to the Rust
text by the theorem named)

* `OnDiskDirEntry::new(bytes)` is `bytes`; `is_end() is_valid() is_lfn() matches(name) lfn_contents()
  get_entry(fat_type, block, offset)` are the model's `OnDisk.isEnd .. OnDisk.getEntry` (`Props/C06Gen.lean`,
  `Props/C18GenEnt.lean`: equal to the translations in `Gen/FunsEnt.lean`); `DirEntry::new(..)`,
  `entry.serialize(fat_type)` are `DirEntry.new`, `DirEntry.serialize` (`Props/C18GenEnt.lean`); `FatType::Fat16 /
  Fat32` are `FatType.fat16 / fat32`; `ShortFileName` is its eleven bytes.
* `self.next_cluster(block_cache, c)`, `self.alloc_cluster(block_cache, prev, zero)`,
  `self.free_cluster_chain(block_cache, c)` are `Fat.nextCluster`, `Fat.allocCluster`, `Fat.freeClusterChain`
  (`Props/C04GenM.lean`, `Props/C16GenM.lean`: equal to the translations in `Gen/FunsM.lean`, the last two for
  every fuel above a stated bound); `self.cluster_to_block(c)` is `Fat.clusterToBlock v c`, `self.get_fat_type()` is
  `v.fatType`.
* `time_source.get_timestamp()`: the function takes the extra argument `now`, the value of the clock during the
  call (the model's convention).

## Added here

* `for (i, chunk) in block.chunks_exact(N).enumerate()` (also `chunks_exact_mut`) over the cache block, `N` a
  constant that divides 512: a counted loop of `512 / N` iterations with a counter `i`; `chunk` is
  `block[i * N .. i * N + N]` wherever it is used (`OnDiskDirEntry::new(chunk)`, `chunk.copy_from_slice(..)`).
* `while let Some(x) = e { .. }` is `loop { if let Some(x) = e { .. } else { break } }`.
* `match call(..) { Err(Error::X) => .., x => return x }`: in the last arm `x` is the outcome itself.
* `ITER.skip(k)` with a literal `k`: `next` is called `k` times first.
* `let _ = call(..);` is `F.attempt call` with the outcome dropped (a panic of `call` is dropped too, as in
  the model's `makeDir`).
* A parameter `fat16_info: &Fat16Info` / `fat32_info: &Fat32Info` is the payload of `self.fat_specific_info`, which
  lives in the same flat volume record: no argument of its own.
* CALLBACKS.  A parameter `func: F` (a closure the function calls) is represented by the list of the argument tuples
  it is called with: the function takes the list so far as the argument `calls`, `func(a, b)` appends `(a, b)`, and
  the list is what `Ok(())` hands back (after an `Err` the calls made so far are not reported, as in the model).
  A call `self.g(.., |a, b| { .. })` with a closure written in place runs `g` with the empty list and then the
  closure over the list `g` hands back, in order (`forEachCall`; the state is the tuple of the caller's variables
  the closure assigns, a call of the caller's own callback inside it appends to the caller's list).  This is exact
  for closures that do not touch the device or the volume (the two in fat/volume.rs do not): running them after `g`
  instead of in between its steps changes nothing they can see.  After an `Err` of `g` the closure has not run at
  all here: the caller's variables it assigns (the long-name buffer of `iterate_dir_lfn`) are NOT modelled after an
  `Err`.
* `enum` / `impl` items written inside a function body are items like the others.  An enum with payloads whose
  values are values of a model inductive of the same shape (`SeqState`, table `VENUMS`): struct-like variants take
  their fields in the order of the declaration (`SeqState::Remaining { csum, next }` is `SeqState.Remaining csum
  next`); a method with `self` by value (`SeqState::update`) is a function of `self_`.
* `match (a, b, c) { (true, 0x01, _) => .., (false, s, SeqState::Remaining { csum: c, next }) if g => .., _ => .. }`
  on a tuple of names (also on one value of such an enum, `if let SeqState::Complete { csum } = st`): the arms in
  order, each `if <literal tests> then (match <enum component> with | C x y => (if g then body else REST) | _ =>
  REST) else REST` with REST the translation of the arms after it; the last arm must be a catch-all.
* `lfn_buffer: &mut LfnBuffer` is a value of the model's `Lfn.Buf`, handed back next to the result like the other
  `&mut` parameters; `b.clear()` is `b := Lfn.clear b`, `b.push(&frag)` is `b ← F.lift (Lfn.push b frag)` (a panic of
  `push` is a panic), `b.as_str()` is `Lfn.asStr b` (BINDINGS to `Model/Lfn.lean`; `LfnBuffer` itself is tied in the
  filename tier).  `name.csum()` of a `ShortFileName` is `Sfn.csum name` (`Props/C18Gen.csum_eq`).
  `if let Some((a, b, c, d)) = x.lfn_contents()` binds the components of the payload.
-/
'''


def render_dir(T, base):
    """base: the translator of Gen/FunsM.lean; what it already defines is used from there"""
    lines = ["import Sdmmc.Model.Mgr\nimport Sdmmc.Gen.FunsM\n", LEAN_HEADER_DIR,
             "set_option linter.unusedVariables false\n", "namespace Sdmmc.Gen.FunsDir\n",
             "open Sdmmc.Model Sdmmc.Gen.FunsM\n", PRELUDE_DIR]
    for kind, name in T.types_used:
        if (kind, name) in base.types_used:
            continue
        if kind != "struct":
            raise ShapeError(f"FunsDir: the generated enum {name} is not supported in monadic mode")
        fl = []
        for fname, fty, isref in T.struct_fields(name, f"struct {name}"):
            if not isref:
                fl.append(f"  {lname(fname)} : {T.lean_type(T.conv_type(fty, 'struct ' + name, name), name)}\n")
        lines.append(f"/-- `struct {name}` (non-reference fields). -/\nstructure {name} where\n" + "".join(fl) +
                     "  deriving DecidableEq, Repr\n")
    for key in T.order:
        info = T.done[key]
        if key in base.done:
            if base.done[key].body != info.body or base.done[key].params != info.params:
                raise ShapeError(f"FunsDir: internal: {info.name} differs from its definition in Gen/FunsM.lean")
            continue
        ps = "".join(f" ({n} : {T.lean_type(t, info.name)})" for n, t in info.params)
        lines.append(f"/-- {info.doc}. -/\ndef {info.name}{ps} : {T.lean_type(info.ret, info.name)} :=\n  "
                     f"{translate_m.pretty(info.body)}\n")
    for key in T.vorder:
        info = T.vdone[key]
        ps = "".join(f" ({n} : {T.lean_type(t, info.name)})" for n, t in info.params)
        lines.append(f"/-- {info.doc}. -/\ndef {info.name}{ps} : {T.lean_type(info.ret, info.name)} :=\n  "
                     f"{translate_m.pretty(info.body)}\n")
    for key in T.morder:
        info = T.mdone[key]
        if key in base.mdone:
            raise ShapeError(f"FunsDir: internal: {info.name} is translated again (it is defined in Gen/FunsM.lean)")
        ps = "".join(f" ({n} : {T.lean_type(t, info.name)})" for n, t in info.params)
        for a in sorted(info.aux, key=lambda a: a[2]):
            lines.append(translate_m.render_loop(T, info, a))
        rt = T.lean_type(info.ret, info.name) if info.pure else T.raw_ret_lean(info, info.name)
        if not info.pure:
            rt = f"{T.mon} ({rt})" if " " in rt else f"{T.mon} {rt}"
        body = pretty_m(info.body) if not info.pure else translate_m.pretty(info.body)
        lines.append(f"/-- {info.doc}. -/\ndef {info.name}{ps} : {rt} :=\n  {body}\n")
    lines.append("end Sdmmc.Gen.FunsDir\n")
    return "\n".join(lines)


def generate_dir(read_src, functions=None):
    items = Items()
    for f in DIR_FILES:
        items.scan_file(f, read_src(f))
    T = DirFull(items)
    for key in (DIR_FUNCTIONS if functions is None else functions):
        T.translate_m(key)
    if functions is not None:
        return T
    items0 = Items()
    for f in translate_m.FILES:
        items0.scan_file(f, read_src(f))
    base = translate_m.MFull(items0)
    for key in translate_m.M_FUNCTIONS:
        base.translate_m(key)
    text = render_dir(T, base)
    summary = {("::".join(str(x) for x in k)): [T.mdone[k].name, T.mdone[k].body, [a[1][1] for a in T.mdone[k].aux]]
               for k in T.morder}
    return text, summary
