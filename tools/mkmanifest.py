#!/usr/bin/env python3
"""Regenerate /verif/MANIFEST.json from the table below (a property is claimed when its
Props file exists under lean/Sdmmc/Props)."""
import json
import os
import subprocess

ROOT = os.path.dirname(os.path.dirname(os.path.abspath(__file__)))

TEXT = {
 "C01": "theorems (all inputs, no bound on sizes): read_refines (Props/C01Read) and write_refines (Props/C01Write): on every manager state whose open file is consistent with the medium (FAT chain exists, long enough; any length, any fragmentation, cursor anywhere) `read` returns exactly the byte-array model's bytes and `write` leaves exactly the byte-array model's contents, length and position (all of the data, or - volume full / 4 GiB limit - an out-of-space error with a stored prefix), re-establishing the invariant; other open files of the same volume and of other partitions keep their record and read back the same bytes (write_other_files_untouched, write_other_volume_untouched); write_then_read; every device write of a write call is a FAT block or a block of the file's own chain. data_history_refines: EVERY history of read / write / seek / length / offset / eof calls on any set of open files of one volume, bad handles included, yields answers allowed by the byte-array model and preserves the invariant. Cursor algebra, find_data_on_disk closed form, partial-block frames (Props/C01). Partial: that open/close/create establish the invariant (C02Reopen covers read-only open) and multi-volume histories are checked, not proved. Correspondence + oracle: generated multi-file, multi-volume histories on the real crate vs the Lean model and vs a byte-array model of every file",
 "C02": "theorems: flushing writes exactly one directory block, changes only the 32 bytes of the file's slot, and the slot then decodes to the flushed entry (name, attributes, size, cluster, times at FAT resolution); other slots preserved (Props/C02). Composition (Props/C02Reopen): reopen_reads_flushed / remount_reads_flushed - after close of a file consistent with the medium, EVERY manager on the resulting medium (in particular a fresh one: open_raw_volume, open_root_dir, open_file_in_dir ReadOnly, read - mounting proved to depend on three blocks the flush does not change) finds the name, reports the flushed length and reads back exactly the flushed bytes, writing nothing; the independent specification reader (Spec.Fs) returns the same chain and bytes (spec_reader_agrees); every other directory slot and every other chain is byte-for-byte unchanged by flush/close (untouched_entries_unchanged, untouched_files_unchanged); opening establishes the file invariant of C01 (open_establishes_fileOK). Partial: name uniqueness in the directory is a hypothesis (C03's invariant), sub-directory remount needs open_dir steps (root covered), whole histories are checked: remount at quiescent points, the independent Lean FAT reader's dump of the crate's medium compared entry for entry with a reference tree",
 "C03": "theorems: allocation only ever returns a free cluster inside the volume, never a slack or reserved entry; create uses the first free slot and never writes past an end marker; new directories get correct dot entries; truncation keeps and terminates the first cluster. The global fsck invariant over histories is NOT proved (partial): the Lean fsck runs on the crate's medium after every single call of generated histories incl. full volumes and full FAT16 roots",
 "C04": "theorems: under the geometry hypothesis established by mounting, FAT entries of the volume's clusters lie in the FAT region, data-cluster blocks in the data region, disjoint from boot sector, info sector, block 0, other clusters; each primitive writes only the blocks it names; slot and FAT-entry writes preserve all other bytes (FAT32 top nibble kept). Composition over whole calls is partial: every write of every call in generated histories is checked by the region/frame oracle",
 "C05": "theorems: the free-cluster search is sound and complete (never a slack entry), allocation succeeds iff the volume has a free cluster (the last one included) and fails with NotEnoughSpace without writing otherwise; truncation / deletion free exactly the chain (tail) and change no other FAT entry; the forest invariant (every used cluster belongs to exactly one chain of a live root; chains pairwise disjoint) and the exactness of a known free count are preserved by EVERY history of FAT-engine operations (new chain, extend, truncate, free) on every volume - no_leak, no_sharing, count_history (Props/C05Forest.lean; fault-free runs). Partial: that each API call is such a sequence of engine operations and that roots = directory entries is checked, not proved: at every quiescent point of generated histories (volumes driven to exactly full and back) the Lean spec compares used clusters with the union of chains",
 "C06": "theorems: a directory block is 16 slots; listing a block / a run of blocks / the FAT16 root / any chained directory yields exactly the live slots up to the end marker, decoded per the FAT layout, in order; lookup returns the first matching non-fragment slot; lookup = find in the listing under the clean-tail hypothesis; create picks the first free slot; iterate_dir hides long-name fragments; open_dir follows the entry (cluster 0 = root). Correspondence: listings, lookups, open_dir on formatter-built directories before and after histories",
 "C07": "theorems: the complete decision table of open_file_in_dir parametrised by the lookup outcome (six modes x missing / file / read-only / directory / already open), solve_mode_variant, read-only handles reject writes, delete / mkdir / open_dir guards, refused calls leave the state as the lookup left it and the lookup never writes. Correspondence: the mode matrix at random points of random histories",
 "C08": "theorems (all histories without counter wrap, all limit configurations): handle tables stay duplicate-free and below the generator, fresh handles are new, bad handles are rejected with no effect, limits are exact, closing frees exactly one slot, volume guards, has_open_handles tells the truth, every Result-returning call under the lock answers LockError and changes nothing. Correspondence: 14 limit configurations, stale/bogus handles, re-entrant calls from both iteration callbacks",
 "C09": "theorems: the per-write frames flushed data relies on - a directory-slot write preserves every other slot, a FAT update preserves every other entry, create only overwrites a free slot, delete changes one byte of the matched slot, allocation only takes free clusters and zeroing only touches the new cluster. The prefix-closure over histories is partial: after every prefix of every later operation's writes the independent Lean reader must still find each flushed file intact",
 "C10": "theorems: exact order of the block writes of allocation (blank, end-of-chain mark, then link), of make_dir (allocate and initialise the new directory before the single parent-entry write), delete (entry first); final FAT contents of an allocation. That every prefix satisfies fsck is partial: the Lean fsck (crash variant) runs after every single write of every operation on images with stale directory data in free clusters",
 "C11": "theorems (every fault placement, every state, every op): any device failure during a FAT-engine function surfaces as DeviceError, any failure during an API call yields an error (never Ok, never panic, never divergence), failed read-only calls write nothing and leave the offset, the cache tag is cleared by a failed read. Correspondence: base histories re-run with a failure at every device-call index and random multi-fault sequences, reads compared",
 "C12": "theorems: CSD bit-field tables = specification positions, capacity formulas = the specification's for both layouts, layout chosen by the register, address mode per card kind, multi-block = singles at the frame level (Props/C12). End to end, the driver model run against the specification card as its bus (Props/C12EndToEnd), for every card kind, either CRC mode and every card timing inside the driver's budgets: a single-block write stores exactly the given bytes at that block and nowhere else; a single-block read returns the stored block; multiple-block reads / writes return / store exactly blocks idx..idx+n-1, equal the same single-block transfers in order (read_multi_eq_singles, write_multi_eq_singles); write_then_read; num_blocks / num_bytes equal the capacity encoded in the card's CSD; acquire identifies the card kind from power-up and establishes the hypotheses of the transfer theorems (fresh_card_write_then_read); no protocol violation is recorded by the card in any of these. Correspondence + oracle: the real driver against the Lean card specification for all kinds x CRC x timings incl. slow legal cards, memory oracle after every write",
 "C13": "theorems (every bus = every adversarial card): closed-form bound on bytes exchanged and delay calls for every driver call (termination by structural recursion on the budgets), Ok from read_data with CRC on implies the received CRC matches (with C19: corruption detected), unacknowledged / failed / unexpected-token / SPI-error cases are errors, failed initialisation leaves the card uninitialised. Fault injection between the card specification and the real driver: bit flips, bursts, dead / busy / garbage card at sampled byte positions, rejected writes, SPI errors",
 "C14": "theorems (every bus, every call): every command frame is 0x40|c, big-endian argument, CRC-7 (= the polynomial's, by C19) with end bit; commands other than CMD0/CMD12 are directly preceded by a poll that read 0xFF; ACMD41/ACMD23 directly follow CMD55; data framing; CMD18 is followed by CMD12, CMD25 by the stop token; identification order. Oracle: the card specification's violation list and an independent frame parser on every session incl. after errors and re-identification",
 "C15": "mounting never panics for arbitrary MBR / boot-sector / info-sector bytes (proved about a model with the Rust's checked/unchecked u32 arithmetic), every well-formed boot sector yields the Microsoft-formula layout, type boundaries 4085/65525, info sentinels, MBR rules: proved in Lean 4; correspondence on a valid grid from an independent formatter, field boundary values, mutations and random sectors through the real open_raw_volume",
 "C16": "theorems: byte-level FAT lens (set/get, frame, FAT32 top-nibble merge), every FAT update writes the same payload to both copies and preserves the mirror invariant, one allocation decrements the free count by exactly one, hint in range after allocation, the count never influences an allocation, the info-sector write touches bytes 488..495 only. History level (Props/C16Hist.lean): over EVERY history of engine operations (allocate, extend, truncate, free) identical FAT copies stay identical, a correct free count stays equal to the number of free FAT entries, an unknown count stays unknown, the hint stays unknown or >= 2. Partial: that API calls are such histories and that flush/close stores this pair is checked, not proved: mirror compared after every call, stored record vs FAT scan after closing everything, stale/unknown/correct starting records",
 "C17": "LfnBuffer::push never panics for any buffer state and fragment, as_str is always well-formed UTF-8, exact characterisation of as_str for every fragment sequence and buffer size (lossy decoding, minus a leading unpaired surrogate = the listed known finding), listing-level LFN pairing rules of the sequence state machine: proved in Lean 4; correspondence on class-exhaustive and random fragment sequences",
 "C18": "timestamp decode/encode round trips over all 2^32 field pairs and all calendar timestamps 1980..2107, directory-entry layout and encode/decode round trip for both FAT types and every field value, 8.3 parser = strict grammar (iff) and print/parse round trip: proved in Lean 4 for all inputs; correspondence over all 2^16 dates and times, all attribute bytes, boundary clusters/sizes, all strings up to length 3/4 over a class alphabet",
 "C19": "crc16 = remainder mod x^16+x^12+x^5+1 and crc7 = remainder mod x^7+x^3+1 (end bit set) for every byte string, append-self, GF(2)-linearity, detection of every single-bit, double-bit and <=16-bit burst error in a 512-byte block and in the 514-byte wire frame: all proved in Lean 4 about a model of the two Rust functions whose literals are regenerated from the source; exhaustive/dense correspondence of the compiled model with the crate",
}

NOTE = ("Trusted: Lean 4.33 kernel; axioms propext/Classical.choice/Quot.sound only (audited each run from #print axioms); the "
        "statements in lean/Sdmmc/Props and lean/Sdmmc/Spec; the hand-written model is tied to /repo by regenerated constant/field "
        "tables and by the correspondence check (differential testing - the weakest link); theorems marked partial in the evidence "
        "are stated at full strength in the Props file and proved only in the part named there; see trusted_base.json and DESIGN.md section 10")


def main():
    hooks_commit = subprocess.check_output(["git", "-C", "/repo", "log", "--format=%H", "--grep=verif hook H1"]).decode().split()[0]
    checks, na = [], []
    for n in range(1, 20):
        pid = f"C{n:02d}"
        claimed = open(os.path.join(ROOT, "tools", "claimed.txt")).read().split()
        if pid in claimed and os.path.exists(os.path.join(ROOT, "lean", "Sdmmc", "Props", f"{pid}.lean")):
            checks.append({
                "property_id": pid,
                "quick_cmd": f"./check {pid} --tier quick",
                "thorough_cmd": f"./check {pid} --tier thorough",
                "evidence_file": f"/verif/evidence/{pid}.json",
                "replay_cmd_template": "./check replay {path}",
                "engine": "lean4-proof+correspondence",
                "level_claimed": {"category": "proof", "text": TEXT[pid], "design_ref": f"DESIGN.md section 8 {pid}"},
                "level_note": NOTE,
                "technique": "machine-checked proof in Lean 4 about a model tied to the source by generated tables and a model-vs-implementation correspondence check",
            })
        else:
            na.append({"property_id": pid, "reason": "not yet claimed: the property's theorem file is still being built in this session (not a limit of the technique)"})
    m = {
        "version": 1,
        "setup_cmd": "./check setup",
        "hooks": {"guard": "verif-hooks (cargo feature)",
                  "enable": "cargo build --features verif-hooks (the harness depends on /repo by path with that feature)",
                  "baseline_off_cmd": "cd /repo && cargo test --workspace --no-fail-fast --offline",
                  "source_commits": [hooks_commit], "add_only": True},
        "engines": [{"name": "lean4-proof+correspondence", "path": "/verif/lean, /verif/harness, /verif/check",
                     "serves_properties": [c["property_id"] for c in checks],
                     "kind_free_text": "Lean 4 theorems about a hand-written model; tables regenerated from the Rust source; Rust harness diffs the compiled model against the crate and runs specification oracles (Lean Spec.Fs / Spec.Card on the implementation's own medium / bus)"}],
        "checks": checks,
        "not_applicable": na,
        "notes": "Every check rebuilds from /repo's working tree: tools/extract.py regenerates lean/Sdmmc/Gen, lake re-checks the theorems, cargo rebuilds the harness against /repo. known_findings.json lists genuine defects (known = still present, fixed = repaired by a fix: commit).",
    }
    with open(os.path.join(ROOT, "MANIFEST.json"), "w") as f:
        json.dump(m, f, indent=1)
    # library root imports every property file so that setup compiles all proofs
    props = [c["property_id"] for c in checks]
    with open(os.path.join(ROOT, "lean", "Sdmmc.lean"), "w") as f:
        f.write("-- Root of the `Sdmmc` library: model, specifications, lemmas, property theorems, driver.\n-- (generated by tools/mkmanifest.py)\nimport Sdmmc.Driver\n")
        import re
        d = os.path.join(ROOT, "lean", "Sdmmc", "Props")
        for p in props:
            for st in sorted(x[:-5] for x in os.listdir(d) if x.endswith(".lean") and re.fullmatch(re.escape(p) + r"[A-Za-z_]*", x[:-5])):
                f.write(f"import Sdmmc.Props.{st}\n")
    print("claimed:", " ".join(props))


if __name__ == "__main__":
    main()
