#!/usr/bin/env python3
"""File-name level of the Rust -> Lean translator: `ShortFileName` and `LfnBuffer` (filesystem/filename.rs),
translated whole and written to `Sdmmc/Gen/FunsName.lean`.

Built on tools/translate_sd.py (statement level: binds, early exits, loops, `&mut` arguments), tools/translate.py
(pure expressions) and tools/rustfront.py (syntax), all imported as libraries.  Fallible functions live in the
result monad `N` (ok / err FnErr / panic), see LEAN_HEADER_NAME below (copied into the generated file).
What is outside the subset raises ShapeError (exit status 3 in extract.py, the message names the function).
"""
import re
import contextlib
import rustfront
from rustfront import ShapeError, Items, parse_fn_body, parse_params, parse_type
import translate
from translate import V, Ctx, lname, atom
import translate_sd as sd
from translate_sd import SInfo, SCtx, bind, let_, tup, par, simple, indent_text

NAME_FILES = ["structure.rs", "blockdevice.rs", "filesystem/filename.rs"]

# single-field structs that are their field
NAME_COLLAPSE = {"ShortFileName": "contents"}
# Rust enums that are enums of the model
NAME_XENUM = {"FilenameError": "FnErr"}

# plain structs held as values: `self` is one Lean parameter per field, a `&mut self` method hands all fields back
VALUE_STRUCTS = ("LfnBuffer",)
# functions whose `&str` result is the UTF-8 bytes (not the scalar values)
STR_AS_BYTES = (("LfnBuffer", "as_str"),)

TARGETS = [("ShortFileName", "parent_dir"), ("ShortFileName", "this_dir"), ("ShortFileName", "bytes_before_space"),
           ("ShortFileName", "base_name"), ("ShortFileName", "extension"), ("ShortFileName", "create_from_str"),
           ("ShortFileName", "fmt"),
           ("LfnBuffer", "new"), ("LfnBuffer", "clear"), ("LfnBuffer", "push"), ("LfnBuffer", "as_str")]


# --------------------------------------------------------------------------------------
# Front-end extension: `char` literals and patterns (to upstream: rustfront rejects them)
# --------------------------------------------------------------------------------------

def char_value(tok_text, where):
    body = tok_text[1:-1]
    m = re.match(r"^\\u\{([0-9a-fA-F]+)\}$", body)
    if m:
        return int(m.group(1), 16)
    return rustfront._char_value(body, where)


@contextlib.contextmanager
def char_frontend():
    """while active, the parser reads `'c'` as the literal ("lit", code point, "char") and `'a'`, `'a'..='b'` in
    patterns as ("plit", cp) / ("prange", lo, hi)"""
    P = rustfront.Parser
    old_primary, old_pattern1, old_type = P.primary, P.pattern1, P.type

    def primary(self, nostruct):
        t = self.peek()
        if t is not None and t.k == "char":
            self.i += 1
            return ("lit", char_value(t.s, self.where), "char")
        return old_primary(self, nostruct)

    def type_(self):
        t = self.peek()
        if t is not None and t.k == "int":
            # a const generic argument (`heapless::Vec<char, 14>`)
            self.i += 1
            return ("tconst", t.v)
        return old_type(self)

    def pattern1(self):
        t = self.peek()
        prev = self.t[self.i - 1] if self.i > 0 else None
        if t is not None and t.k == "p" and t.s == "&" and prev is not None and prev.k == "p" and prev.s == "|" \
                and self.peek(1) is not None and self.peek(1).k == "id":
            # closure parameter `|&b|` of a Copy type: the value
            self.i += 1
            return old_pattern1(self)
        if t is not None and t.k == "char":
            self.i += 1
            lo = char_value(t.s, self.where)
            if self.at_p("..="):
                self.i += 1
                hi = self.peek()
                if hi is None or hi.k != "char":
                    self.fail("char expected after `..=` in pattern")
                self.i += 1
                return ("prange", lo, char_value(hi.s, self.where))
            return ("plit", lo)
        return old_pattern1(self)
    P.primary, P.pattern1, P.type = primary, pattern1, type_
    saved_c, saved_x = dict(sd.COLLAPSE), dict(sd.XENUM)
    sd.COLLAPSE.update(NAME_COLLAPSE)
    sd.XENUM.update(NAME_XENUM)
    try:
        yield
    finally:
        P.primary, P.pattern1, P.type = old_primary, old_pattern1, old_type
        sd.COLLAPSE.clear()
        sd.COLLAPSE.update(saved_c)
        sd.XENUM.clear()
        sd.XENUM.update(saved_x)


class Name(sd.SdFull):
    NS = "N"
    FIXED_ARGS = []
    SIG = ""
    MON = "N"
    ERR_ENUM = "FilenameError"

    def check_options_immutable(self):
        pass

    # ================================================================== types
    def conv_type(self, ty, what, impl=None):
        if ty[0] in ("tarray", "tslice") and ty[1] == ("ty", "u16", []):
            return ("list", ("int", 16))
        if ty[0] == "ty" and ty[1] == "heapless::Vec" and len(ty[2]) == 2 and ty[2][1][0] == "tconst":
            return ("hvec", self.conv_type(ty[2][0], what, impl), ty[2][1][1])
        if ty[0] == "ty" and ty[1] in ("core::fmt::Formatter", "fmt::Formatter", "Formatter"):
            return ("fmt",)
        if ty[0] == "ty" and ty[1] == "str" and getattr(self, "_str_bytes", False):
            return ("bytes", None)
        if ty[0] == "ty" and ty[1] == "str":
            return ("chars",)
        if ty[0] == "ty" and ty[1] == "char":
            return ("int", 32)
        return super().conv_type(ty, what, impl)

    def lean_type(self, t, what):
        t = self.res(t)
        if t == ("chars",):
            return "List Nat"
        if t == ("item",):
            return "Lfn.Item"
        if t == ("fmt",):
            return "Fmt"
        if t[0] in ("list", "hvec"):
            inner = self.lean_type(t[1], what)
            return f"List ({inner})" if " " in inner else f"List {inner}"
        return super().lean_type(t, what)

    def unify(self, a, b, what):
        a, b = self.res(a), self.res(b)
        if a[0] == "list" and b[0] == "list":
            return ("list", self.unify(a[1], b[1], what))
        return super().unify(a, b, what)

    def struct_fields(self, name, what):
        out = super().struct_fields(name, what)
        if name in VALUE_STRUCTS:
            # `inner: &'a mut [u8]`: the buffer itself
            out = [(f, t, False) for f, t, r in out]
        return out

    def elem_of(self, t):
        """element type of something that can be iterated / chained"""
        t = self.res(t)
        if t[0] in ("list", "hvec"):
            return t[1]
        if t[0] == "bytes":
            return ("int", 8)
        if t == ("chars",):
            return ("int", 32)
        return None

    def show(self, t):
        if self.res(t) == ("chars",):
            return "str"
        return super().show(t)

    def resolve_placeholders(self, text, what):
        """an untyped literal that turns out to be `usize`: overflow bounds are those of a 32-bit target (as
        `translate.bound` does when the type is known at once)"""
        def rep(m):
            t = self.res(("var", int(m.group(2))))
            if t[0] == "usize" and m.group(1) == "P":
                return str(2 ** 32)
            return m.group(0)
        text = re.sub("\x01([PMB])(\\d+)\x02", rep, text)
        return super().resolve_placeholders(text, what)

    # ================================================================== pure expressions
    def tr_lit(self, e, env, ctx):
        if e[2] == "char":
            return self.int_lit(e[1], ("int", 32))
        return super().tr_lit(e, env, ctx)

    def str_points(self, e, ctx):
        if "\\" in e[1]:
            raise ShapeError(f"{ctx.what}: escapes in a string literal are outside the subset")
        return "[" + ", ".join(str(ord(c)) for c in e[1]) + "]"

    def tr_bin(self, e, env, ctx):
        _, op, ea, eb = e
        if op in ("==", "!=") and (ea[0] == "str" or eb[0] == "str"):
            lit, other = (ea, eb) if ea[0] == "str" else (eb, ea)
            v = self.tr(other, env, ctx)
            if self.res(v.ty) != ("chars",):
                raise ShapeError(f"{ctx.what}: comparison of {self.show(v.ty)} with a string literal")
            sym = "=" if op == "==" else "≠"
            return V(f"({v.lean} {sym} {self.str_points(lit, ctx)})", ("bool",), v.ok, None, True)
        return super().tr_bin(e, env, ctx)

    def tr_repeat(self, e, env, ctx):
        v = self.tr(e[1], env, ctx)
        self.unify(v.ty, ("int", 8), f"{ctx.what}: array literal (only byte arrays are in the subset)")
        n = self.const_eval(e[2], ctx.what, ctx.impl)
        return V(f"(List.replicate {n} (UInt8.ofNat {v.lean}))", ("bytes", n), v.ok)

    def tr_str(self, e, env, ctx):
        if getattr(self, "_str_bytes", False):
            if e[1] != "":
                raise ShapeError(f"{ctx.what}: only the empty string literal is in the subset here")
            return V("[]", ("bytes", None))
        return super().tr_str(e, env, ctx)

    def tr_unsafe(self, e, env, ctx):
        return self.tr(e[1], env, ctx)

    def tr_index(self, e, env, ctx):
        _, base, idx = e
        if idx[0] == "range":
            b = self.tr(base, env, ctx)
            t = self.res(b.ty)
            if t[0] == "list":
                lov, hiv, ln = self.slice_parts(idx, env, ctx, None)
                ok = translate.conj(b.ok, lov.ok, hiv.ok if hiv else None)
                x = self.arg(b, ctx)
                if hiv is None:
                    return V(f"(List.drop {lov.lean} {x})", t, translate.conj(ok, f"({lov.lean} ≤ {x}.length)"))
                ok = translate.conj(ok, f"({hiv.lean} ≤ {x}.length)",
                                    None if lov.const == 0 else f"({lov.lean} ≤ {hiv.lean})")
                inner = f"(List.take {hiv.lean} {x})"
                return V(inner if lov.const == 0 else f"(List.drop {lov.lean} {inner})", t, ok)
        return super().tr_index(e, env, ctx)

    def tr_mcall(self, e, env, ctx):
        _, recv, name, args = e
        if name in ("iter", "cloned", "copied", "into_iter", "bytes") and not args:
            v = self.tr(recv, env, ctx)
            t = self.res(v.ty)
            if t[0] in ("list", "hvec") or (t[0] == "bytes" and name != "bytes") or (t[0] == "bytes" and name == "bytes"):
                return v
            if t[0] == "option" and name == "iter":
                return V(f"(Option.toList {self.arg(v, ctx)})", ("list", t[1]), v.ok)
        if name == "rev" and not args:
            v = self.tr(recv, env, ctx)
            t = self.res(v.ty)
            if self.elem_of(t) is not None:
                rt = ("list", t[1]) if t[0] == "hvec" else t
                if t[0] == "bytes":
                    rt = ("bytes", t[1])
                return V(f"(List.reverse {self.arg(v, ctx)})", rt, v.ok)
        if name == "chain" and len(args) == 1:
            a, b = self.tr(recv, env, ctx), self.tr(args[0], env, ctx)
            if self.res(b.ty)[0] == "option":
                # an `Option` chained as an iterator: its zero or one items
                b = V(f"(Option.toList {self.arg(b, ctx)})", ("list", self.res(b.ty)[1]), b.ok)
            ea, eb = self.elem_of(a.ty), self.elem_of(b.ty)
            if ea is not None and eb is not None:
                self.unify(ea, eb, ctx.what)
                return V(f"({self.arg(a, ctx)} ++ {self.arg(b, ctx)})", ("list", ea), translate.conj(a.ok, b.ok))
        if name == "len" and not args:
            v = self.tr(recv, env, ctx)
            if self.res(v.ty)[0] in ("list", "hvec"):
                return V(f"{self.arg(v, ctx)}.length", ("usize",), v.ok)
        if name == "position" and len(args) == 1 and args[0][0] == "closure" and len(args[0][1]) == 1:
            v = self.tr(recv, env, ctx)
            et = self.elem_of(v.ty)
            if et is not None and self.res(v.ty)[0] != "bytes":
                pn = args[0][1][0]
                env2 = dict(env)
                env2[pn] = ("val", lname(pn), et)
                p = self.tr(args[0][2], env2, ctx)
                if p.ok is not None:
                    raise ShapeError(f"{ctx.what}: arithmetic in the predicate of `.position(..)`")
                return V(f"(List.findIdx? (fun {lname(pn)} => decide {self.as_prop(p, ctx)}) {self.arg(v, ctx)})",
                         ("option", ("usize",)), v.ok)
        if name == "unwrap_or" and len(args) == 1:
            try:
                v = self.tr(recv, env, ctx)
            except ShapeError:
                v = None
            if v is not None and self.res(v.ty)[0] == "option" and self.is_int(self.res(v.ty)[1]):
                d = self.tr(args[0], env, ctx)
                self.unify(d.ty, self.res(v.ty)[1], ctx.what)
                return V(f"(Option.getD {self.arg(v, ctx)} {self.arg(d, ctx)})", self.res(v.ty)[1], translate.conj(v.ok, d.ok))
        if name == "encode_utf8" and len(args) == 1:
            v = self.tr(recv, env, ctx)
            if self.res(v.ty) == ("int", 32):
                # `ch.encode_utf8(&mut scratch)`: the model's function (the scratch buffer is only storage)
                return V(f"(Lfn.encodeUtf8 {self.arg(v, ctx)})", ("bytes", None), v.ok)
        if name == "unpaired_surrogate" and not args:
            v = self.tr(recv, env, ctx)
            if self.res(v.ty) == ("int", 16):
                return v
        if name in ("width", "fill") and not args:
            try:
                v = self.tr(recv, env, ctx)
            except ShapeError:
                v = None
            if v is not None and self.res(v.ty) == ("fmt",):
                if name == "width":
                    return V(f"{self.arg(v, ctx)}.width", ("option", ("usize",)), v.ok)
                return V(f"{self.arg(v, ctx)}.fill", ("int", 32), v.ok)
        if name == "contains" and len(args) == 1 and recv[0] == "range" and recv[1] is not None and recv[2] is not None:
            lo, hi, x = self.tr(recv[1], env, ctx), self.tr(recv[2], env, ctx), self.tr(args[0], env, ctx)
            self.unify(lo.ty, x.ty, ctx.what)
            self.unify(hi.ty, x.ty, ctx.what)
            cmp = "≤" if recv[3] else "<"
            return V(f"({lo.lean} ≤ {x.lean} ∧ {x.lean} {cmp} {hi.lean})", ("bool",),
                     translate.conj(lo.ok, hi.ok, x.ok), None, True)
        if name == "is_empty" and not args:
            v = self.tr(recv, env, ctx)
            if self.res(v.ty) == ("chars",) or self.res(v.ty)[0] == "bytes":
                return V(f"({v.lean} = [])", ("bool",), v.ok, None, True)
        if name == "to_ascii_uppercase" and not args:
            v = self.tr(recv, env, ctx)
            if self.res(v.ty) == ("int", 32):
                x = self.arg(v, ctx)
                return V(f"(if 97 ≤ {x} ∧ {x} ≤ 122 then {x} - 32 else {x})", ("int", 32), v.ok)
        # `bytes.split(|b| P).next().unwrap_or(&[])`: the bytes before the first one that satisfies P
        if name == "unwrap_or" and len(args) == 1 and recv[0] == "mcall" and recv[2] == "next" and not recv[3] \
                and recv[1][0] == "mcall" and recv[1][2] == "split" and len(recv[1][3]) == 1 \
                and recv[1][3][0][0] == "closure" and len(recv[1][3][0][1]) == 1:
            dflt = args[0]
            while dflt[0] == "ref":
                dflt = dflt[1]
            if dflt != ("array", []):
                raise ShapeError(f"{ctx.what}: `.split(..).next().unwrap_or(..)` is in the subset with `&[]` only")
            base = self.tr(recv[1][1], env, ctx)
            if self.res(base.ty)[0] != "bytes":
                raise ShapeError(f"{ctx.what}: `.split(..)` of {self.show(base.ty)}")
            c = recv[1][3][0]
            pn = c[1][0]
            env2 = dict(env)
            env2[pn] = ("val", f"{lname(pn)}.toNat", ("int", 8))
            p = self.tr(c[2], env2, ctx)
            if p.ok is not None:
                raise ShapeError(f"{ctx.what}: arithmetic in the split predicate")
            return V(f"(List.takeWhile (fun {lname(pn)} => decide (¬ {self.as_prop(p, ctx)})) {self.arg(base, ctx)})",
                     ("bytes", None), base.ok)
        return super().tr_mcall(e, env, ctx)

    def tr_call(self, e, env, ctx):
        _, f, args = e
        if f == ("path", ["char", "decode_utf16"]) and len(args) == 1:
            v = self.tr(args[0], env, ctx)
            et = self.elem_of(v.ty)
            if et is None:
                raise ShapeError(f"{ctx.what}: char::decode_utf16 of {self.show(v.ty)}")
            self.unify(et, ("int", 16), ctx.what)
            # the model's function
            return V(f"(Lfn.decodeUtf16 {self.arg(v, ctx)})", ("list", ("item",)), v.ok)
        if f == ("path", ["heapless", "Vec", "new"]) and not args:
            return V("[]", self.fresh_tv())
        if f[0] == "path" and f[1][-2:] == ["str", "from_utf8_unchecked"] and len(args) == 1 and getattr(self, "_str_bytes", False):
            return self.tr(args[0], env, ctx)
        if f[0] == "path" and len(f[1]) >= 2:
            tyname = ctx.impl if f[1][-2] == "Self" else f[1][-2]
            key = (tyname, f[1][-1])
            if key in self.items.fns and not self.is_monadic(key):
                vs = [self.tr(a, env, ctx) for a in args]
                return self.call_fn(key, None, vs, ctx)
        return super().tr_call(e, env, ctx)

    def lean_pats(self, pat, ty, env, ctx):
        ty = self.res(ty)
        if ty == ("item",) and pat[0] == "ptuple" and pat[1] in (["Ok"], ["Err"]) and len(pat[2]) == 1:
            ctor, inner = ("Lfn.Item.ch", ("int", 32)) if pat[1] == ["Ok"] else ("Lfn.Item.unpaired", ("int", 16))
            return [(f"{ctor} {lp}" if simple(lp) else f"{ctor} {par(lp)}", env2)
                    for lp, env2 in self.lean_pats(pat[2][0], inner, env, ctx)]
        return super().lean_pats(pat, ty, env, ctx)

    # ================================================================== classification
    def is_monadic(self, key):
        if key not in self.items.fns:
            return False
        if key in (("LfnBuffer", "push"), ("LfnBuffer", "clear"), ("ShortFileName", "fmt")):
            return True
        decl = self.items.fns[key]
        rt = parse_type(decl.ret, decl.where, self.items) if decl.ret else None
        return rt is not None and rt[0] == "ty" and rt[1] == "Result" and len(rt[2]) >= 1

    def extra_mutated(self, node, env, ctx, out):
        self.extra_written(node, out)

        def walk(n):
            if isinstance(n, tuple):
                if n and n[0] == "mcall" and n[2] == "push" and len(n[3]) == 1:
                    r = self.root_var(n[1])
                    if r and r in env and env[r][0] == "val" and self.res(env[r][2])[0] == "hvec":
                        out.add(r)
                if n and n[0] == "mcall" and n[2] == "take" and not n[3]:
                    k = self.self_field_of(n[1], ctx)
                    if k:
                        out.add(k)
                for x in n:
                    walk(x)
            elif isinstance(n, list):
                for x in n:
                    walk(x)
        walk(node)

    def opt_place(self, e, env, ctx):
        """`self.f` of Option type -> its value, else None"""
        if e[0] == "field" and e[1] == ("path", ["self"]) and ctx.selfvals is not None and e[2] in ctx.selfvals:
            b = env["self_" + e[2]]
            if self.res(b[2])[0] == "option":
                return V(b[1], b[2])
        return None

    def write_macro(self, e, env, ctx):
        """`write!(f, "lit")` / `write!(f, "{}", x)` with `x` a char: the scalar values appended to the output"""
        parts = rustfront.split_commas(e[2], ctx.what)
        if len(parts) not in (2, 3) or len(parts[0]) != 1 or parts[0][0].k != "id" or len(parts[1]) != 1 \
                or parts[1][0].k != "str":
            raise ShapeError(f"{ctx.what}: this `write!` is outside the subset")
        fname = parts[0][0].s
        if fname not in env or env[fname][0] != "val" or self.res(env[fname][2]) != ("fmt",):
            raise ShapeError(f"{ctx.what}: `write!` to something that is not the formatter")
        f = env[fname][1]
        fmt = parts[1][0].v
        wrap = lambda t: t
        if len(parts) == 2:
            if "{" in fmt or "\\" in fmt:
                raise ShapeError(f"{ctx.what}: this format string is outside the subset")
            pts = "[" + ", ".join(str(ord(c)) for c in fmt) + "]"
        else:
            if fmt != "{}":
                raise ShapeError(f"{ctx.what}: only the format string \"{{}}\" is in the subset")
            x, wrap = self.pv(rustfront.parse_expr(parts[2], ctx.what, self.items), env, ctx)
            if self.res(x.ty) != ("int", 32):
                raise ShapeError(f"{ctx.what}: `write!(f, \"{{}}\", x)` is in the subset for a `char` only")
            pts = f"[{self.value(x, ctx)}]"
        return sd.MC(wrap(f"(pure (Fmt.write {f} {pts}))"), ("unit",), [(("path", [fname]), ("fmt",))], fallible=False)

    def call_kind(self, e, env, ctx):
        if e[0] == "macro" and e[1] == "write":
            return self.write_macro(e, env, ctx)
        if e[0] == "mcall" and e[2] == "take" and not e[3]:
            v = self.opt_place(e[1], env, ctx)
            if v is not None:
                # `opt.take()`: the old value; the place becomes `None`
                return sd.MC(f"(pure ({v.lean}, none))", v.ty, [(e[1], v.ty)], fallible=False)
        if e[0] == "mcall" and e[2] == "expect" and len(e[3]) == 1 and e[3][0][0] == "str" and e[1][0] == "mcall" \
                and e[1][2] == "push" and len(e[1][3]) == 1:
            vec = e[1][1]
            vv, wrapv = self.pv(vec, env, ctx)
            t = self.res(vv.ty)
            if t[0] == "hvec":
                x, wrapx = self.pv(e[1][3][0], env, ctx)
                self.unify(x.ty, t[1], ctx.what)
                msg = e[3][0][1].replace('"', '\\"')
                text = (f"(if {vv.lean}.length < {t[2]} then (pure ({vv.lean} ++ [{self.value(x, ctx)}])) "
                        f"else {self.NS}.panic \"{msg}\")")
                return sd.MC(wrapv(wrapx(text)), ("unit",), [(vec, vv.ty)], fallible=False)
        if e[0] == "call" and e[1][0] == "path" and len(e[1][1]) >= 2:
            tyname = ctx.impl if e[1][1][-2] == "Self" else e[1][1][-2]
            key = (tyname, e[1][1][-1])
            if key in self.items.fns and self.is_monadic(key):
                return self.call_method(key, None, e[2], env, ctx)
        return super().call_kind(e, env, ctx)

    def effectful(self, node, env, ctx):
        if isinstance(node, tuple) and node and node[0] == "macro" and node[1] == "write":
            return True
        return super().effectful(node, env, ctx)

    def extra_written(self, node, out):
        if isinstance(node, tuple):
            if node and node[0] == "macro" and node[1] == "write" and node[2] and node[2][0].k == "id":
                out.add(node[2][0].s)
            for x in node:
                self.extra_written(x, out)
        elif isinstance(node, list):
            for x in node:
                self.extra_written(x, out)

    def call_kind_cheap(self, e, env, ctx):
        if e[0] == "mcall" and e[2] == "take" and not e[3] and e[1][0] == "field" and e[1][1] == ("path", ["self"]):
            return True
        if e[0] == "mcall" and e[2] == "expect" and e[1][0] == "mcall" and e[1][2] == "push":
            return True
        if e[0] == "call" and e[1][0] == "path" and len(e[1][1]) >= 2:
            tyname = ctx.impl if e[1][1][-2] == "Self" else e[1][1][-2]
            if (tyname, e[1][1][-1]) in self.items.fns and self.is_monadic((tyname, e[1][1][-1])):
                return True
        return super().call_kind_cheap(e, env, ctx)

    def list_iter(self, pat, it, env, ctx):
        idxvar = None
        if it[0] == "mcall" and it[2] == "enumerate" and not it[3] and pat[0] == "ptuple" and not pat[1] \
                and len(pat[2]) == 2 and pat[2][0][0] == "pbind":
            idxvar = pat[2][0][1]
            pat, it = pat[2][1], it[1]
            while pat[0] == "pref":
                pat = pat[1]
            r = self.list_iter(pat, it, env, ctx)
            if r is None:
                return None
            r = tuple(r) + ((None,) if len(r) < 5 else ())
            return r[:5] + (idxvar,)
        if pat[0] not in ("pbind", "pwild"):
            return None
        var = pat[1] if pat[0] == "pbind" else None
        if it[0] == "mcall" and it[2] == "chars" and not it[3]:
            v = self.tr(it[1], env, ctx)
            if self.res(v.ty) == ("chars",) and v.ok is None:
                return (var, v.lean, ("int", 32), "List Nat")
            return None
        try:
            v = self.tr(it, env, ctx)
        except ShapeError:
            return None
        t = self.res(v.ty)
        et = self.elem_of(t)
        if et is None or v.ok is not None or t == ("chars",):
            return None
        if t[0] == "bytes":
            return (var, self.arg(v, ctx), ("int", 8), "List UInt8", (lname(var) + ".toNat") if var else None)
        return (var, self.arg(v, ctx), et, self.lean_type(("list", et), ctx.what))

    def s_loop(self, s, env, ctx, k):
        if s[0] == "for" and self.effectful(s[2], env, ctx):
            saved = getattr(ctx, "rest_info", ([], False))

            def after(e2, v):
                def go(e3, node):
                    ctx.rest_info = saved
                    return sd.SdStmts.s_loop(self, ("for", s[1], node, s[3]), e3, ctx, k)
                return self.hoisted(v, e2, ctx, go)
            return self.mexpr(s[2], env, ctx, after)
        return super().s_loop(s, env, ctx, k)

    # ================================================================== functions
    def mfun(self, key):
        if key in self.sdone:
            return self.sdone[key]
        if key in self.s_in_progress:
            raise ShapeError(f"{key[0]}::{key[1]}: recursion is outside the subset")
        if key not in self.items.fns:
            raise ShapeError(f"function {key[0]}::{key[1]} not found in the scanned files")
        self.s_in_progress.add(key)
        decl = self.items.fns[key]
        what = f"{decl.where}: fn {decl.impl}::{decl.name}"
        ctx = SCtx(what, decl.impl, decl.name)
        info = SInfo(f"{decl.impl}_{decl.name}" if decl.impl else decl.name)
        info.doc_name = f"`{decl.impl}::{decl.name}`"
        info.doc = f"`{decl.impl}::{decl.name}` ({decl.where})"
        ctx.info = info
        self_kind, params = parse_params(decl, self.items)
        muts = sd.mut_ref_params(decl)
        env, lean_params = {}, []
        if self_kind is not None and decl.impl in VALUE_STRUCTS:
            ctx.selfvals = {}
            for f, fty, _r in self.struct_fields(decl.impl, what):
                ty = self.conv_type(fty, what, decl.impl)
                ctx.selfvals[f] = ty
                env["self_" + f] = ("val", "self_" + f, ty)
                lean_params.append(("self_" + f, self.lean_type(ty, what)))
                if "mut" in self_kind:
                    info.selfout.append((f, ty))
        elif self_kind is not None:
            if decl.impl not in sd.COLLAPSE:
                raise ShapeError(f"{what}: `self` of {decl.impl} is outside the subset")
            ct = self.collapsed(decl.impl, what)
            f = sd.COLLAPSE[decl.impl]
            ctx.selfvals = {f: ct[2]}
            env["self_" + f] = ("val", "self_" + f, ct[2])
            lean_params.append(("self_" + f, self.lean_type(ct[2], what)))
            if "mut" in self_kind:
                info.selfout = [(f, ct[2])]
        for pn, pty in params:
            self.check_local(pn, ctx)
            ty = self.conv_type(pty, f"{what}: parameter {pn}", decl.impl)
            env[pn] = ("val", lname(pn), ty)
            lean_params.append((lname(pn), self.lean_type(ty, what)))
            info.ptypes.append(ty)
            if pn in muts:
                info.pkinds.append("out")
                info.outs.append((pn, ty))
            else:
                info.pkinds.append("val")
        rt = parse_type(decl.ret, what, self.items) if decl.ret else ("ttuple", [])
        if rt[0] == "ty" and (rt[1] in ("core::fmt::Result", "fmt::Result") or (rt[1] == "Result" and not rt[2])):
            # `fmt::Result`: writing to the formatter never fails here (the output is a list)
            info.fallible = True
            info.okty = ("unit",)
        elif rt[0] == "ty" and rt[1] == "Result":
            info.fallible = True
            info.okty = self.conv_type(rt[2][0], what, decl.impl)
        else:
            info.fallible = False
            info.okty = self.conv_type(rt, what, decl.impl)
        body = parse_fn_body(decl, self.items)
        self.finish_fn(info, ctx, env, body, lean_params)
        self.s_in_progress.discard(key)
        self.sdone[key] = info
        self.sorder.append(key)
        return info


# --------------------------------------------------------------------------------------
# Output
# --------------------------------------------------------------------------------------

LEAN_HEADER_NAME = '''/-!
# Machine translation of `ShortFileName` and `LfnBuffer` (filesystem/filename.rs)

Every definition after the prelude is produced by `tools/translate_name.py` (called from tools/extract.py,
`gen_funs_name`) from the text of `src/filesystem/filename.rs`; nothing below the prelude is written by hand.
`Props/C18GenM` (ShortFileName) and `Props/C17GenM` (LfnBuffer) prove the definitions EQUAL to the hand-written models
`Model/Name.lean` / `Model/Lfn.lean`, so an edit of the Rust function changes the definition here and the equality no
longer checks.  The statement level (early exits, loops, `&mut` arguments, checks) is that of `tools/translate_sd.py`
(see the header of `Gen/FunsSd.lean`), instantiated for the result monad `N` below (no state: ok / err FnErr / panic);
pure expressions are translated by `tools/translate.py`.  Outside the subset: ShapeError (exit status 3).

## What this file adds to the trusted base

* Strings.  A `&str` PARAMETER is read through `.chars()`: it is the list of its Unicode scalar values (`List Nat`);
  `name == ".."` compares with the scalar values of the literal, `name.is_empty()` is `= []`.  A `char` is its scalar
  value; `'x'` literals and `'a'..='b'` patterns are numbers (a front-end extension of this module: rustfront rejects
  `char` tokens); `ch.to_ascii_uppercase()` is `if 97 ≤ ch ∧ ch ≤ 122 then ch - 32 else ch`; `ch as u8` is `% 256`.
  The `&str` RESULT of `LfnBuffer::as_str` is its UTF-8 bytes (`""` is `[]`, `core::str::from_utf8_unchecked` the
  identity).
* `match ch { .. }` on a char / integer is an if-chain, the arms in their order (ranges `lo ≤ ch ∧ ch ≤ hi`, `|` as
  `∨`, a guard `x if g` as its condition).
* `(lo..hi).contains(&x)` / `(lo..=hi).contains(&x)`: `lo ≤ x ∧ x < hi` / `≤`.
* `bytes.split(|b| P).next().unwrap_or(&[])`: `List.takeWhile (¬ P)`.
* Single-field structs are their field (`ShortFileName` is its `contents`, checked); `FilenameError` is the model's
  `FnErr`, variant for variant.  `struct LfnBuffer` is generated field for field (`inner: &mut [u8]` is the storage
  itself); `self` of its methods is one parameter per field, and a `&mut self` method hands ALL fields back, as a tuple
  in the order of the struct.
* Iterators are lists: `.iter()`, `.cloned()`, `.copied()`, `.bytes()` the list itself, `.rev()` `List.reverse`,
  `.chain(x)` `++` (an `Option` chained or `.iter()`ed is `Option.toList`), `.position(|b| P)` `List.findIdx?`,
  `opt.unwrap_or(d)` `Option.getD`, `&l[a..b]` `List.take` / `List.drop` behind a bounds check.  `for x in <list>` is
  structural recursion on the list.  A loop that can both run to its end and `return` from the function yields an
  `Except` (`error`: the function's result at the `return`; `ok`: what the loop hands on).
* `self.f.take()` on an `Option` field: the old value; the field becomes `none` (at that point of the evaluation order).
* `heapless::Vec<T, N>` is a list with capacity `N`: `Vec::new()` is `[]`, `v.push(x).expect("msg")` is
  `if v.length < N then v ++ [x] else panic "msg"`.
* `char::decode_utf16(units)` and `ch.encode_utf8(&mut scratch)` are the MODEL's `Lfn.decodeUtf16` / `Lfn.encodeUtf8`
  (the scratch buffer is storage only); `DecodeUtf16Error::unpaired_surrogate()` is the unit itself; the items are the
  model's `Lfn.Item` (`Ok(ch)` ↦ `Item.ch`, `Err(e)` ↦ `Item.unpaired`).
* `impl Display`: `f: &mut core::fmt::Formatter` is the value `Fmt` below (the scalar values written so far, `width`,
  `fill`), handed back like any `&mut` argument; `write!(f, "lit")` / `write!(f, "{}", c)` for a char `c` append and
  never fail (`fmt::Result` has no error here); `f.width()` / `f.fill()` are the fields.  `for (i, &c) in
  xs.iter().enumerate()` recurses on the list with `i` counting from 0; `if let P = e { .. }` is the two-armed match.
* Checks.  Index, subtraction, addition and capacity checks are emitted where they stand (`N.panic`); an untyped
  integer literal that turns out to be `usize` is checked against 2^32 (the smallest supported target).
-/
'''

PRELUDE_NAME = '''/-! ### Prelude (written by hand in tools/translate_name.py: the trusted bindings) -/

/-- `b[i]` of a byte array or slice. -/
def rdByte (b : List UInt8) (i : Nat) : Nat := (b.getD i 0).toNat

/-- The outcome of a fallible function of filename.rs: a value, a `FilenameError`, or a Rust panic. -/
inductive NRes (α : Type) where
  | ok (a : α) | err (e : FnErr) | panic (msg : String)
  deriving Repr

/-- The result monad (no state). -/
def N (α : Type) := NRes α

namespace N
@[inline] def pure' {α : Type} (a : α) : N α := NRes.ok a
@[inline] def bind' {α β : Type} (m : N α) (f : α → N β) : N β :=
  match m with
  | NRes.ok a => f a
  | NRes.err e => NRes.err e
  | NRes.panic p => NRes.panic p
instance : Monad N where
  pure := pure'
  bind := bind'
/-- `return Err(e)` / a final `Err(e)` -/
@[inline] def fail {α : Type} (e : FnErr) : N α := NRes.err e
/-- a Rust panic -/
@[inline] def panic {α : Type} (msg : String) : N α := NRes.panic msg
end N

/-- `core::fmt::Formatter` as far as `Display for ShortFileName` uses it: what has been written (scalar values), and the
`width` / `fill` of the format specification. -/
structure Fmt where
  out : List Nat
  width : Option Nat
  fill : Nat
  deriving Repr, DecidableEq

/-- `write!(f, ..)`: the characters are appended (writing never fails). -/
def Fmt.write (f : Fmt) (cs : List Nat) : Fmt := { f with out := f.out ++ cs }

/-! ### Translated definitions -/
'''


def render_name(T):
    lines = ["import Sdmmc.Model.Prim\nimport Sdmmc.Model.Lfn\n", LEAN_HEADER_NAME, "set_option linter.unusedVariables false\n",
             "namespace Sdmmc.Gen.FunsName\n", "open Sdmmc.Model Sdmmc.Gen\n", PRELUDE_NAME]
    for kind, name in T.types_used:
        if kind != "struct" or name not in VALUE_STRUCTS:
            raise ShapeError(f"type {name}: outside the subset of this file")
        fl = []
        for fname, fty, isref in T.struct_fields(name, f"struct {name}"):
            fl.append(f"  {lname(fname)} : {T.lean_type(T.conv_type(fty, 'struct ' + name, name), name)}\n")
        lines.append(f"/-- `struct {name}` (`inner` is the caller's storage itself). -/\nstructure {name} where\n" + "".join(fl)
                     + "  deriving Repr\n")
    for key in T.order:
        info = T.done[key]
        ps = "".join(f" ({n} : {T.lean_type(t, info.name)})" for n, t in info.params)
        rt = T.lean_type(info.ret, info.name)
        lines.append(f"/-- {info.doc}. -/\ndef {info.name}{ps} : {rt} :=\n  {translate.pretty(info.body)}\n")
    for key in T.sorder:
        info = T.sdone[key]
        for a in info.aux:
            parts = a.split("\n")
            lines.append("\n".join(parts[:4]) + "\n" + indent_text("\n".join(parts[4:]), 4) + "\n")
        ps = "".join(f" ({n} : {t})" for n, t in info.params)
        lines.append(f"/-- {info.doc}. -/\ndef {info.name}{T.SIG}{ps} : {T.MON} {par(info.rty)} :=\n"
                     + indent_text(info.body, 2) + "\n")
    lines.append("end Sdmmc.Gen.FunsName\n")
    return "\n".join(lines)


def generate_name(read_src, targets=None):
    """read_src(rel) -> text.  Returns (lean text, summary dict)."""
    with char_frontend():
        items = Items()
        for f in NAME_FILES:
            items.scan_file(f, read_src(f))
        T = Name(items)
        for key in (TARGETS if targets is None else targets):
            T._str_bytes = key in STR_AS_BYTES
            if T.is_monadic(key):
                T.mfun(key)
            else:
                T.translate_fn(key)
            T._str_bytes = False
        text = render_name(T)
        summary = {("::".join(str(x) for x in k)): [T.sdone[k].name, T.sdone[k].body, T.sdone[k].aux] for k in T.sorder}
        summary.update({("::".join(str(x) for x in k)): [T.done[k].name, T.done[k].body] for k in T.order})
    return text, summary


if __name__ == "__main__":
    import os
    import sys
    repo = os.environ.get("VERIF_REPO", "/repo")

    def rd(rel):
        with open(os.path.join(repo, "src", rel), encoding="utf-8") as f:
            return f.read()
    want = None
    if len(sys.argv) > 1:
        want = [tuple(a.split("::")) for a in sys.argv[1:]]
    try:
        text, _ = generate_name(rd, want)
    except ShapeError as e:
        print(f"translate_name: {e}", file=sys.stderr)
        sys.exit(3)
    sys.stdout.write(text)
