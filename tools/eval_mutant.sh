#!/bin/bash
# usage: [PFX=mutb_ SUFFIX=b] eval_mutant.sh <name> <prop> <check-ids...>
# Confirms a sub-agent's mutant in its scratch worktree (/tmp/mut_<name>, outputs in /tmp/mut_<name>_out),
# runs the registered checks against it on /repo (apply, check, revert), and files it under /verif/seeded/<name>/.
name="$1"; prop="$2"; shift 2
pfx=${PFX:-mut_}; suffix=${SUFFIX:-}
wt=/tmp/$pfx$name; out=/tmp/$pfx${name}_out
dest=/verif/seeded/$name$suffix
mkdir -p $dest
cp $out/patch.diff $dest/patch.diff
cp $out/demo_*.rs $dest/ 2>/dev/null
cp $out/README.md $dest/README.md 2>/dev/null
demo=$(basename $(ls $out/demo_*.rs | head -1) .rs)
cd $wt || exit 2
git checkout -q -- . 2>/dev/null; git clean -fdq tests 2>/dev/null
cp $out/$demo.rs tests/
# demo on the unchanged tree
r_clean=$(cargo test --offline --test $demo 2>&1 | grep -E "^test result" | tail -1)
git apply $out/patch.diff || { echo "patch does not apply"; exit 2; }
r_mut=$(cargo test --offline --test $demo 2>&1 | grep -E "^test result" | tail -1)
rm tests/$demo.rs
suite=$(cargo test --offline 2>&1 | grep -E "^test result" | tr '\n' ';')
echo "demo unchanged: $r_clean"; echo "demo mutated:   $r_mut"; echo "suite mutated:  $suite"
git checkout -q -- .
rm -rf $wt/target
# our checks against it
cd /repo && git apply $dest/patch.diff || { echo "patch does not apply to /repo"; exit 2; }
results=""
for c in "$@"; do
  cd /verif && o=$(./check $c 2>&1 | grep -E "VIOLATION|KNOWN|does not build|failed" | head -3 | tr '\n' ' ')
  rc=$?
  results="$results$c: ${o:-no alarm}; "
  echo "check $c => ${o:-no alarm}"
done
git -C /repo checkout -- .
python3 - "$name" "$prop" "$r_clean" "$r_mut" "$suite" "$results" <<'PY'
import json,sys
name,prop,rc,rm,suite,res=sys.argv[1:7]
meta={"breaks_property":prop,"needs_to_manifest":"see README.md","confirmed":{"demo_on_unchanged_tree":rc,"demo_with_change":rm,"existing_suite_with_change":suite},
      "our_checks":res,"how":"tools/eval_mutant.sh: demo run with and without the patch in a scratch worktree, full suite with the patch, then git -C /repo apply, ./check <ids>, git -C /repo checkout -- ."}
import os
json.dump(meta,open(f"/verif/seeded/{name}{os.environ.get('SUFFIX','')}/meta.json","w"),indent=1)
PY
