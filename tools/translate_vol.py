#!/usr/bin/env python3
"""Gen/FunsVol.lean: `fat::parse_volume` (fat/volume.rs) as a WHOLE, in the model's `F` monad.

The statements of the function are translated here (a small statement language, listed in the header of the
generated file); every expression inside them goes through the pure translator `tools/translate.py`, used as
a library, so the representation and the operator table are those of `Gen/Funs.lean` (whose definitions are
used, not repeated).  Anything else raises ShapeError (exit status 3 in tools/extract.py)."""
import os
import re
import sys

sys.path.insert(0, os.path.dirname(os.path.abspath(__file__)))
import rustfront
from rustfront import ShapeError, Items, parse_fn_body, parse_params, parse_type
import translate
from translate import Full, Ctx, V, lname, pretty
from translate_m import RECORDS, CACHE_PARAM_TYPE, CACHE_CALLS, LOG_MACROS, pretty_m, _balanced

VOL_FUNCTIONS = [(None, "parse_volume")]

# a struct with one field that the model keeps as that field
UNWRAPPED = {"VolumeName": "contents"}
# fields of FatVolume that the engine's table (translate_m.RECORDS) does not list
EXTRA_FIELDS = {"name": "name"}
# the enum around the volume, with a single variant: the volume itself
IDENTITY_ENUMS = {"VolumeType": "Fat"}


class VolTrans:
    def __init__(self, items, T):
        self.items = items
        self.enum_items = items      # where the enums of IDENTITY_ENUMS are declared
        self.T = T

    # ------------------------------------------------------------------ helpers
    def pure_env(self, env):
        return {k: b for k, b in env.items() if b[0] in ("val", "structlocal")}

    def ptr(self, e, env, ctx):
        """an expression without effects: the pure translator (exact arithmetic; its side condition is not
        enforced, as everywhere in monadic mode)"""
        for k, b in env.items():
            if b[0] == "modelrec" and self.mentions(e, k):
                raise ShapeError(f"{ctx.what}: the volume under construction `{k}` may only be assigned field by "
                                 f"field and returned")
        return self.T.tr(e, self.pure_env(env), ctx)

    def mentions(self, node, name):
        if isinstance(node, tuple):
            if node and node[0] == "path" and node[1] == [name]:
                return True
            return any(self.mentions(x, name) for x in node)
        if isinstance(node, list):
            return any(self.mentions(x, name) for x in node)
        return False

    def err_of(self, a, env, ctx):
        if a[0] == "path" and len(a[1]) == 2 and a[1][0] == "Error":
            return f"Model.Err.{a[1][1]}"
        if a[0] == "call" and a[1][0] == "path" and len(a[1][1]) == 2 and a[1][1][0] == "Error" and len(a[2]) == 1:
            arg = a[2][0]
            if arg[0] == "str":
                s = arg[1].replace("\\", "\\\\").replace('"', '\\"')
                return f'(Model.Err.{a[1][1][1]} "{s}")'
            v = self.ptr(arg, env, ctx)
            return f"(Model.Err.{a[1][1][1]} {self.T.arg(v, ctx)})"
        raise ShapeError(f"{ctx.what}: this error value is outside the subset")

    def is_cache_read(self, e, ctx):
        """block_cache.read(E).map_err(Error::DeviceError) -> E"""
        if e[0] == "mcall" and e[2] == "map_err" and e[3] == [("path", ["Error", "DeviceError"])]:
            r = e[1]
            if r[0] == "mcall" and r[1] == ("path", [ctx.cache_param]) and r[2] == "read" and len(r[3]) == 1:
                return r[3][0]
        return None

    def is_format_result(self, e):
        """PURE.map_err(Error::FormatError) -> PURE"""
        if e[0] == "mcall" and e[2] == "map_err" and e[3] == [("path", ["Error", "FormatError"])]:
            return e[1]
        return None

    def ref_field_source(self, key, sname, ctx):
        """The constructor `key` of a struct with one reference field: checks that every literal of the struct in
        its body binds that field to the function's first parameter; returns (ref field, [other fields])."""
        T = self.T
        refs = [(f, t) for f, t, isref in T.struct_fields(sname, ctx.what) if isref]
        others = [(f, t) for f, t, isref in T.struct_fields(sname, ctx.what) if not isref]
        if len(refs) != 1:
            raise ShapeError(f"{ctx.what}: {sname} must have exactly one reference field")
        decl = self.items.fns[key]
        _sk, params = parse_params(decl, self.items)
        if len(params) != 1:
            raise ShapeError(f"{ctx.what}: {key[0]}::{key[1]} must take the bytes as its only parameter")
        p0 = params[0][0]
        body = parse_fn_body(decl, self.items)
        lits = []

        def walk(n):
            if isinstance(n, tuple):
                if n and n[0] == "struct" and n[1] in (sname, "Self"):
                    lits.append(n)
                for x in n:
                    walk(x)
            elif isinstance(n, list):
                for x in n:
                    walk(x)
        walk(body)
        if not lits:
            raise ShapeError(f"{ctx.what}: {key[0]}::{key[1]} builds no {sname}")
        for lit in lits:
            given = dict(lit[2])
            if given.get(refs[0][0]) != ("path", [p0]):
                raise ShapeError(f"{ctx.what}: {key[0]}::{key[1]} must store its parameter `{p0}` in "
                                 f"{sname}.{refs[0][0]}")
        return refs[0], others

    # ------------------------------------------------------------------ the struct literal of the volume
    def volume_literal(self, e, env, ctx):
        T = self.T
        rec = RECORDS["FatVolume"]
        _, sname, fields = e
        decl_fields = [f for f, _t, _r in T.struct_fields("FatVolume", ctx.what)]
        given = dict(fields)
        if len(given) != len(fields) or set(given) != set(decl_fields):
            raise ShapeError(f"{ctx.what}: the FatVolume literal must give every field exactly once")
        ftypes = {f: t for f, t, _r in T.struct_fields("FatVolume", ctx.what)}
        parts = []
        for fname in decl_fields:
            ex = given[fname]
            if fname in rec["fields"] or fname in EXTRA_FIELDS:
                model = rec["fields"].get(fname) or EXTRA_FIELDS[fname]
                fty = ftypes[fname]
                if fty[0] == "ty" and fty[1] in UNWRAPPED:
                    inner = UNWRAPPED[fty[1]]
                    if not (ex[0] == "struct" and ex[1] == fty[1] and [f for f, _x in ex[2]] == [inner]):
                        raise ShapeError(f"{ctx.what}: field {fname} must be a `{fty[1]} {{ {inner}: .. }}` literal")
                    sf = [(f, t) for f, t, _r in T.struct_fields(fty[1], ctx.what)]
                    if [f for f, _t in sf] != [inner]:
                        raise ShapeError(f"{ctx.what}: struct {fty[1]} no longer has the single field {inner}")
                    v = self.ptr(ex[2][0][1], env, ctx)
                    T.unify(v.ty, T.conv_type(sf[0][1], ctx.what, fty[1]), ctx.what)
                else:
                    v = self.ptr(ex, env, ctx)
                    T.unify(v.ty, T.conv_type(fty, ctx.what, "FatVolume"), ctx.what)
                parts.append(f"{model} := {T.value(v, ctx)}")
            elif fname in rec["enum_fields"]:
                ef = rec["enum_fields"][fname]
                if not (ex[0] == "call" and ex[1][0] == "path" and len(ex[1][1]) == 2 and ex[1][1][0] == ef["enum"]
                        and ex[1][1][1] in ef["variants"] and len(ex[2]) == 1 and ex[2][0][0] == "struct"
                        and ex[2][0][1] == ex[1][1][1] + "Info"):
                    raise ShapeError(f"{ctx.what}: field {fname} must be `{ef['enum']}::V(VInfo {{ .. }})`")
                vn = ex[1][1][1]
                ctor, fmap = ef["variants"][vn]
                pfields = [(f, t) for f, t, _r in T.struct_fields(vn + "Info", ctx.what)]
                pgiven = dict(ex[2][0][2])
                if set(pgiven) != {f for f, _t in pfields} or set(pgiven) != set(fmap):
                    raise ShapeError(f"{ctx.what}: the {vn}Info literal must give exactly the fields of the payload")
                parts.append(f"{ef['tag']} := Model.{ctor}")
                for f, t in pfields:
                    v = self.ptr(pgiven[f], env, ctx)
                    T.unify(v.ty, T.conv_type(t, ctx.what, vn + "Info"), ctx.what)
                    parts.append(f"{fmap[f]} := {T.value(v, ctx)}")
                # the payload fields of the other variants do not exist in Rust; the flat record keeps them 0
                for on, (_c, ofmap) in ef["variants"].items():
                    if on != vn:
                        for f in ofmap.values():
                            parts.append(f"{f} := 0")
            else:
                raise ShapeError(f"{ctx.what}: field {fname} of FatVolume has no place in the model's record")
        return "({ " + ", ".join(parts) + " : Model.FatVolume })"

    # ------------------------------------------------------------------ statements
    def drop_blocks(self, env):
        """a later read of the cache ends the life of every earlier `&Block` (and of what borrows from it)"""
        dead = {b[1] for b in env.values() if b[0] == "val" and len(b) > 3 and b[3] == "cacheblk"}
        env2 = {}
        for k, b in env.items():
            if b[0] == "val" and len(b) > 3 and b[3] == "cacheblk":
                continue
            if b[0] == "structlocal" and any(fl in dead for fl, _t in b[2].values()):
                continue
            env2[k] = b
        return env2

    def run(self, stmts, tail, env, ctx):
        T = self.T
        if not stmts:
            return self.ret(tail, env, ctx)
        s, rest = stmts[0], stmts[1:]

        def cont(env2):
            return self.run(rest, tail, env2, ctx)
        if s[0] == "expr" and s[1][0] == "macro" and s[1][1] in LOG_MACROS:
            return cont(env)
        if s[0] == "let":
            _, pat, ty, init = s
            if pat[0] != "pbind" or init is None:
                raise ShapeError(f"{ctx.what}: this `let` is outside the subset")
            name = pat[1]
            T.check_local(name, ctx)
            ln = lname(name)
            want = T.conv_type(ty, ctx.what, None) if ty is not None else None
            if init[0] == "try":
                core = init[1]
                idx = self.is_cache_read(core, ctx)
                if idx is not None:
                    v = self.ptr(idx, env, ctx)
                    if T.res(v.ty)[0] not in ("nt", "int"):
                        raise ShapeError(f"{ctx.what}: block index expected in read(..)")
                    env2 = self.drop_blocks(env)
                    env2[name] = ("val", ln, ("bytes", 512), "cacheblk")
                    return f"(Model.cacheRead {T.arg(v, ctx)} >>= fun _ => Model.cacheBlk >>= fun {ln} => {cont(env2)})"
                pr = self.is_format_result(core)
                if pr is not None:
                    return self.format_result(name, ln, pr, env, ctx, cont)
                if core[0] == "mcall" and core[2] == "ok_or" and len(core[3]) == 1:
                    ov = self.ptr(core[1], env, ctx)
                    ot = T.res(ov.ty)
                    if ot[0] != "option":
                        raise ShapeError(f"{ctx.what}: ok_or on {T.show(ot)}")
                    err = self.err_of(core[3][0], env, ctx)
                    if want is not None:
                        T.unify(ot[1], want, ctx.what)
                    env2 = dict(env)
                    env2[name] = ("val", ln, ot[1])
                    return f"(match {ov.lean} with | some {ln} => {cont(env2)} | none => Model.F.fail {err})"
                raise ShapeError(f"{ctx.what}: `let {name} = ..?` of this form is outside the subset")
            if init[0] == "mcall" and init[2] == "unwrap" and not init[3]:
                ov = self.ptr(init[1], env, ctx)
                ot = T.res(ov.ty)
                if ot[0] != "option":
                    raise ShapeError(f"{ctx.what}: unwrap on {T.show(ot)}")
                env2 = dict(env)
                env2[name] = ("val", ln, ot[1])
                return (f"(match {ov.lean} with | some {ln} => {cont(env2)} | none => "
                        f"Model.F.panic \"called `Option::unwrap()` on a `None` value\")")
            if init[0] == "struct" and init[1] == "FatVolume":
                lit = self.volume_literal(init, env, ctx)
                env2 = dict(env)
                env2[name] = ("modelrec", ln)
                return f"(let {ln} := {lit}; {cont(env2)})"
            if translate.has_node(init, ("try", "return", "break", "continue")):
                raise ShapeError(f"{ctx.what}: `let {name}` with an early exit inside is outside the subset")
            self.ptr(init, env, ctx)     # (rejects uses of the volume under construction)
            penv = self.pure_env(env)
            holder = {}

            def k(env2):
                merged = dict(env)
                merged.update(env2)
                holder["t"] = cont(merged)
                return V(holder["t"], ("unit",))
            v = T.run([s], penv, ctx, k)
            return f"({v.lean})"
        if s[0] == "expr":
            e = s[1]
            if e[0] == "if" and e[3] is None and e[2][0] == "block" and e[2][2] is None and len(e[2][1]) == 1 and \
                    e[2][1][0][0] == "expr" and e[2][1][0][1][0] == "return":
                r = e[2][1][0][1][1]
                if not (r is not None and r[0] == "call" and r[1] == ("path", ["Err"]) and len(r[2]) == 1):
                    raise ShapeError(f"{ctx.what}: only `return Err(..)` leaves the function early in the subset")
                c = self.ptr(e[1], env, ctx)
                return f"(if {T.as_prop(c, ctx)} then Model.F.fail {self.err_of(r[2][0], env, ctx)} else {cont(env)})"
            if e[0] == "assign" and e[1] == "=" and e[2][0] == "field" and e[2][1][0] == "path" and \
                    len(e[2][1][1]) == 1 and e[2][1][1][0] in env and env[e[2][1][1][0]][0] == "modelrec":
                vn = e[2][1][1][0]
                f = e[2][2]
                rec = RECORDS["FatVolume"]
                if f not in rec["fields"]:
                    raise ShapeError(f"{ctx.what}: assignment to {vn}.{f} is outside the subset")
                ftypes = {fn: t for fn, t, _r in T.struct_fields("FatVolume", ctx.what)}
                v = self.ptr(e[3], env, ctx)
                T.unify(v.ty, T.conv_type(ftypes[f], ctx.what, "FatVolume"), ctx.what)
                lv = env[vn][1]
                return f"(let {lv} := {{ {lv} with {rec['fields'][f]} := {T.value(v, ctx)} }}; {cont(env)})"
        raise ShapeError(f"{ctx.what}: this statement is outside the subset of translate_vol")

    def format_result(self, name, ln, pr, env, ctx, cont):
        """let x = S::ctor(bytes).map_err(Error::FormatError)?;  S a struct around a reference to the bytes"""
        T = self.T
        if not (pr[0] == "call" and pr[1][0] == "path" and len(pr[1][1]) == 2 and len(pr[2]) == 1 and
                pr[2][0][0] == "path" and len(pr[2][0][1]) == 1):
            raise ShapeError(f"{ctx.what}: `let {name}`: only `S::f(block).map_err(Error::FormatError)?` is in the subset")
        key = (pr[1][1][0], pr[1][1][1])
        if key not in self.items.fns:
            raise ShapeError(f"{ctx.what}: function {key[0]}::{key[1]} not found")
        src = pr[2][0][1][0]
        if src not in env or env[src][0] != "val" or T.res(env[src][2]) != ("bytes", 512):
            raise ShapeError(f"{ctx.what}: {key[0]}::{key[1]} must be given a block")
        v = self.ptr(pr, env, ctx)
        rt = T.res(v.ty)
        drt = parse_type(self.items.fns[key].ret, ctx.what, self.items) if self.items.fns[key].ret else None
        et = None
        if drt and drt[0] == "ty" and drt[1] == "Result":
            targs = [a for a in drt[2] if a[0] != "tlife"]
            if len(targs) == 2:
                et = targs[1]
                while et[0] == "tref":
                    et = et[1]
        if not (rt[0] == "result" and T.res(rt[1])[0] == "struct" and T.res(rt[1])[1] == key[0] and
                et is not None and et[0] == "ty" and et[1] == "str"):
            raise ShapeError(f"{ctx.what}: {key[0]}::{key[1]} must return Result<{key[0]}, &str> "
                             f"(got {T.show(rt)})")
        (rf, rft), others = self.ref_field_source(key, key[0], ctx)
        fields = {rf: (env[src][1], T.conv_type(rft, ctx.what, key[0]))}
        lets = ""
        for f, t in others:
            fl = f"{ln}_{f}"
            fields[f] = (fl, T.conv_type(t, ctx.what, key[0]))
            lets += f"let {fl} := {ln}.{f}; "
        env2 = dict(env)
        env2[name] = ("structlocal", key[0], fields)
        return (f"(match {v.lean} with | Except.error msg => Model.F.fail (Model.Err.FormatError msg) | "
                f"Except.ok {ln} => {lets}{cont(env2)})")

    # ------------------------------------------------------------------ the end of a block
    def ret(self, tail, env, ctx):
        T = self.T
        if tail is None:
            raise ShapeError(f"{ctx.what}: a block without a value is outside the subset")
        if tail[0] == "match":
            sv = self.ptr(tail[1], env, ctx)
            st = T.res(sv.ty)
            if st[0] != "enum" or st[1] not in self.items.enums:
                raise ShapeError(f"{ctx.what}: match on {T.show(st)} is outside the subset")
            variants = [vn for vn, _p in self.items.enums[st[1]]]
            seen, arms = [], []
            for pat, guard, body in tail[2]:
                if guard is not None or pat[0] != "ppath" or len(pat[1]) != 2 or pat[1][0] != st[1] or \
                        pat[1][1] not in variants or pat[1][1] in seen:
                    raise ShapeError(f"{ctx.what}: this match arm is outside the subset")
                seen.append(pat[1][1])
                b = body if body[0] == "block" else ("block", [], body)
                arms.append(f"| {st[1]}.{pat[1][1]} => {self.run(list(b[1]), b[2], dict(env), ctx)}")
            if set(seen) != set(variants):
                raise ShapeError(f"{ctx.what}: the match must list every variant of {st[1]}")
            return f"(match {sv.lean} with " + " ".join(arms) + ")"
        if tail[0] == "call" and tail[1] == ("path", ["Ok"]) and len(tail[2]) == 1:
            x = tail[2][0]
            if x[0] == "call" and x[1][0] == "path" and len(x[1][1]) == 2 and x[1][1][0] in IDENTITY_ENUMS and \
                    x[1][1][1] == IDENTITY_ENUMS[x[1][1][0]] and len(x[2]) == 1:
                en = x[1][1][0]
                if [vn for vn, _p in self.enum_items.enums.get(en, [])] != [IDENTITY_ENUMS[en]]:
                    raise ShapeError(f"{ctx.what}: enum {en} no longer has the single variant {IDENTITY_ENUMS[en]}")
                y = x[2][0]
                if y[0] == "path" and len(y[1]) == 1 and y[1][0] in env and env[y[1][0]][0] == "modelrec":
                    return f"(pure {env[y[1][0]][1]})"
        if tail[0] == "call" and tail[1] == ("path", ["Err"]) and len(tail[2]) == 1:
            return f"(Model.F.fail {self.err_of(tail[2][0], env, ctx)})"
        raise ShapeError(f"{ctx.what}: the value of this block is outside the subset")

    # ------------------------------------------------------------------ a function
    def translate(self, key):
        T = self.T
        if key not in self.items.fns:
            raise ShapeError(f"function {key[0]}::{key[1]} not found in the scanned files")
        decl = self.items.fns[key]
        what = f"{decl.where}: fn {(decl.impl + '::') if decl.impl else ''}{decl.name}"
        ctx = Ctx(what, decl.impl)
        ctx.cache_param = None
        self_kind, params = parse_params(decl, self.items)
        if self_kind is not None:
            raise ShapeError(f"{what}: methods are outside the subset of translate_vol")
        env, plist = {}, []
        for pn, pty in params:
            t = pty
            while t[0] == "tref":
                t = t[1]
            if t[0] == "ty" and t[1] == CACHE_PARAM_TYPE:
                if ctx.cache_param is not None or not (pty[0] == "tref" and len(pty) == 3):
                    raise ShapeError(f"{what}: exactly one `&mut BlockCache` parameter expected")
                ctx.cache_param = pn
                continue
            T.check_local(pn, ctx)
            ty = T.conv_type(pty, f"{what}: parameter {pn}", None)
            if pty[0] == "tref" and len(pty) == 3:
                raise ShapeError(f"{what}: `&mut` parameter {pn} is outside the subset")
            env[pn] = ("val", lname(pn), ty)
            plist.append((lname(pn), ty))
        if ctx.cache_param is None:
            raise ShapeError(f"{what}: no block cache parameter")
        rt = parse_type(decl.ret, what, self.items) if decl.ret else None
        if not (rt and rt[0] == "ty" and rt[1] == "Result" and len(rt[2]) == 2 and rt[2][0][0] == "ty" and
                rt[2][0][1] in IDENTITY_ENUMS and rt[2][1][0] == "ty" and rt[2][1][1] == "Error"):
            raise ShapeError(f"{what}: the return type must be Result<VolumeType, Error<..>>")
        body = parse_fn_body(decl, self.items)
        text = self.run(list(body[1]), body[2], env, ctx)
        if text.startswith("(") and text.endswith(")") and _balanced(text[1:-1]):
            text = text[1:-1]
        text = T.resolve_placeholders(text, what)
        name = (decl.impl + "_" if decl.impl else "") + decl.name
        doc = f"`{(decl.impl + '::') if decl.impl else ''}{decl.name}` ({decl.where})"
        return name, plist, text, doc


LEAN_HEADER_VOL = '''/-!
# Machine translation of `fat::parse_volume` (fat/volume.rs), whole, into the model's `F` monad

Produced by `tools/translate_vol.py` (called from tools/extract.py) from the text of the function; nothing here is
written by hand.  `Props/C15GenVol.lean` proves it EQUAL to the model's mount parse (`parseVolumeBpb`, then for
FAT32 `parseVolumeInfo` on the info sector) for every medium, and `FunsMgr.parseVolume` (the hand-given binding the
volume manager's translation uses) equal to it.  Every expression is translated by the pure translator
`tools/translate.py` (same representation and operator table as `Gen/Funs.lean` and `Gen/FunsInfo.lean`, whose
definitions are used, not repeated).  The statements in the subset:

* `let x = block_cache.read(i).map_err(Error::DeviceError)?;` is `cacheRead i >>= fun _ => cacheBlk >>= fun x => ..`
  (as in `Gen/FunsM.lean`; `x` is the content of the cache block at that moment, and a later read ends the life of
  every earlier `x` and of every struct that borrows from it, as the borrow checker does);
* `let s = S::f(block).map_err(Error::FormatError)?;` for a struct `S` around a reference to its bytes
  (`Bpb`, `InfoSector`): a `match` on the pure translation of `S::f` (`Except String S`), the error string becoming
  `Err.FormatError msg`; afterwards `s` is SPLIT as in `Gen/Funs.lean`: its reference field is `block` (checked:
  every `S {{ .. }}` literal in `S::f` stores the parameter there), its other fields are `s_field := s.field`;
* `let x = o.ok_or(Error::V(..))?;` is a `match` on the `Option` with `Model.F.fail (Err.V ..)`;
  `let x = o.unwrap();` is a `match` with `Model.F.panic "called `Option::unwrap()` on a `None` value"`;
* `if c {{ return Err(Error::V(..)); }}` is `if c then Model.F.fail (Err.V ..) else ..`;
* any other `let x = e;` without an early exit inside is the pure translator's `let`;
* `let volume = FatVolume {{ .. }};` builds the model's flat record `FatVolume` (`Model/Mount.lean`) field for field
  with the table of `Gen/FunsM.lean` (`lba_start ↦ lbaStart`, ..; `name: VolumeName {{ contents: e }}` is `name := e`;
  `fat_specific_info: FatSpecificInfo::Fat16(Fat16Info {{ .. }})` is `fatType := FatType.fat16` plus the payload
  fields, and the payload fields of the OTHER variant, which do not exist in Rust, are `0` in the flat record);
  every field of the Rust struct must be given; `volume.f = e;` is `{{ volume with f := e }}`;
* `match x {{ E::A => {{ .. }} E::B => {{ .. }} }}` at the end of a block, over every variant of a field-less enum;
  `Ok(VolumeType::Fat(volume))` is `pure volume` (`VolumeType` has the single variant `Fat`: checked).
* Logging macros are skipped.

New in the pure translator for this file (`tools/translate.py: st_match`): a `match` STATEMENT over every variant of a
field-less enum whose arms only assign locals (`Bpb::volume_label`) is joined like an `if` statement
(`let result := if x = E.A then .. else ..`).

## Arithmetic

As in `Gen/FunsM.lean`, `u32` arithmetic is exact here (`impl Add for BlockCount` is `+` on the numbers); the Rust
function panics on overflow in a dev-profile build, and so does the model (`addU32`, `mulU32`).  The equality theorem
holds all the same, for every boot sector: `Bpb::create_from_bytes` only succeeds when the checked sum
`num_fats * fat_size + reserved + root_dir_blocks` fits in `u32`, and every sum of `parse_volume` is bounded by it
(`Lemmas/C15.lean: sums_le`), so neither side ever overflows.
-/
'''.replace("{{", "{").replace("}}", "}")


def generate_vol(read_src):
    """Gen/FunsVol.lean.  Returns (lean text, summary dict)."""
    items = Items()
    for f in translate.FILES2:
        items.scan_file(f, read_src(f))
    T = Full(items)
    for key in translate.FUNCTIONS:
        T.translate_fn(key)
    for spec in translate.FRAGMENTS:
        T.translate_fragment(spec)
    import translate_mgr2
    for key in translate_mgr2.INFO_FUNCTIONS:
        T.translate_fn(key)
    n0, types0 = len(T.order), list(T.types_used)
    VT = VolTrans(items, T)
    VT.enum_items = Items()
    VT.enum_items.scan_file("lib.rs", read_src("lib.rs"))
    outs = [VT.translate(key) for key in VOL_FUNCTIONS]
    lines = ["import Sdmmc.Model.Dev\nimport Sdmmc.Gen.Funs\nimport Sdmmc.Gen.FunsInfo\n", LEAN_HEADER_VOL,
             "set_option linter.unusedVariables false\n",
             "namespace Sdmmc.Gen.FunsVol\n", "open Sdmmc Sdmmc.Gen.Funs Sdmmc.Gen.FunsInfo\n"]
    for kind, name in T.types_used:
        if (kind, name) not in types0:
            raise ShapeError(f"FunsVol: the new generated type {name} is not supported here")
    for key in T.order[n0:]:
        info = T.done[key]
        ps = "".join(f" ({n} : {T.lean_type(t, info.name)})" for n, t in info.params)
        rt = T.lean_type(info.ret, info.name)
        lines.append(f"/-- {info.doc}. -/\ndef {info.name}{ps} : {rt} :=\n  {pretty(info.body)}\n")
    summary = {}
    for name, plist, text, doc in outs:
        ps = "".join(f" ({n} : {T.lean_type(t, name)})" for n, t in plist)
        lines.append(f"/-- {doc}. -/\ndef {name}{ps} : Model.F Model.FatVolume :=\n  {pretty_m(text)}\n")
        summary[name] = text
    lines.append("end Sdmmc.Gen.FunsVol\n")
    text = "\n".join(lines).replace("rdByte_PLACEHOLDER", "rdByte")
    return text, summary


if __name__ == "__main__":
    root = os.environ.get("VERIF_REPO", "/repo")

    def read_src(rel):
        with open(os.path.join(root, "src", rel)) as f:
            return f.read()
    try:
        text, _ = generate_vol(read_src)
    except ShapeError as e:
        print(f"translate_vol: {e}", file=sys.stderr)
        sys.exit(3)
    sys.stdout.write(text)
