#!/usr/bin/env python3
"""Rust -> Lean 4 translator for pure, expression-level functions of the crate.

Called from tools/extract.py (`gen_funs`).  The front end (lexer, item scanner,
`macro_rules!` expander, parser) is tools/rustfront.py; this file does the typed
translation and writes `Sdmmc/Gen/Funs.lean`.

The semantics chosen for every operator is documented in LEAN_HEADER below (it is
copied into the generated file).  Anything outside the subset raises ShapeError, which
extract.py turns into exit status 3 with a message naming the function.
"""
import re
from rustfront import (ShapeError, Items, Parser, parse_fn_body, parse_params, parse_type, parse_expr, split_commas)

INT_W = {"u8": 8, "u16": 16, "u32": 32, "u64": 64}
LEAN_KEYWORDS = {"end", "from", "at", "then", "do", "have", "show", "fun", "open", "local", "let", "in", "if", "else",
                 "match", "with", "by", "where", "def", "theorem", "namespace", "section", "variable", "instance",
                 "structure", "inductive", "class", "import", "export", "private", "protected", "mutual", "deriving",
                 "Type", "Prop", "Sort", "forall", "exists", "calc", "using", "infix", "notation", "macro", "syntax",
                 "universe", "example", "abbrev", "axiom", "return", "for", "unless", "try", "catch", "finally",
                 "mut", "nomatch", "nofun", "obtain", "suffices", "termination_by", "decreasing_by", "set_option",
                 "attribute", "prefix", "postfix", "infixl", "infixr", "noncomputable", "partial", "unsafe", "opaque",
                 # overloaded constants of the namespaces the generated files open (ambiguous in patterns)
                 "read", "write"}


def lname(n):
    return n + "_" if n in LEAN_KEYWORDS else n


class V:
    """A translated expression: Lean text, Rust type, side condition (Lean Prop text or None = True),
    compile-time value if known, and whether a bool is rendered as a Prop."""
    __slots__ = ("lean", "ty", "ok", "const", "prop")

    def __init__(self, lean, ty, ok=None, const=None, prop=False):
        self.lean, self.ty, self.ok, self.const, self.prop = lean, ty, ok, const, prop


def conj(*oks):
    parts = [o for o in oks if o is not None]
    if not parts:
        return None
    if len(parts) == 1:
        return parts[0]
    return "(" + " ∧ ".join(parts) + ")"


def PH(kind, vid):
    return f"\x01{kind}{vid}\x02"


class FnInfo:
    def __init__(self, name):
        self.name = name            # Lean name
        self.params = []            # [(lean name, type)]
        self.ret = None
        self.body = None            # Lean text (multi-line allowed)
        self.okbody = None          # Lean Prop text or None
        self.doc = ""
        self.self_fields = None     # ordered list of self field names that became parameters
        self.self_nt = False


class Translator:
    def __init__(self, items, where_prefix=""):
        self.items = items
        self.done = {}          # key -> FnInfo
        self.order = []         # keys in emission order
        self.in_progress = set()
        self.types_used = []    # Lean type declarations in order: ('struct'|'enum', name)
        self.tv = {}            # type variable id -> type or None
        self.ntv = 0
        self.ntmp = 0

    # ------------------------------------------------------------------ types
    def fresh_tv(self):
        self.ntv += 1
        self.tv[self.ntv] = None
        return ("var", self.ntv)

    def res(self, t):
        while t[0] == "var" and self.tv[t[1]] is not None:
            t = self.tv[t[1]]
        return t

    def is_int(self, t):
        t = self.res(t)
        return t[0] in ("int", "usize", "var")

    def unify(self, a, b, what):
        a, b = self.res(a), self.res(b)
        if a == b:
            return a
        if a[0] == "var":
            self.tv[a[1]] = b
            return b
        if b[0] == "var":
            self.tv[b[1]] = a
            return a
        if a[0] == "bytes" and b[0] == "bytes" and (a[1] is None or b[1] is None or a[1] == b[1]):
            return a if a[1] is not None else b
        if a[0] == b[0] and a[0] in ("option", "result"):
            return (a[0], self.unify(a[1], b[1], what))
        if a[0] == "arr" and b[0] == "arr" and a[2] == b[2]:
            return ("arr", self.unify(a[1], b[1], what), a[2])
        if a[0] == "tuple" and b[0] == "tuple" and len(a[1]) == len(b[1]):
            return ("tuple", [self.unify(x, y, what) for x, y in zip(a[1], b[1])])
        raise ShapeError(f"{what}: type mismatch {self.show(a)} vs {self.show(b)}")

    def show(self, t):
        t = self.res(t)
        if t[0] == "int":
            return f"u{t[1]}"
        if t[0] in ("nt", "enum", "struct"):
            return t[1]
        if t[0] in ("option", "result"):
            return f"{t[0]}<{self.show(t[1])}>"
        return t[0]

    def conv_type(self, ty, what, impl=None):
        """front-end type -> translator type"""
        k = ty[0]
        if k == "tref":
            return self.conv_type(ty[1], what, impl)
        if k in ("tarray", "tslice"):
            inner = self.conv_type(ty[1], what, impl)
            if inner[0] == "int" and inner[1] != 8 and k == "tarray":
                # `[u16; N]`: a list of numbers (only built by an array literal and handed on)
                return ("arr", inner, self.const_eval(ty[2], what, impl))
            if inner != ("int", 8):
                raise ShapeError(f"{what}: only byte arrays / slices are in the subset")
            if k == "tslice":
                return ("bytes", None)
            ln = ty[2]
            lv = self.const_eval(ln, what, impl)
            return ("bytes", lv)
        if k == "ttuple":
            if not ty[1]:
                return ("unit",)
            return ("tuple", [self.conv_type(x, what) for x in ty[1]])
        if k == "ty":
            name, args = ty[1], [a for a in ty[2] if a[0] != "tlife"]
            if name in INT_W:
                return ("int", INT_W[name])
            if name == "usize":
                return ("usize",)
            if name == "bool":
                return ("bool",)
            if name == "str":
                return ("str",)
            if name == "Option" and len(args) == 1:
                return ("option", self.conv_type(args[0], what, impl))
            if name == "Result" and len(args) >= 1:
                return ("result", self.conv_type(args[0], what, impl))
            if name.startswith("Self::") and impl is not None and (impl, name[6:]) in self.items.assoc:
                return self.conv_type(parse_type(self.items.assoc[(impl, name[6:])], what, self.items), what, impl)
            if name == "Self":
                if impl is None:
                    raise ShapeError(f"{what}: `Self` type outside an impl")
                name = impl
            if name in self.items.structs:
                kind, fields = self.items.structs[name]
                if kind == "tuple" and len(fields) == 1:
                    base = self.conv_type(parse_type(fields[0], what, self.items), what)
                    if base[0] in ("int", "usize"):
                        return ("nt", name, base)
                    if base[0] == "nt":
                        return ("nt", name, base[2])
                if kind == "named":
                    return ("struct", name)
            if name in self.items.enums:
                return ("enum", name)
            raise ShapeError(f"{what}: type `{name}` is outside the subset")
        raise ShapeError(f"{what}: type outside the subset")

    def lean_type(self, t, what):
        t = self.res(t)
        k = t[0]
        if k in ("int", "usize", "nt", "var"):
            return "Nat"
        if k == "bool":
            return "Bool"
        if k == "bytes":
            return "List UInt8"
        if k == "arr":
            return "List Nat"
        if k == "str":
            return "String"
        if k == "unit":
            return "Unit"
        if k == "option":
            return f"Option ({self.lean_type(t[1], what)})" if " " in self.lean_type(t[1], what) else f"Option {self.lean_type(t[1], what)}"
        if k == "result":
            inner = self.lean_type(t[1], what)
            return f"Except String ({inner})" if " " in inner else f"Except String {inner}"
        if k == "tuple":
            return "(" + " × ".join(self.lean_type(x, what) for x in t[1]) + ")"
        if k == "enum":
            self.need_enum(t[1], what)
            return t[1]
        if k == "struct":
            self.need_struct(t[1], what)
            return t[1]
        raise ShapeError(f"{what}: no Lean type for {k}")

    def struct_fields(self, name, what):
        """non-reference fields of a named struct, with translator types"""
        kind, fields = self.items.structs[name]
        out = []
        for fname, ftoks in fields:
            fty = parse_type(ftoks, f"{what}: struct {name}", self.items)
            isref = fty[0] == "tref"
            out.append((fname, fty, isref))
        return out

    def need_struct(self, name, what):
        if ("struct", name) in self.types_used:
            return
        for fname, fty, isref in self.struct_fields(name, what):
            if not isref:
                self.lean_type(self.conv_type(fty, f"{what}: struct {name}.{fname}", name), what)
        if ("struct", name) not in self.types_used:
            self.types_used.append(("struct", name))

    def need_enum(self, name, what):
        if ("enum", name) in self.types_used:
            return
        for vname, payload in self.items.enums[name]:
            if payload is None:
                raise ShapeError(f"{what}: enum {name}::{vname} has a struct-like payload (outside the subset)")
            for p in payload:
                self.lean_type(self.conv_type(parse_type(p, what, self.items), f"{what}: enum {name}::{vname}"), what)
        if ("enum", name) not in self.types_used:
            self.types_used.append(("enum", name))

    # ------------------------------------------------------------------ widths
    def pow2(self, t, what):
        """Lean numeral text for 2^bits of an integer type (placeholder for an unresolved literal type)."""
        t = self.res(t)
        if t[0] == "int":
            return str(2 ** t[1])
        if t[0] == "var":
            return PH("P", t[1])
        if t[0] == "usize":
            raise ShapeError(f"{what}: the width of usize is target dependent; wrapping / shifting-left / `!` on usize "
                             f"is outside the subset")
        raise ShapeError(f"{what}: not an integer type ({self.show(t)})")

    def bound(self, t, what):
        """2^bits used for overflow side conditions (usize: 2^32, the smallest supported target)."""
        t = self.res(t)
        if t[0] == "usize":
            return str(2 ** 32)
        return self.pow2(t, what)

    def bits(self, t, what):
        t = self.res(t)
        if t[0] == "int":
            return t[1]
        if t[0] == "usize":
            return 32
        return None

    def tmp(self):
        self.ntmp += 1
        return f"_t{self.ntmp}"


class Ctx:
    def __init__(self, what, impl):
        self.what = what
        self.impl = impl
        self.self_mode = None       # None | ('nt', name, base) | ('struct', name)
        self.self_fields = {}       # field -> type (struct mode), in first-use order
        self.ret = None
        self.in_loop = 0


RESERVED_LOCAL = re.compile(r"^(_t\d+|self_.*)$")


def atom(s):
    return bool(re.match(r"^[A-Za-z0-9_.\x01\x02]+$", s)) or (s.startswith("(") and s.endswith(")"))


class ExprMixin:
    # ------------------------------------------------------------------ helpers
    def as_prop(self, v, ctx):
        if self.res(v.ty) != ("bool",):
            raise ShapeError(f"{ctx.what}: boolean expected, got {self.show(v.ty)}")
        if v.prop:
            return v.lean
        if v.lean == "true":
            return "True"
        if v.lean == "false":
            return "False"
        return f"({v.lean} = true)"

    def as_bool(self, v, ctx):
        if self.res(v.ty) != ("bool",):
            raise ShapeError(f"{ctx.what}: boolean expected, got {self.show(v.ty)}")
        if v.prop:
            return f"(decide {v.lean})"
        return v.lean

    def value(self, v, ctx):
        """Lean text of a value (bools as Bool)."""
        if self.res(v.ty) == ("bool",):
            return self.as_bool(v, ctx)
        return v.lean

    def const_eval(self, e, what, impl=None):
        ctx = Ctx(what, impl)
        v = self.tr(e, {}, ctx)
        if v.const is None:
            raise ShapeError(f"{what}: compile-time integer expected")
        return v.const

    def lookup_const(self, impl, name, ctx):
        key = (impl, name)
        if key not in self.items.consts:
            return None
        tytoks, etoks, where = self.items.consts[key]
        c2 = Ctx(where, impl)
        ty = self.conv_type(parse_type(tytoks, where, self.items), where)
        v = self.tr(parse_expr(etoks, where, self.items), {}, c2)
        self.unify(v.ty, ty, where) if self.res(ty)[0] != "nt" else None
        if v.ok is not None:
            raise ShapeError(f"{where}: constant expression can overflow")
        if self.res(ty)[0] == "nt" and self.res(v.ty) != self.res(ty):
            raise ShapeError(f"{where}: constant of type {self.show(ty)} expected")
        return V(v.lean, ty, None, v.const)

    def int_lit(self, val, ty):
        return V(str(val), ty, None, val)

    # ------------------------------------------------------------------ expressions
    def tr(self, e, env, ctx):
        k = e[0]
        m = getattr(self, "tr_" + k, None)
        if m is None:
            raise ShapeError(f"{ctx.what}: `{k}` expressions are outside the subset")
        return m(e, env, ctx)

    def tr_lit(self, e, env, ctx):
        _, val, suf = e
        if suf is None:
            return self.int_lit(val, self.fresh_tv())
        if suf in INT_W:
            if val >= 2 ** INT_W[suf]:
                raise ShapeError(f"{ctx.what}: literal {val}{suf} out of range")
            return self.int_lit(val, ("int", INT_W[suf]))
        if suf == "usize":
            return self.int_lit(val, ("usize",))
        raise ShapeError(f"{ctx.what}: signed / 128-bit integers are outside the subset ({val}{suf})")

    def tr_bool(self, e, env, ctx):
        return V("true" if e[1] else "false", ("bool",))

    def tr_str(self, e, env, ctx):
        return V('"' + e[1].replace("\\", "\\\\").replace('"', '\\"') + '"', ("str",))

    def tr_ref(self, e, env, ctx):
        return self.tr(e[1], env, ctx)

    def tr_deref(self, e, env, ctx):
        return self.tr(e[1], env, ctx)

    def tr_tuple(self, e, env, ctx):
        if not e[1]:
            return V("()", ("unit",))
        vs = [self.tr(x, env, ctx) for x in e[1]]
        return V("(" + ", ".join(self.value(v, ctx) for v in vs) + ")", ("tuple", [v.ty for v in vs]),
                 conj(*[v.ok for v in vs]))

    def self_field(self, name, ctx):
        if ctx.self_mode is None or ctx.self_mode[0] != "struct":
            raise ShapeError(f"{ctx.what}: `self.{name}` but self is not a struct")
        sname = ctx.self_mode[1]
        for fname, fty, isref in self.struct_fields(sname, ctx.what):
            if fname == name:
                ty = self.conv_type(fty, f"{ctx.what}: {sname}.{name}", sname)
                ctx.self_fields.setdefault(name, ty)
                self.lean_type(ty, ctx.what)
                return V("self_" + name, ty)
        raise ShapeError(f"{ctx.what}: struct {sname} has no field {name}")

    def tr_path(self, e, env, ctx):
        segs = e[1]
        if len(segs) == 1:
            n = segs[0]
            if n == "self":
                if ctx.self_mode and ctx.self_mode[0] == "nt":
                    return V("self_0", ctx.self_mode)
                raise ShapeError(f"{ctx.what}: bare `self` of a struct type is outside the subset")
            if n in env:
                b = env[n]
                if b[0] == "val":
                    return V(b[1], b[2])
                if b[0] == "structlocal":
                    return self.struct_value(b, ctx)
            if n == "None":
                return V("none", ("option", self.fresh_any()))
            c = self.lookup_const(None, n, ctx)
            if c is not None:
                return c
            raise ShapeError(f"{ctx.what}: unknown name `{n}`")
        if len(segs) >= 2:
            tyname, last = segs[-2], segs[-1]
            if tyname == "Self":
                tyname = ctx.impl
            if tyname in INT_W and last == "MAX":
                return self.int_lit(2 ** INT_W[tyname] - 1, ("int", INT_W[tyname]))
            if tyname in INT_W and last == "MIN":
                return self.int_lit(0, ("int", INT_W[tyname]))
            if tyname in INT_W and last == "BITS":
                return self.int_lit(INT_W[tyname], ("int", 32))
            if tyname in self.items.enums:
                for vname, payload in self.items.enums[tyname]:
                    if vname == last:
                        if payload:
                            raise ShapeError(f"{ctx.what}: {tyname}::{last} needs arguments")
                        self.need_enum(tyname, ctx.what)
                        return V(f"{tyname}.{last}", ("enum", tyname))
            c = self.lookup_const(tyname, last, ctx)
            if c is not None:
                return c
            # `module::CONST`: a constant at the top level of that module's file
            if len(segs) == 2 and (None, last) in self.items.consts and tyname not in self.items.structs:
                where = self.items.consts[(None, last)][2]
                if where.startswith(tyname + "/mod.rs:") or where.startswith(tyname + ".rs:") or \
                        ("/" + tyname + ".rs:") in where or ("/" + tyname + "/mod.rs:") in where:
                    c = self.lookup_const(None, last, ctx)
                    if c is not None:
                        return c
        raise ShapeError(f"{ctx.what}: unknown path `{'::'.join(segs)}`")

    def fresh_any(self):
        # element type of a bare `None`: resolved by unification with the other branch
        self.ntv += 1
        self.tv[self.ntv] = None
        return ("var", self.ntv)

    def struct_value(self, b, ctx):
        _, sname, fields = b
        self.need_struct(sname, ctx.what)
        parts = []
        for fname, fty, isref in self.struct_fields(sname, ctx.what):
            if isref:
                continue
            ln, ty = fields[fname]
            parts.append(f"{lname(fname)} := {ln}")
        return V("{ " + ", ".join(parts) + " : " + sname + " }", ("struct", sname))

    def tr_un(self, e, env, ctx):
        _, op, x = e
        v = self.tr(x, env, ctx)
        if op == "!":
            if self.res(v.ty) == ("bool",):
                return V(f"(¬ {self.as_prop(v, ctx)})", ("bool",), v.ok, None, True)
            if self.is_int(v.ty):
                if v.const is not None and self.res(v.ty)[0] == "int":
                    return self.int_lit(2 ** self.res(v.ty)[1] - 1 - v.const, v.ty)
                t = self.res(v.ty)
                mx = str(2 ** t[1] - 1) if t[0] == "int" else (PH("M", t[1]) if t[0] == "var" else None)
                if mx is None:
                    raise ShapeError(f"{ctx.what}: `!` on usize is outside the subset")
                return V(f"({mx} - {v.lean})", v.ty, v.ok)
        raise ShapeError(f"{ctx.what}: unary `{op}` on {self.show(v.ty)} is outside the subset")

    def newtype_op(self, trait_fn, a, b, ctx):
        t = self.res(a.ty)
        key = (t[1], trait_fn)
        if key not in self.items.fns:
            raise ShapeError(f"{ctx.what}: no `{trait_fn}` operator impl for {t[1]} in the scanned files")
        return self.call_fn(key, a, [b], ctx)

    def tr_bin(self, e, env, ctx):
        _, op, ea, eb = e
        if op in ("&&", "||"):
            a, b = self.tr(ea, env, ctx), self.tr(eb, env, ctx)
            pa, pb = self.as_prop(a, ctx), self.as_prop(b, ctx)
            if op == "&&":
                ok = conj(a.ok, f"({pa} → {b.ok})" if b.ok else None)
                return V(f"({pa} ∧ {pb})", ("bool",), ok, None, True)
            ok = conj(a.ok, f"({pa} ∨ {b.ok})" if b.ok else None)
            return V(f"({pa} ∨ {pb})", ("bool",), ok, None, True)
        a, b = self.tr(ea, env, ctx), self.tr(eb, env, ctx)
        ok = conj(a.ok, b.ok)
        ta, tb = self.res(a.ty), self.res(b.ty)
        if op in ("==", "!=", "<", ">", "<=", ">="):
            if ta[0] == "nt" or tb[0] == "nt":
                if ta != tb:
                    raise ShapeError(f"{ctx.what}: comparison of {self.show(ta)} with {self.show(tb)}")
            elif ta[0] in ("enum", "xenum") and tb == ta and op in ("==", "!="):
                pass
            elif ta[0] == "bytes" and tb[0] == "bytes" and op in ("==", "!="):
                pass
            elif ta[0] == "option" and tb[0] == "option" and op in ("==", "!=") and \
                    self.res(ta[1])[0] in ("int", "usize", "nt", "var") and self.res(tb[1])[0] in ("int", "usize", "nt", "var"):
                self.unify(ta, tb, ctx.what)
            elif ta == ("bool",) and tb == ("bool",) and op in ("==", "!="):
                a, b = V(self.as_bool(a, ctx), ta), V(self.as_bool(b, ctx), tb)
            elif self.is_int(ta) and self.is_int(tb):
                self.unify(ta, tb, ctx.what)
            else:
                raise ShapeError(f"{ctx.what}: comparison of {self.show(ta)} with {self.show(tb)} is outside the subset")
            sym = {"==": "=", "!=": "≠", "<": "<", ">": ">", "<=": "≤", ">=": "≥"}[op]
            return V(f"({a.lean} {sym} {b.lean})", ("bool",), ok, None, True)
        if ta[0] == "nt":
            fn = {"+": "add", "-": "sub", "*": "mul", "/": "div", "%": "rem"}.get(op)
            if fn is None:
                raise ShapeError(f"{ctx.what}: operator `{op}` on {self.show(ta)} is outside the subset")
            return self.newtype_op(fn, a, b, ctx)
        if not (self.is_int(ta) and self.is_int(tb)):
            if ta == ("bool",) and tb == ("bool",) and op in ("&", "|", "^"):
                pa, pb = self.as_bool(a, ctx), self.as_bool(b, ctx)
                f = {"&": "&&", "|": "||", "^": "!="}[op]
                return V(f"({pa} {f} {pb})", ("bool",), ok)
            raise ShapeError(f"{ctx.what}: `{op}` on {self.show(ta)} and {self.show(tb)} is outside the subset")
        if op in ("<<", ">>"):
            return self.shift(op, a, b, ok, ctx)
        ty = self.unify(ta, tb, ctx.what)
        return self.arith(op, a, b, ty, ok, ctx)

    def arith(self, op, a, b, ty, ok, ctx):
        ty = self.res(ty)
        width = self.bits(ty, ctx.what)
        if a.const is not None and b.const is not None:
            x, y = a.const, b.const
            if op in ("/", "%") and y == 0:
                raise ShapeError(f"{ctx.what}: constant division by zero")
            c = {"+": lambda: x + y, "-": lambda: x - y, "*": lambda: x * y, "/": lambda: x // y, "%": lambda: x % y,
                 "&": lambda: x & y, "|": lambda: x | y, "^": lambda: x ^ y}[op]()
            if c < 0 or (width is not None and c >= 2 ** width):
                raise ShapeError(f"{ctx.what}: constant arithmetic `{x} {op} {y}` overflows")
            if width is not None or op in ("&", "|", "^", "/", "%"):
                return V(str(c), ty, ok, c)
        if op == "+":
            return V(f"({a.lean} + {b.lean})", ty, conj(ok, f"({a.lean} + {b.lean} < {self.bound(ty, ctx.what)})"))
        if op == "*":
            return V(f"({a.lean} * {b.lean})", ty, conj(ok, f"({a.lean} * {b.lean} < {self.bound(ty, ctx.what)})"))
        if op == "-":
            return V(f"({a.lean} - {b.lean})", ty, conj(ok, f"({b.lean} ≤ {a.lean})"))
        if op in ("/", "%"):
            nz = None if (b.const is not None and b.const != 0) else f"({b.lean} ≠ 0)"
            return V(f"({a.lean} {op} {b.lean})", ty, conj(ok, nz))
        sym = {"&": "&&&", "|": "|||", "^": "^^^"}[op]
        return V(f"({a.lean} {sym} {b.lean})", ty, ok)

    def shift(self, op, a, b, ok, ctx):
        ty = self.res(a.ty)
        width = self.bits(ty, ctx.what) if ty[0] != "usize" else None
        if b.const is not None:
            if width is not None and b.const >= width:
                raise ShapeError(f"{ctx.what}: shift by {b.const} of a {width}-bit value always overflows")
            if width is None and b.const >= 8:
                ok = conj(ok, f"({b.lean} < {PH('B', ty[1])})") if ty[0] == "var" else conj(ok, f"({b.lean} < 32)")
        else:
            lim = str(width) if width is not None else (PH("B", ty[1]) if ty[0] == "var" else "32")
            ok = conj(ok, f"({b.lean} < {lim})")
        if op == ">>":
            if a.const is not None and b.const is not None:
                return V(str(a.const >> b.const), ty, ok, a.const >> b.const)
            return V(f"({a.lean} >>> {b.lean})", ty, ok)
        if a.const is not None and b.const is not None and width is not None:
            c = (a.const << b.const) % 2 ** width
            return V(str(c), ty, ok, c)
        return V(f"(({a.lean} <<< {b.lean}) % {self.pow2(ty, ctx.what)})", ty, ok)

    def tr_cast(self, e, env, ctx):
        v = self.tr(e[1], env, ctx)
        dst = self.conv_type(e[2], ctx.what, ctx.impl)
        src = self.res(v.ty)
        if src[0] == "nt" or dst[0] not in ("int", "usize"):
            raise ShapeError(f"{ctx.what}: cast {self.show(src)} as {self.show(dst)} is outside the subset")
        if src == ("bool",):
            return V(f"(if {self.as_prop(v, ctx)} then 1 else 0)", dst, v.ok)
        if not self.is_int(src):
            raise ShapeError(f"{ctx.what}: cast of {self.show(src)} is outside the subset")
        if dst[0] == "usize":
            if src == ("int", 64):
                raise ShapeError(f"{ctx.what}: `u64 as usize` depends on the target width (outside the subset)")
            if src[0] == "var":
                self.unify(src, dst, ctx.what)
            return V(v.lean, dst, v.ok, v.const)
        dw = dst[1]
        if v.const is not None:
            c = v.const % 2 ** dw
            if src[0] == "var":
                # an untyped literal takes the target type
                self.unify(src, dst, ctx.what)
            return V(str(c), dst, v.ok, c)
        sw = 64 if src[0] == "usize" else (src[1] if src[0] == "int" else None)
        if sw is not None and sw <= dw:
            return V(v.lean, dst, v.ok)
        return V(f"({v.lean} % {2 ** dw})", dst, v.ok)

    def tr_field(self, e, env, ctx):
        _, base, name = e
        if base == ("path", ["self"]) and not ("self" in env and env["self"][0] == "structlocal"):
            if ctx.self_mode and ctx.self_mode[0] == "nt":
                if name != "0":
                    raise ShapeError(f"{ctx.what}: self.{name} on a tuple struct")
                return V("self_0", ctx.self_mode[2])
            return self.self_field(name, ctx)
        if base[0] == "path" and len(base[1]) == 1 and base[1][0] in env and env[base[1][0]][0] == "structlocal":
            fields = env[base[1][0]][2]
            if name not in fields:
                raise ShapeError(f"{ctx.what}: no field {name} on local {base[1][0]}")
            return V(fields[name][0], fields[name][1])
        v = self.tr(base, env, ctx)
        t = self.res(v.ty)
        if t[0] == "nt" and name == "0":
            return V(v.lean, t[2], v.ok, v.const)
        if t[0] == "struct":
            for fname, fty, isref in self.struct_fields(t[1], ctx.what):
                if fname == name and not isref:
                    return V(f"{v.lean}.{lname(name)}" if atom(v.lean) else f"({v.lean}).{lname(name)}",
                             self.conv_type(fty, ctx.what, t[1]), v.ok)
        if t[0] == "tuple" and name.isdigit() and int(name) < len(t[1]):
            idx = int(name)
            proj = ".2" * idx + (".1" if idx < len(t[1]) - 1 else "")
            return V(f"{v.lean}{proj}", t[1][idx], v.ok)
        raise ShapeError(f"{ctx.what}: field `.{name}` of {self.show(t)} is outside the subset")

    def slice_parts(self, idx, env, ctx, blen):
        """range expression -> (lo V, hi V or None (= to the end), const length or None)"""
        _, lo, hi, inc = idx
        lov = self.tr(lo, env, ctx) if lo is not None else self.int_lit(0, ("usize",))
        self.unify(lov.ty, ("usize",), ctx.what)
        if hi is None:
            ln = None
            if blen is not None and lov.const is not None:
                ln = blen - lov.const
            return lov, None, ln
        hiv = self.tr(hi, env, ctx)
        self.unify(hiv.ty, ("usize",), ctx.what)
        ln = None
        if lov.const is not None and hiv.const is not None:
            ln = hiv.const - lov.const
        elif hi[0] == "bin" and hi[1] == "+" and hi[2] == (lo if lo is not None else ("lit", 0, None)) and hi[3][0] == "lit":
            ln = hi[3][1]
        elif hi[0] == "bin" and hi[1] == "+" and hi[2] == (lo if lo is not None else ("lit", 0, None)):
            # `a..a + K` with a named constant `K`
            try:
                kv = self.tr(hi[3], env, ctx)
            except ShapeError:
                kv = None
            if kv is not None and kv.const is not None:
                ln = kv.const
        if ln is not None and inc:
            ln += 1
        if inc:
            if hiv.const is not None:
                hiv = self.int_lit(hiv.const + 1, hiv.ty)
            else:
                hiv = V(f"({hiv.lean} + 1)", hiv.ty, hiv.ok)
        if ln is not None and ln < 0:
            raise ShapeError(f"{ctx.what}: slice with negative length")
        return lov, hiv, ln

    def tr_index(self, e, env, ctx):
        _, base, idx = e
        b = self.tr(base, env, ctx)
        t = self.res(b.ty)
        if t[0] != "bytes":
            raise ShapeError(f"{ctx.what}: indexing of {self.show(t)} is outside the subset")
        if idx[0] == "range":
            lov, hiv, ln = self.slice_parts(idx, env, ctx, t[1])
            ok = conj(b.ok, lov.ok, hiv.ok if hiv else None)
            if hiv is None:
                if lov.const == 0:
                    return V(b.lean, ("bytes", t[1]), ok)
                if not (t[1] is not None and lov.const is not None and lov.const <= t[1]):
                    ok = conj(ok, f"({lov.lean} ≤ {b.lean}.length)")
                return V(f"(List.drop {lov.lean} {b.lean})", ("bytes", ln), ok)
            if not (t[1] is not None and hiv.const is not None and hiv.const <= t[1]):
                ok = conj(ok, f"({hiv.lean} ≤ {b.lean}.length)")
            if not (lov.const is not None and hiv.const is not None):
                ok = conj(ok, f"({lov.lean} ≤ {hiv.lean})")
            if lov.const == 0:
                return V(f"(List.take {hiv.lean} {b.lean})", ("bytes", ln), ok)
            return V(f"(List.drop {lov.lean} (List.take {hiv.lean} {b.lean}))", ("bytes", ln), ok)
        i = self.tr(idx, env, ctx)
        self.unify(i.ty, ("usize",), ctx.what)
        ok = conj(b.ok, i.ok)
        if not (t[1] is not None and i.const is not None and i.const < t[1]):
            ok = conj(ok, f"({i.lean} < {b.lean}.length)")
        return V(f"(rdByte {b.lean} {i.lean})", ("int", 8), ok)

    def tr_array(self, e, env, ctx):
        vs = [self.tr(x, env, ctx) for x in e[1]]
        t0 = self.res(vs[0].ty) if vs else ("int", 8)
        if t0[0] == "int" and t0[1] != 8:
            for v in vs:
                self.unify(v.ty, t0, f"{ctx.what}: array literal")
            return V("[" + ", ".join(v.lean for v in vs) + "]", ("arr", t0, len(vs)), conj(*[v.ok for v in vs]))
        for v in vs:
            self.unify(v.ty, ("int", 8), f"{ctx.what}: array literal (only byte arrays are in the subset)")
        return V("[" + ", ".join(f"UInt8.ofNat {v.lean}" if atom(v.lean) else f"UInt8.ofNat {v.lean}" for v in vs) + "]",
                 ("bytes", len(vs)), conj(*[v.ok for v in vs]))

    def tr_bytestr(self, e, env, ctx):
        return V("[" + ", ".join(f"UInt8.ofNat {b}" for b in e[1]) + "]", ("bytes", len(e[1])))

    def tr_repeat(self, e, env, ctx):
        v = self.tr(e[1], env, ctx)
        self.unify(v.ty, ("int", 8), f"{ctx.what}: array literal (only byte arrays are in the subset)")
        n = self.const_eval(e[2], ctx.what)
        return V(f"(List.replicate {n} (UInt8.ofNat {v.lean}))", ("bytes", n), v.ok)

    def tr_struct(self, e, env, ctx):
        _, sname, fields = e
        if sname == "Self":
            sname = ctx.impl
        if sname not in self.items.structs or self.items.structs[sname][0] != "named":
            raise ShapeError(f"{ctx.what}: struct literal of unknown struct {sname}")
        self.need_struct(sname, ctx.what)
        given = dict(fields)
        parts, oks = [], []
        for fname, fty, isref in self.struct_fields(sname, ctx.what):
            if fname not in given:
                raise ShapeError(f"{ctx.what}: struct literal {sname} lacks field {fname}")
            if isref:
                continue
            v = self.tr(given[fname], env, ctx)
            ty = self.conv_type(fty, ctx.what, sname)
            self.unify_val(v, ty, ctx)
            parts.append(f"{lname(fname)} := {self.value(v, ctx)}")
            oks.append(v.ok)
        return V("{ " + ", ".join(parts) + " : " + sname + " }", ("struct", sname), conj(*oks))

    def unify_val(self, v, ty, ctx):
        self.unify(v.ty, ty, ctx.what)


class CallMixin:
    # ------------------------------------------------------------------ calls
    def arg(self, v, ctx):
        s = self.value(v, ctx)
        return s if atom(s) else f"({s})"

    def call_fn(self, key, recv, args, ctx, env=None, recv_expr=None):
        """call of a crate function that is itself translated.  recv: V (newtype receiver), or None;
        recv_expr: the receiver expression when it is `self` / a local struct."""
        info = self.translate_fn(key, ctx)
        actual, oks = [], []
        nparams = list(info.params)
        if info.self_nt:
            if recv is None:
                raise ShapeError(f"{ctx.what}: call of {info.name} without a receiver")
            self.unify_val(recv, nparams[0][1], ctx)
            actual.append(self.arg(recv, ctx))
            oks.append(recv.ok)
            nparams = nparams[1:]
        elif info.self_fields is not None:
            for f in info.self_fields:
                if recv_expr == ("path", ["self"]):
                    fv = self.self_field(f, ctx)
                elif recv_expr is not None and recv_expr[0] == "path" and env is not None and \
                        recv_expr[1][0] in env and env[recv_expr[1][0]][0] == "structlocal":
                    fl = env[recv_expr[1][0]][2]
                    fv = V(fl[f][0], fl[f][1])
                elif recv is not None and self.res(recv.ty)[0] == "struct":
                    fv = V(f"{self.arg(recv, ctx)}.{lname(f)}", None)
                    oks.append(recv.ok)
                else:
                    raise ShapeError(f"{ctx.what}: receiver of {info.name} is outside the subset")
                actual.append(self.arg(fv, ctx) if fv.ty is not None else fv.lean)
            nparams = nparams[len(info.self_fields):]
        if len(args) != len(nparams):
            raise ShapeError(f"{ctx.what}: {info.name} expects {len(nparams)} arguments")
        for v, (pn, pt) in zip(args, nparams):
            self.unify_val(v, pt, ctx)
            actual.append(self.arg(v, ctx))
            oks.append(v.ok)
        app = info.name + "".join(" " + a for a in actual)
        ok = conj(*oks, f"({info.name}_ok" + "".join(" " + a for a in actual) + ")" if info.okbody else None)
        return V(f"({app})" if actual else info.name, info.ret, ok)

    def read_le(self, n, args, env, ctx):
        if len(args) != 1:
            raise ShapeError(f"{ctx.what}: read_u{8 * n} takes one slice")
        a = args[0]
        while a[0] == "ref":
            a = a[1]
        if not (a[0] == "index" and a[2][0] == "range"):
            raise ShapeError(f"{ctx.what}: read_u{8 * n} of something that is not `&bytes[lo..hi]`")
        b = self.tr(a[1], env, ctx)
        t = self.res(b.ty)
        if t[0] != "bytes":
            raise ShapeError(f"{ctx.what}: read_u{8 * n} of {self.show(t)}")
        lov, hiv, ln = self.slice_parts(a[2], env, ctx, t[1])
        if ln != n:
            raise ShapeError(f"{ctx.what}: read_u{8 * n} needs a slice of exactly {n} bytes whose length is evident "
                             f"(`lo..lo+{n}`); found length {ln}")
        ok = conj(b.ok, lov.ok)
        if not (t[1] is not None and lov.const is not None and lov.const + n <= t[1]):
            ok = conj(ok, f"({lov.lean} + {n} ≤ {b.lean}.length)")
        terms = []
        for k in range(n):
            if lov.const is not None:
                ix = str(lov.const + k)
            else:
                ix = lov.lean if k == 0 else f"({lov.lean} + {k})"
            terms.append(f"rdByte {b.lean} {ix}" if k == 0 else f"{256 ** k} * rdByte {b.lean} {ix}")
        return V("(" + " + ".join(terms) + ")", ("int", 8 * n), ok)

    def tr_call(self, e, env, ctx):
        _, f, args = e
        if f[0] != "path":
            raise ShapeError(f"{ctx.what}: call of a computed function is outside the subset")
        segs = f[1]
        name = segs[-1]
        tyname = segs[-2] if len(segs) >= 2 else None
        if tyname == "Self":
            tyname = ctx.impl
        if tyname in ("u8", "u16", "u32", "u64", "usize") and name == "from" and len(args) == 1:
            v = self.tr(args[0], env, ctx)
            dst = ("usize",) if tyname == "usize" else ("int", INT_W[tyname])
            src = self.res(v.ty)
            if src == ("bool",):
                return V(f"(if {self.as_prop(v, ctx)} then 1 else 0)", dst, v.ok)
            if src[0] == "var":
                raise ShapeError(f"{ctx.what}: {tyname}::from of an untyped literal")
            if src[0] != "int" or (dst[0] == "int" and src[1] > dst[1]) or (dst[0] == "usize" and src[1] > 16):
                raise ShapeError(f"{ctx.what}: {tyname}::from({self.show(src)}) is not a widening conversion")
            return V(v.lean, dst, v.ok, v.const)
        if tyname == "LittleEndian" and name in ("read_u16", "read_u32"):
            return self.read_le(2 if name == "read_u16" else 4, args, env, ctx)
        if tyname is None and name in ("Some", "Ok", "Err") and len(args) == 1:
            if name == "Err":
                return self.err_value(args[0], env, ctx)
            v = self.tr(args[0], env, ctx)
            if name == "Some":
                return V(f"(some {self.arg(v, ctx)})", ("option", v.ty), v.ok)
            return V(f"(Except.ok {self.arg(v, ctx)})", ("result", v.ty), v.ok)
        if tyname is None and name in self.items.structs and self.items.structs[name][0] == "tuple" and len(args) == 1:
            nt = self.conv_type(("ty", name, []), ctx.what)
            if nt[0] != "nt":
                raise ShapeError(f"{ctx.what}: constructor {name}(..) is outside the subset")
            v = self.tr(args[0], env, ctx)
            vt = self.res(v.ty)
            if not (vt[0] == "nt" and vt[2] == nt[2]):
                self.unify_val(v, nt[2], ctx)
            return V(v.lean, nt, v.ok, v.const)
        if tyname in self.items.enums:
            for vname, payload in self.items.enums[tyname]:
                if vname == name and payload is not None and len(payload) == len(args):
                    self.need_enum(tyname, ctx.what)
                    vs = [self.tr(a, env, ctx) for a in args]
                    for v, p in zip(vs, payload):
                        self.unify_val(v, self.conv_type(parse_type(p, ctx.what, self.items), ctx.what), ctx)
                    return V(f"({tyname}.{name} " + " ".join(self.arg(v, ctx) for v in vs) + ")", ("enum", tyname),
                             conj(*[v.ok for v in vs]))
        key = (tyname, name)
        if key in self.items.fns:
            vs = [self.tr(a, env, ctx) for a in args]
            return self.call_fn(key, None, vs, ctx)
        raise ShapeError(f"{ctx.what}: call of `{'::'.join(segs)}` is outside the subset")

    def err_value(self, a, env, ctx):
        """`Err(e)`: the error is rendered as a string: a string literal as itself, a unit-like
        enum variant `Error::X` as "X", `Error::X("text")` as "X: text"."""
        if a[0] == "str":
            s = a[1]
        elif a[0] == "path" and len(a[1]) >= 2:
            s = a[1][-1]
        elif a[0] == "call" and a[1][0] == "path" and len(a[2]) == 1 and a[2][0][0] == "str":
            s = a[1][1][-1] + ": " + a[2][0][1]
        else:
            raise ShapeError(f"{ctx.what}: this `Err(..)` payload is outside the subset")
        s = s.replace("\\", "\\\\").replace('"', '\\"')
        return V(f'(Except.error "{s}")', ("result", self.fresh_any()))

    INT_METHODS = ("rotate_right", "rotate_left", "wrapping_add", "wrapping_sub", "wrapping_mul", "checked_add",
                   "checked_sub", "checked_mul", "checked_div", "saturating_add", "saturating_sub", "saturating_mul",
                   "to_le_bytes", "min", "max")

    def int_method(self, v, name, args, env, ctx):
        ty = self.res(v.ty)
        if ty[0] == "var":
            raise ShapeError(f"{ctx.what}: method `{name}` on an untyped literal")
        if name == "to_le_bytes":
            if ty[0] != "int":
                raise ShapeError(f"{ctx.what}: to_le_bytes on usize")
            n = ty[1] // 8
            x = v.lean
            parts = [f"UInt8.ofNat ({x} % 256)"] + [f"UInt8.ofNat ({x} / {256 ** k} % 256)" for k in range(1, n)]
            return V("[" + ", ".join(parts) + "]", ("bytes", n), v.ok)
        if len(args) != 1:
            raise ShapeError(f"{ctx.what}: {name} takes one argument")
        b = self.tr(args[0], env, ctx)
        ok = conj(v.ok, b.ok)
        if name in ("rotate_right", "rotate_left"):
            if ty[0] != "int" or b.const is None or not (0 < b.const < ty[1]):
                raise ShapeError(f"{ctx.what}: {name} needs a fixed-width receiver and a literal amount in 1..width-1")
            w, k = ty[1], b.const
            if name == "rotate_right":
                return V(f"((({v.lean} >>> {k}) ||| ({v.lean} <<< {w - k})) % {2 ** w})", ty, ok)
            return V(f"((({v.lean} <<< {k}) ||| ({v.lean} >>> {w - k})) % {2 ** w})", ty, ok)
        self.unify(ty, b.ty, ctx.what)
        x, y = v.lean, b.lean
        if name in ("min", "max"):
            return V(f"({name} {self.arg(v, ctx)} {self.arg(b, ctx)})", ty, ok)
        p = self.pow2(ty, ctx.what)
        if name == "wrapping_add":
            return V(f"(({x} + {y}) % {p})", ty, ok)
        if name == "wrapping_mul":
            return V(f"(({x} * {y}) % {p})", ty, ok)
        if name == "wrapping_sub":
            return V(f"(({x} + {p} - {y}) % {p})", ty, ok)
        if name == "checked_add":
            return V(f"(if {x} + {y} < {p} then some ({x} + {y}) else none)", ("option", ty), ok)
        if name == "checked_mul":
            return V(f"(if {x} * {y} < {p} then some ({x} * {y}) else none)", ("option", ty), ok)
        if name == "checked_sub":
            return V(f"(if {y} ≤ {x} then some ({x} - {y}) else none)", ("option", ty), ok)
        if name == "checked_div":
            return V(f"(if {y} = 0 then none else some ({x} / {y}))", ("option", ty), ok)
        mx = str(int(p) - 1)
        if name == "saturating_add":
            return V(f"(min ({x} + {y}) {mx})", ty, ok)
        if name == "saturating_mul":
            return V(f"(min ({x} * {y}) {mx})", ty, ok)
        if name == "saturating_sub":
            return V(f"({x} - {y})", ty, ok)
        raise ShapeError(f"{ctx.what}: integer method `{name}` is outside the subset")

    def closure1(self, c, argty, env, ctx):
        """one-parameter closure or constructor path -> (param lean name, body V)"""
        if c[0] == "closure" and len(c[1]) == 1:
            pn = c[1][0]
            self.check_local(pn, ctx)
            env2 = dict(env)
            env2[pn] = ("val", lname(pn), argty)
            return lname(pn), self.tr(c[2], env2, ctx)
        if c[0] == "path":
            pn = self.tmp()
            env2 = dict(env)
            env2[pn] = ("val", pn, argty)
            return pn, self.tr(("call", c, [("path", [pn])]), env2, ctx)
        raise ShapeError(f"{ctx.what}: this closure is outside the subset")

    def check_local(self, n, ctx):
        if RESERVED_LOCAL.match(n):
            raise ShapeError(f"{ctx.what}: local name `{n}` collides with generated names")

    def tr_mcall(self, e, env, ctx):
        _, recv, name, args = e
        # `(lo..hi).contains(&x)` / `(lo..=hi).contains(&x)`
        r0 = recv
        while r0[0] == "paren":
            r0 = r0[1]
        if name == "contains" and len(args) == 1 and r0[0] == "range" and r0[1] is not None and r0[2] is not None:
            a = args[0]
            while a[0] == "ref":
                a = a[1]
            lo, hi, x = self.tr(r0[1], env, ctx), self.tr(r0[2], env, ctx), self.tr(a, env, ctx)
            self.unify(lo.ty, x.ty, ctx.what)
            self.unify(hi.ty, x.ty, ctx.what)
            cmp_hi = "≤" if r0[3] else "<"
            return V(f"({lo.lean} ≤ {self.arg(x, ctx)} ∧ {self.arg(x, ctx)} {cmp_hi} {hi.lean})", ("bool",),
                     conj(lo.ok, hi.ok, x.ok), None, True)
        # calls on self / local structs to crate methods
        if recv == ("path", ["self"]) and ctx.self_mode and ctx.self_mode[0] == "struct":
            key = (ctx.self_mode[1], name)
            if key not in self.items.fns:
                raise ShapeError(f"{ctx.what}: method {key[0]}::{name} not found")
            vs = [self.tr(a, env, ctx) for a in args]
            return self.call_fn(key, None, vs, ctx, env, recv)
        if recv[0] == "path" and len(recv[1]) == 1 and recv[1][0] in env and env[recv[1][0]][0] == "structlocal":
            key = (env[recv[1][0]][1], name)
            if key not in self.items.fns:
                raise ShapeError(f"{ctx.what}: method {key[0]}::{name} not found")
            vs = [self.tr(a, env, ctx) for a in args]
            return self.call_fn(key, None, vs, ctx, env, recv)
        v = self.tr(recv, env, ctx)
        t = self.res(v.ty)
        if t[0] in ("int", "usize", "var") and name in self.INT_METHODS:
            return self.int_method(v, name, args, env, ctx)
        if t[0] == "nt" or t[0] == "struct":
            key = (t[1], name)
            if key in self.items.fns:
                vs = [self.tr(a, env, ctx) for a in args]
                return self.call_fn(key, v, vs, ctx)
            raise ShapeError(f"{ctx.what}: method {t[1]}::{name} not found in the scanned files")
        if t[0] == "bytes":
            if name in ("iter", "cloned", "copied", "into_iter") and not args:
                return v
            if name == "len" and not args:
                if t[1] is not None:
                    return self.int_lit(t[1], ("usize",))
                return V(f"{v.lean}.length" if atom(v.lean) else f"({v.lean}).length", ("usize",), v.ok)
        if t[0] == "option":
            if name == "and_then" and len(args) == 1:
                pn, body = self.closure1(args[0], t[1], env, ctx)
                bt = self.res(body.ty)
                if bt[0] != "option":
                    raise ShapeError(f"{ctx.what}: and_then closure must return an Option")
                ok = conj(v.ok, f"(∀ {pn}, {v.lean} = some {pn} → {body.ok})" if body.ok else None)
                return V(f"(Option.bind {v.lean} (fun {pn} => {body.lean}))", bt, ok)
            if name == "map" and len(args) == 1:
                pn, body = self.closure1(args[0], t[1], env, ctx)
                ok = conj(v.ok, f"(∀ {pn}, {v.lean} = some {pn} → {body.ok})" if body.ok else None)
                return V(f"(Option.map (fun {pn} => {self.value(body, ctx)}) {v.lean})", ("option", body.ty), ok)
            if name == "ok_or" and len(args) == 1:
                err = self.err_value(args[0], env, ctx)
                tn = self.tmp()
                return V(f"(match {v.lean} with | some {tn} => Except.ok {tn} | none => {err.lean[1:-1]})",
                         ("result", t[1]), v.ok)
            if name == "unwrap" and not args:
                tn = self.tmp()
                return V(f"(match {v.lean} with | some {tn} => {tn} | none => 0)", t[1],
                         conj(v.ok, f"({v.lean} ≠ none)")) if self.is_int(t[1]) or self.res(t[1])[0] == "nt" else \
                    self._bad(ctx, "unwrap of a non-integer Option")
            if name in ("is_some", "is_none") and not args:
                return V(f"({v.lean} {'≠' if name == 'is_some' else '='} none)", ("bool",), v.ok, None, True)
        raise ShapeError(f"{ctx.what}: method `.{name}` on {self.show(t)} is outside the subset")

    def _bad(self, ctx, msg):
        raise ShapeError(f"{ctx.what}: {msg} is outside the subset")


LOG_MACROS = ("trace", "debug", "warn", "info")


def has_return(node):
    if isinstance(node, tuple):
        if node and node[0] == "return":
            return True
        if node and node[0] == "closure":
            return False
        return any(has_return(x) for x in node)
    if isinstance(node, list):
        return any(has_return(x) for x in node)
    return False


def has_node(node, kinds):
    if isinstance(node, tuple):
        if node and node[0] in kinds:
            return True
        return any(has_node(x, kinds) for x in node)
    if isinstance(node, list):
        return any(has_node(x, kinds) for x in node)
    return False


def assigned_names(node, out):
    """root variable names on the left of assignments (and receivers of copy_from_slice) inside node"""
    if isinstance(node, tuple):
        if node and node[0] == "assign":
            lhs = node[2]
            while lhs[0] in ("index", "field", "deref"):
                lhs = lhs[1]
            if lhs[0] == "path" and len(lhs[1]) == 1:
                out.add(lhs[1][0])
        if node and node[0] == "ref" and len(node) == 3 and node[1][0] == "path" and len(node[1][1]) == 1:
            out.add(node[1][1][0])      # `&mut x`
        if node and node[0] == "mcall" and node[2] == "copy_from_slice":
            lhs = node[1]
            while lhs[0] in ("index", "field", "deref"):
                lhs = lhs[1]
            if lhs[0] == "path" and len(lhs[1]) == 1:
                out.add(lhs[1][0])
        for x in node:
            assigned_names(x, out)
    elif isinstance(node, list):
        for x in node:
            assigned_names(x, out)


def declared_names(node, out):
    if isinstance(node, tuple):
        if node and node[0] in ("let", "for"):
            pat_names(node[1], out)
        for x in node:
            declared_names(x, out)
    elif isinstance(node, list):
        for x in node:
            declared_names(x, out)


def pat_names(p, out):
    if p[0] == "pbind":
        out.add(p[1])
    elif p[0] == "pref":
        pat_names(p[1], out)
    elif p[0] == "ptuple":
        for q in p[2]:
            pat_names(q, out)
    elif p[0] == "por":
        for q in p[1]:
            pat_names(q, out)


def chain(binds, body):
    return "".join(f"let {n} := {v}; " for n, v in binds) + body


class FlowMixin:
    # ------------------------------------------------------------------ if / match / blocks
    def tr_if(self, e, env, ctx, leaf=None):
        leaf = leaf or self.tr
        _, cond, thn, els = e
        c = self.tr(cond, env, ctx)
        p = self.as_prop(c, ctx)
        a = leaf(thn, env, ctx)
        if els is None:
            raise ShapeError(f"{ctx.what}: `if` without `else` used as a value")
        b = leaf(els, env, ctx)
        ty = self.unify(a.ty, b.ty, ctx.what)
        ok = conj(c.ok, f"(if {p} then {a.ok or 'True'} else {b.ok or 'True'})" if (a.ok or b.ok) else None)
        return V(f"(if {p} then {self.value(a, ctx)} else {self.value(b, ctx)})", ty, ok)

    def tr_block(self, e, env, ctx, leaf=None):
        leaf = leaf or self.tr
        _, stmts, tail = e
        if tail is None and not stmts:
            return V("()", ("unit",))

        def k(env2):
            if tail is None:
                return V("()", ("unit",))
            return leaf(tail, env2, ctx)
        v = self.run(stmts, dict(env), ctx, k)
        return V(v.lean if atom(v.lean) else f"({v.lean})", v.ty, v.ok, v.const, v.prop)

    def const_values(self, p, elem_ty, ctx):
        """binder-free pattern -> list of Lean value texts, or None"""
        if p[0] == "plit":
            return [str(p[1])]
        if p[0] == "ppath":
            v = self.tr_path(("path", p[1]), {}, ctx)
            self.unify(v.ty, elem_ty, ctx.what)
            return [v.lean]
        if p[0] == "por":
            out = []
            for q in p[1]:
                r = self.const_values(q, elem_ty, ctx)
                if r is None:
                    return None
                out += r
            return out
        return None

    def pat_cond(self, pat, sv, ctx):
        ty = self.res(sv.ty)
        k = pat[0]
        s = sv.lean
        if k == "pwild":
            return None, []
        if k == "pbind":
            return None, [(pat[1], sv)]
        if k == "pref":
            return self.pat_cond(pat[1], sv, ctx)
        if k == "plit":
            if not self.is_int(ty):
                raise ShapeError(f"{ctx.what}: integer pattern against {self.show(ty)}")
            return f"{s} = {pat[1]}", []
        if k == "prange":
            if not self.is_int(ty):
                raise ShapeError(f"{ctx.what}: range pattern against {self.show(ty)}")
            return f"({pat[1]} ≤ {s} ∧ {s} ≤ {pat[2]})", []
        if k == "ppath":
            if pat[1] == ["None"] and ty[0] == "option":
                return f"{s} = none", []
            v = self.tr_path(("path", pat[1]), {}, ctx)
            self.unify(v.ty, ty, ctx.what)
            return f"{s} = {v.lean}", []
        if k == "por":
            cs = []
            for q in pat[1]:
                c, b = self.pat_cond(q, sv, ctx)
                if b or c is None:
                    raise ShapeError(f"{ctx.what}: `|` pattern with bindings or wildcards is outside the subset")
                cs.append(c)
            return "(" + " ∨ ".join(cs) + ")", []
        if k == "ptuple":
            segs, pats = pat[1], pat[2]
            if segs == ["Some"] and ty[0] == "option" and len(pats) == 1:
                vals = self.const_values(pats[0], ty[1], ctx)
                if vals is None:
                    raise ShapeError(f"{ctx.what}: `Some(..)` pattern with a binding is outside the subset here")
                cs = [f"{s} = some {x}" for x in vals]
                return (cs[0] if len(cs) == 1 else "(" + " ∨ ".join(cs) + ")"), []
            if ty[0] == "nt" and segs == [ty[1]] and len(pats) == 1:
                return self.pat_cond(pats[0], V(s, ty[2]), ctx)
        raise ShapeError(f"{ctx.what}: pattern outside the subset")

    def tr_match(self, e, env, ctx, leaf=None):
        leaf = leaf or self.tr
        _, scrut, arms = e
        sv = self.tr(scrut, env, ctx)
        ty = self.res(sv.ty)
        if ty[0] == "enum" and any(p for _, p in self.items.enums[ty[1]]):
            return self.match_payload(sv, ty, arms, env, ctx, leaf)
        pre = []
        if not re.match(r"^[A-Za-z0-9_.]+$", sv.lean):
            tn = self.tmp()
            pre = [(tn, sv.lean)]
            sv = V(tn, sv.ty, sv.ok)
        pieces, oks, rty = [], [], None
        any_ok = False
        for idx, (pat, guard, body) in enumerate(arms):
            cond, binds = self.pat_cond(pat, sv, ctx)
            env2 = dict(env)
            bl = []
            for n, bv in binds:
                self.check_local(n, ctx)
                env2[n] = ("val", lname(n), bv.ty)
                bl.append((lname(n), bv.lean))
            gok = None
            if guard is not None:
                if binds:
                    raise ShapeError(f"{ctx.what}: match guard on an arm with bindings is outside the subset")
                g = self.tr(guard, env2, ctx)
                gp = self.as_prop(g, ctx)
                gok = g.ok
                cond = gp if cond is None else f"({cond} ∧ {gp})"
            bvv = leaf(body, env2, ctx)
            rty = bvv.ty if rty is None else self.unify(rty, bvv.ty, ctx.what)
            text = self.value(bvv, ctx)
            if bl:
                text = "(" + chain(bl, text) + ")"
                bok = "(" + chain(bl, bvv.ok) + ")" if bvv.ok else None
            else:
                bok = bvv.ok
            any_ok = any_ok or bok is not None or gok is not None
            last = idx == len(arms) - 1
            if last and guard is not None:
                raise ShapeError(f"{ctx.what}: the last match arm has a guard")
            pieces.append((None if last else cond, text, bok, gok))
            if cond is None and not last:
                raise ShapeError(f"{ctx.what}: unreachable match arms after an irrefutable pattern")
        out, okc = "", ""
        for cond, text, bok, gok in pieces:
            if cond is None:
                out += text
                okc += (bok or "True")
            else:
                out += f"if {cond} then {text} else "
                okc += f"if {cond} then {bok or 'True'} else "
        lean = "(" + chain(pre, out) + ")"
        ok = conj(sv.ok, "(" + chain(pre, okc) + ")" if any_ok else None)
        return V(lean, rty, ok)

    def match_payload(self, sv, ty, arms, env, ctx, leaf):
        ename = ty[1]
        variants = dict(self.items.enums[ename])
        seen, pieces, okp, rty, any_ok = [], [], [], None, False
        for pat, guard, body in arms:
            if guard is not None:
                raise ShapeError(f"{ctx.what}: guards on a payload-enum match are outside the subset")
            env2 = dict(env)
            if pat[0] == "pwild":
                head = "_"
            elif pat[0] in ("ptuple", "ppath") and len(pat[1]) >= 1 and pat[1][-1] in variants and \
                    (len(pat[1]) == 1 or pat[1][-2] == ename):
                vname = pat[1][-1]
                payload = variants[vname]
                subs = pat[2] if pat[0] == "ptuple" else []
                if sum(1 for q in subs if q[0] == "prest") == 1:
                    k = [q[0] for q in subs].index("prest")
                    subs = subs[:k] + [("pwild",)] * (len(payload) - (len(subs) - 1)) + subs[k + 1:]
                if len(subs) != len(payload):
                    raise ShapeError(f"{ctx.what}: pattern {ename}::{vname} has the wrong number of fields")
                names = []
                for sp, pty in zip(subs, payload):
                    while sp[0] == "pref":
                        sp = sp[1]
                    if sp[0] == "pwild":
                        names.append("_")
                    elif sp[0] in ("pbind", "pbindref"):
                        self.check_local(sp[1], ctx)
                        names.append(lname(sp[1]))
                        env2[sp[1]] = ("val", lname(sp[1]), self.conv_type(parse_type(pty, ctx.what, self.items), ctx.what))
                    else:
                        raise ShapeError(f"{ctx.what}: nested pattern in {ename}::{vname} is outside the subset")
                head = f"{ename}.{vname}" + "".join(" " + n for n in names)
                seen.append(vname)
            else:
                raise ShapeError(f"{ctx.what}: pattern outside the subset in a match on {ename}")
            bvv = leaf(body, env2, ctx)
            rty = bvv.ty if rty is None else self.unify(rty, bvv.ty, ctx.what)
            pieces.append(f"| {head} => {self.value(bvv, ctx)}")
            okp.append(f"| {head} => {bvv.ok or 'True'}")
            any_ok = any_ok or bvv.ok is not None
        s = sv.lean
        lean = f"(match {s} with " + " ".join(pieces) + ")"
        ok = conj(sv.ok, f"(match {s} with " + " ".join(okp) + ")" if any_ok else None)
        return V(lean, rty, ok)

    def tr_return(self, e, env, ctx):
        raise ShapeError(f"{ctx.what}: `return` in this position is outside the subset")

    def matches_ast(self, e, ctx):
        """`matches!(x, P)` / `matches!(x, P if g)` -> `match x { P [if g] => true, _ => false }`"""
        parts = split_commas(e[2], ctx.what)
        parts = [p for p in parts if p]
        if len(parts) != 2:
            raise ShapeError(f"{ctx.what}: `matches!` takes an expression and a pattern")
        scrut = parse_expr(parts[0], ctx.what, self.items)
        p = Parser(list(parts[1]), ctx.what, self.items)
        pat = p.pattern()
        guard = None
        if p.at_id("if"):
            p.i += 1
            guard = p.expr()
        if not p.done():
            p.fail("trailing tokens in `matches!`")
        return ("match", scrut, [(pat, guard, ("bool", True)), (("pwild",), None, ("bool", False))])

    def tr_macro(self, e, env, ctx):
        if e[1] == "matches":
            return self.tr(self.matches_ast(e, ctx), env, ctx)
        raise ShapeError(f"{ctx.what}: macro `{e[1]}!` in expression position is outside the subset")

    # wrapped leaves: the value of a `let` whose initialiser may `return Err(..)`
    def wrapped(self, e, env, ctx):
        if e[0] == "if":
            return self.tr_if(e, env, ctx, self.wrapped)
        if e[0] == "match":
            return self.tr_match(e, env, ctx, self.wrapped)
        if e[0] == "block":
            return self.tr_block(e, env, ctx, self.wrapped)
        if e[0] == "return":
            if e[1] is None:
                raise ShapeError(f"{ctx.what}: bare `return`")
            v = self.tr(e[1], env, ctx)
            if self.res(v.ty)[0] != "result":
                raise ShapeError(f"{ctx.what}: only `return Err(..)` / `return Ok(..)` are in the subset here")
            return v
        v = self.tr(e, env, ctx)
        return V(f"(Except.ok {self.arg(v, ctx)})", ("result", v.ty), v.ok)


class StmtMixin:
    # ------------------------------------------------------------------ statements
    def let_in(self, binds, body, ok_first=None):
        """V for `let n1 := v1; ...; body`"""
        lean = chain(binds, body.lean if not (self.res(body.ty) == ("bool",) and body.prop) else f"(decide {body.lean})")
        ok = conj(ok_first, "(" + chain(binds, body.ok) + ")" if body.ok else None)
        return V(lean, body.ty, ok)

    def run(self, stmts, env, ctx, k):
        if not stmts:
            return k(env)
        s, rest = stmts[0], stmts[1:]

        def cont(env2):
            return self.run(rest, env2, ctx, k)

        kind = s[0]
        if kind == "let":
            return self.st_let(s, env, ctx, cont)
        if kind == "for":
            return self.st_for(s, env, ctx, cont)
        if kind in ("loop", "while"):
            raise ShapeError(f"{ctx.what}: `{kind}` loops are outside the subset")
        if kind == "expr":
            e = s[1]
            if e[0] == "return":
                if e[1] is None:
                    raise ShapeError(f"{ctx.what}: bare `return`")
                if ctx.in_loop:
                    raise ShapeError(f"{ctx.what}: `return` inside a loop is outside the subset")
                v = self.tr(e[1], env, ctx)
                if ctx.ret is not None:
                    self.unify(v.ty, ctx.ret, ctx.what)
                if getattr(ctx, "ret_with_self", False):
                    sv = self.struct_value(env["self"], ctx)
                    return V(f"({self.value(v, ctx)}, {sv.lean})", ("tuple", [v.ty, sv.ty]), v.ok)
                if getattr(ctx, "ret_pair", None) is not None:
                    return V(f"({self.value(v, ctx)}, {ctx.ret_pair(env)})", ("tuple", [v.ty, ctx.vself]), v.ok)
                return v
            if e[0] == "assign":
                return self.st_assign(e, env, ctx, cont)
            if e[0] == "macro" and e[1] in LOG_MACROS:
                return cont(env)
            if e[0] == "mcall" and e[2] == "copy_from_slice":
                return self.st_copy(e, env, ctx, cont)
            if e[0] == "if":
                return self.st_if(e, env, ctx, cont)
            if e[0] == "match":
                return self.st_match(e, env, ctx, cont)
            if e[0] == "block":
                return self.run(e[1] + ([("expr", e[2])] if e[2] else []), env, ctx,
                                lambda env2: cont(self.restore(env2, env, ctx)))
            raise ShapeError(f"{ctx.what}: statement `{e[0]}` is outside the subset")
        raise ShapeError(f"{ctx.what}: statement kind `{kind}` is outside the subset")

    def restore(self, inner, outer, ctx):
        for n in inner:
            if n not in outer:
                continue
        out = {}
        for n in outer:
            out[n] = inner[n]
        return out

    def bind_try(self, name, ty_hint, e, env, ctx, cont_with):
        """`name = E?` : match on the Option / Result E"""
        v = self.tr(e, env, ctx)
        t = self.res(v.ty)
        if ctx.in_loop:
            raise ShapeError(f"{ctx.what}: `?` inside a loop is outside the subset")
        if t[0] not in ("result", "option"):
            raise ShapeError(f"{ctx.what}: `?` on {self.show(t)}")
        rt = self.res(ctx.ret) if ctx.ret is not None else None
        if rt is None or rt[0] != t[0]:
            raise ShapeError(f"{ctx.what}: `?` on {t[0]} in a function that does not return {t[0]}")
        inner = V(name, t[1])
        body = cont_with(inner)
        self.unify(body.ty, ctx.ret, ctx.what)
        if t[0] == "result":
            lean = f"match {v.lean} with | Except.error _e => Except.error _e | Except.ok {name} => {body.lean}"
            ok = conj(v.ok, f"(∀ {name}, {v.lean} = Except.ok {name} → {body.ok})" if body.ok else None)
        else:
            lean = f"match {v.lean} with | none => none | some {name} => {body.lean}"
            ok = conj(v.ok, f"(∀ {name}, {v.lean} = some {name} → {body.ok})" if body.ok else None)
        return V(lean, body.ty, ok)

    def st_let(self, s, env, ctx, cont):
        _, pat, ty, init = s
        if init is None:
            raise ShapeError(f"{ctx.what}: `let` without an initialiser is outside the subset")
        if pat[0] == "pwild":
            name = self.tmp()
        elif pat[0] == "pbind":
            name = pat[1]
            self.check_local(name, ctx)
        else:
            raise ShapeError(f"{ctx.what}: destructuring `let` is outside the subset")
        ln = lname(name)
        want = self.conv_type(ty, ctx.what, ctx.impl) if ty is not None else None
        if init[0] == "try":
            def cw(inner):
                if want is not None:
                    self.unify(inner.ty, want, ctx.what)
                env2 = dict(env)
                env2[name] = ("val", ln, inner.ty)
                return cont(env2)
            return self.bind_try(ln, want, init[1], env, ctx, cw)
        if init[0] == "struct":
            sname = init[1] if init[1] != "Self" else ctx.impl
            if sname in self.items.structs and self.items.structs[sname][0] == "named":
                given = dict(init[2])
                fields, binds, oks = {}, [], []
                for fname, fty, isref in self.struct_fields(sname, ctx.what):
                    if fname not in given:
                        raise ShapeError(f"{ctx.what}: struct literal {sname} lacks field {fname}")
                    v = self.tr(given[fname], env, ctx)
                    fty2 = self.conv_type(fty, ctx.what, sname)
                    self.unify(v.ty, fty2, ctx.what)
                    if isref:
                        if not re.match(r"^[A-Za-z0-9_]+$", v.lean):
                            raise ShapeError(f"{ctx.what}: reference field {sname}.{fname} must be bound to a name")
                        fields[fname] = (v.lean, fty2)
                    else:
                        fl = f"{ln}_{fname}"
                        binds.append((fl, self.value(v, ctx)))
                        fields[fname] = (fl, fty2)
                    oks.append(v.ok)
                env2 = dict(env)
                env2[name] = ("structlocal", sname, fields)
                return self.let_in(binds, cont(env2), conj(*oks))
        v = self.tr(init, env, ctx)
        if want is not None:
            self.unify(v.ty, want, ctx.what)
        env2 = dict(env)
        env2[name] = ("val", ln, v.ty)
        return self.let_in([(ln, self.value(v, ctx))], cont(env2), v.ok)

    def st_assign(self, e, env, ctx, cont):
        _, op, lhs, rhs = e
        while lhs[0] == "deref":
            lhs = lhs[1]
        if rhs[0] == "try":
            if op != "=":
                raise ShapeError(f"{ctx.what}: `op= ..?` is outside the subset")
            tn = self.tmp()

            def cw(inner):
                env2 = dict(env)
                env2[tn] = ("val", tn, inner.ty)
                return self.st_assign(("assign", "=", lhs, ("path", [tn])), env2, ctx,
                                      lambda env3: cont({k2: v2 for k2, v2 in env3.items() if k2 != tn}))
            return self.bind_try(tn, None, rhs[1], env, ctx, cw)
        if op == "=":
            v = self.tr(rhs, env, ctx)
        else:
            v = self.tr(("bin", op[:-1], lhs, rhs), env, ctx)
        if lhs[0] == "path" and len(lhs[1]) == 1:
            n = lhs[1][0]
            if n not in env or env[n][0] != "val":
                raise ShapeError(f"{ctx.what}: assignment to `{n}` is outside the subset")
            ty = self.unify(env[n][2], v.ty, ctx.what)
            env2 = dict(env)
            env2[n] = ("val", env[n][1], ty)
            return self.let_in([(env[n][1], self.value(v, ctx))], cont(env2), v.ok)
        if lhs[0] == "field" and lhs[1][0] == "path" and len(lhs[1][1]) == 1 and lhs[1][1][0] in env and \
                env[lhs[1][1][0]][0] == "structlocal":
            b = env[lhs[1][1][0]]
            f = lhs[2]
            if f not in b[2]:
                raise ShapeError(f"{ctx.what}: no field {f}")
            fl, fty = b[2][f]
            if self.items.structs[b[1]][0] == "named":
                for fname, _fty, isref in self.struct_fields(b[1], ctx.what):
                    if fname == f and isref:
                        raise ShapeError(f"{ctx.what}: assignment to the reference field {f}")
            self.unify(fty, v.ty, ctx.what)
            return self.let_in([(fl, self.value(v, ctx))], cont(env), v.ok)
        if lhs[0] == "field" and lhs[1][0] == "path" and len(lhs[1][1]) == 1 and lhs[1][1][0] in env and \
                env[lhs[1][1][0]][0] == "val" and self.res(env[lhs[1][1][0]][2])[0] == "tuple" and lhs[2].isdigit():
            # one component of a local tuple
            n = lhs[1][1][0]
            tt = self.res(env[n][2])
            idx = int(lhs[2])
            if idx >= len(tt[1]):
                raise ShapeError(f"{ctx.what}: no component {idx}")
            self.unify(tt[1][idx], v.ty, ctx.what)
            comps = []
            for i in range(len(tt[1])):
                if i == idx:
                    comps.append(self.value(v, ctx))
                else:
                    comps.append(env[n][1] + ".2" * i + (".1" if i < len(tt[1]) - 1 else ""))
            return self.let_in([(env[n][1], "(" + ", ".join(comps) + ")")], cont(env), v.ok)
        if lhs[0] == "index" and lhs[1][0] == "path" and len(lhs[1][1]) == 1 and lhs[2][0] != "range":
            n = lhs[1][1][0]
            if n not in env or env[n][0] != "val" or self.res(env[n][2])[0] != "bytes":
                raise ShapeError(f"{ctx.what}: indexed assignment to `{n}` is outside the subset")
            i = self.tr(lhs[2], env, ctx)
            self.unify(i.ty, ("usize",), ctx.what)
            self.unify(v.ty, ("int", 8), ctx.what)
            blen = self.res(env[n][2])[1]
            ok = conj(i.ok, v.ok)
            if not (blen is not None and i.const is not None and i.const < blen):
                ok = conj(ok, f"({i.lean} < {env[n][1]}.length)")
            return self.let_in([(env[n][1], f"List.set {env[n][1]} {i.lean} (UInt8.ofNat {v.lean})")], cont(env), ok)
        raise ShapeError(f"{ctx.what}: this assignment target is outside the subset")

    def st_copy(self, e, env, ctx, cont):
        _, recv, _name, args = e
        if len(args) != 1:
            raise ShapeError(f"{ctx.what}: copy_from_slice takes one argument")
        src = self.tr(args[0], env, ctx)
        st = self.res(src.ty)
        if st[0] != "bytes":
            raise ShapeError(f"{ctx.what}: copy_from_slice from {self.show(st)}")
        rng = None
        if recv[0] == "index" and recv[2][0] == "range":
            rng = recv[2]
            recv = recv[1]
        # `x.f.g.copy_from_slice(src)`: the byte-array field `g` of the struct held in field `f` of the local struct `x`
        if rng is None and recv[0] == "field" and recv[1][0] == "field" and recv[1][1][0] == "path" and \
                len(recv[1][1][1]) == 1 and recv[1][1][1][0] in env and env[recv[1][1][1][0]][0] == "structlocal":
            b = env[recv[1][1][1][0]]
            f, g = recv[1][2], recv[2]
            if f not in b[2]:
                raise ShapeError(f"{ctx.what}: no field {f}")
            fl, fty = b[2][f]
            ft = self.res(fty)
            if ft[0] != "struct":
                raise ShapeError(f"{ctx.what}: copy_from_slice into a field of {self.show(ft)}")
            for gname, gty, isref in self.struct_fields(ft[1], ctx.what):
                if gname == g and not isref:
                    gt = self.res(self.conv_type(gty, ctx.what, ft[1]))
                    if gt[0] != "bytes" or gt[1] is None or gt[1] != st[1]:
                        raise ShapeError(f"{ctx.what}: copy_from_slice of {st[1]} bytes into {self.show(gt)}")
                    return self.let_in([(fl, f"{{ {fl} with {lname(g)} := {src.lean} }}")], cont(env), src.ok)
            raise ShapeError(f"{ctx.what}: no field {g} in {ft[1]}")
        if not (recv[0] == "path" and len(recv[1]) == 1 and recv[1][0] in env and env[recv[1][0]][0] == "val" and
                self.res(env[recv[1][0]][2])[0] == "bytes"):
            raise ShapeError(f"{ctx.what}: copy_from_slice into something that is not a local byte array")
        n = recv[1][0]
        ln, bty = env[n][1], self.res(env[n][2])
        if rng is None:
            dlen, binds_to = bty[1], src.lean
            ok = src.ok
        else:
            lov, hiv, dlen = self.slice_parts(rng, env, ctx, bty[1])
            ok = conj(src.ok, lov.ok, hiv.ok if hiv else None)
            head = "" if lov.const == 0 else f"List.take {lov.lean} {ln} ++ "
            if hiv is None:
                binds_to = f"{head}{src.lean}"
            else:
                if not (bty[1] is not None and hiv.const is not None and hiv.const <= bty[1]):
                    ok = conj(ok, f"({hiv.lean} ≤ {ln}.length)")
                binds_to = f"{head}{src.lean} ++ List.drop {hiv.lean} {ln}"
        if dlen is None or st[1] is None:
            # `dst[a..a+n].copy_from_slice(&src[b..b+n])` with the same expression `n`
            def sym_len(r):
                if r is not None and r[0] == "range" and r[1] is not None and r[2] is not None and not r[3] and \
                        r[2][0] == "bin" and r[2][1] == "+" and r[2][2] == r[1]:
                    return r[2][3]
                return None
            sa = args[0]
            while sa[0] == "ref":
                sa = sa[1]
            l1 = sym_len(rng)
            l2 = sym_len(sa[2]) if sa[0] == "index" else None
            if l1 is None or l1 != l2:
                raise ShapeError(f"{ctx.what}: copy_from_slice with lengths that are not evident (it panics on a mismatch)")
            return self.let_in([(ln, binds_to)], cont(env), ok)
        if dlen != st[1]:
            raise ShapeError(f"{ctx.what}: copy_from_slice of {st[1]} bytes into {dlen} bytes always panics")
        return self.let_in([(ln, binds_to)], cont(env), ok)

    def state_vars(self, node, env, ctx):
        asg, decl = set(), set()
        assigned_names(node, asg)
        declared_names(node, decl)
        outer = sorted(n for n in asg if n in env)
        for n in outer:
            if n in decl:
                raise ShapeError(f"{ctx.what}: `{n}` is both assigned and re-declared inside a branch / loop body")
            if env[n][0] != "val":
                raise ShapeError(f"{ctx.what}: assignment to a field of `{n}` inside a merged branch / loop is outside the subset")
        return outer

    def tuple_of(self, names, env, ctx):
        if len(names) == 1:
            return env[names[0]][1]
        return "(" + ", ".join(env[n][1] for n in names) + ")"

    def unpack(self, names, src, env):
        if len(names) == 1:
            return [(env[names[0]][1], src)]
        out = []
        for i, n in enumerate(names):
            proj = ".2" * i + (".1" if i < len(names) - 1 else "")
            out.append((env[n][1], f"{src}{proj}"))
        return out

    def st_if(self, e, env, ctx, cont):
        _, cond, thn, els = e
        if has_node(e, ("break", "continue")):
            raise ShapeError(f"{ctx.what}: break / continue are outside the subset")
        c = self.tr(cond, env, ctx)
        p = self.as_prop(c, ctx)

        def stm(b):
            if b is None:
                return []
            if b[0] == "block":
                return b[1] + ([("expr", b[2])] if b[2] is not None else [])
            return [("expr", b)]
        asg = set()
        assigned_names(e, asg)
        if has_return(e) or any(n in env and env[n][0] == "structlocal" for n in asg):
            if ctx.in_loop:
                raise ShapeError(f"{ctx.what}: `return` inside a loop is outside the subset")
            names = set()
            declared_names(thn, names)
            declared_names(els, names)
            for n in names:
                if n in env:
                    raise ShapeError(f"{ctx.what}: `{n}` is shadowed inside a branch that also returns early")
            a = self.run(stm(thn), dict(env), ctx, lambda env2: cont(self.restore(env2, env, ctx)))
            b = self.run(stm(els), dict(env), ctx, lambda env2: cont(self.restore(env2, env, ctx)))
            ty = self.unify(a.ty, b.ty, ctx.what)
            ok = conj(c.ok, f"(if {p} then {a.ok or 'True'} else {b.ok or 'True'})" if (a.ok or b.ok) else None)
            return V(f"if {p} then ({self.value(a, ctx)}) else ({self.value(b, ctx)})", ty, ok)
        names = self.state_vars(("x", thn, els), env, ctx)
        if not names:
            raise ShapeError(f"{ctx.what}: an `if` statement without effect on local variables is outside the subset")

        def fin(env2):
            return V(self.tuple_of(names, env2, ctx), ("unit",))
        a = self.run(stm(thn), dict(env), ctx, fin)
        b = self.run(stm(els), dict(env), ctx, fin)
        merged = f"if {p} then ({a.lean}) else ({b.lean})"
        ok = conj(c.ok, f"(if {p} then {a.ok or 'True'} else {b.ok or 'True'})" if (a.ok or b.ok) else None)
        if len(names) == 1:
            binds = [(env[names[0]][1], merged)]
        else:
            tn = self.tmp()
            binds = [(tn, merged)] + self.unpack(names, tn, env)
        return self.let_in(binds, cont(env), ok)

    def st_match(self, e, env, ctx, cont):
        """`match x { E::A => s1, E::B => s2 }` as a statement: over every variant of a field-less enum, the arms
        only assigning locals; joined like an `if` statement"""
        _, scrut, arms = e
        if has_return(e) or has_node(e, ("break", "continue", "try")):
            raise ShapeError(f"{ctx.what}: a `match` statement with an early exit is outside the subset")
        sv = self.tr(scrut, env, ctx)
        ty = self.res(sv.ty)
        if ty[0] != "enum" or ty[1] not in self.items.enums or any(p for _, p in self.items.enums[ty[1]]):
            raise ShapeError(f"{ctx.what}: statement `match` on {self.show(ty)} is outside the subset")
        if not re.match(r"^[A-Za-z0-9_.]+$", sv.lean):
            raise ShapeError(f"{ctx.what}: statement `match` on a compound expression is outside the subset")
        variants = [vn for vn, _p in self.items.enums[ty[1]]]
        seen = []
        for pat, guard, _b in arms:
            if guard is not None or pat[0] != "ppath" or pat[1][-1] not in variants or pat[1][-1] in seen or \
                    (len(pat[1]) > 1 and pat[1][-2] != ty[1]):
                raise ShapeError(f"{ctx.what}: this arm of a `match` statement is outside the subset")
            seen.append(pat[1][-1])
        if set(seen) != set(variants):
            raise ShapeError(f"{ctx.what}: a `match` statement must list every variant of {ty[1]}")
        names = self.state_vars(("x", [b for _p, _g, b in arms]), env, ctx)
        if not names:
            raise ShapeError(f"{ctx.what}: a `match` statement without effect on local variables is outside the subset")

        def stm(b):
            if b[0] == "block":
                return b[1] + ([("expr", b[2])] if b[2] is not None else [])
            return [("expr", b)]

        def fin(env2):
            return V(self.tuple_of(names, env2, ctx), ("unit",))
        merged, okc, any_ok = "", "", False
        for idx, (pat, _g, body) in enumerate(arms):
            cond, _binds = self.pat_cond(pat, sv, ctx)
            a = self.run(stm(body), dict(env), ctx, fin)
            any_ok = any_ok or a.ok is not None
            if idx == len(arms) - 1:
                merged += f"({a.lean})"
                okc += a.ok or "True"
            else:
                merged += f"if {cond} then ({a.lean}) else "
                okc += f"if {cond} then {a.ok or 'True'} else "
        ok = conj(sv.ok, f"({okc})" if any_ok else None)
        if len(names) == 1:
            binds = [(env[names[0]][1], merged)]
        else:
            tn = self.tmp()
            binds = [(tn, merged)] + self.unpack(names, tn, env)
        return self.let_in(binds, cont(env), ok)

    def st_for(self, s, env, ctx, cont):
        _, pat, it, body = s
        if has_return(body) or has_node(body, ("break", "continue", "try")):
            raise ShapeError(f"{ctx.what}: return / break / continue / `?` inside a loop are outside the subset")
        while pat[0] == "pref":
            pat = pat[1]
        if pat[0] == "pbind":
            var = pat[1]
            self.check_local(var, ctx)
        elif pat[0] == "pwild":
            var = self.tmp()
        else:
            raise ShapeError(f"{ctx.what}: loop pattern outside the subset")
        names = self.state_vars(body, env, ctx)
        if not names:
            raise ShapeError(f"{ctx.what}: a loop without effect on local variables is outside the subset")
        if var in names:
            raise ShapeError(f"{ctx.what}: loop variable `{var}` shadows a variable the loop assigns")
        lv = lname(var)
        env2 = dict(env)
        pre = ""
        if it[0] == "range":
            if it[1] is None or it[2] is None:
                raise ShapeError(f"{ctx.what}: open ranges are outside the subset")
            lo, hi = self.tr(it[1], env, ctx), self.tr(it[2], env, ctx)
            if lo.const is None or hi.const is None:
                raise ShapeError(f"{ctx.what}: only loops over literal ranges are in the subset")
            cnt = max(0, hi.const + (1 if it[3] else 0) - lo.const)
            ety = self.unify(lo.ty, hi.ty, ctx.what)
            lst = f"(List.range' {lo.const} {cnt})"
            binder = f"({lv} : Nat)"
            env2[var] = ("val", lv, ety)
            iok = None
        else:
            iv = self.tr(it, env, ctx)
            if self.res(iv.ty)[0] != "bytes":
                raise ShapeError(f"{ctx.what}: loops over {self.show(iv.ty)} are outside the subset")
            lst = iv.lean
            binder = f"({lv} : UInt8)"
            pre = f"let {lv} := {lv}.toNat; "
            env2[var] = ("val", lv, ("int", 8))
            iok = iv.ok
        tys = " × ".join(self.lean_type(env[n][2], ctx.what) for n in names)

        def fin(env3):
            return V(self.tuple_of(names, env3, ctx), ("unit",))
        ctx.in_loop += 1
        stmts = body[1] + ([("expr", body[2])] if body[2] is not None else [])
        if len(names) == 1:
            b = self.run(stmts, env2, ctx, fin)
            fn = f"(fun ({env[names[0]][1]} : {tys}) {binder} => {pre}{b.lean})"
            init = env[names[0]][1]
        else:
            tn = self.tmp()
            b = self.run(stmts, env2, ctx, fin)
            unp = "".join(f"let {n} := {v}; " for n, v in self.unpack(names, tn, env))
            fn = f"(fun ({tn} : {tys}) {binder} => {unp}{pre}{b.lean})"
            init = self.tuple_of(names, env, ctx)
        ctx.in_loop -= 1
        if b.ok is not None:
            raise ShapeError(f"{ctx.what}: a loop body that can panic (overflow, index, division) is outside the "
                             f"subset: {b.ok}")
        folded = f"List.foldl {fn} {init} {lst}"
        if len(names) == 1:
            binds = [(env[names[0]][1], folded)]
        else:
            t2 = self.tmp()
            binds = [(t2, folded)] + self.unpack(names, t2, env)
        return self.let_in(binds, cont(env), iok)


def free_names(node, out):
    if isinstance(node, tuple):
        if node and node[0] == "path" and len(node[1]) == 1:
            out.add(node[1][0])
        for x in node:
            free_names(x, out)
    elif isinstance(node, list):
        for x in node:
            free_names(x, out)


def pretty(s):
    out, depth, i = [], 0, 0
    while i < len(s):
        c = s[i]
        if c in "([{":
            depth += 1
        elif c in ")]}":
            depth -= 1
        if depth == 0 and s.startswith("; ", i):
            out.append("\n  ")
            i += 2
            continue
        out.append(c)
        i += 1
    return "".join(out)


class FnMixin:
    # ------------------------------------------------------------------ functions
    def resolve_placeholders(self, text, what):
        def rep(m):
            kind, vid = m.group(1), int(m.group(2))
            t = self.res(("var", vid))
            if t[0] == "usize" and kind == "B":
                return "32"
            if t[0] != "int":
                raise ShapeError(f"{what}: the width of an integer literal could not be inferred")
            return {"P": str(2 ** t[1]), "M": str(2 ** t[1] - 1), "B": str(t[1])}[kind]
        return re.sub("\x01([PMB])(\\d+)\x02", rep, text)

    def setup_self(self, decl, ctx, info, self_kind):
        impl = decl.impl
        if self_kind is None:
            return {}
        if impl not in self.items.structs:
            raise ShapeError(f"{ctx.what}: `self` of a type that is not a struct in the scanned files")
        kind, fields = self.items.structs[impl]
        if kind == "tuple":
            nt = self.conv_type(("ty", impl, []), ctx.what)
            if nt[0] != "nt":
                raise ShapeError(f"{ctx.what}: `self` of a tuple struct that is not an integer newtype")
            ctx.self_mode = nt
            info.self_nt = True
        else:
            ctx.self_mode = ("struct", impl)
        return {}

    def self_params(self, ctx):
        if ctx.self_mode is None:
            return [], None
        if ctx.self_mode[0] == "nt":
            return [("self_0", ctx.self_mode)], None
        order = [f for f, _t, _r in self.struct_fields(ctx.self_mode[1], ctx.what) if f in ctx.self_fields]
        return [("self_" + f, ctx.self_fields[f]) for f in order], order

    def translate_fn(self, key, caller=None):
        if key in self.done:
            return self.done[key]
        if key not in self.items.fns:
            raise ShapeError(f"function {key[0]}::{key[1]} not found in the scanned files")
        if key in self.in_progress:
            raise ShapeError(f"{key[0]}::{key[1]}: recursion is outside the subset")
        self.in_progress.add(key)
        decl = self.items.fns[key]
        what = f"{decl.where}: fn {(decl.impl + '::') if decl.impl else ''}{decl.name}"
        ctx = Ctx(what, decl.impl)
        info = FnInfo((decl.impl + "_" if decl.impl else "") + decl.name)
        self_kind, params = parse_params(decl, self.items)
        self.setup_self(decl, ctx, info, self_kind)
        env, plist = {}, []
        for pn, pty in params:
            self.check_local(pn, ctx)
            ty = self.conv_type(pty, f"{what}: parameter {pn}", decl.impl)
            env[pn] = ("val", lname(pn), ty)
            plist.append((lname(pn), ty))
        ctx.ret = self.conv_type(parse_type(decl.ret, what, self.items), what, decl.impl) if decl.ret else ("unit",)
        body = parse_fn_body(decl, self.items)
        v = self.tr_block(body, env, ctx)
        self.unify(v.ty, ctx.ret, what)
        sp, order = self.self_params(ctx)
        info.self_fields = order
        info.params = sp + plist
        info.ret = ctx.ret
        lean = self.value(v, ctx)
        if lean.startswith("(") and lean.endswith(")") and _balanced(lean[1:-1]):
            lean = lean[1:-1]
        info.body = self.resolve_placeholders(lean, what)
        info.okbody = self.resolve_placeholders(v.ok, what) if v.ok else None
        info.doc = f"`{(decl.impl + '::') if decl.impl else ''}{decl.name}` ({decl.where})"
        self.in_progress.discard(key)
        self.done[key] = info
        self.order.append(key)
        return info

    def translate_mutfn(self, key):
        """a `&mut self` method of a plain struct with integer fields, as a pure function from the fields
        to (result, new struct)"""
        dkey = ("mut",) + key
        if dkey in self.done:
            return self.done[dkey]
        if key not in self.items.fns:
            raise ShapeError(f"function {key[0]}::{key[1]} not found in the scanned files")
        decl = self.items.fns[key]
        what = f"{decl.where}: fn {decl.impl}::{decl.name}"
        ctx = Ctx(what, decl.impl)
        self_kind, params = parse_params(decl, self.items)
        if self_kind is None or "mut" not in self_kind or decl.impl not in self.items.structs or \
                self.items.structs[decl.impl][0] != "named":
            raise ShapeError(f"{what}: not a `&mut self` method of a plain struct")
        fields, plist = {}, []
        for fname, fty, isref in self.struct_fields(decl.impl, what):
            if isref:
                raise ShapeError(f"{what}: reference field {fname}")
            ty = self.conv_type(fty, what, decl.impl)
            fields[fname] = ("self_" + fname, ty)
            plist.append(("self_" + fname, ty))
        env = {"self": ("structlocal", decl.impl, fields)}
        for pn, pty in params:
            self.check_local(pn, ctx)
            ty = self.conv_type(pty, f"{what}: parameter {pn}", decl.impl)
            env[pn] = ("val", lname(pn), ty)
            plist.append((lname(pn), ty))
        ctx.ret = self.conv_type(parse_type(decl.ret, what, self.items), what, decl.impl) if decl.ret else ("unit",)
        ctx.ret_with_self = True
        body = parse_fn_body(decl, self.items)

        def to_returns(e):
            if e is None:
                return [("expr", ("return", ("tuple", [])))]
            if e[0] == "if":
                return [("expr", ("if", e[1], ("block", *to_block(e[2])), ("block", *to_block(e[3]))))]
            if e[0] == "block":
                return list(e[1]) + to_returns(e[2])
            return [("expr", ("return", e))]

        def to_block(b):
            if b is None:
                return ([("expr", ("return", ("tuple", [])))], None)
            if b[0] == "block":
                return (list(b[1]) + to_returns(b[2]), None)
            return (to_returns(b), None)

        def fell_off(_env):
            raise ShapeError(f"{what}: control reaches the end without a value")
        v = self.run(list(body[1]) + to_returns(body[2]), env, ctx, fell_off)
        info = FnInfo(decl.impl + "_" + decl.name)
        info.params = plist
        info.self_fields = [f for f in fields]
        info.ret = v.ty
        lean = self.value(v, ctx)
        if lean.startswith("(") and lean.endswith(")") and _balanced(lean[1:-1]):
            lean = lean[1:-1]
        info.body = self.resolve_placeholders(lean, what)
        info.okbody = self.resolve_placeholders(v.ok, what) if v.ok else None
        info.doc = f"`{decl.impl}::{decl.name}` ({decl.where}), as a function from the fields to (result, new value)"
        self.done[dkey] = info
        self.order.append(dkey)
        return info

    # ------------------------------------------------------------------ fragments
    def enter_arm(self, block, sel, what, prefix):
        cands = []
        nodes = [s for s in block[1]] + ([("expr", block[2])] if block[2] is not None else [])
        for pos, s in enumerate(nodes):
            m = None
            if s[0] == "expr" and s[1][0] == "match":
                m = s[1]
            elif s[0] == "let" and s[3] is not None and s[3][0] == "match":
                m = s[3]
            if m is None:
                continue
            for pat, guard, body in m[2]:
                if pat[0] in ("ptuple", "ppath") and "::".join(pat[1]) == sel:
                    cands.append((body, pos))
        if len(cands) != 1:
            raise ShapeError(f"{what}: expected exactly one match arm `{sel}`, found {len(cands)}")
        b, pos = cands[0]
        prefix.extend(nodes[:pos])
        return b if b[0] == "block" else ("block", [], b)

    def translate_fragment(self, spec):
        from rustfront import lex
        key = (spec["impl"], spec["fn"])
        lean_name = spec["name"]
        if key not in self.items.fns:
            raise ShapeError(f"function {key[0]}::{key[1]} (fragment {lean_name}) not found in the scanned files")
        decl = self.items.fns[key]
        what = f"{decl.where}: fn {(decl.impl + '::') if decl.impl else ''}{decl.name} [fragment {lean_name}]"
        ctx = Ctx(what, decl.impl)
        info = FnInfo(lean_name)
        self_kind, fparams = parse_params(decl, self.items)
        self.setup_self(decl, ctx, info, self_kind)
        info.self_nt = False
        block = parse_fn_body(decl, self.items)
        prefix = []
        for sel in spec.get("path", []):
            block = self.enter_arm(block, sel, what, prefix)
        stmts = list(block[1])
        target = spec["target"]
        given = [(n, self.conv_type(parse_type(lex(t, what), what, self.items), what)) for n, t in spec.get("params", [])]
        given_names = {n for n, _ in given}
        # locate the target
        if target[0] == "let":
            idxs = [i for i, s in enumerate(stmts) if s[0] == "let" and s[1] == ("pbind", target[1])]
            if len(idxs) != 1:
                raise ShapeError(f"{what}: expected exactly one `let {target[1]}` in the selected block, found {len(idxs)}")
            j = idxs[0]
            tail_stmts = [stmts[j]]
            k2 = j + 1
            while k2 < len(stmts):
                s = stmts[k2]
                names = set()
                if s[0] == "expr" and s[1][0] in ("assign", "mcall"):
                    assigned_names(s[1], names)
                if names == {target[1]}:
                    tail_stmts.append(s)
                    k2 += 1
                else:
                    break
            final = ("path", [target[1]])
            if stmts[j][3] is not None and stmts[j][3][0] == "try":
                # the fragment is the Option / Result the `?` is applied to
                if len(tail_stmts) > 1:
                    raise ShapeError(f"{what}: `?` plus later assignments is outside the subset")
                final = stmts[j][3][1]
                tail_stmts = []
            wrap = has_return(stmts[j][3])
            if wrap:
                if len(tail_stmts) > 1:
                    raise ShapeError(f"{what}: early return plus later assignments is outside the subset")
                final = None
        elif target[0] == "tail":
            j = len(stmts)
            if block[2] is None:
                raise ShapeError(f"{what}: the selected block has no tail expression")
            tail_stmts = []
            final = block[2]
            wrap = False
        else:
            raise ShapeError(f"{what}: bad fragment target")
        # backward slice over the preceding `let`s
        need = set()
        free_names(tail_stmts, need)
        if final is not None:
            free_names(final, need)
        chosen = []
        before = prefix + stmts[:j]
        for i in range(len(before) - 1, -1, -1):
            s = before[i]
            if s[0] == "let" and s[1][0] == "pbind" and s[1][1] in need and s[1][1] not in given_names:
                chosen.append(s)
                need.discard(s[1][1])
                free_names(s[3], need)
        chosen.reverse()
        env, plist = {}, []
        for pn, pty in fparams:
            if pn in need and pn not in given_names:
                ty = self.conv_type(pty, f"{what}: parameter {pn}", decl.impl)
                env[pn] = ("val", lname(pn), ty)
                plist.append((lname(pn), ty))
        flat = []
        for n, ty in given:
            self.check_local(n, ctx)
            if ty[0] == "struct":
                fields = {}
                for fname, fty, isref in self.struct_fields(ty[1], what):
                    fty2 = self.conv_type(fty, what, ty[1])
                    fields[fname] = (f"{lname(n)}_{fname}", fty2)
                    flat.append((f"{lname(n)}_{fname}", fty2))
                env[n] = ("structlocal", ty[1], fields)
            else:
                env[n] = ("val", lname(n), ty)
                plist.append((lname(n), ty))
        if wrap:
            init = stmts[j][3]
            v = self.run(chosen, env, ctx, lambda env2: self.wrapped(init, env2, ctx))
        else:
            v = self.run(chosen + tail_stmts, env, ctx, lambda env2: self.tr(final, env2, ctx))
        sp, order = self.self_params(ctx)
        info.self_fields = order
        info.params = sp + plist
        info.ret = v.ty
        info.body = self.resolve_placeholders(self.value(v, ctx), what)
        info.okbody = self.resolve_placeholders(v.ok, what) if v.ok else None
        used = [(n, t) for n, t in flat if re.search(r"(?<![A-Za-z0-9_.])" + re.escape(n) + r"(?![A-Za-z0-9_])",
                                                     info.body + " " + (info.okbody or ""))]
        info.params = sp + plist[:len(plist) - len([g for g in given if g[1][0] != "struct"])] + used + \
            plist[len(plist) - len([g for g in given if g[1][0] != "struct"]):]
        sel = " / ".join(spec.get("path", []))
        tg = f"`let {target[1]}`" if target[0] == "let" else "the tail expression"
        info.doc = (f"fragment of `{(decl.impl + '::') if decl.impl else ''}{decl.name}` ({decl.where})"
                    + (f", arm {sel}" if sel else "") + f": {tg}")
        self.done[("frag", lean_name)] = info
        self.order.append(("frag", lean_name))
        return info


def _balanced(s):
    d = 0
    for c in s:
        if c in "([{":
            d += 1
        elif c in ")]}":
            d -= 1
            if d < 0:
                return False
    return d == 0


class Full(Translator, ExprMixin, CallMixin, FlowMixin, StmtMixin, FnMixin):
    pass


# --------------------------------------------------------------------------------------
# What is translated
# --------------------------------------------------------------------------------------

FILES = ["structure.rs", "blockdevice.rs", "filesystem/timestamp.rs", "filesystem/filename.rs",
         "filesystem/cluster.rs", "fat/mod.rs", "fat/bpb.rs", "fat/info.rs", "fat/ondiskdirentry.rs",
         "fat/volume.rs", "sdcard/proto.rs", "sdcard/mod.rs"]

# whole functions: (impl type or None, fn name)
FUNCTIONS = [
    # C18 / C17
    ("Timestamp", "from_fat"), ("Timestamp", "serialize_to_fat"), ("ShortFileName", "csum"),
    # C15
    ("BlockCount", "from_bytes"), ("BlockCount", "offset_bytes"),
    ("Bpb", "fat_size"), ("Bpb", "total_blocks"), ("Bpb", "total_clusters"), ("Bpb", "fs_info_block"),
    ("Bpb", "create_from_bytes"),
    # C12
    ("CsdV1", "card_capacity_bytes"), ("CsdV1", "card_capacity_blocks"),
    ("CsdV2", "card_capacity_bytes"), ("CsdV2", "card_capacity_blocks"),
    # C04 / C03
    ("FatVolume", "bytes_per_cluster"), ("FatVolume", "cluster_to_block"),
    # C19
    (None, "crc7"), (None, "crc16"),
]

F16, F32 = "FatSpecificInfo::Fat16", "FatSpecificInfo::Fat32"
BPB_PARAMS = [("bpb_data", "&[u8; 512]")]

# fragments of functions that are not pure as a whole: the named `let` (with the assignments that
# immediately follow it) or the tail expression of the selected block, as a function of the listed
# parameters, the function's own parameters and the fields of self that it reads.
FRAGMENTS = [
    # C15: layout arithmetic of parse_volume
    dict(name="parse_volume_fat_start", impl=None, fn="parse_volume", path=[], target=("let", "fat_start"),
         params=[("bpb", "Bpb")]),
    dict(name="parse_volume_second_fat_start", impl=None, fn="parse_volume", path=[],
         target=("let", "second_fat_start"), params=[("bpb", "Bpb")]),
    dict(name="parse_volume_fat16_root_dir_blocks", impl=None, fn="parse_volume", path=["FatType::Fat16"],
         target=("let", "root_dir_blocks"), params=[("bpb", "Bpb")]),
    dict(name="parse_volume_fat16_first_root_dir_block", impl=None, fn="parse_volume", path=["FatType::Fat16"],
         target=("let", "first_root_dir_block"), params=[("bpb", "Bpb")]),
    dict(name="parse_volume_fat16_first_data_block", impl=None, fn="parse_volume", path=["FatType::Fat16"],
         target=("let", "first_data_block"), params=[("bpb", "Bpb")]),
    dict(name="parse_volume_fat32_first_data_block", impl=None, fn="parse_volume", path=["FatType::Fat32"],
         target=("let", "first_data_block"), params=[("bpb", "Bpb")]),
    dict(name="parse_volume_fat32_info_block_idx", impl=None, fn="parse_volume", path=["FatType::Fat32"],
         target=("let", "info_block_idx"), params=[("info_location", "BlockCount")]),
    # C12: address scaling in read / write
    dict(name="read_start_idx", impl="SdCardInner", fn="read", path=[], target=("let", "start_idx"), params=[]),
    dict(name="write_start_idx", impl="SdCardInner", fn="write", path=[], target=("let", "start_idx"), params=[]),
    # C04 / C03: FAT entry addressing and classification
    dict(name="next_cluster_fat16_block", impl="FatVolume", fn="next_cluster", path=[F16],
         target=("let", "this_fat_block_num"), params=[]),
    dict(name="next_cluster_fat16_offset", impl="FatVolume", fn="next_cluster", path=[F16],
         target=("let", "this_fat_ent_offset"), params=[]),
    dict(name="next_cluster_fat16_entry", impl="FatVolume", fn="next_cluster", path=[F16],
         target=("let", "fat_entry"), params=[("block", "&[u8; 512]"), ("this_fat_ent_offset", "usize")]),
    dict(name="next_cluster_fat16_decode", impl="FatVolume", fn="next_cluster", path=[F16],
         target=("tail",), params=[("fat_entry", "u16")]),
    dict(name="next_cluster_fat32_block", impl="FatVolume", fn="next_cluster", path=[F32],
         target=("let", "this_fat_block_num"), params=[]),
    dict(name="next_cluster_fat32_offset", impl="FatVolume", fn="next_cluster", path=[F32],
         target=("let", "this_fat_ent_offset"), params=[]),
    dict(name="next_cluster_fat32_entry", impl="FatVolume", fn="next_cluster", path=[F32],
         target=("let", "fat_entry"), params=[("block", "&[u8; 512]"), ("this_fat_ent_offset", "usize")]),
    dict(name="next_cluster_fat32_decode", impl="FatVolume", fn="next_cluster", path=[F32],
         target=("tail",), params=[("fat_entry", "u32")]),
    dict(name="update_fat_fat16_block", impl="FatVolume", fn="update_fat", path=[F16],
         target=("let", "this_fat_block_num"), params=[]),
    dict(name="update_fat_fat16_offset", impl="FatVolume", fn="update_fat", path=[F16],
         target=("let", "this_fat_ent_offset"), params=[]),
    dict(name="update_fat_fat16_entry", impl="FatVolume", fn="update_fat", path=[F16],
         target=("let", "entry"), params=[]),
    dict(name="update_fat_fat32_block", impl="FatVolume", fn="update_fat", path=[F32],
         target=("let", "this_fat_block_num"), params=[]),
    dict(name="update_fat_fat32_offset", impl="FatVolume", fn="update_fat", path=[F32],
         target=("let", "this_fat_ent_offset"), params=[]),
    dict(name="update_fat_fat32_entry", impl="FatVolume", fn="update_fat", path=[F32],
         target=("let", "entry"), params=[]),
    dict(name="update_fat_fat32_new", impl="FatVolume", fn="update_fat", path=[F32],
         target=("let", "new"), params=[("existing", "u32"), ("entry", "u32")]),
    # C14: the six command bytes
    dict(name="card_command_buf", impl="SdCardInner", fn="card_command", path=[], target=("let", "buf"), params=[]),
]


LEAN_HEADER = '''/-!
# Machine translation of pure Rust functions of the crate

Every definition below is produced by `tools/translate.py` from the text of the crate's
source files; nothing in this file is written by hand.  `Props/C*Gen.lean` prove each of them
equal to the hand-written model, so an edit of the Rust function changes the definition here
and the equality no longer checks.

## Representation

* `u8 u16 u32 u64 usize` values and integer newtypes (`BlockIdx`, `BlockCount`, `ClusterId`)
  are `Nat`.  The intended range (`x < 2^16` for a `u16`, ...) is *not* part of the
  definition: the theorems state it as a hypothesis where they need it.
* `[u8; N]`, `&[u8]` are `List UInt8`; `b[i]` is `rdByte b i` (0 outside the list; the
  side condition `i < length` goes to the `_ok` predicate unless `N` and `i` are literals).
* `bool` is `Bool`; conditions of `if` are written as propositions.
* A struct that is built (`Timestamp {..}`) is a Lean `structure` with its non-reference
  fields.  `self.f` of a `&self` method becomes the parameter `self_f` (only the fields that
  are read); a newtype `self` is the parameter `self_0`.
* Field-less enums and enums with tuple payloads are Lean `inductive`s.
* `Option` is `Option`, `Result<T, _>` is `Except String T`: an error value is rendered as a
  string (`Err("text")` as "text", `Err(Error::X)` as "X", `Err(Error::X("text"))` as "X: text").

## Semantics per operator (width `w` is the Rust type of the left operand / result)

| Rust                          | Lean                                         | side condition in `_ok` |
|-------------------------------|----------------------------------------------|-------------------------|
| `a + b`, `a * b`              | exact `a + b`, `a * b`                       | result `< 2^w`          |
| `a - b`                       | truncated `a - b`                            | `b <= a`                |
| `a / b`, `a % b`              | `a / b`, `a % b`                             | `b != 0` unless literal |
| `a << k`                      | `(a <<< k) % 2^w`                            | `k < w` unless literal  |
| `a >> k`                      | `a >>> k`                                    | `k < w` unless literal  |
| `a & b`, `a OR b`, `a ^ b`    | `&&&`, `OR-bits`, `^^^`                      |                         |
| `!a`                          | `2^w - 1 - a`                                |                         |
| `e as uN` narrowing           | `e % 2^N`                                    |                         |
| `e as uN` widening, `uN::from`| `e`                                          |                         |
| `wrapping_add/sub/mul`        | `(..) % 2^w`                                 |                         |
| `checked_add/sub/mul/div`     | `if` in range `then some .. else none`       |                         |
| `saturating_add/mul`          | `min (..) (2^w - 1)`                         |                         |
| `rotate_right(k)`             | `((a >>> k) OR-bits (a <<< (w-k))) % 2^w`    |                         |
| `for x in bytes {..}`         | `List.foldl` over the list, state = the assigned locals |              |
| `for _ in lo..hi {..}`        | `List.foldl` over `List.range' lo (hi-lo)`   |                         |
| `match` on integers / consts  | `if .. then .. else ..` in arm order; the last arm is the `else` (rustc has checked exhaustiveness) | |
| `match` on an enum with payloads | Lean `match`                              |                         |
| `x?`, early `return`          | `match` on `Except` / duplicated continuation |                         |
| `if c { x = .. }` (statement) | `let x := if c then .. else x` (tuple of the assigned locals) |        |

## Fragments

Functions that also talk to the device are not translated as a whole.  For those, one definition
is generated per named `let` (together with the assignments to the same variable that follow it
immediately) or per tail expression of a selected `match` arm.  The free variables become
parameters: fields of `self`, parameters of the Rust function, and the listed locals that come from
the device (`block`, `fat_entry`, ..).  Earlier pure `let`s of the same and the enclosing blocks that
the fragment uses are repeated inside it.  A `let x = e?;` fragment is the `Result` / `Option` `e`;
a `let` whose initialiser contains `return Err(..)` becomes an `Except` whose other leaves are `ok`.

Rust panics on `+ - *` overflow, on a shift by `>= w`, on division by zero and on an index out of
range when overflow checks are on (debug) and wraps / masks the shift when they are off (release).
The definitions here give the mathematically exact result; it is the result of *both* build modes
exactly when the generated predicate `<f>_ok` holds.  Where no `<f>_ok` is generated the
function cannot panic.  `usize` arithmetic is bounded by `2^32` in `_ok` (the smallest target
the crate supports); a left shift, `!` or wrapping operation on `usize` and `u64 as usize` are
rejected.  Loop bodies must be panic-free or the translator refuses the function.
Logging macros (`trace! debug! warn! info!`) are skipped.
-/
'''.replace("OR-bits", "|||").replace("`a OR b`", "`a | b`")


def render(T):
    lines = []
    lines.append("set_option linter.unusedVariables false\n\nnamespace Sdmmc.Gen.Funs\n")
    lines.append("/-- `b[i]` of a byte array or slice. -/\n"
                 "def rdByte (b : List UInt8) (i : Nat) : Nat := (b.getD i 0).toNat\n")
    for kind, name in T.types_used:
        if kind == "struct":
            fl = []
            for fname, fty, isref in T.struct_fields(name, f"struct {name}"):
                if isref:
                    continue
                fl.append(f"  {lname(fname)} : {T.lean_type(T.conv_type(fty, 'struct ' + name, name), name)}\n")
            lines.append(f"/-- `struct {name}` (non-reference fields). -/\nstructure {name} where\n" + "".join(fl) +
                         "  deriving DecidableEq, Repr\n")
        else:
            vs = []
            for vname, payload in T.items.enums[name]:
                args = "".join(" → " + T.lean_type(T.conv_type(parse_type(p, name, T.items), name), name) + ""
                               for p in payload)
                vs.append(f"  | {vname} : " + "".join(
                    T.lean_type(T.conv_type(parse_type(p, name, T.items), name), name) + " → " for p in payload) + name + "\n")
            lines.append(f"/-- `enum {name}`. -/\ninductive {name} where\n" + "".join(vs) + "  deriving DecidableEq, Repr\n")
    for key in T.order:
        info = T.done[key]
        ps = "".join(f" ({n} : {T.lean_type(t, info.name)})" for n, t in info.params)
        rt = T.lean_type(info.ret, info.name)
        lines.append(f"/-- {info.doc}. -/\ndef {info.name}{ps} : {rt} :=\n  {pretty(info.body)}\n")
        if info.okbody:
            lines.append(f"/-- No overflow, no out-of-range index, no division by zero in {info.doc}. -/\n"
                         f"def {info.name}_ok{ps} : Prop :=\n  {info.okbody}\n")
    lines.append("end Sdmmc.Gen.Funs\n")
    return "\n".join(lines)


# second pure file (Gen/FunsEnt.lean): the on-disk directory entry
FILES2 = FILES + ["filesystem/directory.rs", "filesystem/attributes.rs"]
FUNCTIONS2 = [
    # C06 / C18
    ("OnDiskDirEntry", "is_end"), ("OnDiskDirEntry", "is_valid"), ("OnDiskDirEntry", "is_lfn"),
    ("OnDiskDirEntry", "matches"), ("OnDiskDirEntry", "lfn_contents"), ("OnDiskDirEntry", "get_entry"),
    ("DirEntry", "serialize"), ("DirEntry", "new"),
]

LEAN_HEADER2 = '''/-!
# Machine translation of pure Rust functions of the crate, second file: the on-disk directory entry

Produced by `tools/translate.py` like `Gen/Funs.lean` (same representation, same operator table; the
definitions of that file are used here, not repeated): `OnDiskDirEntry::{is_end, is_valid, is_lfn, matches,
lfn_contents, get_entry}` (fat/ondiskdirentry.rs, with the `define_field!` accessors they use),
`DirEntry::{serialize, new}` (filesystem/directory.rs), `Attributes::{create_from_fat, is_lfn, is_directory}`.
`Props/C06Gen.lean` / `Props/C18GenEnt.lean` prove them equal to `Model/DirEntry.lean`.

Added to the representation: `[u16; N]` (the thirteen code units of a long-name fragment) is `List Nat`, built
by an array literal only; `x.name.contents.copy_from_slice(src)` on a local struct `x` replaces that field.
-/
'''


def render2(T, n0, types0):
    lines = ["import Sdmmc.Gen.Funs\n", LEAN_HEADER2, "set_option linter.unusedVariables false\n",
             "namespace Sdmmc.Gen.FunsEnt\n", "open Sdmmc.Gen.Funs\n"]
    full = render(T)
    for kind, name in T.types_used:
        if (kind, name) in types0:
            continue
        marker = f"/-- `struct {name}` (non-reference fields). -/" if kind == "struct" else f"/-- `enum {name}`. -/"
        i = full.index(marker)
        j = full.index("\n\n", i)
        lines.append(full[i:j] + "\n")
    for key in T.order[n0:]:
        info = T.done[key]
        ps = "".join(f" ({n} : {T.lean_type(t, info.name)})" for n, t in info.params)
        rt = T.lean_type(info.ret, info.name)
        lines.append(f"/-- {info.doc}. -/\ndef {info.name}{ps} : {rt} :=\n  {pretty(info.body)}\n")
        if info.okbody:
            lines.append(f"/-- No overflow, no out-of-range index, no division by zero in {info.doc}. -/\n"
                         f"def {info.name}_ok{ps} : Prop :=\n  {info.okbody}\n")
    lines.append("end Sdmmc.Gen.FunsEnt\n")
    return "\n".join(lines)


def generate2(read_src):
    """Gen/FunsEnt.lean.  Returns (lean text, summary dict)."""
    items = Items()
    for f in FILES2:
        items.scan_file(f, read_src(f))
    T = Full(items)
    for key in FUNCTIONS:
        T.translate_fn(key)
    for spec in FRAGMENTS:
        T.translate_fragment(spec)
    first = render(T).replace("rdByte_PLACEHOLDER", "rdByte")
    base, _ = generate(read_src)
    if LEAN_HEADER + first != base:
        raise ShapeError("FunsEnt: internal: the first file is not reproduced when the two extra source files are read")
    n0, types0 = len(T.order), list(T.types_used)
    for key in FUNCTIONS2:
        T.translate_fn(key)
    text = render2(T, n0, types0).replace("rdByte_PLACEHOLDER", "rdByte")
    summary = {("::".join(str(x) for x in k)): [T.done[k].name, T.done[k].body, T.done[k].okbody] for k in T.order[n0:]}
    return text, summary


def generate(read_src, functions=None, fragments=None):
    """read_src(rel) -> text.  Returns (lean text, summary dict)."""
    items = Items()
    for f in FILES:
        items.scan_file(f, read_src(f))
    T = Full(items)
    for key in (FUNCTIONS if functions is None else functions):
        T.translate_fn(key)
    for spec in (FRAGMENTS if fragments is None else fragments):
        T.translate_fragment(spec)
    text = render(T)
    text = text.replace("rdByte_PLACEHOLDER", "rdByte")
    summary = {("::".join(str(x) for x in k)): [T.done[k].name, T.done[k].body, T.done[k].okbody] for k in T.order}
    return LEAN_HEADER + text, summary
