#!/bin/bash
# usage: try_mutant.sh <sed-expr> <file-in-repo> <harness-subcheck>...   (development helper, not a registered check)
expr="$1"; file="$2"; shift 2
cd /repo && sed -i "$expr" "$file" && git diff --stat | tail -1
cd /verif/harness && cargo build --release --offline 2>&1 | grep -E "^error" -A6
cd /verif
for c in "$@"; do
  timeout 900 ./harness/target/release/vharness $c --seed 1 --tier quick --out work/m_$c.json
  python3 - <<PY
import json
r=json.load(open('work/m_$c.json'))
sigs={}
for v in r['violations']: sigs.setdefault((v['kind'],v['signature']),v['what'][:260])
print('$c','cases',r['cases'],'violations',len(r['violations']))
for k,w in list(sigs.items())[:5]: print('   ',k,w)
PY
done
git -C /repo checkout -- .
cd /verif/harness && cargo build --release --offline 2>&1 | grep -E "^error" -A6
