#!/usr/bin/env python3
"""Manager level of the Rust -> Lean translator: the methods of `VolumeManager` / `VolumeManagerData`
(volume_mgr.rs), `FileInfo` (filesystem/files.rs) and `HandleGenerator` (filesystem/handles.rs),
translated whole into the model's `M` monad over `Mgr` (Model/Mgr.lean) and written to
`Sdmmc/Gen/FunsMgr.lean`.

Built on translate_m.py (monadic statements, fuel loops) and translate.py (pure expressions).
The state map and the bindings of callees that are not translated here are documented in
LEAN_HEADER_MGR (copied into the generated file).  Outside the subset -> ShapeError.
"""
import re
import copy
from rustfront import ShapeError, Items, parse_fn_body, parse_params, parse_type
from translate import (V, Ctx, FnInfo, INT_W, lname, atom, pretty, has_return, has_node, assigned_names,
                       declared_names, free_names, LOG_MACROS, FILES, _balanced)
import translate_m
from translate_m import (MFull, MCtx, MInfo, stmts_of, returns_value, is_err_ctor, simple, par, pretty_m)

MGR_FILES = FILES + ["lib.rs", "volume_mgr.rs", "filesystem/mod.rs", "filesystem/files.rs", "filesystem/handles.rs",
                     "filesystem/directory.rs", "filesystem/attributes.rs"]

# the three fixed-capacity tables of VolumeManagerData
TABLES = {
    "open_volumes": dict(lean="vols", cap="maxVols", elem="VolumeInfo", get="getVolInfo"),
    "open_dirs": dict(lean="dirs", cap="maxDirs", elem="DirectoryInfo", get="getDir"),
    "open_files": dict(lean="files", cap="maxFiles", elem="FileInfo", get="getFile", modify="modifyFile",
                       set="setFile"),
}

# Rust structs whose values are records of the model: Rust field -> Lean field, or ("pair", [a, b]) for a
# tuple field stored as two fields, or ("fatvol", f) for `volume_type: VolumeType` (single variant `Fat(..)`)
VALREC = {
    "FileInfo": ("FileInfo", {"raw_file": "rawFile", "raw_volume": "rawVolume",
                              "current_cluster": ("pair", ["curClusterOff", "curCluster"]),
                              "current_offset": "currentOffset", "mode": "mode", "entry": "entry", "dirty": "dirty"}),
    "DirectoryInfo": ("DirInfo", {"raw_directory": "rawDirectory", "raw_volume": "rawVolume", "cluster": "cluster"}),
    "VolumeInfo": ("VolInfo", {"raw_volume": "rawVolume", "idx": "idx", "volume_type": ("fatvol", "vol")}),
    "DirEntry": ("DirEntry", {"name": "name", "mtime": "mtime", "ctime": "ctime", "attributes": "attributes",
                              "cluster": "cluster", "size": "size", "entry_block": "entryBlock",
                              "entry_offset": "entryOffset"}),
}
XENUMS = {"Mode": "Mode"}
OPAQUE = {"Timestamp": "Timestamp"}

# methods of `FatVolume` called from the manager through `match .. { VolumeType::Fat(fat) => fat.m(..) }`:
# (model function, how the Rust arguments after the block cache map to its arguments, pure?)
FAT_CALLS = {
    "find_directory_entry": ("Fat.findDirectoryEntry", ["dir.cluster", "val"], False),
    "write_new_directory_entry": ("Fat.writeNewDirectoryEntry", ["clock", "val", "val", "val.0", "val"], False),
    "delete_directory_entry": ("Fat.deleteDirectoryEntry", ["dir.cluster", "val"], False),
    "write_entry_to_disk": ("Fat.writeEntryToDisk", ["val"], False),
    "truncate_cluster_chain": ("Fat.truncateClusterChain", ["val"], False),
    "free_cluster_chain": ("Fat.freeClusterChain", ["val"], False),
    "alloc_cluster": ("Fat.allocCluster", ["val", "val"], False),
    "next_cluster": ("Fat.nextCluster", ["val"], False),
    "update_info_sector": ("Fat.updateInfoSector", [], False),
    "bytes_per_cluster": ("Fat.bytesPerCluster", [], True),
    "cluster_to_block": ("Fat.clusterToBlock", ["val"], True),
}
FAT_RET = {
    "find_directory_entry": ("vrec", "DirEntry"), "write_new_directory_entry": ("vrec", "DirEntry"),
    "delete_directory_entry": ("unit",), "write_entry_to_disk": ("unit",), "truncate_cluster_chain": ("unit",),
    "free_cluster_chain": ("unit",), "alloc_cluster": ("nt", "ClusterId", ("int", 32)),
    "next_cluster": ("nt", "ClusterId", ("int", 32)), "update_info_sector": ("unit",),
    "bytes_per_cluster": ("int", 32), "cluster_to_block": ("nt", "BlockIdx", ("int", 32)),
}

STATE_STRUCTS = ("VolumeManager", "VolumeManagerData")


class MgrCtx(MCtx):
    pass


class MgrTrans(MFull):
    mon = "M"

    def __init__(self, items):
        super().__init__(items)
        self.vdone = {}     # pure methods of value records
        self.vorder = []

    # ------------------------------------------------------------------ types
    def conv_type(self, ty, what, impl=None):
        t = ty
        while t[0] == "tref":
            t = t[1]
        if t[0] == "ty":
            name = t[1]
            if name == "Self" and impl is not None:
                name = impl
            if name in VALREC:
                return ("vrec", name)
            if name in XENUMS:
                return ("xenum", name)
            if name in OPAQUE:
                return ("opaque", name)
            if name == "ShortFileName":
                return ("bytes", 11)
            if name == "Wrapping" and len(t[2]) == 1:
                inner = self.conv_type(t[2][0], what, impl)
                if inner[0] == "int":
                    return ("wrapping", inner[1])
        return super().conv_type(ty, what, impl)

    def lean_type(self, t, what):
        if t[0] == "vrec":
            return VALREC[t[1]][0]
        if t[0] == "xenum":
            return XENUMS[t[1]]
        if t[0] == "opaque":
            return OPAQUE[t[1]]
        if t[0] == "wrapping":
            return "Nat"
        if t[0] == "table":
            return f"List {VALREC[TABLES[t[1]]['elem']][0]}"
        if t[0] == "int_s":
            return "Int"
        return super().lean_type(t, what)

    def show(self, t):
        t = self.res(t)
        if t[0] in ("vrec", "xenum", "opaque"):
            return t[1]
        if t[0] == "table":
            return f"table {t[1]}"
        return super().show(t)

    def unify(self, a, b, what):
        a2, b2 = self.res(a), self.res(b)
        if a2 == b2:
            return a2
        # nested newtypes over the same integer (RawVolume(Handle(u32)))
        if a2[0] == "nt" and b2[0] == "nt" and {a2[1], b2[1]} <= {"Handle", "RawVolume", "RawFile", "RawDirectory"} \
                and "Handle" in (a2[1], b2[1]):
            return a2 if a2[1] != "Handle" else b2
        return super().unify(a, b, what)

    # ------------------------------------------------------------------ the state root
    def is_root(self, e, env, ctx):
        if e == ("path", ["self"]) and ctx.impl == "VolumeManagerData":
            return True
        return e[0] == "path" and len(e[1]) == 1 and e[1][0] in env and env[e[1][0]][0] == "stateref"

    def table_of(self, e, env, ctx):
        """`ROOT.open_files` -> table name"""
        while e[0] in ("ref", "deref"):
            e = e[1]
        if e[0] == "field" and e[2] in TABLES and self.is_root(e[1], env, ctx):
            return e[2]
        return None

    def elem_of(self, e, env, ctx):
        """`ROOT.table[idx]` -> (table name, idx ast)"""
        while e[0] in ("ref", "deref"):
            e = e[1]
        if e[0] == "index" and e[2][0] != "range":
            t = self.table_of(e[1], env, ctx)
            if t is not None:
                return t, e[2]
        return None

    def state_var(self, ctx):
        return "s"

    # ------------------------------------------------------------------ pure expressions over the state
    def vrec_field(self, v, name, ctx):
        t = self.res(v.ty)
        lean_ty, fmap = VALREC[t[1]]
        if name not in fmap:
            raise ShapeError(f"{ctx.what}: field `{name}` of {t[1]} has no place in the model")
        spec = fmap[name]
        fty = None
        for fname, ftoks, isref in self.struct_fields(t[1], ctx.what):
            if fname == name:
                fty = self.conv_type(ftoks, ctx.what, t[1])
        base = v.lean if simple(v.lean) else f"({v.lean})"
        if isinstance(spec, tuple):
            if spec[0] == "pair":
                return V(f"({base}.{spec[1][0]}, {base}.{spec[1][1]})", fty)
            raise ShapeError(f"{ctx.what}: `{name}` of {t[1]} is only usable in `match .. {{ VolumeType::Fat(fat) => .. }}`")
        return V(f"{base}.{spec}", fty)

    def struct_fields(self, name, what):
        kind, fields = self.items.structs[name]
        out = []
        for fname, ftoks in fields:
            fty = parse_type(ftoks, f"{what}: struct {name}", self.items)
            out.append((fname, fty, False if name in VALREC else fty[0] == "tref"))
        return out

    def tr_field(self, e, env, ctx):
        _, base, name = e
        if self.is_root(base, env, ctx):
            if name in TABLES:
                return V(f"s.{TABLES[name]['lean']}", ("table", name))
            raise ShapeError(f"{ctx.what}: `{name}` of the manager's data is only usable through its methods")
        if base == ("field", ("path", ["self"]), "time_source"):
            raise ShapeError(f"{ctx.what}: the time source is only usable as `.get_timestamp()`")
        # `x.current_cluster.0` of a record
        if base[0] == "field" and name in ("0", "1"):
            try:
                inner = self.tr(base[1], env, ctx)
            except ShapeError:
                inner = None
            if inner is not None and self.res(inner.ty)[0] == "vrec":
                lean_ty, fmap = VALREC[self.res(inner.ty)[1]]
                spec = fmap.get(base[2])
                if isinstance(spec, tuple) and spec[0] == "pair":
                    pv = self.vrec_field(inner, base[2], ctx)
                    b = inner.lean if simple(inner.lean) else f"({inner.lean})"
                    return V(f"{b}.{spec[1][int(name)]}", self.res(pv.ty)[1][int(name)])
        if base[0] != "path" or not (len(base[1]) == 1 and base[1][0] == "self" and getattr(ctx, "record", None)):
            try:
                v = self.tr(base, env, ctx)
            except ShapeError:
                v = None
            if v is not None and self.res(v.ty)[0] == "vrec":
                return self.vrec_field(v, name, ctx)
            if v is not None and self.res(v.ty)[0] == "wrapping" and name == "0":
                return V(v.lean, ("int", self.res(v.ty)[1]))
        return super().tr_field(e, env, ctx)

    def tr_path(self, e, env, ctx):
        segs = e[1]
        if len(segs) == 2 and segs[0] in XENUMS:
            variants = [v for v, _p in self.items.enums[segs[0]]]
            if segs[1] not in variants:
                raise ShapeError(f"{ctx.what}: unknown variant {segs[0]}::{segs[1]}")
            return V(f"{XENUMS[segs[0]]}.{segs[1]}", ("xenum", segs[0]))
        if len(segs) == 1 and segs[0] in env and env[segs[0]][0] == "stateref":
            raise ShapeError(f"{ctx.what}: the borrowed manager data is used as a whole (outside the subset)")
        return super().tr_path(e, env, ctx)

    def tr_index(self, e, env, ctx):
        el = self.elem_of(e, env, ctx)
        if el is not None:
            raise ShapeError(f"{ctx.what}: internal: table element read that was not bound beforehand")
        return super().tr_index(e, env, ctx)

    def tr_struct(self, e, env, ctx):
        _, sname, fields = e
        if sname == "Self":
            sname = ctx.impl
        if sname == "ShortFileName" and len(fields) == 1 and fields[0][0] == "contents":
            v = self.tr(fields[0][1], env, ctx)
            self.unify(v.ty, ("bytes", 11), ctx.what)
            return v
        if sname in VALREC:
            lean_ty, fmap = VALREC[sname]
            given = dict(fields)
            parts = []
            for fname, fty, _r in self.struct_fields(sname, ctx.what):
                if fname not in given:
                    raise ShapeError(f"{ctx.what}: struct literal {sname} lacks field {fname}")
                spec = fmap.get(fname)
                if spec is None:
                    raise ShapeError(f"{ctx.what}: field {fname} of {sname} has no place in the model")
                ty = self.conv_type(fty, ctx.what, sname)
                val = given[fname]
                if isinstance(spec, tuple) and spec[0] == "pair":
                    if val[0] == "tuple" and len(val[1]) == 2:
                        for sub, lf, st in zip(val[1], spec[1], ty[1]):
                            v = self.tr(sub, env, ctx)
                            self.unify(v.ty, st, ctx.what)
                            parts.append(f"{lf} := {self.value(v, ctx)}")
                    else:
                        v = self.tr(val, env, ctx)
                        self.unify(v.ty, ty, ctx.what)
                        b = self.arg(v, ctx)
                        parts.append(f"{spec[1][0]} := {b}.1")
                        parts.append(f"{spec[1][1]} := {b}.2")
                elif isinstance(spec, tuple):
                    v = self.fatvol_value(val, env, ctx)
                    parts.append(f"{spec[1]} := {v}")
                else:
                    v = self.tr(val, env, ctx)
                    self.unify(v.ty, ty, ctx.what)
                    parts.append(f"{spec} := {self.value(v, ctx)}")
            return V("{ " + ", ".join(parts) + " : " + lean_ty + " }", ("vrec", sname))
        return super().tr_struct(e, env, ctx)

    def fatvol_value(self, val, env, ctx):
        if val[0] == "path" and len(val[1]) == 1 and val[1][0] in env and env[val[1][0]][0] == "val" and \
                env[val[1][0]][2] == ("fatvolume",):
            return env[val[1][0]][1]
        raise ShapeError(f"{ctx.what}: a `volume_type` value that is not the result of `fat::parse_volume`")

    def tr_mcall(self, e, env, ctx):
        _, recv, name, args = e
        # tables
        t = self.table_of(recv, env, ctx)
        if t is not None:
            tb = TABLES[t]
            if name == "is_full" and not args:
                return V(f"(s.{tb['lean']}.length ≥ s.{tb['cap']})", ("bool",), None, None, True)
            if name == "is_empty" and not args:
                return V(f"s.{tb['lean']}.isEmpty", ("bool",))
            if name == "len" and not args:
                return V(f"s.{tb['lean']}.length", ("usize",))
            raise ShapeError(f"{ctx.what}: `.{name}` on a table is outside the subset here")
        # pure functions of a FAT volume whose record has been read
        if recv[0] == "path" and len(recv[1]) == 1 and recv[1][0] in env and env[recv[1][0]][0] == "fatvol" and \
                name in FAT_CALLS and FAT_CALLS[name][2]:
            rec = env[recv[1][0]][2]
            if rec is None:
                raise ShapeError(f"{ctx.what}: internal: the volume record of `{recv[1][0]}` was not read beforehand")
            vs = [self.tr(a, env, ctx) for a in args]
            return V(f"({FAT_CALLS[name][0]} {rec}.vol" + "".join(" " + self.arg(v, ctx) for v in vs) + ")", FAT_RET[name])
        # the time source
        if recv == ("field", ("path", ["self"]), "time_source") and name == "get_timestamp" and not args:
            return V("s.clock", ("opaque", "Timestamp"))
        # pure methods of the manager's data (file_is_open)
        if self.is_root(recv, env, ctx):
            key = ("VolumeManagerData", name)
            if key in self.items.fns and not self.is_monadic(key):
                info = self.translate_m(key)
                vs = [self.tr(a, env, ctx) for a in args]
                for v, (pn, pt) in zip(vs, info.params[1:]):
                    self.unify(v.ty, pt, ctx.what)
                return V(f"({info.name} s" + "".join(" " + self.arg(v, ctx) for v in vs) + ")", info.ret)
        # methods of value records / newtypes defined in the crate
        if not self.is_effectful(recv, env, ctx):
            try:
                rv = self.tr(recv, env, ctx)
            except ShapeError:
                rv = None
            if rv is not None:
                rt = self.res(rv.ty)
                if rt[0] == "vrec" and (rt[1], name) in self.items.fns:
                    info = self.translate_vmethod((rt[1], name))
                    if info.mutates:
                        raise ShapeError(f"{ctx.what}: `{name}` changes its receiver; it is used as a pure call")
                    vs = [self.tr(a, env, ctx) for a in args]
                    for v, (pn, pt) in zip(vs, info.params[1:]):
                        self.unify(v.ty, pt, ctx.what)
                    return V(f"({info.name} {self.arg(rv, ctx)}" + "".join(" " + self.arg(v, ctx) for v in vs) + ")",
                             info.ret)
                if rt[0] in ("int", "usize") and name == "min" and len(args) == 1:
                    b = self.tr(args[0], env, ctx)
                    self.unify(rv.ty, b.ty, ctx.what)
                    return V(f"(min {self.arg(rv, ctx)} {self.arg(b, ctx)})", rv.ty)
        return super().tr_mcall(e, env, ctx)

    def tr_call(self, e, env, ctx):
        _, f, args = e
        if f[0] == "path" and f[1][-2:] == ["cmp", "min"] and len(args) == 2:
            a, b = self.tr(args[0], env, ctx), self.tr(args[1], env, ctx)
            self.unify(a.ty, b.ty, ctx.what)
            return V(f"(min {self.arg(a, ctx)} {self.arg(b, ctx)})", a.ty)
        if f[0] == "path" and f[1] == ["Wrapping"] and len(args) == 1:
            v = self.tr(args[0], env, ctx)
            t = self.res(v.ty)
            if t[0] != "int":
                raise ShapeError(f"{ctx.what}: Wrapping of {self.show(t)}")
            return V(v.lean, ("wrapping", t[1]), v.ok, v.const)
        return super().tr_call(e, env, ctx)

    def is_monadic(self, key):
        decl = self.items.fns[key]
        if decl.impl == "VolumeManager":
            return True
        if decl.impl == "HandleGenerator":
            return decl.name == "generate"
        if decl.impl == "VolumeManagerData":
            return decl.name not in ("file_is_open",)
        return super().is_monadic(key)


class MgrStmts:
    cache_blk = "(cacheOp cacheBlk)"

    # ------------------------------------------------------------------ wrapping integers
    def tr_bin(self, e, env, ctx):
        _, op, ea, eb = e
        if op in ("+", "-", "*"):
            try:
                a = self.tr(ea, env, ctx)
            except ShapeError:
                a = None
            if a is not None and self.res(a.ty)[0] == "wrapping":
                b = self.tr(eb, env, ctx)
                w = self.res(a.ty)[1]
                if self.res(b.ty)[0] == "var":
                    self.unify(b.ty, ("int", w), ctx.what)
                if op == "+":
                    return V(f"(({a.lean} + {b.lean}) % {2 ** w})", a.ty)
                if op == "*":
                    return V(f"(({a.lean} * {b.lean}) % {2 ** w})", a.ty)
                return V(f"(({a.lean} + {2 ** w} - {b.lean}) % {2 ** w})", a.ty)
        return super().tr_bin(e, env, ctx)

    # ------------------------------------------------------------------ element reads are bound first
    def collect_elem_reads(self, node, env, ctx, out, top=True):
        """table element reads `ROOT.t[i]` in the immediately evaluated part of a statement / expression"""
        if not isinstance(node, tuple) or not node:
            if isinstance(node, list):
                for x in node:
                    self.collect_elem_reads(x, env, ctx, out, False)
            return
        k = node[0]
        if k in ("block", "closure", "loop", "while", "for"):
            return
        if k == "if":
            self.collect_elem_reads(node[1], env, ctx, out, False)
            return
        if k == "iflet":
            self.collect_elem_reads(node[2], env, ctx, out, False)
            return
        if k == "match":
            sc = node[1]
            while sc[0] in ("ref", "deref"):
                sc = sc[1]
            if sc[0] == "field" and sc[2] == "volume_type":
                el = self.elem_of(sc[1], env, ctx)
                alias = sc[1]
                while alias[0] in ("ref", "deref"):
                    alias = alias[1]
                is_alias = alias[0] == "path" and len(alias[1]) == 1 and alias[1][0] in self.elem_origin
                if el is not None or is_alias:
                    if el is not None:
                        self.collect_elem_reads(el[1], env, ctx, out, False)
                        if self.pure_fat_body(node, env, ctx):
                            elem = sc[1]
                            while elem[0] in ("ref", "deref"):
                                elem = elem[1]
                            if elem not in out:
                                out.append(elem)
                    # a single arm `VolumeType::Fat(fat) => expr`: the expression is evaluated now
                    if len(node[2]) == 1 and node[2][0][2][0] != "block":
                        self.collect_elem_reads(node[2][0][2], env, ctx, out, False)
                    return
            self.collect_elem_reads(node[1], env, ctx, out, False)
            return
        if k == "let":
            self.collect_elem_reads(node[3], env, ctx, out, True)
            return
        if k == "assign":
            self.collect_elem_reads(node[3], env, ctx, out, False)
            lhs = node[2]
            root = self.elem_root(lhs, env, ctx)
            if root is not None:
                self.collect_elem_reads(root[1], env, ctx, out, False)
                if node[1] != "=":
                    out.append(root[2])
            else:
                self.collect_elem_reads(lhs, env, ctx, out, False)
            return
        if k == "mcall":
            root = self.elem_root(node[1], env, ctx)
            if root is not None and self.is_mut_vmethod(root, node[2], ctx):
                self.collect_elem_reads(root[1], env, ctx, out, False)
                for a in node[3]:
                    self.collect_elem_reads(a, env, ctx, out, False)
                return
        el = self.elem_of(node, env, ctx)
        if el is not None and node[0] == "index":
            self.collect_elem_reads(el[1], env, ctx, out, False)
            if node not in out:
                out.append(node)
            return
        if k == "mcall" and node[2] in ("is_err", "is_ok") and not node[3]:
            try:
                cls = self.mclass(node[1], env, ctx)
            except ShapeError:
                cls = ("pure", None)
            if cls[0] == "m":
                for a in node[1][3]:
                    self.collect_elem_reads(a, env, ctx, out, False)
                out.append(("attempt", node[1]))
                return
        if k == "mcall" and not top:
            try:
                cls = self.mclass(node, env, ctx)
            except ShapeError:
                cls = ("pure", None)
            if cls[0] == "mi" and not cls[3]:
                for a in node[3]:
                    self.collect_elem_reads(a, env, ctx, out, False)
                out.append(node)
                return
        if k in ("let",):
            return
        for x in node[1:]:
            if isinstance(x, (tuple, list)):
                self.collect_elem_reads(x, env, ctx, out, False)

    def elem_root(self, lhs, env, ctx):
        """`ROOT.t[i].a.b` -> (table, idx ast, element node, [a, b])"""
        path = []
        e = lhs
        while True:
            while e[0] in ("ref", "deref"):
                e = e[1]
            if e[0] == "field":
                path.append(e[2])
                e = e[1]
                continue
            break
        el = self.elem_of(e, env, ctx)
        if el is None:
            return None
        return (el[0], el[1], e, list(reversed(path)))

    def is_mut_vmethod(self, root, name, ctx):
        sname = TABLES[root[0]]["elem"]
        ty = ("vrec", sname)
        for f in root[3]:
            ty = self.field_type(ty, f, ctx)
        t = self.res(ty)
        if t[0] in ("vrec", "nt") and (t[1], name) in self.items.fns:
            decl = self.items.fns[(t[1], name)]
            sk, _ = parse_params(decl, self.items)
            return sk is not None and "mut" in sk
        return False

    def field_type(self, ty, f, ctx):
        t = self.res(ty)
        if t[0] == "vrec":
            for fname, ftoks, _r in self.struct_fields(t[1], ctx.what):
                if fname == f:
                    return self.conv_type(ftoks, ctx.what, t[1])
        if t[0] == "tuple" and f.isdigit():
            return t[1][int(f)]
        if t[0] == "nt" and f == "0":
            return t[2]
        raise ShapeError(f"{ctx.what}: no field `{f}` in {self.show(t)}")

    def subst_now(self, node, mapping, env, ctx):
        """replace the bound reads in the part of `node` that is evaluated immediately (same traversal as
        collect_elem_reads): branches, blocks, loop bodies and closures are left alone"""
        if not isinstance(node, tuple) or not node:
            if isinstance(node, list):
                return [self.subst_now(x, mapping, env, ctx) for x in node]
            return node
        k = node[0]
        if k in ("block", "closure", "loop", "while", "for"):
            return node
        if k == "if":
            return ("if", self.subst_now(node[1], mapping, env, ctx), node[2], node[3])
        if k == "iflet":
            return ("iflet", node[1], self.subst_now(node[2], mapping, env, ctx), node[3], node[4])
        if k == "match":
            fv_single = self.fatvol_scrut(node[1], env, ctx) is not None and len(node[2]) == 1 and \
                node[2][0][2][0] != "block"
            arms = node[2]
            if fv_single:
                p, g, b = arms[0]
                arms = [(p, g, self.subst_now(b, mapping, env, ctx))]
            return ("match", self.subst_now(node[1], mapping, env, ctx), arms)
        if k == "let":
            return ("let", node[1], node[2], self.subst_now(node[3], mapping, env, ctx))
        if k == "assign" and node[1] == "=" and self.elem_root(node[2], env, ctx) is not None:
            # the element on the left is a place, not a read: only its index is evaluated
            return ("assign", node[1], self.subst_place(node[2], mapping, env, ctx),
                    self.subst_now(node[3], mapping, env, ctx))
        if k == "mcall":
            root = self.elem_root(node[1], env, ctx)
            if root is not None and self.is_mut_vmethod(root, node[2], ctx):
                return ("mcall", self.subst_place(node[1], mapping, env, ctx), node[2],
                        [self.subst_now(a, mapping, env, ctx) for a in node[3]])
        for old, new in mapping:
            if node == old:
                return new
        return tuple(self.subst_now(x, mapping, env, ctx) if isinstance(x, (tuple, list)) else x for x in node)

    def subst_place(self, place, mapping, env, ctx):
        """`ROOT.t[i].a.b` as a place: the substitution reaches the index only"""
        if place[0] in ("ref", "deref"):
            return (place[0], self.subst_place(place[1], mapping, env, ctx)) + tuple(place[2:])
        if place[0] == "field":
            return ("field", self.subst_place(place[1], mapping, env, ctx), place[2])
        if place[0] == "index" and self.elem_of(place, env, ctx) is not None:
            return ("index", place[1], self.subst_now(place[2], mapping, env, ctx))
        return place

    def subst(self, node, mapping):
        if isinstance(node, tuple):
            for old, new in mapping:
                if node == old:
                    return new
            return tuple(self.subst(x, mapping) for x in node)
        if isinstance(node, list):
            return [self.subst(x, mapping) for x in node]
        return node

    def mrun(self, stmts, env, ctx, k):
        if not stmts:
            return k(env)
        s = stmts[0]
        # `while c { .. }` whose condition reads a table element: `loop { if !c { break } .. }`
        if s[0] == "while":
            reads = []
            self.collect_elem_reads(s[1], env, ctx, reads)
            if reads:
                body = s[2]
                s = ("loop", ("block", [("expr", ("if", ("un", "!", s[1]), ("block", [("expr", ("break", None))], None),
                                                  None))] + stmts_of(body), None))
                return self.mrun([s] + stmts[1:], env, ctx, k)
        reads = []
        if s[0] in ("let", "expr"):
            self.collect_elem_reads(s if s[0] == "let" else s[1], env, ctx, reads, True)
        if not reads:
            return super().mrun(stmts, env, ctx, k)
        env2 = dict(env)
        mapping, pre = [], []
        for node in reads:
            if node[0] == "attempt":
                call = node[1]
                cls = self.mclass(self.subst(call, mapping), env2, ctx)
                tmp = self.tmp()
                env2[tmp] = ("res", tmp, cls[2])
                mapping.append((call, ("path", [tmp])))
                pre.append((tmp, f"(M.attempt {cls[1]})", True))
                continue
            if self.elem_of(node, env, ctx) is None:
                cls = self.mclass(self.subst(node, mapping), env2, ctx)
                tmp = self.tmp()
                env2[tmp] = ("val", tmp, cls[2])
                mapping.append((node, ("path", [tmp])))
                pre.append((tmp, cls[1]))
                continue
            t, idx = self.elem_of(node, env, ctx)
            # the index may itself contain (already bound) element reads
            iv = self.tr(self.subst(idx, mapping), env2, ctx)
            self.unify(iv.ty, ("usize",), ctx.what)
            tmp = self.tmp()
            env2[tmp] = ("val", tmp, ("vrec", TABLES[t]["elem"]))
            self.elem_origin[tmp] = (t, self.arg(iv, ctx))
            mapping.append((node, ("path", [tmp])))
            pre.append((tmp, f"({TABLES[t]['get']} {self.arg(iv, ctx)})"))
        s2 = self.subst_now(s, mapping, env, ctx)
        text = super().mrun([s2] + stmts[1:], env2, ctx, lambda env3: k({n: b for n, b in env3.items()
                                                                        if n not in [p[0] for p in pre]}))
        for ent in reversed(pre):
            tmp, get = ent[0], ent[1]
            if len(ent) == 3:
                # `call.is_err()`: only an `Err` is looked at, a panic of the call is a panic here
                pm = self.tmp()
                text = (f"(match {tmp} with | Res.panic {pm} => M.panic {pm} | Res.diverged => M.diverge "
                        f"| _ => {text})")
            text = self.bind(get, tmp, text)
        return text

    def mreturn(self, e, env, ctx):
        if e is not None and e[0] not in ("if", "iflet", "match", "block"):
            reads = []
            self.collect_elem_reads(e, env, ctx, reads)
            if reads:
                return self.mrun([("expr", ("return", e))], env, ctx, lambda _e: self._unreachable(ctx))
        return super().mreturn(e, env, ctx)

    # ------------------------------------------------------------------ lets
    def st_mlet(self, s, env, ctx, cont):
        _, pat, ty, init = s
        # the RefCell borrow
        b = self.borrow_kind(init)
        if b is not None:
            if pat[0] != "pbind":
                raise ShapeError(f"{ctx.what}: the borrow must be bound to a name")
            env2 = dict(env)
            env2[pat[1]] = ("stateref",)
            rest = cont(env2)
            if b == "panic":
                return self.bind("M.get", "s", f'(if s.locked = true then M.panic "already mutably borrowed" else {rest})')
            return self.bind("M.get", "s", f"(if s.locked = true then M.fail Err.LockError else {rest})")
        if init is not None and init[0] == "mcall" and init[2] == "deref_mut" and init[1][0] == "path" and \
                len(init[1][1]) == 1 and init[1][1][0] in env and env[init[1][1][0]][0] == "stateref":
            env2 = dict(env)
            env2[pat[1]] = ("stateref",)
            return cont(env2)
        # `let (a, b, c) = e;`
        if pat[0] == "ptuple" and not pat[1]:
            tmp = self.tmp()
            seq = [("let", ("pbind", tmp), ty, init)]
            for i, p in enumerate(pat[2]):
                if p[0] == "pwild":
                    continue
                if p[0] != "pbind":
                    raise ShapeError(f"{ctx.what}: nested destructuring is outside the subset")
                seq.append(("let", p, None, ("field", ("path", [tmp]), str(i))))
            return self.mrun(seq, env, ctx, lambda env2: cont({n: b2 for n, b2 in env2.items() if n != tmp}))
        # aliases of table elements keep their origin
        if init is not None and pat[0] == "pbind":
            src = init
            while src[0] in ("ref", "deref"):
                src = src[1]
            if src[0] == "path" and len(src[1]) == 1 and src[1][0] in self.elem_origin and src[1][0] in env:
                self.elem_origin[pat[1]] = self.elem_origin[src[1][0]]
        return super().st_mlet(s, env, ctx, cont)

    def check_local(self, n, ctx):
        if n.startswith("_t") and n[2:].isdigit():
            return
        return super().check_local(n, ctx)

    def borrow_kind(self, init):
        """`self.data.try_borrow_mut().map_err(|_| Error::LockError)?` -> 'fail'; `self.data.borrow()` -> 'panic'"""
        if init is None:
            return None
        e = init
        if e[0] == "try":
            e = e[1]
            if e[0] == "mcall" and e[2] == "map_err" and len(e[3]) == 1 and e[3][0][0] == "closure" and \
                    e[3][0][2] == ("path", ["Error", "LockError"]):
                e = e[1]
                if e[0] == "mcall" and e[2] in ("try_borrow_mut", "try_borrow") and \
                        e[1] == ("field", ("path", ["self"]), "data"):
                    return "fail"
            return None
        if e[0] == "mcall" and e[2] in ("borrow", "borrow_mut") and e[1] == ("field", ("path", ["self"]), "data"):
            return "panic"
        return None

    # ------------------------------------------------------------------ calls with effects
    def const_err(self, closure, env, ctx):
        """`|_| Error::X` -> Lean Err"""
        if closure[0] == "closure" and closure[1] == ["_"]:
            return self.err_of(closure[2], env, ctx)
        raise ShapeError(f"{ctx.what}: this map_err closure is outside the subset")

    def fat_idx(self, recv, env):
        if recv[0] == "path" and len(recv[1]) == 1 and recv[1][0] in env and env[recv[1][0]][0] == "fatvol":
            return env[recv[1][0]][1]
        return None

    def is_cache_arg(self, a, env, ctx):
        while a[0] == "ref":
            a = a[1]
        return a[0] == "field" and a[2] == "block_cache" and self.is_root(a[1], env, ctx)

    def mclass(self, e, env, ctx):
        if e[0] == "match" and len(e[2]) == 1:
            fv = self.fatvol_scrut(e[1], env, ctx)
            pat, guard, body = e[2][0]
            if fv is not None and guard is None and body[0] != "block":
                if self.pure_fat_body(e, env, ctx):
                    return ("pure", None)
                env2 = self.bind_fat(pat, fv, env, ctx)
                return self.mclass(body, env2, ctx)
        if e[0] != "mcall":
            if e[0] == "call" and e[1][0] == "path" and e[1][1][-1] == "parse_volume" and len(e[2]) == 3 and \
                    self.is_cache_arg(e[2][0], env, ctx):
                a, b = self.tr(e[2][1], env, ctx), self.tr(e[2][2], env, ctx)
                return ("m", f"(parseVolume {self.arg(a, ctx)} {self.arg(b, ctx)})", ("fatvolume",), False)
            return super().mclass(e, env, ctx)
        _, recv, name, args = e
        # the block cache of the manager
        if recv[0] == "field" and recv[2] == "block_cache" and self.is_root(recv[1], env, ctx) and \
                name in translate_m.CACHE_CALLS:
            prim, arity, blockref, fallible = translate_m.CACHE_CALLS[name]
            vs = [self.tr(a, env, ctx) for a in args]
            lean = prim + "".join(" " + self.arg(v, ctx) for v in vs)
            return ("m" if fallible else "mi", f"(cacheOp ({lean}))" if vs else f"(cacheOp {lean})", ("unit",), blockref)
        # handle generator
        if recv[0] == "field" and recv[2] == "id_generator" and self.is_root(recv[1], env, ctx) and name == "generate":
            info = self.translate_m(("HandleGenerator", "generate"))
            return ("mi", info.name, info.ret, False)
        # FAT functions on a volume of the table
        fi = self.fat_idx(recv, env)
        if fi is not None:
            if name not in FAT_CALLS:
                raise ShapeError(f"{ctx.what}: FatVolume::{name} has no binding at the manager level")
            fn, spec, pure = FAT_CALLS[name]
            rest = list(args)
            if not pure:
                if not rest or not self.is_cache_arg(rest[0], env, ctx):
                    raise ShapeError(f"{ctx.what}: {name} must be given the manager's block cache")
                rest = rest[1:]
            if len(rest) != len(spec):
                raise ShapeError(f"{ctx.what}: {name}: wrong number of arguments")
            actual = []
            for a, how in zip(rest, spec):
                if how == "clock":
                    if a not in (("ref", ("field", ("path", ["self"]), "time_source")),):
                        raise ShapeError(f"{ctx.what}: {name}: the time source argument must be `&self.time_source`")
                    continue
                v = self.tr(a, env, ctx)
                if how == "dir.cluster":
                    if self.res(v.ty) != ("vrec", "DirectoryInfo"):
                        raise ShapeError(f"{ctx.what}: {name}: a DirectoryInfo is expected")
                    actual.append(f"{self.arg(v, ctx)}.cluster")
                elif how == "val.0":
                    actual.append(self.arg(v, ctx))
                else:
                    actual.append(self.arg(v, ctx))
            if "clock" in spec:
                actual.append("s.clock")
            if pure:
                raise ShapeError(f"{ctx.what}: internal: pure FAT call classified as effectful")
            call = fn + "".join(" " + a for a in actual)
            return ("m", f"(withVol {fi} ({call}))" if actual else f"(withVol {fi} {call})", FAT_RET[name], False)
        # name conversion
        if name == "to_short_filename" and not args:
            v = self.tr(recv, env, ctx)
            if self.res(v.ty) != ("namearg",):
                raise ShapeError(f"{ctx.what}: to_short_filename on {self.show(v.ty)}")
            return ("m", f"(toSfn {v.lean})", ("bytes", 11), False)
        if name == "map_err" and len(args) == 1:
            inner = self.mclass(recv, env, ctx)
            if inner[0] == "m" and recv[0] == "mcall" and recv[2] == "to_short_filename":
                if args[0] != ("path", ["Error", "FilenameError"]):
                    raise ShapeError(f"{ctx.what}: to_short_filename must be followed by .map_err(Error::FilenameError)")
                return inner
            if inner[0] == "push":
                e_ = self.const_err(args[0], env, ctx)
                t, val = inner[1], inner[2]
                tb = TABLES[t]
                return ("m", f"(M.get >>= fun s => if s.{tb['lean']}.length ≥ s.{tb['cap']} then M.fail {e_} else "
                             f"M.modify fun s => {{ s with {tb['lean']} := s.{tb['lean']} ++ [{val}] }})", ("unit",), False)
            if inner[0] == "mv":
                e_ = self.const_err(args[0], env, ctx)
                return ("m", inner[1](f"M.fail {e_}"), inner[2], False)
            if inner[0] == "mo":
                e_ = self.const_err(args[0], env, ctx)
                return ("mo", inner[1], inner[2], False, inner[4], e_)
        if name in ("unwrap", "ok") and not args:
            inner = self.mclass(recv, env, ctx)
            if inner[0] == "push" and name == "unwrap":
                t, val = inner[1], inner[2]
                tb = TABLES[t]
                return ("mi", f"(M.get >>= fun s => if s.{tb['lean']}.length ≥ s.{tb['cap']} then "
                              f"M.panic \"called `Result::unwrap()` on an `Err` value\" else "
                              f"M.modify fun s => {{ s with {tb['lean']} := s.{tb['lean']} ++ [{val}] }})", ("unit",), False)
            if inner[0] == "mv":
                if name == "unwrap":
                    return ("mi", inner[1]('M.panic "called `Result::unwrap()` on an `Err` value"'), inner[2], False)
                return ("mi", inner[1]("pure ()"), ("unit",), False)
        # tables
        t = self.table_of(recv, env, ctx)
        if t is not None:
            tb = TABLES[t]
            if name == "push" and len(args) == 1:
                v = self.tr(args[0], env, ctx)
                self.unify(v.ty, ("vrec", tb["elem"]), ctx.what)
                return ("push", t, self.value(v, ctx))
            if name == "push_unchecked" and len(args) == 1:
                v = self.tr(args[0], env, ctx)
                self.unify(v.ty, ("vrec", tb["elem"]), ctx.what)
                return ("mi", f"(M.modify fun s => {{ s with {tb['lean']} := s.{tb['lean']} ++ [{self.value(v, ctx)}] }})",
                        ("unit",), False)
            if name == "swap_remove" and len(args) == 1:
                v = self.tr(args[0], env, ctx)
                return ("mi", f"(M.modify fun s => {{ s with {tb['lean']} := swapRemove s.{tb['lean']} {self.arg(v, ctx)} }})",
                        ("unit",), False)
        # methods of the manager / its data
        key = None
        if self.is_root(recv, env, ctx):
            key = ("VolumeManagerData", name)
        elif recv == ("path", ["self"]) and ctx.impl == "VolumeManager":
            key = ("VolumeManager", name)
        if key is not None and key in self.items.fns and self.is_monadic(key):
            info = self.translate_m(key)
            outnames = [n for n, _t in info.outparams]
            back = []
            args2 = []
            for pn, a in zip(info.param_names, args):
                if pn in outnames:
                    inner = a
                    if not (inner[0] == "ref" and len(inner) == 3 and inner[1][0] == "path" and len(inner[1][1]) == 1 and
                            inner[1][1][0] in env and env[inner[1][1][0]][0] == "val"):
                        raise ShapeError(f"{ctx.what}: `&mut` argument of {name} must be a local variable")
                    back.append(inner[1][1][0])
                    args2.append(inner[1])
                else:
                    args2.append(a)
            vs = [self.tr(a, env, ctx) for a in args2]
            it = iter(info.params[1:] if info.fuel else info.params)
            actual = []
            for v in vs:
                lp, lt = next(it)
                self.unify(v.ty, lt, ctx.what)
                actual.append(self.arg(v, ctx))
            if info.fuel:
                ctx.info.fuel = True
                actual = ["fuel"] + actual
            lean = info.name + "".join(" " + a for a in actual)
            if back:
                return ("mo", f"({lean})", info.ret, False, back, None)
            return ("m" if info.fallible else "mi", f"({lean})" if actual else lean, info.ret, False)
        # `&mut self` methods of a table element: read - call - write back
        root = self.elem_root(recv, env, ctx)
        if root is not None and self.is_mut_vmethod(root, name, ctx):
            return self.elem_method(root, name, args, env, ctx)
        return super().mclass(e, env, ctx)

    def nested_update(self, var, path, val, ctx, sname):
        """Lean text of `var` with the field path replaced by `val`"""
        if not path:
            return val
        lean_ty, fmap = VALREC[sname]
        f = path[0]
        spec = fmap.get(f)
        if spec is None:
            raise ShapeError(f"{ctx.what}: field `{f}` of {sname} has no place in the model")
        if isinstance(spec, tuple):
            if spec[0] != "pair":
                raise ShapeError(f"{ctx.what}: assignment to `{f}` is outside the subset")
            if len(path) == 1:
                return f"{{ {var} with {spec[1][0]} := ({val}).1, {spec[1][1]} := ({val}).2 }}"
            if len(path) == 2 and path[1] in ("0", "1"):
                return f"{{ {var} with {spec[1][int(path[1])]} := {val} }}"
            raise ShapeError(f"{ctx.what}: assignment below `{f}` is outside the subset")
        fty = self.field_type(("vrec", sname), f, ctx)
        if len(path) == 1:
            return f"{{ {var} with {spec} := {val} }}"
        ft = self.res(fty)
        if ft[0] == "vrec":
            inner = self.nested_update(f"{var}.{spec}", path[1:], val, ctx, ft[1])
            return f"{{ {var} with {spec} := {inner} }}"
        if ft[0] == "nt" and path[1:] == ["0"]:
            return f"{{ {var} with {spec} := {val} }}"
        raise ShapeError(f"{ctx.what}: assignment below `{f}` is outside the subset")

    def elem_method(self, root, name, args, env, ctx):
        """`ROOT.t[i].path.m(args)` with `m(&mut self, ..)`: ('mv', fn(on_err text) -> text, ok type)"""
        t, idx, _node, path = root
        tb = TABLES[t]
        if "modify" not in tb:
            raise ShapeError(f"{ctx.what}: elements of {t} are not changed in place in the subset")
        iv = self.tr(idx, env, ctx)
        ty = ("vrec", tb["elem"])
        for f in path:
            ty = self.field_type(ty, f, ctx)
        rt = self.res(ty)
        info = self.translate_vmethod((rt[1], name))
        vs = [self.tr(a, env, ctx) for a in args]
        for v, (pn, pt) in zip(vs, info.params[1:]):
            self.unify(v.ty, pt, ctx.what)
        el = self.tmp()
        recv = el
        lean_ty, fmap = VALREC[tb["elem"]]
        cur = tb["elem"]
        for f in path:
            recv = f"{recv}.{VALREC[cur][1][f]}"
            cur = self.res(self.field_type(("vrec", cur), f, ctx))[1]
        call = f"({info.name} {recv}" + "".join(" " + self.arg(v, ctx) for v in vs) + ")"
        r = self.tmp()
        new_el = self.nested_update(el, path, f"{r}.2", ctx, tb["elem"]) if path else f"{r}.2"
        store = f"({tb['set']} {self.arg(iv, ctx)} {new_el if simple(new_el) else '(' + new_el + ')'})"
        ret = self.res(info.ret)   # ('tuple', [result, self type])
        resty = self.res(ret[1][0])
        get = f"({tb['get']} {self.arg(iv, ctx)})"
        if resty[0] == "result":
            def mk(on_err):
                return (f"({get} >>= fun {el} => let {r} := {call}; ({store} >>= fun _ => match {r}.1 with "
                        f"| Except.ok _x => pure _x | Except.error _ => {on_err}))")
            return ("mv", mk, resty[1])
        text = f"({get} >>= fun {el} => let {r} := {call}; ({store} >>= fun _ => pure {r}.1))"
        return ("mi", text, resty, False)

    # ------------------------------------------------------------------ assignments into table elements
    def st_massign(self, e, env, ctx, cont):
        _, op, lhs, rhs = e
        root = self.elem_root(lhs, env, ctx)
        if root is not None:
            t, idx, node, path = root
            tb = TABLES[t]
            if "modify" not in tb:
                raise ShapeError(f"{ctx.what}: elements of {t} are not assigned in the subset")
            if not path:
                raise ShapeError(f"{ctx.what}: assignment of a whole table element is outside the subset")
            iv = self.tr(idx, env, ctx)
            if op != "=":
                raise ShapeError(f"{ctx.what}: `{op}` on a table element field is outside the subset")
            if self.is_effectful(rhs, env, ctx):
                tmp = self.tmp()
                seq = [("let", ("pbind", tmp), None, rhs), ("expr", ("assign", "=", lhs, ("path", [tmp])))]
                return self.mrun(seq, env, ctx, lambda env2: cont({n: b for n, b in env2.items() if n != tmp}))
            v = self.tr(rhs, env, ctx)
            ty = ("vrec", tb["elem"])
            for f in path:
                ty = self.field_type(ty, f, ctx)
            self.unify(v.ty, ty, ctx.what)
            el = self.tmp()
            upd = self.nested_update(el, path, self.value(v, ctx), ctx, tb["elem"])
            return self.bind(f"({tb['modify']} {self.arg(iv, ctx)} fun {el} => {upd})", "_", cont(env))
        return super().st_massign(e, env, ctx, cont)

    def is_effectful(self, node, env, ctx):
        if super().is_effectful(node, env, ctx):
            return True
        found = [False]

        def walk(n):
            if found[0]:
                return
            if isinstance(n, tuple) and n:
                if n[0] == "mcall":
                    r = n[1]
                    if (r[0] == "field" and r[2] in ("block_cache", "id_generator")) or n[2] in (
                            "to_short_filename", "push", "push_unchecked", "swap_remove", "try_borrow_mut",
                            "try_borrow", "borrow", "borrow_mut"):
                        found[0] = True
                        return
                    if self.fat_idx(r, env) is not None and not FAT_CALLS.get(n[2], ("", [], False))[2]:
                        found[0] = True
                        return
                    if (self.is_root(r, env, ctx) and ("VolumeManagerData", n[2]) in self.items.fns and
                            self.is_monadic(("VolumeManagerData", n[2]))) or \
                            (r == ("path", ["self"]) and ctx.impl == "VolumeManager"):
                        found[0] = True
                        return
                    root = self.elem_root(r, env, ctx)
                    if root is not None and self.is_mut_vmethod(root, n[2], ctx):
                        found[0] = True
                        return
                if n[0] == "call" and n[1][0] == "path" and n[1][1][-1] == "parse_volume":
                    found[0] = True
                    return
                if n[0] == "assign" and self.elem_root(n[2], env, ctx) is not None:
                    found[0] = True
                    return
                if n[0] == "unsafe":
                    found[0] = True
                    return
                for x in n:
                    walk(x)
            elif isinstance(n, list):
                for x in n:
                    walk(x)
        walk(node)
        return found[0]

    def modifies_self(self, node, env, ctx):
        if ctx.record is None:
            return False
        found = [False]

        def walk(n):
            if found[0]:
                return
            if isinstance(n, tuple) and n:
                if n[0] == "assign" and (self.elem_root(n[2], env, ctx) is not None):
                    found[0] = True
                    return
                if n[0] == "mcall":
                    if n[2] in ("push", "push_unchecked", "swap_remove", "generate"):
                        found[0] = True
                        return
                    if n[2] in FAT_CALLS and not FAT_CALLS[n[2]][2] and any(self.is_cache_arg(a, env, ctx) for a in n[3]):
                        found[0] = True
                        return
                    if self.fat_idx(n[1], env) is not None or (n[1][0] == "field" and n[1][2] == "block_cache"):
                        found[0] = True
                        return
                    root = self.elem_root(n[1], env, ctx)
                    if root is not None and self.is_mut_vmethod(root, n[2], ctx):
                        found[0] = True
                        return
                    key = None
                    if self.is_root(n[1], env, ctx):
                        key = ("VolumeManagerData", n[2])
                    elif n[1] == ("path", ["self"]) and ctx.impl == "VolumeManager":
                        key = ("VolumeManager", n[2])
                    if key is not None and key in self.items.fns and self.is_monadic(key):
                        if key in self.m_in_progress or self.translate_m(key).modifies:
                            found[0] = True
                            return
                if n[0] == "call" and n[1][0] == "path" and n[1][1][-1] == "parse_volume":
                    found[0] = True
                    return
                for x in n:
                    walk(x)
            elif isinstance(n, list):
                for x in n:
                    walk(x)
        walk(node)
        return found[0] or super().modifies_self(node, env, ctx)

    # ------------------------------------------------------------------ `match .. { VolumeType::Fat(fat) => .. }`
    def fatvol_scrut(self, scrut, env, ctx):
        """`ROOT.open_volumes[i].volume_type` / `alias.volume_type` -> Lean text of the index"""
        r = self.fatvol_scrut2(scrut, env, ctx)
        return None if r is None else r[0]

    def fatvol_scrut2(self, scrut, env, ctx):
        """-> (index text, Lean name of the bound VolInfo or None)"""
        e = scrut
        while e[0] in ("ref", "deref"):
            e = e[1]
        if e[0] == "field" and e[2] == "volume_type":
            el = self.elem_of(e[1], env, ctx)
            if el is not None and el[0] == "open_volumes":
                iv = self.tr(el[1], env, ctx)
                return self.arg(iv, ctx), None
            b = e[1]
            while b[0] in ("ref", "deref"):
                b = b[1]
            if b[0] == "path" and len(b[1]) == 1 and b[1][0] in self.elem_origin and \
                    self.elem_origin[b[1][0]][0] == "open_volumes" and b[1][0] in env:
                return self.elem_origin[b[1][0]][1], env[b[1][0]][1]
        return None

    def bind_fat(self, pat, fv, env, ctx, rec=None):
        while pat[0] == "pref":
            pat = pat[1]
        if not (pat[0] == "ptuple" and pat[1][-1] == "Fat" and len(pat[2]) == 1):
            raise ShapeError(f"{ctx.what}: only `VolumeType::Fat(fat)` matches a volume type")
        p = pat[2][0]
        while p[0] == "pref":
            p = p[1]
        if p[0] not in ("pbind", "pbindref"):
            raise ShapeError(f"{ctx.what}: the FAT volume must be bound to a name")
        env2 = dict(env)
        env2[p[1]] = ("fatvol", fv, rec)
        return env2

    def match_on(self, scrut, arms, env, ctx, leaf):
        fv = self.fatvol_scrut(scrut, env, ctx)
        if fv is not None:
            if len(arms) != 1 or arms[0][1] is not None:
                raise ShapeError(f"{ctx.what}: a match on a volume type has the single arm `VolumeType::Fat(fat)`")
            env2 = self.bind_fat(arms[0][0], fv, env, ctx)
            return leaf(arms[0][2], env2)
        return super().match_on(scrut, arms, env, ctx, leaf)

    def tr_match(self, e, env, ctx, leaf=None):
        fv = self.fatvol_scrut2(e[1], env, ctx)
        if fv is not None and len(e[2]) == 1 and e[2][0][1] is None:
            env2 = self.bind_fat(e[2][0][0], fv[0], env, ctx, fv[1])
            return (leaf or self.tr)(e[2][0][2], env2, ctx)
        return super().tr_match(e, env, ctx, leaf)

    def pure_fat_body(self, node, env, ctx):
        """`match ROOT.open_volumes[i].volume_type { VolumeType::Fat(fat) => fat.pure_fn(..) }`?"""
        if node[0] != "match" or len(node[2]) != 1:
            return False
        body = node[2][0][2]
        return body[0] == "mcall" and body[2] in FAT_CALLS and FAT_CALLS[body[2]][2]


class MgrLoops:
    # ------------------------------------------------------------------ `for x in table.iter()` that only looks for an element
    def table_iter(self, it, env, ctx):
        """-> (table name, enumerate?) or None"""
        enum = False
        e = it
        if e[0] == "mcall" and e[2] == "enumerate" and not e[3]:
            enum = True
            e = e[1]
        if e[0] == "mcall" and e[2] in ("iter", "iter_mut") and not e[3]:
            t = self.table_of(e[1], env, ctx)
            if t is not None:
                return t, enum
        return None

    def loop_vars(self, pat, enum, ctx):
        while pat[0] == "pref":
            pat = pat[1]
        if enum:
            if not (pat[0] == "ptuple" and not pat[1] and len(pat[2]) == 2):
                raise ShapeError(f"{ctx.what}: `(idx, x)` pattern expected for enumerate()")
            a, b = pat[2]
        else:
            a, b = ("pwild",), pat
        names = []
        for p in (a, b):
            while p[0] == "pref":
                p = p[1]
            if p[0] == "pbind":
                self.check_local(p[1], ctx)
                names.append(p[1])
            elif p[0] == "pwild":
                names.append(None)
            else:
                raise ShapeError(f"{ctx.what}: loop pattern outside the subset")
        return names

    def search(self, stmts, env, ctx, on_return):
        """the body of a searching loop as an `Option`: `some (..)` where it returns, `none` where it falls through"""
        if not stmts:
            return "none"
        s, rest = stmts[0], stmts[1:]
        if s[0] == "expr" and s[1][0] == "macro" and s[1][1] in LOG_MACROS:
            return self.search(rest, env, ctx, on_return)
        if s[0] == "expr" and s[1][0] == "return":
            return f"(some {on_return([s], env)})"
        if s[0] == "let" and s[1][0] == "pbind" and s[3] is not None and not self.is_effectful(s[3], env, ctx):
            v = self.tr(s[3], env, ctx)
            env2 = dict(env)
            env2[s[1][1]] = ("val", lname(s[1][1]), v.ty)
            return f"(let {lname(s[1][1])} := {self.value(v, ctx)}; {self.search(rest, env2, ctx, on_return)})"
        if s[0] == "expr" and s[1][0] == "if":
            _, c, thn, els = s[1]
            cv = self.tr(c, env, ctx)
            p = self.as_prop(cv, ctx)

            def branch(b):
                st = stmts_of(b)
                if st and self.ends_in_return(st):
                    return f"(some {on_return(st, env)})"
                return self.search(st + rest, env, ctx, on_return)
            return f"(if {p} then {branch(thn)} else {branch(els)})"
        raise ShapeError(f"{ctx.what}: a loop over a table whose body does more than look for an element is outside "
                         f"the subset")

    def ends_in_return(self, st):
        last = st[-1]
        return last[0] == "expr" and last[1][0] == "return" and not any(
            has_node(x, ("break", "continue", "loop", "while", "for")) for x in st)

    def st_mfor(self, s, env, ctx, cont):
        _, pat, it, body = s
        ti = self.table_iter(it, env, ctx)
        if ti is None:
            return super().st_mfor(s, env, ctx, cont)
        t, enum = ti
        tb = TABLES[t]
        iname, xname = self.loop_vars(pat, enum, ctx)
        il = lname(iname) if iname else "_"
        xl = lname(xname) if xname else "_"
        env2 = dict(env)
        if iname:
            env2[iname] = ("val", il, ("usize",))
        if xname:
            env2[xname] = ("val", xl, ("vrec", tb["elem"]))

        def on_return(st, envb):
            return self.mrun(st, dict(envb), ctx, lambda _e: self._unreachable(ctx))
        body_txt = self.search(stmts_of(body), env2, ctx, on_return)
        r = self.tmp()
        return (f"(match forFirst s.{tb['lean']} 0 (fun {il} {xl} => {body_txt}) with | some {r} => {r} "
                f"| none => {cont(env)})")

    def _unreachable(self, ctx):
        raise ShapeError(f"{ctx.what}: control falls out of a branch that was expected to return")

    def local_mut_call(self, e, env, ctx):
        """`x.m(args)` / `x.m(args).ok()` with `x` a local record and `m(&mut self, ..)` -> (var, call text) or None"""
        if e[0] == "mcall" and e[2] == "ok" and not e[3]:
            e = e[1]
        if e[0] != "mcall":
            return None
        r = e[1]
        if not (r[0] == "path" and len(r[1]) == 1 and r[1][0] in env and env[r[1][0]][0] == "val"):
            return None
        t = self.res(env[r[1][0]][2])
        if t[0] != "vrec" or (t[1], e[2]) not in self.items.fns:
            return None
        decl = self.items.fns[(t[1], e[2])]
        sk, _ = parse_params(decl, self.items)
        if sk is None or "mut" not in sk:
            return None
        info = self.translate_vmethod((t[1], e[2]))
        vs = [self.tr(a, env, ctx) for a in e[3]]
        for v, (pn, pt) in zip(vs, info.params[1:]):
            self.unify(v.ty, pt, ctx.what)
        return r[1][0], f"({info.name} {env[r[1][0]][1]}" + "".join(" " + self.arg(v, ctx) for v in vs) + ")"

    # pure functions of the manager's data with such a loop (`file_is_open`)
    def run(self, stmts, env, ctx, k):
        if stmts and stmts[0][0] == "expr":
            lm = self.local_mut_call(stmts[0][1], env, ctx)
            if lm is not None:
                e0 = stmts[0][1]
                inner = e0[1] if (e0[2] == "ok" and not e0[3]) else e0
                decl = self.items.fns[(self.res(env[lm[0]][2])[1], inner[2])]
                returns_result = bool(decl.ret) and decl.ret[0].s == "Result"
                if returns_result and inner is e0:
                    raise ShapeError(f"{ctx.what}: the Result of `{inner[2]}` is dropped")
                var = env[lm[0]][1]
                return self.let_in([(var, f"{lm[1]}.2")], self.run(stmts[1:], env, ctx, k), None)
        if stmts and stmts[0][0] == "for":
            ti = self.table_iter(stmts[0][2], env, ctx)
            if ti is not None:
                _, pat, it, body = stmts[0]
                t, enum = ti
                tb = TABLES[t]
                iname, xname = self.loop_vars(pat, enum, ctx)
                il = lname(iname) if iname else "_"
                xl = lname(xname) if xname else "_"
                env2 = dict(env)
                if iname:
                    env2[iname] = ("val", il, ("usize",))
                if xname:
                    env2[xname] = ("val", xl, ("vrec", tb["elem"]))
                tys = []

                def on_return(st, envb):
                    v = super(MgrLoops, self).run(st, dict(envb), ctx, lambda _e: self._unreachable(ctx))
                    tys.append(v.ty)
                    return self.arg(v, ctx)
                body_txt = self.search(stmts_of(body), env2, ctx, on_return)
                restv = self.run(stmts[1:], env, ctx, k)
                for t2 in tys:
                    self.unify(t2, restv.ty, ctx.what)
                r = self.tmp()
                return V(f"match forFirst s.{tb['lean']} 0 (fun {il} {xl} => {body_txt}) with | some {r} => {r} "
                         f"| none => {self.value(restv, ctx)}", restv.ty)
        return super().run(stmts, env, ctx, k)


class MgrFns:
    # ------------------------------------------------------------------ pure methods of value records
    def translate_vmethod(self, key):
        """a method of a value record (`FileInfo::eof`, `FileInfo::seek_from_start`, `Attributes::set_archive`):
        `&self` -> a function of the record; `&mut self` -> a function to (result, new record)"""
        if key in self.vdone:
            return self.vdone[key]
        decl = self.items.fns[key]
        what = f"{decl.where}: fn {decl.impl}::{decl.name}"
        ctx = MgrCtx(what, decl.impl)
        self_kind, params = parse_params(decl, self.items)
        if self_kind is None:
            raise ShapeError(f"{what}: a method with `self` is expected")
        mut = "mut" in self_kind
        sty = self.conv_type(("ty", decl.impl, []), what)
        env, plist = {}, []
        if sty[0] == "vrec":
            env["self"] = ("val", "self_", sty)
            plist.append(("self_", sty))
        elif sty[0] == "nt":
            env["self"] = ("structlocal", decl.impl, {"0": ("self_0", sty[2])})
            plist.append(("self_0", sty))
        else:
            raise ShapeError(f"{what}: `self` of {self.show(sty)} is outside the subset")
        for pn, pty in params:
            self.check_local(pn, ctx)
            ty = self.conv_type(pty, f"{what}: parameter {pn}", decl.impl)
            env[pn] = ("val", lname(pn), ty)
            plist.append((lname(pn), ty))
        ctx.ret = self.conv_type(parse_type(decl.ret, what, self.items), what, decl.impl) if decl.ret else ("unit",)
        body = parse_fn_body(decl, self.items)
        info = FnInfo(decl.impl + "_" + decl.name)
        info.mutates = mut
        ctx.vself = sty

        def self_val(envb):
            if sty[0] == "vrec":
                return envb["self"][1]
            return envb["self"][2]["0"][0]
        if mut:
            ctx.ret_pair = self_val
        stmts = list(body[1]) + self.tail_returns(body[2])
        v = self.run(stmts, env, ctx, lambda _e: self._unreachable(ctx))
        info.params = plist
        info.ret = v.ty
        lean = self.value(v, ctx)
        if lean.startswith("(") and lean.endswith(")") and _balanced(lean[1:-1]):
            lean = lean[1:-1]
        info.body = self.resolve_placeholders(lean, what)
        info.okbody = None
        info.doc = (f"`{decl.impl}::{decl.name}` ({decl.where})" +
                    (", as a function to (result, new value of `self`)" if mut else ""))
        self.vdone[key] = info
        self.vorder.append(key)
        return info

    def tail_returns(self, e):
        if e is None:
            return [("expr", ("return", ("tuple", [])))]
        if e[0] == "if" and e[3] is not None:
            def blk(b):
                if b[0] == "block":
                    return ("block", list(b[1]) + self.tail_returns(b[2]), None)
                return ("block", self.tail_returns(b), None)
            return [("expr", ("if", e[1], blk(e[2]), blk(e[3])))]
        if e[0] == "block":
            return list(e[1]) + self.tail_returns(e[2])
        return [("expr", ("return", e))]


class MgrMisc:
    def cache_modify(self, fn):
        return f"(cacheOp (cacheModify {fn}))"

    def self_is_mut(self, decl, self_kind):
        if decl.impl in STATE_STRUCTS:
            return True
        return bool(self_kind) and "mut" in self_kind

    # signed integers (only what `FileInfo::seek_from_current` needs)
    def conv_type(self, ty, what, impl=None):
        t = ty
        while t[0] == "tref":
            t = t[1]
        if t[0] == "ty" and t[1] in ("i32", "i64"):
            return ("int_s", 32 if t[1] == "i32" else 64)
        if t[0] == "ty" and t[1] == "N" and not t[2]:
            return ("namearg",)
        return super().conv_type(ty, what, impl)

    def lean_type(self, t, what):
        if t[0] == "namearg":
            return "List Nat"
        if t[0] == "fatvolume":
            return "FatVolume"
        return super().lean_type(t, what)

    def tr_path(self, e, env, ctx):
        segs = e[1]
        if len(segs) == 1 and segs[0] in env and env[segs[0]][0] == "constdef":
            _, cty, cinit = env[segs[0]]
            v = self.tr(cinit, env, ctx)
            ty = self.conv_type(cty, ctx.what, ctx.impl)
            self.unify(v.ty, ty, ctx.what)
            return V(v.lean, ty, None, v.const)
        if segs == ["self"] and "self" in env and env["self"][0] == "val":
            return V(env["self"][1], env["self"][2])
        return super().tr_path(e, env, ctx)

    def is_signed(self, t):
        return self.res(t)[0] == "int_s"

    def tr_call(self, e, env, ctx):
        _, f, args = e
        if f[0] == "path" and len(f[1]) == 2 and f[1][0] in ("i32", "i64") and f[1][1] == "from" and len(args) == 1:
            v = self.tr(args[0], env, ctx)
            w = 32 if f[1][0] == "i32" else 64
            t = self.res(v.ty)
            if t[0] == "int" and t[1] < w:
                return V(f"({v.lean} : Int)", ("int_s", w))
            if t[0] == "int_s" and t[1] <= w:
                return V(v.lean, ("int_s", w))
            raise ShapeError(f"{ctx.what}: {f[1][0]}::from({self.show(t)}) is not a widening conversion")
        return super().tr_call(e, env, ctx)

    def tr_bin(self, e, env, ctx):
        _, op, ea, eb = e
        if op in ("+", "-", "==", "!=", "<", ">", "<=", ">="):
            try:
                a = self.tr(ea, env, ctx)
                b = self.tr(eb, env, ctx)
            except ShapeError:
                a = b = None
            if a is not None and (self.is_signed(a.ty) or self.is_signed(b.ty)):
                ty = self.unify(a.ty, b.ty, ctx.what)
                if op in ("+", "-"):
                    # exact: the operands of the one use (`i64::from(u32) + i64::from(i32)`) cannot overflow an i64
                    return V(f"({a.lean} {op} {b.lean})", ty)
                sym = {"==": "=", "!=": "≠", "<": "<", ">": ">", "<=": "≤", ">=": "≥"}[op]
                return V(f"({a.lean} {sym} {b.lean})", ("bool",), None, None, True)
        return super().tr_bin(e, env, ctx)

    def tr_cast(self, e, env, ctx):
        dst = self.conv_type(e[2], ctx.what, ctx.impl)
        try:
            v = self.tr(e[1], env, ctx)
        except ShapeError:
            v = None
        if v is not None:
            src = self.res(v.ty)
            if src[0] == "int_s" and dst[0] == "int":
                return V(f"(Int.toNat ({v.lean} % {2 ** dst[1]}))", dst)
            if dst[0] == "int_s" and src[0] in ("int", "usize"):
                w = dst[1]
                return V(f"(if {v.lean} % {2 ** w} < {2 ** (w - 1)} then (({v.lean} % {2 ** w} : Nat) : Int) else "
                         f"(({v.lean} % {2 ** w} : Nat) : Int) - {2 ** w})", dst)
        return super().tr_cast(e, env, ctx)

    def st_let(self, s, env, ctx, cont):
        _, pat, ty, init = s
        if init is not None and init[0] == "struct" and pat[0] == "pbind":
            sname = init[1] if init[1] != "Self" else ctx.impl
            if sname in VALREC or sname == "ShortFileName":
                v = self.tr(init, env, ctx)
                env2 = dict(env)
                env2[pat[1]] = ("val", lname(pat[1]), v.ty)
                return self.let_in([(lname(pat[1]), self.value(v, ctx))], cont(env2), None)
        return super().st_let(s, env, ctx, cont)

    # assignments into fields of a local record value (pure)
    def st_assign(self, e, env, ctx, cont):
        _, op, lhs, rhs = e
        path, b = [], lhs
        while b[0] == "field":
            path.append(b[2])
            b = b[1]
        path.reverse()
        if path and b[0] == "path" and len(b[1]) == 1 and b[1][0] in env and env[b[1][0]][0] == "val" and \
                self.res(env[b[1][0]][2])[0] == "vrec":
            n = b[1][0]
            var = env[n][1]
            if n in self.elem_origin:
                raise ShapeError(f"{ctx.what}: internal: assignment into the snapshot of a table element")
            if op != "=":
                rhs = ("bin", op[:-1], lhs, rhs)
            v = self.tr(rhs, env, ctx)
            ty = env[n][2]
            for f in path:
                ty = self.field_type(ty, f, ctx)
            self.unify(v.ty, ty, ctx.what)
            upd = self.nested_update(var, path, self.value(v, ctx), ctx, self.res(env[n][2])[1])
            return self.let_in([(var, upd)], cont(env), None)
        return super().st_assign(e, env, ctx, cont)

    def mrun(self, stmts, env, ctx, k):
        # `const X: T = e;` items of the block (order-independent): evaluated where they are used
        if any(st[0] == "const" for st in stmts):
            env = dict(env)
            for st in stmts:
                if st[0] == "const":
                    env[st[1]] = ("constdef", st[2], st[3])
            stmts = [st for st in stmts if st[0] != "const"]
        # `unsafe { table.push_unchecked(x); }`
        if stmts and stmts[0][0] == "expr" and stmts[0][1][0] == "unsafe":
            inner = stmts_of(stmts[0][1][1])
            for st in inner:
                ok = st[0] == "expr" and st[1][0] == "mcall" and st[1][2] == "push_unchecked" and \
                    self.table_of(st[1][1], env, ctx) is not None
                if not ok:
                    raise ShapeError(f"{ctx.what}: an `unsafe` block other than `table.push_unchecked(x)` is outside "
                                     f"the subset")
            return self.mrun(inner + stmts[1:], env, ctx, k)
        return super().mrun(stmts, env, ctx, k)

    def mexpr_k(self, e, env, ctx, kx):
        # `match .. { .. }?` / `{ .. }?`: the branches are computations
        if e[0] == "try" and e[1][0] in ("match", "if", "block"):
            tys = []

            def leaf(b, envb):
                if b[0] == "block":
                    return self.mrun(list(b[1]), dict(envb), ctx, lambda env2: leaf(b[2], env2))
                cls = self.mclass(b, envb, ctx)
                if cls[0] in ("m", "mi"):
                    tys.append(cls[2])
                    return cls[1]
                if b[0] in ("match", "if"):
                    return self.branching(b, envb, ctx, leaf)
                raise ShapeError(f"{ctx.what}: `?` on a branch that is not a fallible call")
            if e[1][0] == "block":
                text = leaf(e[1], env)
            else:
                text = self.branching(e[1], env, ctx, leaf)
            t = self.tmp()
            return self.bind(text, t, kx(t, tys[0], env))
        return super().mexpr_k(e, env, ctx, kx)


translate_m.RECORDS["VolumeManagerData"] = dict(var="s", get="M.get", lean_type="Mgr", fields={}, enum_fields={},
                                                setter=None)
translate_m.RECORDS["VolumeManager"] = dict(var="s", get="M.get", lean_type="Mgr", fields={}, enum_fields={},
                                            setter=None)
translate_m.RECORDS["HandleGenerator"] = dict(
    var="s", get="M.get", lean_type="Mgr", fields={"next_id": "nextId"}, enum_fields={},
    setter=lambda lean_field, val: f"(M.modify fun s => {{ s with {lean_field} := {val} }})")


class MgrFull(MgrMisc, MgrFns, MgrLoops, MgrStmts, MgrTrans):
    def __init__(self, items):
        super().__init__(items)
        self.elem_origin = {}


# --------------------------------------------------------------------------------------
# What is translated
# --------------------------------------------------------------------------------------

MGR_FUNCTIONS = [
    ("HandleGenerator", "generate"),
    ("VolumeManagerData", "get_volume_by_id"), ("VolumeManagerData", "get_dir_by_id"),
    ("VolumeManagerData", "get_file_by_id"), ("VolumeManagerData", "file_is_open"),
    ("VolumeManager", "has_open_handles"),
    ("VolumeManager", "file_eof"), ("VolumeManager", "file_length"), ("VolumeManager", "file_offset"),
    ("VolumeManager", "file_seek_from_start"), ("VolumeManager", "file_seek_from_current"),
    ("VolumeManager", "file_seek_from_end"),
    ("VolumeManager", "open_root_dir"), ("VolumeManager", "close_dir"), ("VolumeManager", "close_volume"),
    ("VolumeManager", "flush_file"), ("VolumeManager", "close_file"), ("VolumeManager", "delete_file_in_dir"),
    ("VolumeManager", "open_dir"), ("VolumeManager", "open_file_in_dir"), ("VolumeManager", "open_raw_volume"),
    ("VolumeManagerData", "find_data_on_disk"), ("VolumeManager", "read"), ("VolumeManager", "write"),
]
MGR_PURE = [(None, "solve_mode_variant")]

LEAN_HEADER_MGR = '''/-!
# Machine translation of the volume manager into the model's `M` monad

Every definition below is produced by `tools/translate_mgr.py` (called from tools/extract.py) from the
text of volume_mgr.rs, filesystem/files.rs, filesystem/handles.rs, filesystem/attributes.rs; nothing here is
written by hand.  `Props/C{01,02,07,08,15}GenM.lean`, `Props/C01Gen{Find,Read,Write}.lean` prove each definition
EQUAL to the hand-written `Model/Mgr.lean` as a function `Mgr → Res α × Mgr` (`read` / `write`: up to the state
left behind by a panic, see `Lemmas/GenMgrIO.lean`, `PEq`).  Statements, loops, `?`, early returns are translated as
in `Gen/FunsM.lean`; what is added at this level:

## State map (hand-written table in translate_mgr.py — part of the trusted base)

* `VolumeManagerData` is the model's `Mgr`: `open_volumes ↦ vols` (capacity `maxVols`), `open_dirs ↦ dirs`
  (`maxDirs`), `open_files ↦ files` (`maxFiles`), `id_generator.next_id ↦ nextId` (a `Wrapping<u32>`:
  `+=` is addition modulo 2^32), `block_cache ↦ dev` / `cache`.  The state is read with `M.get` at the start
  and again after every statement that may change it.
* `VolumeManager.time_source.get_timestamp()` is `s.clock`.
* The `RefCell`: `self.data.try_borrow_mut().map_err(|_| Error::LockError)?` (and `try_borrow`) is
  `if s.locked then M.fail Err.LockError`; `self.data.borrow()` is `if s.locked then M.panic "already mutably
  borrowed"`.  Nothing sets the flag (`Model.step` models the re-entrant call from a directory callback).
* Records: `FileInfo ↦ Model.FileInfo` (`current_cluster : (u32, ClusterId)` is the two fields
  `curClusterOff`, `curCluster`), `DirectoryInfo ↦ DirInfo`, `VolumeInfo ↦ VolInfo` (`volume_type:
  VolumeType` has the single variant `Fat(FatVolume)` and is the field `vol`), `DirEntry ↦ DirEntry`;
  `Mode ↦ Model.Mode`; `Timestamp` is opaque; `ShortFileName` is its eleven bytes; a generic `N:
  ToShortFileName` argument is the list of the name's characters and `name.to_short_filename().map_err(
  Error::FilenameError)` is the model's `toSfn`.
* `heapless::Vec<T, N>` is a list with the invariant `length ≤ N`: `is_full()` is `length ≥ N`, `push(x)` is
  `Err` when `length ≥ N` and appends otherwise, `push_unchecked(x)` (the unchecked push) appends,
  `swap_remove(i)` is the model's `swapRemove`, `is_empty()`, `len()`.
* A read of a table element `data.open_files[i]` is `getFile i` / `getDir i` / `getVolInfo i` (a panic when
  out of range), done anew for every statement that mentions it; a write `data.open_files[i].a.b = e` is
  `modifyFile i fun f => { f with a := { f.a with b := e } }` (the index check of a write is not modelled);
  a `&mut self` method of an element (`seek_from_start(..)`, `update_length(..)`) is read - call - `setFile`,
  with the method translated as a pure function to (result, new value); `.unwrap()` on its `Err` is a panic,
  `.map_err(|_| Error::X)?` is `M.fail Err.X`, `.ok()` drops it.
* `for x in table.iter()` / `for (i, x) in table.iter().enumerate()` whose body only looks for an element and
  `return`s is `forFirst`: the first `some` of the body, the code after the loop when there is none.
* `match &data.open_volumes[i].volume_type { VolumeType::Fat(fat) => fat.m(&mut data.block_cache, ..) }`:
  the FAT-level functions are BINDINGS here, `withVol i (Fat.m ..)` with the MODEL's function of that
  name: `find_directory_entry`, `write_new_directory_entry`, `delete_directory_entry`,
  `write_entry_to_disk` (directory functions, not translated yet), `truncate_cluster_chain`,
  `free_cluster_chain`, `alloc_cluster`, `next_cluster`, `update_info_sector` (translated in `Gen/FunsM.lean`
  and proved equal to the model there), and `fat::parse_volume` is `parseVolume` below (the model's
  sequence of reads and parsers).  `data.block_cache.read(..)` etc. outside a volume are `cacheOp (..)`.
* `fat.bytes_per_cluster()`, `fat.cluster_to_block(c)` (pure functions of the volume record) are
  `Fat.bytesPerCluster v.vol`, `Fat.clusterToBlock v.vol c` of the record read with `getVolInfo i` (BINDINGS to the
  model's functions; `Props/C04Gen.lean` ties both to the translated Rust).
* A parameter `p: &mut (A, B)` of a Copy tuple type (`find_data_on_disk`'s `start`) is an ordinary argument and the
  function answers the PAIR (last value of `p`, result) on every exit, `?` and `return` included (a panic has no
  pair).  `p.0 = e` / `p.1 = e` replace one component.  At a call the argument must be `&mut x` of a local `x`;
  `x` is rebound to the first component before the result is looked at (`match`, `?`, `.map_err(|_| E)?`).
* A parameter `buffer: &mut [u8]` is a byte list and is handed back next to the value on success (`Ok(n)` is
  `(n, buffer)`); what the caller's buffer holds after an `Err` is NOT modelled.  `buffer: &[u8]` is a byte list.
  `dst[a..a + n].copy_from_slice(&src[b..b + n])` (the same expression `n` on both sides, anything else is
  rejected) is `take a dst ++ drop b (take (b + n) src) ++ drop (a + n) dst`; the range checks of the two slices
  are not modelled (as arithmetic overflow is not).
* `for _ in 0..n { .. }` is a definition by recursion on the number of iterations left (no fuel).
* `let x = a / b;` (`%`) with a divisor that is not a non-zero constant is `if b = 0 then M.panic "attempt to
  divide by zero"` (`"attempt to calculate the remainder with a divisor of zero"`) `else ..`; `a`, `b` must be
  plain (names, fields, literals, casts, `+ - *`), any other place of such a division is rejected.
* `if call(..).is_err() { .. }` on a call written in place: `M.attempt call`, a panic / an exhausted fuel of the
  call is passed on at once, then `isOk r = false`.
* An element read `data.open_files[i]` in the right operand of `&&` / `||` is done before the statement like every
  other read of the statement (the place of the out-of-range panic INSIDE one statement is not modelled).  The
  element on the left of `=` and the receiver of a `&mut self` method are places: only their index is read.
* `module::CONST` is the constant `CONST` at the top level of `module.rs` / `module/mod.rs`.
* `assert!(c)` is `if c then .. else M.panic "assertion failed: <source text of c>"`; `const` items of a
  function body are evaluated where they are used; byte-string literals are byte lists; `i32` / `i64` are
  `Int` (`i64::from`, `+`, comparisons exact; `x as u32` is `Int.toNat (x % 2^32)`, `n as i32` is the
  two's-complement reading of `n % 2^32`).
-/
'''

PRELUDE_MGR = '''/-- `b[i]` of a byte array or slice. -/
def rdByte (b : List UInt8) (i : Nat) : Nat := (b.getD i 0).toNat

/-- `r.is_ok()` of an outcome held in a variable. -/
def isOk {α : Type} : Res α → Bool
  | .ok _ => true
  | _ => false

/-- A loop that runs out of fuel. -/
def _root_.Sdmmc.Model.M.diverge {α : Type} : M α := fun s => (.diverged, s)

/-- `for (idx, x) in xs.iter().enumerate() { .. return .. }`: the first `some` of the body, `none` when
the loop runs to its end. -/
def forFirst {α ρ : Type} : List α → Nat → (Nat → α → Option ρ) → Option ρ
  | [], _, _ => none
  | x :: xs, i, f => match f i x with
    | some r => some r
    | none => forFirst xs (i + 1) f

/-- A use of the manager's block cache outside any volume (`data.block_cache.read(..)`, ..). -/
def cacheOp {α : Type} (f : F α) : M α := fun s =>
  let (r, fs) := f { dev := s.dev, cache := s.cache, vol := default }
  (r, { s with dev := fs.dev, cache := fs.cache })

/-- `fat::parse_volume(&mut data.block_cache, lba_start, num_blocks)` (BINDING, not translated: the
model's sequence of reads and parsers). -/
def parseVolume (lbaStart numBlocks : Nat) : M FatVolume :=
  cacheOp (cacheRead lbaStart >>= fun _ => cacheBlk) >>= fun bpb =>
  M.lift (parseVolumeBpb bpb lbaStart numBlocks) >>= fun v =>
  match v.fatType with
  | .fat16 => pure v
  | .fat32 => cacheOp (cacheRead v.infoLocation >>= fun _ => cacheBlk) >>= fun info => M.lift (parseVolumeInfo v info)
'''


def render_mgr(T):
    lines = ["import Sdmmc.Model.Mgr\n", LEAN_HEADER_MGR, "set_option linter.unusedVariables false\n",
             "namespace Sdmmc.Gen.FunsMgr\n", "open Sdmmc.Model\n", PRELUDE_MGR]
    for kind, name in T.types_used:
        raise ShapeError(f"FunsMgr: the generated type {name} is not supported at the manager level")
    for key in T.order:
        info = T.done[key]
        ps = "".join(f" ({n} : {T.lean_type(t, info.name)})" for n, t in info.params)
        lines.append(f"/-- {info.doc}. -/\ndef {info.name}{ps} : {T.lean_type(info.ret, info.name)} :=\n  {pretty(info.body)}\n")
    for key in T.vorder:
        info = T.vdone[key]
        ps = "".join(f" ({n} : {T.lean_type(t, info.name)})" for n, t in info.params)
        lines.append(f"/-- {info.doc}. -/\ndef {info.name}{ps} : {T.lean_type(info.ret, info.name)} :=\n  {pretty(info.body)}\n")
    for key in T.morder:
        info = T.mdone[key]
        ps = "".join(f" ({n} : {T.lean_type(t, info.name)})" for n, t in info.params)
        for a in sorted(info.aux, key=lambda a: a[2]):
            lines.append(translate_m.render_loop(T, info, a))
        rt = T.lean_type(info.ret, info.name) if info.pure else T.raw_ret_lean(info, info.name)
        if not info.pure:
            rt = f"{T.mon} ({rt})" if " " in rt else f"{T.mon} {rt}"
        lines.append(f"/-- {info.doc}. -/\ndef {info.name}{ps} : {rt} :=\n  "
                     f"{pretty_m(info.body) if not info.pure else pretty(info.body)}\n")
    lines.append("end Sdmmc.Gen.FunsMgr\n")
    return "\n".join(lines)


def generate_mgr(read_src, functions=None, pure=None):
    items = Items()
    for f in MGR_FILES:
        items.scan_file(f, read_src(f))
    T = MgrFull(items)
    for key in (MGR_PURE if pure is None else pure):
        T.translate_fn(key)
    for key in (MGR_FUNCTIONS if functions is None else functions):
        T.translate_m(key)
    text = render_mgr(T)
    summary = {("::".join(str(x) for x in k)): [T.mdone[k].name, T.mdone[k].body, [a[1][1] for a in T.mdone[k].aux]]
               for k in T.morder}
    return text, summary
