#!/bin/bash
# Re-run the registered checks against every filed seeded change: apply to /repo, ./check <prop> [extra], revert.
# usage: tools/reeval_seeded.sh [name...]   (default: all of /verif/seeded)
cd /verif
names="$@"; [ -z "$names" ] && names=$(ls seeded)
for n in $names; do
  d=/verif/seeded/$n
  prop=$(python3 -c "import json;print(json.load(open('$d/meta.json'))['breaks_property'])")
  if ! git -C /repo apply --check $d/patch.diff 2>/dev/null; then echo "$n: patch does not apply to the current tree"; continue; fi
  git -C /repo apply $d/patch.diff
  out=$(./check $prop 2>&1 | grep -E "^VIOLATION|^KNOWN|does not build|failed" | sed 's#/verif/replays/##' | head -4 | tr '\n' ';')
  rc=$?
  sig=$(python3 -c "
import json
e=json.load(open('/verif/evidence/$prop.json'))
s=set()
for v in e.get('violations',[]) if isinstance(e.get('violations'),list) else []:
    s.add(v.get('signature',''))
print(','.join(sorted(s))[:300])" 2>/dev/null)
  git -C /repo checkout -- .
  echo "$n: $prop => ${out:-no alarm} [$sig]"
  python3 - "$d/meta.json" "$prop" "${out:-no alarm}" "$sig" <<'PY'
import json,sys
p,prop,out,sig=sys.argv[1:5]
m=json.load(open(p)); m['latest_check']={'check':prop,'result':out,'signatures':sig}
json.dump(m,open(p,'w'),indent=1)
PY
done
git -C /repo status --short | head -3
